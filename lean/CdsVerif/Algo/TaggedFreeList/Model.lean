/-
  Atomic-step model of `cds::intrusive::TaggedFreeList` (cds/intrusive/free_list_tagged.h), functions
  `put` and `get`.  `m_Head` is a 16-byte (pointer, tag) pair updated by a double-width CAS.

    put( pNode ):
        currentHead = m_Head.load()                                          -- putLd
        newHead = { pNode }
        do {
            newHead.tag = currentHead.tag + 1
            pNode->m_freeListNext.store( currentHead.ptr )                   -- putSt
        } while ( !m_Head.compare_exchange_weak( currentHead, newHead ))     -- putCas  (failure: currentHead := value seen)

    get():
        currentHead = m_Head.load()                                          -- getLd
        while ( currentHead.ptr != nullptr ) {
            newHead.ptr = currentHead.ptr->m_freeListNext.load()             -- getNext
            newHead.tag = currentHead.tag + 1
            if ( m_Head.compare_exchange_weak( currentHead, newHead ))       -- getCas  (failure: currentHead := value seen,
                break;                                                       --          NO reload of m_Head)
        }
        return currentHead.ptr;

  Memory model of the model: NO garbage collector.  The nodes are the natural numbers; every node exists from the
  beginning and for ever, and is handed back and forth between the client threads and the list.  A node that was
  obtained by `get` may be `put` again while another thread still holds a stale pointer to it (ABA), and the load
  `getNext` reads the `next` field of whatever node the stale pointer designates, wherever that node is now.
  The tag is an unbounded natural number (no wrap-around: the real tag is a `uintptr_t`, 2^64 successful CAS
  operations between a load and the CAS of one thread are ASSUMED not to happen).  `compare_exchange_weak` never
  fails spuriously in the model (a spurious failure is a retry that changes nothing).

  Ghost state: `owns t n` = thread `t` owns node `n` (it owned it initially or obtained it from `get`, and has not
  called `put` on it since).  It is a RELATION, set by the successful CAS of `get` without looking at anything:
  that a node never has two owners is a theorem, not a typing artefact.  Client discipline: `put [t, n]` may only
  be invoked by a thread that owns `n`; ownership ends at the invocation.

  One `step` = one atomic operation on shared memory.  Event rendering (the `A` lines of the harness trace; the
  harness names `m_Head` "head" and shows a node's `m_freeListNext`, its field at offset 0, under the node's name):
      ld   head  <ptr>#<tag>                          load of m_Head
      ld   n<a>  <ptr>                                load of node a's m_freeListNext
      st   n<a>  <ptr>                                store to node a's m_freeListNext
      cas+ head  <old ptr>#<old tag> <new ptr>#<new tag>     successful CAS on m_Head
      cas- head  <seen ptr>#<seen tag> <expected ptr>#<expected tag>    failed CAS on m_Head
  where <ptr> is `null` or `n<id>` and <tag> is decimal.
-/
import CdsVerif.Base.Machine
namespace CdsVerif.Algo.TaggedFreeList
open CdsVerif.Machine CdsVerif.Spec

inductive PC
  | idle
  | putLd (n : Nat)                                  -- next: currentHead = m_Head.load()
  | putSt (n : Nat) (hp : Option Nat) (hg : Nat)     -- next: pNode->m_freeListNext.store( currentHead.ptr )
  | putCas (n : Nat) (hp : Option Nat) (hg : Nat)    -- next: CAS( m_Head, currentHead, { pNode, currentHead.tag + 1 } )
  | getLd                                            -- next: currentHead = m_Head.load()
  | getNext (p : Nat) (g : Nat)                      -- next: newHead.ptr = currentHead.ptr->m_freeListNext.load()
  | getCas (p : Nat) (g : Nat) (nx : Option Nat)     -- next: CAS( m_Head, currentHead, { newHead.ptr, currentHead.tag + 1 } )
  | done (r : GRet)
deriving DecidableEq, Repr

structure St where
  head : Option Nat × Nat        -- m_Head: (ptr, tag); none = nullptr
  next : Nat → Option Nat        -- m_freeListNext of every node
  pc : Tid → PC
  owns : Tid → Nat → Bool        -- ghost

/-- Initially the list is empty (`tagged_ptr()` = (nullptr, 0)), every node's `m_freeListNext` is null (node
    constructor) and node `n` is owned by thread `own0 n`. -/
def init (own0 : Nat → Tid) : St := ⟨(none, 0), fun _ => none, fun _ => .idle, fun t n => decide (own0 n = t)⟩

/-! ### Event rendering (the only place where events are built) -/

def ptr : Option Nat → String
  | none => "null"
  | some a => s!"n{a}"
def nloc (a : Nat) : String := s!"n{a}"
def headLoc : String := "head"
/-- The 16-byte head as the harness renders it: `n3#7`, `null#0`. -/
def hval (p : Option Nat) (g : Nat) : String := s!"{ptr p}#{g}"

def evLdHead (p : Option Nat) (g : Nat) : Ev := ⟨"ld", headLoc, hval p g, ""⟩
def evLd (loc : String) (v : Option Nat) : Ev := ⟨"ld", loc, ptr v, ""⟩
def evSt (loc : String) (v : Option Nat) : Ev := ⟨"st", loc, ptr v, ""⟩
def evCasOk (op : Option Nat) (og : Nat) (np : Option Nat) (ng : Nat) : Ev := ⟨"cas+", headLoc, hval op og, hval np ng⟩
def evCasFail (sp : Option Nat) (sg : Nat) (ep : Option Nat) (eg : Nat) : Ev := ⟨"cas-", headLoc, hval sp sg, hval ep eg⟩

/-! ### Transitions -/

/-- `put [t, n]` (enabled only if the calling thread owns node `n ≥ 1`; the ownership ends here) and `get [t]`.
    The first argument is the calling thread as written in the harness histories; it is not used. -/
def invoke (s : St) (t : Tid) (op : GOp) : Option St :=
  match s.pc t, op.name, op.args with
  | .idle, "put", [_, n] =>
    if 0 < n ∧ s.owns t n.toNat = true then
      some { s with owns := upd2 s.owns t n.toNat false, pc := upd s.pc t (.putLd n.toNat) }
    else none
  | .idle, "get", [_] => some { s with pc := upd s.pc t .getLd }
  | _, _, _ => none

/-- Where `get` continues with `currentHead = (p, g)`: the loop test `currentHead.ptr != nullptr`. -/
def getLoop (p : Option Nat) (g : Nat) : PC :=
  match p with
  | none => .done [0]
  | some a => .getNext a g

def step (s : St) (t : Tid) : Option (St × Ev) :=
  match s.pc t with
  | .putLd n => some ({ s with pc := upd s.pc t (.putSt n s.head.1 s.head.2) }, evLdHead s.head.1 s.head.2)
  | .putSt n hp hg =>
    some ({ s with next := upd s.next n hp, pc := upd s.pc t (.putCas n hp hg) }, evSt (nloc n) hp)
  | .putCas n hp hg =>
    if s.head.1 = hp ∧ s.head.2 = hg then
      some ({ s with head := (some n, hg + 1), pc := upd s.pc t (.done [1]) }, evCasOk hp hg (some n) (hg + 1))
    else
      some ({ s with pc := upd s.pc t (.putSt n s.head.1 s.head.2) }, evCasFail s.head.1 s.head.2 hp hg)
  | .getLd => some ({ s with pc := upd s.pc t (getLoop s.head.1 s.head.2) }, evLdHead s.head.1 s.head.2)
  | .getNext p g => some ({ s with pc := upd s.pc t (.getCas p g (s.next p)) }, evLd (nloc p) (s.next p))
  | .getCas p g nx =>
    if s.head.1 = some p ∧ s.head.2 = g then
      some ({ s with head := (nx, g + 1), owns := upd2 s.owns t p true, pc := upd s.pc t (.done [1, p]) },
            evCasOk (some p) g nx (g + 1))
    else
      some ({ s with pc := upd s.pc t (getLoop s.head.1 s.head.2) }, evCasFail s.head.1 s.head.2 (some p) g)
  | _ => none

def result (s : St) (t : Tid) : Option (St × GRet) :=
  match s.pc t with
  | .done r => some ({ s with pc := upd s.pc t .idle }, r)
  | _ => none

def model : Model St := ⟨invoke, step, result⟩

/-- The trace lines of a run, as the harness prints them (`T <tid> A <event>` for atomic events). -/
def render (os : List (Tid × Obs)) : List String :=
  os.map fun (t, o) => match o with
    | .call op => s!"T {t} C {op.name} {op.args}"
    | .ev e => s!"T {t} A {e}"
    | .ret r => s!"T {t} R {r}"

/-! ### Initial state for trace replay

The header comment of a case carries `own=<n>:<t>,…` (nodes a scheduled thread holds when the program starts; every
other node belongs to the main thread, tid 90) and `init=<n>,<n>,…` (the untraced `put`s the main thread performs
before the program starts, in order).  The initial puts are executed here by the machine itself, so the start state
of the replay is a state of a run of the machine from `init own0`. -/

def cfgWord (key : String) (cfg : List String) : Option String :=
  cfg.findSome? (fun w => if w.startsWith (key ++ "=") then some (w.drop (key.length + 1)).toString else none)

def parseOwn (s : String) : List (Nat × Nat) :=
  (s.splitOn ",").filterMap fun w => match w.splitOn ":" with
    | [a, b] => match a.toNat?, b.toNat? with
      | some n, some t => some (n, t)
      | _, _ => none
    | _ => none

def runOp (s : St) (t : Tid) (op : GOp) : St :=
  match invoke s t op with
  | none => s
  | some s1 =>
    let rec go (fuel : Nat) (s : St) : St :=
      match fuel with
      | 0 => s
      | fuel + 1 => match step s t with
        | some (s', _) => go fuel s'
        | none => s
    match result (go 16 s1) t with
    | some (s2, _) => s2
    | none => s1

def initCfg (cfg : List String) : St :=
  let own := parseOwn ((cfgWord "own" cfg).getD "")
  let own0 : Nat → Tid := fun n => match own.find? (·.1 == n) with
    | some (_, t) => t
    | none => 90
  let puts := (((cfgWord "init" cfg).getD "").splitOn ",").filterMap (·.toNat?)
  puts.foldl (fun s n => runOp s 90 ⟨"put", [90, (n : Int)]⟩) (init own0)

end CdsVerif.Algo.TaggedFreeList

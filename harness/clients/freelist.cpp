// Free lists: cds::intrusive::FreeList, TaggedFreeList and CachedFreeList<> over both.
//
// The nodes are client-owned objects numbered 1..N (N = 3..6).  Every node is, at any moment, either
// "in the bag" (the free list) or owned by exactly one thread.  A thread may only put a node it owns, and what
// it owns after a get() is not known statically, so the program operations are dynamic:
//
//   get        get a node
//   put_any    put the node this thread acquired longest ago; if it owns none, behaves as get
//   put_last   put the node this thread acquired most recently; if it owns none, behaves as get
//
// The framework's O lines therefore do not carry the real operation (`O t i r put_any : 1 3` = "put node 3",
// `O t i r put_any : 0 2` = "owned nothing, did a get that returned node 2", `: 0 0` = get returned empty,
// `: -1` = skipped because an oracle had already failed);
// spec() is "none" and the client judges the run itself:
//
//   double-hand-out       get() returned a node that is currently owned by a thread (exact: the ownership map is
//                         updated with no scheduling point in between: before put() is called / right after get() returns)
//   invented              get() returned a pointer that is not one of the nodes
//   empty-while-nonempty  (strict variants only: tagged, cached*_tagged; `--strict 1` forces it for all, `--strict 0`
//                         disables it) get() returned nullptr although some node was in the bag during the whole
//                         call (its put() had returned before the get() was invoked, nobody obtained it until the
//                         get() returned and no get() still in progress can have unlinked it).  Not raised for
//                         FreeList / CachedFreeList<FreeList> by default: FreeList defers the insertion of a node that
//                         is still referenced by a concurrent get() and makes no such promise (`# cov relaxed_empty`
//                         counts the events there).
//   at quiescence (finish(), main thread): the list is drained with get(); exactly the nodes that were put and not
//   taken must come out: lost-node / duplicate-on-drain / double-hand-out / drain-not-terminating / not-empty-after-drain
//
// The real history is also written as `H` lines in the syntax of `O` lines (initial puts by the main thread:
// `H 90 0 0 put v : 1`, the quiescent drain: tid 91), so that
//     grep -v '^O ' out | sed 's/^H /O /' | cdsdriver lincheck        (client run with `--spec bag`)
// judges it against Spec.bag.  Plain FreeList is expected to produce some NOTLIN histories (about 2% of the cases):
// a put() whose node is still referenced by a concurrent get() returns before the node is linked (the last getter
// that drops its reference links it), and that getter then returns nullptr although it has just linked the node
// (its failed CAS left head == nullptr and the loop does not reload m_Head).  So get() -> nullptr does not imply
// that the bag was empty at any instant of the call.  Safety (no double hand-out, no lost node) is not affected.
#include <cds/init.h>
#include <cds/intrusive/free_list.h>
#include <cds/intrusive/free_list_tagged.h>
#include <cds/intrusive/free_list_cached.h>
#include <deque>
#include <functional>
#include <memory>
#include <thread>
#include "../client.h"

using namespace khizmax_libcds_verif;
namespace ci = cds::intrusive;

static const int MAXN = 6;
static const int MAXTH = 16;

// CachedFreeList picks its cache cell by hashing the OS thread id, which differs from one process run to the next
// (a case of a cached variant would not replay).  The hash -- environment, not algorithm -- is therefore replaced
// by a slot number chosen by the client per case and thread (explicit specialisations of the private get_hash(),
// possible because the harness is compiled with -fno-access-control).  `--slots real` restores the original expression.
static bool g_real_slots = false;
static thread_local size_t tl_slot = 0;       // the main thread (set-up, quiescent drain) uses slot 0
typedef ci::CachedFreeList<ci::FreeList, 4> cached4_fl;
typedef ci::CachedFreeList<ci::TaggedFreeList, 4> cached4_tg;
typedef ci::CachedFreeList<ci::FreeList, 8, 8> cached8_fl;
typedef ci::CachedFreeList<ci::TaggedFreeList, 8, 8> cached8_tg;
#define KHIZMAX_SLOT_HASH( T ) \
    template <> size_t T::get_hash() \
    { \
        return ( g_real_slots ? std::hash<std::thread::id>()( std::this_thread::get_id()) : tl_slot ) & ( c_cache_size - 1 ); \
    }
namespace cds { namespace intrusive {
    KHIZMAX_SLOT_HASH( cached4_fl )
    KHIZMAX_SLOT_HASH( cached4_tg )
    KHIZMAX_SLOT_HASH( cached8_fl )
    KHIZMAX_SLOT_HASH( cached8_tg )
}}

struct IFree {
    virtual ~IFree() {}
    virtual void put( int v ) = 0;
    virtual int get() = 0;              // 0 = empty, -1 = unknown pointer, else the node's number
    virtual bool empty() = 0;
    virtual size_t cache_size() const { return 0; }
    bool poisoned = false;              // an oracle has failed: the structure may be corrupted, do not walk it any more
};

// symbolic names for traces
static void name_list( ci::FreeList& l, std::string const& pfx )
{
    reg_name( &l.m_Head, sizeof( l.m_Head ), pfx + "head" );
}
static void name_list( ci::TaggedFreeList& l, std::string const& pfx )
{
    reg_name( &l.m_Head, sizeof( l.m_Head ), pfx + "head" );
}
template <class L, size_t N, unsigned P>
static void name_list( ci::CachedFreeList<L, N, P>& l, std::string const& )
{
    for ( size_t i = 0; i < N; ++i ) {
        char nm[32]; std::snprintf( nm, sizeof nm, "cache%zu", i );
        reg_name( &l.m_cache[i], sizeof( void* ), nm );
    }
    name_list( l.m_freeList, "fl." );
}
// The registry must not hold two entries with the same base address (the whole item is registered as "n<v>" so that
// pointer VALUES render symbolically): the field at offset 0 is therefore shown under the item's name --
// FreeList node: n<v> = m_freeListRefs, n<v>.next = m_freeListNext; TaggedFreeList node: n<v> = m_freeListNext.
static void name_node( ci::FreeList::node* p, int v )
{
    char nm[32];
    std::snprintf( nm, sizeof nm, "n%d.next", v ); reg_name( &p->m_freeListNext, sizeof( p->m_freeListNext ), nm );
}
static void name_node( ci::TaggedFreeList::node*, int ) {}

template <class List> struct cache_size_of { static constexpr size_t value = 0; };
template <class L, size_t N, unsigned P> struct cache_size_of< ci::CachedFreeList<L, N, P> > { static constexpr size_t value = N; };

template <class List>
struct FL : IFree {
    typedef typename List::node node_t;
    struct item : node_t { int id; };
    // the nodes outlive the list: the list may reference a node for as long as it exists
    std::vector<std::unique_ptr<item>> items;       // items[v - 1] is node v
    std::unique_ptr<List> fl;

    explicit FL( int n ) : fl( new List )
    {
        name_list( *fl, "" );
        for ( int v = 1; v <= n; ++v ) {
            items.emplace_back( new item );
            items.back()->id = v;
            name_node( static_cast<node_t*>( items.back().get()), v );
            char nm[16]; std::snprintf( nm, sizeof nm, "n%d", v );
            reg_name( items.back().get(), sizeof( item ), nm );
        }
    }
    ~FL()
    {
        if ( !poisoned ) fl->clear( []( node_t* ) {} );
        fl.reset();
    }
    void put( int v ) override { fl->put( static_cast<node_t*>( items[size_t( v - 1 )].get())); }
    int get() override
    {
        node_t* p = fl->get();
        if ( !p ) return 0;
        for ( auto const& it : items )
            if ( static_cast<node_t*>( it.get()) == p )
                return it->id;
        return -1;
    }
    bool empty() override { return fl->empty(); }
    size_t cache_size() const override { return cache_size_of<List>::value; }
};

struct Fixture {
    static char const* family() { return "freelist"; }
    static std::vector<std::string> variants()
    {
        return { "freelist", "tagged", "cached4_freelist", "cached4_tagged", "cached8_freelist", "cached8_tagged" };
    }

    std::unique_ptr<IFree> L;
    std::string variant;
    bool failed = false;
    std::string failure;
    bool strict = false;
    int N = 0;

    // ownership oracle
    int owner[MAXN + 1];            // -1 = in the bag, else the owning thread
    int putting[MAXN + 1];          // number of put() calls of this node that have not returned yet
    unsigned gen[MAXN + 1];         // incremented each time the node is handed out
    int getting = 0;                // get() calls in progress
    std::deque<int> own[MAXTH];     // nodes owned by a thread, in acquisition order

    // self-recorded history
    struct HRec { int tid; uint64_t inv, res; bool is_put; int v; };
    std::vector<HRec> hist;
    std::vector<int> initial;       // nodes put by the main thread in the constructor
    unsigned n_empty = 0, n_relaxed_empty = 0, n_get = 0, n_put = 0;
    size_t slots[MAXTH];
    int nthreads = 0;

    // After the first verdict the structure is not touched any more (a corrupted list may make later calls spin,
    // and the framework's abort path would not print the verdict).
    void fail( std::string const& s ) { failed = true; if ( failure.empty()) failure = s; L->poisoned = true; }

    explicit Fixture( Case const& c ) : variant( c.variant )
    {
        // the constructor runs twice per case (program generation, then the run): everything is a function of the case
        Rng r( c.seed * 0x9E3779B1ull + c.index * 0x85EBCA77ull + 99 );
        N = 3 + int( r.below( 4 ));
        nthreads = c.threads;
        std::string const& v = variant;
        if ( v == "freelist" ) L.reset( new FL<ci::FreeList>( N ));
        else if ( v == "tagged" ) L.reset( new FL<ci::TaggedFreeList>( N ));
        else if ( v == "cached4_freelist" ) L.reset( new FL<cached4_fl>( N ));
        else if ( v == "cached4_tagged" ) L.reset( new FL<cached4_tg>( N ));
        else if ( v == "cached8_freelist" ) L.reset( new FL<cached8_fl>( N ));
        else if ( v == "cached8_tagged" ) L.reset( new FL<cached8_tg>( N ));
        else { std::fprintf( stderr, "unknown variant %s\n", v.c_str()); std::exit( 2 ); }

        long st = c.optl( "strict", -1 );
        strict = st < 0 ? ( v == "tagged" || v == "cached4_tagged" || v == "cached8_tagged" ) : st != 0;

        for ( int i = 0; i <= MAXN; ++i ) { owner[i] = -1; putting[i] = 0; gen[i] = 0; }
        // cache slots: all threads on one cell / one cell per thread / random
        auto opt = c.opt.find( "slots" );
        g_real_slots = opt != c.opt.end() && opt->second == "real";
        {
            unsigned mode = unsigned( r.below( 3 ));
            size_t base = size_t( r.below( 8 ));
            for ( int t = 0; t < MAXTH; ++t )
                slots[t] = mode == 0 ? base : mode == 1 ? base + size_t( t ) : size_t( r.below( 8 ));
        }
        // distribute the nodes among the list and the threads
        unsigned list_pct = 25 + unsigned( r.below( 50 ));
        int nt = nthreads < 1 ? 1 : nthreads;
        for ( int n = 1; n <= N; ++n ) {
            if ( r.chance( list_pct )) {
                L->put( n );
                initial.push_back( n );
            }
            else {
                int t = int( r.below( uint64_t( nt )));
                owner[n] = t;
                own[t].push_back( n );
            }
        }
    }
    std::string spec() const { return "none"; }

    std::vector<std::vector<Op>> program( Rng& r, int nth, int nops )
    {
        std::vector<std::vector<Op>> p( nth );
        if ( nops > 6 ) nops = 6;
        if ( nops < 1 ) nops = 1;
        for ( int t = 0; t < nth; ++t ) {
            int n = 1 + int( r.below( uint64_t( nops )));
            unsigned style = unsigned( r.below( 5 ));
            if ( style == 0 ) {
                // get; put_last; get; put_last … : re-add a node right after getting it, while another getter may
                // still hold a reference to it
                for ( int i = 0; i < n; ++i ) p[t].push_back( Op( i % 2 == 0 ? "get" : "put_last" ));
            }
            else if ( style == 1 ) {
                // get; put_any; get
                for ( int i = 0; i < n; ++i ) p[t].push_back( Op( i % 2 == 0 ? "get" : "put_any" ));
            }
            else if ( style == 2 ) {
                // get; get; put_any; get; put_any … : the shape of the ABA scenario of a Treiber-style pop (another
                // getter has read head = A and A.next = B; this thread takes A and B and puts A back)
                for ( int i = 0; i < n; ++i ) p[t].push_back( Op( i < 2 || i % 2 == 1 ? "get" : "put_any" ));
            }
            else {
                unsigned get_pct = 35 + unsigned( r.below( 35 ));
                for ( int i = 0; i < n; ++i ) {
                    if ( r.chance( get_pct )) p[t].push_back( Op( "get" ));
                    else p[t].push_back( Op( r.chance( 50 ) ? "put_any" : "put_last" ));
                }
            }
        }
        return p;
    }

    void thread_begin( int tid )
    {
        if ( tid >= 0 && tid < MAXTH ) {
            if ( g_real_slots ) slots[tid] = std::hash<std::thread::id>()( std::this_thread::get_id());
            else tl_slot = slots[tid];
        }
    }
    void thread_end( int ) {}

    std::vector<long> exec( int t, Op const& op )
    {
        if ( failed ) return { -1 };
        uint64_t inv = tick();
        if ( op.name != "get" && !own[t].empty()) {
            int v;
            if ( op.name == "put_last" ) { v = own[t].back(); own[t].pop_back(); }
            else { v = own[t].front(); own[t].pop_front(); }
            // from now on any thread may legitimately obtain v
            owner[v] = -1;
            ++putting[v];
            L->put( v );
            --putting[v];
            ++n_put;
            uint64_t res = tick();
            hist.push_back( HRec{ t, inv, res, true, v } );
            return { 1, v };
        }

        // get.  Nodes that are in the bag now (put() returned, not handed out):
        unsigned snap[MAXN + 1];
        bool stable[MAXN + 1];
        for ( int n = 1; n <= N; ++n ) {
            stable[n] = owner[n] == -1 && putting[n] == 0;
            snap[n] = gen[n];
        }
        ++getting;
        int v = L->get();
        --getting;
        ++n_get;
        if ( v < 0 ) {
            fail( "invented get() returned a pointer that is not a node; thread " + std::to_string( t ));
            v = 0;
        }
        else if ( v > 0 ) {
            if ( owner[v] != -1 )
                fail( "double-hand-out node " + std::to_string( v ) + " returned to thread " + std::to_string( t )
                      + " while owned by thread " + std::to_string( owner[v] ));
            owner[v] = t;
            ++gen[v];
            own[t].push_back( v );
        }
        else {
            ++n_empty;
            // a get() of another thread that is still in progress may already have unlinked one of the candidates:
            // the verdict needs more candidates than such calls (sound; exact when there is none)
            int cnt = 0, witness = 0;
            for ( int n = 1; n <= N; ++n )
                if ( stable[n] && owner[n] == -1 && gen[n] == snap[n] ) { ++cnt; witness = n; }
            if ( cnt > getting ) {
                ++n_relaxed_empty;
                if ( strict )
                    fail( "empty-while-nonempty get() by thread " + std::to_string( t ) + " returned nullptr while node "
                          + std::to_string( witness ) + " was in the list during the whole call" );
            }
        }
        uint64_t res = tick();
        hist.push_back( HRec{ t, inv, res, false, v } );
        return { 0, v };
    }

    void finish( std::ostream& out )
    {
        // quiescent drain
        std::vector<int> expect;
        for ( int n = 1; n <= N; ++n )
            if ( owner[n] == -1 ) expect.push_back( n );
        bool seen[MAXN + 1] = {};
        bool terminated = false;
        for ( int i = 0; i < N + 2 && !failed; ++i ) {
            uint64_t inv = tick();
            int v = L->get();
            uint64_t res = tick();
            if ( v < 0 ) { fail( "invented drain obtained a pointer that is not a node" ); break; }
            hist.push_back( HRec{ 91, inv, res, false, v } );
            if ( v == 0 ) { terminated = true; break; }
            if ( seen[v] ) { fail( "duplicate-on-drain node " + std::to_string( v )); break; }
            seen[v] = true;
            if ( owner[v] != -1 )
                fail( "double-hand-out drain obtained node " + std::to_string( v ) + " owned by thread " + std::to_string( owner[v] ));
        }
        if ( !terminated && !failed ) fail( "drain-not-terminating" );
        for ( int n : expect )
            if ( !seen[n] && !failed ) fail( "lost-node " + std::to_string( n ) + " was put and never taken but the quiescent drain did not find it" );
        if ( terminated && !failed && !L->empty()) fail( "not-empty-after-drain empty() is false after get() returned nullptr" );

        for ( int n : initial )
            out << "H 90 0 0 put " << n << " : 1\n";
        for ( HRec const& h : hist ) {
            out << "H " << h.tid << ' ' << h.inv << ' ' << h.res;
            if ( h.is_put ) out << " put " << h.v << " : 1\n";
            else if ( h.v ) out << " get : 1 " << h.v << '\n';
            else out << " get : 0\n";
        }
        out << "# cov nodes=" << N << " initial=" << initial.size() << " puts=" << n_put << " gets=" << n_get
            << " empty=" << n_empty << " relaxed_empty=" << n_relaxed_empty << " strict=" << ( strict ? 1 : 0 );
        if ( L->cache_size()) {
            out << " slots=";
            for ( int t = 0; t < nthreads && t < MAXTH; ++t )
                out << ( t ? "," : "" ) << ( slots[t] & ( L->cache_size() - 1 ));
        }
        out << '\n';
    }
};

int main( int argc, char** argv )
{
    cds::Initialize();
    int rc = client_main<Fixture>( argc, argv );
    cds::Terminate();
    return rc;
}

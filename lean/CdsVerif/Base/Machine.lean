/-
  Small-step machines for the protocol models (tie A and the interleaving theorems).

  A model is a deterministic-per-thread transition system: what a thread does next is a
  function of the global state; the *schedule* (which thread moves, which operation a
  client invokes) is the only source of non-determinism, and every theorem quantifies
  over all schedules, all thread counts and all client programs.

  One `step` of thread `t` is "everything `t` does up to and including its next atomic
  operation on shared memory", and yields the event that the instrumented real code
  writes to the trace (`T <tid> A <kind> <loc> <a> [<b>]`).
-/
import CdsVerif.Base.Spec
namespace CdsVerif.Machine
open CdsVerif.Spec

abbrev Tid := Nat

/-- An atomic event in the rendering of the harness trace. -/
structure Ev where
  kind : String          -- ld st xchg cas+ cas- add sub and or xor fence
  loc : String
  a : String := ""       -- ld: value read; st: value written; xchg/cas+/rmw: old value; cas-: value seen
  b : String := ""       -- xchg/cas+: new value; cas-: expected value; rmw: argument
deriving DecidableEq, Repr

instance : ToString Ev where
  toString e := s!"{e.kind} {e.loc} {e.a} {e.b}".trimAscii.toString

/-- What a scheduler may ask of a thread. -/
inductive Act
  | invoke (op : GOp)    -- the client calls an operation (thread must be idle)
  | step                 -- the thread performs its next atomic operation
  | ret                  -- the operation returns to the client
deriving DecidableEq, Repr

/-- Observable outcome of an action. -/
inductive Obs
  | call (op : GOp)
  | ev (e : Ev)
  | ret (r : GRet)
deriving DecidableEq, Repr

structure Model (σ : Type) where
  invoke : σ → Tid → GOp → Option σ
  step : σ → Tid → Option (σ × Ev)
  result : σ → Tid → Option (σ × GRet)

variable {σ : Type}

def Model.apply (m : Model σ) (s : σ) (t : Tid) : Act → Option (σ × Obs)
  | .invoke op => (m.invoke s t op).map (fun s' => (s', .call op))
  | .step => (m.step s t).map (fun r => (r.1, .ev r.2))
  | .ret => (m.result s t).map (fun r => (r.1, .ret r.2))

/-- Run a schedule; a schedule that asks for a disabled action is not a run. -/
def Model.run (m : Model σ) : σ → List (Tid × Act) → Option (σ × List (Tid × Obs))
  | s, [] => some (s, [])
  | s, (t, a) :: rest =>
    match m.apply s t a with
    | none => none
    | some (s', o) =>
      match m.run s' rest with
      | none => none
      | some (s'', os) => some (s'', (t, o) :: os)

def Model.Reachable (m : Model σ) (init s : σ) : Prop :=
  ∃ sched os, m.run init sched = some (s, os)

/-- An invariant preserved by every enabled action holds in every reachable state. -/
theorem Model.inv_of_inductive (m : Model σ) (Inv : σ → Prop)
    (hstep : ∀ s t a s' o, Inv s → m.apply s t a = some (s', o) → Inv s') :
    ∀ (sched : List (Tid × Act)) (s s' : σ) os, Inv s → m.run s sched = some (s', os) → Inv s' := by
  intro sched
  induction sched with
  | nil => intro s s' os h hr; simp [Model.run] at hr; exact hr.1 ▸ h
  | cons x rest ih =>
    intro s s' os h hr
    obtain ⟨t, a⟩ := x
    simp only [Model.run] at hr
    cases hap : m.apply s t a with
    | none => simp [hap] at hr
    | some p =>
      obtain ⟨s1, o⟩ := p
      simp only [hap] at hr
      cases hrr : m.run s1 rest with
      | none => simp [hrr] at hr
      | some q =>
        obtain ⟨s2, os2⟩ := q
        simp only [hrr, Option.some.injEq, Prod.mk.injEq] at hr
        exact hr.1 ▸ ih s1 s2 os2 (hstep s t a s1 o h hap) hrr

theorem Model.inv_reachable (m : Model σ) (Inv : σ → Prop) (init : σ) (h0 : Inv init)
    (hstep : ∀ s t a s' o, Inv s → m.apply s t a = some (s', o) → Inv s') :
    ∀ s, m.Reachable init s → Inv s := by
  intro s ⟨sched, os, hr⟩
  exact m.inv_of_inductive Inv hstep sched init s os h0 hr

/-- Functional update of a per-thread or per-object table. -/
def upd {α : Type} (f : Nat → α) (i : Nat) (v : α) : Nat → α := fun j => if j = i then v else f j

@[simp] theorem upd_same {α : Type} (f : Nat → α) (i : Nat) (v : α) : upd f i v i = v := by simp [upd]
@[simp] theorem upd_other {α : Type} (f : Nat → α) (i j : Nat) (v : α) (h : j ≠ i) : upd f i v j = f j := by simp [upd, h]

/-- Functional update of a two-index table. -/
def upd2 {α : Type} (f : Nat → Nat → α) (i j : Nat) (v : α) : Nat → Nat → α :=
  fun i' j' => if i' = i ∧ j' = j then v else f i' j'

end CdsVerif.Machine

// Differential tie between the Lean batch model  CdsVerif/Algo/FC/Batch.lean  (elimPasses + applyAll:
// dequeBatch / queueBatch / stackBatch / pqBatch)  and the REAL flat-combining containers
//      cds/container/fcdeque.h, fcqueue.h, fcstack.h, fcpriority_queue.h   +   cds/algo/flat_combining/kernel.h
//
// Single-threaded.  One case = one real container object (over std::deque / std::queue / std::stack /
// std::priority_queue of long; elimination enabled where the container has it), pre-filled, plus a publication
// list built by hand: every record is the kernel's own `publication_record_type` (the container's `fc_record` plus
// the wait strategy's part), linked through `pNext` behind the kernel's head record, `nState = active`, `nAge = 0`,
// `nRequest` = the operation code, value pointer set -- what `acquire_record` / `publish` / `batch_combine` leave behind
// before the combiner starts.  Then ONE combiner session of the real code is executed, by one of three routes:
//      api   the head record is item 0 of the batch and is issued through the PUBLIC member function (push_front(),
//            pop(), clear(), empty() ...): acquire_record -> batch_combine/combine -> try_lock -> batch_combining/combining
//            -> fc_process x nCombinePassCount -> combining_pass -> fc_apply.  Nothing of the kernel is bypassed.
//      krn   the mutex is taken by hand and the kernel's private `batch_combining( owner )` (`combining` for the priority
//            queue) is called; `owner` is a thin subclass that logs the calls of fc_apply / fc_process and forwards them.
//      man   the combiner session is spelled out here: n x real fc_process( begin(), end()), then real fc_apply +
//            operation_done on every record still pending, in list order (= combining_pass).
//   (suffix 1/0 on krn/man: item 0 lives in the kernel's head record / the head record stays empty and inactive)
// Which record was finished by elimination and which by fc_apply is read off the real data: a record is "applied" iff
// combining_pass stamped its nAge (api), resp. iff the logging subclass saw the fc_apply call (krn), resp. by construction (man).
//
// Line format (compiled with -fno-access-control; no spaces inside the [...] lists):
//   <kind> n=<nCombinePassCount> route=<r> init=[v,..] batch=[item,..] -> res=[r,..] final=[v,..] coll=<pairs collided>
//   kind   deque | queue | stack | pq
//   init   deque/queue: front first; stack: top first; pq: insertion order
//   item   deque: pushF:v pushFm:v pushB:v pushBm:v popF popB clear      queue: enq:v enqm:v deq clear
//          stack: push:v pushm:v pop clear empty                          pq: push:v pushm:v pop clear
//          D = a record already marked done (nRequest = req_Response), E = an empty record (req_EmptyRecord)
//   res    e:<x> finished by elimination (fc_process), a:<x> finished by fc_apply;  x = ok (push kinds, clear),
//          =v (pop got v), empty (pop: bEmpty; `empty!v` if the destination was written nevertheless), true/false (empty()),
//          `-` for D/E records left untouched (`-!` if touched), PENDING if the record was not marked done
//   final  same orientation as init; pq: in pop order (descending)
//   coll   the library's own statistics counter m_nCollided
// Anything else appended to a line (API-RET-MISMATCH, LOG-MISMATCH) is a self-check failure and never matches the model.
//
// usage: fcbatch <seed> <cases per kind> [all|deque|queue|stack|pq] [first case]      generate and run
//        fcbatch -                                                                  run the cases read from stdin (text left of `->`)
#include <cstdint>
#include <cstdio>
#include <cstdlib>
#include <cstring>
#include <deque>
#include <queue>
#include <stack>
#include <string>
#include <vector>
#include <iostream>
#include <memory>
#include <mutex>
#include <cds/container/fcdeque.h>
#include <cds/container/fcqueue.h>
#include <cds/container/fcstack.h>
#include <cds/container/fcpriority_queue.h>

namespace fc = cds::algo::flat_combining;
namespace cc = cds::container;

static const long SENT = -999999;

enum Cls { PUSH, POP, CLEAR, EMPTYQ };
struct OpDesc { const char * tok; unsigned code; Cls cls; unsigned weight; };

struct Item { int op; long val; };            // op: index into the kind's table, -1 = D, -2 = E
struct Case {
    std::string kind, route;
    unsigned n;
    std::vector<long> init;
    std::vector<Item> batch;
};

// ---------------------------------------------------------------------------------------------------------
// the four containers

struct DequeTraits: public cc::fcdeque::traits {
    typedef cc::fcdeque::stat<> stat;
    static constexpr const bool enable_elimination = true;
};
struct QueueTraits: public cc::fcqueue::traits {
    typedef cc::fcqueue::stat<> stat;
    static constexpr const bool enable_elimination = true;
};
struct StackTraits: public cc::fcstack::traits {
    typedef cc::fcstack::stat<> stat;
    static constexpr const bool enable_elimination = true;
};
struct PQTraits: public cc::fcpqueue::traits {
    typedef cc::fcpqueue::stat<> stat;
};

struct DequeA {
    typedef cc::FCDeque< long, std::deque<long>, DequeTraits > container;
    static const char * name() { return "deque"; }
    static const bool elimination = true;
    static std::vector<OpDesc> ops() {
        return { { "pushF", container::op_push_front, PUSH, 14 }, { "pushFm", container::op_push_front_move, PUSH, 7 },
                 { "pushB", container::op_push_back, PUSH, 14 }, { "pushBm", container::op_push_back_move, PUSH, 7 },
                 { "popF", container::op_pop_front, POP, 22 }, { "popB", container::op_pop_back, POP, 22 },
                 { "clear", container::op_clear, CLEAR, 5 } };
    }
    template <class R> static void setPush( R * r, long const * p ) { r->pValPush = p; }
    template <class R> static void setPop( R * r, long * p ) { r->pValPop = p; }
    static void fill( container& c, std::vector<long> const& v ) { for ( long x : v ) c.m_Deque.push_back( x ); }
    static std::vector<long> content( container& c ) { return std::vector<long>( c.m_Deque.begin(), c.m_Deque.end()); }
    static size_t collided( container& c ) { return c.statistics().m_nCollided.get(); }
    static int api( container& c, int op, long& v ) {     // returns the public function's result (-1: void)
        switch ( op ) {
        case 0: return c.push_front( static_cast<long const&>( v ));
        case 1: return c.push_front( std::move( v ));
        case 2: return c.push_back( static_cast<long const&>( v ));
        case 3: return c.push_back( std::move( v ));
        case 4: return c.pop_front( v );
        case 5: return c.pop_back( v );
        default: c.clear(); return -1;
        }
    }
};

struct QueueA {
    typedef cc::FCQueue< long, std::queue<long>, QueueTraits > container;
    static const char * name() { return "queue"; }
    static const bool elimination = true;
    static std::vector<OpDesc> ops() {
        return { { "enq", container::op_enq, PUSH, 26 }, { "enqm", container::op_enq_move, PUSH, 13 },
                 { "deq", container::op_deq, POP, 42 }, { "clear", container::op_clear, CLEAR, 5 } };
    }
    template <class R> static void setPush( R * r, long const * p ) { r->pValEnq = p; }
    template <class R> static void setPop( R * r, long * p ) { r->pValDeq = p; }
    static void fill( container& c, std::vector<long> const& v ) { for ( long x : v ) c.m_Queue.push( x ); }
    static std::vector<long> content( container& c ) { return std::vector<long>( c.m_Queue.c.begin(), c.m_Queue.c.end()); }
    static size_t collided( container& c ) { return c.statistics().m_nCollided.get(); }
    static int api( container& c, int op, long& v ) {
        switch ( op ) {
        case 0: return c.enqueue( static_cast<long const&>( v ));
        case 1: return c.enqueue( std::move( v ));
        case 2: return c.dequeue( v );
        default: c.clear(); return -1;
        }
    }
};

struct StackA {
    typedef cc::FCStack< long, std::stack<long>, StackTraits > container;
    static const char * name() { return "stack"; }
    static const bool elimination = true;
    static std::vector<OpDesc> ops() {
        return { { "push", container::op_push, PUSH, 25 }, { "pushm", container::op_push_move, PUSH, 12 },
                 { "pop", container::op_pop, POP, 40 }, { "clear", container::op_clear, CLEAR, 5 },
                 { "empty", container::op_empty, EMPTYQ, 8 } };
    }
    template <class R> static void setPush( R * r, long const * p ) { r->pValPush = p; }
    template <class R> static void setPop( R * r, long * p ) { r->pValPop = p; }
    static void fill( container& c, std::vector<long> const& v ) { for ( size_t i = v.size(); i-- > 0; ) c.m_Stack.push( v[i] ); }
    static std::vector<long> content( container& c ) { return std::vector<long>( c.m_Stack.c.rbegin(), c.m_Stack.c.rend()); }
    static size_t collided( container& c ) { return c.statistics().m_nCollided.get(); }
    static int api( container& c, int op, long& v ) {
        switch ( op ) {
        case 0: return c.push( static_cast<long const&>( v ));
        case 1: return c.push( std::move( v ));
        case 2: return c.pop( v );
        case 3: c.clear(); return -1;
        default: return c.empty();
        }
    }
};

struct PQA {
    typedef cc::FCPriorityQueue< long, std::priority_queue<long>, PQTraits > container;
    static const char * name() { return "pq"; }
    static const bool elimination = false;
    static std::vector<OpDesc> ops() {
        return { { "push", container::op_push, PUSH, 28 }, { "pushm", container::op_push_move, PUSH, 14 },
                 { "pop", container::op_pop, POP, 42 }, { "clear", container::op_clear, CLEAR, 5 } };
    }
    template <class R> static void setPush( R * r, long const * p ) { r->pValPush = p; }
    template <class R> static void setPop( R * r, long * p ) { r->pValPop = p; }
    static void fill( container& c, std::vector<long> const& v ) { for ( long x : v ) c.m_PQueue.push( x ); }
    static std::vector<long> content( container& c ) {
        std::priority_queue<long> q( c.m_PQueue );
        std::vector<long> v;
        while ( !q.empty()) { v.push_back( q.top()); q.pop(); }
        return v;
    }
    static size_t collided( container& ) { return 0; }
    static int api( container& c, int op, long& v ) {
        switch ( op ) {
        case 0: return c.push( static_cast<long const&>( v ));
        case 1: return c.push( std::move( v ));
        case 2: return c.pop( v );
        default: c.clear(); return -1;
        }
    }
};

// The `owner` handed to the kernel in route krn: logs and forwards.  (The kernel calls owner.fc_apply / owner.fc_process
// on the static type of its argument, so the calls arrive here first.)
template <class Base>
struct Logged: public Base {
    std::vector<void *> applied;
    unsigned nProcess = 0;
    Logged( unsigned cf, unsigned pc ): Base( cf, pc ) {}
    template <class R> void fc_apply( R * p ) { applied.push_back( static_cast<fc::publication_record *>( p )); Base::fc_apply( p ); }
    template <class It> void fc_process( It b, It e ) { ++nProcess; Base::fc_process( b, e ); }
};

// ---------------------------------------------------------------------------------------------------------

static std::string list_text( std::vector<long> const& v )
{
    std::string s = "[";
    for ( size_t i = 0; i < v.size(); ++i ) { if ( i ) s += ','; s += std::to_string( v[i] ); }
    return s + "]";
}

template <class A>
static std::string case_text( Case const& cs )
{
    std::vector<OpDesc> ops = A::ops();
    std::string s = cs.kind + " n=" + std::to_string( cs.n ) + " route=" + cs.route + " init=" + list_text( cs.init ) + " batch=[";
    for ( size_t i = 0; i < cs.batch.size(); ++i ) {
        Item const& it = cs.batch[i];
        if ( i ) s += ',';
        if ( it.op == -1 ) s += "D";
        else if ( it.op == -2 ) s += "E";
        else {
            s += ops[it.op].tok;
            if ( ops[it.op].cls == PUSH ) { s += ':'; s += std::to_string( it.val ); }
        }
    }
    return s + "]";
}

template <class A>
static std::string run_case( Case const& cs )
{
    typedef typename A::container C;
    typedef typename C::fc_kernel K;
    typedef typename K::publication_record_type Rec;

    std::vector<OpDesc> ops = A::ops();
    size_t const N = cs.batch.size();
    bool const api = cs.route == "api";
    bool const krn = cs.route.compare( 0, 3, "krn" ) == 0;
    bool const useHead = api || cs.route == "krn1" || cs.route == "man1";
    std::string flags;

    Logged<C> c( 1024, cs.n );
    K& k = c.m_FlatCombining;
    A::fill( c, cs.init );

    std::unique_ptr<Rec[]> recs( new Rec[N + 1] );
    std::vector<long> pushv( N + 1, 0 ), popv( N + 1, SENT );
    std::vector<Rec *> r( N + 1, nullptr );
    Rec * head = k.m_pHead;
    for ( size_t i = 0; i < N; ++i )
        r[i] = ( i == 0 && useHead ) ? head : &recs[i];

    // what the requesting threads leave behind
    if ( useHead && !api && N > 0 )
        k.acquire_record();                       // the head record is this thread's: publish() makes it active
    for ( size_t i = 0; i < N; ++i ) {
        Item const& it = cs.batch[i];
        Rec * p = r[i];
        pushv[i] = it.val;
        p->bEmpty = true;                          // stale value of an earlier use of the record
        if ( it.op >= 0 && ops[it.op].cls == PUSH )
            A::setPush( p, &pushv[i] );
        else
            A::setPop( p, &popv[i] );              // clear / empty / D / E: stale pointer of an earlier use
        if ( p == head && api )
            continue;                             // state, age and request are set by the public function
        if ( p != head ) {
            p->nState.store( fc::active, atomics::memory_order_relaxed );
            p->nAge.store( 0, atomics::memory_order_relaxed );
        }
        unsigned req = it.op == -1 ? unsigned( fc::req_Response ) : it.op == -2 ? unsigned( fc::req_EmptyRecord ) : ops[it.op].code;
        p->nRequest.store( req, atomics::memory_order_release );
    }
    // the publication list: head -> item 0 (or 1) -> ... -> last
    {
        fc::publication_record * prev = head;
        for ( size_t i = ( useHead ? 1 : 0 ); i < N; ++i ) {
            prev->pNext.store( r[i], atomics::memory_order_release );
            prev = r[i];
        }
        prev->pNext.store( nullptr, atomics::memory_order_release );
    }

    std::vector<bool> applied( N + 1, false );
    int apiRet = -2;
    if ( N == 0 ) {
        // nothing published: the combiner is not started
    }
    else if ( api ) {
        apiRet = A::api( c, cs.batch[0].op, ops[cs.batch[0].op].cls == PUSH ? pushv[0] : popv[0] );
        for ( size_t i = 0; i < N; ++i )
            applied[i] = r[i]->nAge.load( atomics::memory_order_relaxed ) == 1;     // stamped by combining_pass: nCurAge = 1
    }
    else if ( krn ) {
        k.m_Mutex.lock();
        if ( A::elimination )
            k.batch_combining( c );
        else
            k.combining( c );
        k.m_Mutex.unlock();
        for ( size_t i = 0; i < N; ++i ) {
            for ( void * q : c.applied )
                if ( q == static_cast<fc::publication_record *>( r[i] ))
                    applied[i] = true;
            if ( applied[i] != ( r[i]->nAge.load( atomics::memory_order_relaxed ) == 1 ))
                flags = " LOG-MISMATCH";
        }
        if ( A::elimination && c.nProcess != cs.n )
            flags = " LOG-MISMATCH";
    }
    else {
        k.m_Mutex.lock();
        if ( A::elimination )
            for ( unsigned pass = 0; pass < cs.n; ++pass )
                c.C::fc_process( k.begin(), k.end());
        for ( fc::publication_record * p = k.m_pHead; p; p = p->pNext.load( atomics::memory_order_acquire )) {
            if ( p->nState.load( atomics::memory_order_acquire ) == fc::active && p->op( atomics::memory_order_acquire ) >= fc::req_Operation ) {
                c.C::fc_apply( static_cast<Rec *>( p ));
                k.operation_done( *p );
                for ( size_t i = 0; i < N; ++i )
                    if ( static_cast<fc::publication_record *>( r[i] ) == p )
                        applied[i] = true;
            }
        }
        k.m_Mutex.unlock();
    }

    std::string res = "res=[";
    for ( size_t i = 0; i < N; ++i ) {
        Item const& it = cs.batch[i];
        Rec * p = r[i];
        if ( i ) res += ',';
        if ( it.op < 0 ) {
            unsigned want = it.op == -1 ? unsigned( fc::req_Response ) : unsigned( fc::req_EmptyRecord );
            bool untouched = p->op() == want && popv[i] == SENT && p->bEmpty && !applied[i];
            res += untouched ? "-" : "-!";
            continue;
        }
        bool isApiHead = api && i == 0;            // release_record() has already reset its nRequest
        if ( !isApiHead && N > 0 && p->op() != fc::req_Response ) { res += "PENDING"; continue; }
        res += applied[i] ? "a:" : "e:";
        std::string x;
        switch ( ops[it.op].cls ) {
        case PUSH:
        case CLEAR:
            x = "ok";
            if ( isApiHead && ops[it.op].cls == PUSH && apiRet != 1 ) flags = " API-RET-MISMATCH";
            break;
        case POP:
            if ( p->bEmpty ) x = popv[i] == SENT ? std::string( "empty" ) : "empty!" + std::to_string( popv[i] );
            else x = "=" + std::to_string( popv[i] );
            if ( isApiHead && apiRet != ( p->bEmpty ? 0 : 1 )) flags = " API-RET-MISMATCH";
            break;
        case EMPTYQ:
            x = p->bEmpty ? "true" : "false";
            if ( isApiHead && apiRet != ( p->bEmpty ? 1 : 0 )) flags = " API-RET-MISMATCH";
            break;
        }
        res += x;
    }
    res += "] final=" + list_text( A::content( c )) + " coll=" + std::to_string( A::collided( c )) + flags;

    head->pNext.store( nullptr, atomics::memory_order_release );    // the hand-made records are not the kernel's to free
    return res;
}

// ---------------------------------------------------------------------------------------------------------
// generation

struct Rng {
    uint64_t s;
    uint64_t next() {
        uint64_t z = ( s += 0x9E3779B97F4A7C15ull );
        z = ( z ^ ( z >> 30 )) * 0xBF58476D1CE4E5B9ull;
        z = ( z ^ ( z >> 27 )) * 0x94D049BB133111EBull;
        return z ^ ( z >> 31 );
    }
    unsigned below( unsigned n ) { return unsigned( next() % n ); }
};

template <class A>
static Case gen_case( uint64_t seed, unsigned kindNo, uint64_t idx )
{
    Rng g{ seed * 0x2545F4914F6CDD1Dull + kindNo * 0x9E3779B97F4A7C15ull + idx * 0xD1B54A32D192ED03ull };
    g.next(); g.next();
    std::vector<OpDesc> ops = A::ops();
    Case cs;
    cs.kind = A::name();
    cs.n = A::elimination ? ( g.below( 10 ) < 5 ? 1 : g.below( 4 )) : 1 + g.below( 2 );
    bool dup = g.below( 10 ) == 0;               // small values with repetitions instead of all-distinct values
    unsigned ni = g.below( 5 ) < 2 ? 0 : 1 + g.below( 4 );
    for ( unsigned i = 0; i < ni; ++i )
        cs.init.push_back( dup ? long( g.below( 4 )) - 1 : 10 + long( i ) + 10 * long( g.below( 3 )));
    unsigned len = g.below( 12 ) == 0 ? g.below( 2 ) : 2 + g.below( 7 );      // 0..8
    unsigned total = 0;
    for ( auto const& o : ops ) total += o.weight;
    for ( unsigned i = 0; i < len; ++i ) {
        unsigned x = g.below( 100 );
        Item it{ 0, 0 };
        if ( x < 6 ) it.op = -1;
        else if ( x < 10 ) it.op = -2;
        else {
            unsigned w = g.below( total ), j = 0;
            while ( w >= ops[j].weight ) { w -= ops[j].weight; ++j; }
            it.op = int( j );
            if ( ops[j].cls == PUSH )
                it.val = dup ? long( g.below( 4 )) - 1 : 100 + long( i ) * 10 + long( g.below( 10 ));
        }
        cs.batch.push_back( it );
    }
    unsigned rt = g.below( 10 );
    bool hd = g.below( 3 ) != 0;
    if ( rt < 4 && len > 0 && cs.batch[0].op >= 0 ) cs.route = "api";     // item 0 must be a real request
    else if ( rt < 7 ) cs.route = hd ? "krn1" : "krn0";
    else cs.route = hd ? "man1" : "man0";
    return cs;
}

template <class A>
static void emit( Case const& cs )
{
    std::string in = case_text<A>( cs );
    std::printf( "%s -> ", in.c_str());
    std::fflush( stdout );                        // a crash / assert inside the library leaves the input visible
    std::string out = run_case<A>( cs );
    std::printf( "%s\n", out.c_str());
}

template <class A>
static void generate( uint64_t seed, unsigned kindNo, uint64_t first, uint64_t count )
{
    for ( uint64_t i = first; i < first + count; ++i )
        emit<A>( gen_case<A>( seed, kindNo, i ));
}

// ---------------------------------------------------------------------------------------------------------
// replay of given lines

static std::vector<std::string> split( std::string const& s, char sep )
{
    std::vector<std::string> v;
    std::string cur;
    for ( char ch : s ) {
        if ( ch == sep ) { v.push_back( cur ); cur.clear(); }
        else cur += ch;
    }
    v.push_back( cur );
    return v;
}

static bool inner( std::string const& w, char const * key, std::string& out )      // key=[...]  ->  ...
{
    size_t kl = std::strlen( key );
    if ( w.compare( 0, kl, key ) != 0 || w.size() < kl + 2 || w[kl] != '[' || w.back() != ']' ) return false;
    out = w.substr( kl + 1, w.size() - kl - 2 );
    return true;
}

template <class A>
static bool parse_and_run( std::vector<std::string> const& w )
{
    std::vector<OpDesc> ops = A::ops();
    Case cs;
    cs.kind = A::name();
    cs.n = 1;
    cs.route = "man0";
    for ( size_t i = 1; i < w.size(); ++i ) {
        std::string in;
        if ( w[i] == "->" ) break;
        if ( w[i].compare( 0, 2, "n=" ) == 0 ) cs.n = unsigned( std::strtoul( w[i].c_str() + 2, nullptr, 10 ));
        else if ( w[i].compare( 0, 6, "route=" ) == 0 ) cs.route = w[i].substr( 6 );
        else if ( inner( w[i], "init=", in )) {
            if ( !in.empty()) for ( auto const& t : split( in, ',' )) cs.init.push_back( std::strtol( t.c_str(), nullptr, 10 ));
        }
        else if ( inner( w[i], "batch=", in )) {
            if ( !in.empty()) for ( auto const& t : split( in, ',' )) {
                Item it{ 0, 0 };
                if ( t == "D" ) it.op = -1;
                else if ( t == "E" ) it.op = -2;
                else {
                    std::vector<std::string> kv = split( t, ':' );
                    int j = -1;
                    for ( size_t q = 0; q < ops.size(); ++q ) if ( kv[0] == ops[q].tok ) j = int( q );
                    if ( j < 0 ) return false;
                    it.op = j;
                    if ( ops[j].cls == PUSH ) { if ( kv.size() != 2 ) return false; it.val = std::strtol( kv[1].c_str(), nullptr, 10 ); }
                }
                cs.batch.push_back( it );
            }
        }
        else return false;
    }
    if ( cs.route != "api" && cs.route != "krn0" && cs.route != "krn1" && cs.route != "man0" && cs.route != "man1" ) return false;
    if ( cs.route == "api" && ( cs.batch.empty() || cs.batch[0].op < 0 )) return false;
    if ( !A::elimination && cs.n == 0 ) return false;
    emit<A>( cs );
    return true;
}

int main( int argc, char ** argv )
{
    if ( argc >= 2 && std::strcmp( argv[1], "-" ) == 0 ) {
        std::string line;
        while ( std::getline( std::cin, line )) {
            std::vector<std::string> w;
            for ( auto const& t : split( line, ' ' )) if ( !t.empty()) w.push_back( t );
            if ( w.empty()) continue;
            bool ok = false;
            if ( w[0] == "deque" ) ok = parse_and_run<DequeA>( w );
            else if ( w[0] == "queue" ) ok = parse_and_run<QueueA>( w );
            else if ( w[0] == "stack" ) ok = parse_and_run<StackA>( w );
            else if ( w[0] == "pq" ) ok = parse_and_run<PQA>( w );
            if ( !ok ) std::printf( "%s -> bad-line\n", line.c_str());
        }
        return 0;
    }
    if ( argc < 3 ) {
        std::fprintf( stderr, "usage: fcbatch <seed> <cases per kind> [all|deque|queue|stack|pq] [first]   |   fcbatch -  (cases on stdin)\n" );
        return 2;
    }
    uint64_t seed = std::strtoull( argv[1], nullptr, 10 );
    uint64_t count = std::strtoull( argv[2], nullptr, 10 );
    std::string which = argc > 3 ? argv[3] : "all";
    uint64_t first = argc > 4 ? std::strtoull( argv[4], nullptr, 10 ) : 0;
    if ( which == "all" || which == "deque" ) generate<DequeA>( seed, 0, first, count );
    if ( which == "all" || which == "queue" ) generate<QueueA>( seed, 1, first, count );
    if ( which == "all" || which == "stack" ) generate<StackA>( seed, 2, first, count );
    if ( which == "all" || which == "pq" ) generate<PQA>( seed, 3, first, count );
    return 0;
}

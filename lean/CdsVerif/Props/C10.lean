/-
  C10 — FCDeque: "a push at one end is collided with a pop at the other end only when the deque is empty",
  and a combiner pass over a batch of publication records is explained by a sequential execution.

  Property theorems about the pure transcription of `FCDeque::fc_apply` / `FCDeque::fc_process`
  (CdsVerif/Algo/FC/Batch.lean; C++: cds/container/fcdeque.h).

  What the code does, exactly (`C10_collide_rule`), for the pair `(itPrev, it)` of neighbouring pending requests:
     itPrev = pop  at end E, it = push at end E : collided, whatever the deque contains
     itPrev = pop  at end E, it = push at the other end : collided iff the deque is empty
     itPrev = push at end E, it = pop  at the other end : collided iff the deque is empty
     itPrev = push at end E, it = pop  at end E : collided iff the deque is NOT empty
  The last line is an asymmetry of the C++ (`case op_pop_front: if ( m_Deque.empty() ) switch ( itPrev->op() )
  { case op_push_back … default: itPrev = it; }`): on an empty deque `push_front(v)` followed by `pop_front()` is not
  eliminated although it could be.  That is a missed elimination, not an error: `C10_batch_refines` holds.
-/
import CdsVerif.Base.Spec
import CdsVerif.Algo.FC.Batch
namespace CdsVerif.Props.C10
open CdsVerif.Lin CdsVerif.Spec CdsVerif.Algo.FC

/-- The oracle of tie H is exact: a history of the real container is accepted by the driver iff it is
    linearizable to the sequential specification. -/
theorem C10_history_oracle_exact  (ops : List (OpRec GOp GRet)) (hwf : ∀ o ∈ ops, o.inv ≤ o.res) :
    linCheck deque ops = true ↔ Linearizable deque ops :=
  linCheck_iff _ ops hwf

/-! ### The collision rule -/

def isPushFront (r : DReq) : Prop := r.kind = .pushFront ∨ r.kind = .pushFrontMove
def isPushBack (r : DReq) : Prop := r.kind = .pushBack ∨ r.kind = .pushBackMove
/-- The request works at the front end / at the back end of the deque. -/
def atFront (r : DReq) : Prop := isPushFront r ∨ r.kind = .popFront
def atBack (r : DReq) : Prop := isPushBack r ∨ r.kind = .popBack

/-- EXACTLY when `fc_process` collides the neighbouring pending requests `itPrev = prev` and `it`
    (`empty` = `m_Deque.empty()`).  Nothing else is ever collided (`clear` never). -/
theorem C10_collide_rule (empty : Bool) (prev it : DReq) :
    (dequeCollide empty prev it).isSome = true ↔
      (isPushFront it ∧ (prev.kind = .popFront ∨ (empty = true ∧ prev.kind = .popBack))) ∨
      (isPushBack it ∧ (prev.kind = .popBack ∨ (empty = true ∧ prev.kind = .popFront))) ∨
      (it.kind = .popFront ∧ ((empty = true ∧ isPushBack prev) ∨ (empty = false ∧ isPushFront prev))) ∨
      (it.kind = .popBack ∧ ((empty = true ∧ isPushFront prev) ∨ (empty = false ∧ isPushBack prev))) := by
  obtain ⟨pk, pv⟩ := prev
  obtain ⟨ik, iv⟩ := it
  cases empty <;> cases ik <;> cases pk <;> simp [dequeCollide, isPushFront, isPushBack]

/-- What a collision writes: the pop receives the value of the push (`*recPop.pValPop = *recPush.pValPush;
    recPop.bEmpty = false`), the push succeeds; one of the two is a push and the other a pop. -/
theorem C10_collide_values (empty : Bool) (prev it : DReq) (a b : Resp)
    (h : dequeCollide empty prev it = some (a, b)) :
    ((isPushFront it ∨ isPushBack it) ∧ (prev.kind = .popFront ∨ prev.kind = .popBack) ∧ a = [1, it.val] ∧ b = [1]) ∨
    ((isPushFront prev ∨ isPushBack prev) ∧ (it.kind = .popFront ∨ it.kind = .popBack) ∧ a = [1] ∧ b = [1, prev.val]) := by
  obtain ⟨pk, pv⟩ := prev
  obtain ⟨ik, iv⟩ := it
  cases empty <;> cases ik <;> cases pk <;> simp [dequeCollide, isPushFront, isPushBack] at h ⊢ <;>
    (obtain ⟨rfl, rfl⟩ := h; simp)

/-- THE PROPERTY, on the pair test: requests working at opposite ends are collided only on an empty deque. -/
theorem C10_cross_end_only_if_empty (empty : Bool) (prev it : DReq)
    (hx : (atFront prev ∧ atBack it) ∨ (atBack prev ∧ atFront it))
    (h : (dequeCollide empty prev it).isSome = true) : empty = true := by
  obtain ⟨pk, pv⟩ := prev
  obtain ⟨ik, iv⟩ := it
  cases empty <;> cases ik <;> cases pk <;>
    simp [dequeCollide, atFront, atBack, isPushFront, isPushBack] at h hx ⊢

/-- … and on an empty deque a push and a pop at opposite ends ARE collided, in either order. -/
theorem C10_cross_end_if_empty (prev it : DReq)
    (hx : (isPushFront prev ∧ it.kind = .popBack) ∨ (isPushBack prev ∧ it.kind = .popFront) ∨
          (prev.kind = .popBack ∧ isPushFront it) ∨ (prev.kind = .popFront ∧ isPushBack it)) :
    (dequeCollide true prev it).isSome = true := by
  obtain ⟨pk, pv⟩ := prev
  obtain ⟨ik, iv⟩ := it
  cases ik <;> cases pk <;> simp [dequeCollide, isPushFront, isPushBack] at hx ⊢

/-- Same end, pop published before the push: collided regardless of emptiness. -/
theorem C10_same_end_pop_push (empty : Bool) (prev it : DReq)
    (hx : (prev.kind = .popFront ∧ isPushFront it) ∨ (prev.kind = .popBack ∧ isPushBack it)) :
    (dequeCollide empty prev it).isSome = true := by
  obtain ⟨pk, pv⟩ := prev
  obtain ⟨ik, iv⟩ := it
  cases empty <;> cases ik <;> cases pk <;> simp [dequeCollide, isPushFront, isPushBack] at hx ⊢

/-- Same end, push published before the pop: collided iff the deque is NOT empty (the asymmetry of the C++). -/
theorem C10_same_end_push_pop (empty : Bool) (prev it : DReq)
    (hx : (isPushFront prev ∧ it.kind = .popFront) ∨ (isPushBack prev ∧ it.kind = .popBack)) :
    (dequeCollide empty prev it).isSome = true ↔ empty = false := by
  obtain ⟨pk, pv⟩ := prev
  obtain ⟨ik, iv⟩ := it
  cases empty <;> cases ik <;> cases pk <;> simp [dequeCollide, isPushFront, isPushBack] at hx ⊢

/-- THE PROPERTY, on whole batches: every pair that `fc_process` collides on deque `d` in batch `rs` satisfies the
    collision rule with `empty := d.isEmpty`; in particular a pair working at opposite ends is collided only if
    `d = []`. -/
theorem C10_collisions_in_batch (d : List Int) (rs : List DReq) :
    ∀ pr ∈ dequeCollisions d rs,
      (dequeCollide d.isEmpty pr.1 pr.2).isSome = true ∧
      (((atFront pr.1 ∧ atBack pr.2) ∨ (atBack pr.1 ∧ atFront pr.2)) → d = []) := by
  intro pr hpr
  have h := (elimGo_pairs dequePart (dequeCollide d.isEmpty) _ none (by intro p hp; cases hp) pr hpr).2.2
  refine ⟨h, fun hx => ?_⟩
  have := C10_cross_end_only_if_empty d.isEmpty pr.1 pr.2 hx h
  simpa using this

/-! ### A combiner pass is a sequential execution of a permutation of the batch -/

/-- `fc_apply` is one step of the sequential deque specification with the same response, for each of
    push_front / push_back (copy and move), pop_front, pop_back. -/
theorem C10_apply_is_spec (d : List Int) (r : DReq) (h : r.kind ≠ .clear) :
    dequeStep d r.toGOp = some (dequeApply d r) := by
  rw [← dequeStepC_eq_dequeStep d r h]; exact dequeApply_spec d r

/-- The move variants behave as the copying ones. -/
theorem C10_move_same (d : List Int) (v : Int) :
    dequeApply d ⟨.pushFrontMove, v⟩ = dequeApply d ⟨.pushFront, v⟩ ∧
    dequeApply d ⟨.pushBackMove, v⟩ = dequeApply d ⟨.pushBack, v⟩ ∧
    (∀ e p, dequeCollide e p ⟨.pushFrontMove, v⟩ = dequeCollide e p ⟨.pushFront, v⟩) ∧
    (∀ e p, dequeCollide e p ⟨.pushBackMove, v⟩ = dequeCollide e p ⟨.pushBack, v⟩) ∧
    (∀ e i, dequeCollide e ⟨.pushFrontMove, v⟩ i = dequeCollide e ⟨.pushFront, v⟩ i) ∧
    (∀ e i, dequeCollide e ⟨.pushBackMove, v⟩ i = dequeCollide e ⟨.pushBack, v⟩ i) := by
  refine ⟨rfl, rfl, fun _ _ => rfl, fun _ _ => rfl, ?_, ?_⟩ <;>
    (intro e i; obtain ⟨ik, iv⟩ := i; cases e <;> cases ik <;> rfl)

/-- General form (any number `n` of `fc_process` walks before `combining_pass`, `clear` requests allowed, the
    specification is `Spec.dequeStep` extended with `clear`): every request of the batch gets a response, and the
    responses and the final deque are those of a sequential execution of SOME permutation of the batch. -/
theorem C10_session_refines (n : Nat) (d : List Int) (rs : List DReq) :
    (dequeBatch n d rs).2.length = rs.length ∧
    ∃ perm : List (DReq × Resp), perm.Perm (rs.zip (dequeBatch n d rs).2) ∧
      seqRun (fun s (r : DReq) => dequeStepC s r.toGOp) d perm = some (dequeBatch n d rs).1 :=
  batch_refines dequePart (dequeCollide d.isEmpty) dequeSpec d dequeApply dequeApply_spec
    (fun p r a b _ _ hc => dequeCollide_noop d p r a b hc) n rs

/-- `C10_session_refines` against `Spec.dequeStep` itself, for batches of push_front / push_back / pop_front /
    pop_back requests (copy or move; no `clear`, which `Spec.dequeStep` does not have). -/
theorem C10_session_refines_spec (n : Nat) (d : List Int) (rs : List DReq) (hnc : ∀ r ∈ rs, r.kind ≠ .clear) :
    (dequeBatch n d rs).2.length = rs.length ∧
    ∃ perm : List (DReq × Resp), perm.Perm (rs.zip (dequeBatch n d rs).2) ∧
      seqRun (fun s (r : DReq) => dequeStep s r.toGOp) d perm = some (dequeBatch n d rs).1 := by
  obtain ⟨hl, perm, hp, hrun⟩ := C10_session_refines n d rs
  refine ⟨hl, perm, hp, ?_⟩
  rw [← hrun]
  apply seqRun_congr
  intro x hx s
  have hx' : x.1 ∈ rs := by
    have : x ∈ rs.zip (dequeBatch n d rs).2 := hp.mem_iff.mp hx
    obtain ⟨r, a⟩ := x
    exact (List.of_mem_zip this).1
  exact (dequeStepC_eq_dequeStep s x.1 (hnc x.1 hx')).symm

/-- C10_batch_refines.  For every deque `d` and every batch `rs` of push_front / push_back / pop_front / pop_back
    requests (copy or move): the responses produced by `fc_process` (`dequeProcess`) followed by `fc_apply` on the
    requests it left (`dequeFinish`) are the responses of executing SOME permutation of the batch sequentially on `d`
    with `Spec.dequeStep`, and the final deque is the final state of that sequential run.
    (All requests of a batch are pending at the same time, so every permutation respects real time: this is what
    makes a combiner pass linearizable, see `C10_batch_linearizable`.) -/
theorem C10_batch_refines (d : List Int) (rs : List DReq) (hnc : ∀ r ∈ rs, r.kind ≠ .clear) :
    let fin := dequeFinish (dequeProcess d rs).1 rs (dequeProcess d rs).2
    fin.2.length = rs.length ∧
    ∃ perm : List (DReq × Resp), perm.Perm (rs.zip fin.2) ∧
      seqRun (fun s (r : DReq) => dequeStep s r.toGOp) d perm = some fin.1 := by
  intro fin
  have hfin : fin = dequeBatch 1 d rs := dequeBatch_one d rs
  rw [hfin]
  exact C10_session_refines_spec 1 d rs hnc

/-- A combiner session is linearizable: if `ops` are the history records of the requests of one batch (operations
    `rs`, observed results = the responses computed by `n` walks of `fc_process` + `combining_pass` on deque `d`) and
    they overlap pairwise, then `ops` is linearizable to `Spec.deque` started in `d`. -/
theorem C10_batch_linearizable (n : Nat) (d : List Int) (rs : List DReq) (hnc : ∀ r ∈ rs, r.kind ≠ .clear)
    (ops : List (OpRec GOp GRet))
    (hops : ops.map (fun o => (o.op, o.ret)) = (rs.zip (dequeBatch n d rs).2).map (fun p => (p.1.toGOp, p.2)))
    (hconc : ∀ a ∈ ops, ∀ b ∈ ops, ¬ b.res < a.inv) :
    LinearizableFrom deque d ops := by
  obtain ⟨_, perm, hp, hrun⟩ := C10_session_refines_spec n d rs hnc
  exact linearizable_of_perm [] dequeStep DReq.toGOp d _ _ perm hp hrun ops hops hconc

/-- The same without elimination (`combine`, the default `enable_elimination = false`): requests are applied in
    publication-list order, the permutation is the identity. -/
theorem C10_combine_refines (d : List Int) (rs : List DReq) :
    seqRun (fun s (r : DReq) => dequeStepC s r.toGOp) d (rs.zip (dequeBatch 0 d rs).2) = some (dequeBatch 0 d rs).1 := by
  induction rs generalizing d with
  | nil => rfl
  | cons r rs ih =>
    have h := dequeApply_spec d r
    simp only [dequeSpec] at h
    simp only [dequeBatch, elimPasses, List.map_cons, applyAll, List.zip_cons_cons, seqRun, h, if_true]
    exact ih (dequeApply d r).1 |>.trans (by simp [dequeBatch, elimPasses])

/-! ### Examples (evaluated by `decide`) -/

/-- Non-empty deque [7]: `push_back 5` then `pop_front` (opposite ends) are NOT collided; the pop gets 7. -/
example : dequeProcess [7] [⟨.pushBack, 5⟩, ⟨.popFront, 0⟩] = ([7], [none, none]) ∧
    dequeFinish [7] [⟨.pushBack, 5⟩, ⟨.popFront, 0⟩] [none, none] = ([5], [[1], [1, 7]]) := by decide

/-- Empty deque: the same pair IS collided, the pop gets 5 and the deque is untouched. -/
example : dequeProcess [] [⟨.pushBack, 5⟩, ⟨.popFront, 0⟩] = ([], [some [1], some [1, 5]]) := by decide

/-- Same end, pop first: collided on a non-empty deque as well. -/
example : dequeProcess [7] [⟨.popFront, 0⟩, ⟨.pushFront, 5⟩] = ([7], [some [1, 5], some [1]]) := by decide

/-- Same end, push first, EMPTY deque: not collided (the asymmetry); `fc_apply` then gives the same answers. -/
example : dequeProcess [] [⟨.pushFront, 5⟩, ⟨.popFront, 0⟩] = ([], [none, none]) ∧
    dequeFinish [] [⟨.pushFront, 5⟩, ⟨.popFront, 0⟩] [none, none] = ([], [[1], [1, 5]]) := by decide

/-- `clear` has no case label: `itPrev` survives it, so the pop before and the push after a `clear` collide. -/
example : dequeProcess [7] [⟨.popBack, 0⟩, ⟨.clear, 0⟩, ⟨.pushBack, 5⟩] = ([7], [some [1, 5], none, some [1]]) := by
  decide

/-- After a collision `itPrev` is reset: of pop, push, pop only the first two collide. -/
example : dequeProcess [7] [⟨.popFront, 0⟩, ⟨.pushFront, 5⟩, ⟨.popFront, 0⟩] =
    ([7], [some [1, 5], some [1], none]) := by decide

end CdsVerif.Props.C10

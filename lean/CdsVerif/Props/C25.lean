/-
Property C25: bit-manipulation primitives of libcds
(`cds/algo/bit_reversal.h`, `cds/algo/bitop.h` + `cds/compiler/bitop_generic.h`, `cds/algo/int_algo.h`).

Every theorem is about the generated definitions in `CdsVerif.Gen.BitReversal` /
`CdsVerif.Gen.BitopGeneric` and quantifies over ALL inputs.  Helper lemmas live in
`CdsVerif.Algo.Bits.Lemmas`.  The C `int` results of msb/lsb/sbc/zbc are `BitVec 32`.
-/
import CdsVerif.Algo.Bits.Lemmas

namespace CdsVerif.Props.C25

open CdsVerif.Gen.BitReversal CdsVerif.Gen.BitopGeneric CdsVerif.Algo.Bits

/-! ## Bit reversal -/

/-- the reference `BitVec.reverse` is the index-mirroring map -/
theorem C25_reverse_bits32 : ∀ (x : BitVec 32) (i : Nat), i < 32 →
    (x.reverse).getLsbD i = x.getLsbD (31 - i) := by
  intro x i hi; simpa using reverse_bits x i hi

theorem C25_reverse_bits64 : ∀ (x : BitVec 64) (i : Nat), i < 64 →
    (x.reverse).getLsbD i = x.getLsbD (63 - i) := by
  intro x i hi; simpa using reverse_bits x i hi

theorem C25_swar32_reverse : ∀ x : BitVec 32, swar32 x = x.reverse := swar32_reverse
theorem C25_lookup32_reverse : ∀ x : BitVec 32, lookup32 x = x.reverse := lookup32_reverse
theorem C25_muldiv32_32_reverse : ∀ x : BitVec 32, muldiv32_32 x = x.reverse := muldiv32_32_reverse
theorem C25_muldiv64_32_reverse : ∀ x : BitVec 32, muldiv64_32 x = x.reverse := muldiv64_32_reverse
theorem C25_muldiv_op32_reverse : ∀ x : BitVec 32, muldiv_op32 x = x.reverse := muldiv_op32_reverse
theorem C25_rbo32_reverse : ∀ x : BitVec 32, rbo32 x = x.reverse := rbo32_reverse

theorem C25_swar64_reverse : ∀ x : BitVec 64, swar64 x = x.reverse := swar64_reverse
theorem C25_lookup64_reverse : ∀ x : BitVec 64, lookup64 x = x.reverse := lookup64_reverse
theorem C25_muldiv32_64_reverse : ∀ x : BitVec 64, muldiv32_64 x = x.reverse := muldiv32_64_reverse
theorem C25_muldiv64_64_reverse : ∀ x : BitVec 64, muldiv64_64 x = x.reverse := muldiv64_64_reverse
theorem C25_muldiv_op64_reverse : ∀ x : BitVec 64, muldiv_op64 x = x.reverse := muldiv_op64_reverse
theorem C25_rbo64_reverse : ∀ x : BitVec 64, rbo64 x = x.reverse := rbo64_reverse

/-- bit-level form, e.g. for the SWAR variant (the others follow the same way from `_reverse`) -/
example (x : BitVec 32) (i : Nat) (hi : i < 32) : (swar32 x).getLsbD i = x.getLsbD (31 - i) := by
  rw [C25_swar32_reverse]; exact C25_reverse_bits32 x i hi

example (x : BitVec 64) (i : Nat) (hi : i < 64) : (muldiv_op64 x).getLsbD i = x.getLsbD (63 - i) := by
  rw [C25_muldiv_op64_reverse]; exact C25_reverse_bits64 x i hi

theorem C25_reversal_involution32 : ∀ x : BitVec 32,
    swar32 (swar32 x) = x ∧ lookup32 (lookup32 x) = x ∧ muldiv32_32 (muldiv32_32 x) = x ∧
    muldiv64_32 (muldiv64_32 x) = x ∧ muldiv_op32 (muldiv_op32 x) = x ∧ rbo32 (rbo32 x) = x := by
  intro x
  simp only [swar32_reverse, lookup32_reverse, muldiv32_32_reverse, muldiv64_32_reverse,
    muldiv_op32_reverse, rbo32_reverse, reverse_reverse, and_self]

theorem C25_reversal_involution64 : ∀ x : BitVec 64,
    swar64 (swar64 x) = x ∧ lookup64 (lookup64 x) = x ∧ muldiv32_64 (muldiv32_64 x) = x ∧
    muldiv64_64 (muldiv64_64 x) = x ∧ muldiv_op64 (muldiv_op64 x) = x ∧ rbo64 (rbo64 x) = x := by
  intro x
  simp only [swar64_reverse, lookup64_reverse, muldiv32_64_reverse, muldiv64_64_reverse,
    muldiv_op64_reverse, rbo64_reverse, reverse_reverse, and_self]

/-- none of the twelve reversal functions can hit a shift-width / division-by-zero UB -/
theorem C25_reversal_no_ub :
    (∀ x, swar32_ub x = false) ∧ (∀ x, lookup32_ub x = false) ∧ (∀ x, muldiv32_32_ub x = false) ∧
    (∀ x, muldiv64_32_ub x = false) ∧ (∀ x, muldiv_op32_ub x = false) ∧ (∀ x, rbo32_ub x = false) ∧
    (∀ x, swar64_ub x = false) ∧ (∀ x, lookup64_ub x = false) ∧ (∀ x, muldiv32_64_ub x = false) ∧
    (∀ x, muldiv64_64_ub x = false) ∧ (∀ x, muldiv_op64_ub x = false) ∧ (∀ x, rbo64_ub x = false) :=
  ⟨fun _ => rfl, fun _ => rfl, fun _ => rfl, fun _ => rfl, fun _ => rfl, fun _ => rfl,
   fun _ => rfl, fun _ => rfl, fun _ => rfl, fun _ => rfl, fun _ => rfl, fun _ => rfl⟩

theorem C25_muldiv32_byte_reverse : ∀ b : BitVec 8, muldiv32_byte b = b.reverse := muldiv32_byte_spec
theorem C25_muldiv64_byte_reverse : ∀ b : BitVec 8, muldiv64_byte b = b.reverse := muldiv64_byte_spec

theorem C25_lookup_table_reverse : ∀ i, i < 256 →
    lookup32_table.getD i 0#8 = (BitVec.ofNat 8 i).reverse := by
  intro i hi
  have := lookup_table_spec (BitVec.ofNat 8 i)
  rwa [BitVec.toNat_ofNat, Nat.mod_eq_of_lt (by omega)] at this

example : lookup32_table.length = 256 := lookup_table_length
example : swar32 0x00000001#32 = 0x80000000#32 := by decide
example : lookup32 0x12345678#32 = 0x1E6A2C48#32 := by decide
example : muldiv_op64 0x0000000000000001#64 = 0x8000000000000000#64 := by decide
example : rbo64 0x0123456789ABCDEF#64 = 0xF7B3D591E6A2C480#64 := by decide
example : muldiv32_byte 0x01#8 = 0x80#8 := by decide

/-! ## Most / least significant bit -/

theorem C25_msb32_zero : msb32 0#32 = 0#32 := by decide

theorem C25_msb32_spec : ∀ x : BitVec 32, x ≠ 0#32 →
    ∃ n, n < 32 ∧ msb32 x = BitVec.ofNat 32 (n+1) ∧ 2^n ≤ x.toNat ∧ x.toNat < 2^(n+1) := by
  intro x hx
  have ht := Top.exists (bv_ne_zero_toNat hx)
  exact ⟨_, ht.lt_of_lt x.isLt, msb32_top x _ ht, ht.1, ht.2⟩

theorem C25_msb32nz_spec : ∀ x : BitVec 32, x ≠ 0#32 →
    msb32nz x = msb32 x - 1#32 ∧ msb32nz x = BitVec.ofNat 32 (Nat.log2 x.toNat) ∧
    (msb32nz x).toNat = Nat.log2 x.toNat := by
  intro x hx
  have ht := Top.exists (bv_ne_zero_toNat hx)
  have hlt : Nat.log2 x.toNat < 32 := ht.lt_of_lt x.isLt
  have h : msb32nz x = BitVec.ofNat 32 (Nat.log2 x.toNat) := by
    unfold msb32nz; rw [msb32_top x _ ht]; bv_omega
  refine ⟨rfl, h, ?_⟩
  rw [h, BitVec.toNat_ofNat]; omega

theorem C25_msb64_zero : msb64 0#64 = 0#32 := by decide

theorem C25_msb64_spec : ∀ x : BitVec 64, x ≠ 0#64 →
    ∃ n, n < 64 ∧ msb64 x = BitVec.ofNat 32 (n+1) ∧ 2^n ≤ x.toNat ∧ x.toNat < 2^(n+1) := by
  intro x hx
  have ht := Top.exists (bv_ne_zero_toNat hx)
  exact ⟨_, ht.lt_of_lt x.isLt, msb64_top x _ ht, ht.1, ht.2⟩

theorem C25_msb64nz_spec : ∀ x : BitVec 64, x ≠ 0#64 →
    msb64nz x = msb64 x - 1#32 ∧ msb64nz x = BitVec.ofNat 32 (Nat.log2 x.toNat) ∧
    (msb64nz x).toNat = Nat.log2 x.toNat := by
  intro x hx
  have ht := Top.exists (bv_ne_zero_toNat hx)
  have hlt : Nat.log2 x.toNat < 64 := ht.lt_of_lt x.isLt
  have h : msb64nz x = BitVec.ofNat 32 (Nat.log2 x.toNat) := by
    unfold msb64nz; rw [msb64_top x _ ht]; bv_omega
  refine ⟨rfl, h, ?_⟩
  rw [h, BitVec.toNat_ofNat]; omega

theorem C25_lsb32_zero : lsb32 0#32 = 0#32 := by decide

theorem C25_lsb32_spec : ∀ x : BitVec 32, x ≠ 0#32 →
    ∃ n, n < 32 ∧ lsb32 x = BitVec.ofNat 32 (n+1) ∧ x.getLsbD n = true ∧
      ∀ j, j < n → x.getLsbD j = false := by
  intro x hx
  obtain ⟨n, hn, hl⟩ := Low.exists x hx
  exact ⟨n, hn, lsb32_low x n hl, hl.1, hl.2⟩

theorem C25_lsb32nz_spec : ∀ x : BitVec 32, x ≠ 0#32 →
    lsb32nz x = lsb32 x - 1#32 ∧
    ∃ n, n < 32 ∧ lsb32nz x = BitVec.ofNat 32 n ∧ x.getLsbD n = true ∧
      ∀ j, j < n → x.getLsbD j = false := by
  intro x hx
  obtain ⟨n, hn, hl⟩ := Low.exists x hx
  refine ⟨rfl, n, hn, ?_, hl.1, hl.2⟩
  unfold lsb32nz; rw [lsb32_low x n hl]; bv_omega

theorem C25_lsb64_zero : lsb64 0#64 = 0#32 := by decide

theorem C25_lsb64_spec : ∀ x : BitVec 64, x ≠ 0#64 →
    ∃ n, n < 64 ∧ lsb64 x = BitVec.ofNat 32 (n+1) ∧ x.getLsbD n = true ∧
      ∀ j, j < n → x.getLsbD j = false := by
  intro x hx
  obtain ⟨n, hn, hl⟩ := Low.exists x hx
  exact ⟨n, hn, lsb64_low x n hl, hl.1, hl.2⟩

theorem C25_lsb64nz_spec : ∀ x : BitVec 64, x ≠ 0#64 →
    lsb64nz x = lsb64 x - 1#32 ∧
    ∃ n, n < 64 ∧ lsb64nz x = BitVec.ofNat 32 n ∧ x.getLsbD n = true ∧
      ∀ j, j < n → x.getLsbD j = false := by
  intro x hx
  obtain ⟨n, hn, hl⟩ := Low.exists x hx
  refine ⟨rfl, n, hn, ?_, hl.1, hl.2⟩
  unfold lsb64nz; rw [lsb64_low x n hl]; bv_omega

/-- the msb/lsb family has no shift-width UB on any input -/
theorem C25_msb_lsb_no_ub :
    (∀ x, msb32_ub x = false) ∧ (∀ x, msb32nz_ub x = false) ∧
    (∀ x, msb64_ub x = false) ∧ (∀ x, msb64nz_ub x = false) ∧
    (∀ x, lsb32_ub x = false) ∧ (∀ x, lsb32nz_ub x = false) ∧
    (∀ x, lsb64_ub x = false) ∧ (∀ x, lsb64nz_ub x = false) := by
  refine ⟨msb32_ub_false, ?_, msb64_ub_false, ?_, lsb32_ub_false, ?_, lsb64_ub_false, ?_⟩ <;> intro x
  · simp [msb32nz_ub, msb32_ub_false]
  · simp [msb64nz_ub, msb64_ub_false]
  · simp [lsb32nz_ub, lsb32_ub_false]
  · simp [lsb64nz_ub, lsb64_ub_false]

example : msb32 1#32 = 1#32 := by decide
example : msb32 0x80000000#32 = 32#32 := by decide
example : msb32nz 0x00010000#32 = 16#32 := by decide
example : msb64 0x8000000000000000#64 = 64#32 := by decide
example : lsb32 0x80000000#32 = 32#32 := by decide
example : lsb32 12#32 = 3#32 := by decide
example : lsb64 0x0000000100000000#64 = 33#32 := by decide
example : lsb64nz 1#64 = 0#32 := by decide
/-- at zero the `nz` variants return -1 (their C precondition excludes 0) -/
example : msb32nz 0#32 = 0xFFFFFFFF#32 := by decide

/-! ## Complement of a single bit -/

theorem C25_complement32 : ∀ (x : BitVec 32) (b : BitVec 32), b.toNat < 32 →
    complement32_ub x b = false ∧ (complement32 x b).1 = x.getLsbD b.toNat ∧
    ∀ i, i < 32 → ((complement32 x b).2).getLsbD i =
      (if i = b.toNat then !(x.getLsbD i) else x.getLsbD i) := complement32_spec

theorem C25_complement64 : ∀ (x : BitVec 64) (b : BitVec 32), b.toNat < 64 →
    complement64_ub x b = false ∧ (complement64 x b).1 = x.getLsbD b.toNat ∧
    ∀ i, i < 64 → ((complement64 x b).2).getLsbD i =
      (if i = b.toNat then !(x.getLsbD i) else x.getLsbD i) := complement64_spec

example : complement32 0b1010#32 1#32 = (true, 0b1000#32) := by decide
example : complement64 0#64 63#32 = (false, 0x8000000000000000#64) := by decide
/-- the hypothesis `b < 32` is needed: a shift by the width is flagged -/
example : complement32_ub 0#32 32#32 = true := by decide

/-! ## Powers of two and logarithms (`size_t` = `BitVec 64`) -/

theorem C25_isPow2_32 : ∀ x : BitVec 32, isPow2_32 x = true ↔ ∃ k, k < 32 ∧ x.toNat = 2^k :=
  isPow2_32_iff
theorem C25_isPow2_64 : ∀ x : BitVec 64, isPow2_64 x = true ↔ ∃ k, k < 64 ∧ x.toNat = 2^k :=
  isPow2_64_iff
theorem C25_is_power2 : ∀ x : BitVec 64, is_power2 x = true ↔ ∃ k, k < 64 ∧ x.toNat = 2^k :=
  is_power2_iff

example : isPow2_32 0#32 = false := by decide
example : isPow2_32 0x80000000#32 = true := by decide
example : is_power2 6#64 = false := by decide

theorem C25_log2floor_zero : log2floor 0#64 = 0#64 := log2floor_zero

theorem C25_log2floor_spec : ∀ n : BitVec 64, n ≠ 0#64 →
    log2floor_ub n = false ∧ 2^(log2floor n).toNat ≤ n.toNat ∧
    n.toNat < 2^((log2floor n).toNat + 1) := by
  intro n hn
  have ht := Top.exists (bv_ne_zero_toNat hn)
  rw [log2floor_toNat n hn]
  exact ⟨log2floor_ub_false n, ht.1, ht.2⟩

theorem C25_log2ceil_zero : log2ceil 0#64 = 0#64 ∧ log2ceil_ub 0#64 = false := log2ceil_zero

theorem C25_log2ceil_spec : ∀ n : BitVec 64, n ≠ 0#64 →
    log2ceil_ub n = false ∧ n.toNat ≤ 2^(log2ceil n).toNat ∧
    ((log2ceil n).toNat = 0 ∨ 2^((log2ceil n).toNat - 1) < n.toNat) := by
  intro n hn
  have ht := Top.exists (bv_ne_zero_toNat hn)
  refine ⟨log2ceil_ub_false n hn, ?_⟩
  rw [log2ceil_toNat n hn]
  split
  · exact ⟨Nat.le_of_lt ht.2, Or.inr (by simpa using ‹_›)⟩
  · have heq : n.toNat = 2^(Nat.log2 n.toNat) := by have := ht.1; omega
    refine ⟨by omega, ?_⟩
    by_cases h0 : Nat.log2 n.toNat = 0
    · exact Or.inl h0
    · right
      have : 2^(Nat.log2 n.toNat - 1) < 2^(Nat.log2 n.toNat) :=
        (Nat.pow_lt_pow_iff_right (by decide : 1 < 2)).2 (by omega)
      omega

theorem C25_floor2_zero : floor2 0#64 = 1#64 ∧ floor2_ub 0#64 = false := by decide

theorem C25_floor2_spec : ∀ n : BitVec 64, n ≠ 0#64 →
    floor2_ub n = false ∧ (∃ k, (floor2 n).toNat = 2^k) ∧ (floor2 n).toNat ≤ n.toNat ∧
    n.toNat < 2 * (floor2 n).toNat := by
  intro n hn
  have ht := Top.exists (bv_ne_zero_toNat hn)
  rw [floor2_toNat n hn]
  refine ⟨floor2_ub_false n hn, ⟨_, rfl⟩, ht.1, ?_⟩
  have := ht.2; rw [Nat.pow_succ] at this; omega

theorem C25_ceil2_zero : ceil2 0#64 = 1#64 ∧ ceil2_ub 0#64 = false := by decide

theorem C25_ceil2_spec : ∀ n : BitVec 64, n ≠ 0#64 → n.toNat ≤ 2^63 →
    ceil2_ub n = false ∧ (∃ k, (ceil2 n).toNat = 2^k) ∧ n.toNat ≤ (ceil2 n).toNat ∧
    (ceil2 n).toNat < 2 * n.toNat := by
  intro n hn hle
  have h63 := log2ceil_le_63 n hn hle
  obtain ⟨_, h1, h2⟩ := C25_log2ceil_spec n hn
  have hv : (ceil2 n).toNat = 2^(log2ceil n).toNat := by
    unfold ceil2; rw [Nat.mod_eq_of_lt (by omega), one_shl_toNat _ (by omega)]
  have hpos : 0 < n.toNat := Nat.pos_of_ne_zero (bv_ne_zero_toNat hn)
  rw [hv]
  refine ⟨?_, ⟨_, rfl⟩, h1, ?_⟩
  · simp [ceil2_ub, log2ceil_ub_false n hn]; omega
  · rcases h2 with h0 | hlt
    · rw [h0]; simp; omega
    · have : 2^(log2ceil n).toNat = 2 * 2^((log2ceil n).toNat - 1) := by
        by_cases h0 : (log2ceil n).toNat = 0
        · exfalso; rw [h0] at hlt h1; simp at hlt h1; omega
        · have h : 2 ^ ((log2ceil n).toNat - 1 + 1) = 2 ^ ((log2ceil n).toNat - 1) * 2 := Nat.pow_succ _ _
          rw [show (log2ceil n).toNat - 1 + 1 = (log2ceil n).toNat by omega] at h
          omega
      omega

/-- the documented precondition of `ceil2` is really needed: beyond `2^63` the shift is by 64 -/
theorem C25_ceil2_ub_beyond : ∀ n : BitVec 64, 2^63 < n.toNat → ceil2_ub n = true := by
  intro n h
  simp [ceil2_ub, log2ceil_beyond n h]

theorem C25_log2_spec : ∀ n : BitVec 64,
    (∃ k, k < 64 ∧ n.toNat = 2^k ∧ (log2 n).toNat = k) ∨
    ((¬∃ k, n.toNat = 2^k) ∧ log2 n = 0#64) := by
  intro n
  unfold log2
  by_cases hp : is_power2 n = true
  · left
    obtain ⟨k, hk, he⟩ := (is_power2_iff n).1 hp
    have hn : n ≠ 0#64 := by
      intro c; rw [c] at he; have := Nat.two_pow_pos k; simp at he; omega
    refine ⟨k, hk, he, ?_⟩
    rw [if_pos hp, log2floor_toNat n hn, he, Nat.log2_two_pow]
  · right
    refine ⟨?_, by rw [if_neg hp]⟩
    rintro ⟨k, he⟩
    apply hp
    apply (is_power2_iff n).2
    refine ⟨k, ?_, he⟩
    have := n.isLt; rw [he] at this
    exact (Nat.pow_lt_pow_iff_right (by decide : 1 < 2)).1 this

example : log2floor 1#64 = 0#64 := by decide
example : log2floor 0xFFFFFFFFFFFFFFFF#64 = 63#64 := by decide
example : log2ceil 5#64 = 3#64 := by decide
example : floor2 5#64 = 4#64 := by decide
example : ceil2 5#64 = 8#64 := by decide
example : ceil2 (BitVec.ofNat 64 (2^63)) = BitVec.ofNat 64 (2^63) := by decide
example : ceil2_ub (BitVec.ofNat 64 (2^63 + 1)) = true := by decide
example : log2 1024#64 = 10#64 := by decide
example : log2 1000#64 = 0#64 := by decide

end CdsVerif.Props.C25

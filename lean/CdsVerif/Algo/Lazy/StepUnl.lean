/-
  Preservation of the LazyList invariant, and the effect on the abstract map: `position::unlock()` (`pCur->m_Lock.unlock()`, `pPred->m_Lock.unlock()`), then the return or the next attempt.
-/
import CdsVerif.Algo.Lazy.Inv
namespace CdsVerif.Algo.Lazy
open CdsVerif.Machine CdsVerif.Spec CdsVerif.Lin
open CdsVerif.Algo.Michael (Chain insAfter mem_insAfter pairwise_insAfter LPok)

set_option maxHeartbeats 4000000 in
theorem sinvl_step_unlC {s s' : St} {t : Tid} {ev : Ev} {L : List Nat} {o : OpK} {p c : Nat} {r : Option GRet}
    (h : SInvL s L) (hpc : s.pc t = .unlC o p c r) (hs : step s t = some (s', ev)) :
    ∃ L', SInvL s' L' ∧ StepEff s t s' L L' := by
  have hpc' := h.pneq t p c (by simp [hpc, pcPrev]) (by simp [hpc, pcCur])
  pc_facts
  sinv_open h
  simp only [step, hpc] at hs
  simp at hs; obtain ⟨rfl, -⟩ := hs
  cases r <;> step_close L

set_option maxHeartbeats 4000000 in
theorem sinvl_step_unlP {s s' : St} {t : Tid} {ev : Ev} {L : List Nat} {o : OpK} {p : Nat} {r : Option GRet}
    (h : SInvL s L) (hpc : s.pc t = .unlP o p r) (hs : step s t = some (s', ev)) :
    ∃ L', SInvL s' L' ∧ StepEff s t s' L L' := by
  have hz := h.zero_mem
  pc_facts
  sinv_open h
  simp only [step, hpc] at hs
  simp at hs; obtain ⟨rfl, -⟩ := hs
  cases r <;> step_close L

end CdsVerif.Algo.Lazy

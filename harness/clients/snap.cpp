// Property C18, snapshot tie: at the quiescent end of every case the real data structure is dumped through
// its private members (this file is compiled with -fno-access-control) as ONE line
//
//   SNAP <kind> <tokens…>
//
// that the Lean driver (`cdsdriver snapshot`, CdsVerif/Driver/Snapshot.lean) parses and judges with the
// executable well-formedness / abstraction functions of CdsVerif/Base/Snapshot.lean (theorems in
// CdsVerif/Props/C18.lean).  Token grammar (all numbers decimal):
//
//   SNAP list  { <key> <marked> <hasData> }*                    chain order from the head
//              marked  = deletion mark of the node (Michael / Lazy: mark bit of m_pNext; Iterable: mark bit of data)
//              hasData = 0 for an empty IterableList node (key is printed as 0), else 1
//   SNAP skip  { L { <key> <marked> }* }*                        one `L` group per level, level 0 first; a group is
//              the chain of that level from the head tower; marked = mark bits of that node's next[level]
//   SNAP ellen <tree>     <tree> ::= L <key> | N <key> <upd> <tree> <tree> | Z        (preorder, from m_Root)
//              <key> ::= integer | inf1 | inf2 ;  upd = flag bits of m_pUpdate (0 = Clean) ; Z = null child (never legal)
//   SNAP avl   <tree>     <tree> ::= E | N <key> <height> <hasValue> <tree> <tree>    (preorder, from m_Root's right child)
//              height = stored m_nHeight, hasValue = 0 for a routing node
//   SNAP split { <soKey> <isDummy> <key> <marked> }*             chain order of the underlying ordered list
//              soKey = m_nHash (split-order key), isDummy = 1 iff the node is referenced by the bucket table
//              (key is printed as the bucket number for those), marked = mark bit of m_pNext
//
// After the SNAP line:  ITER k1 k2 …  (the container's own iterator, or a probe of every key where the container
// has no iterator), SIZE n / EMPTY b, CONSIST b (check_consistency() of EllenBinTree / BronsonAVLTreeMap), and the
// oracle lines  X iter-not-sorted | iter-differs-from-snapshot | size-mismatch | empty-mismatch |
// consistency-check-failed | dump-fault <what>.
// The history is printed as `O` lines as usual and judged by the verified linearizability checker.
#include <cds/init.h>
#include <cds/gc/hp.h>
#include <cds/urcu/general_instant.h>
#include <cds/container/michael_list_hp.h>
#include <cds/container/lazy_list_hp.h>
#include <cds/container/iterable_list_hp.h>
#include <cds/container/skip_list_set_hp.h>
#include <cds/container/skip_list_set_rcu.h>
#include <cds/container/ellen_bintree_set_hp.h>
#include <cds/container/bronson_avltree_map_rcu.h>
#include <cds/container/split_list_set.h>
#include <cds/sync/injecting_monitor.h>
#include <algorithm>
#include <functional>
#include <memory>
#include <set>
#include <sstream>
#include "../client.h"

using namespace khizmax_libcds_verif;
namespace ci = cds::intrusive;
namespace cc = cds::container;

typedef cds::urcu::gc< cds::urcu::general_instant< cds::sync::spin > > rcu_gpi;

// ---------------------------------------------------------------- common map client part (as in list.cpp / tree.cpp)

// Spin detection: see list.cpp.  Comparators and retry events report to the scheduler, so that a strict-priority
// schedule cannot starve a thread that another one is waiting for.  `--hints 0` switches the hints off.
static bool g_hints = true;
static thread_local unsigned tls_cmp_count = 0;
static constexpr unsigned c_spin_limit = 200;
static inline void cmp_tick()
{
    if ( ++tls_cmp_count > c_spin_limit && g_hints )
        spin_hint();
}
static inline void retry_tick()
{
    if ( g_hints )
        spin_hint();
}

struct Snap {
    std::ostringstream line;            // tokens after "SNAP "
    std::vector<long> live;             // keys of the live nodes of the dump, in dump order
    std::vector<std::string> faults;    // structural faults met while walking raw pointers
};

struct IMap {
    bool can_erase = true, can_extract = true, can_minmax = false, can_update = true;
    char const* upd = "update";
    bool upd_zero = false;
    bool has_counter = false;           // size() is meaningful
    bool struct_empty = true;           // empty() looks at the structure (not at the item counter)
    bool split_order = false;           // iteration order is the split order
    virtual ~IMap() {}
    virtual bool insert( long k, long v ) = 0;
    virtual std::pair<bool, bool> update( long k, long v, bool allow ) = 0;
    virtual bool erase( long, long& ) { return false; }
    virtual bool extract( long, long& ) { return false; }
    virtual bool find( long k, long& v ) = 0;
    virtual bool contains( long k ) = 0;
    virtual bool extract_min( long&, long& ) { return false; }
    virtual bool extract_max( long&, long& ) { return false; }
    // quiescent part
    virtual void dump( Snap& s ) = 0;
    virtual void iterate( std::vector<long>& keys ) = 0;
    virtual size_t size() = 0;
    virtual bool empty() = 0;
    virtual int consistent() { return -1; }        // -1: the container has no check_consistency()
    virtual size_t so_key( long ) { return 0; }     // split-order key of a regular node with this key
};

struct GenCfg {
    int maxkeys = 5;
    bool ins_heavy = false;
};

static std::vector<std::vector<Op>> map_program( Rng& r, int nthreads, int nops, IMap const& m, GenCfg const& g )
{
    std::vector<std::vector<Op>> p( nthreads );
    long v = 1;
    long nkeys = 2 + long( r.below( g.maxkeys - 1 ));
    unsigned w_ins = 25 + unsigned( r.below( 30 ));
    unsigned w_upd = 10 + unsigned( r.below( 15 ));
    if ( !m.can_update ) w_upd = 0;
    unsigned w_era = m.can_erase ? 10 + unsigned( r.below( 20 )) : 0;
    unsigned w_ext = m.can_extract ? 5 + unsigned( r.below( 15 )) : 0;
    unsigned w_fnd = 10 + unsigned( r.below( 15 ));
    unsigned w_con = 5 + unsigned( r.below( 10 ));
    unsigned w_mm = m.can_minmax ? 10 + unsigned( r.below( 10 )) : 0;
    if ( g.ins_heavy ) {
        nkeys = g.maxkeys;
        w_ins += 60;
    }
    unsigned total = w_ins + w_upd + w_era + w_ext + w_fnd + w_con + w_mm;
    int budget = 14;
    for ( int t = 0; t < nthreads; ++t ) {
        int n = 1 + int( r.below( nops ));
        int left = nthreads - t - 1;
        if ( n > budget - left ) n = budget - left;
        budget -= n;
        for ( int i = 0; i < n; ++i ) {
            long k = long( r.below( nkeys ));
            unsigned x = unsigned( r.below( total ));
            if ( x < w_ins ) { p[t].push_back( Op( "insert", k, v++ )); continue; }
            x -= w_ins;
            if ( x < w_upd ) { p[t].push_back( Op( m.upd, k, m.upd_zero ? 0 : v++, r.chance( 70 ) ? 1 : 0 )); continue; }
            x -= w_upd;
            if ( x < w_era ) { p[t].push_back( Op( "erase", k )); continue; }
            x -= w_era;
            if ( x < w_ext ) { p[t].push_back( Op( "extract", k )); continue; }
            x -= w_ext;
            if ( x < w_fnd ) { p[t].push_back( Op( "find", k )); continue; }
            x -= w_fnd;
            if ( x < w_con ) { p[t].push_back( Op( "contains", k )); continue; }
            p[t].push_back( Op( r.chance( 50 ) ? "extract_min" : "extract_max" ));
        }
    }
    return p;
}

static std::vector<long> map_exec( IMap& m, Op const& op )
{
    std::string const& n = op.name;
    long v = 0, k = 0;
    tls_cmp_count = 0;
    if ( n == "insert" ) return { m.insert( op.args[0], op.args[1] ) ? 1L : 0L };
    if ( n == "update" || n == "upsert_keep" ) {
        std::pair<bool, bool> r = m.update( op.args[0], op.args[1], op.args[2] != 0 );
        return { r.first ? 1L : 0L, r.second ? 1L : 0L };
    }
    if ( n == "erase" ) { if ( m.erase( op.args[0], v )) return { 1, v }; return { 0 }; }
    if ( n == "extract" ) { if ( m.extract( op.args[0], v )) return { 1, v }; return { 0 }; }
    if ( n == "find" ) { if ( m.find( op.args[0], v )) return { 1, v }; return { 0 }; }
    if ( n == "contains" ) return { m.contains( op.args[0] ) ? 1L : 0L };
    if ( n == "extract_min" ) { if ( m.extract_min( k, v )) return { 1, k, v }; return { 0 }; }
    if ( n == "extract_max" ) { if ( m.extract_max( k, v )) return { 1, k, v }; return { 0 }; }
    std::fprintf( stderr, "unknown op %s\n", n.c_str());
    std::exit( 2 );
}

struct kv {
    long key; long val;
    kv() : key( 0 ), val( 0 ) {}
    kv( long k, long v ) : key( k ), val( v ) {}
};

struct key_of {
    template <class T> static long k( T const& t ) { return t.key; }
    static long k( long x ) { return x; }
};
struct key_less {
    template <class A, class B> bool operator()( A const& a, B const& b ) const { cmp_tick(); return key_of::k( a ) < key_of::k( b ); }
};
struct key_cmp {
    template <class A, class B> int operator()( A const& a, B const& b ) const
    {
        cmp_tick();
        long x = key_of::k( a ), y = key_of::k( b );
        return x < y ? -1 : ( y < x ? 1 : 0 );
    }
};

template <class Base, bool Cnt> struct mk_traits;
template <class Base> struct mk_traits<Base, false> : Base { typedef key_less less; };
template <class Base> struct mk_traits<Base, true> : Base { typedef key_cmp compare; typedef cds::atomicity::item_counter item_counter; };

static constexpr unsigned c_walk_limit = 4096;      // a raw chain longer than this is a cycle

// ---------------------------------------------------------------- ordered lists

// operations shared by the three container lists
template <class L>
struct ListOps : IMap {
    L l;
    template <class... A> explicit ListOps( A&&... a ) : l( std::forward<A>( a )... ) {}
    bool insert( long k, long v ) override { return l.insert( kv( k, v )); }
    bool erase( long k, long& v ) override { return l.erase( kv( k, 0 ), [&v]( kv const& item ) { v = item.val; } ); }
    bool extract( long k, long& v ) override
    {
        auto p = l.extract( kv( k, 0 ));
        if ( !p ) return false;
        v = p->val;
        return true;
    }
    bool find( long k, long& v ) override { return l.find( kv( k, 0 ), [&v]( kv& item, kv const& ) { v = item.val; } ); }
    bool contains( long k ) override { return l.contains( kv( k, 0 )); }
    void iterate( std::vector<long>& keys ) override
    {
        unsigned n = 0;
        for ( auto it = l.begin(); it != l.end() && n < c_walk_limit; ++it, ++n )
            keys.push_back( it->key );
    }
    size_t size() override { return l.size(); }
    bool empty() override { return l.empty(); }
};

template <class L>
struct MichaelSnap : ListOps<L> {
    MichaelSnap( bool cnt ) { this->has_counter = cnt; }
    std::pair<bool, bool> update( long k, long v, bool allow ) override
    {
        return this->l.update( kv( k, v ), []( bool, kv& item, kv const& key ) { item.val = key.val; }, allow );
    }
    void dump( Snap& s ) override
    {
        typedef typename L::base_class B;
        typedef typename L::node_type N;
        B& b = (B&) this->l;      // protected base: C-style cast
        s.line << "list";
        auto p = b.m_pHead.load( atomics::memory_order_acquire );
        if ( p.bits()) s.faults.push_back( "head-pointer-marked" );
        unsigned n = 0;
        for ( auto* cur = p.ptr(); cur; ) {
            if ( ++n > c_walk_limit ) { s.faults.push_back( "chain-cycle" ); break; }
            auto nx = cur->m_pNext.load( atomics::memory_order_acquire );
            long key = static_cast<N*>( cur )->m_Value.key;
            s.line << ' ' << key << ' ' << ( nx.bits() ? 1 : 0 ) << " 1";
            if ( !nx.bits()) s.live.push_back( key );
            cur = nx.ptr();
        }
    }
};

template <class L>
struct LazySnap : ListOps<L> {
    LazySnap( bool cnt ) { this->has_counter = cnt; }
    std::pair<bool, bool> update( long k, long v, bool allow ) override
    {
        return this->l.update( kv( k, v ), []( bool, kv& item, kv const& key ) { item.val = key.val; }, allow );
    }
    void dump( Snap& s ) override
    {
        typedef typename L::base_class B;
        typedef typename L::node_type N;
        B& b = (B&) this->l;      // protected base: C-style cast
        s.line << "list";
        if ( b.m_Head.m_pNext.load( atomics::memory_order_acquire ).bits()) s.faults.push_back( "head-marked" );
        if ( b.m_Tail.m_pNext.load( atomics::memory_order_acquire ).bits()) s.faults.push_back( "tail-marked" );
        unsigned n = 0;
        for ( auto* cur = b.m_Head.m_pNext.load( atomics::memory_order_acquire ).ptr(); cur != &b.m_Tail; ) {
            if ( !cur ) { s.faults.push_back( "chain-does-not-reach-tail" ); break; }
            if ( ++n > c_walk_limit ) { s.faults.push_back( "chain-cycle" ); break; }
            auto nx = cur->m_pNext.load( atomics::memory_order_acquire );
            long key = static_cast<N*>( cur )->m_Value.key;
            s.line << ' ' << key << ' ' << ( nx.bits() ? 1 : 0 ) << " 1";
            if ( !nx.bits()) s.live.push_back( key );
            cur = nx.ptr();
        }
    }
};

// IterableList::insert_at / update_at retry without back-off while a neighbour's data pointer is marked (see list.cpp)
struct hint_stat : ci::iterable_list::empty_stat {
    void onInsertRetry() const { retry_tick(); }
    void onUpdateRetry() const { retry_tick(); }
};
struct citer_base : cc::iterable_list::traits { typedef hint_stat stat; };

template <class L>
struct IterableSnap : ListOps<L> {
    bool useUpsert;
    IterableSnap( bool cnt, bool ups ) : useUpsert( ups )
    {
        this->has_counter = cnt;
        this->struct_empty = false;      // IterableList::empty() is `size() == 0`
    }
    std::pair<bool, bool> update( long k, long v, bool allow ) override
    {
        if ( useUpsert )
            return this->l.upsert( kv( k, v ), allow );
        return this->l.update( kv( k, v ), []( kv&, kv* ) {}, allow );
    }
    void dump( Snap& s ) override
    {
        typedef typename L::base_class B;
        B& b = (B&) this->l;      // protected base: C-style cast
        s.line << "list";
        unsigned n = 0;
        // the head node is part of the chain the iterator walks (begin() looks at its data pointer first)
        for ( auto* cur = &b.m_Head; cur != &b.m_Tail; cur = cur->next.load( atomics::memory_order_acquire )) {
            if ( !cur ) { s.faults.push_back( "chain-does-not-reach-tail" ); break; }
            if ( ++n > c_walk_limit ) { s.faults.push_back( "chain-cycle" ); break; }
            auto d = cur->data.load( atomics::memory_order_acquire );
            long key = d.ptr() ? d.ptr()->key : 0;
            s.line << ' ' << key << ' ' << ( d.bits() ? 1 : 0 ) << ' ' << ( d.ptr() ? 1 : 0 );
            if ( d.ptr() && !d.bits()) s.live.push_back( key );
        }
        if ( b.m_Tail.data.load( atomics::memory_order_acquire ).all()) s.faults.push_back( "tail-has-data" );
        if ( b.m_Tail.next.load( atomics::memory_order_acquire ) != &b.m_Tail ) s.faults.push_back( "tail-next-is-not-tail" );
    }
};

template <bool Cnt> using CMichael = cc::MichaelList<cds::gc::HP, kv, mk_traits<cc::michael_list::traits, Cnt>>;
template <bool Cnt> using CLazy = cc::LazyList<cds::gc::HP, kv, mk_traits<cc::lazy_list::traits, Cnt>>;
template <bool Cnt> using CIter = cc::IterableList<cds::gc::HP, kv, mk_traits<citer_base, Cnt>>;

// ---------------------------------------------------------------- back-off / memory-model hints (as in tree.cpp)

struct hint_backoff {
    void operator()() const noexcept { retry_tick(); }
    template <typename Predicate> bool operator()( Predicate pr ) const
    {
        if ( pr()) return true;
        retry_tick();
        return false;
    }
    static void reset() noexcept {}
};

static thread_local unsigned tls_order_count = 0;
static constexpr unsigned c_order_limit = 400;
struct hint_order {
    std::memory_order mo;
    operator std::memory_order() const
    {
        if ( ++tls_order_count > c_order_limit ) {
            tls_order_count = c_order_limit - 50;
            retry_tick();
        }
        return mo;
    }
};
struct hint_memory_model {
    static hint_order const memory_order_relaxed;
    static hint_order const memory_order_consume;
    static hint_order const memory_order_acquire;
    static hint_order const memory_order_release;
    static hint_order const memory_order_acq_rel;
    static hint_order const memory_order_seq_cst;
};
hint_order const hint_memory_model::memory_order_relaxed = { std::memory_order_relaxed };
hint_order const hint_memory_model::memory_order_consume = { std::memory_order_consume };
hint_order const hint_memory_model::memory_order_acquire = { std::memory_order_acquire };
hint_order const hint_memory_model::memory_order_release = { std::memory_order_release };
hint_order const hint_memory_model::memory_order_acq_rel = { std::memory_order_acq_rel };
hint_order const hint_memory_model::memory_order_seq_cst = { std::memory_order_seq_cst };

// ---------------------------------------------------------------- skip list

static unsigned g_level_seed = 1;
struct det_level_gen {
    static unsigned int const c_nUpperBound = 6;
    unsigned s;
    det_level_gen() : s( g_level_seed * 2654435761u + 12345u ) {}
    unsigned int operator()()
    {
        s = s * 1103515245u + 12345u;
        unsigned x = s >> 16, lvl = 0;
        while (( x & 1 ) && lvl + 1 < c_nUpperBound ) { ++lvl; x >>= 1; }
        return lvl;
    }
};

template <bool Cnt> struct skip_traits;
template <> struct skip_traits<false> : cc::skip_list::traits {
    typedef key_less less;
    typedef det_level_gen random_level_generator;
    typedef hint_memory_model memory_model;
};
template <> struct skip_traits<true> : cc::skip_list::traits {
    typedef key_cmp compare;
    typedef det_level_gen random_level_generator;
    typedef cds::atomicity::item_counter item_counter;
    typedef hint_memory_model memory_model;
};

// set-like trees: the interface of the set-like lists plus extract_min / extract_max
template <class S>
struct TreeOps : IMap {
    S l;
    TreeOps() { can_minmax = true; }
    bool insert( long k, long v ) override { return l.insert( kv( k, v )); }
    std::pair<bool, bool> update( long k, long v, bool allow ) override
    {
        return l.update( kv( k, v ), []( bool, kv& item, kv const& key ) { item.val = key.val; }, allow );
    }
    bool erase( long k, long& v ) override { return l.erase( kv( k, 0 ), [&v]( kv const& item ) { v = item.val; } ); }
    bool extract( long k, long& v ) override
    {
        auto p = l.extract( kv( k, 0 ));
        if ( !p ) return false;
        v = p->val;
        return true;
    }
    bool find( long k, long& v ) override
    {
        kv key( k, 0 );
        return l.find( key, [&v]( kv& item, kv& ) { v = item.val; } );
    }
    bool contains( long k ) override { return l.contains( kv( k, 0 )); }
    bool extract_min( long& k, long& v ) override
    {
        auto p = l.extract_min();
        if ( !p ) return false;
        k = p->key; v = p->val;
        return true;
    }
    bool extract_max( long& k, long& v ) override
    {
        auto p = l.extract_max();
        if ( !p ) return false;
        k = p->key; v = p->val;
        return true;
    }
    size_t size() override { return l.size(); }
    bool empty() override { return l.empty(); }
};

static constexpr long c_probe_keys = 16;     // key space of every program is a prefix of 0 .. 15

template <class S, bool Rcu>
struct SkipSnap : TreeOps<S> {
    SkipSnap( bool cnt ) { this->has_counter = cnt; }
    void iterate( std::vector<long>& keys ) override
    {
        // the iterators of the RCU skip list must be used under the RCU read lock
        if ( Rcu ) rcu_gpi::access_lock();
        unsigned n = 0;
        for ( auto it = this->l.begin(); it != this->l.end() && n < c_walk_limit; ++it, ++n )
            keys.push_back( it->key );
        if ( Rcu ) rcu_gpi::access_unlock();
    }
    void dump( Snap& s ) override
    {
        typedef typename S::base_class B;
        typedef typename S::node_type N;
        B& b = (B&) this->l;      // protected base: C-style cast
        auto* head = b.m_Head.head();
        unsigned H = head->height();
        std::vector<std::ostringstream> lv( H );
        unsigned top = 0;       // number of levels to print: up to the highest non-empty one
        for ( unsigned lvl = 0; lvl < H; ++lvl ) {
            auto hp = head->next( lvl ).load( atomics::memory_order_acquire );
            if ( hp.bits()) s.faults.push_back( "head-tower-marked" );
            unsigned n = 0;
            for ( auto* cur = hp.ptr(); cur; ) {
                if ( ++n > c_walk_limit ) { s.faults.push_back( "chain-cycle" ); break; }
                if ( cur->height() <= lvl ) { s.faults.push_back( "node-linked-above-its-height" ); break; }
                auto nx = cur->next( lvl ).load( atomics::memory_order_acquire );
                long key = static_cast<N*>( cur )->m_Value.key;
                lv[lvl] << ' ' << key << ' ' << ( nx.bits() ? 1 : 0 );
                if ( lvl == 0 && !nx.bits()) s.live.push_back( key );
                cur = nx.ptr();
                top = lvl + 1;
            }
        }
        s.line << "skip";
        for ( unsigned lvl = 0; lvl < top; ++lvl )
            s.line << " L" << lv[lvl].str();
    }
};

// ---------------------------------------------------------------- Ellen's binary tree

struct ellen_hint_stat : ci::ellen_bintree::empty_stat {
    void onSearchRetry() const { retry_tick(); }
};
struct kv_key_extractor { void operator()( long& dest, kv const& src ) const { dest = src.key; } };
template <bool Cnt> struct ellen_set_traits;
template <> struct ellen_set_traits<false> : cc::ellen_bintree::traits {
    typedef kv_key_extractor key_extractor;
    typedef key_less less;
    typedef hint_backoff back_off;
    typedef ellen_hint_stat stat;
};
template <> struct ellen_set_traits<true> : cc::ellen_bintree::traits {
    typedef kv_key_extractor key_extractor;
    typedef key_cmp compare;
    typedef cds::atomicity::item_counter item_counter;
    typedef hint_backoff back_off;
    typedef ellen_hint_stat stat;
};

template <class S>
struct EllenSnap : TreeOps<S> {
    EllenSnap( bool cnt ) { this->has_counter = cnt; }
    // EllenBinTreeSet has no iterators: probe every key of the key space
    void iterate( std::vector<long>& keys ) override
    {
        for ( long k = 0; k < c_probe_keys; ++k )
            if ( this->l.contains( kv( k, 0 )))
                keys.push_back( k );
    }
    int consistent() override { return this->l.check_consistency() ? 1 : 0; }

    typedef typename S::base_class B;
    typedef typename B::tree_node tree_node;
    typedef typename B::internal_node internal_node;

    static void put_key( Snap& s, tree_node* p, long key )
    {
        unsigned inf = p->infinite_key();
        if ( inf == tree_node::key_infinite1 ) s.line << "inf1";
        else if ( inf == tree_node::key_infinite2 ) s.line << "inf2";
        else if ( inf ) { s.line << "inf2"; s.faults.push_back( "both-infinite-flags" ); }
        else s.line << key;
    }
    void walk( Snap& s, tree_node* p, unsigned& n )
    {
        if ( !p ) { s.line << " Z"; s.faults.push_back( "null-child" ); return; }
        if ( ++n > c_walk_limit ) { s.line << " Z"; s.faults.push_back( "tree-cycle" ); return; }
        if ( p->is_internal()) {
            internal_node* in = static_cast<internal_node*>( p );
            s.line << " N ";
            put_key( s, p, in->m_Key );
            s.line << ' ' << in->m_pUpdate.load( atomics::memory_order_acquire ).bits();
            walk( s, in->m_pLeft.load( atomics::memory_order_acquire ), n );
            walk( s, in->m_pRight.load( atomics::memory_order_acquire ), n );
        }
        else {
            typename B::leaf_node* lf = static_cast<typename B::leaf_node*>( p );
            s.line << " L ";
            long key = 0;
            if ( !p->infinite_key()) {
                key = static_cast<typename S::leaf_node*>( lf )->m_Value.key;
                s.live.push_back( key );
            }
            put_key( s, p, key );
        }
    }
    void dump( Snap& s ) override
    {
        B& b = (B&) this->l;      // protected base: C-style cast
        s.line << "ellen";
        unsigned n = 0;
        walk( s, &b.m_Root, n );
    }
};

// ---------------------------------------------------------------- Bronson's AVL tree

template <bool Cnt, bool Relaxed> struct bronson_traits;
template <bool Relaxed> struct bronson_traits<false, Relaxed> : cc::bronson_avltree::traits {
    typedef key_less less;
    typedef cds::sync::injecting_monitor< cds::sync::spin > sync_monitor;
    static bool const relaxed_insert = Relaxed;
    typedef hint_backoff back_off;
};
template <bool Relaxed> struct bronson_traits<true, Relaxed> : cc::bronson_avltree::traits {
    typedef key_cmp compare;
    typedef cds::sync::injecting_monitor< cds::sync::spin > sync_monitor;
    static bool const relaxed_insert = Relaxed;
    typedef hint_backoff back_off;
    typedef cds::atomicity::item_counter item_counter;
};

template <class M>
struct BronsonSnap : IMap {
    M m;
    BronsonSnap( bool cnt ) { can_minmax = true; has_counter = cnt; }
    bool insert( long k, long v ) override { return m.insert( k, v ); }
    std::pair<bool, bool> update( long k, long v, bool allow ) override
    {
        return m.update( k, [v]( bool, long const&, long& item ) { item = v; }, allow );
    }
    bool erase( long k, long& v ) override { return m.erase( k, [&v]( long const&, long& item ) { v = item; } ); }
    bool extract( long k, long& v ) override
    {
        auto p = m.extract( k );
        if ( !p ) return false;
        v = *p;
        return true;
    }
    bool find( long k, long& v ) override { return m.find( k, [&v]( long const&, long& item ) { v = item; } ); }
    bool contains( long k ) override { return m.contains( k ); }
    bool extract_min( long& k, long& v ) override
    {
        auto p = m.extract_min_key( k );
        if ( !p ) return false;
        v = *p;
        return true;
    }
    bool extract_max( long& k, long& v ) override
    {
        auto p = m.extract_max_key( k );
        if ( !p ) return false;
        v = *p;
        return true;
    }
    size_t size() override { return m.size(); }
    bool empty() override { return m.empty(); }
    int consistent() override { return m.check_consistency() ? 1 : 0; }
    // BronsonAVLTreeMap has no iterators: probe every key of the key space
    void iterate( std::vector<long>& keys ) override
    {
        for ( long k = 0; k < c_probe_keys; ++k )
            if ( m.contains( k ))
                keys.push_back( k );
    }

    typedef typename M::base_class B;
    typedef typename B::node_type node_type;
    void walk( Snap& s, node_type* parent, node_type* p, unsigned& n )
    {
        if ( !p ) { s.line << " E"; return; }
        if ( ++n > c_walk_limit ) { s.line << " E"; s.faults.push_back( "tree-cycle" ); return; }
        bool valued = p->m_pValue.load( atomics::memory_order_acquire ) != nullptr;
        s.line << " N " << p->m_key << ' ' << p->m_nHeight.load( atomics::memory_order_acquire ) << ' ' << ( valued ? 1 : 0 );
        if ( p->m_nVersion.load( atomics::memory_order_acquire ) & node_type::version_flags )
            s.faults.push_back( "linked-node-shrinking-or-unlinked" );
        if ( p->m_pParent.load( atomics::memory_order_acquire ) != parent )
            s.faults.push_back( "parent-pointer-mismatch" );
        walk( s, p, p->m_pLeft.load( atomics::memory_order_acquire ), n );
        if ( valued ) s.live.push_back( p->m_key );        // in-order position
        walk( s, p, p->m_pRight.load( atomics::memory_order_acquire ), n );
    }
    void dump( Snap& s ) override
    {
        B& b = (B&) m;        // private base: C-style cast
        s.line << "avl";
        unsigned n = 0;
        if ( b.m_pRoot->m_pLeft.load( atomics::memory_order_acquire )) s.faults.push_back( "root-holder-has-left-child" );
        walk( s, b.m_pRoot, b.m_pRoot->m_pRight.load( atomics::memory_order_acquire ), n );
    }
};

// ---------------------------------------------------------------- split-ordered list over MichaelList

// Coll = false: hash = key (bucket = key mod bucket count); Coll = true: hash = key / 2, so that two keys share one
// split-order key and the order of equal split-order keys by key is exercised
template <bool Coll>
struct sl_hash {
    template <class T> size_t operator()( T const& v ) const { return Coll ? size_t( key_of::k( v )) >> 1 : size_t( key_of::k( v )); }
};
struct ml_less : cc::michael_list::traits { typedef key_less less; };
template <bool Coll>
struct sl_traits : cc::split_list::traits {
    typedef cc::michael_list_tag ordered_list;
    typedef sl_hash<Coll> hash;
    static const bool dynamic_bucket_table = true;
    typedef ml_less ordered_list_traits;
    typedef cds::atomicity::item_counter item_counter;
};

template <class S, bool Coll>
struct SplitSnap : IMap {
    S l;
    SplitSnap( size_t nItems, size_t lf ) : l( nItems, lf )
    {
        has_counter = true;
        struct_empty = false;           // SplitListSet::empty() is `size() == 0`
        split_order = true;
    }
    bool insert( long k, long v ) override { return l.insert( kv( k, v )); }
    std::pair<bool, bool> update( long k, long v, bool allow ) override
    {
        return l.update( kv( k, v ), []( bool, kv& item, kv const& key ) { item.val = key.val; }, allow );
    }
    bool erase( long k, long& v ) override { return l.erase( kv( k, 0 ), [&v]( kv const& item ) { v = item.val; } ); }
    bool extract( long k, long& v ) override
    {
        auto p = l.extract( kv( k, 0 ));
        if ( !p ) return false;
        v = p->val;
        return true;
    }
    bool find( long k, long& v ) override { return l.find( kv( k, 0 ), [&v]( kv& item, kv const& ) { v = item.val; } ); }
    bool contains( long k ) override { return l.contains( kv( k, 0 )); }
    void iterate( std::vector<long>& keys ) override
    {
        unsigned n = 0;
        for ( auto it = l.begin(); it != l.end() && n < c_walk_limit; ++it, ++n )
            keys.push_back( it->key );
    }
    size_t size() override { return l.size(); }
    bool empty() override { return l.empty(); }
    static size_t reverse_bits( size_t x )
    {
        size_t r = 0;
        for ( unsigned i = 0; i < sizeof( size_t ) * 8; ++i, x >>= 1 )
            r = ( r << 1 ) | ( x & 1 );
        return r;
    }
    // computed independently of the library's bit-reversal code
    size_t so_key( long k ) override { return reverse_bits( sl_hash<Coll>()( k )) | size_t( 1 ); }
    void dump( Snap& s ) override
    {
        typedef typename S::base_class B;                   // intrusive::SplitListSet
        typedef typename S::node_type N;                    // regular node: primary node + m_Value
        typedef typename B::aux_node_type aux_node_type;    // bucket table's node: primary node + free-list hook
        typedef typename S::maker::primary_node_type P;     // split_list::node< michael_list::node<gc> >
        B& b = (B&) l;        // protected base: C-style cast
        s.line << "split";
        // dummy nodes are the nodes the bucket table refers to (independent of the parity of m_nHash)
        std::map<void const*, size_t> dummies;
        size_t cap = b.m_Buckets.capacity();
        for ( size_t i = 0; i < cap; ++i ) {
            aux_node_type* d = b.m_Buckets.bucket( i );
            if ( d ) {
                P* dp = static_cast<P*>( d );
                if ( dummies.count( dp )) s.faults.push_back( "two-buckets-share-a-dummy" );
                dummies[dp] = i;
            }
        }
        size_t seen = 0;
        auto p = b.m_List.m_pHead.load( atomics::memory_order_acquire );
        if ( p.bits()) s.faults.push_back( "head-pointer-marked" );
        unsigned n = 0;
        for ( auto* cur = p.ptr(); cur; ) {
            if ( ++n > c_walk_limit ) { s.faults.push_back( "chain-cycle" ); break; }
            auto nx = cur->m_pNext.load( atomics::memory_order_acquire );
            P* a = static_cast<P*>( cur );
            auto it = dummies.find( a );
            bool dummy = it != dummies.end();
            long key;
            if ( dummy ) { key = long( it->second ); ++seen; }
            else {
                key = static_cast<N*>( a )->m_Value.key;
                if ( !nx.bits()) s.live.push_back( key );
            }
            s.line << ' ' << a->m_nHash << ' ' << ( dummy ? 1 : 0 ) << ' ' << key << ' ' << ( nx.bits() ? 1 : 0 );
            cur = nx.ptr();
        }
        if ( seen != dummies.size()) s.faults.push_back( "bucket-dummy-not-in-chain" );
    }
};

template <bool Coll> using SSplit = cc::SplitListSet<cds::gc::HP, kv, sl_traits<Coll>>;

// ---------------------------------------------------------------- fixture

struct Fixture {
    static char const* family() { return "snap"; }
    static std::vector<std::string> variants()
    {
        return {
            "michael_hp", "michael_hp_cnt", "lazy_hp", "lazy_hp_cnt", "iterable_hp", "iterable_hp_cnt",
            "skip_hp", "skip_hp_cnt", "skip_gpi", "skip_gpi_cnt",
            "ellen_hp", "ellen_hp_cnt",
            "bronson_gpi", "bronson_gpi_cnt", "bronson_gpi_relaxed",
            "split_michael_hp", "split_michael_hp_coll"
        };
    }
    std::unique_ptr<IMap> m;
    bool failed = false;
    std::string failure;
    std::function<void()> after;      // run after the container has been destroyed
    GenCfg gen;
    int nthreads;

    explicit Fixture( Case const& c ) : nthreads( c.threads )
    {
        typedef cds::gc::HP HP;
        std::string const& v = c.variant;
        g_hints = c.optl( "hints", 1 ) != 0;
        g_level_seed = unsigned( c.index + 1 );
        bool odd = ( c.index % 2 ) != 0;
        static int const mk[] = { 3, 4, 5, 6, 8 };
        gen.maxkeys = mk[c.index % 5];
        if ( c.index % 4 == 0 ) { gen.maxkeys = 8; gen.ins_heavy = true; }
        auto gpi = [this] { after = [] { rcu_gpi::force_dispose(); }; };

        if ( v == "michael_hp" ) m.reset( new MichaelSnap<CMichael<false>>( false ));
        else if ( v == "michael_hp_cnt" ) m.reset( new MichaelSnap<CMichael<true>>( true ));
        else if ( v == "lazy_hp" ) m.reset( new LazySnap<CLazy<false>>( false ));
        else if ( v == "lazy_hp_cnt" ) m.reset( new LazySnap<CLazy<true>>( true ));
        else if ( v == "iterable_hp" ) m.reset( new IterableSnap<CIter<false>>( false, odd ));
        else if ( v == "iterable_hp_cnt" ) m.reset( new IterableSnap<CIter<true>>( true, odd ));
        else if ( v == "skip_hp" ) m.reset( new SkipSnap<cc::SkipListSet<HP, kv, skip_traits<false>>, false>( false ));
        else if ( v == "skip_hp_cnt" ) m.reset( new SkipSnap<cc::SkipListSet<HP, kv, skip_traits<true>>, false>( true ));
        else if ( v == "skip_gpi" ) { m.reset( new SkipSnap<cc::SkipListSet<rcu_gpi, kv, skip_traits<false>>, true>( false )); gpi(); }
        else if ( v == "skip_gpi_cnt" ) { m.reset( new SkipSnap<cc::SkipListSet<rcu_gpi, kv, skip_traits<true>>, true>( true )); gpi(); }
        else if ( v == "ellen_hp" ) m.reset( new EllenSnap<cc::EllenBinTreeSet<HP, long, kv, ellen_set_traits<false>>>( false ));
        else if ( v == "ellen_hp_cnt" ) m.reset( new EllenSnap<cc::EllenBinTreeSet<HP, long, kv, ellen_set_traits<true>>>( true ));
        else if ( v == "bronson_gpi" ) { m.reset( new BronsonSnap<cc::BronsonAVLTreeMap<rcu_gpi, long, long, bronson_traits<false, false>>>( false )); gpi(); }
        else if ( v == "bronson_gpi_cnt" ) { m.reset( new BronsonSnap<cc::BronsonAVLTreeMap<rcu_gpi, long, long, bronson_traits<true, false>>>( true )); gpi(); }
        else if ( v == "bronson_gpi_relaxed" ) { m.reset( new BronsonSnap<cc::BronsonAVLTreeMap<rcu_gpi, long, long, bronson_traits<true, true>>>( true )); gpi(); }
        else if ( v == "split_michael_hp" || v == "split_michael_hp_coll" ) {
            // the table starts with 2 buckets and doubles (up to ceil2( nItems / load factor )) whenever
            // item count > bucket count * load factor
            static size_t const caps[] = { 4, 8, 16 };
            size_t nItems = caps[c.index % 3];
            gen.maxkeys = 8;
            gen.ins_heavy = ( c.index % 3 ) != 0;
            if ( v == "split_michael_hp" ) m.reset( new SplitSnap<SSplit<false>, false>( nItems, 1 ));
            else m.reset( new SplitSnap<SSplit<true>, true>( nItems, 1 ));
        }
        else { std::fprintf( stderr, "unknown variant %s\n", v.c_str()); std::exit( 2 ); }
        if ( c.optl( "minmax", 1 ) == 0 )
            m->can_minmax = false;
    }
    ~Fixture()
    {
        m.reset();
        if ( after ) after();
    }
    // Concurrent runs are judged against the concurrent map specification "mapc" (payload updates of update() are
    // not atomic with the operation); the variants that offer extract_min / extract_max (skip list, Ellen, Bronson)
    // against "mapr", which in addition lets a *concurrent* extract_min / extract_max return any present key (libcds
    // documents them as "nearly" minimal / maximal; same convention as the tree family, DESIGN.md section 11).
    // Single-thread runs are judged against the sequential specification "map".
    std::string spec() const { return nthreads > 1 ? ( m->can_minmax ? "mapr" : "mapc" ) : "map"; }
    std::vector<std::vector<Op>> program( Rng& r, int nthreads, int nops ) { return map_program( r, nthreads, nops, *m, gen ); }
    void thread_begin( int ) { set_quiet( true ); cds::threading::Manager::attachThread(); set_quiet( false ); }
    void thread_end( int ) { set_quiet( true ); cds::threading::Manager::detachThread(); set_quiet( false ); }
    std::vector<long> exec( int, Op const& op ) { tls_order_count = 0; tls_cmp_count = 0; return map_exec( *m, op ); }

    void finish( std::ostream& out )
    {
        tls_order_count = 0; tls_cmp_count = 0;
        // (i) raw dump
        Snap s;
        m->dump( s );
        out << "SNAP " << s.line.str() << '\n';
        // (ii) the container's own view
        std::vector<long> it;
        m->iterate( it );
        out << "ITER";
        for ( long k : it ) out << ' ' << k;
        out << '\n';
        size_t sz = m->size();
        bool em = m->empty();
        if ( m->has_counter ) out << "SIZE " << sz << '\n';
        if ( m->has_counter || m->struct_empty ) out << "EMPTY " << ( em ? 1 : 0 ) << '\n';
        int cons = m->consistent();
        if ( cons >= 0 ) out << "CONSIST " << cons << '\n';
        // (iii) oracle
        for ( std::string const& f : s.faults ) out << "X dump-fault " << f << '\n';
        bool sorted = true;
        for ( size_t i = 1; i < it.size(); ++i ) {
            if ( m->split_order ) {
                size_t a = m->so_key( it[i - 1] ), b = m->so_key( it[i] );
                if ( !( a < b || ( a == b && it[i - 1] < it[i] ))) sorted = false;
            }
            else if ( !( it[i - 1] < it[i] )) sorted = false;
        }
        if ( !sorted ) out << "X iter-not-sorted\n";
        if ( it != s.live ) out << "X iter-differs-from-snapshot\n";
        if ( m->has_counter && sz != s.live.size()) out << "X size-mismatch\n";
        if (( m->has_counter || m->struct_empty ) && em != s.live.empty()) out << "X empty-mismatch\n";
        if ( cons == 0 ) out << "X consistency-check-failed\n";
    }
};

int main( int argc, char** argv )
{
    cds::Initialize();
    {
        cds::gc::HP hp( 24, 16 );
        rcu_gpi gpi;
        cds::threading::Manager::attachThread();
        int rc = client_main<Fixture>( argc, argv );
        cds::threading::Manager::detachThread();
        (void) rc;
    }
    cds::Terminate();
    return 0;
}

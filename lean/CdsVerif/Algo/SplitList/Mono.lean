/-
  Helper lemmas for the step proofs of the split-list invariant: how the six kinds of memory updates (store into a
  private node, physical unlink, link, mark, allocation of a dummy node / of an item) act on the global clauses `GOk`
  and on the clauses `TOk` of a thread that does not move; and how `get_bucket` / `init_bucket` hand a bucket's dummy
  to the MichaelList operation.
-/
import CdsVerif.Algo.SplitList.Inv
namespace CdsVerif.Algo.SplitList
open CdsVerif.Machine CdsVerif.Spec CdsVerif.Lin
open CdsVerif.Algo.Michael (LPok isRO)

macro "own_close" : tactic =>
  `(tactic| (intros; (try dsimp only at *); grind [pcTop, pcDum, wtop, wdum, afterAdd, afterCnt, advance, notFound, found, afterChk, afterHd, linked, initRet]))

/-- The key a client's traversal looks for is `( regular_hash( hash( key )), key )`. -/
theorem okey_top {c : Cfg} {m : Mem} {tb : Nat → Option Nat} {k2 : Nat} {L : List Nat} (g : GOk c m tb k2 L) {o : Top}
    (hitem : ∀ n, o = .ins n → n % 2 = 1 ∧ Alloc m n) :
    okeyS c m.so (.top o) = c.reg (c.hash (tkey m.uk o)) ∧ okeyU m.uk (.top o) = tkey m.uk o := by
  cases o with
  | ins n => have := hitem n rfl; simp [okeyS, okeyU, tkey, g.regso n this.1 this.2]
  | era k => simp [okeyS, okeyU, tkey]
  | fnd k => simp [okeyS, okeyU, tkey]
  | con k => simp [okeyS, okeyU, tkey]

/-- `get_bucket` hands the dummy `d` of bucket `b` to the client's MichaelList operation. -/
theorem tok_start {c : Cfg} (hc : SOHyp c) {m : Mem} {tb : Nat → Option Nat} {k2 : Nat} {L : List Nat}
    (g : GOk c m tb k2 L) {o : Top} {b d : Nat}
    (hitem : ∀ n, o = .ins n → n % 2 = 1 ∧ Alloc m n ∧ n ∉ L ∧ m.mark n = false)
    (hpre : Pre c (c.hash (tkey m.uk o)) b)
    (hd : d ∈ L ∧ d % 2 = 0 ∧ m.so d = c.dum b ∧ m.uk d = 0) : TOk c m L (.sHd1 (.top o) d) := by
  have hk := okey_top g (o := o) (fun n e => ⟨(hitem n e).1, (hitem n e).2.1⟩)
  have hlt := hc.dumReg _ _ hpre
  tok_close

/-- `init_bucket( b )` returns the dummy `d` of bucket `b`. -/
theorem tok_initRet {c : Cfg} (hc : SOHyp c) {m : Mem} {tb : Nat → Option Nat} {k2 : Nat} {L : List Nat}
    (g : GOk c m tb k2 L) {o : Top} {b d : Nat} {rest : List Nat}
    (hitem : ∀ n, o = .ins n → n % 2 = 1 ∧ Alloc m n ∧ n ∉ L ∧ m.mark n = false)
    (hpre : ∀ x, x ∈ b :: rest → 0 < x ∧ Pre c (c.hash (tkey m.uk o)) x)
    (hpar : ParChain (b :: rest))
    (hd : d ∈ L ∧ d % 2 = 0 ∧ m.so d = c.dum b ∧ m.uk d = 0) : TOk c m L (initRet o (b :: rest) d) := by
  cases rest with
  | nil => exact tok_start hc g hitem (hpre b (by simp)).2 hd
  | cons b2 r =>
    simp only [ParChain] at hpar
    have h2 : ∀ x, x ∈ b2 :: r → 0 < x ∧ Pre c (c.hash (tkey m.uk o)) x :=
      fun x hx => hpre x (List.mem_cons_of_mem _ hx)
    simp only [initRet]
    tok_close

/-! ### The six ways the memory changes, and what they do to the global clauses and to another thread's clauses -/

section
variable {c : Cfg} {m : Mem} {tb : Nat → Option Nat} {k2 : Nat} {L : List Nat}

/-- K1: a store into a private node. -/
theorem GOk.upd_priv (g : GOk c m tb k2 L) {n : Nat} (x : Option Nat) (hn : n ∉ L) (hnm : m.mark n = false) (ha : Alloc m n) :
    GOk c { m with next := upd m.next n x, mark := upd m.mark n false } tb k2 L := by
  have hch := Michael.Chain.upd (v := x) hn g.chain
  obtain ⟨-, hso, hal, hun, hdm, hrs, hds, hsu, htb, ht0, hcb⟩ := g
  constructor <;> intros <;> (try dsimp only at *) <;> grind [upd, Alloc]

theorem TOk.upd_priv {pc : PC} (h : TOk c m L pc) {n : Nat} (x : Option Nat) (hn : n ∉ L) (hnm : m.mark n = false)
    (hne : pcTop pc ≠ some (.ins n) ∧ pcDum pc ≠ some n) :
    TOk c { m with next := upd m.next n x, mark := upd m.mark n false } L pc := by
  have hic : ∀ w d p y n', pc = .iCas w d p y → wnode w = some n' → n' ≠ n := by
    intro w d p y n' e hw e2
    subst e e2
    rcases wnode_refs hw with e3 | e3
    · exact hne.1 (by simp [pcTop, e3])
    · exact hne.2 (by simp [pcDum, e3])
  obtain ⟨h1, h2, h3, h4, h5, h6, h7, h8, h9, h10, h11, h12, h13, h14, h15, h16, h17, h18, h19⟩ := h
  constructor <;> intros <;> (try dsimp only at *) <;> grind [upd, Alloc]

/-- K2: the physical unlink of the marked node `x` behind the unmarked chain node `p`. -/
theorem GOk.unlink (g : GOk c m tb k2 L) {p x : Nat} (hp : p ∈ L) (_hpm : m.mark p = false) (hpx : m.next p = some x)
    (hxm : m.mark x = true) :
    GOk c { m with next := upd m.next p (m.next x) } tb k2 (L.erase x) := by
  have hnd := g.nodup
  have hch := Michael.Chain.unlink hpx g.chain hnd hp
  have hso' : (L.erase x).Pairwise (KLt m.so m.uk) := g.sorted.sublist List.erase_sublist
  have hmem : ∀ a, a ∈ L.erase x ↔ (a ≠ x ∧ a ∈ L) := fun a => List.Nodup.mem_erase_iff hnd
  obtain ⟨-, -, hal, hun, hdm, hrs, hds, hsu, htb, ht0, hcb⟩ := g
  constructor <;> intros <;> (try dsimp only at *) <;> grind [upd, Alloc]

theorem TOk.unlink {pc : PC} (h : TOk c m L pc) (g : GOk c m tb k2 L) {p x : Nat} (hp : p ∈ L) (hpm : m.mark p = false)
    (hxm : m.mark x = true) :
    TOk c { m with next := upd m.next p (m.next x) } (L.erase x) pc := by
  have hmem : ∀ a, a ∈ L.erase x ↔ (a ≠ x ∧ a ∈ L) := fun a => List.Nodup.mem_erase_iff g.nodup
  have hdm := g.dmark
  have hic : ∀ w d q y n', pc = .iCas w d q y → wnode w = some n' → n' ≠ p := by
    intro w d q y n' e hw e2
    subst e e2
    rcases wnode_refs hw with e3 | e3
    · exact (h.item n' (by simp [pcTop, e3])).2.2.1 hp
    · exact (h.dumPriv n' (by simp [pcDum, e3])).2.2 hp
  obtain ⟨h1, h2, h3, h4, h5, h6, h7, h8, h9, h10, h11, h12, h13, h14, h15, h16, h17, h18, h19⟩ := h
  constructor <;> intros <;> (try dsimp only at *) <;> grind [upd, Alloc]

/-- K3: the successful CAS of `link_node`. -/
theorem GOk.link (g : GOk c m tb k2 L) {p n : Nat} (hp : p ∈ L) (hn : n ∉ L) (hna : Alloc m n) (_hnm : m.mark n = false)
    (hnn : m.next n = m.next p) (hpn : KLt m.so m.uk p n) (hnc : ∀ x, m.next p = some x → KLt m.so m.uk n x) :
    GOk c { m with next := upd m.next p (some n) } tb k2 (Michael.insAfter p n L) := by
  have hnd := g.nodup
  have hch := Michael.Chain.insAfter hnn g.chain hnd hp hn
  have hso' := Michael.pairwise_insAfter (nx := m.next) KLt.trans hpn hnc g.chain g.sorted hp
  have hmem : ∀ a, a ∈ Michael.insAfter p n L ↔ (a ∈ L ∨ a = n) := fun a => Michael.mem_insAfter hp
  have hpn' : p ≠ n := fun e => hn (e ▸ hp)
  obtain ⟨-, -, hal, hun, hdm, hrs, hds, hsu, htb, ht0, hcb⟩ := g
  constructor <;> intros <;> (try dsimp only at *) <;> grind [upd, Alloc]

theorem TOk.link {pc : PC} (h : TOk c m L pc) {p n : Nat} (hp : p ∈ L) (hpm : m.mark p = false)
    (hne : pcTop pc ≠ some (.ins n) ∧ pcDum pc ≠ some n) :
    TOk c { m with next := upd m.next p (some n) } (Michael.insAfter p n L) pc := by
  have hmem : ∀ a, a ∈ Michael.insAfter p n L ↔ (a ∈ L ∨ a = n) := fun a => Michael.mem_insAfter hp
  have hic : ∀ w d q y n', pc = .iCas w d q y → wnode w = some n' → n' ≠ p := by
    intro w d q y n' e hw e2
    subst e e2
    rcases wnode_refs hw with e3 | e3
    · exact (h.item n' (by simp [pcTop, e3])).2.2.1 hp
    · exact (h.dumPriv n' (by simp [pcDum, e3])).2.2 hp
  obtain ⟨h1, h2, h3, h4, h5, h6, h7, h8, h9, h10, h11, h12, h13, h14, h15, h16, h17, h18, h19⟩ := h
  constructor <;> intros <;> (try dsimp only at *) <;> grind [upd, Alloc]

/-- K4: the marking CAS of `unlink_node`, on the chain item `x`. -/
theorem GOk.markit (g : GOk c m tb k2 L) {x : Nat} (hx : x ∈ L) (hodd : x % 2 = 1) :
    GOk c { m with mark := upd m.mark x true } tb k2 L := by
  have hnx := fun b => g.next_mem (a := x) (b := b) hx
  obtain ⟨hch, hso, hal, hun, hdm, hrs, hds, hsu, htb, ht0, hcb⟩ := g
  constructor <;> intros <;> (try dsimp only at *) <;> grind [upd, Alloc]

theorem TOk.markit {pc : PC} (h : TOk c m L pc) {x : Nat} (hx : x ∈ L) :
    TOk c { m with mark := upd m.mark x true } L pc := by
  obtain ⟨h1, h2, h3, h4, h5, h6, h7, h8, h9, h10, h11, h12, h13, h14, h15, h16, h17, h18, h19⟩ := h
  constructor <;> intros <;> (try dsimp only at *) <;> grind [upd, Alloc]

theorem pcGtCur_cur {pc : PC} {a : Nat} (h : pcGtCur pc = some a) : pcCur pc = some a := by
  cases pc <;> simp_all [pcGtCur, pcCur]

theorem pcEq_cur {pc : PC} {a : Nat} {k : Int} (h : pcEq pc = some (a, k)) : pcCur pc = some a := by
  cases pc <;> simp_all [pcEq, pcCur]

/-- K5 / K6: allocation of the fresh node `f` (its key fields are written; nothing refers to it yet). -/
theorem TOk.allocNode {pc : PC} (h : TOk c m L pc) (g : GOk c m tb k2 L) {m' : Mem} {f : Nat} (hf : ¬ Alloc m f)
    (hnx : m'.next = m.next) (hmk : m'.mark = m.mark)
    (hso : ∀ a, a ≠ f → m'.so a = m.so a) (huk : ∀ a, a ≠ f → m'.uk a = m.uk a)
    (hal : ∀ a, Alloc m a → Alloc m' a) : TOk c m' L pc := by
  obtain ⟨nx', mk', so', uk', val', cnt', acnt'⟩ := m'
  dsimp only at hnx hmk hso huk
  subst hnx hmk
  have hfa : ∀ a, Alloc m a → a ≠ f := fun a ha e => hf (e ▸ ha)
  have hlk : ∀ a, (a ∈ L ∨ m.mark a = true) → a ≠ f := fun a ha => hfa a (g.lk_alloc ha)
  have hrefs : ∀ a, pcRefs pc a → a ≠ f := by
    intro a ha
    rcases ha with e | e | e
    · exact hfa a (h.item a e).2.1
    · exact hfa a (h.dumPriv a e).2.1
    · exact hlk a (h.lkCur a e)
  have hsk : skeyS c so' pc = skeyS c m.so pc := skeyS_congr (fun a ha => hso a (hrefs a ha))
  have hsu : skeyU uk' pc = skeyU m.uk pc := skeyU_congr (fun a ha => huk a (hrefs a ha))
  have htk : ∀ o, pcTop pc = some o → tkey uk' o = tkey m.uk o := by
    intro o ho
    apply tkey_congr
    intro n e
    exact huk n (hrefs n (Or.inl (by rw [ho, e])))
  have hic : ∀ w d q y n', pc = .iCas w d q y → wnode w = some n' → n' ≠ f := by
    intro w d q y n' e hw
    subst e
    rcases wnode_refs hw with e3 | e3
    · exact hrefs n' (Or.inl (by simp [pcTop, e3]))
    · exact hrefs n' (Or.inr (Or.inl (by simp [pcDum, e3])))
  have hgt : ∀ a, pcGtCur pc = some a → a ≠ f := fun a e => hlk a (h.lkCur a (pcGtCur_cur e))
  have heq : ∀ a k, pcEq pc = some (a, k) → a ≠ f := fun a k e => hlk a (h.lkCur a (pcEq_cur e))
  obtain ⟨h1, h2, h3, h4, h5, h6, h7, h8, h9, h10, h11, h12, h13, h14, h15, h16, h17, h18, h19⟩ := h
  constructor <;> intros <;> (try dsimp only at *) <;> (try rw [hsk, hsu]) <;> grind [klt]

theorem GOk.allocNode (g : GOk c m tb k2 L) {m' : Mem} {f : Nat} (hf : ¬ Alloc m f)
    (hnx : m'.next = m.next) (hmk : m'.mark = m.mark)
    (hso : ∀ a, a ≠ f → m'.so a = m.so a) (huk : ∀ a, a ≠ f → m'.uk a = m.uk a)
    (hal : ∀ a, Alloc m' a ↔ (Alloc m a ∨ a = f))
    (hfo : f % 2 = 1 → m'.so f = c.reg (c.hash (m'.uk f))) (hfe : f % 2 = 0 → m'.so f % 2 = 0) :
    GOk c m' tb k2 L := by
  obtain ⟨nx', mk', so', uk', val', cnt', acnt'⟩ := m'
  dsimp only at hnx hmk hso huk hfo hfe
  subst hnx hmk
  have hfa : ∀ a, Alloc m a → a ≠ f := fun a ha e => hf (e ▸ ha)
  have hLf : ∀ a, a ∈ L → a ≠ f := fun a ha => hfa a (g.alloc a ha)
  have hsrt : L.Pairwise (KLt so' uk') := by
    refine List.Pairwise.imp_of_mem ?_ g.sorted
    intro a b ha hb hab
    unfold KLt at *
    rw [hso a (hLf a ha), hso b (hLf b hb), huk a (hLf a ha), huk b (hLf b hb)]; exact hab
  have hun := g.unalloc f hf
  obtain ⟨hch, -, halc, hunc, hdm, hrs, hds, hsu, htb, ht0, hcb⟩ := g
  constructor <;> intros <;> (try dsimp only at *) <;> grind

end

/-- A node private to thread `t` is not private to another thread. -/
theorem SInvL.other_ne {c : Cfg} {s : St} {L : List Nat} (h : SInvL c s L) {t t2 : Tid} {n : Nat} (ht : t2 ≠ t)
    (hown : pcTop (s.pc t) = some (.ins n) ∨ pcDum (s.pc t) = some n) :
    pcTop (s.pc t2) ≠ some (.ins n) ∧ pcDum (s.pc t2) ≠ some n := by
  rcases hown with e | e
  · refine ⟨fun e2 => ht (h.own.item t2 t n e2 e), fun e2 => ?_⟩
    have h1 := ((h.thr t).item n e).1
    have h2 := ((h.thr t2).dumPriv n e2).1
    omega
  · refine ⟨fun e2 => ?_, fun e2 => ht (h.own.dum t2 t n e2 e)⟩
    have h1 := ((h.thr t).dumPriv n e).1
    have h2 := ((h.thr t2).item n e2).1
    omega

theorem wnode_own {w : OpK} {n : Nat} (h : wnode w = some n) (pc : PC) (hp : pcTop pc = some (wtop w)) (hd : pcDum pc = wdum w) :
    pcTop pc = some (.ins n) ∨ pcDum pc = some n := by
  rcases wnode_refs h with e | e
  · left; rw [hp, e]
  · right; rw [hd, e]

macro "tok_closeX" : tactic =>
  `(tactic| (constructor <;> intros <;> (try dsimp only at *) <;>
      grind [upd, Alloc, klt, wtop, wstk, wdum, wnode, tkey, okeyS, okeyU, pcTop, pcStk, pcDum, pcStart, pcPrev, pcCur, pcNx,
          pcGtCur, pcEq, pcFrozen, pcPP, pcPub, pcBkt, pcSz, skeyS, skeyU, ParChain, advance, notFound, found, afterChk, afterHd,
          linked]))
macro "eff_closeX" : tactic =>
  `(tactic| (constructor <;> intros <;> (try dsimp only at *) <;>
      grind [upd, Alloc, klt, wtop, wnode, okeyS, okeyU, lpRet, postRet, opOf, tent, foundRet, absentRet, gop, advance, notFound,
        found, afterChk, afterHd, linked]))


end CdsVerif.Algo.SplitList

/-
  Invariant of the Vyukov bounded MPMC queue model and the refinement of the abstract queue.

  Notation: `D = posDeq`, `E = posEnq`, `cap = 2^k`, `cell p = p mod cap` (`idxOf_eq`: `pos & mask = pos mod cap`).

  * `VInv.ord`, `VInv.bnd` : `D ≤ E ≤ D + cap`.  The positions claimed by producers are exactly `[0, E)`, those
    claimed by consumers exactly `[0, D)` (a position is claimed by the successful CAS `p → p + 1`).
  * In-flight claimers.  A producer between its CAS on `m_posEnqueue` at `p` and its sequence store (`enqSt p`)
    owns position `p`: `D ≤ p < E`, the cell still shows `p` (`eown`), and it is the only such thread (`euniq`).
    A consumer between its CAS on `m_posDequeue` at `p` and its sequence store (`deqSt p v`) owns position `p`:
    `p < D`, `E ≤ p + cap` (the cell has not been claimed again), the cell still shows `p + 1`, its payload is
    still the value `v` the consumer returns (`down`), and it is the only such thread (`duniq`).
  * Sequence numbers (`full`, `free`).  For a position `D ≤ p < E` (claimed by a producer, not by a consumer) the
    cell shows `p + 1` (published) or `p` (the producer's store is pending).  For a position `E ≤ p < D + cap` (the
    next lap, not claimed yet) the cell shows `p` (free for the producer of `p`) or `p - cap + 1` (the consumer of
    the previous lap has claimed `p - cap` and its store is pending).  Every cell is the cell of exactly one
    position of `[D, D + cap)`, so this determines `seq i` for every `i < cap` up to the pending stores.
    In `VInv` "pending" is stated through the sequence value (no safety property needs more); the converse — a
    cell showing `p` with `D ≤ p < E` HAS an in-flight producer `enqSt p`, a cell showing `p - cap + 1` with
    `E ≤ p < D + cap` HAS an in-flight consumer `deqSt (p - cap)` — is the second invariant `VOwn`, so that together
    `seq i` is determined exactly by `posEnq`, `posDeq` and the set of in-flight claimers (`vown_reachable`).
  * Observers (`epos`, `dpos`, `ecas`, `dcas`).  A position read from `m_posEnqueue` (`m_posDequeue`) stays `≤` it;
    a thread that saw `dif == 0` and is about to CAS finds, IF its CAS succeeds, the cell exactly as it saw it.
  * `absQueue s` = the payloads of the cells of the positions `D ≤ p < E`, in order.  An element claimed by a
    producer whose sequence store is pending is already IN the abstract queue (linearization point: the successful
    CAS on `m_posEnqueue`); a consumer that won its CAS has already REMOVED its element (linearization point: the
    successful CAS on `m_posDequeue`).  `deq_claims_published`: the consumer can only win after the producer of the
    same position has published (sequence `p + 1` observed and still there), and the payload it returns is the
    head of the abstract queue.  `no_overwrite`: a producer writes a payload only into a cell that is outside the
    abstract queue and that no other thread holds.
  * Failing operations need NO hindsight.  A producer returns `[0]` at its load of `m_posDequeue` that yields
    `pos - posDeq == cap`; `pos` was read from `m_posEnqueue` earlier, so `pos ≤ E` (`epos`), and `E ≤ D + cap = pos`
    (`bnd`): hence `E = pos` and the abstract queue holds exactly `cap` items AT THE INSTANT OF THAT LOAD, which is
    also the step that fixes the result.  Symmetrically a consumer returns `[0]` at its load of `m_posEnqueue`
    that yields `pos == E`: `pos ≤ D ≤ E = pos`, the queue is empty at that instant (`fail_step`).
  * `step_refines` : a step that passes a linearization point is exactly one `bfifo cap` step on `absQueue` with
    the result the operation returns; every other step leaves `absQueue` unchanged.
-/
import CdsVerif.Algo.Vyukov.Model
namespace CdsVerif.Algo.Vyukov
open CdsVerif.Machine CdsVerif.Spec CdsVerif.Lin

/-! ### Cells -/

/-- The cell of position `p`: `p mod capacity`. -/
def cell (k p : Nat) : Nat := p % capOf k

theorem idxOf_eq (k p : Nat) : idxOf k p = cell k p := by
  unfold idxOf maskOf capOf cell
  exact Nat.and_two_pow_sub_one_eq_mod p k

theorem capOf_pos (k : Nat) : 0 < capOf k := Nat.two_pow_pos k

theorem capOf_ge2 {k : Nat} (h : 1 ≤ k) : 2 ≤ capOf k := by
  unfold capOf
  calc 2 = 2 ^ 1 := rfl
    _ ≤ 2 ^ k := Nat.pow_le_pow_right (by omega) h

theorem maskOf_succ (k : Nat) : maskOf k + 1 = capOf k := by
  have := capOf_pos k
  unfold maskOf; omega

theorem cell_inj {k a b : Nat} (h : cell k a = cell k b) (h1 : a < b + capOf k) (h2 : b < a + capOf k) : a = b := by
  unfold cell at h
  have ha := Nat.div_add_mod a (capOf k)
  have hb := Nat.div_add_mod b (capOf k)
  have hc := capOf_pos k
  generalize capOf k = c at *
  generalize a / c = qa at *
  generalize b / c = qb at *
  rw [h] at ha
  have : qa = qb := by
    rcases Nat.lt_trichotomy qa qb with hlt | heq | hgt
    · have : c * (qa + 1) ≤ c * qb := Nat.mul_le_mul_left c hlt
      rw [Nat.mul_add] at this; omega
    · exact heq
    · have : c * (qb + 1) ≤ c * qa := Nat.mul_le_mul_left c hgt
      rw [Nat.mul_add] at this; omega
  subst this; omega

theorem cell_add (k a : Nat) : cell k (a + capOf k) = cell k a := by
  unfold cell; exact Nat.add_mod_right a (capOf k)


/-! ### The abstract queue -/

/-- The abstract queue: the payloads of the cells of the positions `posDeq ≤ p < posEnq`, oldest first. -/
def absQueue (s : St) : List Int :=
  (List.range' s.posDeq (s.posEnq - s.posDeq)).map (fun p => s.data (cell s.k p))

theorem absQueue_length (s : St) : (absQueue s).length = s.posEnq - s.posDeq := by simp [absQueue]

theorem absQueue_congr {s s' : St} (h1 : s'.k = s.k) (h2 : s'.data = s.data) (h3 : s'.posEnq = s.posEnq)
    (h4 : s'.posDeq = s.posDeq) : absQueue s' = absQueue s := by
  simp only [absQueue, h1, h2, h3, h4]

/-- Claiming position `E` with payload `v` appends `v`. -/
theorem absq_enq (k : Nat) (data : Nat → Int) (D E : Nat) (v : Int) (h1 : D ≤ E) (h2 : E < D + capOf k) :
    (List.range' D (E + 1 - D)).map (fun p => upd data (cell k E) v (cell k p)) =
      (List.range' D (E - D)).map (fun p => data (cell k p)) ++ [v] := by
  have e : E + 1 - D = (E - D) + 1 := by omega
  rw [e, List.range'_concat, List.map_append]
  congr 1
  · apply List.map_congr_left
    intro p hp
    have hp' := List.mem_range'_1.mp hp
    have hne : cell k p ≠ cell k E := fun hc => by
      have := cell_inj hc (by omega) (by omega); omega
    simp [upd, hne]
  · have : D + (E - D) = E := by omega
    simp [this, upd]

/-- Claiming position `D` for a dequeue removes the head. -/
theorem absq_deq (f : Nat → Int) (D E : Nat) (h : D < E) :
    (List.range' D (E - D)).map f = f D :: (List.range' (D + 1) (E - (D + 1))).map f := by
  have e : E - D = (E - (D + 1)) + 1 := by omega
  rw [e, List.range'_succ, List.map_cons]

theorem bfifo_enq_ok (cap : Nat) (q : List Int) (v : Int) (h : q.length < cap) :
    (bfifo cap).next q ⟨"enq", [v]⟩ [1] = some (q ++ [v]) := by
  simp [bfifo, detSpec, bfifoStep, h]
theorem bfifo_enq_full (cap : Nat) (q : List Int) (v : Int) (h : ¬ q.length < cap) :
    (bfifo cap).next q ⟨"enq", [v]⟩ [0] = some q := by
  simp [bfifo, detSpec, bfifoStep, h]
theorem bfifo_deq_some (cap : Nat) (q : List Int) (v : Int) :
    (bfifo cap).next (v :: q) ⟨"deq", []⟩ [1, v] = some q := by
  simp [bfifo, detSpec, bfifoStep]
theorem bfifo_deq_none (cap : Nat) : (bfifo cap).next [] ⟨"deq", []⟩ [0] = some [] := by
  simp [bfifo, detSpec, bfifoStep]

/-! ### The invariant -/

/-- The position held by a producer that has not won its CAS. -/
def enqPosOf : PC → Option Nat
  | .enqSeq _ p => some p
  | .enqCas _ p => some p
  | .enqFull _ p => some p
  | _ => none

/-- The position held by a consumer that has not won its CAS. -/
def deqPosOf : PC → Option Nat
  | .deqSeq p => some p
  | .deqCas p => some p
  | .deqEmpty p => some p
  | _ => none

structure VInv (s : St) : Prop where
  k1 : 1 ≤ s.k
  ord : s.posDeq ≤ s.posEnq
  bnd : s.posEnq ≤ s.posDeq + capOf s.k
  eown : ∀ t p, s.pc t = .enqSt p → s.posDeq ≤ p ∧ p < s.posEnq ∧ s.seq (cell s.k p) = p
  down : ∀ t p v, s.pc t = .deqSt p v →
    p < s.posDeq ∧ s.posEnq ≤ p + capOf s.k ∧ s.seq (cell s.k p) = p + 1 ∧ s.data (cell s.k p) = v
  euniq : ∀ t1 t2 p, s.pc t1 = .enqSt p → s.pc t2 = .enqSt p → t1 = t2
  duniq : ∀ t1 t2 p v1 v2, s.pc t1 = .deqSt p v1 → s.pc t2 = .deqSt p v2 → t1 = t2
  full : ∀ p, s.posDeq ≤ p → p < s.posEnq → s.seq (cell s.k p) = p + 1 ∨ s.seq (cell s.k p) = p
  free : ∀ p, s.posEnq ≤ p → p < s.posDeq + capOf s.k →
    s.seq (cell s.k p) = p ∨ s.seq (cell s.k p) + capOf s.k = p + 1
  epos : ∀ t p, enqPosOf (s.pc t) = some p → p ≤ s.posEnq
  dpos : ∀ t p, deqPosOf (s.pc t) = some p → p ≤ s.posDeq
  ecas : ∀ t v p, s.pc t = .enqCas v p → s.posEnq = p → s.seq (cell s.k p) = p
  dcas : ∀ t p, s.pc t = .deqCas p → s.posDeq = p → s.seq (cell s.k p) = p + 1

theorem vinv_init (k : Nat) (hk : 1 ≤ k) : VInv (init k) := by
  constructor <;> simp [init, enqPosOf, deqPosOf, hk]
  intro p hp
  left; unfold cell; exact Nat.mod_eq_of_lt hp

/-! ### Linearization-point bookkeeping on program counters -/

/-- The result fixed at the linearization point, for a thread that has passed it. -/
def lpRet : PC → Option GRet
  | .enqSt _ => some [1]
  | .deqSt _ v => some [1, v]
  | .done r => some r
  | _ => none

/-- The operation a thread is executing, while it has not passed its linearization point. -/
def opOf : PC → Option GOp
  | .enqPos v => some ⟨"enq", [v]⟩
  | .enqSeq v _ => some ⟨"enq", [v]⟩
  | .enqCas v _ => some ⟨"enq", [v]⟩
  | .enqFull v _ => some ⟨"enq", [v]⟩
  | .deqPos => some ⟨"deq", []⟩
  | .deqSeq _ => some ⟨"deq", []⟩
  | .deqCas _ => some ⟨"deq", []⟩
  | .deqEmpty _ => some ⟨"deq", []⟩
  | _ => none

structure StepEff (s : St) (t : Tid) (s' : St) : Prop where
  frame : ∀ t2, t2 ≠ t → s'.pc t2 = s.pc t2
  kk : s'.k = s.k
  lp : lpRet (s.pc t) = none → ∀ r, lpRet (s'.pc t) = some r →
        ∃ op, opOf (s.pc t) = some op ∧ (bfifo (capOf s.k)).next (absQueue s) op r = some (absQueue s')
  nolp : (lpRet (s.pc t) ≠ none ∨ lpRet (s'.pc t) = none) → absQueue s' = absQueue s
  keep : ∀ r, lpRet (s.pc t) = some r → lpRet (s'.pc t) = some r
  op : lpRet (s'.pc t) = none → opOf (s'.pc t) = opOf (s.pc t)
  busy : s.pc t ≠ .idle ∧ s'.pc t ≠ .idle

macro "vinv_close" : tactic =>
  `(tactic| (constructor <;> intros <;> (try dsimp only at *) <;>
      grind [upd, enqPosOf, deqPosOf, cell_inj, cell_add]))
macro "eff_close" : tactic =>
  `(tactic| (constructor <;> intros <;> (try dsimp only at *) <;>
      grind [upd, lpRet, opOf, absQueue_congr]))


/-- Moving a thread between program counters that own no cell preserves the invariant. -/
theorem vinv_pc {s : St} {t : Tid} {Y : PC} (h : VInv s)
    (hY1 : ∀ p, Y ≠ .enqSt p) (hY2 : ∀ p v, Y ≠ .deqSt p v)
    (hep : ∀ p, enqPosOf Y = some p → p ≤ s.posEnq)
    (hdp : ∀ p, deqPosOf Y = some p → p ≤ s.posDeq)
    (hec : ∀ v p, Y = .enqCas v p → s.posEnq = p → s.seq (cell s.k p) = p)
    (hdc : ∀ p, Y = .deqCas p → s.posDeq = p → s.seq (cell s.k p) = p + 1) :
    VInv { s with pc := upd s.pc t Y } := by
  obtain ⟨hk1, hord, hbnd, heown, hdown, heu, hdu, hfull, hfree, hepos, hdpos, hecas, hdcas⟩ := h
  constructor <;> intros <;> (try dsimp only at *) <;> grind [upd]

/-- A step that neither passes a linearization point nor touches positions or payloads. -/
theorem eff_pc {s : St} {t : Tid} {Y : PC} (hb : s.pc t ≠ .idle) (hY : Y ≠ .idle)
    (hl' : lpRet Y = none) (hop : opOf Y = opOf (s.pc t)) (hl : lpRet (s.pc t) = none) :
    StepEff s t { s with pc := upd s.pc t Y } := by
  constructor <;> intros <;> (try dsimp only at *) <;> grind [upd, absQueue_congr]


macro "pc_only" h:ident hpc:ident : tactic =>
  `(tactic| (refine ⟨vinv_pc $h ?_ ?_ ?_ ?_ ?_ ?_, eff_pc ?_ ?_ ?_ ?_ ?_⟩ <;>
      simp [enqPosOf, deqPosOf, lpRet, opOf, $hpc:ident]))

theorem vinv_step_enqPos {s s' : St} {t : Tid} {ev : Ev} {v : Int}
    (h : VInv s) (hpc : s.pc t = .enqPos v) (hs : step s t = some (s', ev)) : VInv s' ∧ StepEff s t s' := by
  simp only [step, hpc] at hs
  simp at hs; obtain ⟨rfl, -⟩ := hs
  pc_only h hpc

theorem vinv_step_enqSeq {s s' : St} {t : Tid} {ev : Ev} {v : Int} {p : Nat}
    (h : VInv s) (hpc : s.pc t = .enqSeq v p) (hs : step s t = some (s', ev)) : VInv s' ∧ StepEff s t s' := by
  have hp := h.epos t p (by simp [hpc, enqPosOf])
  simp only [step, hpc, idxOf_eq] at hs
  split at hs
  next heq =>
    simp at hs; obtain ⟨rfl, -⟩ := hs
    have hseq : s.seq (cell s.k p) = p := by omega
    pc_only h hpc
    · exact hp
    · intro _; exact hseq
  next hne =>
    split at hs
    next hlt =>
      simp at hs; obtain ⟨rfl, -⟩ := hs
      pc_only h hpc
      exact hp
    next hge =>
      simp at hs; obtain ⟨rfl, -⟩ := hs
      pc_only h hpc

theorem vinv_step_enqCas {s s' : St} {t : Tid} {ev : Ev} {v : Int} {p : Nat}
    (h : VInv s) (hpc : s.pc t = .enqCas v p) (hs : step s t = some (s', ev)) : VInv s' ∧ StepEff s t s' := by
  simp only [step, hpc, idxOf_eq] at hs
  split at hs
  next heq =>
    simp at hs; obtain ⟨rfl, -⟩ := hs
    obtain ⟨hk1, hord, hbnd, heown, hdown, heu, hdu, hfull, hfree, hepos, hdpos, hecas, hdcas⟩ := h
    have hc2 := capOf_ge2 hk1
    have hseq : s.seq (cell s.k p) = p := hecas t v p hpc heq
    have hlt : p < s.posDeq + capOf s.k := by
      apply Classical.byContradiction; intro hn
      have e : p = s.posDeq + capOf s.k := by omega
      have h1 := hfull s.posDeq (Nat.le_refl _) (by omega)
      have h2 := cell_add s.k s.posDeq
      rw [← e, ] at h2
      rw [← h2, hseq] at h1
      omega
    refine ⟨?_, ?_⟩
    · vinv_close
    · have hq : absQueue ⟨s.k, s.seq, upd s.data (cell s.k p) v, p + 1, s.posDeq, upd s.pc t (.enqSt p)⟩
          = absQueue s ++ [v] := by
        simp only [absQueue, ← heq]
        exact absq_enq s.k s.data s.posDeq s.posEnq v hord (by omega)
      have hlen := absQueue_length s
      have hlp := bfifo_enq_ok (capOf s.k) (absQueue s) v (by omega)
      constructor <;> intros <;> (try dsimp only at *) <;> grind [upd, lpRet, opOf]
  next hne =>
    simp at hs; obtain ⟨rfl, -⟩ := hs
    pc_only h hpc

theorem vinv_step_enqFull {s s' : St} {t : Tid} {ev : Ev} {v : Int} {p : Nat}
    (h : VInv s) (hpc : s.pc t = .enqFull v p) (hs : step s t = some (s', ev)) : VInv s' ∧ StepEff s t s' := by
  have hp := h.epos t p (by simp [hpc, enqPosOf])
  simp only [step, hpc] at hs
  split at hs
  next heq =>
    simp at hs; obtain ⟨rfl, -⟩ := hs
    refine ⟨vinv_pc h ?_ ?_ ?_ ?_ ?_ ?_, ?_⟩ <;> (try simp [enqPosOf, deqPosOf])
    have hlen := absQueue_length s
    have hb := h.bnd
    have hlp := bfifo_enq_full (capOf s.k) (absQueue s) v (by omega)
    constructor <;> intros <;> (try dsimp only at *) <;> grind [upd, lpRet, opOf, absQueue_congr]
  next hne =>
    simp at hs; obtain ⟨rfl, -⟩ := hs
    pc_only h hpc

theorem vinv_step_enqSt {s s' : St} {t : Tid} {ev : Ev} {p : Nat}
    (h : VInv s) (hpc : s.pc t = .enqSt p) (hs : step s t = some (s', ev)) : VInv s' ∧ StepEff s t s' := by
  obtain ⟨hk1, hord, hbnd, heown, hdown, heu, hdu, hfull, hfree, hepos, hdpos, hecas, hdcas⟩ := h
  have hc2 := capOf_ge2 hk1
  simp only [step, hpc, idxOf_eq] at hs
  simp at hs; obtain ⟨rfl, -⟩ := hs
  obtain ⟨h1, h2, h3⟩ := heown t p hpc
  refine ⟨?_, ?_⟩
  · vinv_close
  · eff_close

theorem vinv_step_deqPos {s s' : St} {t : Tid} {ev : Ev}
    (h : VInv s) (hpc : s.pc t = .deqPos) (hs : step s t = some (s', ev)) : VInv s' ∧ StepEff s t s' := by
  simp only [step, hpc] at hs
  simp at hs; obtain ⟨rfl, -⟩ := hs
  pc_only h hpc

theorem vinv_step_deqSeq {s s' : St} {t : Tid} {ev : Ev} {p : Nat}
    (h : VInv s) (hpc : s.pc t = .deqSeq p) (hs : step s t = some (s', ev)) : VInv s' ∧ StepEff s t s' := by
  have hp := h.dpos t p (by simp [hpc, deqPosOf])
  simp only [step, hpc, idxOf_eq] at hs
  split at hs
  next heq =>
    simp at hs; obtain ⟨rfl, -⟩ := hs
    have hseq : s.seq (cell s.k p) = p + 1 := by omega
    pc_only h hpc
    · exact hp
    · intro _; exact hseq
  next hne =>
    split at hs
    next hlt =>
      simp at hs; obtain ⟨rfl, -⟩ := hs
      pc_only h hpc
      exact hp
    next hge =>
      simp at hs; obtain ⟨rfl, -⟩ := hs
      pc_only h hpc

theorem vinv_step_deqCas {s s' : St} {t : Tid} {ev : Ev} {p : Nat}
    (h : VInv s) (hpc : s.pc t = .deqCas p) (hs : step s t = some (s', ev)) : VInv s' ∧ StepEff s t s' := by
  simp only [step, hpc, idxOf_eq] at hs
  split at hs
  next heq =>
    simp at hs; obtain ⟨rfl, -⟩ := hs
    obtain ⟨hk1, hord, hbnd, heown, hdown, heu, hdu, hfull, hfree, hepos, hdpos, hecas, hdcas⟩ := h
    have hc2 := capOf_ge2 hk1
    have hseq : s.seq (cell s.k p) = p + 1 := hdcas t p hpc heq
    have hlt : p < s.posEnq := by
      apply Classical.byContradiction; intro hn
      have h1 := hfree p (by omega) (by omega)
      omega
    refine ⟨?_, ?_⟩
    · constructor
      case free =>
        intro q hq1 hq2; dsimp only at *
        by_cases e : q = p + capOf s.k
        · right; rw [e, cell_add, hseq]; omega
        · exact hfree q hq1 (by omega)
      all_goals (intros; (try dsimp only at *); grind [upd, enqPosOf, deqPosOf, cell_inj, cell_add])
    · have hq : absQueue s = s.data (cell s.k p) ::
          absQueue ⟨s.k, s.seq, s.data, s.posEnq, p + 1, upd s.pc t (.deqSt p (s.data (cell s.k p)))⟩ := by
        simp only [absQueue, heq]
        exact absq_deq (fun q => s.data (cell s.k q)) p s.posEnq hlt
      have hlp := bfifo_deq_some (capOf s.k)
        (absQueue ⟨s.k, s.seq, s.data, s.posEnq, p + 1, upd s.pc t (.deqSt p (s.data (cell s.k p)))⟩)
        (s.data (cell s.k p))
      rw [← hq] at hlp
      constructor <;> intros <;> (try dsimp only at *) <;> grind [upd, lpRet, opOf]
  next hne =>
    simp at hs; obtain ⟨rfl, -⟩ := hs
    pc_only h hpc

theorem vinv_step_deqEmpty {s s' : St} {t : Tid} {ev : Ev} {p : Nat}
    (h : VInv s) (hpc : s.pc t = .deqEmpty p) (hs : step s t = some (s', ev)) : VInv s' ∧ StepEff s t s' := by
  have hp := h.dpos t p (by simp [hpc, deqPosOf])
  simp only [step, hpc] at hs
  split at hs
  next heq =>
    simp at hs; obtain ⟨rfl, -⟩ := hs
    refine ⟨vinv_pc h ?_ ?_ ?_ ?_ ?_ ?_, ?_⟩ <;> (try simp [enqPosOf, deqPosOf])
    have hb := h.ord
    have hq : absQueue s = [] := by
      have : s.posEnq - s.posDeq = 0 := by omega
      simp [absQueue, this]
    have hlp := bfifo_deq_none (capOf s.k)
    rw [← hq] at hlp
    constructor <;> intros <;> (try dsimp only at *) <;> grind [upd, lpRet, opOf, absQueue_congr]
  next hne =>
    simp at hs; obtain ⟨rfl, -⟩ := hs
    pc_only h hpc

theorem vinv_step_deqSt {s s' : St} {t : Tid} {ev : Ev} {p : Nat} {v : Int}
    (h : VInv s) (hpc : s.pc t = .deqSt p v) (hs : step s t = some (s', ev)) : VInv s' ∧ StepEff s t s' := by
  obtain ⟨hk1, hord, hbnd, heown, hdown, heu, hdu, hfull, hfree, hepos, hdpos, hecas, hdcas⟩ := h
  have hc2 := capOf_ge2 hk1
  have hm := maskOf_succ s.k
  simp only [step, hpc, idxOf_eq] at hs
  simp at hs; obtain ⟨rfl, -⟩ := hs
  obtain ⟨h1, h2, h3, h4⟩ := hdown t p v hpc
  have e : p + maskOf s.k + 1 = p + capOf s.k := by omega
  rw [e]
  refine ⟨?_, ?_⟩
  · vinv_close
  · eff_close

theorem vinv_step {s s' : St} {t : Tid} {ev : Ev}
    (h : VInv s) (hs : step s t = some (s', ev)) : VInv s' ∧ StepEff s t s' := by
  cases hpc : s.pc t with
  | idle => simp [step, hpc] at hs
  | done r => simp [step, hpc] at hs
  | enqPos v => exact vinv_step_enqPos h hpc hs
  | enqSeq v p => exact vinv_step_enqSeq h hpc hs
  | enqCas v p => exact vinv_step_enqCas h hpc hs
  | enqFull v p => exact vinv_step_enqFull h hpc hs
  | enqSt p => exact vinv_step_enqSt h hpc hs
  | deqPos => exact vinv_step_deqPos h hpc hs
  | deqSeq p => exact vinv_step_deqSeq h hpc hs
  | deqCas p => exact vinv_step_deqCas h hpc hs
  | deqEmpty p => exact vinv_step_deqEmpty h hpc hs
  | deqSt p v => exact vinv_step_deqSt h hpc hs


/-! ### Preservation: invocation and return -/

structure InvokeEff (s : St) (t : Tid) (op : GOp) (s' : St) : Prop where
  frame : ∀ t2, t2 ≠ t → s'.pc t2 = s.pc t2
  kk : s'.k = s.k
  was : s.pc t = .idle
  now : opOf (s'.pc t) = some op ∧ lpRet (s'.pc t) = none
  abs : absQueue s' = absQueue s

theorem vinv_invoke {s s' : St} {t : Tid} {op : GOp}
    (h : VInv s) (hs : invoke s t op = some s') : VInv s' ∧ InvokeEff s t op s' := by
  obtain ⟨name, args⟩ := op
  unfold invoke at hs
  split at hs
  next v hpc hname hargs =>
    simp at hs; subst hs
    dsimp only at hname hargs; subst hname hargs
    refine ⟨vinv_pc h ?_ ?_ ?_ ?_ ?_ ?_, ?_⟩ <;> (try simp [enqPosOf, deqPosOf])
    constructor <;> simp [upd, opOf, lpRet, hpc, absQueue]
    intro t2 ht; simp [ht]
  next hpc hname hargs =>
    simp at hs; subst hs
    dsimp only at hname hargs; subst hname hargs
    refine ⟨vinv_pc h ?_ ?_ ?_ ?_ ?_ ?_, ?_⟩ <;> (try simp [enqPosOf, deqPosOf])
    constructor <;> simp [upd, opOf, lpRet, hpc, absQueue]
    intro t2 ht; simp [ht]
  next => simp at hs

theorem vinv_result {s s' : St} {t : Tid} {r : GRet}
    (h : VInv s) (hs : result s t = some (s', r)) :
    VInv s' ∧ s.pc t = .done r ∧ s'.pc t = .idle ∧ (∀ t2, t2 ≠ t → s'.pc t2 = s.pc t2) ∧ s'.k = s.k ∧
      absQueue s' = absQueue s := by
  unfold result at hs
  split at hs
  next r' hpc =>
    simp at hs; obtain ⟨rfl, rfl⟩ := hs
    refine ⟨vinv_pc h ?_ ?_ ?_ ?_ ?_ ?_, hpc, by simp [upd], fun t2 h2 => by simp [upd, h2], rfl, rfl⟩ <;>
      simp [enqPosOf, deqPosOf]
  next => simp at hs

/-! ### Reachable states -/

theorem vinv_apply {s s' : St} {t : Tid} {a : Act} {o : Obs} (h : VInv s)
    (hap : model.apply s t a = some (s', o)) : VInv s' := by
  cases a with
  | invoke op =>
    simp only [Model.apply, model, Option.map_eq_some_iff] at hap
    obtain ⟨s1, hs1, heq⟩ := hap
    simp only [Prod.mk.injEq] at heq
    obtain ⟨rfl, -⟩ := heq
    exact (vinv_invoke h hs1).1
  | step =>
    simp only [Model.apply, model, Option.map_eq_some_iff] at hap
    obtain ⟨⟨s1, e⟩, hs1, heq⟩ := hap
    simp only [Prod.mk.injEq] at heq
    obtain ⟨rfl, -⟩ := heq
    exact (vinv_step h hs1).1
  | ret =>
    simp only [Model.apply, model, Option.map_eq_some_iff] at hap
    obtain ⟨⟨s1, r⟩, hs1, heq⟩ := hap
    simp only [Prod.mk.injEq] at heq
    obtain ⟨rfl, -⟩ := heq
    exact (vinv_result h hs1).1

theorem vinv_reachable (k : Nat) (hk : 1 ≤ k) (s : St) (h : model.Reachable (init k) s) : VInv s :=
  model.inv_reachable VInv (init k) (vinv_init k hk) (fun _ _ _ _ _ hi hap => vinv_apply hi hap) s h

/-- The capacity parameter never changes. -/
theorem k_apply {s s' : St} {t : Tid} {a : Act} {o : Obs} (hap : model.apply s t a = some (s', o)) : s'.k = s.k := by
  cases a with
  | invoke op =>
    simp only [Model.apply, model, Option.map_eq_some_iff] at hap
    obtain ⟨s1, hs1, heq⟩ := hap
    simp only [Prod.mk.injEq] at heq
    obtain ⟨rfl, -⟩ := heq
    unfold invoke at hs1
    split at hs1 <;> simp at hs1 <;> subst hs1 <;> rfl
  | step =>
    simp only [Model.apply, model, Option.map_eq_some_iff] at hap
    obtain ⟨⟨s1, e⟩, hs1, heq⟩ := hap
    simp only [Prod.mk.injEq] at heq
    obtain ⟨rfl, -⟩ := heq
    unfold step at hs1
    split at hs1 <;> (try split at hs1) <;> (try split at hs1) <;> simp at hs1 <;> obtain ⟨rfl, -⟩ := hs1 <;> rfl
  | ret =>
    simp only [Model.apply, model, Option.map_eq_some_iff] at hap
    obtain ⟨⟨s1, r⟩, hs1, heq⟩ := hap
    simp only [Prod.mk.injEq] at heq
    obtain ⟨rfl, -⟩ := heq
    unfold result at hs1
    split at hs1 <;> simp at hs1 <;> obtain ⟨rfl, -⟩ := hs1 <;> rfl

theorem k_reachable (k : Nat) (s : St) (h : model.Reachable (init k) s) : s.k = k :=
  model.inv_reachable (fun s => s.k = k) (init k) rfl (fun _ _ _ _ _ hi hap => (k_apply hap).trans hi) s h

/-! ### Facts about single steps, for the property theorems -/

/-- Refinement: the step at which thread `t` fixes its result `r` (linearization point) is exactly the `bfifo`
    transition of `t`'s operation with result `r` on the abstract queue; every other step leaves it unchanged. -/
theorem step_refines {s s' : St} {t : Tid} {ev : Ev} (h : VInv s) (hs : step s t = some (s', ev)) :
    (lpRet (s.pc t) = none → ∀ r, lpRet (s'.pc t) = some r →
      ∃ op, opOf (s.pc t) = some op ∧ (bfifo (capOf s.k)).next (absQueue s) op r = some (absQueue s')) ∧
    ((lpRet (s.pc t) ≠ none ∨ lpRet (s'.pc t) = none) → absQueue s' = absQueue s) :=
  ⟨(vinv_step h hs).2.lp, (vinv_step h hs).2.nolp⟩

/-- In state `s1` thread `t` is about to load `m_posDequeue` and to find `pos - posDeq == capacity`: at this very
    instant `m_posEnqueue` is still `pos` and the abstract queue holds exactly `capacity` items. -/
def FullAt (s1 : St) (t : Tid) : Prop :=
  ∃ v p, s1.pc t = .enqFull v p ∧ p = s1.posDeq + capOf s1.k ∧ s1.posEnq = p ∧ (absQueue s1).length = capOf s1.k

/-- In state `s1` thread `t` is about to load `m_posEnqueue` and to find `pos - posEnq == 0`: at this very instant
    `m_posDequeue` is still `pos` and the abstract queue is empty. -/
def EmptyAt (s1 : St) (t : Tid) : Prop :=
  ∃ p, s1.pc t = .deqEmpty p ∧ p = s1.posEnq ∧ s1.posDeq = p ∧ absQueue s1 = []

/-- The only steps that fix the result `[0]`: the `m_posDequeue` load of a producer on a full queue and the
    `m_posEnqueue` load of a consumer on an empty queue — full resp. empty at the instant of that load. -/
theorem fail_step {s s' : St} {t : Tid} {ev : Ev} (h : VInv s) (hs : step s t = some (s', ev))
    (hpre : lpRet (s.pc t) = none) (hpost : lpRet (s'.pc t) = some [0]) :
    (FullAt s t ∧ ev = evLd posDeqLoc s.posDeq) ∨ (EmptyAt s t ∧ ev = evLd posEnqLoc s.posEnq) := by
  cases hpc : s.pc t
  case enqFull v p =>
    left
    have hp := h.epos t p (by simp [hpc, enqPosOf])
    have hb := h.bnd
    simp only [step, hpc] at hs
    split at hs
    next heq =>
      simp at hs; obtain ⟨rfl, rfl⟩ := hs
      exact ⟨⟨v, p, hpc, heq, by omega, by rw [absQueue_length]; omega⟩, rfl⟩
    next hne =>
      simp at hs; obtain ⟨rfl, rfl⟩ := hs
      simp [upd, lpRet] at hpost
  case deqEmpty p =>
    right
    have hp := h.dpos t p (by simp [hpc, deqPosOf])
    have hb := h.ord
    simp only [step, hpc] at hs
    split at hs
    next heq =>
      simp at hs; obtain ⟨rfl, rfl⟩ := hs
      refine ⟨⟨p, hpc, heq, by omega, ?_⟩, rfl⟩
      have : s.posEnq - s.posDeq = 0 := by omega
      simp [absQueue, this]
    next hne =>
      simp at hs; obtain ⟨rfl, rfl⟩ := hs
      simp [upd, lpRet] at hpost
  all_goals
    (simp only [step, hpc] at hs <;> (try split at hs) <;> (try split at hs) <;>
      simp at hs <;> obtain ⟨rfl, rfl⟩ := hs <;> simp_all [upd, lpRet])

/-- No overwrite.  The only step that writes a payload is the successful CAS of a producer on `m_posEnqueue`
    (position `p`, cell `p mod capacity`).  At that instant: the cell's sequence number is `p`; the previous item
    of the cell (position `p - capacity`), if any, has been claimed by a consumer (`p < posDeq + capacity`) AND that
    consumer has finished with the cell (no thread is between its CAS on `m_posDequeue` and its sequence store on
    that cell); no other producer holds the cell; and the cell is not the cell of any item of the abstract
    queue. -/
theorem no_overwrite {s s' : St} {t : Tid} {ev : Ev} {v : Int} {p : Nat} (h : VInv s)
    (hpc : s.pc t = .enqCas v p) (hs : step s t = some (s', ev)) (hwin : s.posEnq = p) :
    s'.data = upd s.data (cell s.k p) v ∧ s.seq (cell s.k p) = p ∧ p < s.posDeq + capOf s.k ∧
    (∀ t2 q w, s.pc t2 = .deqSt q w → cell s.k q ≠ cell s.k p) ∧
    (∀ t2 q, s.pc t2 = .enqSt q → cell s.k q ≠ cell s.k p) ∧
    (∀ q, s.posDeq ≤ q → q < s.posEnq → cell s.k q ≠ cell s.k p) := by
  obtain ⟨hk1, hord, hbnd, heown, hdown, heu, hdu, hfull, hfree, hepos, hdpos, hecas, hdcas⟩ := h
  have hc2 := capOf_ge2 hk1
  have hseq : s.seq (cell s.k p) = p := hecas t v p hpc hwin
  have hlt : p < s.posDeq + capOf s.k := by
    apply Classical.byContradiction; intro hn
    have e : p = s.posDeq + capOf s.k := by omega
    have h1 := hfull s.posDeq (Nat.le_refl _) (by omega)
    have h2 := cell_add s.k s.posDeq
    rw [← e] at h2
    rw [← h2, hseq] at h1
    omega
  simp only [step, hpc, idxOf_eq, hwin, if_true] at hs
  simp at hs; obtain ⟨rfl, -⟩ := hs
  refine ⟨rfl, hseq, hlt, ?_, ?_, ?_⟩
  · intro t2 q w hq hc
    obtain ⟨h1, h2, h3, -⟩ := hdown t2 q w hq
    rw [hc, hseq] at h3
    have := cell_inj hc (by omega) (by omega)
    omega
  · intro t2 q hq hc
    obtain ⟨h1, h2, h3⟩ := heown t2 q hq
    have := cell_inj hc (by omega) (by omega)
    omega
  · intro q h1 h2 hc
    have := cell_inj hc (by omega) (by omega)
    omega

/-- The value a consumer returns.  At the successful CAS of a consumer on `m_posDequeue` (position `p`): the
    producer of position `p` has already executed its sequence store (the cell's sequence number is `p + 1`; no
    thread is between its CAS on `m_posEnqueue` for `p` and that store), so the payload has been written; the payload
    of the cell is the head of the abstract queue; and it is the value the consumer will return. -/
theorem deq_claims_published {s s' : St} {t : Tid} {ev : Ev} {p : Nat} (h : VInv s)
    (hpc : s.pc t = .deqCas p) (hs : step s t = some (s', ev)) (hwin : s.posDeq = p) :
    s.seq (cell s.k p) = p + 1 ∧ p < s.posEnq ∧ (∀ t2 q, s.pc t2 = .enqSt q → cell s.k q ≠ cell s.k p) ∧
    absQueue s = s.data (cell s.k p) :: absQueue s' ∧ s'.pc t = .deqSt p (s.data (cell s.k p)) := by
  obtain ⟨hk1, hord, hbnd, heown, hdown, heu, hdu, hfull, hfree, hepos, hdpos, hecas, hdcas⟩ := h
  have hc2 := capOf_ge2 hk1
  have hseq : s.seq (cell s.k p) = p + 1 := hdcas t p hpc hwin
  have hlt : p < s.posEnq := by
    apply Classical.byContradiction; intro hn
    have h1 := hfree p (by omega) (by omega)
    omega
  simp only [step, hpc, idxOf_eq, hwin, if_true] at hs
  simp at hs; obtain ⟨rfl, -⟩ := hs
  refine ⟨hseq, hlt, ?_, ?_, by simp [upd]⟩
  · intro t2 q hq hc
    obtain ⟨h1, h2, h3⟩ := heown t2 q hq
    rw [hc, hseq] at h3
    have := cell_inj hc (by omega) (by omega)
    omega
  · simp only [absQueue, hwin]
    exact absq_deq (fun q => s.data (cell s.k q)) p s.posEnq hlt

/-- Payloads are written only by the successful CAS of a producer on `m_posEnqueue`. -/
theorem data_step {s s' : St} {t : Tid} {ev : Ev} (hs : step s t = some (s', ev)) :
    s'.data = s.data ∨ ∃ v p, s.pc t = .enqCas v p ∧ s.posEnq = p ∧ s'.data = upd s.data (cell s.k p) v := by
  cases hpc : s.pc t
  case enqCas v p =>
    simp only [step, hpc, idxOf_eq] at hs
    split at hs
    next heq => simp at hs; obtain ⟨rfl, -⟩ := hs; exact Or.inr ⟨v, p, rfl, heq, rfl⟩
    next hne => simp at hs; obtain ⟨rfl, -⟩ := hs; exact Or.inl rfl
  all_goals
    (simp only [step, hpc] at hs <;> (try split at hs) <;> (try split at hs) <;>
      simp at hs <;> obtain ⟨rfl, -⟩ := hs <;> exact Or.inl rfl)

/-! ### The in-flight claimers behind the pending sequence values -/

/-- The converse of `VInv.eown` / `VInv.down`: a cell that shows the "store pending" value has its in-flight
    claimer.  With `VInv.full` / `VInv.free` this determines every sequence number exactly from `posEnq`, `posDeq`
    and the set of in-flight claimers: for `posDeq ≤ p < posEnq` the cell shows `p` if a producer is between its CAS at
    `p` and its sequence store, and `p + 1` otherwise; for `posEnq ≤ p < posDeq + cap` it shows `p - cap + 1` if a
    consumer is between its CAS at `p - cap` and its sequence store, and `p` otherwise. -/
structure VOwn (s : St) : Prop where
  eex : ∀ p, s.posDeq ≤ p → p < s.posEnq → s.seq (cell s.k p) = p → ∃ t, s.pc t = .enqSt p
  dex : ∀ p, s.posEnq ≤ p → p < s.posDeq + capOf s.k → s.seq (cell s.k p) + capOf s.k = p + 1 →
    ∃ t q v, s.pc t = .deqSt q v ∧ q + capOf s.k = p

theorem vown_init (k : Nat) (hk : 1 ≤ k) : VOwn (init k) := by
  have hc2 := capOf_ge2 hk
  constructor
  · intro p h1 h2; simp [init] at h2
  · intro p h1 h2 h3
    simp only [init, Nat.zero_add] at h2 h3
    have : cell k p = p := by unfold cell; exact Nat.mod_eq_of_lt h2
    rw [this] at h3; omega

/-- A thread that owns no cell moves; positions and sequence numbers stay. -/
theorem vown_frame {s s' : St} {t : Tid} (ho : VOwn s) (hk : s'.k = s.k) (hseq : s'.seq = s.seq)
    (hE : s'.posEnq = s.posEnq) (hD : s'.posDeq = s.posDeq) (hfr : ∀ t2, t2 ≠ t → s'.pc t2 = s.pc t2)
    (hX1 : ∀ p, s.pc t ≠ .enqSt p) (hX2 : ∀ p v, s.pc t ≠ .deqSt p v) : VOwn s' := by
  constructor
  · intro p h1 h2 h3
    rw [hk, hseq] at h3; rw [hD] at h1; rw [hE] at h2
    obtain ⟨t0, ht0⟩ := ho.eex p h1 h2 h3
    have hne : t0 ≠ t := fun e => hX1 p (e ▸ ht0)
    exact ⟨t0, by rw [hfr t0 hne]; exact ht0⟩
  · intro p h1 h2 h3
    rw [hk, hseq] at h3; rw [hE] at h1; rw [hD, hk] at h2
    obtain ⟨t0, q, v, ht0, hq⟩ := ho.dex p h1 h2 h3
    have hne : t0 ≠ t := fun e => hX2 q v (e ▸ ht0)
    exact ⟨t0, q, v, by rw [hfr t0 hne]; exact ht0, by rw [hk]; exact hq⟩

theorem vown_step {s s' : St} {t : Tid} {ev : Ev} (h : VInv s) (ho : VOwn s) (hs : step s t = some (s', ev)) :
    VOwn s' := by
  have hc2 := capOf_ge2 h.k1
  cases hpc : s.pc t
  case enqCas v p =>
    simp only [step, hpc, idxOf_eq] at hs
    split at hs
    next hwin =>
      simp at hs; obtain ⟨rfl, -⟩ := hs
      constructor
      · intro q h1 h2 h3
        dsimp only at h1 h2 h3 ⊢
        by_cases e : q = p
        · exact ⟨t, by simp [upd, e]⟩
        · obtain ⟨t0, ht0⟩ := ho.eex q h1 (by omega) h3
          have hne : t0 ≠ t := fun e' => by rw [e', hpc] at ht0; simp at ht0
          exact ⟨t0, by simp [upd, hne, ht0]⟩
      · intro q h1 h2 h3
        dsimp only at h1 h2 h3 ⊢
        obtain ⟨t0, q0, v0, ht0, hq0⟩ := ho.dex q (by omega) h2 h3
        have hne : t0 ≠ t := fun e' => by rw [e', hpc] at ht0; simp at ht0
        exact ⟨t0, q0, v0, by simp [upd, hne, ht0], hq0⟩
    next hne =>
      simp at hs; obtain ⟨rfl, -⟩ := hs
      exact vown_frame (t := t) ho rfl rfl rfl rfl (fun t2 h2 => by simp [upd, h2]) (by simp [hpc]) (by simp [hpc])
  case enqSt p =>
    obtain ⟨hp1, hp2, hp3⟩ := h.eown t p hpc
    have hb := h.bnd
    simp only [step, hpc, idxOf_eq] at hs
    simp at hs; obtain ⟨rfl, -⟩ := hs
    constructor
    · intro q h1 h2 h3
      dsimp only at h1 h2 h3 ⊢
      by_cases hc : cell s.k q = cell s.k p
      · have e : q = p := cell_inj hc (by omega) (by omega)
        subst e; simp [upd] at h3
      · simp only [upd, hc, if_false] at h3
        obtain ⟨t0, ht0⟩ := ho.eex q h1 h2 h3
        have hne : t0 ≠ t := fun e' => by
          rw [e', hpc] at ht0; simp at ht0; exact hc (by rw [ht0])
        exact ⟨t0, by simp [upd, hne, ht0]⟩
    · intro q h1 h2 h3
      dsimp only at h1 h2 h3 ⊢
      by_cases hc : cell s.k q = cell s.k p
      · have e : q = p := cell_inj hc (by omega) (by omega)
        omega
      · simp only [upd, hc, if_false] at h3
        obtain ⟨t0, q0, v0, ht0, hq0⟩ := ho.dex q h1 h2 h3
        have hne : t0 ≠ t := fun e' => by rw [e', hpc] at ht0; simp at ht0
        exact ⟨t0, q0, v0, by simp [upd, hne, ht0], hq0⟩
  case deqCas p =>
    simp only [step, hpc, idxOf_eq] at hs
    split at hs
    next hwin =>
      simp at hs; obtain ⟨rfl, -⟩ := hs
      constructor
      · intro q h1 h2 h3
        dsimp only at h1 h2 h3 ⊢
        obtain ⟨t0, ht0⟩ := ho.eex q (by omega) h2 h3
        have hne : t0 ≠ t := fun e' => by rw [e', hpc] at ht0; simp at ht0
        exact ⟨t0, by simp [upd, hne, ht0]⟩
      · intro q h1 h2 h3
        dsimp only at h1 h2 h3 ⊢
        by_cases e : q = p + capOf s.k
        · exact ⟨t, p, s.data (cell s.k p), by simp [upd], e.symm⟩
        · obtain ⟨t0, q0, v0, ht0, hq0⟩ := ho.dex q h1 (by omega) h3
          have hne : t0 ≠ t := fun e' => by rw [e', hpc] at ht0; simp at ht0
          exact ⟨t0, q0, v0, by simp [upd, hne, ht0], hq0⟩
    next hne =>
      simp at hs; obtain ⟨rfl, -⟩ := hs
      exact vown_frame (t := t) ho rfl rfl rfl rfl (fun t2 h2 => by simp [upd, h2]) (by simp [hpc]) (by simp [hpc])
  case deqSt p v =>
    obtain ⟨hp1, hp2, hp3, -⟩ := h.down t p v hpc
    have hb := h.bnd
    have ho' := h.ord
    have hm := maskOf_succ s.k
    simp only [step, hpc, idxOf_eq] at hs
    simp at hs; obtain ⟨rfl, -⟩ := hs
    have e : p + maskOf s.k + 1 = p + capOf s.k := by omega
    rw [e]
    constructor
    · intro q h1 h2 h3
      dsimp only at h1 h2 h3 ⊢
      have hc : cell s.k q ≠ cell s.k p := fun hc => by
        have := cell_inj hc (by omega) (by omega); omega
      simp only [upd, hc, if_false] at h3
      obtain ⟨t0, ht0⟩ := ho.eex q h1 h2 h3
      have hne : t0 ≠ t := fun e' => by rw [e', hpc] at ht0; simp at ht0
      exact ⟨t0, by simp [upd, hne, ht0]⟩
    · intro q h1 h2 h3
      dsimp only at h1 h2 h3 ⊢
      by_cases hc : cell s.k q = cell s.k p
      · have hc' : cell s.k q = cell s.k (p + capOf s.k) := by rw [cell_add]; exact hc
        have e2 : q = p + capOf s.k := cell_inj hc' (by omega) (by omega)
        simp only [upd, hc, if_true] at h3
        omega
      · simp only [upd, hc, if_false] at h3
        obtain ⟨t0, q0, v0, ht0, hq0⟩ := ho.dex q h1 h2 h3
        have hne : t0 ≠ t := fun e' => by
          rw [e', hpc] at ht0; simp at ht0
          apply hc; rw [← hq0, ← ht0.1, cell_add]
        exact ⟨t0, q0, v0, by simp [upd, hne, ht0], hq0⟩
  all_goals
    (simp only [step, hpc] at hs <;> (try split at hs) <;> (try split at hs) <;>
      simp at hs <;> obtain ⟨rfl, -⟩ := hs <;>
      exact vown_frame (t := t) ho rfl rfl rfl rfl (fun t2 h2 => by simp [upd, h2]) (by simp [hpc]) (by simp [hpc]))

theorem vown_apply {s s' : St} {t : Tid} {a : Act} {o : Obs} (h : VInv s) (ho : VOwn s)
    (hap : model.apply s t a = some (s', o)) : VOwn s' := by
  cases a with
  | invoke op =>
    simp only [Model.apply, model, Option.map_eq_some_iff] at hap
    obtain ⟨s1, hs1, heq⟩ := hap
    simp only [Prod.mk.injEq] at heq
    obtain ⟨rfl, -⟩ := heq
    obtain ⟨-, he⟩ := vinv_invoke h hs1
    have hseq : s1.seq = s.seq ∧ s1.posEnq = s.posEnq ∧ s1.posDeq = s.posDeq := by
      unfold invoke at hs1
      split at hs1 <;> simp at hs1 <;> subst hs1 <;> exact ⟨rfl, rfl, rfl⟩
    exact vown_frame (t := t) ho he.kk hseq.1 hseq.2.1 hseq.2.2 he.frame (by simp [he.was]) (by simp [he.was])
  | step =>
    simp only [Model.apply, model, Option.map_eq_some_iff] at hap
    obtain ⟨⟨s1, e⟩, hs1, heq⟩ := hap
    simp only [Prod.mk.injEq] at heq
    obtain ⟨rfl, -⟩ := heq
    exact vown_step h ho hs1
  | ret =>
    simp only [Model.apply, model, Option.map_eq_some_iff] at hap
    obtain ⟨⟨s1, r⟩, hs1, heq⟩ := hap
    simp only [Prod.mk.injEq] at heq
    obtain ⟨rfl, -⟩ := heq
    obtain ⟨-, hdone, -, hframe, hkk, -⟩ := vinv_result h hs1
    have hseq : s1.seq = s.seq ∧ s1.posEnq = s.posEnq ∧ s1.posDeq = s.posDeq := by
      unfold result at hs1
      split at hs1 <;> simp at hs1 <;> obtain ⟨rfl, -⟩ := hs1 <;> exact ⟨rfl, rfl, rfl⟩
    exact vown_frame (t := t) ho hkk hseq.1 hseq.2.1 hseq.2.2 hframe (by simp [hdone]) (by simp [hdone])

theorem vown_reachable (k : Nat) (hk : 1 ≤ k) (s : St) (h : model.Reachable (init k) s) : VInv s ∧ VOwn s :=
  model.inv_reachable (fun s => VInv s ∧ VOwn s) (init k) ⟨vinv_init k hk, vown_init k hk⟩
    (fun _ _ _ _ _ hi hap => ⟨vinv_apply hi.1 hap, vown_apply hi.1 hi.2 hap⟩) s h

end CdsVerif.Algo.Vyukov

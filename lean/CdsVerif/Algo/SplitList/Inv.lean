/-
  Structural invariant of the split-list model and the refinement of the abstract map: definitions and the lemmas shared
  by the step proofs (`Step*.lean`); reachability and its consequences are in `Reach.lean`.

  * `Chain s.next (some 0) L` : following the pointers from node 0 (the dummy of bucket 0, where `m_pHead` points for
    ever) visits exactly `L` and then null.  ALL linked nodes are on `L`: dummies, items, marked or not.
  * `SInvL c s L` : `L` is strictly sorted by ( split-order hash, user key ) (`KLt`), hence duplicate-free; dummy nodes
    (even ids) are never marked (`dmark`), carry an even split-order key (`dumso`), items (odd ids) the key
    `regular_hash( hash( user key ))` (`regso`); every published bucket pointer points to a linked dummy node carrying
    the dummy key of that bucket (`tab`); the dummy a MichaelList operation starts from is linked and sorts before the
    key searched for (`start`); the buckets `init_bucket` works on are buckets of the operation's hash for smaller
    tables, each the parent of the one below it on the recursion stack (`stkPre`, `stkPar`); plus the MichaelList
    clauses of `Algo/Michael/Inv.lean`.
  * The abstract map: `Has mark uk val L k v` — some unmarked ITEM on `L` carries `(k, v)`.
  * Linearization points: as for the MichaelList (`lpRet`, `postRet`, `tent`); linking a dummy node, publishing a
    bucket pointer and growing the table are not linearization points of anything: they leave the abstract map alone.
-/
import CdsVerif.Algo.SplitList.Lemmas
namespace CdsVerif.Algo.SplitList
open CdsVerif.Machine CdsVerif.Spec CdsVerif.Lin
open CdsVerif.Algo.Michael (LPok isRO)

/-! ### Projections of program counters -/

def wtop : OpK → Top
  | .top o => o
  | .dum _ o _ => o

def wstk : OpK → List Nat
  | .top _ => []
  | .dum _ _ stk => stk

def wdum : OpK → Option Nat
  | .top _ => none
  | .dum m _ _ => some m

def gop (uk val : Nat → Int) : Top → GOp
  | .ins n => ⟨"insert", [uk n, val n]⟩
  | .era k => ⟨"erase", [k]⟩
  | .fnd k => ⟨"find", [k]⟩
  | .con k => ⟨"contains", [k]⟩

def foundRet (val : Nat → Int) (o : Top) (cur : Nat) : Option GRet :=
  match o with
  | .ins _ => some [0]
  | .era _ => none
  | .fnd _ => some [1, val cur]
  | .con _ => some [1]

def absentRet (o : Top) : Option GRet :=
  match o with
  | .ins _ => none
  | .era _ => some [0]
  | .fnd _ => some [0]
  | .con _ => some [0]

/-- The TENTATIVE result of a client's traversal that has just validated `pNext = pCur->m_pNext` (unmarked); see
    `Algo/Michael/Inv.lean`.  The traversal that links a dummy node has no result. -/
def tent (c : Cfg) (so : Nat → Nat) (uk val : Nat → Int) (w : OpK) (cur : Nat) (nx : Option Nat) (mk : Bool) :
    Option GRet :=
  match w with
  | .dum _ _ _ => none
  | .top o =>
    if mk = true then none
    else if so cur = okeyS c so (.top o) ∧ uk cur = okeyU uk (.top o) then foundRet val o cur
    else if klt (so cur) (uk cur) (okeyS c so (.top o)) (okeyU uk (.top o)) ∧ nx = none then absentRet o
    else none

/-- The client operation, while its result is not definitive. -/
def pcTop : PC → Option Top
  | .idle => none
  | .gCnt o => some o
  | .gTab o _ => some o
  | .iPar o _ => some o
  | .iBkt o _ _ => some o
  | .iAl1 o _ _ => some o
  | .iAl2 o _ _ => some o
  | .iPub o _ _ => some o
  | .iWait o _ => some o
  | .sHd1 w _ => some (wtop w)
  | .sHd2 w _ _ _ => some (wtop w)
  | .sNx1 w _ _ _ => some (wtop w)
  | .sNx2 w _ _ _ _ _ => some (wtop w)
  | .sChk w _ _ _ _ _ => some (wtop w)
  | .sHelp w _ _ _ _ => some (wtop w)
  | .iSt w _ _ _ => some (wtop w)
  | .iCas w _ _ _ => some (wtop w)
  | .iClr w _ => some (wtop w)
  | .eMark k _ _ _ _ => some (.era k)
  | .eUnl _ _ _ _ => none
  | .cLd1 => none
  | .cAdd _ => none
  | .cCnt _ => none
  | .cMax _ _ => none
  | .cGrow _ => none
  | .cSat => none
  | .cSub _ => none
  | .done _ => none

/-- The stack of `init_bucket` calls in progress (innermost first). -/
def pcStk : PC → List Nat
  | .idle => []
  | .gCnt _ => []
  | .gTab _ _ => []
  | .iPar _ stk => stk
  | .iBkt _ stk _ => stk
  | .iAl1 _ stk _ => stk
  | .iAl2 _ stk _ => stk
  | .iPub _ stk _ => stk
  | .iWait _ stk => stk
  | .sHd1 w _ => wstk w
  | .sHd2 w _ _ _ => wstk w
  | .sNx1 w _ _ _ => wstk w
  | .sNx2 w _ _ _ _ _ => wstk w
  | .sChk w _ _ _ _ _ => wstk w
  | .sHelp w _ _ _ _ => wstk w
  | .iSt w _ _ _ => wstk w
  | .iCas w _ _ _ => wstk w
  | .iClr w _ => wstk w
  | .eMark _ _ _ _ _ => []
  | .eUnl _ _ _ _ => []
  | .cLd1 => []
  | .cAdd _ => []
  | .cCnt _ => []
  | .cMax _ _ => []
  | .cGrow _ => []
  | .cSat => []
  | .cSub _ => []
  | .done _ => []

/-- The dummy node `init_bucket` is linking (still private). -/
def pcDum : PC → Option Nat
  | .idle => none
  | .gCnt _ => none
  | .gTab _ _ => none
  | .iPar _ _ => none
  | .iBkt _ _ _ => none
  | .iAl1 _ _ _ => none
  | .iAl2 _ _ _ => none
  | .iPub _ _ _ => none
  | .iWait _ _ => none
  | .sHd1 w _ => wdum w
  | .sHd2 w _ _ _ => wdum w
  | .sNx1 w _ _ _ => wdum w
  | .sNx2 w _ _ _ _ _ => wdum w
  | .sChk w _ _ _ _ _ => wdum w
  | .sHelp w _ _ _ _ => wdum w
  | .iSt w _ _ _ => wdum w
  | .iCas w _ _ _ => wdum w
  | .iClr w _ => wdum w
  | .eMark _ _ _ _ _ => none
  | .eUnl _ _ _ _ => none
  | .cLd1 => none
  | .cAdd _ => none
  | .cCnt _ => none
  | .cMax _ _ => none
  | .cGrow _ => none
  | .cSat => none
  | .cSub _ => none
  | .done _ => none

/-- The dummy node the MichaelList operation starts from (`refHead`). -/
def pcStart : PC → Option Nat
  | .idle => none
  | .gCnt _ => none
  | .gTab _ _ => none
  | .iPar _ _ => none
  | .iBkt _ _ _ => none
  | .iAl1 _ _ _ => none
  | .iAl2 _ _ _ => none
  | .iPub _ _ _ => none
  | .iWait _ _ => none
  | .sHd1 _ d => some d
  | .sHd2 _ d _ _ => some d
  | .sNx1 _ d _ _ => some d
  | .sNx2 _ d _ _ _ _ => some d
  | .sChk _ d _ _ _ _ => some d
  | .sHelp _ d _ _ _ => some d
  | .iSt _ d _ _ => some d
  | .iCas _ d _ _ => some d
  | .iClr _ d => some d
  | .eMark _ d _ _ _ => some d
  | .eUnl _ _ _ _ => none
  | .cLd1 => none
  | .cAdd _ => none
  | .cCnt _ => none
  | .cMax _ _ => none
  | .cGrow _ => none
  | .cSat => none
  | .cSub _ => none
  | .done _ => none

/-- The node `pPrev` points into. -/
def pcPrev : PC → Option Nat
  | .idle => none
  | .gCnt _ => none
  | .gTab _ _ => none
  | .iPar _ _ => none
  | .iBkt _ _ _ => none
  | .iAl1 _ _ _ => none
  | .iAl2 _ _ _ => none
  | .iPub _ _ _ => none
  | .iWait _ _ => none
  | .sHd1 _ _ => none
  | .sHd2 _ _ _ _ => none
  | .sNx1 _ _ prev _ => some prev
  | .sNx2 _ _ prev _ _ _ => some prev
  | .sChk _ _ prev _ _ _ => some prev
  | .sHelp _ _ prev _ _ => some prev
  | .iSt _ _ prev _ => some prev
  | .iCas _ _ prev _ => some prev
  | .iClr _ _ => none
  | .eMark _ _ prev _ _ => some prev
  | .eUnl _ prev _ _ => some prev
  | .cLd1 => none
  | .cAdd _ => none
  | .cCnt _ => none
  | .cMax _ _ => none
  | .cGrow _ => none
  | .cSat => none
  | .cSub _ => none
  | .done _ => none

/-- The node `pCur`. -/
def pcCur : PC → Option Nat
  | .idle => none
  | .gCnt _ => none
  | .gTab _ _ => none
  | .iPar _ _ => none
  | .iBkt _ _ _ => none
  | .iAl1 _ _ _ => none
  | .iAl2 _ _ _ => none
  | .iPub _ _ _ => none
  | .iWait _ _ => none
  | .sHd1 _ _ => none
  | .sHd2 _ _ _ _ => none
  | .sNx1 _ _ _ cur => some cur
  | .sNx2 _ _ _ cur _ _ => some cur
  | .sChk _ _ _ cur _ _ => some cur
  | .sHelp _ _ _ cur _ => some cur
  | .iSt _ _ _ cur => cur
  | .iCas _ _ _ cur => cur
  | .iClr _ _ => none
  | .eMark _ _ _ cur _ => some cur
  | .eUnl _ _ cur _ => some cur
  | .cLd1 => none
  | .cAdd _ => none
  | .cCnt _ => none
  | .cMax _ _ => none
  | .cGrow _ => none
  | .cSat => none
  | .cSub _ => none
  | .done _ => none

/-- The node `pNext`. -/
def pcNx : PC → Option Nat
  | .idle => none
  | .gCnt _ => none
  | .gTab _ _ => none
  | .iPar _ _ => none
  | .iBkt _ _ _ => none
  | .iAl1 _ _ _ => none
  | .iAl2 _ _ _ => none
  | .iPub _ _ _ => none
  | .iWait _ _ => none
  | .sHd1 _ _ => none
  | .sHd2 _ _ nx _ => nx
  | .sNx1 _ _ _ _ => none
  | .sNx2 _ _ _ _ nx _ => nx
  | .sChk _ _ _ _ nx _ => nx
  | .sHelp _ _ _ _ nx => nx
  | .iSt _ _ _ _ => none
  | .iCas _ _ _ _ => none
  | .iClr _ _ => none
  | .eMark _ _ _ _ nx => nx
  | .eUnl _ _ _ nx => nx
  | .cLd1 => none
  | .cAdd _ => none
  | .cCnt _ => none
  | .cMax _ _ => none
  | .cGrow _ => none
  | .cSat => none
  | .cSub _ => none
  | .done _ => none

/-- The node an eraser is about to mark, and the key it erases. -/
def pcEq : PC → Option (Nat × Int)
  | .idle => none
  | .gCnt _ => none
  | .gTab _ _ => none
  | .iPar _ _ => none
  | .iBkt _ _ _ => none
  | .iAl1 _ _ _ => none
  | .iAl2 _ _ _ => none
  | .iPub _ _ _ => none
  | .iWait _ _ => none
  | .sHd1 _ _ => none
  | .sHd2 _ _ _ _ => none
  | .sNx1 _ _ _ _ => none
  | .sNx2 _ _ _ _ _ _ => none
  | .sChk _ _ _ _ _ _ => none
  | .sHelp _ _ _ _ _ => none
  | .iSt _ _ _ _ => none
  | .iCas _ _ _ _ => none
  | .iClr _ _ => none
  | .eMark k _ _ cur _ => some (cur, k)
  | .eUnl _ _ _ _ => none
  | .cLd1 => none
  | .cAdd _ => none
  | .cCnt _ => none
  | .cMax _ _ => none
  | .cGrow _ => none
  | .cSat => none
  | .cSub _ => none
  | .done _ => none

/-- A link `a.next = ( x, m )` the thread has read (or written); relied upon when `m = 1`. -/
def pcFrozen : PC → Option (Nat × Option Nat × Bool)
  | .idle => none
  | .gCnt _ => none
  | .gTab _ _ => none
  | .iPar _ _ => none
  | .iBkt _ _ _ => none
  | .iAl1 _ _ _ => none
  | .iAl2 _ _ _ => none
  | .iPub _ _ _ => none
  | .iWait _ _ => none
  | .sHd1 _ _ => none
  | .sHd2 _ _ _ _ => none
  | .sNx1 _ _ _ _ => none
  | .sNx2 _ _ _ cur nx mk => some (cur, nx, mk)
  | .sChk _ _ _ cur nx mk => some (cur, nx, mk)
  | .sHelp _ _ _ cur nx => some (cur, nx, true)
  | .iSt _ _ _ _ => none
  | .iCas _ _ _ _ => none
  | .iClr _ _ => none
  | .eMark _ _ _ _ _ => none
  | .eUnl _ _ cur nx => some (cur, nx, true)
  | .cLd1 => none
  | .cAdd _ => none
  | .cCnt _ => none
  | .cMax _ _ => none
  | .cGrow _ => none
  | .cSat => none
  | .cSub _ => none
  | .done _ => none

/-- The parent bucket's dummy held by `init_bucket`. -/
def pcPP : PC → Option Nat
  | .idle => none
  | .gCnt _ => none
  | .gTab _ _ => none
  | .iPar _ _ => none
  | .iBkt _ _ pp => some pp
  | .iAl1 _ _ pp => some pp
  | .iAl2 _ _ pp => some pp
  | .iPub _ _ _ => none
  | .iWait _ _ => none
  | .sHd1 _ _ => none
  | .sHd2 _ _ _ _ => none
  | .sNx1 _ _ _ _ => none
  | .sNx2 _ _ _ _ _ _ => none
  | .sChk _ _ _ _ _ _ => none
  | .sHelp _ _ _ _ _ => none
  | .iSt _ _ _ _ => none
  | .iCas _ _ _ _ => none
  | .iClr _ _ => none
  | .eMark _ _ _ _ _ => none
  | .eUnl _ _ _ _ => none
  | .cLd1 => none
  | .cAdd _ => none
  | .cCnt _ => none
  | .cMax _ _ => none
  | .cGrow _ => none
  | .cSat => none
  | .cSub _ => none
  | .done _ => none

/-- The linked dummy `init_bucket` is about to publish. -/
def pcPub : PC → Option Nat
  | .idle => none
  | .gCnt _ => none
  | .gTab _ _ => none
  | .iPar _ _ => none
  | .iBkt _ _ _ => none
  | .iAl1 _ _ _ => none
  | .iAl2 _ _ _ => none
  | .iPub _ _ m => some m
  | .iWait _ _ => none
  | .sHd1 _ _ => none
  | .sHd2 _ _ _ _ => none
  | .sNx1 _ _ _ _ => none
  | .sNx2 _ _ _ _ _ _ => none
  | .sChk _ _ _ _ _ _ => none
  | .sHelp _ _ _ _ _ => none
  | .iSt _ _ _ _ => none
  | .iCas _ _ _ _ => none
  | .iClr _ _ => none
  | .eMark _ _ _ _ _ => none
  | .eUnl _ _ _ _ => none
  | .cLd1 => none
  | .cAdd _ => none
  | .cCnt _ => none
  | .cMax _ _ => none
  | .cGrow _ => none
  | .cSat => none
  | .cSub _ => none
  | .done _ => none

/-- The bucket number computed by `get_bucket`. -/
def pcBkt : PC → Option Nat
  | .idle => none
  | .gCnt _ => none
  | .gTab _ b => some b
  | .iPar _ _ => none
  | .iBkt _ _ _ => none
  | .iAl1 _ _ _ => none
  | .iAl2 _ _ _ => none
  | .iPub _ _ _ => none
  | .iWait _ _ => none
  | .sHd1 _ _ => none
  | .sHd2 _ _ _ _ => none
  | .sNx1 _ _ _ _ => none
  | .sNx2 _ _ _ _ _ _ => none
  | .sChk _ _ _ _ _ _ => none
  | .sHelp _ _ _ _ _ => none
  | .iSt _ _ _ _ => none
  | .iCas _ _ _ _ => none
  | .iClr _ _ => none
  | .eMark _ _ _ _ _ => none
  | .eUnl _ _ _ _ => none
  | .cLd1 => none
  | .cAdd _ => none
  | .cCnt _ => none
  | .cMax _ _ => none
  | .cGrow _ => none
  | .cSat => none
  | .cSub _ => none
  | .done _ => none

/-- The table size (log2) `inc_item_count` is about to increase. -/
def pcSz : PC → Option Nat
  | .idle => none
  | .gCnt _ => none
  | .gTab _ _ => none
  | .iPar _ _ => none
  | .iBkt _ _ _ => none
  | .iAl1 _ _ _ => none
  | .iAl2 _ _ _ => none
  | .iPub _ _ _ => none
  | .iWait _ _ => none
  | .sHd1 _ _ => none
  | .sHd2 _ _ _ _ => none
  | .sNx1 _ _ _ _ => none
  | .sNx2 _ _ _ _ _ _ => none
  | .sChk _ _ _ _ _ _ => none
  | .sHelp _ _ _ _ _ => none
  | .iSt _ _ _ _ => none
  | .iCas _ _ _ _ => none
  | .iClr _ _ => none
  | .eMark _ _ _ _ _ => none
  | .eUnl _ _ _ _ => none
  | .cLd1 => none
  | .cAdd _ => none
  | .cCnt _ => none
  | .cMax _ sz => some sz
  | .cGrow sz => some sz
  | .cSat => none
  | .cSub _ => none
  | .done _ => none

/-- The key the thread's traversal is looking for: split-order part … -/
def skeyS (c : Cfg) (so : Nat → Nat) : PC → Nat
  | .idle => 0
  | .gCnt _ => 0
  | .gTab _ _ => 0
  | .iPar _ _ => 0
  | .iBkt _ _ _ => 0
  | .iAl1 _ _ _ => 0
  | .iAl2 _ _ _ => 0
  | .iPub _ _ _ => 0
  | .iWait _ _ => 0
  | .sHd1 w _ => okeyS c so w
  | .sHd2 w _ _ _ => okeyS c so w
  | .sNx1 w _ _ _ => okeyS c so w
  | .sNx2 w _ _ _ _ _ => okeyS c so w
  | .sChk w _ _ _ _ _ => okeyS c so w
  | .sHelp w _ _ _ _ => okeyS c so w
  | .iSt w _ _ _ => okeyS c so w
  | .iCas w _ _ _ => okeyS c so w
  | .iClr w _ => okeyS c so w
  | .eMark k _ _ _ _ => c.reg (c.hash k)
  | .eUnl k _ _ _ => c.reg (c.hash k)
  | .cLd1 => 0
  | .cAdd _ => 0
  | .cCnt _ => 0
  | .cMax _ _ => 0
  | .cGrow _ => 0
  | .cSat => 0
  | .cSub _ => 0
  | .done _ => 0

/-- … and user-key part. -/
def skeyU (uk : Nat → Int) : PC → Int
  | .idle => 0
  | .gCnt _ => 0
  | .gTab _ _ => 0
  | .iPar _ _ => 0
  | .iBkt _ _ _ => 0
  | .iAl1 _ _ _ => 0
  | .iAl2 _ _ _ => 0
  | .iPub _ _ _ => 0
  | .iWait _ _ => 0
  | .sHd1 w _ => okeyU uk w
  | .sHd2 w _ _ _ => okeyU uk w
  | .sNx1 w _ _ _ => okeyU uk w
  | .sNx2 w _ _ _ _ _ => okeyU uk w
  | .sChk w _ _ _ _ _ => okeyU uk w
  | .sHelp w _ _ _ _ => okeyU uk w
  | .iSt w _ _ _ => okeyU uk w
  | .iCas w _ _ _ => okeyU uk w
  | .iClr w _ => okeyU uk w
  | .eMark k _ _ _ _ => k
  | .eUnl k _ _ _ => k
  | .cLd1 => 0
  | .cAdd _ => 0
  | .cCnt _ => 0
  | .cMax _ _ => 0
  | .cGrow _ => 0
  | .cSat => 0
  | .cSub _ => 0
  | .done _ => 0

/-- The result fixed definitively, for a thread that has passed its linearization point for good. -/
def postRet (val : Nat → Int) : PC → Option GRet
  | .idle => none
  | .gCnt _ => none
  | .gTab _ _ => none
  | .iPar _ _ => none
  | .iBkt _ _ _ => none
  | .iAl1 _ _ _ => none
  | .iAl2 _ _ _ => none
  | .iPub _ _ _ => none
  | .iWait _ _ => none
  | .sHd1 _ _ => none
  | .sHd2 _ _ _ _ => none
  | .sNx1 _ _ _ _ => none
  | .sNx2 _ _ _ _ _ _ => none
  | .sChk _ _ _ _ _ _ => none
  | .sHelp _ _ _ _ _ => none
  | .iSt _ _ _ _ => none
  | .iCas _ _ _ _ => none
  | .iClr _ _ => none
  | .eMark _ _ _ _ _ => none
  | .eUnl _ _ cur _ => some [1, val cur]
  | .cLd1 => some [1]
  | .cAdd _ => some [1]
  | .cCnt _ => some [1]
  | .cMax _ _ => some [1]
  | .cGrow _ => some [1]
  | .cSat => some [1]
  | .cSub v => some [1, v]
  | .done r => some r

/-- The result of the thread's current (definitive or tentative) linearization. -/
def lpRet (c : Cfg) (so : Nat → Nat) (uk val : Nat → Int) : PC → Option GRet
  | .idle => none
  | .gCnt _ => none
  | .gTab _ _ => none
  | .iPar _ _ => none
  | .iBkt _ _ _ => none
  | .iAl1 _ _ _ => none
  | .iAl2 _ _ _ => none
  | .iPub _ _ _ => none
  | .iWait _ _ => none
  | .sHd1 _ _ => none
  | .sHd2 _ _ _ _ => none
  | .sNx1 _ _ _ _ => none
  | .sNx2 _ _ _ _ _ _ => none
  | .sChk w _ _ cur nx mk => tent c so uk val w cur nx mk
  | .sHelp _ _ _ _ _ => none
  | .iSt _ _ _ _ => none
  | .iCas _ _ _ _ => none
  | .iClr _ _ => none
  | .eMark _ _ _ _ _ => none
  | .eUnl _ _ cur _ => some [1, val cur]
  | .cLd1 => some [1]
  | .cAdd _ => some [1]
  | .cCnt _ => some [1]
  | .cMax _ _ => some [1]
  | .cGrow _ => some [1]
  | .cSat => some [1]
  | .cSub v => some [1, v]
  | .done r => some r

/-- The operation a thread is executing, while its result is not definitive. -/
def opOf (uk val : Nat → Int) : PC → Option GOp
  | .idle => none
  | .gCnt o => some (gop uk val o)
  | .gTab o _ => some (gop uk val o)
  | .iPar o _ => some (gop uk val o)
  | .iBkt o _ _ => some (gop uk val o)
  | .iAl1 o _ _ => some (gop uk val o)
  | .iAl2 o _ _ => some (gop uk val o)
  | .iPub o _ _ => some (gop uk val o)
  | .iWait o _ => some (gop uk val o)
  | .sHd1 w _ => some (gop uk val (wtop w))
  | .sHd2 w _ _ _ => some (gop uk val (wtop w))
  | .sNx1 w _ _ _ => some (gop uk val (wtop w))
  | .sNx2 w _ _ _ _ _ => some (gop uk val (wtop w))
  | .sChk w _ _ _ _ _ => some (gop uk val (wtop w))
  | .sHelp w _ _ _ _ => some (gop uk val (wtop w))
  | .iSt w _ _ _ => some (gop uk val (wtop w))
  | .iCas w _ _ _ => some (gop uk val (wtop w))
  | .iClr w _ => some (gop uk val (wtop w))
  | .eMark k _ _ _ _ => some (gop uk val (.era k))
  | .eUnl _ _ _ _ => none
  | .cLd1 => none
  | .cAdd _ => none
  | .cCnt _ => none
  | .cMax _ _ => none
  | .cGrow _ => none
  | .cSat => none
  | .cSub _ => none
  | .done _ => none

/-- The successor the new node of `link_node` is going to get. -/
def pcGtCur : PC → Option Nat
  | .idle => none
  | .gCnt _ => none
  | .gTab _ _ => none
  | .iPar _ _ => none
  | .iBkt _ _ _ => none
  | .iAl1 _ _ _ => none
  | .iAl2 _ _ _ => none
  | .iPub _ _ _ => none
  | .iWait _ _ => none
  | .sHd1 _ _ => none
  | .sHd2 _ _ _ _ => none
  | .sNx1 _ _ _ _ => none
  | .sNx2 _ _ _ _ _ _ => none
  | .sChk _ _ _ _ _ _ => none
  | .sHelp _ _ _ _ _ => none
  | .iSt _ _ _ cur => cur
  | .iCas _ _ _ cur => cur
  | .iClr _ _ => none
  | .eMark _ _ _ _ _ => none
  | .eUnl _ _ _ _ => none
  | .cLd1 => none
  | .cAdd _ => none
  | .cCnt _ => none
  | .cMax _ _ => none
  | .cGrow _ => none
  | .cSat => none
  | .cSub _ => none
  | .done _ => none

/-! ### The structural invariant -/

/-- The part of the state the per-thread clauses talk about. -/
structure Mem where
  next : Nat → Option Nat
  mark : Nat → Bool
  so : Nat → Nat
  uk : Nat → Int
  val : Nat → Int
  cnt : Nat
  acnt : Nat

/-- The memory part of a state (a notation, not a function: two states are never compared as a whole). -/
macro "mem!" s:term:max : term => `(Mem.mk ($s).next ($s).mark ($s).so ($s).uk ($s).val ($s).cnt ($s).acnt)

/-- Node `a` has been handed out: items by `insert` (odd ids), dummy nodes by `alloc_aux_node` (even ids). -/
def Alloc (m : Mem) (a : Nat) : Prop := (a % 2 = 1 ∧ a < 2 * m.cnt + 1) ∨ (a % 2 = 0 ∧ a < 2 * m.acnt)

/-- Clauses about the shared memory alone. -/
structure GOk (c : Cfg) (m : Mem) (tb : Nat → Option Nat) (k2 : Nat) (L : List Nat) : Prop where
  chain : Michael.Chain m.next (some 0) L
  sorted : L.Pairwise (KLt m.so m.uk)
  alloc : ∀ a, a ∈ L → Alloc m a
  unalloc : ∀ a, ¬ Alloc m a → m.next a = none ∧ m.mark a = false
  dmark : ∀ a, a % 2 = 0 → m.mark a = false
  regso : ∀ a, a % 2 = 1 → Alloc m a → m.so a = c.reg (c.hash (m.uk a))
  dumso : ∀ a, a % 2 = 0 → Alloc m a → m.so a % 2 = 0
  succ : ∀ a b, m.mark a = true → m.next a = some b → (b ∈ L ∨ m.mark b = true)
  tab : ∀ b d, tb b = some d → d ∈ L ∧ d % 2 = 0 ∧ m.so d = c.dum b ∧ m.uk d = 0
  tab0 : tb 0 = some 0
  cntb : k2 ≤ c.maxLog

/-- Each bucket on the recursion stack of `init_bucket` is the parent of the one below it. -/
def ParChain : List Nat → Prop
  | [] => True
  | [_] => True
  | b' :: b :: rest => b' = parent b ∧ ParChain (b :: rest)

/-- Clauses about one thread's program counter. -/
structure TOk (c : Cfg) (m : Mem) (L : List Nat) (pc : PC) : Prop where
  item : ∀ n, pcTop pc = some (.ins n) → n % 2 = 1 ∧ Alloc m n ∧ n ∉ L ∧ m.mark n = false
  dumPriv : ∀ x, pcDum pc = some x → x % 2 = 0 ∧ Alloc m x ∧ x ∉ L
  dumKey : ∀ x b rest, pcDum pc = some x → pcStk pc = b :: rest → m.so x = c.dum b ∧ m.uk x = 0
  dumStk : ∀ x, pcDum pc = some x → pcStk pc ≠ []
  lkPrev : ∀ a, pcPrev pc = some a → a ∈ L ∨ m.mark a = true
  lkCur : ∀ a, pcCur pc = some a → a ∈ L ∨ m.mark a = true
  lkNx : ∀ a, pcNx pc = some a → a ∈ L ∨ m.mark a = true
  keyPrev : ∀ a, pcPrev pc = some a → klt (m.so a) (m.uk a) (skeyS c m.so pc) (skeyU m.uk pc)
  keyGt : ∀ a, pcGtCur pc = some a → klt (skeyS c m.so pc) (skeyU m.uk pc) (m.so a) (m.uk a)
  keyEq : ∀ a k, pcEq pc = some (a, k) → m.so a = c.reg (c.hash k) ∧ m.uk a = k
  frozen : ∀ a x, pcFrozen pc = some (a, x, true) → m.next a = x ∧ m.mark a = true
  icas : ∀ w d p x n, pc = .iCas w d p x → wnode w = some n → m.next n = x
  start : ∀ d, pcStart pc = some d → d ∈ L ∧ d % 2 = 0 ∧ klt (m.so d) (m.uk d) (skeyS c m.so pc) (skeyU m.uk pc)
  szb : ∀ sz, pcSz pc = some sz → sz + 1 ≤ c.maxLog
  stkPre : ∀ o b, pcTop pc = some o → b ∈ pcStk pc → 0 < b ∧ Pre c (c.hash (tkey m.uk o)) b
  stkPar : ParChain (pcStk pc)
  bkt : ∀ o b, pcTop pc = some o → pcBkt pc = some b → Pre c (c.hash (tkey m.uk o)) b
  pp : ∀ p b rest, pcPP pc = some p → pcStk pc = b :: rest →
    p ∈ L ∧ p % 2 = 0 ∧ m.so p = c.dum (parent b) ∧ m.uk p = 0
  pub : ∀ x b rest, pcPub pc = some x → pcStk pc = b :: rest → x ∈ L ∧ x % 2 = 0 ∧ m.so x = c.dum b ∧ m.uk x = 0

/-- Clauses about pairs of threads: a private node has one owner; a node has been marked by one eraser. -/
structure Own (pc : Tid → PC) : Prop where
  item : ∀ t1 t2 n, pcTop (pc t1) = some (.ins n) → pcTop (pc t2) = some (.ins n) → t1 = t2
  dum : ∀ t1 t2 x, pcDum (pc t1) = some x → pcDum (pc t2) = some x → t1 = t2
  eunl : ∀ t1 t2 k1 p1 a x1 k2 p2 x2, pc t1 = .eUnl k1 p1 a x1 → pc t2 = .eUnl k2 p2 a x2 → t1 = t2

structure SInvL (c : Cfg) (s : St) (L : List Nat) : Prop where
  g : GOk c (mem! s) s.table s.cnt2 L
  thr : ∀ t, TOk c (mem! s) L (s.pc t)
  own : Own s.pc

def SInv (c : Cfg) (s : St) : Prop := ∃ L, SInvL c s L

theorem tok_idle (c : Cfg) (m : Mem) (L : List Nat) : TOk c m L .idle := by
  constructor <;> simp [pcTop, pcStk, pcDum, pcStart, pcPrev, pcCur, pcNx, pcGtCur, pcEq, pcFrozen, pcPP, pcPub, pcBkt, pcSz, ParChain]

theorem sinv_init (c : Cfg) (hc : SOHyp c) : SInvL c (init c) [0] := by
  refine ⟨?_, fun t => tok_idle _ _ _, ?_⟩
  · constructor <;> simp [init, Michael.Chain, Alloc, hc.dum0]
    all_goals first | exact hc.log1 | (intro a h; omega) | (intro b d h; split at h <;> simp_all [hc.dum0])
  · constructor <;> simp [init, pcTop, pcDum]

theorem forall_upd {P : PC → Prop} {pc : Tid → PC} {t : Tid} {pc' : PC} (h : ∀ t2, t2 ≠ t → P (pc t2)) (h' : P pc') :
    ∀ t2, P (upd pc t pc' t2) := by
  intro t2
  unfold upd
  split
  · exact h'
  · exact h t2 (by assumption)

/-- Thread `t` moves to `pc'`: ownership is preserved if `pc'` owns nothing that `t` did not own before, unless
    nobody owned it. -/
theorem Own.upd {pc : Tid → PC} (h : Own pc) (t : Tid) (pc' : PC)
    (hi : ∀ n, pcTop pc' = some (.ins n) → pcTop (pc t) = some (.ins n) ∨ ∀ t2, pcTop (pc t2) ≠ some (.ins n))
    (hd : ∀ x, pcDum pc' = some x → pcDum (pc t) = some x ∨ ∀ t2, pcDum (pc t2) ≠ some x)
    (he : ∀ k p a x, pc' = .eUnl k p a x →
      (∃ k0 p0 x0, pc t = .eUnl k0 p0 a x0) ∨ ∀ t2 k2 p2 x2, pc t2 ≠ .eUnl k2 p2 a x2) :
    Own (Machine.upd pc t pc') := by
  constructor
  · intro t1 t2 n h1 h2
    unfold Machine.upd at h1 h2
    by_cases e1 : t1 = t <;> by_cases e2 : t2 = t <;> simp only [e1, e2, if_true, if_false] at h1 h2
    · rw [e1, e2]
    · rcases hi n h1 with h3 | h3
      · rw [e1]; exact h.item t t2 n h3 h2
      · exact absurd h2 (h3 t2)
    · rcases hi n h2 with h3 | h3
      · rw [e2]; exact h.item t1 t n h1 h3
      · exact absurd h1 (h3 t1)
    · exact h.item t1 t2 n h1 h2
  · intro t1 t2 x h1 h2
    unfold Machine.upd at h1 h2
    by_cases e1 : t1 = t <;> by_cases e2 : t2 = t <;> simp only [e1, e2, if_true, if_false] at h1 h2
    · rw [e1, e2]
    · rcases hd x h1 with h3 | h3
      · rw [e1]; exact h.dum t t2 x h3 h2
      · exact absurd h2 (h3 t2)
    · rcases hd x h2 with h3 | h3
      · rw [e2]; exact h.dum t1 t x h1 h3
      · exact absurd h1 (h3 t1)
    · exact h.dum t1 t2 x h1 h2
  · intro t1 t2 k1 p1 a x1 k2 p2 x2 h1 h2
    unfold Machine.upd at h1 h2
    by_cases e1 : t1 = t <;> by_cases e2 : t2 = t <;> simp only [e1, e2, if_true, if_false] at h1 h2
    · rw [e1, e2]
    · rcases he k1 p1 a x1 h1 with ⟨k0, p0, x0, h3⟩ | h3
      · rw [e1]; exact h.eunl t t2 _ _ a _ _ _ _ h3 h2
      · exact absurd h2 (h3 t2 k2 p2 x2)
    · rcases he k2 p2 a x2 h2 with ⟨k0, p0, x0, h3⟩ | h3
      · rw [e2]; exact h.eunl t1 t _ _ a _ _ _ _ h1 h3
      · exact absurd h1 (h3 t1 k1 p1 x1)
    · exact h.eunl t1 t2 _ _ a _ _ _ _ h1 h2

theorem SInvL.unique {c : Cfg} {s : St} {L1 L2 : List Nat} (h1 : SInvL c s L1) (h2 : SInvL c s L2) : L1 = L2 :=
  Michael.Chain.functional h1.g.chain h2.g.chain

theorem GOk.head_cons {c : Cfg} {m : Mem} {tb : Nat → Option Nat} {k2 : Nat} {L : List Nat} (h : GOk c m tb k2 L) :
    ∃ l, L = 0 :: l := by
  have hc := h.chain
  cases L with
  | nil => simp [Michael.Chain] at hc
  | cons a r => simp only [Michael.Chain, Option.some.injEq] at hc; exact ⟨r, by rw [hc.1]⟩

theorem GOk.zero_mem {c : Cfg} {m : Mem} {tb : Nat → Option Nat} {k2 : Nat} {L : List Nat} (h : GOk c m tb k2 L) :
    0 ∈ L := by
  obtain ⟨l, rfl⟩ := h.head_cons; simp

theorem GOk.nodup {c : Cfg} {m : Mem} {tb : Nat → Option Nat} {k2 : Nat} {L : List Nat} (h : GOk c m tb k2 L) :
    L.Nodup := sorted_nodup h.sorted

/-- The successor of a linked node is linked. -/
theorem GOk.next_mem {c : Cfg} {m : Mem} {tb : Nat → Option Nat} {k2 : Nat} {L : List Nat} (h : GOk c m tb k2 L)
    {a b : Nat} (ha : a ∈ L) (hb : m.next a = some b) : b ∈ L :=
  List.mem_of_mem_tail (Michael.Chain.succ_mem h.chain ha hb)

/-- The successor of a node that is linked or marked is linked or marked. -/
theorem GOk.next_lk {c : Cfg} {m : Mem} {tb : Nat → Option Nat} {k2 : Nat} {L : List Nat} (h : GOk c m tb k2 L)
    {a b : Nat} (ha : a ∈ L ∨ m.mark a = true) (hb : m.next a = some b) : b ∈ L ∨ m.mark b = true := by
  rcases ha with ha | ha
  · exact Or.inl (h.next_mem ha hb)
  · exact h.succ a b ha hb

theorem GOk.lk_alloc {c : Cfg} {m : Mem} {tb : Nat → Option Nat} {k2 : Nat} {L : List Nat} (h : GOk c m tb k2 L)
    {a : Nat} (ha : a ∈ L ∨ m.mark a = true) : Alloc m a := by
  rcases ha with ha | ha
  · exact h.alloc a ha
  · apply Classical.byContradiction
    intro hn
    have := (h.unalloc a hn).2
    rw [this] at ha; simp at ha

/-- A node with an odd split-order key is an item. -/
theorem GOk.odd_of_so {c : Cfg} {m : Mem} {tb : Nat → Option Nat} {k2 : Nat} {L : List Nat} (h : GOk c m tb k2 L)
    {a : Nat} (ha : Alloc m a) (ho : m.so a % 2 = 1) : a % 2 = 1 := by
  apply Classical.byContradiction
  intro hn
  have := h.dumso a (by omega) ha
  omega

/-! ### The abstract map -/

/-- Some unmarked item on the chain carries `(k, v)`. -/
def Has (mark : Nat → Bool) (uk val : Nat → Int) (L : List Nat) (k v : Int) : Prop :=
  ∃ a, a ∈ L ∧ a % 2 = 1 ∧ mark a = false ∧ uk a = k ∧ val a = v

/-- No node on the chain has the key `( K1, K2 )`, when that key lies strictly between the key of a chain node `p`
    and the key of the successor of `p`. -/
theorem GOk.gap {c : Cfg} {s : Mem} {tb : Nat → Option Nat} {k2 : Nat} {L : List Nat} (h : GOk c s tb k2 L) {p : Nat} {K1 : Nat} {K2 : Int} (hp : p ∈ L)
    (hpk : klt (s.so p) (s.uk p) K1 K2) (hck : ∀ x, s.next p = some x → klt K1 K2 (s.so x) (s.uk x)) :
    ∀ a, a ∈ L → ¬ (s.so a = K1 ∧ s.uk a = K2) := by
  intro a ha hk
  rcases Michael.Chain.around h.chain h.sorted hp a ha with e | hlt | ⟨x, hx, e | hlt⟩
  · subst e; unfold klt at hpk; omega
  · unfold KLt klt at hlt; unfold klt at hpk; omega
  · subst e; have := hck a hx; unfold klt at this; omega
  · unfold KLt klt at hlt; have := hck x hx; unfold klt at this; omega

theorem GOk.absent {c : Cfg} {s : Mem} {tb : Nat → Option Nat} {k2 : Nat} {L : List Nat} (h : GOk c s tb k2 L) {p : Nat} {k : Int} (hp : p ∈ L)
    (hpk : klt (s.so p) (s.uk p) (c.reg (c.hash k)) k)
    (hck : ∀ x, s.next p = some x → klt (c.reg (c.hash k)) k (s.so x) (s.uk x)) :
    ∀ w, ¬ Has s.mark s.uk s.val L k w := by
  rintro w ⟨a, ha, hodd, -, hk, -⟩
  refine h.gap hp hpk hck a ha ⟨?_, hk⟩
  rw [h.regso a hodd (h.alloc a ha), hk]

theorem LPok.congr_left {H H1 H' : Int → Int → Prop} {op : GOp} {r : GRet} (he : ∀ k v, H k v ↔ H1 k v)
    (h : LPok H1 op r H') : LPok H op r H' := by
  intro m hm
  exact h m (fun k v => (hm k v).trans (he k v))

/-- The key is absent: the operation (other than an insert) answers `[0]` and the map does not change. -/
theorem GOk.lp_absent {c : Cfg} {s : Mem} {tb : Nat → Option Nat} {k2 : Nat} {L : List Nat} (h : GOk c s tb k2 L) {p : Nat} {o : Top} {r : GRet} (hp : p ∈ L)
    (hpk : klt (s.so p) (s.uk p) (okeyS c s.so (.top o)) (okeyU s.uk (.top o)))
    (hck : ∀ x, s.next p = some x → klt (okeyS c s.so (.top o)) (okeyU s.uk (.top o)) (s.so x) (s.uk x))
    (hr : absentRet o = some r) :
    LPok (Has s.mark s.uk s.val L) (gop s.uk s.val o) r (Has s.mark s.uk s.val L) := by
  cases o <;> simp [absentRet] at hr <;> subst hr
  · exact Michael.LPok.ro_none (h.absent hp hpk hck) (fun _ _ => Iff.rfl) (Or.inl rfl)
  · exact Michael.LPok.ro_none (h.absent hp hpk hck) (fun _ _ => Iff.rfl) (Or.inr (Or.inl rfl))
  · exact Michael.LPok.ro_none (h.absent hp hpk hck) (fun _ _ => Iff.rfl) (Or.inr (Or.inr rfl))

/-- The key is present in the unmarked chain node `a`: a failing insert, a find, a contains. -/
theorem GOk.lp_present {c : Cfg} {s : Mem} {tb : Nat → Option Nat} {k2 : Nat} {L : List Nat} (h : GOk c s tb k2 L) (hc : SOHyp c) {a : Nat} {o : Top} {r : GRet}
    (ha : a ∈ L) (hm : s.mark a = false) (hs : s.so a = okeyS c s.so (.top o)) (hu : s.uk a = okeyU s.uk (.top o))
    (hitem : ∀ n, o = .ins n → Alloc s n ∧ n % 2 = 1)
    (hr : foundRet s.val o a = some r) :
    LPok (Has s.mark s.uk s.val L) (gop s.uk s.val o) r (Has s.mark s.uk s.val L) := by
  have hodd : a % 2 = 1 := by
    apply h.odd_of_so (h.alloc a ha)
    cases o with
    | ins n =>
      have := hitem n rfl
      rw [hs]; simp only [okeyS]; rw [h.regso n this.2 this.1]; exact hc.regOdd _
    | era k => rw [hs]; exact hc.regOdd _
    | fnd k => rw [hs]; exact hc.regOdd _
    | con k => rw [hs]; exact hc.regOdd _
  have hhas : Has s.mark s.uk s.val L (okeyU s.uk (.top o)) (s.val a) := ⟨a, ha, hodd, hm, hu, rfl⟩
  cases o <;> simp [foundRet] at hr <;> subst hr
  · exact Michael.LPok.ro_some hhas (fun _ _ => Iff.rfl) (Or.inl ⟨_, rfl, rfl⟩)
  · exact Michael.LPok.ro_some hhas (fun _ _ => Iff.rfl) (Or.inr (Or.inl ⟨rfl, rfl⟩))
  · exact Michael.LPok.ro_some hhas (fun _ _ => Iff.rfl) (Or.inr (Or.inr ⟨rfl, rfl⟩))

/-- Unlinking a marked node does not change the abstract map. -/
theorem has_erase {mark : Nat → Bool} {uk val : Nat → Int} {L : List Nat} {x : Nat} (hnd : L.Nodup)
    (hm : mark x = true) (k v : Int) : Has mark uk val (L.erase x) k v ↔ Has mark uk val L k v := by
  unfold Has
  constructor
  · rintro ⟨a, ha, h⟩
    exact ⟨a, (List.Nodup.mem_erase_iff hnd).mp ha |>.2, h⟩
  · rintro ⟨a, ha, h0, h1, h2⟩
    refine ⟨a, (List.Nodup.mem_erase_iff hnd).mpr ⟨?_, ha⟩, h0, h1, h2⟩
    intro e; rw [e, hm] at h1; simp at h1

/-- Linking an unmarked item adds its pair to the abstract map; linking a dummy node adds nothing. -/
theorem has_insert {mark : Nat → Bool} {uk val : Nat → Int} {L : List Nat} {p n : Nat} (hp : p ∈ L)
    (hnm : mark n = false) (j w : Int) :
    Has mark uk val (Michael.insAfter p n L) j w ↔ (Has mark uk val L j w ∨ (n % 2 = 1 ∧ j = uk n ∧ w = val n)) := by
  unfold Has
  constructor
  · rintro ⟨a, ha, h0, h1, h2, h3⟩
    rcases (Michael.mem_insAfter hp).mp ha with hm | e
    · exact Or.inl ⟨a, hm, h0, h1, h2, h3⟩
    · subst e; exact Or.inr ⟨h0, h2.symm, h3.symm⟩
  · rintro (⟨a, ha, h⟩ | ⟨e0, e1, e2⟩)
    · exact ⟨a, (Michael.mem_insAfter hp).mpr (Or.inl ha), h⟩
    · exact ⟨n, (Michael.mem_insAfter hp).mpr (Or.inr rfl), e0, hnm, e1.symm, e2.symm⟩

/-- Marking a chain item removes its user key from the abstract map. -/
theorem GOk.has_mark {c : Cfg} {s : Mem} {tb : Nat → Option Nat} {k2 : Nat} {L : List Nat} (h : GOk c s tb k2 L) {x : Nat} (hx : x ∈ L) (hodd : x % 2 = 1)
    (j w : Int) :
    Has (upd s.mark x true) s.uk s.val L j w ↔ (Has s.mark s.uk s.val L j w ∧ j ≠ s.uk x) := by
  unfold Has
  constructor
  · rintro ⟨a, ha, h0, h1, h2, h3⟩
    have hax : a ≠ x := by intro e; rw [e] at h1; simp [upd] at h1
    rw [upd_other _ _ _ _ hax] at h1
    refine ⟨⟨a, ha, h0, h1, h2, h3⟩, ?_⟩
    intro e
    refine hax (sorted_inj h.sorted a x ha hx ?_ (h2.trans e))
    rw [h.regso a h0 (h.alloc a ha), h.regso x hodd (h.alloc x hx), h2, e]
  · rintro ⟨⟨a, ha, h0, h1, h2, h3⟩, hne⟩
    have hax : a ≠ x := by intro e; rw [e] at h2; exact hne h2.symm
    exact ⟨a, ha, h0, by rw [upd_other _ _ _ _ hax]; exact h1, h2, h3⟩

/-- A tentative result never changes the sequential map. -/
theorem tent_ro {c : Cfg} {so : Nat → Nat} {uk val : Nat → Int} {w : OpK} {x : Nat} {nx : Option Nat} {mk : Bool}
    {r : GRet} (h : tent c so uk val w x nx mk = some r) : isRO (gop uk val (wtop w)) r = true := by
  cases w with
  | dum m o stk => simp [tent] at h
  | top o =>
    simp only [tent] at h
    split at h
    · simp at h
    · split at h
      · cases o <;> simp [foundRet] at h <;> subst h <;> simp [isRO, gop, wtop]
      · split at h
        · cases o <;> simp [absentRet] at h <;> subst h <;> simp [isRO, gop, wtop]
        · simp at h

/-! ### Keys and payloads of allocated nodes are immutable: what a program counter refers to is unaffected by an allocation -/

theorem okeyS_congr {c : Cfg} {so so' : Nat → Nat} {w : OpK} (h : ∀ n, wnode w = some n → so' n = so n) :
    okeyS c so' w = okeyS c so w := by
  cases w with
  | top o => cases o <;> simp_all [okeyS, wnode]
  | dum m o stk => simp_all [okeyS, wnode]

theorem okeyU_congr {uk uk' : Nat → Int} {w : OpK} (h : ∀ n, wnode w = some n → uk' n = uk n) :
    okeyU uk' w = okeyU uk w := by
  cases w with
  | top o => cases o <;> simp_all [okeyU, wnode]
  | dum m o stk => simp_all [okeyU, wnode]

/-- The nodes whose fields a program counter's bookkeeping reads. -/
def pcRefs (pc : PC) (a : Nat) : Prop :=
  pcTop pc = some (.ins a) ∨ pcDum pc = some a ∨ pcCur pc = some a

theorem wnode_refs {w : OpK} {n : Nat} (h : wnode w = some n) : wtop w = .ins n ∨ wdum w = some n := by
  cases w with
  | top o => cases o <;> simp_all [wnode, wtop]
  | dum m o stk => simp_all [wnode, wdum]

theorem skeyS_congr {c : Cfg} {so so' : Nat → Nat} {pc : PC} (h : ∀ a, pcRefs pc a → so' a = so a) :
    skeyS c so' pc = skeyS c so pc := by
  cases pc <;> simp only [skeyS] <;> first
    | rfl
    | (apply okeyS_congr; intro n hn; apply h; rcases wnode_refs hn with e | e <;> simp [pcRefs, pcTop, pcDum, e])

theorem skeyU_congr {uk uk' : Nat → Int} {pc : PC} (h : ∀ a, pcRefs pc a → uk' a = uk a) :
    skeyU uk' pc = skeyU uk pc := by
  cases pc <;> simp only [skeyU] <;> first
    | rfl
    | (apply okeyU_congr; intro n hn; apply h; rcases wnode_refs hn with e | e <;> simp [pcRefs, pcTop, pcDum, e])

theorem gop_congr {uk uk' val val' : Nat → Int} {o : Top}
    (h : ∀ n, o = .ins n → uk' n = uk n ∧ val' n = val n) : gop uk' val' o = gop uk val o := by
  cases o <;> simp_all [gop]

theorem tkey_congr {uk uk' : Nat → Int} {o : Top} (h : ∀ n, o = .ins n → uk' n = uk n) : tkey uk' o = tkey uk o := by
  cases o <;> simp_all [tkey]

theorem opOf_congr {uk uk' val val' : Nat → Int} {pc : PC}
    (h : ∀ a, pcRefs pc a → uk' a = uk a ∧ val' a = val a) : opOf uk' val' pc = opOf uk val pc := by
  cases pc <;> simp only [opOf] <;> first
    | rfl
    | (apply congrArg some; apply gop_congr; intro n hn; apply h; simp [pcRefs, pcTop, hn])

theorem lpRet_congr {c : Cfg} {so so' : Nat → Nat} {uk uk' val val' : Nat → Int} {pc : PC}
    (h : ∀ a, pcRefs pc a → so' a = so a ∧ uk' a = uk a ∧ val' a = val a) :
    lpRet c so' uk' val' pc = lpRet c so uk val pc := by
  cases pc <;> simp only [lpRet]
  case sChk w d p x nx mk =>
    have h1 := h x (by simp [pcRefs, pcCur])
    cases w with
    | dum m o stk => simp [tent]
    | top o =>
      have h2 : okeyS c so' (.top o) = okeyS c so (.top o) := okeyS_congr (fun n hn => by
        rcases wnode_refs hn with e | e
        · exact (h n (by simp [pcRefs, pcTop, e])).1
        · simp [wdum] at e)
      have h3 : okeyU uk' (.top o) = okeyU uk (.top o) := okeyU_congr (fun n hn => by
        rcases wnode_refs hn with e | e
        · exact (h n (by simp [pcRefs, pcTop, e])).2.1
        · simp [wdum] at e)
      cases o <;> simp [tent, foundRet, absentRet, h1, h2, h3]
  case eUnl k p x nx =>
    have := h x (by simp [pcRefs, pcCur])
    simp_all

theorem postRet_congr {val val' : Nat → Int} {pc : PC}
    (hc : ∀ a, pcCur pc = some a → val' a = val a) : postRet val' pc = postRet val pc := by
  cases pc <;> simp only [postRet]
  case eUnl k p x nx =>
    have := hc x (by simp [pcCur])
    simp_all

structure StepEff (c : Cfg) (s : St) (t : Tid) (s' : St) (L L' : List Nat) : Prop where
  frame : ∀ t2, t2 ≠ t → s'.pc t2 = s.pc t2
  lps : ∀ t2, t2 ≠ t → lpRet c s'.so s'.uk s'.val (s.pc t2) = lpRet c s.so s.uk s.val (s.pc t2)
  ops : ∀ t2, t2 ≠ t → opOf s'.uk s'.val (s.pc t2) = opOf s.uk s.val (s.pc t2)
  lp : lpRet c s.so s.uk s.val (s.pc t) = none → ∀ r, lpRet c s'.so s'.uk s'.val (s'.pc t) = some r →
        ∃ op, opOf s.uk s.val (s.pc t) = some op ∧ LPok (Has s.mark s.uk s.val L) op r (Has s'.mark s'.uk s'.val L')
  nolp : (lpRet c s.so s.uk s.val (s.pc t) ≠ none ∨ lpRet c s'.so s'.uk s'.val (s'.pc t) = none) →
        ∀ k v, Has s'.mark s'.uk s'.val L' k v ↔ Has s.mark s.uk s.val L k v
  keep : ∀ r, lpRet c s.so s.uk s.val (s.pc t) = some r → lpRet c s'.so s'.uk s'.val (s'.pc t) = some r ∨
          ((∃ op, opOf s.uk s.val (s.pc t) = some op ∧ isRO op r = true) ∧
            lpRet c s'.so s'.uk s'.val (s'.pc t) = none)
  pkeep : ∀ r, postRet s.val (s.pc t) = some r → postRet s'.val (s'.pc t) = some r
  op : postRet s'.val (s'.pc t) = none → opOf s'.uk s'.val (s'.pc t) = opOf s.uk s.val (s.pc t)
  busy : s.pc t ≠ .idle ∧ s'.pc t ≠ .idle
  mono : ∀ a, (a ∈ L ∨ s.mark a = true) → (a ∈ L' ∨ s'.mark a = true)
  frz : ∀ a, s.mark a = true → s'.mark a = true ∧ s'.next a = s.next a
  marks : ∀ a, s.mark a = false → s'.mark a = true →
    ∃ k d p x, s.pc t = .eMark k d p a x ∧ s'.pc t = .eUnl k p a x ∧ s.uk a = k ∧ a ∈ L ∧ a % 2 = 1
  keys : ∀ a, Alloc (mem! s) a → s'.so a = s.so a ∧ s'.uk a = s.uk a ∧ s'.val a = s.val a
  tabmono : ∀ b d, s.table b = some d → s'.table b = some d
  grow : s'.cnt2 ≠ s.cnt2 → L' = L ∧ s'.next = s.next ∧ s'.mark = s.mark ∧ s'.table = s.table ∧
    s'.cnt2 = s.cnt2 + 1 ∧ postRet s.val (s.pc t) = some [1] ∧ postRet s'.val (s'.pc t) = some [1]
  publish : ∀ b, s'.table b ≠ s.table b → L' = L ∧ s'.next = s.next ∧ s'.mark = s.mark ∧ s'.cnt2 = s.cnt2 ∧
    lpRet c s.so s.uk s.val (s.pc t) = none ∧ lpRet c s'.so s'.uk s'.val (s'.pc t) = none

macro "tok_close" : tactic =>
  `(tactic| (constructor <;> intros <;> (try dsimp only at *) <;>
      first
      | (simp [pcTop, pcStk, pcDum, pcStart, pcPrev, pcCur, pcNx, pcGtCur, pcEq, pcFrozen, pcPP, pcPub, pcBkt, pcSz, ParChain] at *; done)
      | grind [upd, Alloc, klt, wtop, wstk, wdum, wnode, tkey, okeyS, okeyU, pcTop, pcStk, pcDum, pcStart, pcPrev, pcCur, pcNx,
          pcGtCur, pcEq, pcFrozen, pcPP, pcPub, pcBkt, pcSz, skeyS, skeyU, ParChain]))

macro "eff_close" : tactic =>
  `(tactic| (constructor <;> intros <;> (try dsimp only at *) <;>
      grind [upd, Alloc, klt, wtop, wnode, okeyS, okeyU, lpRet, postRet, opOf, tent, foundRet, absentRet, gop]))

end CdsVerif.Algo.SplitList

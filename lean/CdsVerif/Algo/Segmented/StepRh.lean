/-
  Preservation of the SegmentedQueue invariant: steps of `segment_list::remove_head`.
-/
import CdsVerif.Algo.Segmented.Kinds
import CdsVerif.Algo.Segmented.StepDeq
namespace CdsVerif.Algo.Segmented
open CdsVerif.Machine CdsVerif.Spec

theorem step_rhTry {s s' : St} {t : Tid} {e : Ev} {ps : List Nat} {g : Nat} (h : Inv s)
    (hpc : s.pc t = .rhTry ps g) (hs : step s t = some (s', e)) : Inv s' := by
  unfold step at hs; simp only [hpc] at hs
  have hL := h.2 t; rw [hpc] at hL
  have hact := hL.act (by simp)
  have hact' : s.tCall t < s.now + 1 := by omega
  have hptr := hL.ptr g rfl
  have hdptr := hL.dptr g rfl
  have hdel : ∀ j, j < s.K → (s.cell g j).isDel = true := fun j hj => hL.rhArg g j rfl hj
  split at hs
  · simp only [Option.some.injEq, Prod.mk.injEq] at hs; obtain ⟨rfl, _⟩ := hs
    apply inv_pcnow h
    exact loc_rhSpin hact' hptr hdptr hdel
  · rename_i hfree
    simp only [Option.some.injEq, Prod.mk.injEq] at hs; obtain ⟨rfl, _⟩ := hs
    have hfree' : s.lock = false := by simpa using hfree
    refine inv_acquire (q := .rhIn ps g) h hfree' ?_
    exact loc_rhIn hact' hptr hdptr rfl (quiet_setLock.mpr (h.1.quiet (holder_none_of_free h.1 hfree'))) hdel

theorem step_rhSpin {s s' : St} {t : Tid} {e : Ev} {ps : List Nat} {g : Nat} (h : Inv s)
    (hpc : s.pc t = .rhSpin ps g) (hs : step s t = some (s', e)) : Inv s' := by
  unfold step at hs; simp only [hpc] at hs
  have hL := h.2 t; rw [hpc] at hL
  have hact := hL.act (by simp)
  have hact' : s.tCall t < s.now + 1 := by omega
  have hptr := hL.ptr g rfl
  have hdptr := hL.dptr g rfl
  have hdel : ∀ j, j < s.K → (s.cell g j).isDel = true := fun j hj => hL.rhArg g j rfl hj
  split at hs
  · simp only [Option.some.injEq, Prod.mk.injEq] at hs; obtain ⟨rfl, _⟩ := hs
    apply inv_pcnow h
    exact loc_rhSpin hact' hptr hdptr hdel
  · simp only [Option.some.injEq, Prod.mk.injEq] at hs; obtain ⟨rfl, _⟩ := hs
    apply inv_pcnow h
    exact loc_rhTry hact' hptr hdptr hdel

theorem step_rhIn {s s' : St} {t : Tid} {e : Ev} {ps : List Nat} {g : Nat} (h : Inv s)
    (hpc : s.pc t = .rhIn ps g) (hs : step s t = some (s', e)) : Inv s' := by
  unfold step at hs; simp only [hpc] at hs
  have hL := h.2 t; rw [hpc] at hL
  have hact := hL.act (by simp)
  have hact' : s.tCall t < s.now + 1 := by omega
  have hhold := hL.cs rfl
  have hptr := hL.ptr g rfl
  have hdptr := hL.dptr g rfl
  have hdel : ∀ j, j < s.K → (s.cell g j).isDel = true := fun j hj => hL.rhArg g j rfl hj
  have G := h.1
  have hq : Quiet s := hL.qcs rfl
  split at hs
  · rename_i hlt
    split at hs
    · rename_i hg
      have hdead' : ∀ g' i, g' < s.lo + 1 → i < s.K → (s.cell g' i).isDel = true := by
        intro g' i hg' hi
        by_cases hh : g' < s.lo
        · exact G.dead g' i hh hi
        · have : g' = g := by omega
          subst this; exact hdel i hi
      split at hs
      · rename_i hmore
        simp only [Option.some.injEq, Prod.mk.injEq] at hs; obtain ⟨rfl, _⟩ := hs
        refine inv_setList (q := .rhUnlock ps (some (s.lo + 1))) (hd := some (s.lo + 1)) (tl := s.tail) (lo' := s.lo + 1)
          (n' := s.nseg) h hhold (by omega) (Nat.le_refl _) (by omega) ?_ ?_ G.tail_some ?_ G.fresh hdead' G.full ?_
        · intro hd hh; injection hh with hh; omega
        · intro hh; cases hh
        · intro hh; omega
        · refine loc_rhUnlock hact' hhold (quiet_setList.mpr ⟨?_, ?_⟩) ?_ (by intro hh; cases hh)
          · intro _; exact ⟨rfl, (hq.1 hlt).2⟩
          · intro hh; omega
          · intro g' hg'; injection hg' with hg'; subst hg'
            exact ⟨hmore, Nat.le_refl _⟩
      · rename_i hmore
        simp only [Option.some.injEq, Prod.mk.injEq] at hs; obtain ⟨rfl, _⟩ := hs
        refine inv_setList (q := .rhHead ps) (hd := s.head) (tl := none) (lo' := s.lo + 1)
          (n' := s.nseg) h hhold (by omega) (Nat.le_refl _) (by omega) ?_ ?_ ?_ ?_ G.fresh hdead' G.full ?_
        · intro hd hh; have := G.head_some hd hh; omega
        · intro hh; have := G.head_none hh; omega
        · intro p hp; cases hp
        · intro _; rfl
        · refine loc_rhHead hact' hhold (by show s.lo + 1 = s.nseg; omega) ?_
          intro y c hc _
          have hst := stored_facts G hc
          show (s.cell (s.posS y) (s.posI y)).isDel = true
          exact hdead' _ _ (by omega) hst.2.2
    · rename_i hg
      simp only [Option.some.injEq, Prod.mk.injEq] at hs; obtain ⟨rfl, _⟩ := hs
      refine inv_setList (q := .rhUnlock ps (some s.lo)) (hd := some s.lo) (tl := s.tail) (lo' := s.lo)
        (n' := s.nseg) h hhold (Nat.le_refl _) (Nat.le_refl _) G.lo_le ?_ ?_ G.tail_some G.tail_none G.fresh G.dead G.full ?_
      · intro hd hh; injection hh with hh; omega
      · intro hh; cases hh
      · refine loc_rhUnlock hact' hhold (quiet_setList.mpr ⟨?_, ?_⟩) ?_ (by intro hh; cases hh)
        · intro _; exact ⟨rfl, (hq.1 hlt).2⟩
        · intro hh; omega
        · intro g' hg'; injection hg' with hg'; subst hg'
          exact ⟨hlt, Nat.le_refl _⟩
  · rename_i hlt
    simp only [Option.some.injEq, Prod.mk.injEq] at hs; obtain ⟨rfl, _⟩ := hs
    have hlo : s.lo = s.nseg := by have := G.lo_le; omega
    refine inv_setList (q := .rhHead ps) (hd := s.head) (tl := none) (lo' := s.lo)
      (n' := s.nseg) h hhold (Nat.le_refl _) (Nat.le_refl _) G.lo_le G.head_some G.head_none ?_ ?_ G.fresh G.dead G.full ?_
    · intro p hp; cases hp
    · intro _; rfl
    · refine loc_rhHead hact' hhold hlo ?_
      intro y c hc _
      exact all_marked_of_empty G hlo hc

theorem step_rhHead {s s' : St} {t : Tid} {e : Ev} {ps : List Nat} (h : Inv s)
    (hpc : s.pc t = .rhHead ps) (hs : step s t = some (s', e)) : Inv s' := by
  unfold step at hs; simp only [hpc] at hs
  have hL := h.2 t; rw [hpc] at hL
  have hact := hL.act (by simp)
  have hact' : s.tCall t < s.now + 1 := by omega
  have hhold := hL.cs rfl
  have hlo := hL.rhHead ps rfl
  have he3 := hL.e3 rfl
  have G := h.1
  simp only [Option.some.injEq, Prod.mk.injEq] at hs; obtain ⟨rfl, _⟩ := hs
  refine inv_setList (q := .rhUnlock ps none) (hd := none) (tl := s.tail) (lo' := s.lo)
    (n' := s.nseg) h hhold (Nat.le_refl _) (Nat.le_refl _) G.lo_le ?_ ?_ G.tail_some G.tail_none G.fresh G.dead G.full ?_
  · intro hd hh; cases hh
  · intro _; exact hlo
  · refine loc_rhUnlock hact' hhold (quiet_setList.mpr ⟨?_, ?_⟩) (by intro g' hg'; cases hg') (fun _ => he3)
    · intro hh; omega
    · intro _; rfl

theorem step_rhUnlock {s s' : St} {t : Tid} {e : Ev} {ps : List Nat} {r : Option Nat} (h : Inv s)
    (hpc : s.pc t = .rhUnlock ps r) (hs : step s t = some (s', e)) : Inv s' := by
  unfold step at hs; simp only [hpc] at hs
  have hL := h.2 t; rw [hpc] at hL
  have hact := hL.act (by simp)
  have hact' : s.tCall t < s.now + 1 := by omega
  have hhold := hL.cs rfl
  have G := h.1
  split at hs
  · have he3 := hL.e3 rfl
    simp only [Option.some.injEq, Prod.mk.injEq] at hs; obtain ⟨rfl, _⟩ := hs
    refine inv_release (q := .deqDone none) h hhold (hL.qcs rfl) ?_
    exact loc_deqDone hact' (by intro x hx; cases hx) (fun _ => he3)
  · rename_i g
    have hptr := hL.ptr g rfl
    have hdptr := hL.dptr g rfl
    simp only [Option.some.injEq, Prod.mk.injEq] at hs; obtain ⟨rfl, _⟩ := hs
    refine inv_release (q := scanD (nextPerm s.K ps).2 g false (nextPerm s.K ps).1) h hhold (hL.qcs rfl) ?_
    exact loc_startD (s := setLock s t _ false none) (glob_setLock G (by intro t' ht'; cases ht') (fun _ => hL.qcs rfl))
      hact' hptr hdptr

end CdsVerif.Algo.Segmented

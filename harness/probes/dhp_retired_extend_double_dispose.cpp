// Probe: DHP retired chain, a pass over a completely full chain that frees >0 but < 1/4 of the entries.
#include <cds/init.h>
#include <cds/gc/dhp.h>
#include <cstdio>
#include <vector>
#include <memory>
struct Obj { int id; int disposed; };
static int twice = 0;
struct disposer { void operator()( Obj* p ) const { if ( ++p->disposed > 1 ) { ++twice; if ( twice <= 3 ) std::printf( "object %d disposed %d times\n", p->id, p->disposed ); } } };
int main()
{
    cds::Initialize();
    {
        cds::gc::DHP dhp( 16 );
        cds::threading::Manager::attachThread();
        std::vector<Obj> objs( 300 );
        for ( int i = 0; i < 300; ++i ) { objs[i].id = i; objs[i].disposed = 0; }
        {
            std::vector<std::unique_ptr<cds::gc::DHP::Guard>> guards;
            for ( int i = 0; i < 200; ++i ) { guards.emplace_back( new cds::gc::DHP::Guard ); guards.back()->assign( &objs[i] ); }
            for ( int i = 0; i < 256; ++i ) cds::gc::DHP::retire<disposer>( &objs[i] );   // the 256th push fills the block: a pass runs
            int d1 = 0; for ( int i = 0; i < 300; ++i ) d1 += objs[i].disposed;
            std::printf( "after the pass started by retire: %d disposer calls (expected 56)\n", d1 );
            cds::gc::DHP::scan();
            int d2 = 0; for ( int i = 0; i < 300; ++i ) d2 += objs[i].disposed;
            std::printf( "after one more pass: %d disposer calls (expected 56), objects disposed twice: %d\n", d2, twice );
        }
        cds::threading::Manager::detachThread();
    }
    cds::Terminate();
    return twice ? 1 : 0;
}

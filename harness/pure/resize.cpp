// Tie D for C17: growth / rehash keeps exactly the set of elements, for degenerate hash functions.
// Single-threaded, hence exact: after every operation the container's content (contains() of every key of the
// key space, and size()) is compared with a std::set reference.
// Line: <container> <cfg…> ops <op…> -> <per-op observation> ;  an `X …` token marks the first disagreement.
#include <cstring>
#include <cstdint>
#include <cstdio>
#include <cstdlib>
#include <set>
#include <string>
#include <vector>
#include <csignal>
#include <unistd.h>
#include <new>
#include <sys/resource.h>
#include <sys/wait.h>
#include <cds/init.h>
#include <cds/gc/hp.h>
#include <cds/container/cuckoo_set.h>
#include <cds/container/striped_set/std_list.h>
#include <cds/container/striped_set.h>
#include <cds/container/michael_list_hp.h>
#include <cds/container/split_list_set.h>
#include <cds/container/feldman_hashset_hp.h>

namespace cc = cds::container;

static uint64_t rng_s;
static uint64_t rnd()
{
    uint64_t z = ( rng_s += 0x9E3779B97F4A7C15ull );
    z = ( z ^ ( z >> 30 )) * 0xBF58476D1CE4E5B9ull;
    z = ( z ^ ( z >> 27 )) * 0x94D049BB133111EBull;
    return z ^ ( z >> 31 );
}

// hash families: 0 identity, 1 constant, 2 k % 3, 3 (k / 3) % 3, 4 k % 2, 5 k * 16, 6 k >> 2, 7 (k >> 1) % 2
static int g_h1 = 0, g_h2 = 0;
static size_t hfam( int f, long k )
{
    switch ( f ) {
    case 1: return 7;
    case 2: return size_t( k % 3 );
    case 3: return size_t(( k / 3 ) % 3 );
    case 4: return size_t( k % 2 );
    case 5: return size_t( k * 16 );
    case 6: return size_t( k >> 2 );
    case 7: return size_t(( k >> 1 ) % 2 );
    default: return size_t( k );
    }
}
struct hash1 { size_t operator()( long k ) const { return hfam( g_h1, k ); } };
struct hash2 { size_t operator()( long k ) const { return hfam( g_h2, k ); } };

static std::string g_current;
// layout mode (tie between the Lean model Algo/Cuckoo and CuckooSet, tools/cuckoo_tie.py): after every operation the bucket
// count, size() and the content of every non-empty probe set (in probe-set order) are printed as one `L…` token, the key
// space is part of the configuration, and a case that does not finish reports the operations issued so far
static bool g_layout = false;
static std::string ( *g_dump_layout )( void* set ) = nullptr;
static std::string g_ops_so_far, g_obs_so_far;
// layout mode: a bucket table of more than g_table_limit probe sets is refused (std::bad_alloc), so that "insert() keeps doubling
// its tables" (known finding C17-cuckoo-endless-resize) has an exact, machine-independent meaning the Lean model can share:
// the line ends with `X table-limit` at the first operation that asks for such a table
static size_t g_table_limit = ~size_t( 0 );
template <typename T>
struct limited_alloc: public std::allocator<T>
{
    template <typename U> struct rebind { typedef limited_alloc<U> other; };
    limited_alloc() {}
    template <typename U> limited_alloc( limited_alloc<U> const& ) {}
    T * allocate( size_t n ) { if ( n > g_table_limit ) throw std::bad_alloc(); return std::allocator<T>::allocate( n ); }
    T * allocate( size_t n, void const * ) { return allocate( n ); }
};
static void on_alarm( int )
{
    // a case that does not finish is a result: report it as a hang of this configuration
    if ( g_layout ) std::printf( "%s ops%s ->%s X hang\n", g_current.c_str(), g_ops_so_far.c_str(), g_obs_so_far.c_str());
    else std::printf( "%s -> X hang\n", g_current.c_str());
    std::fflush( stdout );
    _exit( 3 );
}

// how a lost key is classified (cuckoo only): "fullsets" when every probe set the key could live in is completely
// full at the moment the loss is noticed (the recorded known finding: resize() finds no room in either pass),
// "withroom" when one of them still has room (something else lost the key)
static std::string ( *g_classify_loss )( void* set, long key ) = nullptr;

static std::vector<std::string> g_explicit_ops;     // "i<key>" / "e<key>": replay of a kept witness instead of random operations

template <class Set>
static void run_ops( Set& s, char const* name, std::string const& cfg, int keyspace, int nops, bool can_erase )
{
    if ( !g_explicit_ops.empty()) nops = int( g_explicit_ops.size());
    std::set<long> ref;
    std::string ops, obs;
    bool bad = false;
    g_current = std::string( name ) + " " + cfg + " keyspace=" + std::to_string( keyspace );
    alarm( g_layout ? 5 : 10 );
    for ( int i = 0; i < nops && !bad; ++i ) {
        long k = long( rnd() % keyspace );
        bool ins = !can_erase || rnd() % 100 < 70;
        if ( !g_explicit_ops.empty()) { ins = g_explicit_ops[i][0] == 'i'; k = std::atol( g_explicit_ops[i].c_str() + 1 ); }
        ops += ( ins ? " i" : " e" ) + std::to_string( k );
        bool r;
        if ( g_layout ) {
            // endless doubling (known finding C17-cuckoo-endless-resize) ends at g_table_limit
            g_ops_so_far = ops; g_obs_so_far = obs;
            try { r = ins ? s.insert( k ) : s.erase( k ); }
            catch ( std::bad_alloc& ) {
                std::printf( "%s ops%s ->%s X table-limit\n", g_current.c_str(), ops.c_str(), obs.c_str());
                std::fflush( stdout );
                _exit( 0 );     // the set is half resized: no destructor
            }
        }
        else
            r = ins ? s.insert( k ) : s.erase( k );
        bool e = ins ? ref.insert( k ).second : ref.erase( k ) > 0;
        obs += " " + std::to_string( int( r ));
        if ( g_layout && g_dump_layout ) obs += " " + g_dump_layout( &s );
        if ( r != e ) { obs += " X result-differs-at-op-" + std::to_string( i ); bad = true; break; }
        for ( long q = 0; q < keyspace; ++q )
            if ( s.contains( q ) != ( ref.count( q ) > 0 )) {
                std::string how = ref.count( q ) ? "-lost" : "-phantom";
                if ( ref.count( q ) && g_classify_loss ) how += g_classify_loss( &s, q );
                obs += " X key-" + std::to_string( q ) + how + "-after-op-" + std::to_string( i );
                bad = true; break;
            }
        if ( !bad && s.size() != ref.size()) { obs += " X size-" + std::to_string( s.size()) + "-expected-" + std::to_string( ref.size()); bad = true; }
    }
    alarm( 0 );
    if ( g_layout ) std::printf( "%s ops%s ->%s\n", g_current.c_str(), ops.c_str(), obs.c_str());
    else std::printf( "%s %s ops%s ->%s\n", name, cfg.c_str(), ops.c_str(), obs.c_str());
}

static int g_explicit_cfg[6] = { -1, 0, 0, 0, 0, 0 };     // h1 h2 init pset thr keyspace

template <class ProbeSet>
static void cuckoo_case( char const* name )
{
    struct traits : cc::cuckoo::traits {
        typedef std::equal_to<long> equal_to;
        typedef cds::opt::hash_tuple< hash1, hash2 > hash;
        typedef ProbeSet probeset_type;
        typedef cc::cuckoo::striping<> mutex_policy;
        typedef limited_alloc<int> allocator;
    };
    typedef cc::CuckooSet<long, traits> set_t;
    struct probe {
        static std::string classify( void* v, long key )
        {
            typedef typename set_t::base_class base_t;
            base_t& s = (base_t&) *static_cast<set_t*>( v );         // protected base: a C-style cast may reach it
            size_t h[2] = { hash1()( key ), hash2()( key ) };
            for ( unsigned i = 0; i < 2; ++i )
                if ( s.bucket( i, h[i] ).size() < s.m_nProbesetSize ) return "-withroom";
            return "-fullsets";
        }
    };
    struct dumper {
        // L<bucket count>/<size()>/<table 0>/<table 1>; a table is `-` or its non-empty probe sets `<index>:<key>,<key>…` joined by `;`
        static std::string layout( void* v )
        {
            typedef typename set_t::base_class base_t;
            set_t& cs = *static_cast<set_t*>( v );
            base_t& s = (base_t&) cs;
            size_t cap = s.bucket_count();
            std::string out = "L" + std::to_string( cap ) + "/" + std::to_string( s.size());
            for ( unsigned t = 0; t < 2; ++t ) {
                std::string tab;
                for ( size_t b = 0; b < cap; ++b ) {
                    auto& bkt = s.m_BucketTable[t][b];
                    if ( bkt.size() == 0 ) continue;
                    if ( !tab.empty()) tab += ";";
                    tab += std::to_string( b ) + ":";
                    bool first = true;
                    for ( auto it = bkt.begin(), itEnd = bkt.end(); it != itEnd; ++it ) {
                        if ( !first ) tab += ",";
                        first = false;
                        tab += std::to_string( set_t::base_class::node_traits::to_value_ptr( *it )->m_val );
                    }
                }
                out += "/" + ( tab.empty() ? std::string( "-" ) : tab );
            }
            return out;
        }
    };
    g_dump_layout = &dumper::layout;
    g_classify_loss = &probe::classify;
    static int const fams[][2] = { { 2, 3 }, { 0, 5 }, { 4, 6 }, { 1, 0 }, { 2, 4 }, { 0, 0 }, { 4, 7 }, { 4, 7 } };
    int f = int( rnd() % 8 );
    g_h1 = fams[f][0]; g_h2 = fams[f][1];
    // probe-set sizes 2..4, and 5..8 for a third of the cases; threshold anywhere below the probe-set size
    // (0 = default = size - 1), so that configurations with threshold < size - 1 (pass 2 of resize) occur
    size_t init = size_t( 1 + rnd() % 8 ), pset = size_t( rnd() % 3 == 0 ? 5 + rnd() % 4 : 2 + rnd() % 3 ), thr = size_t( rnd() % pset );
    int keyspace = 4 + int( rnd() % 14 );
    if ( g_explicit_cfg[0] >= 0 ) {
        g_h1 = g_explicit_cfg[0]; g_h2 = g_explicit_cfg[1]; init = size_t( g_explicit_cfg[2] ); pset = size_t( g_explicit_cfg[3] );
        thr = size_t( g_explicit_cfg[4] ); keyspace = g_explicit_cfg[5];
    }
    // cuckoo hashing cannot store more keys than the buckets its hash functions can address: with a hash family of
    // bounded range, growing the table never helps and insert() resizes forever (liveness, not the subject of C17).
    // Keep the key space within what always fits: 2 * probe-set size (one bucket per table in the worst case).
    bool bounded = ( g_h1 >= 1 && g_h1 <= 4 ) || ( g_h2 >= 1 && g_h2 <= 4 ) || g_h2 == 7;
    if ( g_explicit_cfg[0] >= 0 ) bounded = false;
    if ( bounded && keyspace > int( pset ) * 2 ) keyspace = int( pset ) * 2;
    if ( g_explicit_cfg[0] >= 0 ) {}
    else if ( g_h1 == 2 && g_h2 == 3 ) keyspace = 6 + int( rnd() % ( 3 * pset ));   // 3 x 3 grid of hash pairs: fits in 6 buckets of pset slots, but only after relocations
    if ( g_explicit_cfg[0] < 0 && g_h1 == 4 && g_h2 == 7 ) keyspace = 4 + int( rnd() % ( 3 * pset ));   // 2 x 2 grid: 4 buckets of pset slots; stay at 3/4 of what fits
    set_t s( init, pset, thr );
    if ( g_layout && s.m_nProbesetThreshold >= s.m_nProbesetSize ) {
        // vector<4> probe sets ignore the size argument: a threshold >= 4 breaks the constructor's precondition
        // (m_nProbesetThreshold < m_nProbesetSize, an assert) and overruns the probe-set array: not a case of the tie
        std::printf( "%s h=%d,%d init=%zu pset=%zu thr=%zu keyspace=%d ops -> skip threshold-not-below-probeset-size\n", name, g_h1, g_h2, init, pset, thr, keyspace );
        g_classify_loss = nullptr; g_dump_layout = nullptr;
        return;
    }
    std::string cfg = "h=" + std::to_string( g_h1 ) + "," + std::to_string( g_h2 ) + " init=" + std::to_string( init ) + " pset=" + std::to_string( pset ) + " thr=" + std::to_string( thr );
    run_ops( s, name, cfg, keyspace, 40 + int( rnd() % 60 ), true );
    g_classify_loss = nullptr;
    g_dump_layout = nullptr;
}

static void striped_case()
{
    typedef cc::StripedSet< std::list<long>, cds::opt::hash<hash1>, cds::opt::less<std::less<long>>,
        cds::opt::resizing_policy< cc::striped_set::load_factor_resizing<0> > > set_t;
    static int const fams[] = { 0, 1, 2, 4, 5, 6 };
    g_h1 = fams[rnd() % 6];
    size_t cap = size_t( 1 + rnd() % 8 ), lf = size_t( 1 + rnd() % 3 );
    set_t s( cap, cc::striped_set::load_factor_resizing<0>( lf ));
    run_ops( s, "striped", "h=" + std::to_string( g_h1 ) + " cap=" + std::to_string( cap ) + " lf=" + std::to_string( lf ), 8 + int( rnd() % 40 ), 60 + int( rnd() % 100 ), true );
}

static void splitlist_case()
{
    struct traits : cc::split_list::traits {
        typedef cc::michael_list_tag ordered_list;
        typedef hash1 hash;
        struct ordered_list_traits : cc::michael_list::traits { typedef std::less<long> less; };
    };
    typedef cc::SplitListSet< cds::gc::HP, long, traits > set_t;
    static int const fams[] = { 0, 1, 2, 4, 5, 6 };
    g_h1 = fams[rnd() % 6];
    size_t items = size_t( 2 << ( rnd() % 5 )), lf = size_t( 1 + rnd() % 2 );
    set_t s( items, lf );
    run_ops( s, "splitlist", "h=" + std::to_string( g_h1 ) + " items=" + std::to_string( items ) + " lf=" + std::to_string( lf ), 8 + int( rnd() % 60 ), 60 + int( rnd() % 120 ), true );
}

int main( int argc, char** argv )
{
    // `resize explicit <cuckoo_list|cuckoo_vector> <h1> <h2> <init> <pset> <thr> <keyspace> <i<k>|e<k>>...`: replay one kept case
    // `resize layout <seed> <n> [first]` / `resize layout explicit …`: the cuckoo cases only, with the probe-set layout after every
    // operation (see g_layout); every case runs in a child process, so that a hang or an endless resize ends that case only
    if ( argc > 1 && std::string( argv[1] ) == "layout" ) { g_layout = true; g_table_limit = 65536; --argc; ++argv; }
    bool explicit_case = argc > 9 && std::string( argv[1] ) == "explicit";
    uint64_t seed = argc > 1 && !explicit_case ? strtoull( argv[1], nullptr, 10 ) : 1;
    size_t n = argc > 2 ? strtoull( argv[2], nullptr, 10 ) : 200;
    size_t first = argc > 3 ? strtoull( argv[3], nullptr, 10 ) : 0;      // resume after a case that hung
    std::signal( SIGALRM, on_alarm );
    cds::Initialize();
    {
        cds::gc::HP hp;
        cds::threading::Manager::attachThread();
        if ( explicit_case ) {
            for ( int i = 0; i < 6; ++i ) g_explicit_cfg[i] = std::atoi( argv[3 + i] );
            for ( int i = 9; i < argc; ++i ) g_explicit_ops.push_back( argv[i] );
            rng_s = 1;
            if ( std::string( argv[2] ) == "cuckoo_vector" ) cuckoo_case< cc::cuckoo::vector<4> >( "cuckoo_vector" );
            else cuckoo_case< cc::cuckoo::list >( "cuckoo_list" );
            n = 0;
        }
        for ( size_t i = first; g_layout && i < n; ++i ) {
            std::printf( "# case %zu\n", i );
            for ( int kind = 0; kind < 2; ++kind ) {
                std::fflush( stdout );
                pid_t pid = fork();
                if ( pid == 0 ) {
                    struct rlimit rl = { size_t( 768 ) << 20, size_t( 768 ) << 20 };
                    setrlimit( RLIMIT_AS, &rl );
                    rng_s = (( seed * 0x2545F4914F6CDD1Dull + 13 ) ^ ( i * 0x9E3779B97F4A7C15ull )) + uint64_t( kind ) * 0x632BE59BD9B4E019ull;
                    if ( kind == 0 ) cuckoo_case< cc::cuckoo::list >( "cuckoo_list" );
                    else cuckoo_case< cc::cuckoo::vector<4> >( "cuckoo_vector" );
                    std::fflush( stdout );
                    _exit( 0 );
                }
                int status = 0;
                if ( pid > 0 ) waitpid( pid, &status, 0 );
            }
        }
        for ( size_t i = first; !g_layout && i < n; ++i ) {
            rng_s = ( seed * 0x2545F4914F6CDD1Dull + 13 ) ^ ( i * 0x9E3779B97F4A7C15ull );     // every case is reproducible on its own
            std::printf( "# case %zu\n", i );
            cuckoo_case< cc::cuckoo::list >( "cuckoo_list" );
            cuckoo_case< cc::cuckoo::vector<4> >( "cuckoo_vector" );
            striped_case();
            splitlist_case();
        }
        cds::threading::Manager::detachThread();
    }
    cds::Terminate();
    return 0;
}

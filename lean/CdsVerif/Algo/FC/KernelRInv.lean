/-
  The inductive invariant of the refined flat-combining kernel machine (`FC/KernelR.lean`, the machine that replays the
  real traces) and its preservation by every transition.  Property theorems: `Props/C23KernelR.lean`.
  (File generated once by a script, one lemma per program counter; it is ordinary Lean.)

  Clauses (record id = id of the owning thread; `list` = the publication list after the head, in order):
   * `hold`, `lockFree`      : every thread between a successful try_lock and its unlock is `holder`; none when the lock is free.
   * `noReq`, `someReq`      : nRequest is empty exactly outside [store of the request, release_record].
   * `respExec`, `opExec`, `atDone`, `atApply`, `le1`, `fin`
                             : ghost counter `execs`: 0 while pending and nobody is between fc_apply and the store of
                               req_Response for it, 1 from fc_apply on, never 2; 1 when the operation has finished.
   * `rel`, `wtUnl`          : release_record is reached only with req_Response.
   * `nodup`                 : the list has no duplicates.
   * `notIn`, `inact`, `preInact`, `linkAct`
                             : a record whose owner is inside publish() is not in the list; an inactive record is not in the
                               list; publish() runs on an inactive record until it stores `active`.
   * `unlinked`, `inactOut`, `ccAct`
                             : an ACTIVE record outside the list is being linked by its owner, or the combiner has just
                               unlinked it and is about to store `inactive` (and then its owner is not inside publish()).
   * `cmb`, `curIn`, `curInN`, `pass`, `passN`, `post`
                             : the combiner's own pending request: during the first pass its record is active, in the list and
                               NOT BEHIND the walk's position (`aheadIncl` / `aheadStrict`), hence it is visited; the
                               walk's position is a record of the list; after the passes the request is answered.
-/
import CdsVerif.Algo.FC.KernelR
namespace CdsVerif.Algo.FC.KernelR
open CdsVerif.Machine CdsVerif.Spec
open CdsVerif.Algo.FC.Kernel (Cfg RV RS Cont CS)

/-! ### Classification of program counters -/

/-- Between a successful `try_lock` and the matching `unlock`. -/
def holds : PC → Bool
  | .pubCnt .lock => true
  | .pubAge .lock _ => true
  | .pubAct .lock => true
  | .pubHd .lock => true
  | .pubNx .lock _ => true
  | .pubCas .lock _ => true
  | .lkRepub => true
  | .cmbCnt => true
  | .cpState _ _ => true
  | .cpReq _ _ => true
  | .cpAge _ _ => true
  | .cpExec _ _ => true
  | .cpDone _ _ => true
  | .cpNext _ _ => true
  | .ccHd _ => true
  | .ccState _ _ _ => true
  | .ccAge _ _ _ => true
  | .ccNx _ _ _ => true
  | .ccCas _ _ _ _ => true
  | .ccInact _ _ _ _ => true
  | .ccAdv _ _ => true
  | .c2Hd => true
  | .c2State _ => true
  | .c2Nx _ => true
  | .unlock => true
  | .wtReq2 => true
  | .wtUnlock => true
  | _ => false

/-- The request is stored in the record and `release_record` has not cleared it yet. -/
def hasReq : PC → Bool
  | .idle => false
  | .acqLd => false
  | .pubCnt .acq => false
  | .pubAge .acq _ => false
  | .pubAct .acq => false
  | .pubHd .acq => false
  | .pubNx .acq _ => false
  | .pubCas .acq _ => false
  | .reqSt => false
  | .done => false
  | _ => true

/-- Inside `publish()`. -/
def inPub : PC → Bool
  | .pubCnt _ => true
  | .pubAge _ _ => true
  | .pubAct _ => true
  | .pubHd _ => true
  | .pubNx _ _ => true
  | .pubCas _ _ => true
  | _ => false

/-- Inside `publish()`, before the store of `active`. -/
def prePub : PC → Bool
  | .pubCnt _ => true
  | .pubAge _ _ => true
  | .pubAct _ => true
  | _ => false

/-- Inside `publish()`, after the store of `active`. -/
def isLink : PC → Bool
  | .pubHd _ => true
  | .pubNx _ _ => true
  | .pubCas _ _ => true
  | _ => false

/-- Inside `combining_pass`, at position `p`, which is still to be treated. -/
def cpIdx : PC → Option (CS × Cur)
  | .cpState c p => some (c, p)
  | .cpReq c k => some (c, some k)
  | .cpAge c k => some (c, some k)
  | .cpExec c k => some (c, some k)
  | .cpDone c k => some (c, some k)
  | _ => none

/-- Inside `combining_pass`, about to leave position `p`. -/
def cpNextIdx : PC → Option (CS × Cur)
  | .cpNext c p => some (c, p)
  | _ => none

def doneIdx : PC → Option Nat
  | .cpDone _ k => some k
  | _ => none

/-- About to run / running `fc_apply` on record `k`. -/
def applyIdx : PC → Option Nat
  | .cpAge _ k => some k
  | .cpExec _ k => some k
  | _ => none

def inactIdx : PC → Option Nat
  | .ccInact _ _ k _ => some k
  | _ => none

/-- `compact_list` has read `active` from record `k` and has not unlinked it yet. -/
def ccIdx : PC → Option Nat
  | .ccAge _ _ k => some k
  | .ccNx _ _ k => some k
  | .ccCas _ _ k _ => some k
  | _ => none

/-- The combining passes are over. -/
def postPass : PC → Bool
  | .ccHd _ => true
  | .ccState _ _ _ => true
  | .ccAge _ _ _ => true
  | .ccNx _ _ _ => true
  | .ccCas _ _ _ _ => true
  | .ccInact _ _ _ _ => true
  | .ccAdv _ _ => true
  | .c2Hd => true
  | .c2State _ => true
  | .c2Nx _ => true
  | .unlock => true
  | _ => false

/-- Record `t` is at position `p` or further down the list. -/
def aheadIncl (l : List Nat) (p : Cur) (t : Nat) : Prop :=
  match p with
  | none => t ∈ l
  | some k => t = k ∨ t ∈ after l k

/-- Record `t` is strictly further down the list than position `p`. -/
def aheadStrict (l : List Nat) (p : Cur) (t : Nat) : Prop :=
  match p with
  | none => t ∈ l
  | some k => t ∈ after l k

/-! ### The list -/

theorem mem_after {l : List Nat} {k x : Nat} : x ∈ after l k → x ∈ l := by
  induction l with
  | nil => simp [after]
  | cons y l ih =>
    simp only [after]
    split
    · intro h; exact List.mem_cons_of_mem _ h
    · intro h; exact List.mem_cons_of_mem _ (ih h)

theorem head?_mem {l : List Nat} {k : Nat} (h : l.head? = some k) : k ∈ l := by
  cases l with
  | nil => simp at h
  | cons x l => simp at h; simp [h]

theorem succOf_mem {l : List Nat} {p : Cur} {k : Nat} (h : succOf l p = some k) : k ∈ l := by
  cases p with
  | none => exact head?_mem h
  | some j => exact mem_after (head?_mem h)

theorem after_cons_ne (r : Nat) (l : List Nat) (k : Nat) (h : r ≠ k) : after (r :: l) k = after l k := by
  simp [after, h]

theorem after_of_head {l : List Nat} {k : Nat} (h : l.head? = some k) : after l k = l.tail := by
  cases l with
  | nil => simp at h
  | cons x l => simp at h; simp [after, h]

theorem after_step {l : List Nat} {k k' : Nat} (hn : l.Nodup) (h : (after l k).head? = some k') :
    after l k' = (after l k).tail := by
  induction l with
  | nil => simp [after] at h
  | cons x l ih =>
    have hn' := (List.nodup_cons.mp hn)
    simp only [after] at h ⊢
    by_cases hx : x = k
    · simp only [hx, if_true] at h ⊢
      have hk' : k' ∈ l := head?_mem h
      have : k ≠ k' := fun e => hn'.1 (hx ▸ e ▸ hk')
      simp only [this, if_false]
      exact after_of_head h
    · simp only [hx, if_false] at h ⊢
      have hk' : k' ∈ l := mem_after (head?_mem h)
      have : x ≠ k' := fun e => hn'.1 (e ▸ hk')
      simp only [this, if_false]
      exact ih hn'.2 h

/-- Moving the walk from `p` to its successor `k'` keeps `t` ahead (inclusive). -/
theorem ahead_step {l : List Nat} {p : Cur} {k' t : Nat} (hn : l.Nodup) (h : succOf l p = some k')
    (ha : aheadStrict l p t) : aheadIncl l (some k') t := by
  cases p with
  | none =>
    simp only [succOf] at h
    simp only [aheadStrict] at ha
    simp only [aheadIncl, after_of_head h]
    cases l with
    | nil => simp at h
    | cons x l => simp at h; subst h; simpa using ha
  | some k =>
    simp only [succOf] at h
    simp only [aheadStrict] at ha
    simp only [aheadIncl, after_step hn h]
    cases hl : after l k with
    | nil => simp [hl] at h
    | cons x m => simp [hl] at h ha ⊢; subst h; exact ha

/-- At the end of the list nothing is ahead. -/
theorem ahead_end {l : List Nat} {p : Cur} {t : Nat} (h : succOf l p = none) (ha : aheadStrict l p t) : False := by
  cases p with
  | none => simp only [succOf, List.head?_eq_none_iff] at h; simp [aheadStrict, h] at ha
  | some k => simp only [succOf, List.head?_eq_none_iff] at h; simp [aheadStrict, h] at ha

theorem ahead_cons {l : List Nat} {p : Cur} {r t : Nat} (hr : r ∉ l) (hp : ∀ k, p = some k → k ∈ l) :
    (aheadIncl l p t → aheadIncl (r :: l) p t) ∧ (aheadStrict l p t → aheadStrict (r :: l) p t) := by
  cases p with
  | none => simp only [aheadIncl, aheadStrict]; exact ⟨fun h => List.mem_cons_of_mem _ h, fun h => List.mem_cons_of_mem _ h⟩
  | some k =>
    have hk : r ≠ k := fun e => hr (e ▸ hp k rfl)
    simp only [aheadIncl, aheadStrict, after_cons_ne r l k hk]
    exact ⟨id, id⟩

/-! ### The invariant -/

structure KInvR (cfg : Cfg) (s : St) : Prop where
  bound : ∀ t, s.pc t ≠ .idle → t < cfg.N
  lockFree : s.lock = false → ∀ t, holds (s.pc t) = false
  hold : ∀ t, holds (s.pc t) = true → t = s.holder
  noReq : ∀ t, hasReq (s.pc t) = false → s.req t = .empty
  someReq : ∀ t, hasReq (s.pc t) = true → s.req t = .op ∨ s.req t = .resp
  respExec : ∀ k, s.req k = .resp → s.execs k = 1
  opExec : ∀ k, s.req k = .op → doneIdx (s.pc s.holder) ≠ some k → s.execs k = 0
  atDone : ∀ t k, doneIdx (s.pc t) = some k → s.req k = .op ∧ s.execs k = 1
  atApply : ∀ t k, applyIdx (s.pc t) = some k → s.req k = .op
  rel : ∀ t, s.pc t = .relSt → s.req t = .resp
  wtUnl : ∀ t, s.pc t = .wtUnlock → s.req t = .resp
  fin : ∀ t, s.pc t = .done → s.execs t = 1
  le1 : ∀ k, s.execs k ≤ 1
  nodup : s.list.Nodup
  notIn : ∀ r, inPub (s.pc r) = true → r ∉ s.list
  inact : ∀ r, s.state r ≠ .active → r ∉ s.list
  preInact : ∀ r, prePub (s.pc r) = true → s.state r ≠ .active
  linkAct : ∀ r, isLink (s.pc r) = true → s.state r = .active
  unlinked : ∀ r, s.state r = .active → r ∉ s.list → isLink (s.pc r) = true ∨ inactIdx (s.pc s.holder) = some r
  inactOut : ∀ t k, inactIdx (s.pc t) = some k → k ∉ s.list ∧ s.state k = .active ∧ inPub (s.pc k) = false
  ccAct : ∀ t k, ccIdx (s.pc t) = some k → s.state k = .active
  cmb : ∀ t, s.pc t = .cmbCnt → s.req t = .resp ∨ (t ∈ s.list ∧ s.state t = .active)
  curIn : ∀ t c k, cpIdx (s.pc t) = some (c, some k) → k ∈ s.list
  curInN : ∀ t c k, cpNextIdx (s.pc t) = some (c, some k) → k ∈ s.list
  pass : ∀ t c p, cpIdx (s.pc t) = some (c, p) →
    s.req t = .resp ∨ (c.pass = 0 ∧ aheadIncl s.list p t ∧ s.state t = .active)
  passN : ∀ t c p, cpNextIdx (s.pc t) = some (c, p) →
    s.req t = .resp ∨ (c.pass = 0 ∧ aheadStrict s.list p t ∧ s.state t = .active)
  post : ∀ t, postPass (s.pc t) = true → s.req t = .resp

theorem kinvr_init (cfg : Cfg) : KInvR cfg (init cfg) := by
  constructor <;> intros <;>
    simp_all [init, allocList, holds, hasReq, cpIdx, cpNextIdx, postPass, inPub, prePub, isLink, doneIdx, applyIdx,
      inactIdx, ccIdx]
  case nodup =>
    unfold List.Nodup; rw [List.pairwise_reverse]; exact (List.nodup_range (n := cfg.N)).imp (fun h => Ne.symm h)

theorem passEnd_cases (cfg : Cfg) (c : CS) :
    (∃ c', passEnd cfg c = .cpState c' none ∧ c'.pass = c.pass + 1) ∨ passEnd cfg c = .ccHd c.age ∨
      passEnd cfg c = .unlock := by
  by_cases h1 : ((c.done = true ∨ (if c.done then c.emp else c.emp + 1) ≤ (if c.done then c.use + 1 else c.use)) ∧
      c.pass + 1 < cfg.P)
  · refine Or.inl ⟨⟨c.age, c.pass + 1, if c.done then c.emp else c.emp + 1,
      if c.done then c.use + 1 else c.use, false⟩, ?_, rfl⟩
    show (if _ then _ else _) = _
    rw [if_pos h1]
  · by_cases h2 : c.age &&& cfg.cf = 0
    · refine Or.inr (Or.inl ?_)
      show (if _ then _ else _) = _
      rw [if_neg h1, if_pos h2]
    · refine Or.inr (Or.inr ?_)
      show (if _ then _ else _) = _
      rw [if_neg h1, if_neg h2]

theorem doneIdx_of_not_holds (p : PC) : holds p = false → doneIdx p = none := by
  cases p <;> simp [holds, doneIdx]
theorem applyIdx_of_not_holds (p : PC) : holds p = false → applyIdx p = none := by
  cases p <;> simp [holds, applyIdx]
theorem inactIdx_of_not_holds (p : PC) : holds p = false → inactIdx p = none := by
  cases p <;> simp [holds, inactIdx]
theorem ccIdx_of_not_holds (p : PC) : holds p = false → ccIdx p = none := by
  cases p <;> simp [holds, ccIdx]
theorem cpIdx_of_not_holds (p : PC) : holds p = false → cpIdx p = none := by
  cases p <;> simp [holds, cpIdx]
theorem cpNextIdx_of_not_holds (p : PC) : holds p = false → cpNextIdx p = none := by
  cases p <;> simp [holds, cpNextIdx]
theorem postPass_of_not_holds (p : PC) : holds p = false → postPass p = false := by
  cases p <;> simp [holds, postPass]
theorem isLink_inPub (p : PC) : isLink p = true → inPub p = true := by
  cases p <;> simp [isLink, inPub]
theorem prePub_inPub (p : PC) : prePub p = true → inPub p = true := by
  cases p <;> simp [prePub, inPub]
grind_pattern isLink_inPub => isLink p
grind_pattern prePub_inPub => prePub p
grind_pattern doneIdx_of_not_holds => doneIdx p
grind_pattern applyIdx_of_not_holds => applyIdx p
grind_pattern inactIdx_of_not_holds => inactIdx p
grind_pattern ccIdx_of_not_holds => ccIdx p
grind_pattern cpIdx_of_not_holds => cpIdx p
grind_pattern cpNextIdx_of_not_holds => cpNextIdx p
grind_pattern postPass_of_not_holds => postPass p

macro "kinv_close" : tactic =>
  `(tactic| (constructor <;> intros <;> (try dsimp only at *) <;>
      grind [upd, holds, hasReq, cpIdx, cpNextIdx, postPass, afterPublish, doneIdx, applyIdx, inactIdx, ccIdx, isLink, inPub,
        prePub, aheadIncl, aheadStrict, ccGo, c2Go]))

end CdsVerif.Algo.FC.KernelR

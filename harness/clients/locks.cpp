// C22: spin locks and node monitors.  History judged against Spec.lockSpec (mutual exclusion =
// linearizability to a lock whose `lock` is enabled only when free); the plain spin lock is also
// replayed step by step against the Lean machine Algo/Spin (tie A).
#include <cds/init.h>
#include <cds/sync/spinlock.h>
#include <cds/sync/pool_monitor.h>
#include <cds/sync/injecting_monitor.h>
#include <cds/sync/lock_array.h>
#include <cds/memory/vyukov_queue_pool.h>
#include <map>
#include <memory>
#include <set>
#include "../client.h"

using namespace khizmax_libcds_verif;

static const int MAXL = 4;

struct ILocks {
    virtual ~ILocks() {}
    virtual void lock( int l ) = 0;
    virtual bool try_lock( int l ) = 0;
    virtual void unlock( int l ) = 0;
    virtual void lock_all() {}
    virtual void unlock_all() {}
    virtual std::string check() { return ""; }      // called right after an acquisition, while holding
};

struct SpinLocks : ILocks {
    cds::sync::spin lk[MAXL];
    SpinLocks()
    {
        for ( int i = 0; i < MAXL; ++i ) {
            char nm[32]; std::snprintf( nm, sizeof nm, "L%d.spin", i );
            reg_name( &lk[i].m_spin, sizeof( lk[i].m_spin ), nm );
        }
    }
    void lock( int l ) override { lk[l].lock(); }
    bool try_lock( int l ) override { return lk[l].try_lock(); }
    void unlock( int l ) override { lk[l].unlock(); }
};

struct ReentrantLocks : ILocks {
    cds::sync::reentrant_spin lk[MAXL];
    ReentrantLocks()
    {
        for ( int i = 0; i < MAXL; ++i ) {
            char nm[32];
            std::snprintf( nm, sizeof nm, "L%d.spin", i ); reg_name( &lk[i].m_spin, sizeof( lk[i].m_spin ), nm );
            std::snprintf( nm, sizeof nm, "L%d.owner", i ); reg_name( &lk[i].m_OwnerId, sizeof( lk[i].m_OwnerId ), nm );
        }
    }
    void lock( int l ) override { lk[l].lock(); }
    bool try_lock( int l ) override { return lk[l].try_lock(); }
    void unlock( int l ) override { lk[l].unlock(); }
};

// pool that checks the two pool_monitor clauses: a lock is returned only when nobody holds it, and is never
// handed to two nodes at once.
// Named mode (hidden variant pool_monitor_named, trace tie of the Lean machine Algo/PoolMonitor/Replay): the pool is a
// component outside the machine's vocabulary, so each call into it is ONE pseudo-event that tells which lock the pool chose:
//     T <tid> A alloc pool P<k>      allocate() handed out lock k       (inside the spin-bit section of pool_monitor::lock)
//     T <tid> A free pool P<k>       deallocate() took lock k back      (after the last store of pool_monitor::unlock)
// k = index of the lock object inside the pool's preallocated block; heap locks (pool empty) are numbered cap, cap+1, … in
// allocation order.  The pool's own atomic operations, the placement-new constructor of the lock and the is_locked() probe
// below run quietly.  A heap lock is parked instead of deleted, so that its address (= its name) is never reused in a case.
struct checked_pool {
    typedef cds::sync::spin value_type;
    cds::memory::vyukov_queue_pool<value_type> pool;
    std::set<value_type*> out;
    static std::string* problem;
    static bool named;
    size_t heap_count = 0;
    std::map<value_type*, size_t> heap_id;
    std::vector<value_type*> parked;
    explicit checked_pool( size_t n ) : pool( n ) {}
    ~checked_pool() { for ( value_type* p : parked ) pool.deallocate( p, 1 ); }
    size_t prealloc() const { return size_t( pool.m_pLast - pool.m_pFirst ); }
    static std::string lock_name( size_t k ) { return "P" + std::to_string( k ); }
    size_t id_of( value_type* p ) const
    {
        if ( pool.m_pFirst <= p && p < pool.m_pLast ) return size_t( p - pool.m_pFirst );
        auto it = heap_id.find( p );
        return it == heap_id.end() ? size_t( -1 ) : it->second;
    }
    value_type* allocate( size_t n )
    {
        if ( !named ) {
            value_type* p = pool.allocate( n );
            if ( !out.insert( p ).second && problem->empty()) *problem = "pool-lock-handed-out-twice";
            return p;
        }
        pseudo_begin();
        set_quiet( true );
        value_type* p = pool.allocate( n );
        if ( !out.insert( p ).second && problem->empty()) *problem = "pool-lock-handed-out-twice";
        if ( !( pool.m_pFirst <= p && p < pool.m_pLast )) {
            size_t k = prealloc() + heap_count++;
            heap_id[p] = k;
            reg_name( &p->m_spin, sizeof( p->m_spin ), lock_name( k ) + ".spin" );
        }
        set_quiet( false );
        pseudo_end( "alloc", "pool", lock_name( id_of( p )));
        return p;
    }
    void deallocate( value_type* p, size_t n )
    {
        if ( !named ) {
            if ( p->is_locked() && problem->empty()) *problem = "pool-lock-returned-while-held";
            out.erase( p );
            pool.deallocate( p, n );
            return;
        }
        pseudo_begin();
        set_quiet( true );
        if ( p->is_locked() && problem->empty()) *problem = "pool-lock-returned-while-held";
        out.erase( p );
        if ( pool.m_pFirst <= p && p < pool.m_pLast ) pool.deallocate( p, n );
        else parked.push_back( p );
        set_quiet( false );
        pseudo_end( "free", "pool", lock_name( id_of( p )));
    }
};
std::string* checked_pool::problem = nullptr;
bool checked_pool::named = false;

struct PoolMonitorLocks : ILocks {
    typedef cds::sync::pool_monitor<checked_pool> monitor_t;
    struct node { monitor_t::node_injection m_SyncMonitorInjection; };
    std::string problem;
    std::unique_ptr<monitor_t> mon;
    node nodes[MAXL];
    explicit PoolMonitorLocks( size_t cap, bool named = false )
    {
        checked_pool::problem = &problem;
        checked_pool::named = named;
        mon.reset( new monitor_t( cap ));
        for ( int i = 0; i < MAXL; ++i ) {
            char nm[32]; std::snprintf( nm, sizeof nm, "N%d.refspin", i );
            reg_name( &nodes[i].m_SyncMonitorInjection.m_RefSpin, 4, nm );
        }
        if ( named ) {
            checked_pool& cp = mon->m_Pool;
            for ( size_t k = 0; k < cp.prealloc(); ++k )
                reg_name( &cp.pool.m_pFirst[k].m_spin, sizeof( cp.pool.m_pFirst[k].m_spin ), checked_pool::lock_name( k ) + ".spin" );
        }
    }
    ~PoolMonitorLocks() { mon.reset(); checked_pool::named = false; }
    size_t prealloc() const { return mon->m_Pool.prealloc(); }
    void lock( int l ) override { mon->lock( nodes[l] ); }
    bool try_lock( int ) override { return false; }
    void unlock( int l ) override
    {
        // a waiter of this node must keep the lock attached: refcount > 0 is checked by deallocate through is_locked
        mon->unlock( nodes[l] );
    }
    std::string check() override
    {
        // no pool lock is attached to two nodes at once
        for ( int i = 0; i < MAXL; ++i )
            for ( int j = i + 1; j < MAXL; ++j ) {
                auto* a = nodes[i].m_SyncMonitorInjection.m_pLock;
                auto* b = nodes[j].m_SyncMonitorInjection.m_pLock;
                if ( a && a == b ) return "pool-lock-attached-to-two-nodes";
            }
        return problem;
    }
};

struct InjectingLocks : ILocks {
    typedef cds::sync::injecting_monitor<cds::sync::spin> monitor_t;
    struct node { monitor_t::node_injection m_SyncMonitorInjection; };
    monitor_t mon;
    node nodes[MAXL];
    InjectingLocks()
    {
        // node n's monitor is the spin lock injected into node n: the Lean machine Algo/Spin with lock index = node index
        for ( int i = 0; i < MAXL; ++i ) {
            char nm[32]; std::snprintf( nm, sizeof nm, "L%d.spin", i );
            reg_name( &nodes[i].m_SyncMonitorInjection.m_Lock.m_spin, sizeof( nodes[i].m_SyncMonitorInjection.m_Lock.m_spin ), nm );
        }
    }
    void lock( int l ) override { mon.lock( nodes[l] ); }
    bool try_lock( int ) override { return false; }
    void unlock( int l ) override { mon.unlock( nodes[l] ); }
};

struct ident_policy { size_t operator()( size_t h, size_t n ) const { return h % n; } };
struct ArrayLocks : ILocks {
    typedef cds::sync::lock_array<cds::sync::spin, cds::sync::trivial_select_policy> arr_t;
    arr_t arr;
    explicit ArrayLocks( size_t n ) : arr( n )
    {
        // cell i of the array: the Lean machine Algo/LockArray
        for ( size_t i = 0; i < n; ++i ) {
            char nm[32]; std::snprintf( nm, sizeof nm, "L%d.spin", int( i ));
            reg_name( &arr.m_arrLocks[i].m_spin, sizeof( arr.m_arrLocks[i].m_spin ), nm );
        }
    }
    void lock( int l ) override { arr.lock( size_t( l )); }
    bool try_lock( int l ) override { return arr.try_lock( size_t( l )) != arr_t::c_nUnspecifiedCell; }
    void unlock( int l ) override { arr.unlock( size_t( l )); }
    void lock_all() override { arr.lock_all(); }
    void unlock_all() override { arr.unlock_all(); }
};

struct Fixture {
    static char const* family() { return "locks"; }
    static std::vector<std::string> variants() { return { "spin", "reentrant", "pool_monitor", "injecting", "lock_array" }; }
    std::unique_ptr<ILocks> L;
    std::string variant;
    int nlocks;
    bool failed = false;
    std::string failure;
    int occupancy[MAXL];            // oracle: threads inside the critical section of lock l (distinct owners)
    int owner[MAXL];
    int depth[MAXL];
    int held[16][MAXL];             // client-side bookkeeping for unlock_if

    explicit Fixture( Case const& c ) : variant( c.variant )
    {
        nlocks = 1 + int( c.index % 3 );
        for ( int i = 0; i < MAXL; ++i ) { occupancy[i] = 0; owner[i] = -1; depth[i] = 0; }
        std::memset( held, 0, sizeof held );
        if ( variant == "spin" ) L.reset( new SpinLocks );
        else if ( variant == "reentrant" ) L.reset( new ReentrantLocks );
        else if ( variant == "pool_monitor" ) L.reset( new PoolMonitorLocks( 2 + c.index % 3 ));
        // hidden variant (not in variants()): pool of `--cap` (default 2) preallocated locks, so that with 3 nodes the pool
        // runs empty (heap fallback) and locks are reused; pool words named, pool calls reported as pseudo-events
        else if ( variant == "pool_monitor_named" ) L.reset( new PoolMonitorLocks( size_t( c.optl( "cap", 2 )), true ));
        else if ( variant == "injecting" ) L.reset( new InjectingLocks );
        else if ( variant == "lock_array" ) L.reset( new ArrayLocks( size_t( nlocks )));
        else { std::fprintf( stderr, "unknown variant %s\n", variant.c_str()); std::exit( 2 ); }
    }
    std::string spec() const
    {
        return std::string( variant == "reentrant" ? "rlock " : "lock " ) + std::to_string( nlocks );
    }
    // configuration the Lean machines need: number of preallocated pool locks / number of cells
    std::string header_extra() const
    {
        if ( variant == "pool_monitor_named" ) return "cap=" + std::to_string( static_cast<PoolMonitorLocks*>( L.get())->prealloc());
        if ( variant == "lock_array" ) return "size=" + std::to_string( nlocks );
        return std::string();
    }

    // programs obey the locking discipline: unlock only what the thread holds; no blocking lock on a lock the
    // thread already holds unless the lock is re-entrant; locks are taken in increasing order (no deadlock by design)
    std::vector<std::vector<Op>> program( Rng& r, int nthreads, int nops )
    {
        bool use_all = variant == "lock_array" && r.chance( 50 );      // lock_all is not atomic: such programs do not use try_lock
        bool has_try = variant == "spin" || variant == "reentrant" || ( variant == "lock_array" && !use_all );
        bool reent = variant == "reentrant";
        std::vector<std::vector<Op>> p( nthreads );
        for ( int t = 0; t < nthreads; ++t ) {
            int budget = 2 + int( r.below( nops ));
            std::vector<int> stack;           // locks held (by blocking lock), increasing
            std::vector<int> tried;           // locks try-locked (result unknown): released by unlock_if
            while ( budget > 0 ) {
                unsigned k = unsigned( r.below( 100 ));
                int top = stack.empty() ? -1 : stack.back();
                if ( use_all && stack.empty() && tried.empty() && k < 25 ) {
                    p[t].push_back( Op( "lock_all", t )); p[t].push_back( Op( "unlock_all", t )); budget -= 2; continue;
                }
                if ( k < 45 && top + 1 < nlocks && tried.empty()) {
                    int l = top + 1 + int( r.below( nlocks - top - 1 ));
                    p[t].push_back( Op( "lock", t, l )); stack.push_back( l ); --budget;
                    if ( reent && r.chance( 40 )) { p[t].push_back( Op( "lock", t, l )); stack.push_back( l ); --budget; }
                }
                else if ( k < 65 && has_try ) {
                    int l = int( r.below( nlocks ));
                    bool mine = false;
                    for ( int x : stack ) if ( x == l ) mine = true;
                    for ( int x : tried ) if ( x == l ) mine = true;
                    if ( mine && !reent ) continue;
                    p[t].push_back( Op( "try_lock", t, l )); tried.push_back( l ); --budget;
                }
                else if ( !tried.empty()) { p[t].push_back( Op( "unlock_if", t, tried.back())); tried.pop_back(); --budget; }
                else if ( !stack.empty()) { p[t].push_back( Op( "unlock", t, stack.back())); stack.pop_back(); --budget; }
                else --budget;
            }
            while ( !tried.empty()) { p[t].push_back( Op( "unlock_if", t, tried.back())); tried.pop_back(); }
            while ( !stack.empty()) { p[t].push_back( Op( "unlock", t, stack.back())); stack.pop_back(); }
        }
        return p;
    }
    void thread_begin( int tid )
    {
        if ( variant == "reentrant" ) {
            char nm[16]; std::snprintf( nm, sizeof nm, "T%d", tid );
            reg_alias( uint64_t( cds::OS::get_current_thread_id()), nm );
        }
    }
    void thread_end( int ) {}

    void enter( int t, int l )
    {
        if ( owner[l] != -1 && owner[l] != t ) { failed = true; if ( failure.empty()) failure = "mutual-exclusion lock=" + std::to_string( l ); }
        if ( owner[l] == t && variant != "reentrant" ) { failed = true; if ( failure.empty()) failure = "double-acquire lock=" + std::to_string( l ); }
        owner[l] = t; ++depth[l]; ++held[t][l];
        std::string c = L->check();
        if ( !c.empty()) { failed = true; if ( failure.empty()) failure = c; }
    }
    void leave( int t, int l )
    {
        if ( owner[l] != t ) { failed = true; if ( failure.empty()) failure = "unlock-by-non-owner lock=" + std::to_string( l ); }
        if ( --depth[l] == 0 ) owner[l] = -1;
        --held[t][l];
    }
    std::vector<long> exec( int t, Op const& op )
    {
        int l = op.args.size() > 1 ? int( op.args[1] ) : 0;
        if ( op.name == "lock" ) { L->lock( l ); enter( t, l ); return {}; }
        if ( op.name == "try_lock" ) {
            bool ok = L->try_lock( l );
            if ( ok ) enter( t, l );
            return { ok ? 1L : 0L };
        }
        if ( op.name == "unlock" ) { leave( t, l ); L->unlock( l ); return {}; }
        if ( op.name == "unlock_if" ) {
            // releases the most recent successful try_lock of l by this thread, if any is still outstanding
            if ( tried_ok( t, l )) { leave( t, l ); L->unlock( l ); return { 1 }; }
            return { 0 };
        }
        if ( op.name == "lock_all" ) { L->lock_all(); for ( int i = 0; i < nlocks; ++i ) enter( t, i ); return {}; }
        if ( op.name == "unlock_all" ) { for ( int i = 0; i < nlocks; ++i ) leave( t, i ); L->unlock_all(); return {}; }
        return {};
    }
    // try_lock bookkeeping: count successful try_locks not yet released, per thread and lock
    int tried_cnt[16][MAXL] = {};
    bool tried_ok( int t, int l ) { if ( tried_cnt[t][l] > 0 ) { --tried_cnt[t][l]; return true; } return false; }
    void finish( std::ostream& )
    {
        std::string c = L->check();
        if ( !c.empty()) { failed = true; if ( failure.empty()) failure = c; }
    }
};

// exec() above needs to know whether a try_lock succeeded: wrap it
struct FixtureW : Fixture {
    explicit FixtureW( Case const& c ) : Fixture( c ) {}
    std::vector<long> exec( int t, Op const& op )
    {
        std::vector<long> r = Fixture::exec( t, op );
        if ( op.name == "try_lock" && r[0] == 1 ) ++tried_cnt[t][int( op.args[1] )];
        return r;
    }
};

int main( int argc, char** argv )
{
    cds::Initialize();
    int rc = client_main<FixtureW>( argc, argv );
    cds::Terminate();
    return rc;
}

/-
Property C25 (splitters part): the bit-string splitters of cds/algo/split_bitstring.h cut the
source into exactly the requested consecutive bit fields.

`BS` / `NS` are the models of `CdsVerif.Algo.Splitter.Model` (tied to the C++ by differential
runs); the third component of every result is the undefined-behaviour flag of the model
(read past `last_`, shift by at least the operand width).

Notation: `s.total = 8 * s.bytes.length`, `s.bitOffset = s.off + 8 * s.cur` (C++ `bit_offset()`),
`s.src = leValue s.bytes` (the source as a little-endian number),
`bitsAt src pos n = (src / 2^pos) % 2^n`.
-/
import CdsVerif.Algo.Splitter.Lemmas

namespace CdsVerif.Props.C25Splitters
open CdsVerif.Algo.Splitter

/-! ## split_bitstring -/

/-- `split_bitstring::cut(count)` with `count ≤ w = bit width of uint_type` and at least `count` bits
    left: no UB, returns exactly the next `count` bits, advances by `count`.
    (`1 ≤ count` is not needed: `cut(0)` returns 0 and does not move.) -/
theorem C25_bs_cut_spec (w : Nat) (s : BS) (count : Nat) (hwf : s.WF) (hcw : count ≤ w)
    (hend : s.bitOffset + count ≤ s.total) :
    let r := s.cut w count
    r.2.2 = false ∧ r.1 = bitsAt s.src s.bitOffset count ∧
      r.2.1.bitOffset = s.bitOffset + count ∧ r.2.1.WF ∧ r.2.1.bytes = s.bytes :=
  BS.cut_spec w s count hwf hcw hend

/-- `split_bitstring::safe_cut(count)` never reads past the end and returns exactly the
    `min count rest` remaining bits.  (`total < 2^32`: `rest` is computed at type `unsigned`.) -/
theorem C25_bs_safe_cut_spec (w : Nat) (s : BS) (count : Nat) (hwf : s.WF) (hcw : count ≤ w)
    (htot : s.total < 2 ^ 32) :
    let n := min count (s.total - s.bitOffset)
    let r := s.safeCut w count
    r.2.2 = false ∧ r.1 = bitsAt s.src s.bitOffset n ∧ r.2.1.bitOffset = s.bitOffset + n ∧
      r.2.1.bitOffset ≤ s.total ∧ r.2.1.WF := by
  obtain ⟨h1, h2, h3, h4, h5, _⟩ := BS.safeCut_spec w s count hwf hcw htot
  exact ⟨h1, h2, h3, h4, h5⟩

/-- Cutting the whole source into consecutive fields of widths `ws` (each `≤ w`, summing to the
    number of source bits) is free of UB and the fields, laid side by side
    (`fieldSum ws rs = Σ_i rs[i] * 2^(ws[0]+…+ws[i-1])`), are the source. -/
theorem C25_bs_reconstruct (w : Nat) (s : BS) (ws : List Nat) (hwf : s.WF) (hcur : s.cur = 0)
    (hoff : s.off = 0) (hws : ∀ c ∈ ws, 1 ≤ c ∧ c ≤ w) (hsum : ws.sum = s.total) :
    let r := runCuts w s ws
    r.2.2 = false ∧ r.1.length = ws.length ∧ fieldSum ws r.1 = s.src :=
  runCuts_reconstruct w ws s hwf (by simp [BS.bitOffset, hcur, hoff]) (fun c hc => (hws c hc).2) hsum

/-! ### concrete values -/

/-- the hash 0x89abcdef stored little-endian, cut into 4 + 12 + 16 bits -/
example : (runCuts 32 ⟨[0xef, 0xcd, 0xab, 0x89], 0, 0⟩ [4, 12, 16]).1 = [0xf, 0xcde, 0x89ab] := by decide
example : (runCuts 32 ⟨[0xef, 0xcd, 0xab, 0x89], 0, 0⟩ [4, 12, 16]).2.2 = false := by decide
example : fieldSum [4, 12, 16] [0xf, 0xcde, 0x89ab] = 0x89abcdef := by decide
example : leValue [0xef, 0xcd, 0xab, 0x89] = 0x89abcdef := by decide
example : (⟨[0xef, 0xcd, 0xab, 0x89], 0, 0⟩ : BS).WF := by decide
/-- one bit too many: the model reports the out-of-bounds read -/
example : (runCuts 32 ⟨[0xef, 0xcd, 0xab, 0x89], 0, 0⟩ [4, 12, 17]).2.2 = true := by decide
/-- `count ≤ w` is necessary: a 40-bit cut with `uint_type = unsigned` shifts by `done = 32` -/
example : (BS.cut 32 ⟨[1, 2, 3, 4, 5, 6, 7, 8], 0, 0⟩ 40).2.2 = true := by decide
example : (BS.cut 64 ⟨[1, 2, 3, 4, 5, 6, 7, 8], 0, 0⟩ 40) = (0x0504030201, ⟨[1, 2, 3, 4, 5, 6, 7, 8], 5, 0⟩, false) := by decide
/-- `safe_cut` clamps instead -/
example : (BS.safeCut 32 ⟨[0xef, 0xcd, 0xab, 0x89], 2, 0⟩ 17) = (0x89ab, ⟨[0xef, 0xcd, 0xab, 0x89], 4, 0⟩, false) := by decide
example : (BS.safeCut 32 ⟨[0xef, 0xcd, 0xab, 0x89], 4, 0⟩ 5) = (0, ⟨[0xef, 0xcd, 0xab, 0x89], 4, 0⟩, false) := by decide

/-! ## byte_splitter (`offset_` does not exist: `off = 0`; widths are multiples of 8) -/

/-- `byte_splitter::cut(count)`, `count` a multiple of 8, `count ≤ w`, at least `count` bits left. -/
theorem C25_byte_cut_spec (w : Nat) (s : BS) (count : Nat) (hwf : s.WF) (hoff : s.off = 0)
    (h8 : count % 8 = 0) (hcw : count ≤ w) (hend : s.bitOffset + count ≤ s.total) :
    let r := s.byteCut w count
    r.2.2 = false ∧ r.1 = bitsAt s.src s.bitOffset count ∧
      r.2.1.bitOffset = s.bitOffset + count ∧ r.2.1.WF ∧ r.2.1.off = 0 ∧ r.2.1.bytes = s.bytes :=
  BS.byteCut_spec w s count hwf hoff h8 hcw hend

/-- `byte_splitter::safe_cut(count)` (with the corrected `rest = (last_ - cur_) * 8`). -/
theorem C25_byte_safe_cut_spec (w : Nat) (s : BS) (count : Nat) (hwf : s.WF) (hoff : s.off = 0)
    (h8 : count % 8 = 0) (hcw : count ≤ w) (htot : s.total < 2 ^ 32) :
    let n := min count (s.total - s.bitOffset)
    let r := s.byteSafeCut w count
    r.2.2 = false ∧ r.1 = bitsAt s.src s.bitOffset n ∧ r.2.1.bitOffset = s.bitOffset + n ∧
      r.2.1.bitOffset ≤ s.total ∧ r.2.1.WF ∧ r.2.1.off = 0 := by
  obtain ⟨h1, h2, h3, h4, h5, h6, _⟩ := BS.byteSafeCut_spec w s count hwf hoff h8 hcw htot
  exact ⟨h1, h2, h3, h4, h5, h6⟩

theorem C25_byte_reconstruct (w : Nat) (s : BS) (ws : List Nat) (hwf : s.WF) (hcur : s.cur = 0)
    (hoff : s.off = 0) (hws : ∀ c ∈ ws, 1 ≤ c ∧ c % 8 = 0 ∧ c ≤ w) (hsum : ws.sum = s.total) :
    let r := runByteCuts w s ws
    r.2.2 = false ∧ r.1.length = ws.length ∧ fieldSum ws r.1 = s.src :=
  runByteCuts_reconstruct w ws s hwf hoff hcur (fun c hc => (hws c hc).2) hsum

example : (runByteCuts 32 ⟨[0xef, 0xcd, 0xab, 0x89], 0, 0⟩ [8, 16, 8]) =
    ([0xef, 0xabcd, 0x89], ⟨[0xef, 0xcd, 0xab, 0x89], 4, 0⟩, false) := by decide
example : fieldSum [8, 16, 8] [0xef, 0xabcd, 0x89] = 0x89abcdef := by decide
/-- the last byte is returned by `safe_cut` (it was not before the `rest` fix) -/
example : (BS.byteSafeCut 32 ⟨[0xef, 0xcd, 0xab, 0x89], 3, 0⟩ 16) =
    (0x89, ⟨[0xef, 0xcd, 0xab, 0x89], 4, 0⟩, false) := by decide

/-! ## number_splitter<uint64_t> -/

/-- `number_splitter<uint64_t>::cut(count)`.  `shift_ < 64` is necessary (at `shift_ = 64`, i.e. after
    the last bit, `number_ >> shift_` is itself undefined) and so is `count < 64`
    (`is_correct(count)`).  `shift_ + count ≤ 64` is *not* needed: bits beyond 64 read as 0, and
    `shift_` is simply advanced (possibly beyond 64). -/
theorem C25_ns_cut_spec (s : NS) (count : BitVec 32) (hs : s.shift.toNat < 64)
    (hc : count.toNat < 64) :
    let r := s.cut count
    r.2.2 = false ∧ r.1.toNat = bitsAt s.number.toNat s.shift.toNat count.toNat ∧
      r.2.1.shift.toNat = s.shift.toNat + count.toNat := by
  obtain ⟨h1, h2, h3, _⟩ := NS.cut_spec s count hs hc
  exact ⟨h1, h2, h3⟩

/-- `number_splitter<uint64_t>::safe_cut(count)` never advances past bit 64. -/
theorem C25_ns_safe_cut_spec (s : NS) (count : BitVec 32) (hs : s.shift.toNat ≤ 64)
    (hc : count.toNat < 64) :
    let n := min count.toNat (64 - s.shift.toNat)
    let r := s.safeCut count
    r.2.2 = false ∧ r.1.toNat = bitsAt s.number.toNat s.shift.toNat n ∧
      r.2.1.shift.toNat = s.shift.toNat + n := by
  obtain ⟨h1, h2, h3, _⟩ := NS.safeCut_spec s count hs hc
  exact ⟨h1, h2, h3⟩

theorem C25_ns_reconstruct (s : NS) (ws : List Nat) (hshift : s.shift = 0)
    (hws : ∀ c ∈ ws, 1 ≤ c ∧ c < 64) (hsum : ws.sum = 64) :
    let r := runCutsNS s ws
    r.2.2 = false ∧ r.1.length = ws.length ∧ fieldSum ws r.1 = s.number.toNat :=
  runCutsNS_reconstruct ws s hshift hws hsum

example : (runCutsNS ⟨0x0123456789abcdef#64, 0⟩ [4, 12, 16, 32]).1 = [0xf, 0xcde, 0x89ab, 0x01234567] := by decide
example : (runCutsNS ⟨0x0123456789abcdef#64, 0⟩ [4, 12, 16, 32]).2.2 = false := by decide
example : fieldSum [4, 12, 16, 32] [0xf, 0xcde, 0x89ab, 0x01234567] = 0x0123456789abcdef := by decide
/-- `cut(64)` violates `is_correct`: `1 << 64` -/
example : (NS.cut ⟨0x0123456789abcdef#64, 0⟩ 64).2.2 = true := by decide
/-- `cut` at `eos()` is undefined -/
example : (NS.cut ⟨0x0123456789abcdef#64, 64⟩ 1).2.2 = true := by decide
example : (NS.safeCut ⟨0x0123456789abcdef#64, 60⟩ 8) = (0#64, ⟨0x0123456789abcdef#64, 64⟩, false) := by decide
example : (NS.safeCut ⟨0xf123456789abcdef#64, 60⟩ 8) = (0xf#64, ⟨0xf123456789abcdef#64, 64⟩, false) := by decide
example : (NS.safeCut ⟨0xf123456789abcdef#64, 64⟩ 8) = (0#64, ⟨0xf123456789abcdef#64, 64⟩, false) := by decide

end CdsVerif.Props.C25Splitters

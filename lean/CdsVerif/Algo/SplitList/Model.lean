/-
  Atomic-step model of `cds::intrusive::SplitListSet<HP, MichaelList<HP, …>>` (cds/intrusive/split_list.h) with the
  DYNAMIC bucket table (`split_list::expandable_bucket_table`, cds/intrusive/details/split_list_base.h): the
  configuration underneath the harness variant `sset_michael_hp`.  Operations: `insert`, `erase( key, f )`,
  `find( key, f )`, `contains( key )`.

    SplitListSet( nItemCount, nLoadFactor ):
        m_nBucketCountLog2 = 1;  m_nMaxItemCount = 2 * load_factor
        init():  pNode = alloc_aux_node( 0 );  m_List.insert_aux_node( pNode );  m_Buckets.bucket( 0, pNode )

    every operation on `key` (nHash = hash( key )):
        get_bucket( nHash ):
            nBucket = nHash & (( 1 << m_nBucketCountLog2.load() ) - 1 )                         -- gCnt
            pHead = m_Buckets.bucket( nBucket )                                                 -- gTab
            if ( pHead == nullptr ) pHead = init_bucket( nBucket )
        init_bucket( nBucket ):
            nParent = nBucket & ~( 1 << MSB( nBucket ))
            pParent = m_Buckets.bucket( nParent )                                               -- iPar
            if ( pParent == nullptr ) pParent = init_bucket( nParent )                          --   (recursion: `stk`)
            for ( pBucket = m_Buckets.bucket( nBucket ) ;; … ) {                                -- iBkt
                if ( pBucket ) return pBucket
                pBucket = alloc_aux_node( dummy_hash( nBucket ))      -- aux_node_count.load(), .fetch_add( 1 )   iAl1, iAl2
                if ( m_List.insert_aux_node( pParent, pBucket )) {    -- MichaelList::insert_at from pParent      (search, iSt, iCas, iClr)
                    m_Buckets.bucket( nBucket, pBucket )                                        -- iPub
                    return pBucket
                }
                free_aux_node( pBucket );  break
            }
            while (( pBucket = m_Buckets.bucket( nBucket )) == nullptr ) back-off               -- iWait
            return pBucket
        then the MichaelList operation `insert_at` / `erase_at` / `find_at` with `refHead` = a LOCAL atomic variable
        `h` holding `pHead` (michael_list.h; see Algo/Michael/Model.lean for `search`, `link_node`, `unlink_node`),
        on the key ( split-order hash, user key ):  `regular_hash( nHash )` = bit-reversed hash | 1 for items,
        `dummy_hash( nBucket )` = bit-reversed bucket number (even) for dummy nodes; the comparator compares the
        split-order hashes first and the user keys only when these are equal;
        insert success:  inc_item_count():
            nMaxCount = m_nMaxItemCount.load()                                                  -- cLd1
            if ( ++m_ItemCounter <= nMaxCount ) return                                          -- cAdd
            sz = m_nBucketCountLog2.load()                                                      -- cCnt
            if (( 1 << sz ) < capacity ) {
                if ( nMaxCount < ( 1 << sz ) * load_factor ) return
                m_nMaxItemCount.CAS( nMaxCount, ( 2 << sz ) * load_factor )                     -- cMax  (result ignored)
                m_nBucketCountLog2.CAS( sz, sz + 1 )                                            -- cGrow (result ignored)
            } else m_nMaxItemCount.store( SIZE_MAX )                                            -- cSat
        erase success:   --m_ItemCounter                                                        -- cSub

  Memory model of the model: garbage-collected heap, sequentially consistent interleavings, no spurious CAS failure;
  hazard pointers, `retire`, statistics and back-off are not modelled (as in Algo/Michael).  Node ids: dummy (auxiliary)
  nodes are the EVEN numbers (`d<i>` = 2 i: the i-th node handed out by `alloc_aux_node`, i.e. index `i` of the aux-node
  segment; `d0` = 0 is the dummy of bucket 0, linked by the constructor), items are the ODD numbers (`n<j>` = 2 j - 1:
  the item brought by the j-th invoked insert).  The list's own `m_pHead` points to `d0` for ever and is never accessed
  by an operation: it is not modelled, the chain starts at node 0.
  NOT modelled (and excluded by the harness configuration, which creates the table for 64 items): exhaustion of the
  first aux-node segment (then `alloc_aux_node` takes a node from the free list of aux nodes, or allocates another
  segment); `free_aux_node` of the loser of an initialisation race therefore is not a step.  The local variable `h`
  is not shared memory: its loads (protect, validation) are not steps.  Two branches of the first iteration of `search`
  (on `pCur` = the bucket's dummy) that are unreachable — the dummy is marked / the dummy's key is not below the key
  searched for (both excluded by the invariant, `Inv.lean`) — restart the search in the model instead of using `h` as
  `pPrev`.

  One `step` = one atomic operation on shared memory.  Event rendering (the `A` lines of the harness trace), with
  <node> = `d<i>` | `n<j>`, <val> = `null` | <node> | `null|1` | <node>`|1`:
      ld cnt2 <k> | cas+ cnt2 <k> <k+1> | cas- cnt2 <seen> <k>
      ld b<i> <val> | st b<i> <node>
      ld acnt <n> | add acnt <n> 1
      ld / st / cas+ / cas- on <node> as in Algo/Michael
      ld maxc <n> | cas+ maxc … | cas- maxc … | st maxc 18446744073709551615
      add items <old> 1 | sub items <old> 1
-/
import CdsVerif.Base.Machine
namespace CdsVerif.Algo.SplitList
open CdsVerif.Machine CdsVerif.Spec

/-- Parameters: the hash functor, the two split-order key functions, the table capacity and the load factor. -/
structure Cfg where
  hash : Int → Nat           -- traits::hash
  reg : Nat → Nat            -- split_list::regular_hash   (bit-reversed hash | 1)
  dum : Nat → Nat            -- split_list::dummy_hash     (bit-reversed bucket number & ~1)
  cap : Nat                  -- m_Buckets.capacity()
  lf : Nat                   -- m_Buckets.load_factor()
  maxLog : Nat               -- bucket numbers have at most `maxLog` bits (63 for 64-bit `size_t`)

/-- The operation a client thread is executing. -/
inductive Top
  | ins (n : Nat)        -- insert( item n )
  | era (k : Int)        -- erase( k, f )
  | fnd (k : Int)        -- find( k, f )
  | con (k : Int)        -- contains( k )
deriving DecidableEq, Repr

/-- What a run of the MichaelList code is for: the client's operation itself, or the insertion of the dummy node `m`
    of bucket `stk.head` by `init_bucket` (`stk.tail` = the buckets whose initialisation waits for this one). -/
inductive OpK
  | top (o : Top)
  | dum (m : Nat) (o : Top) (stk : List Nat)
deriving DecidableEq, Repr

inductive PC
  | idle
  | gCnt (o : Top)                                            -- next: m_nBucketCountLog2.load()
  | gTab (o : Top) (b : Nat)                                  -- next: m_Buckets.bucket( b )
  | iPar (o : Top) (stk : List Nat)                           -- init_bucket( stk.head ); next: m_Buckets.bucket( parent )
  | iBkt (o : Top) (stk : List Nat) (pp : Nat)                -- next: m_Buckets.bucket( stk.head )
  | iAl1 (o : Top) (stk : List Nat) (pp : Nat)                -- next: aux_node_count.load()
  | iAl2 (o : Top) (stk : List Nat) (pp : Nat)                -- next: aux_node_count.fetch_add( 1 )
  | iPub (o : Top) (stk : List Nat) (m : Nat)                 -- next: table[ stk.head ].store( m )
  | iWait (o : Top) (stk : List Nat)                          -- next: m_Buckets.bucket( stk.head ) until non-null
  | sHd1 (w : OpK) (d : Nat)                                  -- try_again; next: first load of protect( d->m_pNext )
  | sHd2 (w : OpK) (d : Nat) (nx : Option Nat) (mk : Bool)    -- next: validating load of protect( d->m_pNext )
  | sNx1 (w : OpK) (d prev cur : Nat)
  | sNx2 (w : OpK) (d prev cur : Nat) (nx : Option Nat) (mk : Bool)
  | sChk (w : OpK) (d prev cur : Nat) (nx : Option Nat) (mk : Bool)
  | sHelp (w : OpK) (d prev cur : Nat) (nx : Option Nat)
  | iSt (w : OpK) (d prev : Nat) (cur : Option Nat)
  | iCas (w : OpK) (d prev : Nat) (cur : Option Nat)
  | iClr (w : OpK) (d : Nat)
  | eMark (k : Int) (d prev cur : Nat) (nx : Option Nat)
  | eUnl (k : Int) (prev cur : Nat) (nx : Option Nat)
  | cLd1                                                      -- inc_item_count; next: m_nMaxItemCount.load()
  | cAdd (mx : Nat)                                           -- next: ++m_ItemCounter
  | cCnt (mx : Nat)                                           -- next: m_nBucketCountLog2.load()
  | cMax (mx sz : Nat)                                        -- next: CAS( m_nMaxItemCount, mx, ( 2 << sz ) * lf )
  | cGrow (sz : Nat)                                          -- next: CAS( m_nBucketCountLog2, sz, sz + 1 )
  | cSat                                                      -- next: m_nMaxItemCount.store( SIZE_MAX )
  | cSub (v : Int)                                            -- next: --m_ItemCounter; then return [1, v]
  | done (r : GRet)
deriving DecidableEq, Repr

structure St where
  next : Nat → Option Nat        -- pointer part of every node's m_pNext
  mark : Nat → Bool              -- mark bit of every node's m_pNext
  so : Nat → Nat                 -- m_nHash of every node (split-order key)
  uk : Nat → Int                 -- user key of every item (0 for dummy nodes)
  val : Nat → Int                -- payload of every item
  table : Nat → Option Nat       -- bucket table
  cnt2 : Nat                     -- m_nBucketCountLog2
  maxc : Nat                     -- m_nMaxItemCount
  items : Nat                    -- m_ItemCounter (size_t: arithmetic modulo 2^64)
  acnt : Nat                     -- aux_node_count: dummy nodes handed out so far
  cnt : Nat                      -- items brought by inserts so far
  pc : Tid → PC

def init (c : Cfg) : St :=
  ⟨fun _ => none, fun _ => false, fun _ => 0, fun _ => 0, fun _ => 0, fun b => if b = 0 then some 0 else none,
   1, 2 * c.lf, 0, 1, 0, fun _ => .idle⟩

def sizeMax : Nat := 18446744073709551615
/-- `size_t` increment / decrement (modulo 2^64). -/
def incW (n : Nat) : Nat := (n + 1) % 18446744073709551616
def decW (n : Nat) : Nat := (n + 18446744073709551615) % 18446744073709551616

/-! ### Event rendering (the only place where events are built) -/

def loc (a : Nat) : String := if a % 2 = 1 then s!"n{(a + 1) / 2}" else s!"d{a / 2}"
def bloc (b : Nat) : String := s!"b{b}"
def ptr : Option Nat → String
  | none => "null"
  | some a => loc a
def mptr (p : Option Nat) (m : Bool) : String := if m then ptr p ++ "|1" else ptr p

def evLd (a : Nat) (p : Option Nat) (m : Bool) : Ev := ⟨"ld", loc a, mptr p m, ""⟩
def evSt (a : Nat) (p : Option Nat) (m : Bool) : Ev := ⟨"st", loc a, mptr p m, ""⟩
def evCasOk (a : Nat) (p : Option Nat) (m : Bool) (p' : Option Nat) (m' : Bool) : Ev :=
  ⟨"cas+", loc a, mptr p m, mptr p' m'⟩
def evCasFail (a : Nat) (seen : Option Nat) (sm : Bool) (exp : Option Nat) (em : Bool) : Ev :=
  ⟨"cas-", loc a, mptr seen sm, mptr exp em⟩
def evLdB (b : Nat) (p : Option Nat) : Ev := ⟨"ld", bloc b, ptr p, ""⟩
def evStB (b : Nat) (p : Option Nat) : Ev := ⟨"st", bloc b, ptr p, ""⟩
def evLdN (w : String) (v : Nat) : Ev := ⟨"ld", w, toString v, ""⟩
def evStN (w : String) (v : Nat) : Ev := ⟨"st", w, toString v, ""⟩
def evRmw (kind w : String) (old arg : Nat) : Ev := ⟨kind, w, toString old, toString arg⟩
def evCasN (w : String) (cur exp new : Nat) : Ev :=
  if cur = exp then ⟨"cas+", w, toString cur, toString new⟩ else ⟨"cas-", w, toString cur, toString exp⟩

/-! ### Keys -/

/-- Lexicographic order on ( split-order hash, user key ): the comparator of the split list. -/
def klt (a1 : Nat) (a2 : Int) (b1 : Nat) (b2 : Int) : Prop := a1 < b1 ∨ (a1 = b1 ∧ a2 < b2)

instance (a1 : Nat) (a2 : Int) (b1 : Nat) (b2 : Int) : Decidable (klt a1 a2 b1 b2) := by
  unfold klt; exact inferInstance

/-- The user key of a client operation. -/
def tkey (uk : Nat → Int) : Top → Int
  | .ins n => uk n
  | .era k => k
  | .fnd k => k
  | .con k => k

/-- The key `search` looks for: split-order part … -/
def okeyS (c : Cfg) (so : Nat → Nat) : OpK → Nat
  | .top (.ins n) => so n
  | .top (.era k) => c.reg (c.hash k)
  | .top (.fnd k) => c.reg (c.hash k)
  | .top (.con k) => c.reg (c.hash k)
  | .dum m _ _ => so m
/-- … and user-key part. -/
def okeyU (uk : Nat → Int) : OpK → Int
  | .top (.ins n) => uk n
  | .top (.era k) => k
  | .top (.fnd k) => k
  | .top (.con k) => k
  | .dum m _ _ => uk m

/-- The node `link_node` links. -/
def wnode : OpK → Option Nat
  | .top (.ins n) => some n
  | .top (.era _) => none
  | .top (.fnd _) => none
  | .top (.con _) => none
  | .dum m _ _ => some m

/-- `parent_bucket`. -/
def parent (b : Nat) : Nat := b - 2 ^ Nat.log2 b

/-! ### Transitions -/

/-- `init_bucket( stk.head )` returns `d`: to the waiting `init_bucket` of the child, or to `get_bucket`. -/
def initRet (o : Top) (stk : List Nat) (d : Nat) : PC :=
  match stk with
  | [] => .sHd1 (.top o) d
  | [_] => .sHd1 (.top o) d
  | _ :: b' :: rest => .iBkt o (b' :: rest) d

/-- `search` returned true with `pos = ( prev, cur, nx )`. -/
def found (val : Nat → Int) (w : OpK) (d prev cur : Nat) (nx : Option Nat) : PC :=
  match w with
  | .top (.ins _) => .done [0]
  | .top (.era k) => .eMark k d prev cur nx
  | .top (.fnd _) => .done [1, val cur]
  | .top (.con _) => .done [1]
  | .dum _ o stk => .iWait o stk            -- insert_aux_node failed: another thread is initialising the bucket

/-- `search` returned false with `pos = ( prev, cur, _ )`. -/
def notFound (w : OpK) (d prev : Nat) (cur : Option Nat) : PC :=
  match w with
  | .top (.ins n) => .iSt (.top (.ins n)) d prev cur
  | .top (.era _) => .done [0]
  | .top (.fnd _) => .done [0]
  | .top (.con _) => .done [0]
  | .dum m o stk => .iSt (.dum m o stk) d prev cur

/-- The traversal goes on with `pCur := nx`. -/
def advance (w : OpK) (d prev : Nat) (nx : Option Nat) : PC :=
  match nx with
  | none => notFound w d prev none
  | some x => .sNx1 w d prev x

/-- After the validation `pPrev->load() == pCur` has succeeded. -/
def afterChk (c : Cfg) (so : Nat → Nat) (uk val : Nat → Int) (w : OpK) (d prev cur : Nat) (nx : Option Nat)
    (mk : Bool) : PC :=
  if mk then .sHelp w d prev cur nx
  else if so cur = okeyS c so w ∧ uk cur = okeyU uk w then found val w d prev cur nx
  else if klt (okeyS c so w) (okeyU uk w) (so cur) (uk cur) then notFound w d prev (some cur)
  else advance w d cur nx

/-- The first iteration of `search`, on the bucket's dummy `d` itself (`pPrev` = the local variable). -/
def afterHd (c : Cfg) (so : Nat → Nat) (uk : Nat → Int) (w : OpK) (d : Nat) (nx : Option Nat) (mk : Bool) : PC :=
  if mk then .sHd1 w d                                                          -- unreachable (see header)
  else if klt (so d) (uk d) (okeyS c so w) (okeyU uk w) then advance w d d nx
  else .sHd1 w d                                                                -- unreachable (see header)

/-- After the successful CAS of `link_node`. -/
def linked (w : OpK) : PC :=
  match w with
  | .top _ => .cLd1
  | .dum m o stk => .iPub o stk m

/-- `if ( ++m_ItemCounter <= nMaxCount ) return;` -/
def afterAdd (items mx : Nat) : PC := if incW items ≤ mx then .done [1] else .cCnt mx

/-- The decision of `inc_item_count` after `sz = m_nBucketCountLog2.load()`. -/
def afterCnt (c : Cfg) (sz mx : Nat) : PC :=
  if 2 ^ sz < c.cap then (if mx < 2 ^ sz * c.lf then .done [1] else .cMax mx sz) else .cSat

def invoke (c : Cfg) (s : St) (t : Tid) (op : GOp) : Option St :=
  match s.pc t, op.name, op.args with
  | .idle, "insert", [k, v] =>
    some { s with so := upd s.so (2 * s.cnt + 1) (c.reg (c.hash k)), uk := upd s.uk (2 * s.cnt + 1) k,
                  val := upd s.val (2 * s.cnt + 1) v, cnt := s.cnt + 1,
                  pc := upd s.pc t (.gCnt (.ins (2 * s.cnt + 1))) }
  | .idle, "erase", [k] => some { s with pc := upd s.pc t (.gCnt (.era k)) }
  | .idle, "find", [k] => some { s with pc := upd s.pc t (.gCnt (.fnd k)) }
  | .idle, "contains", [k] => some { s with pc := upd s.pc t (.gCnt (.con k)) }
  | _, _, _ => none

def step (c : Cfg) (s : St) (t : Tid) : Option (St × Ev) :=
  match s.pc t with
  | .gCnt o =>
    some ({ s with pc := upd s.pc t (.gTab o (c.hash (tkey s.uk o) % 2 ^ s.cnt2)) }, evLdN "cnt2" s.cnt2)
  | .gTab o b =>
    match s.table b with
    | some d => some ({ s with pc := upd s.pc t (.sHd1 (.top o) d) }, evLdB b (some d))
    | none => some ({ s with pc := upd s.pc t (.iPar o [b]) }, evLdB b none)
  | .iPar o stk =>
    match stk with
    | [] => none
    | b :: rest =>
      match s.table (parent b) with
      | some pp => some ({ s with pc := upd s.pc t (.iBkt o (b :: rest) pp) }, evLdB (parent b) (some pp))
      | none => some ({ s with pc := upd s.pc t (.iPar o (parent b :: b :: rest)) }, evLdB (parent b) none)
  | .iBkt o stk pp =>
    match stk with
    | [] => none
    | b :: rest =>
      match s.table b with
      | some d => some ({ s with pc := upd s.pc t (initRet o (b :: rest) d) }, evLdB b (some d))
      | none => some ({ s with pc := upd s.pc t (.iAl1 o (b :: rest) pp) }, evLdB b none)
  | .iAl1 o stk pp => some ({ s with pc := upd s.pc t (.iAl2 o stk pp) }, evLdN "acnt" s.acnt)
  | .iAl2 o stk pp =>
    match stk with
    | [] => none
    | b :: rest =>
      some ({ s with so := upd s.so (2 * s.acnt) (c.dum b), uk := upd s.uk (2 * s.acnt) 0, acnt := s.acnt + 1,
                     pc := upd s.pc t (.sHd1 (.dum (2 * s.acnt) o (b :: rest)) pp) }, evRmw "add" "acnt" s.acnt 1)
  | .iPub o stk m =>
    match stk with
    | [] => none
    | b :: rest =>
      some ({ s with table := upd s.table b (some m), pc := upd s.pc t (initRet o (b :: rest) m) }, evStB b (some m))
  | .iWait o stk =>
    match stk with
    | [] => none
    | b :: rest =>
      match s.table b with
      | some d => some ({ s with pc := upd s.pc t (initRet o (b :: rest) d) }, evLdB b (some d))
      | none => some ({ s with pc := upd s.pc t (.iWait o (b :: rest)) }, evLdB b none)
  | .sHd1 w d =>
    some ({ s with pc := upd s.pc t (.sHd2 w d (s.next d) (s.mark d)) }, evLd d (s.next d) (s.mark d))
  | .sHd2 w d nx mk =>
    if s.next d = nx ∧ s.mark d = mk then
      some ({ s with pc := upd s.pc t (afterHd c s.so s.uk w d nx mk) }, evLd d (s.next d) (s.mark d))
    else
      some ({ s with pc := upd s.pc t (.sHd1 w d) }, evLd d (s.next d) (s.mark d))
  | .sNx1 w d prev cur =>
    some ({ s with pc := upd s.pc t (.sNx2 w d prev cur (s.next cur) (s.mark cur)) }, evLd cur (s.next cur) (s.mark cur))
  | .sNx2 w d prev cur nx mk =>
    if s.next cur = nx ∧ s.mark cur = mk then
      some ({ s with pc := upd s.pc t (.sChk w d prev cur nx mk) }, evLd cur (s.next cur) (s.mark cur))
    else
      some ({ s with pc := upd s.pc t (.sNx1 w d prev cur) }, evLd cur (s.next cur) (s.mark cur))
  | .sChk w d prev cur nx mk =>
    if s.next prev = some cur ∧ s.mark prev = false then
      some ({ s with pc := upd s.pc t (afterChk c s.so s.uk s.val w d prev cur nx mk) },
            evLd prev (s.next prev) (s.mark prev))
    else
      some ({ s with pc := upd s.pc t (.sHd1 w d) }, evLd prev (s.next prev) (s.mark prev))
  | .sHelp w d prev cur nx =>
    if s.next prev = some cur ∧ s.mark prev = false then
      some ({ s with next := upd s.next prev nx, pc := upd s.pc t (advance w d prev nx) },
            evCasOk prev (some cur) false nx false)
    else
      some ({ s with pc := upd s.pc t (.sHd1 w d) }, evCasFail prev (s.next prev) (s.mark prev) (some cur) false)
  | .iSt w d prev cur =>
    match wnode w with
    | none => none
    | some n =>
      some ({ s with next := upd s.next n cur, mark := upd s.mark n false, pc := upd s.pc t (.iCas w d prev cur) },
            evSt n cur false)
  | .iCas w d prev cur =>
    match wnode w with
    | none => none
    | some n =>
      if s.next prev = cur ∧ s.mark prev = false then
        some ({ s with next := upd s.next prev (some n), pc := upd s.pc t (linked w) },
              evCasOk prev cur false (some n) false)
      else
        some ({ s with pc := upd s.pc t (.iClr w d) }, evCasFail prev (s.next prev) (s.mark prev) cur false)
  | .iClr w d =>
    match wnode w with
    | none => none
    | some n =>
      some ({ s with next := upd s.next n none, mark := upd s.mark n false, pc := upd s.pc t (.sHd1 w d) },
            evSt n none false)
  | .eMark k d prev cur nx =>
    if s.next cur = nx ∧ s.mark cur = false then
      some ({ s with mark := upd s.mark cur true, pc := upd s.pc t (.eUnl k prev cur nx) },
            evCasOk cur nx false nx true)
    else
      some ({ s with pc := upd s.pc t (.sHd1 (.top (.era k)) d) }, evCasFail cur (s.next cur) (s.mark cur) nx false)
  | .eUnl _ prev cur nx =>
    if s.next prev = some cur ∧ s.mark prev = false then
      some ({ s with next := upd s.next prev nx, pc := upd s.pc t (.cSub (s.val cur)) },
            evCasOk prev (some cur) false nx false)
    else
      some ({ s with pc := upd s.pc t (.cSub (s.val cur)) },
            evCasFail prev (s.next prev) (s.mark prev) (some cur) false)
  | .cLd1 => some ({ s with pc := upd s.pc t (.cAdd s.maxc) }, evLdN "maxc" s.maxc)
  | .cAdd mx =>
    some ({ s with items := incW s.items, pc := upd s.pc t (afterAdd s.items mx) },
          evRmw "add" "items" s.items 1)
  | .cCnt mx =>
    some ({ s with pc := upd s.pc t (afterCnt c s.cnt2 mx) }, evLdN "cnt2" s.cnt2)
  | .cMax mx sz =>
    some ({ s with maxc := if s.maxc = mx then 2 ^ (sz + 1) * c.lf else s.maxc, pc := upd s.pc t (.cGrow sz) },
          evCasN "maxc" s.maxc mx (2 ^ (sz + 1) * c.lf))
  | .cGrow sz =>
    some ({ s with cnt2 := if s.cnt2 = sz then sz + 1 else s.cnt2, pc := upd s.pc t (.done [1]) },
          evCasN "cnt2" s.cnt2 sz (sz + 1))
  | .cSat => some ({ s with maxc := sizeMax, pc := upd s.pc t (.done [1]) }, evStN "maxc" sizeMax)
  | .cSub v =>
    some ({ s with items := decW s.items, pc := upd s.pc t (.done [1, v]) },
          evRmw "sub" "items" s.items 1)
  | .idle => none
  | .done _ => none

def result (s : St) (t : Tid) : Option (St × GRet) :=
  match s.pc t with
  | .done r => some ({ s with pc := upd s.pc t .idle }, r)
  | _ => none

def model (c : Cfg) : Model St := ⟨invoke c, step c, result⟩

/-- The trace lines of a run, as the harness prints them. -/
def render (os : List (Tid × Obs)) : List String :=
  os.map fun (t, o) => match o with
    | .call op => s!"T {t} C {op.name} {op.args}"
    | .ev e => s!"T {t} A {e}"
    | .ret r => s!"T {t} R {r}"

/-! ### The configuration of the real code: 64-bit `size_t`, bit reversal -/

def rev64 (n : Nat) : Nat := (BitVec.ofNat 64 n).reverse.toNat

/-- The hash functors of the harness client (keys are `long`, the hash is `size_t`): `mode = 0` the key itself,
    `mode = 1` key >> 1 (pairs of keys with the same hash), `mode = 2` key - 1 (key 0 hashes to `SIZE_MAX`: all bits
    set, so bucket numbers with high bits occur). -/
def hash64 (mode : Nat) (k : Int) : Nat :=
  match mode with
  | 1 => (k % 18446744073709551616).toNat / 2
  | 2 => ((k - 1) % 18446744073709551616).toNat
  | _ => (k % 18446744073709551616).toNat

def cfg64 (mode : Nat) (cap lf : Nat) : Cfg where
  hash := hash64 mode
  reg h := rev64 h ||| 1
  dum b := rev64 b &&& (2 ^ 64 - 2)
  cap := cap
  lf := lf
  maxLog := 63

def cfgNat (key : String) (ws : List String) : Option Nat :=
  ws.findSome? (fun w => if w.startsWith (key ++ "=") then (w.drop (key.length + 1)).toNat? else none)

/-- The configuration from the words `cap=… lf=… coll=…` of the case header. -/
def cfgOf (ws : List String) : Cfg :=
  cfg64 ((cfgNat "coll" ws).getD 0) ((cfgNat "cap" ws).getD 64) ((cfgNat "lf" ws).getD 1)

/-- The machine with its configuration carried in the state (tie A: the driver learns the configuration from the
    case header, after it has chosen the model). -/
structure RSt where
  c : Cfg
  s : St

def replayModel : Model RSt where
  invoke r t op := (invoke r.c r.s t op).map (fun s' => ⟨r.c, s'⟩)
  step r t := (step r.c r.s t).map (fun p => (⟨r.c, p.1⟩, p.2))
  result r t := (result r.s t).map (fun p => (⟨r.c, p.1⟩, p.2))

def replayInit (ws : List String) : RSt := ⟨cfgOf ws, init (cfgOf ws)⟩

end CdsVerif.Algo.SplitList

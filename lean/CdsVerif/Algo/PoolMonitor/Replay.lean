/-
  Replay machine of `cds::sync::pool_monitor`: the machine of Algo/PoolMonitor/Model with the lock pool as an
  ENVIRONMENT that chooses.

  In Model the pool is a FIFO of ids and the two pool calls are folded into neighbouring steps (`allocate` into the store
  that ends the spin-bit section of `lock`, `deallocate` into the return of `unlock`), so the machine PREDICTS which lock the
  pool hands out and when it gets it back.  The real pool is a concurrent component of its own (vyukov_queue_pool): which
  free lock it hands out depends on the order of its own operations, and its calls happen strictly between the atomic
  operations of pool_monitor.  Here the pool calls are transitions of their own whose lock id is an INPUT (the harness
  reports them as pseudo-events, tools/poolmon_pre.py turns them into the two `pool_*` invocations below):

      pool_alloc [t, k]   thread t, inside the spin-bit section of `lock( n )` (pc `lkSt n cur`) with no lock attached:
                          the pool hands out lock k and the thread attaches it (`pLock = p.m_pLock = m_Pool.allocate( 1 )`).
                          Enabled for ANY free k: a member of the free bag `pool`, or a never-used id (`fresh ≤ k`).
      pool_free [t, k]    thread t, after the last store of `unlock` that detached lock k (pc `fin (some k)`):
                          `m_Pool.deallocate( pLock, 1 )` puts k into the free bag.

  and the folded versions are disabled: the store of `lkSt` needs a lock attached, `unlock` returns only from `fin none`.
  Every other transition is the one of Model, unchanged.

  This is the nondeterministic-choice generalisation of `Model.step`: "take the head of the FIFO (or `fresh`)" becomes
  "take any free id", and the instants of the two pool calls are free within the window the source gives them.
    * `PInv` is an inductive invariant of the replay machine (`rpinv_reachable`), hence every state theorem of C22 holds for it;
      the two transition theorems (detach only by the last user, return only when unused) are re-proved (`rdetach_only_last`,
      `rdealloc_only_unused`);
    * the machine of Model is the special case "FIFO choice, pool call immediately before the folded step": every transition of
      Model is one or two transitions of the replay machine (`model_*_sim`), so every state reachable in Model is reachable here
      (`model_reachable_replay`).
-/
import CdsVerif.Algo.PoolMonitor.Inv
namespace CdsVerif.Algo.PoolMonitor
open CdsVerif.Machine CdsVerif.Spec

/-- The pool hands out lock `k` to thread `t`, which attaches it to the node whose spin bit it holds. -/
def poolAlloc (s : St) (t : Tid) (k : Nat) : Option St :=
  match s.pc t with
  | .lkSt n _ =>
    if s.plock n = none ∧ (k ∈ s.pool ∨ s.fresh ≤ k) then
      some { s with plock := upd s.plock n (some k), pool := s.pool.erase k,
                    fresh := if k < s.fresh then s.fresh else k + 1 }
    else none
  | _ => none

/-- The pool takes back the lock `k` that thread `t` detached. -/
def poolFree (s : St) (t : Tid) (k : Nat) : Option St :=
  match s.pc t with
  | .fin (some k') =>
    if k' = k then some { s with pool := s.pool ++ [k], pc := upd s.pc t (.fin none) } else none
  | _ => none

def rinvoke (s : St) (t : Tid) (op : GOp) : Option St :=
  if op.name = "pool_alloc" then
    match op.args with
    | [_, k] => poolAlloc s t k.toNat
    | _ => none
  else if op.name = "pool_free" then
    match op.args with
    | [_, k] => poolFree s t k.toNat
    | _ => none
  else invoke s t op

def rstep (s : St) (t : Tid) : Option (St × Ev) :=
  match s.pc t with
  | .lkSt n _ =>
    match s.plock n with
    | some _ => step s t
    | none => none          -- the pool has not been asked yet
  | _ => step s t

def rresult (s : St) (t : Tid) : Option (St × GRet) :=
  match s.pc t with
  | .fin (some _) => none   -- the detached lock has not been given back yet
  | _ => result s t

def rmodel : Model St := ⟨rinvoke, rstep, rresult⟩

/-! ### `PInv` is an invariant of the replay machine -/

theorem rstep_sub {s : St} {t : Tid} {r : St × Ev} (h : rstep s t = some r) : step s t = some r := by
  unfold rstep at h
  split at h
  · split at h
    · exact h
    · cases h
  · exact h

theorem rresult_sub {s : St} {t : Tid} {r : St × GRet} (h : rresult s t = some r) : result s t = some r := by
  unfold rresult at h
  split at h
  · cases h
  · exact h

set_option maxHeartbeats 1000000 in
theorem pinv_poolAlloc {s s' : St} {t : Tid} {k : Nat} (h : PInv s) (hs : poolAlloc s t k = some s') : PInv s' := by
  unfold poolAlloc at hs
  split at hs
  next n cur hpc =>
    split at hs
    next hg =>
      simp at hs; subst hs
      obtain ⟨hnone, hk⟩ := hg
      have hsbt := h.sb2 n t (by simp [hpc, spinNode])
      have hmem : t ∈ s.users n := h.uref n t (by simp [hpc, refNode])
      have hnd' : (s.pool.erase k).Nodup := h.pnd.erase k
      have hmem' : ∀ x, x ∈ s.pool.erase k ↔ x ≠ k ∧ x ∈ s.pool := fun x => h.pnd.mem_erase_iff
      have hkatt : ∀ n', s.plock n' ≠ some k := by
        intro n' hn'
        rcases hk with hk | hk
        · exact h.pfree k n' hk hn'
        · have := h.afr n' k hn'; omega
      have hkown : s.lowner k = none := by
        rcases hk with hk | hk
        · exact h.pown k hk
        · cases ho : s.lowner k with
          | none => rfl
          | some t' => have := h.ofr k t' ho; omega
      have hkfin : ∀ t', s.pc t' ≠ .fin (some k) := by
        intro t' ht'
        rcases hk with hk | hk
        · exact h.fpool t' k ht' hk
        · have := h.ffr t' k ht'; omega
      have hfr : s.fresh ≤ (if k < s.fresh then s.fresh else k + 1) ∧ k < (if k < s.fresh then s.fresh else k + 1) := by
        split <;> omega
      generalize (if k < s.fresh then s.fresh else k + 1) = F' at *
      generalize s.pool.erase k = P' at *
      pinv_all h
    next => simp at hs
  next => simp at hs

set_option maxHeartbeats 1000000 in
theorem pinv_poolFree {s s' : St} {t : Tid} {k : Nat} (h : PInv s) (hs : poolFree s t k = some s') : PInv s' := by
  unfold poolFree at hs
  split at hs
  next k' hpc =>
    split at hs
    next he =>
      subst he
      simp at hs; subst hs
      have hk := h.fpool t k' hpc
      have hnd2 : (s.pool ++ [k']).Nodup := by
        apply List.nodup_append.mpr
        refine ⟨h.pnd, by simp, ?_⟩
        intro a ha b hb; simp at hb; subst hb; intro hab; subst hab; exact hk ha
      have hmem2 : ∀ x, x ∈ s.pool ++ [k'] ↔ x ∈ s.pool ∨ x = k' := by intro x; simp
      generalize s.pool ++ [k'] = P' at *
      pinv_all h
    next => simp at hs
  next => simp at hs

theorem pinv_rinvoke {s s' : St} {t : Tid} {op : GOp} (h : PInv s) (hs : rinvoke s t op = some s') : PInv s' := by
  unfold rinvoke at hs
  split at hs
  · split at hs
    · exact pinv_poolAlloc h hs
    · cases hs
  · split at hs
    · split at hs
      · exact pinv_poolFree h hs
      · cases hs
    · exact pinv_invoke h hs

theorem rapply_cases {s s' : St} {t : Tid} {a : Act} {o : Obs} (hap : rmodel.apply s t a = some (s', o)) :
    (∃ op, a = .invoke op ∧ rinvoke s t op = some s') ∨
    (∃ ev, a = .step ∧ rstep s t = some (s', ev) ∧ o = .ev ev) ∨
    (∃ r, a = .ret ∧ rresult s t = some (s', r)) := by
  cases a with
  | invoke op =>
    simp only [Model.apply, rmodel, Option.map_eq_some_iff] at hap
    obtain ⟨s1, hs1, heq⟩ := hap
    simp only [Prod.mk.injEq] at heq
    obtain ⟨rfl, -⟩ := heq
    exact Or.inl ⟨op, rfl, hs1⟩
  | step =>
    simp only [Model.apply, rmodel, Option.map_eq_some_iff] at hap
    obtain ⟨⟨s1, e⟩, hs1, heq⟩ := hap
    simp only [Prod.mk.injEq] at heq
    obtain ⟨rfl, rfl⟩ := heq
    exact Or.inr (Or.inl ⟨e, rfl, hs1, rfl⟩)
  | ret =>
    simp only [Model.apply, rmodel, Option.map_eq_some_iff] at hap
    obtain ⟨⟨s1, r⟩, hs1, heq⟩ := hap
    simp only [Prod.mk.injEq] at heq
    obtain ⟨rfl, -⟩ := heq
    exact Or.inr (Or.inr ⟨r, rfl, hs1⟩)

theorem rpinv_apply (s : St) (t : Tid) (a : Act) (s' : St) (o : Obs) (h : PInv s)
    (hap : rmodel.apply s t a = some (s', o)) : PInv s' := by
  rcases rapply_cases hap with ⟨op, -, hs⟩ | ⟨ev, -, hs, -⟩ | ⟨r, -, hs⟩
  · exact pinv_rinvoke h hs
  · exact pinv_step h (rstep_sub hs)
  · exact pinv_result h (rresult_sub hs)

/-- Every state the replay machine reaches, under any schedule and ANY choices of the pool, satisfies `PInv`. -/
theorem rpinv_reachable (cap : Nat) (s : St) (h : rmodel.Reachable (init cap) s) : PInv s :=
  rmodel.inv_reachable PInv (init cap) (pinv_init cap) rpinv_apply s h

/-! ### The two transition theorems of C22, for the replay machine -/

theorem rinvoke_frame {s s' : St} {t : Tid} {op : GOp} (hs : rinvoke s t op = some s') :
    (∀ n, s'.plock n = s.plock n ∨ s.plock n = none) ∧
    (s'.pool = s.pool ∨ (∃ k, s'.pool = s.pool.erase k) ∨ ∃ k, s.pc t = .fin (some k) ∧ s'.pool = s.pool ++ [k]) := by
  unfold rinvoke at hs
  split at hs
  · split at hs
    · unfold poolAlloc at hs
      split at hs
      next n cur hpc =>
        split at hs
        next hg =>
          simp at hs; subst hs
          refine ⟨fun n' => ?_, Or.inr (Or.inl ⟨_, rfl⟩)⟩
          dsimp only
          by_cases hn : n' = n
          · subst hn; exact Or.inr hg.1
          · left; simp [upd, hn]
        next => simp at hs
      next => simp at hs
    · cases hs
  · split at hs
    · split at hs
      · unfold poolFree at hs
        split at hs
        next k' hpc =>
          split at hs
          next he => subst he; simp at hs; subst hs; exact ⟨fun _ => Or.inl rfl, Or.inr (Or.inr ⟨_, hpc, rfl⟩)⟩
          next => simp at hs
        next => simp at hs
      · cases hs
    · have := invoke_frame hs
      exact ⟨fun n => Or.inl (by rw [this.1]), Or.inl this.2⟩

/-- (c) for the replay machine: a lock is detached from its node only by the final store of an `unlock` whose CAS saw exactly
    one reference; nobody is inside the critical section, holds the lock, or is between reference increment and acquisition. -/
theorem rdetach_only_last {s s' : St} {t : Tid} {a : Act} {o : Obs} (h : PInv s)
    (hap : rmodel.apply s t a = some (s', o)) (n k : Nat) (h0 : s.plock n = some k) (h1 : s'.plock n ≠ some k) :
    a = .step ∧ s.pc t = .unSt n 2 ∧ s.refspin n = 3 ∧ s.users n = [t] ∧
    s'.plock n = none ∧ s'.users n = [] ∧ s'.refspin n = 0 ∧ s'.pc t = .fin (some k) ∧
    s.lheld k = false ∧ (∀ t', s.cs t' n = false) ∧ (∀ t', refNode (s.pc t') = some n → t' = t) := by
  rcases rapply_cases hap with ⟨op, rfl, hs⟩ | ⟨ev, rfl, hs, -⟩ | ⟨r, rfl, hs⟩
  · rcases (rinvoke_frame hs).1 n with he | he
    · rw [he] at h1; exact absurd h0 h1
    · rw [he] at h0; cases h0
  · have hm : model.apply s t .step = some (s', .ev ev) := by
      simp [Model.apply, model, rstep_sub hs]
    exact detach_only_last h hm n k h0 h1
  · have hm : model.apply s t .ret = some (s', .ret r) := by
      simp [Model.apply, model, rresult_sub hs]
    exact detach_only_last h hm n k h0 h1

/-- (c) for the replay machine: a lock enters the free bag only by the `pool_free` of the thread that detached it, and at
    that moment it is held by nobody, attached to no node, and no thread is about to acquire it or waiting for it. -/
theorem rdealloc_only_unused {s s' : St} {t : Tid} {a : Act} {o : Obs} (h : PInv s)
    (hap : rmodel.apply s t a = some (s', o)) (k : Nat) (h0 : k ∉ s.pool) (h1 : k ∈ s'.pool) :
    (∃ op, a = .invoke op ∧ op.name = "pool_free") ∧ s.pc t = .fin (some k) ∧ s.lheld k = false ∧ s.lowner k = none ∧
    (∀ n, s.plock n ≠ some k) ∧ (∀ t' n, s.pc t' ≠ .lkTas n k) ∧ (∀ t' n, s.pc t' ≠ .lkWait n k) ∧
    (∀ t', s.pc t' = .fin (some k) → t' = t) := by
  rcases rapply_cases hap with ⟨op, rfl, hs⟩ | ⟨ev, rfl, hs, -⟩ | ⟨r, rfl, hs⟩
  · rcases (rinvoke_frame hs).2 with hp | ⟨k', hp⟩ | ⟨k', hpc, hp⟩
    · rw [hp] at h1; exact absurd h1 h0
    · rw [hp] at h1; exact absurd (List.mem_of_mem_erase h1) h0
    · rw [hp] at h1
      have hk : k = k' := by simpa [h0] using h1
      subst hk
      have hname : op.name = "pool_free" := by
        unfold rinvoke at hs
        split at hs
        next hn =>
          split at hs
          · unfold poolAlloc at hs; rw [hpc] at hs; simp at hs
          · cases hs
        next hn =>
          split at hs
          next hn2 => exact hn2
          next hn2 =>
            exfalso
            unfold invoke at hs
            rw [hpc] at hs
            simp at hs
      have hown := h.fown t k hpc
      refine ⟨⟨op, rfl, hname⟩, hpc, h.lh1 k hown, hown, fun n => h.fatt t k n hpc, ?_, ?_,
              fun t' ht' => h.funi t' t k ht' hpc⟩
      · intro t' n hq; exact h.fatt t k n hpc (h.pTas t' n k hq)
      · intro t' n hq; exact h.fatt t k n hpc (h.pWait t' n k hq)
  · exact absurd (step_pool (rstep_sub hs) k h1) h0
  · rcases (result_frame (rresult_sub hs)).2 with hp | ⟨k', hpc, hp⟩
    · rw [hp] at h1; exact absurd h1 h0
    · exfalso
      unfold rresult at hs
      rw [hpc] at hs
      cases hs

/-! ### Model is the FIFO special case -/

theorem run_append {σ : Type} (m : Model σ) : ∀ (a b : List (Tid × Act)) (s0 s1 s2 : σ) (o1 o2 : List (Tid × Obs)),
    m.run s0 a = some (s1, o1) → m.run s1 b = some (s2, o2) → m.run s0 (a ++ b) = some (s2, o1 ++ o2) := by
  intro a
  induction a with
  | nil =>
    intro b s0 s1 s2 o1 o2 h1 h2
    simp [Model.run] at h1
    obtain ⟨rfl, rfl⟩ := h1
    simpa using h2
  | cons x rest ih =>
    intro b s0 s1 s2 o1 o2 h1 h2
    obtain ⟨t, act⟩ := x
    simp only [Model.run, List.cons_append] at h1 ⊢
    cases hap : m.apply s0 t act with
    | none => simp [hap] at h1
    | some p =>
      obtain ⟨sa, o⟩ := p
      simp only [hap] at h1 ⊢
      cases hrr : m.run sa rest with
      | none => simp [hrr] at h1
      | some q =>
        obtain ⟨sb, os⟩ := q
        simp only [hrr, Option.some.injEq, Prod.mk.injEq] at h1
        obtain ⟨rfl, rfl⟩ := h1
        rw [ih b sa sb s2 os o2 hrr h2]
        simp

/-- `lock` / `unlock` are invoked in the replay machine as in Model. -/
theorem model_invoke_sim {s s' : St} {t : Tid} {op : GOp} (hs : invoke s t op = some s') : rinvoke s t op = some s' := by
  have hn : op.name = "lock" ∨ op.name = "unlock" := by
    unfold invoke at hs
    split at hs
    next h1 h2 h3 => exact Or.inl h2
    next h1 h2 h3 => exact Or.inr h2
    · cases hs
  unfold rinvoke
  rcases hn with hn | hn <;> simp [hn, hs]

/-- A step of Model is the same step of the replay machine, or — the store that ends the spin-bit section of `lock` on a node
    without a lock — the pool's choice of the FIFO head (or of the next fresh id) followed by that store. -/
theorem model_step_sim {s s' : St} {t : Tid} {ev : Ev} (h : PInv s) (hs : step s t = some (s', ev)) :
    rstep s t = some (s', ev) ∨
    ∃ k s1, rinvoke s t ⟨"pool_alloc", [(t : Int), (k : Int)]⟩ = some s1 ∧ rstep s1 t = some (s', ev) := by
  cases hpc : s.pc t with
  | lkSt n cur =>
    cases hp : s.plock n with
    | some k => left; simp [rstep, hpc, hp, hs]
    | none =>
      right
      simp only [step, hpc, hp] at hs
      split at hs
      next k rest hpool =>
        simp at hs; obtain ⟨rfl, rfl⟩ := hs
        have hk : k ∈ s.pool := by simp [hpool]
        have hlt := h.pfr k hk
        refine ⟨k, { s with plock := upd s.plock n (some k), pool := s.pool.erase k,
                                 fresh := if k < s.fresh then s.fresh else k + 1 }, ?_, ?_⟩
        · simp [rinvoke, poolAlloc, hpc, hp, hk]
        · simp [rstep, step, upd, hpc, hlt, hpool]
      next hpool =>
        simp at hs; obtain ⟨rfl, rfl⟩ := hs
        refine ⟨s.fresh, { s with plock := upd s.plock n (some s.fresh), pool := s.pool.erase s.fresh,
                                       fresh := if s.fresh < s.fresh then s.fresh else s.fresh + 1 }, ?_, ?_⟩
        · simp [rinvoke, poolAlloc, hpc, hp]
        · simp [rstep, step, upd, hpc, hpool]
  | idle => left; simpa [rstep, hpc] using hs
  | lkLd n => left; simpa [rstep, hpc] using hs
  | lkCas n c => left; simpa [rstep, hpc] using hs
  | lkTas n k => left; simpa [rstep, hpc] using hs
  | lkWait n k => left; simpa [rstep, hpc] using hs
  | unRel n => left; simpa [rstep, hpc] using hs
  | unLd n => left; simpa [rstep, hpc] using hs
  | unCas n c => left; simpa [rstep, hpc] using hs
  | unSt n c => left; simpa [rstep, hpc] using hs
  | fin k => left; simpa [rstep, hpc] using hs
  | done r => left; simpa [rstep, hpc] using hs

/-- A return of Model is the same return of the replay machine, or — `unlock` returning with a detached lock — the pool taking
    the lock back followed by the return. -/
theorem model_result_sim {s s' : St} {t : Tid} {r : GRet} (hs : result s t = some (s', r)) :
    rresult s t = some (s', r) ∨
    ∃ k s1, rinvoke s t ⟨"pool_free", [(t : Int), (k : Int)]⟩ = some s1 ∧ rresult s1 t = some (s', r) := by
  cases hpc : s.pc t with
  | fin ko =>
    cases ko with
    | none => left; simpa [rresult, hpc] using hs
    | some k =>
      right
      simp [result, hpc] at hs
      obtain ⟨rfl, rfl⟩ := hs
      refine ⟨k, { s with pool := s.pool ++ [k], pc := upd s.pc t (.fin none) }, ?_, ?_⟩
      · simp [rinvoke, poolFree, hpc]
      · simp [rresult, result, upd]
        funext j; by_cases hj : j = t <;> simp [upd, hj]
  | idle => left; simpa [rresult, hpc] using hs
  | lkLd n => left; simpa [rresult, hpc] using hs
  | lkCas n c => left; simpa [rresult, hpc] using hs
  | lkSt n c => left; simpa [rresult, hpc] using hs
  | lkTas n k => left; simpa [rresult, hpc] using hs
  | lkWait n k => left; simpa [rresult, hpc] using hs
  | unRel n => left; simpa [rresult, hpc] using hs
  | unLd n => left; simpa [rresult, hpc] using hs
  | unCas n c => left; simpa [rresult, hpc] using hs
  | unSt n c => left; simpa [rresult, hpc] using hs
  | done r' => left; simpa [rresult, hpc] using hs

/-- Every action of Model is a run of one or two actions of the replay machine with the same end state. -/
theorem model_apply_sim {s s' : St} {t : Tid} {a : Act} {o : Obs} (h : PInv s)
    (hap : model.apply s t a = some (s', o)) : ∃ sched os, rmodel.run s sched = some (s', os) := by
  rcases apply_cases hap with ⟨op, rfl, hs⟩ | ⟨ev, rfl, hs, -⟩ | ⟨r, rfl, hs⟩
  · exact ⟨[(t, .invoke op)], [(t, .call op)], by simp [Model.run, Model.apply, rmodel, model_invoke_sim hs]⟩
  · rcases model_step_sim h hs with h1 | ⟨k, s1, h1, h2⟩
    · exact ⟨[(t, .step)], [(t, .ev ev)], by simp [Model.run, Model.apply, rmodel, h1]⟩
    · exact ⟨[(t, .invoke ⟨"pool_alloc", [(t : Int), (k : Int)]⟩), (t, .step)], _,
        by simp [Model.run, Model.apply, rmodel, h1, h2]; rfl⟩
  · rcases model_result_sim hs with h1 | ⟨k, s1, h1, h2⟩
    · exact ⟨[(t, .ret)], [(t, .ret r)], by simp [Model.run, Model.apply, rmodel, h1]⟩
    · exact ⟨[(t, .invoke ⟨"pool_free", [(t : Int), (k : Int)]⟩), (t, .ret)], _,
        by simp [Model.run, Model.apply, rmodel, h1, h2]; rfl⟩

theorem model_run_sim : ∀ (sched : List (Tid × Act)) (s0 s : St) (os : List (Tid × Obs)), PInv s0 →
    model.run s0 sched = some (s, os) → ∃ sched' os', rmodel.run s0 sched' = some (s, os') := by
  intro sched
  induction sched with
  | nil =>
    intro s0 s os _ hr
    simp [Model.run] at hr
    exact ⟨[], [], by simp [Model.run, hr.1]⟩
  | cons x rest ih =>
    intro s0 s os hi hr
    obtain ⟨t, a⟩ := x
    simp only [Model.run] at hr
    cases hap : model.apply s0 t a with
    | none => simp [hap] at hr
    | some p =>
      obtain ⟨s1, o⟩ := p
      simp only [hap] at hr
      cases hrr : model.run s1 rest with
      | none => simp [hrr] at hr
      | some q =>
        obtain ⟨s2, os2⟩ := q
        simp only [hrr, Option.some.injEq, Prod.mk.injEq] at hr
        obtain ⟨rfl, -⟩ := hr
        obtain ⟨p1, o1, hp1⟩ := model_apply_sim hi hap
        obtain ⟨p2, o2, hp2⟩ := ih s1 s2 os2 (pinv_apply s0 t a s1 o hi hap) hrr
        exact ⟨p1 ++ p2, o1 ++ o2, run_append rmodel p1 p2 s0 s1 s2 o1 o2 hp1 hp2⟩

/-- The machine of Model (FIFO pool, pool calls folded into the neighbouring steps) is a special case of the replay machine:
    every state it reaches is reached by the replay machine. -/
theorem model_reachable_replay (cap : Nat) (s : St) (h : model.Reachable (init cap) s) :
    rmodel.Reachable (init cap) s := by
  obtain ⟨sched, os, hr⟩ := h
  exact model_run_sim sched (init cap) s os (pinv_init cap) hr

/-! ### Driver side -/

/-- Locations of the replay vocabulary: node words and pool lock words. -/
def relevantLoc (loc : String) : Bool := loc.startsWith "N" || loc.startsWith "P"

/-- Initial state from the header word `cap=<number of preallocated pool locks>`. -/
def initCfg (cfg : List String) : St :=
  match cfg.find? (·.startsWith "cap=") with
  | some w => init (w.drop 4).toString.toNat!
  | none => init 0

end CdsVerif.Algo.PoolMonitor

/-
  Preservation of the split-list invariant by the steps of `get_bucket` / `init_bucket` (loads of the bucket count and of
  bucket pointers, allocation of a dummy node, publication of a bucket pointer, waiting for another thread's
  publication).  The insertion of the dummy node itself is a MichaelList insertion: `StepSearch.lean`, `StepCas.lean`.
-/
import CdsVerif.Algo.SplitList.Mono
namespace CdsVerif.Algo.SplitList
open CdsVerif.Machine CdsVerif.Spec CdsVerif.Lin
open CdsVerif.Algo.Michael (LPok isRO)

theorem sinvl_step_gCnt {c : Cfg} {s s' : St} {t : Tid} {ev : Ev} {L : List Nat} {o : Top}
    (h : SInvL c s L) (hpc : s.pc t = .gCnt o) (hs : step c s t = some (s', ev)) :
    ∃ L', SInvL c s' L' ∧ StepEff c s t s' L L' := by
  have ht := h.thr t; rw [hpc] at ht
  have hpre := pre_mod (c := c) (h := c.hash (tkey s.uk o)) h.g.cntb
  simp only [step, hpc] at hs
  simp only [Option.some.injEq, Prod.mk.injEq] at hs; obtain ⟨rfl, -⟩ := hs
  refine ⟨L, ⟨h.g, forall_upd (P := TOk c (mem! s) L) (fun t2 _ => h.thr t2) ?tok, h.own.upd t _ ?oi ?od ?oe⟩, ?eff⟩
  case tok => obtain ⟨h1, -⟩ := ht; tok_close
  case oi => own_close
  case od => own_close
  case oe => own_close
  case eff => eff_close

theorem sinvl_step_gTab {c : Cfg} (hc : SOHyp c) {s s' : St} {t : Tid} {ev : Ev} {L : List Nat} {o : Top} {b : Nat}
    (h : SInvL c s L) (hpc : s.pc t = .gTab o b) (hs : step c s t = some (s', ev)) :
    ∃ L', SInvL c s' L' ∧ StepEff c s t s' L L' := by
  have ht := h.thr t; rw [hpc] at ht
  have hitem := ht.item
  have hbk := ht.bkt o b (by simp [pcTop]) (by simp [pcBkt])
  have htab := h.g.tab b
  have ht0 := h.g.tab0
  simp only [step, hpc] at hs
  split at hs
  next d hd =>
    simp only [Option.some.injEq, Prod.mk.injEq] at hs; obtain ⟨rfl, -⟩ := hs
    refine ⟨L, ⟨h.g, forall_upd (P := TOk c (mem! s) L) (fun t2 _ => h.thr t2) ?tok, h.own.upd t _ ?oi ?od ?oe⟩, ?eff⟩
    case tok => exact tok_start hc h.g (fun n e => hitem n (by simp [pcTop, e])) hbk (htab d hd)
    case oi => own_close
    case od => own_close
    case oe => own_close
    case eff => eff_close
  next hd =>
    simp only [Option.some.injEq, Prod.mk.injEq] at hs; obtain ⟨rfl, -⟩ := hs
    refine ⟨L, ⟨h.g, forall_upd (P := TOk c (mem! s) L) (fun t2 _ => h.thr t2) ?tok, h.own.upd t _ ?oi ?od ?oe⟩, ?eff⟩
    case tok =>
      have hb0 : 0 < b := by
        apply Classical.byContradiction; intro hn
        have : b = 0 := by omega
        rw [this, ht0] at hd; simp at hd
      obtain ⟨h1, -⟩ := ht; tok_close
    case oi => own_close
    case od => own_close
    case oe => own_close
    case eff => eff_close

theorem sinvl_step_iPar {c : Cfg} {s s' : St} {t : Tid} {ev : Ev} {L : List Nat} {o : Top} {b : Nat} {rest : List Nat}
    (h : SInvL c s L) (hpc : s.pc t = .iPar o (b :: rest)) (hs : step c s t = some (s', ev)) :
    ∃ L', SInvL c s' L' ∧ StepEff c s t s' L L' := by
  have ht := h.thr t; rw [hpc] at ht
  have hpre := ht.stkPre o
  have htab := h.g.tab (parent b)
  have ht0 := h.g.tab0
  have hpp := fun hb => pre_parent (c := c) (h := c.hash (tkey s.uk o)) (b := b) (hpre b (by simp [pcTop]) (by simp [pcStk])).2 hb
  simp only [step, hpc] at hs
  split at hs
  next pp hd =>
    simp only [Option.some.injEq, Prod.mk.injEq] at hs; obtain ⟨rfl, -⟩ := hs
    refine ⟨L, ⟨h.g, forall_upd (P := TOk c (mem! s) L) (fun t2 _ => h.thr t2) ?tok, h.own.upd t _ ?oi ?od ?oe⟩, ?eff⟩
    case tok => have := htab pp hd; obtain ⟨h1, -, -, -, -, -, -, -, -, -, -, -, -, -, h15, h16, -⟩ := ht; tok_close
    case oi => own_close
    case od => own_close
    case oe => own_close
    case eff => eff_close
  next hd =>
    simp only [Option.some.injEq, Prod.mk.injEq] at hs; obtain ⟨rfl, -⟩ := hs
    refine ⟨L, ⟨h.g, forall_upd (P := TOk c (mem! s) L) (fun t2 _ => h.thr t2) ?tok, h.own.upd t _ ?oi ?od ?oe⟩, ?eff⟩
    case tok =>
      have hb0 : 0 < parent b := by
        apply Classical.byContradiction; intro hn
        have : parent b = 0 := by omega
        rw [this, ht0] at hd; simp at hd
      have hb1 := (hpre b (by simp [pcTop]) (by simp [pcStk])).1
      have hpp' := hpp hb1
      obtain ⟨h1, -, -, -, -, -, -, -, -, -, -, -, -, -, h15, h16, -⟩ := ht; tok_close
    case oi => own_close
    case od => own_close
    case oe => own_close
    case eff => eff_close

theorem sinvl_step_iBkt {c : Cfg} (hc : SOHyp c) {s s' : St} {t : Tid} {ev : Ev} {L : List Nat} {o : Top} {b pp : Nat}
    {rest : List Nat}
    (h : SInvL c s L) (hpc : s.pc t = .iBkt o (b :: rest) pp) (hs : step c s t = some (s', ev)) :
    ∃ L', SInvL c s' L' ∧ StepEff c s t s' L L' := by
  have ht := h.thr t; rw [hpc] at ht
  have hitem := ht.item
  have hpre := ht.stkPre o
  have hpar := ht.stkPar
  have htab := h.g.tab b
  simp only [step, hpc] at hs
  split at hs
  next d hd =>
    simp only [Option.some.injEq, Prod.mk.injEq] at hs; obtain ⟨rfl, -⟩ := hs
    refine ⟨L, ⟨h.g, forall_upd (P := TOk c (mem! s) L) (fun t2 _ => h.thr t2) ?tok, h.own.upd t _ ?oi ?od ?oe⟩, ?eff⟩
    case tok =>
      exact tok_initRet hc h.g (fun n e => hitem n (by simp [pcTop, e])) (fun x hx => hpre x (by simp [pcTop]) (by simpa [pcStk] using hx))
        (by simpa [pcStk] using hpar) (htab d hd)
    case oi => cases rest <;> own_close
    case od => cases rest <;> own_close
    case oe => cases rest <;> own_close
    case eff => cases rest <;> (simp only [initRet]; eff_close)
  next hd =>
    simp only [Option.some.injEq, Prod.mk.injEq] at hs; obtain ⟨rfl, -⟩ := hs
    refine ⟨L, ⟨h.g, forall_upd (P := TOk c (mem! s) L) (fun t2 _ => h.thr t2) ?tok, h.own.upd t _ ?oi ?od ?oe⟩, ?eff⟩
    case tok => obtain ⟨h1, -, -, -, -, -, -, -, -, -, -, -, -, -, h15, h16, -, h18, -⟩ := ht; tok_close
    case oi => own_close
    case od => own_close
    case oe => own_close
    case eff => eff_close

theorem sinvl_step_iAl1 {c : Cfg} {s s' : St} {t : Tid} {ev : Ev} {L : List Nat} {o : Top} {pp : Nat} {stk : List Nat}
    (h : SInvL c s L) (hpc : s.pc t = .iAl1 o stk pp) (hs : step c s t = some (s', ev)) :
    ∃ L', SInvL c s' L' ∧ StepEff c s t s' L L' := by
  have ht := h.thr t; rw [hpc] at ht
  simp only [step, hpc] at hs
  simp only [Option.some.injEq, Prod.mk.injEq] at hs; obtain ⟨rfl, -⟩ := hs
  refine ⟨L, ⟨h.g, forall_upd (P := TOk c (mem! s) L) (fun t2 _ => h.thr t2) ?tok, h.own.upd t _ ?oi ?od ?oe⟩, ?eff⟩
  case tok => obtain ⟨h1, -, -, -, -, -, -, -, -, -, -, -, -, -, h15, h16, -, h18, -⟩ := ht; tok_close
  case oi => own_close
  case od => own_close
  case oe => own_close
  case eff => eff_close

theorem sinvl_step_iWait {c : Cfg} (hc : SOHyp c) {s s' : St} {t : Tid} {ev : Ev} {L : List Nat} {o : Top} {b : Nat}
    {rest : List Nat}
    (h : SInvL c s L) (hpc : s.pc t = .iWait o (b :: rest)) (hs : step c s t = some (s', ev)) :
    ∃ L', SInvL c s' L' ∧ StepEff c s t s' L L' := by
  have ht := h.thr t; rw [hpc] at ht
  have hitem := ht.item
  have hpre := ht.stkPre o
  have hpar := ht.stkPar
  have htab := h.g.tab b
  simp only [step, hpc] at hs
  split at hs
  next d hd =>
    simp only [Option.some.injEq, Prod.mk.injEq] at hs; obtain ⟨rfl, -⟩ := hs
    refine ⟨L, ⟨h.g, forall_upd (P := TOk c (mem! s) L) (fun t2 _ => h.thr t2) ?tok, h.own.upd t _ ?oi ?od ?oe⟩, ?eff⟩
    case tok =>
      exact tok_initRet hc h.g (fun n e => hitem n (by simp [pcTop, e])) (fun x hx => hpre x (by simp [pcTop]) (by simpa [pcStk] using hx))
        (by simpa [pcStk] using hpar) (htab d hd)
    case oi => cases rest <;> own_close
    case od => cases rest <;> own_close
    case oe => cases rest <;> own_close
    case eff => cases rest <;> (simp only [initRet]; eff_close)
  next hd =>
    simp only [Option.some.injEq, Prod.mk.injEq] at hs; obtain ⟨rfl, -⟩ := hs
    refine ⟨L, ⟨h.g, forall_upd (P := TOk c (mem! s) L) (fun t2 _ => h.thr t2) ?tok, h.own.upd t _ ?oi ?od ?oe⟩, ?eff⟩
    case tok => rw [← hpc]; exact h.thr t
    case oi => own_close
    case od => own_close
    case oe => own_close
    case eff => eff_close

theorem sinvl_step_iPub {c : Cfg} (hc : SOHyp c) {s s' : St} {t : Tid} {ev : Ev} {L : List Nat} {o : Top} {b m : Nat}
    {rest : List Nat}
    (h : SInvL c s L) (hpc : s.pc t = .iPub o (b :: rest) m) (hs : step c s t = some (s', ev)) :
    ∃ L', SInvL c s' L' ∧ StepEff c s t s' L L' := by
  have ht := h.thr t; rw [hpc] at ht
  have hitem := ht.item
  have hpre := ht.stkPre o
  have hpar := ht.stkPar
  have hpub := ht.pub m b rest (by simp [pcPub]) (by simp [pcStk])
  have hb0 := (hpre b (by simp [pcTop]) (by simp [pcStk])).1
  have hg := h.g
  simp only [step, hpc] at hs
  simp only [Option.some.injEq, Prod.mk.injEq] at hs; obtain ⟨rfl, -⟩ := hs
  refine ⟨L, ⟨⟨hg.chain, hg.sorted, hg.alloc, hg.unalloc, hg.dmark, hg.regso, hg.dumso, hg.succ, ?tab, ?tab0, hg.cntb⟩,
    forall_upd (P := TOk c (mem! s) L) (fun t2 _ => h.thr t2) ?tok, h.own.upd t _ ?oi ?od ?oe⟩, ?eff⟩
  case tab =>
    intro b2 d2 hd2
    dsimp only at hd2 ⊢
    by_cases e : b2 = b
    · subst e; rw [upd_same] at hd2; injection hd2 with e2; subst e2; exact hpub
    · rw [upd_other _ _ _ _ e] at hd2; exact hg.tab b2 d2 hd2
  case tab0 =>
    dsimp only
    rw [upd_other _ _ _ _ (by omega)]; exact hg.tab0
  case tok =>
    exact tok_initRet hc hg (fun n e => hitem n (by simp [pcTop, e])) (fun x hx => hpre x (by simp [pcTop]) (by simpa [pcStk] using hx))
      (by simpa [pcStk] using hpar) hpub
  case oi => cases rest <;> own_close
  case od => cases rest <;> own_close
  case oe => cases rest <;> own_close
  case eff =>
    have hsame : ∀ d2, s.table b = some d2 → d2 = m := fun d2 e =>
      sorted_inj hg.sorted d2 m (hg.tab b d2 e).1 hpub.1 (by rw [(hg.tab b d2 e).2.2.1, hpub.2.2.1])
        (by rw [(hg.tab b d2 e).2.2.2, hpub.2.2.2])
    have hpb : ∀ b2 d2, s.table b2 = some d2 → upd s.table b (some m) b2 = some d2 := by
      intro b2 d2 hd2; by_cases e : b2 = b
      · subst e; rw [upd_same, hsame d2 hd2]
      · rw [upd_other _ _ _ _ e]; exact hd2
    cases rest <;> (simp only [initRet]; eff_close)

theorem has_congr_L {mark : Nat → Bool} {uk uk' val val' : Nat → Int} {L : List Nat}
    (h : ∀ a, a ∈ L → uk' a = uk a ∧ val' a = val a) (k v : Int) : Has mark uk' val' L k v ↔ Has mark uk val L k v := by
  unfold Has
  constructor
  · rintro ⟨a, ha, h0, h1, h2, h3⟩
    exact ⟨a, ha, h0, h1, by rw [← (h a ha).1]; exact h2, by rw [← (h a ha).2]; exact h3⟩
  · rintro ⟨a, ha, h0, h1, h2, h3⟩
    exact ⟨a, ha, h0, h1, by rw [(h a ha).1]; exact h2, by rw [(h a ha).2]; exact h3⟩

/-- What a thread's bookkeeping reads is allocated. -/
theorem TOk.refs_alloc {c : Cfg} {m : Mem} {tb : Nat → Option Nat} {k2 : Nat} {L : List Nat} {pc : PC}
    (h : TOk c m L pc) (g : GOk c m tb k2 L) {a : Nat} (ha : pcRefs pc a) : Alloc m a := by
  rcases ha with e | e | e
  · exact (h.item a e).2.1
  · exact (h.dumPriv a e).2.1
  · exact g.lk_alloc (h.lkCur a e)

set_option maxHeartbeats 8000000 in
theorem sinvl_step_iAl2 {c : Cfg} (hc : SOHyp c) {s s' : St} {t : Tid} {ev : Ev} {L : List Nat} {o : Top} {b pp : Nat}
    {rest : List Nat}
    (h : SInvL c s L) (hpc : s.pc t = .iAl2 o (b :: rest) pp) (hs : step c s t = some (s', ev)) :
    ∃ L', SInvL c s' L' ∧ StepEff c s t s' L L' := by
  have ht := h.thr t; rw [hpc] at ht
  have hpp := ht.pp pp b rest (by simp [pcPP]) (by simp [pcStk])
  have hpre := ht.stkPre o b (by simp [pcTop]) (by simp [pcStk])
  have hpd := hc.parDum _ _ hpre.2 hpre.1
  have hde := hc.dumEven b
  dsimp only at hpp hpre
  have hf : ¬ Alloc (mem! s) (2 * s.acnt) := by unfold Alloc; dsimp only; omega
  have hfa : ∀ a, Alloc (mem! s) a → a ≠ 2 * s.acnt := fun a ha e => hf (e ▸ ha)
  have hfL : 2 * s.acnt ∉ L := fun hm => hf (h.g.alloc _ hm)
  have hso : ∀ a, a ≠ 2 * s.acnt → upd s.so (2 * s.acnt) (c.dum b) a = s.so a := fun a e => upd_other _ _ _ _ e
  have huk : ∀ a, a ≠ 2 * s.acnt → upd s.uk (2 * s.acnt) 0 a = s.uk a := fun a e => upd_other _ _ _ _ e
  have hal : ∀ a, Alloc ⟨s.next, s.mark, upd s.so (2 * s.acnt) (c.dum b), upd s.uk (2 * s.acnt) 0, s.val, s.cnt, s.acnt + 1⟩ a ↔
      (Alloc (mem! s) a ∨ a = 2 * s.acnt) := by
    intro a; unfold Alloc; dsimp only; omega
  have hfresh : ∀ t2, pcDum (s.pc t2) ≠ some (2 * s.acnt) := fun t2 e => hf ((h.thr t2).dumPriv _ e).2.1
  have hhas := has_congr_L (mark := s.mark) (uk := s.uk) (uk' := upd s.uk (2 * s.acnt) 0) (val := s.val) (val' := s.val) (L := L)
    (fun a ha => ⟨huk a (hfa a (h.g.alloc a ha)), rfl⟩)
  simp only [step, hpc] at hs
  simp only [Option.some.injEq, Prod.mk.injEq] at hs; obtain ⟨rfl, -⟩ := hs
  have g' : GOk c ⟨s.next, s.mark, upd s.so (2 * s.acnt) (c.dum b), upd s.uk (2 * s.acnt) 0, s.val, s.cnt, s.acnt + 1⟩
      s.table s.cnt2 L :=
    h.g.allocNode hf rfl rfl hso huk hal (by intro e; omega) (by intro _; dsimp only; rw [upd_same]; exact hde)
  have thr' : ∀ t2, TOk c ⟨s.next, s.mark, upd s.so (2 * s.acnt) (c.dum b), upd s.uk (2 * s.acnt) 0, s.val, s.cnt, s.acnt + 1⟩
      L (s.pc t2) := fun t2 => (h.thr t2).allocNode h.g hf rfl rfl hso huk (fun a ha => (hal a).mpr (Or.inl ha))
  have ht' := thr' t; rw [hpc] at ht'
  refine ⟨L, ⟨g', forall_upd (P := TOk c _ L) (fun t2 _ => thr' t2) ?tok, h.own.upd t _ ?oi ?od ?oe⟩, ?eff⟩
  case tok =>
    have hself := (hal (2 * s.acnt)).mpr (Or.inr rfl)
    have hppne := hfa pp (h.g.alloc pp hpp.1)
    obtain ⟨h1, h2, h3, h4, h5, h6, h7, h8, h9, h10, h11, h12, h13, h14, h15, h16, h17, h18, h19⟩ := ht'
    tok_close
  case oi => own_close
  case od => own_close
  case oe => own_close
  case eff =>
    have hlps : ∀ t2, t2 ≠ t → lpRet c (upd s.so (2 * s.acnt) (c.dum b)) (upd s.uk (2 * s.acnt) 0) s.val (s.pc t2) =
        lpRet c s.so s.uk s.val (s.pc t2) := fun t2 _ =>
      lpRet_congr (fun a ha => by
        have := hfa a ((h.thr t2).refs_alloc h.g ha); exact ⟨hso a this, huk a this, rfl⟩)
    have hops : ∀ t2, t2 ≠ t → opOf (upd s.uk (2 * s.acnt) 0) s.val (s.pc t2) = opOf s.uk s.val (s.pc t2) := fun t2 _ =>
      opOf_congr (fun a ha => by
        have := hfa a ((h.thr t2).refs_alloc h.g ha); exact ⟨huk a this, rfl⟩)
    have hop : ∀ n, o = .ins n → upd s.uk (2 * s.acnt) 0 n = s.uk n := fun n e =>
      huk n (hfa n (ht.item n (by simp [pcTop, e])).2.1)
    have hgop : gop (upd s.uk (2 * s.acnt) 0) s.val o = gop s.uk s.val o :=
      gop_congr (fun n e => ⟨hop n e, rfl⟩)
    eff_close

end CdsVerif.Algo.SplitList

/-
  Inductive invariant of the `WeakRingBuffer<void>` machine (Model.lean): layout of the live region
  (records and tail markers exactly as the producer wrote them), no write into the live region,
  conservative caches, exact FIFO of the (size, payload id) records.
-/
import CdsVerif.Algo.VoidRing.Model
namespace CdsVerif.Algo.VoidRing
open CdsVerif.Machine CdsVerif.Spec

/-! ### Arithmetic -/

/-- Two logical positions less than one capacity apart occupy different cells. -/
theorem mod_ne_of_lt {cap a b : Nat} (h1 : a < b) (h2 : b < a + cap) : a % cap ≠ b % cap := by
  intro h
  have h3 : (b - a) % cap = 0 := Nat.sub_mod_eq_zero_of_mod_eq h.symm
  have h4 : (b - a) % cap = b - a := Nat.mod_eq_of_lt (by omega)
  omega

/-- An area that does not straddle the end of the buffer is addressed contiguously. -/
theorem mod_add_of_fit {cap p i : Nat} (h : p % cap + i < cap) : (p + i) % cap = p % cap + i := by
  have hi : i % cap = i := Nat.mod_eq_of_lt (by omega)
  rw [Nat.add_mod, hi]
  exact Nat.mod_eq_of_lt h

theorem mod_cap_mod8 {cap : Nat} (h8 : cap % 8 = 0) (p : Nat) : p % cap % 8 = p % 8 :=
  Nat.mod_mod_of_dvd p (Nat.dvd_of_mod_eq_zero h8)

theorem realSize_mod8 (sz : Nat) : realSize sz % 8 = 0 := by unfold realSize; omega
theorem realSize_ge (sz : Nat) : sz + 8 ≤ realSize sz := by unfold realSize; omega
theorem realSize_le (sz : Nat) : realSize sz ≤ sz + 15 := by unfold realSize; omega
theorem realSize_aligned (n : Nat) (h8 : n % 8 = 0) (h : 8 ≤ n) : realSize (n - 8) = n := by
  unfold realSize; omega

/-- A cell of the live region `[front, q)` is none of the `r` cells at `q mod cap` when the producer owns
    `[q, q + r)` (`q + r ≤ front + cap`). -/
theorem live_cell_ne {cap front q r j i : Nat} (h1 : front ≤ j) (h2 : j < q) (hroom : q + r ≤ front + cap)
    (hfit : q % cap + r ≤ cap) (hi : i < r) : j % cap ≠ q % cap + i := by
  rw [← mod_add_of_fit (by omega)]
  exact mod_ne_of_lt (by omega) (by omega)

/-! ### Cells -/

theorem wrRec_other (mem : Nat → Cell) (o sz : Nat) (id : Int) (c : Nat)
    (h : ∀ i, i < realSize sz → c ≠ o + i) : wrRec mem o sz id c = mem c := by
  have hr := realSize_ge sz
  have h0 := h 0 (by omega)
  unfold wrRec
  split
  · rename_i hc
    exact absurd (show c = o + (c - o) by omega) (h (c - o) (by omega))
  · split
    · omega
    · rfl

theorem wrRec_hdr (mem : Nat → Cell) (o sz : Nat) (id : Int) : wrRec mem o sz id o = .size sz := by
  unfold wrRec
  split
  · omega
  · simp

theorem wrRec_pay (mem : Nat → Cell) (o sz : Nat) (id : Int) (k : Nat) (hk : k < sz) :
    wrRec mem o sz id (o + 8 + k) = .pay id k := by
  unfold wrRec
  rw [if_pos (by omega)]
  congr 1
  omega

theorem payId_eq (mem : Nat → Cell) (o sz : Nat) (id : Int) (hsz : 0 < sz)
    (h : ∀ k, k < sz → mem (o + 8 + k) = .pay id k) : payId mem o sz = id := by
  have h0 := h 0 hsz
  unfold payId
  simp only [Nat.add_zero] at h0
  rw [h0]
  simp only
  rw [if_pos]
  simp only [List.all_eq_true, List.mem_range]
  intro k hk
  rw [h k hk]
  simp

/-! ### Layout of a region -/

/-- Segment `sg` is laid out at logical position `p` (offset `p mod cap`), not straddling the buffer end. -/
def SegAt (mem : Nat → Cell) (cap p : Nat) : Seg → Prop
  | .data sz id => mem (p % cap) = .size sz ∧ (∀ k, k < sz → mem (p % cap + 8 + k) = .pay id k) ∧
      p % cap + realSize sz ≤ cap ∧ 0 < sz
  | .tail n => mem (p % cap) = .tail (n - 8) ∧ 8 ≤ n ∧ n % 8 = 0 ∧ p % cap + n = cap ∧ n < cap

/-- The region `[p, q)` consists of exactly the segments `l`, back to back. -/
def Parses (mem : Nat → Cell) (cap : Nat) : Nat → Nat → List Seg → Prop
  | p, q, [] => p = q
  | p, q, sg :: l => SegAt mem cap p sg ∧ Parses mem cap (p + sg.len) q l

/-- The segment boundaries of a region starting at `p`. -/
def bounds : Nat → List Seg → List Nat
  | p, [] => [p]
  | p, sg :: l => p :: bounds (p + sg.len) l

theorem segAt_len {mem : Nat → Cell} {cap p : Nat} {sg : Seg} (h : SegAt mem cap p sg) :
    8 ≤ sg.len ∧ sg.len % 8 = 0 ∧ p % cap + sg.len ≤ cap := by
  cases sg with
  | data sz id =>
    have := realSize_ge sz; have := realSize_mod8 sz
    simp only [SegAt, Seg.len] at *
    omega
  | tail n =>
    simp only [SegAt, Seg.len] at *
    omega

theorem parses_le {mem : Nat → Cell} {cap : Nat} {l : List Seg} {p q : Nat} (h : Parses mem cap p q l) : p ≤ q := by
  induction l generalizing p with
  | nil => simp only [Parses] at h; omega
  | cons sg l ih =>
    simp only [Parses] at h
    have := ih h.2
    omega

theorem parses_head {mem : Nat → Cell} {cap : Nat} {l : List Seg} {p q : Nat} (h : Parses mem cap p q l) (hlt : p < q) :
    ∃ sg l', l = sg :: l' ∧ SegAt mem cap p sg ∧ Parses mem cap (p + sg.len) q l' := by
  cases l with
  | nil => simp only [Parses] at h; omega
  | cons sg l' => exact ⟨sg, l', rfl, h.1, h.2⟩

theorem parses_append {mem : Nat → Cell} {cap : Nat} {l : List Seg} {p q : Nat} (sg : Seg)
    (h : Parses mem cap p q l) (hs : SegAt mem cap q sg) : Parses mem cap p (q + sg.len) (l ++ [sg]) := by
  induction l generalizing p with
  | nil => simp only [Parses] at h; subst h; simp only [List.nil_append, Parses]; exact ⟨hs, trivial⟩
  | cons sg' l ih =>
    simp only [Parses] at h
    simp only [List.cons_append, Parses]
    exact ⟨h.1, ih h.2⟩

theorem segAt_frame {mem mem' : Nat → Cell} {cap p q : Nat} {sg : Seg} (h : SegAt mem cap p sg)
    (hq : p + sg.len ≤ q) (hm : ∀ j, p ≤ j → j < q → mem' (j % cap) = mem (j % cap)) : SegAt mem' cap p sg := by
  cases sg with
  | data sz id =>
    have := realSize_ge sz
    simp only [SegAt, Seg.len] at *
    obtain ⟨h1, h2, h3, h4⟩ := h
    refine ⟨?_, ?_, h3, h4⟩
    · rw [hm p (by omega) (by omega)]; exact h1
    · intro k hk
      have := hm (p + (8 + k)) (by omega) (by omega)
      rw [mod_add_of_fit (by omega)] at this
      rw [show p % cap + 8 + k = p % cap + (8 + k) by omega, this, ← h2 k hk]
      congr 1
      omega
  | tail n =>
    simp only [SegAt, Seg.len] at *
    obtain ⟨h1, h2, h3, h4, h5⟩ := h
    refine ⟨?_, h2, h3, h4, h5⟩
    rw [hm p (by omega) (by omega)]; exact h1

theorem parses_frame {mem mem' : Nat → Cell} {cap : Nat} {l : List Seg} {p q : Nat} (h : Parses mem cap p q l)
    (hm : ∀ j, p ≤ j → j < q → mem' (j % cap) = mem (j % cap)) : Parses mem' cap p q l := by
  induction l generalizing p with
  | nil => exact h
  | cons sg l ih =>
    simp only [Parses] at h ⊢
    have hle := parses_le h.2
    exact ⟨segAt_frame h.1 hle hm, ih h.2 (fun j h1 h2 => hm j (by omega) h2)⟩

theorem bounds_self (p : Nat) (l : List Seg) : p ∈ bounds p l := by
  cases l <;> simp [bounds]

theorem bounds_ge {l : List Seg} {p x : Nat} (h : x ∈ bounds p l) : p ≤ x := by
  induction l generalizing p with
  | nil => simp [bounds] at h; omega
  | cons sg l ih =>
    simp only [bounds, List.mem_cons] at h
    rcases h with h | h
    · omega
    · have := ih h; omega

theorem bounds_append {l : List Seg} {p x : Nat} (sg : Seg) (h : x ∈ bounds p l) : x ∈ bounds p (l ++ [sg]) := by
  induction l generalizing p with
  | nil => simp [bounds] at h; subst h; simp [bounds]
  | cons sg' l ih =>
    simp only [bounds, List.mem_cons, List.cons_append] at h ⊢
    rcases h with h | h
    · exact .inl h
    · exact .inr (ih h)

theorem bounds_back {mem : Nat → Cell} {cap : Nat} {l : List Seg} {p q : Nat} (h : Parses mem cap p q l) :
    q ∈ bounds p l := by
  induction l generalizing p with
  | nil => simp only [Parses] at h; subst h; simp [bounds]
  | cons sg l ih =>
    simp only [bounds, List.mem_cons]
    exact .inr (ih h.2)

theorem bounds_tail {l : List Seg} {sg : Seg} {p x : Nat} (h : x ∈ bounds p (sg :: l)) (hne : x ≠ p) :
    x ∈ bounds (p + sg.len) l := by
  simp only [bounds, List.mem_cons] at h
  rcases h with h | h
  · exact absurd h hne
  · exact h

theorem recsOf_append_tail (l : List Seg) (n : Nat) : recsOf (l ++ [.tail n]) = recsOf l := by
  induction l with
  | nil => rfl
  | cons sg l ih => cases sg <;> simp [recsOf, ih]

theorem recsOf_append_data (l : List Seg) (sz : Nat) (id : Int) : recsOf (l ++ [.data sz id]) = recsOf l ++ [(sz, id)] := by
  induction l with
  | nil => rfl
  | cons sg l ih => cases sg <;> simp [recsOf, ih]

/-- The position behind a tail marker is offset 0. -/
theorem tail_next {mem : Nat → Cell} {cap p n : Nat} (h : SegAt mem cap p (.tail n)) : (p + n) % cap = 0 := by
  simp only [SegAt] at h
  obtain ⟨-, -, -, h4, h5⟩ := h
  have hn : n % cap = n := Nat.mod_eq_of_lt h5
  rw [Nat.add_mod, hn, h4]
  exact Nat.mod_self cap

/-- No tail marker at offset 0. -/
theorem not_tail_at_zero {mem : Nat → Cell} {cap p n : Nat} (h : SegAt mem cap p (.tail n)) : p % cap ≠ 0 := by
  simp only [SegAt] at h
  omega

theorem wrRec_segAt (mem : Nat → Cell) (cap p sz : Nat) (id : Int) (hfit : p % cap + realSize sz ≤ cap) (hsz : 0 < sz) :
    SegAt (wrRec mem (p % cap) sz id) cap p (.data sz id) :=
  ⟨wrRec_hdr _ _ _ _, fun k hk => wrRec_pay _ _ _ _ k hk, hfit, hsz⟩

/-! ### The invariant -/

/-- The wrap path of back(): the marker for the unused tail is written at `back_ mod cap` (not yet published),
    the local `back` has been advanced to `b`. -/
def TailPending (mem : Nat → Cell) (cap back pfront sz b : Nat) : Prop :=
  mem (back % cap) = .tail (cap - back % cap - 8) ∧ b = back + (cap - back % cap) ∧
  cap - back % cap < realSize sz ∧ b ≤ pfront + cap ∧ 0 < sz ∧ realSize sz < cap

/-- The record is laid out at `back_` (not yet published) inside the space granted to the producer. -/
def RecPending (mem : Nat → Cell) (cap back pfront sz : Nat) (id : Int) : Prop :=
  SegAt mem cap back (.data sz id) ∧ back + realSize sz ≤ pfront + cap

structure VInv (s : St) : Prop where
  cap8 : s.cap % 8 = 0
  cap_pos : 0 < s.cap
  front8 : s.front % 8 = 0
  back8 : s.back % 8 = 0
  /-- the producer's view of `front_` is conservative -/
  pfront_le : s.pfront ≤ s.front
  /-- `cback_ - front` never underflows -/
  front_le : s.front ≤ s.cback
  /-- the consumer's view of `back_` is conservative -/
  cback_le : s.cback ≤ s.back
  /-- `pfront_ + capacity() - back` never underflows; with `pfront_le`: at most `cap` bytes in flight -/
  back_le : s.back ≤ s.pfront + s.cap
  /-- the live region is exactly the published, not yet released segments -/
  parses : Parses s.mem s.cap s.front s.back s.live
  /-- `cback_` is a segment boundary of the live region -/
  cbound : s.cback ∈ bounds s.front s.live
  fifo : s.pushed = s.popped ++ recsOf s.live
  p_bLdBack : ∀ sz id, s.pp = .bLdBack sz id → 0 < sz ∧ realSize sz < s.cap
  p_bLdFront : ∀ sz id b, s.pp = .bLdFront sz id b → b = s.back ∧ 0 < sz ∧ realSize sz < s.cap
  p_wLdFront : ∀ sz id b, s.pp = .wLdFront sz id b → TailPending s.mem s.cap s.back s.pfront sz b
  p_wStBack : ∀ sz id b, s.pp = .wStBack sz id b → TailPending s.mem s.cap s.back s.pfront sz b ∧ b + realSize sz ≤ s.pfront + s.cap
  p_cLdBack : ∀ sz id, s.pp = .cLdBack sz id → RecPending s.mem s.cap s.back s.pfront sz id
  p_cStBack : ∀ sz id b n, s.pp = .cStBack sz id b n → b = s.back ∧ n = realSize sz ∧ RecPending s.mem s.cap s.back s.pfront sz id
  c_fLdBack : ∀ op f, s.cp = .fLdBack op f → f = s.front
  c_tLdFront : ∀ op, s.cp = .tLdFront op → (∃ n, s.live.head? = some (.tail n)) ∧ s.front + 8 ≤ s.cback
  c_tLdBack : ∀ op f, s.cp = .tLdBack op f → False
  c_tStFront : ∀ op f n, s.cp = .tStFront op f n → f = s.front ∧ s.live.head? = some (.tail n) ∧ s.front + 8 ≤ s.cback
  c_gLdFront : ∀ op, s.cp = .gLdFront op → s.front % s.cap = 0
  c_gLdBack : ∀ op f, s.cp = .gLdBack op f → f = s.front ∧ s.front % s.cap = 0
  c_pLdFront : ∀ sz id, s.cp = .pLdFront sz id → s.live.head? = some (.data sz id) ∧ s.front + 8 ≤ s.cback
  c_pLdBack : ∀ sz id f, s.cp = .pLdBack sz id f → False
  c_pStFront : ∀ sz id f n, s.cp = .pStFront sz id f n →
    f = s.front ∧ n = realSize sz ∧ s.live.head? = some (.data sz id) ∧ s.front + 8 ≤ s.cback
  /-- what the consumer is about to return: "empty", or the record at the head of the live region
      (`front`), or the record it has just released (`pop`) -/
  c_done : ∀ r, s.cp = .done r → r = [0] ∨ ∃ (sz : Nat) (id : Int), r = [1, (sz : Int), id] ∧
    (s.live.head? = some (.data sz id) ∨ s.popped.getLast? = some (sz, id))
  /-- empty() / size() of the producer: `back_` is its own counter, the `front_` it saw is conservative -/
  p_zLd2 : ∀ e v, s.pp = .zLd2 e v → (e = true → v ≤ s.front ∧ s.back ≤ v + s.cap) ∧ (e = false → v = s.back)
  p_zdone : ∀ e a b, s.pp = .zdone e a b → a ≤ s.front ∧ b = s.back ∧ b ≤ a + s.cap
  /-- empty() / size() of the consumer: `front_` is its own counter, the `back_` it saw is conservative -/
  c_zLd2 : ∀ e v, s.cp = .zLd2 e v → (e = true → v = s.front) ∧ (e = false → s.front ≤ v ∧ v ≤ s.back)
  c_zdone : ∀ e a b, s.cp = .zdone e a b → a = s.front ∧ a ≤ b ∧ b ≤ s.back

set_option hygiene false in
macro "vinv_open" h:ident : tactic => `(tactic|
  obtain ⟨h1, h2, h3, h4, h5, h6, h7, h8, h9, h10, h11, h12, h13, h14, h15, h16, h17, h18, h19, h20, h21, h22,
    h23, h24, h25, h26, h27, h28, h29, h30, h31⟩ := $h)

theorem inv_init (cap : Nat) (h8 : cap % 8 = 0) (hpos : 0 < cap) : VInv (init cap) := by
  constructor <;> intros <;> simp_all [init, Parses, bounds, recsOf]

set_option maxHeartbeats 1000000 in
theorem inv_invoke (s : St) (t : Tid) (op : GOp) (s' : St)
    (h : VInv s) (hs1 : invoke s t op = some s') : VInv s' := by
  vinv_open h
  unfold invoke at hs1
  split at hs1
  · split at hs1
    · split at hs1
      · simp at hs1; subst hs1
        constructor <;> intros <;> grind
      · simp at hs1
    · simp at hs1; subst hs1
      constructor <;> intros <;> grind
    · simp at hs1
  · split at hs1
    · split at hs1
      · simp at hs1; subst hs1
        constructor <;> intros <;> grind
      · simp at hs1; subst hs1
        constructor <;> intros <;> grind
      · simp at hs1
    · simp at hs1

set_option maxHeartbeats 1000000 in
theorem inv_result (s : St) (t : Tid) (r : St × GRet)
    (h : VInv s) (hr : result s t = some r) : VInv r.1 := by
  vinv_open h
  unfold result at hr
  split at hr
  · split at hr
    · simp at hr; subst hr
      constructor <;> intros <;> grind
    · simp at hr; subst hr
      constructor <;> intros <;> grind
    · simp at hr
  · split at hr
    · split at hr
      · simp at hr; subst hr
        constructor <;> intros <;> grind
      · simp at hr; subst hr
        constructor <;> intros <;> grind
      · simp at hr
    · simp at hr

/-! ### Producer steps -/

/-- The producer's program counter does not matter for the invariant when it is reset. -/
theorem inv_pp_idle (s : St) (h : VInv s) : VInv { s with pp := .idle } := by
  vinv_open h
  constructor <;> intros <;> grind

/-- back() once a free-space check has passed: the record header and payload, or the tail marker, are
    written into cells of the free region only. -/
theorem inv_place (s : St) (sz : Nat) (id : Int) (h : VInv { s with pp := .idle })
    (hsz : 0 < sz) (hreal : realSize sz < s.cap) (hroom : s.back + realSize sz ≤ s.pfront + s.cap) :
    VInv (place s sz id s.back) := by
  vinv_open h
  dsimp only at *
  have hr8 := realSize_ge sz
  have hrm := realSize_mod8 sz
  have ho8 := mod_cap_mod8 h1 s.back
  have holt : s.back % s.cap < s.cap := Nat.mod_lt _ h2
  unfold place
  split
  · have hpar : Parses (upd s.mem (s.back % s.cap) (.tail (s.cap - s.back % s.cap - 8))) s.cap s.front s.back s.live :=
      parses_frame h9 (fun j hj1 hj2 => by
        have := mod_ne_of_lt (cap := s.cap) hj2 (by omega)
        simp [upd, this])
    have hupd : upd s.mem (s.back % s.cap) (.tail (s.cap - s.back % s.cap - 8)) (s.back % s.cap)
        = .tail (s.cap - s.back % s.cap - 8) := upd_same _ _ _
    split
    · constructor <;> intros <;> dsimp only at * <;> grind [TailPending]
    · constructor <;> intros <;> dsimp only at * <;> grind [TailPending]
  · have hfit : s.back % s.cap + realSize sz ≤ s.cap := by omega
    have hpar : Parses (wrRec s.mem (s.back % s.cap) sz id) s.cap s.front s.back s.live :=
      parses_frame h9 (fun j hj1 hj2 => wrRec_other _ _ _ _ _
        (fun i hi => live_cell_ne (r := realSize sz) hj1 hj2 (by omega) hfit hi))
    have hseg := wrRec_segAt s.mem s.cap s.back sz id hfit hsz
    constructor <;> intros <;> dsimp only at * <;> grind [RecPending]

/-- Producer: `back_.load` of back(). -/
theorem inv_p_bLdBack (s : St) (sz : Nat) (id : Int) (h : VInv s) (hpp : s.pp = .bLdBack sz id) (r : St × Ev)
    (hr : (if s.pfront + s.cap - s.back < realSize sz then
        some ({ s with pp := .bLdFront sz id s.back }, evLd "back" s.back)
      else some (place s sz id s.back, evLd "back" s.back)) = some r) : VInv r.1 := by
  have hpre := h.p_bLdBack sz id hpp
  have hbl := h.back_le
  split at hr
  · vinv_open h
    simp at hr; subst hr
    constructor <;> intros <;> grind
  · simp at hr; subst hr
    exact inv_place s sz id (inv_pp_idle s h) hpre.1 hpre.2 (by omega)

/-- Producer: `pfront_ = front_.load` after the first check failed. -/
theorem inv_p_bLdFront (s : St) (sz : Nat) (id : Int) (b : Nat) (h : VInv s) (hpp : s.pp = .bLdFront sz id b)
    (r : St × Ev)
    (hr : (if s.front + s.cap - b < realSize sz then
        some ({ s with pfront := s.front, pp := .done [0] }, evLd "front" s.front)
      else some (place { s with pfront := s.front } sz id b, evLd "front" s.front)) = some r) : VInv r.1 := by
  obtain ⟨rfl, hsz, hreal⟩ := h.p_bLdFront sz id b hpp
  have hidle : VInv { s with pfront := s.front, pp := .idle } := by
    vinv_open h
    constructor <;> intros <;> grind
  split at hr
  · vinv_open h
    simp at hr; subst hr
    constructor <;> intros <;> grind
  · simp at hr; subst hr
    have hbl := h.back_le; have := h.pfront_le
    exact inv_place { s with pfront := s.front } sz id hidle hsz hreal (by dsimp only; omega)

/-- Producer: `pfront_ = front_.load` on the wrap path. -/
theorem inv_p_wLdFront (s : St) (sz : Nat) (id : Int) (b : Nat) (h : VInv s) (hpp : s.pp = .wLdFront sz id b)
    (pp' : PPC) (hpp' : pp' = .done [0] ∨ pp' = .wStBack sz id b)
    (hst : pp' = .wStBack sz id b → ¬ s.front + s.cap - b < realSize sz) :
    VInv { s with pfront := s.front, pp := pp' } := by
  have htp := h.p_wLdFront sz id b hpp
  vinv_open h
  constructor <;> intros <;> dsimp only at * <;> grind [TailPending]

/-- Producer: `back_.store` publishing the tail marker, then the record at offset 0. -/
theorem inv_p_wStBack (s : St) (sz : Nat) (id : Int) (b : Nat) (h : VInv s) (hpp : s.pp = .wStBack sz id b) :
    VInv { s with back := b, live := s.live ++ [.tail (b - s.back)], mem := wrRec s.mem 0 sz id,
                  pp := .cLdBack sz id } := by
  obtain ⟨⟨hm, hb, htl, hble, hsz, hreal⟩, hroom⟩ := h.p_wStBack sz id b hpp
  vinv_open h
  have hr8 := realSize_ge sz
  have hrm := realSize_mod8 sz
  have ho8 := mod_cap_mod8 h1 s.back
  have holt : s.back % s.cap < s.cap := Nat.mod_lt _ h2
  have hn : b - s.back = s.cap - s.back % s.cap := by omega
  have hseg : SegAt s.mem s.cap s.back (.tail (b - s.back)) := by
    rw [hn]
    exact ⟨hm, by omega, by omega, by omega, by omega⟩
  have hb0 : b % s.cap = 0 := by
    have := tail_next hseg
    rwa [show s.back + (b - s.back) = b by omega] at this
  have hpar0 : Parses s.mem s.cap s.front b (s.live ++ [.tail (b - s.back)]) := by
    have := parses_append _ h9 hseg
    rwa [show s.back + (Seg.tail (b - s.back)).len = b by simp only [Seg.len]; omega] at this
  have hpar : Parses (wrRec s.mem 0 sz id) s.cap s.front b (s.live ++ [.tail (b - s.back)]) :=
    parses_frame hpar0 (fun j hj1 hj2 => wrRec_other _ _ _ _ _ (fun i hi => by
      have := live_cell_ne (cap := s.cap) (r := realSize sz) hj1 hj2 (by omega) (by omega) hi
      rwa [hb0] at this))
  have hrec : SegAt (wrRec s.mem 0 sz id) s.cap b (.data sz id) := by
    have := wrRec_segAt s.mem s.cap b sz id (by omega) hsz
    rwa [hb0] at this
  have hcb := bounds_append (.tail (b - s.back)) h10
  have hrecs := recsOf_append_tail s.live (b - s.back)
  constructor <;> intros <;> dsimp only at * <;> grind [RecPending]

/-- Producer: `back_.load` of push_back(), read of the header it has written. -/
theorem inv_p_cLdBack (s : St) (sz : Nat) (id : Int) (h : VInv s) (hpp : s.pp = .cLdBack sz id) :
    VInv { s with pp := .cStBack sz id s.back (hdrLen (s.mem (s.back % s.cap))) } := by
  have hrp := h.p_cLdBack sz id hpp
  have hlen : hdrLen (s.mem (s.back % s.cap)) = realSize sz := by
    rw [hrp.1.1]; rfl
  vinv_open h
  constructor <;> intros <;> dsimp only at * <;> grind

/-- Producer: `back_.store` of push_back() publishes the record. -/
theorem inv_p_cStBack (s : St) (sz : Nat) (id : Int) (b n : Nat) (h : VInv s) (hpp : s.pp = .cStBack sz id b n) :
    VInv { s with back := b + n, pushed := s.pushed ++ [(sz, id)], live := s.live ++ [.data sz id],
                  pp := .done [1] } := by
  obtain ⟨rfl, rfl, hseg, hroom⟩ := h.p_cStBack sz id b n hpp
  vinv_open h
  have hrm := realSize_mod8 sz
  have hpar : Parses s.mem s.cap s.front (s.back + realSize sz) (s.live ++ [.data sz id]) :=
    parses_append _ h9 hseg
  have hcb := bounds_append (.data sz id) h10
  have hrecs := recsOf_append_data s.live sz id
  constructor <;> intros <;> dsimp only at * <;> grind

/-! ### Consumer steps -/

theorem inv_cp_idle (s : St) (h : VInv s) : VInv { s with cp := .idle } := by
  vinv_open h
  constructor <;> intros <;> grind

/-- What the invariant says about the oldest live segment. -/
theorem head_seg {s : St} (h : VInv s) {sg : Seg} (hh : s.live.head? = some sg) :
    SegAt s.mem s.cap s.front sg ∧ Parses s.mem s.cap (s.front + sg.len) s.back (s.live.drop 1) ∧
    recsOf s.live = recsOf [sg] ++ recsOf (s.live.drop 1) ∧
    (s.cback ≠ s.front → s.cback ∈ bounds (s.front + sg.len) (s.live.drop 1)) := by
  obtain ⟨l', hl⟩ := List.head?_eq_some_iff.mp hh
  have h9 := h.parses
  have h10 := h.cbound
  rw [hl] at h9 h10 ⊢
  simp only [Parses] at h9
  refine ⟨h9.1, h9.2, ?_, fun hne => bounds_tail h10 hne⟩
  cases sg <;> simp [recsOf]

theorem hdrLen_head {s : St} (h : VInv s) {sg : Seg} (hh : s.live.head? = some sg) :
    hdrLen (s.mem (s.front % s.cap)) = sg.len := by
  have hseg := (head_seg h hh).1
  cases sg with
  | data sz id => rw [hseg.1]; rfl
  | tail n =>
    obtain ⟨hm, h8, hn8, -, -⟩ := hseg
    rw [hm]
    exact realSize_aligned n hn8 h8

/-- front() hands a record to the client: exactly the oldest live record, byte-exact. -/
theorem inv_deliver (s : St) (op : COp) (h : VInv { s with cp := .idle }) (hroom : s.front + 8 ≤ s.cback)
    (sz : Nat) (id : Int) (hhead : s.live.head? = some (.data sz id)) (c : Cell) (hc : c = s.mem (s.front % s.cap)) :
    VInv (deliver s op s.front c) := by
  obtain ⟨hm, hp, -, hsz⟩ := (head_seg h hhead).1
  dsimp only at hm hp
  have hid := payId_eq s.mem (s.front % s.cap) sz id hsz hp
  vinv_open h
  unfold deliver
  rw [hc, hm]; simp only [rawSize]; rw [hid]
  cases op <;> dsimp only <;> constructor <;> intros <;> dsimp only at * <;> grind

/-- front(): first read of a header word. -/
theorem inv_readHdr (s : St) (op : COp) (h : VInv { s with cp := .idle }) (hroom : s.front + 8 ≤ s.cback) :
    VInv (readHdr s op s.front) := by
  have hlt : s.front < s.back := by have := h.cback_le; dsimp only at this; omega
  obtain ⟨sg, l', hl, hseg, -⟩ := parses_head h.parses hlt
  dsimp only at hl hseg
  cases sg with
  | data sz id =>
    have hm := hseg.1
    unfold readHdr
    rw [hm]
    dsimp only
    exact inv_deliver s op h hroom sz id (by rw [hl]; rfl) _ hm.symm
  | tail n =>
    have hm := hseg.1
    have hhd : s.live.head? = some (.tail n) := by rw [hl]; rfl
    unfold readHdr
    rw [hm]
    dsimp only
    vinv_open h
    constructor <;> intros <;> dsimp only at * <;> grind

/-- front() behind a tail marker (offset 0): the header there is a record's. -/
theorem inv_deliver0 (s : St) (op : COp) (h : VInv { s with cp := .idle }) (hroom : s.front + 8 ≤ s.cback)
    (h0 : s.front % s.cap = 0) : VInv (deliver s op s.front (s.mem (s.front % s.cap))) := by
  have hlt : s.front < s.back := by have := h.cback_le; dsimp only at this; omega
  obtain ⟨sg, l', hl, hseg, -⟩ := parses_head h.parses hlt
  dsimp only at hl hseg
  cases sg with
  | tail n => exact absurd h0 (not_tail_at_zero hseg)
  | data sz id => exact inv_deliver s op h hroom sz id (by rw [hl]; rfl) _ rfl

/-- The reload `cback_ = back_.load( acquire )`. -/
theorem inv_reload (s : St) (h : VInv s) : VInv { s with cback := s.back, cp := .idle } := by
  have hb := bounds_back h.parses
  have hle := parses_le h.parses
  vinv_open h
  constructor <;> intros <;> dsimp only at * <;> grind

theorem inv_c_fLdFront (s : St) (op : COp) (h : VInv s) (_hcp : s.cp = .fLdFront op) (r : St × Ev)
    (hr : (if s.cback - s.front < 8 then some ({ s with cp := .fLdBack op s.front }, evLd "front" s.front)
      else some (readHdr s op s.front, evLd "front" s.front)) = some r) : VInv r.1 := by
  split at hr
  · vinv_open h
    simp at hr; subst hr
    constructor <;> intros <;> grind
  · simp at hr; subst hr
    have := h.front_le
    exact inv_readHdr s op (inv_cp_idle s h) (by omega)

theorem inv_c_fLdBack (s : St) (op : COp) (f : Nat) (h : VInv s) (hcp : s.cp = .fLdBack op f) (r : St × Ev)
    (hr : (if s.back - f < 8 then some ({ s with cback := s.back, cp := .done [0] }, evLd "back" s.back)
      else some (readHdr { s with cback := s.back } op f, evLd "back" s.back)) = some r) : VInv r.1 := by
  have hf := h.c_fLdBack op f hcp
  subst hf
  have hre := inv_reload s h
  split at hr
  · simp at hr; subst hr
    vinv_open hre
    constructor <;> intros <;> dsimp only at * <;> grind
  · simp at hr; subst hr
    exact inv_readHdr { s with cback := s.back } op hre (by dsimp only; omega)

theorem inv_c_tLdFront (s : St) (op : COp) (h : VInv s) (hcp : s.cp = .tLdFront op) (r : St × Ev)
    (hr : (if s.cback - s.front < 8 then some ({ s with cp := .tLdBack op s.front }, evLd "front" s.front)
      else some ({ s with cp := .tStFront op s.front (hdrLen (s.mem (s.front % s.cap))) }, evLd "front" s.front))
      = some r) : VInv r.1 := by
  obtain ⟨⟨n, hhd⟩, hroom⟩ := h.c_tLdFront op hcp
  have hlen := hdrLen_head h hhd
  simp only [Seg.len] at hlen
  split at hr
  · omega
  · simp at hr; subst hr
    rw [hlen]
    vinv_open h
    constructor <;> intros <;> dsimp only at * <;> grind

theorem inv_c_tStFront (s : St) (op : COp) (f n : Nat) (h : VInv s) (hcp : s.cp = .tStFront op f n) :
    VInv { s with front := f + n, live := s.live.drop 1, cp := .gLdFront op } := by
  obtain ⟨rfl, hhd, hroom⟩ := h.c_tStFront op f n hcp
  obtain ⟨hseg, hpar, hrecs, hcb⟩ := head_seg h hhd
  simp only [Seg.len] at hpar hcb
  have hcb' := hcb (by omega)
  have hge := bounds_ge hcb'
  have h0 := tail_next hseg
  have hn8 := hseg.2.2.1
  have hrecs' : recsOf s.live = recsOf (s.live.drop 1) := by rw [hrecs]; rfl
  vinv_open h
  constructor <;> intros <;> dsimp only at * <;> grind

theorem inv_c_gLdFront (s : St) (op : COp) (h : VInv s) (hcp : s.cp = .gLdFront op) (r : St × Ev)
    (hr : (if s.cback - s.front < 8 then some ({ s with cp := .gLdBack op s.front }, evLd "front" s.front)
      else some (deliver s op s.front (s.mem (s.front % s.cap)), evLd "front" s.front)) = some r) : VInv r.1 := by
  have h0 := h.c_gLdFront op hcp
  split at hr
  · vinv_open h
    simp at hr; subst hr
    constructor <;> intros <;> grind
  · simp at hr; subst hr
    have := h.front_le
    exact inv_deliver0 s op (inv_cp_idle s h) (by omega) h0

theorem inv_c_gLdBack (s : St) (op : COp) (f : Nat) (h : VInv s) (hcp : s.cp = .gLdBack op f) (r : St × Ev)
    (hr : (if s.back - f < 8 then some ({ s with cback := s.back, cp := .done [0] }, evLd "back" s.back)
      else some (deliver { s with cback := s.back } op f (s.mem (f % s.cap)), evLd "back" s.back)) = some r) :
    VInv r.1 := by
  obtain ⟨hf, h0⟩ := h.c_gLdBack op f hcp
  subst hf
  have hre := inv_reload s h
  split at hr
  · simp at hr; subst hr
    vinv_open hre
    constructor <;> intros <;> dsimp only at * <;> grind
  · simp at hr; subst hr
    exact inv_deliver0 { s with cback := s.back } op hre (by dsimp only; omega) h0

theorem inv_c_pLdFront (s : St) (sz : Nat) (id : Int) (h : VInv s) (hcp : s.cp = .pLdFront sz id) (r : St × Ev)
    (hr : (if s.cback - s.front < 8 then some ({ s with cp := .pLdBack sz id s.front }, evLd "front" s.front)
      else some ({ s with cp := .pStFront sz id s.front (hdrLen (s.mem (s.front % s.cap))) }, evLd "front" s.front))
      = some r) : VInv r.1 := by
  obtain ⟨hhd, hroom⟩ := h.c_pLdFront sz id hcp
  have hlen := hdrLen_head h hhd
  simp only [Seg.len] at hlen
  split at hr
  · omega
  · simp at hr; subst hr
    rw [hlen]
    vinv_open h
    constructor <;> intros <;> dsimp only at * <;> grind

theorem inv_c_pStFront (s : St) (sz : Nat) (id : Int) (f n : Nat) (h : VInv s) (hcp : s.cp = .pStFront sz id f n) :
    VInv { s with front := f + n, popped := s.popped ++ [(sz, id)], live := s.live.drop 1,
                  cp := .done [1, (sz : Int), id] } := by
  obtain ⟨rfl, rfl, hhd, hroom⟩ := h.c_pStFront sz id f n hcp
  obtain ⟨hseg, hpar, hrecs, hcb⟩ := head_seg h hhd
  simp only [Seg.len] at hpar hcb
  have hcb' := hcb (by omega)
  have hge := bounds_ge hcb'
  have hn8 := realSize_mod8 sz
  have hfifo : s.pushed = (s.popped ++ [(sz, id)]) ++ recsOf (s.live.drop 1) := by
    rw [h.fifo, hrecs]; simp [recsOf]
  have hlast : (s.popped ++ [(sz, id)]).getLast? = some (sz, id) := by simp
  vinv_open h
  constructor <;> intros <;> dsimp only at * <;> grind

/-! ### empty() / size() -/

theorem inv_p_zLd1 (s : St) (e : Bool) (h : VInv s) (_hpp : s.pp = .zLd1 e) (pp' : PPC)
    (hpp' : (e = true ∧ pp' = .zLd2 e s.front) ∨ (e = false ∧ pp' = .zLd2 e s.back)) :
    VInv { s with pp := pp' } := by
  vinv_open h
  constructor <;> intros <;> grind

theorem inv_p_zLd2 (s : St) (e : Bool) (v : Nat) (h : VInv s) (_hpp : s.pp = .zLd2 e v) (pp' : PPC)
    (hpp' : (e = true ∧ pp' = .zdone e v s.back) ∨ (e = false ∧ pp' = .zdone e s.front v)) :
    VInv { s with pp := pp' } := by
  vinv_open h
  constructor <;> intros <;> grind

theorem inv_c_zLd1 (s : St) (e : Bool) (h : VInv s) (_hcp : s.cp = .zLd1 e) (cp' : CPC)
    (hcp' : (e = true ∧ cp' = .zLd2 e s.front) ∨ (e = false ∧ cp' = .zLd2 e s.back)) :
    VInv { s with cp := cp' } := by
  vinv_open h
  constructor <;> intros <;> grind

theorem inv_c_zLd2 (s : St) (e : Bool) (v : Nat) (h : VInv s) (_hcp : s.cp = .zLd2 e v) (cp' : CPC)
    (hcp' : (e = true ∧ cp' = .zdone e v s.back) ∨ (e = false ∧ cp' = .zdone e s.front v)) :
    VInv { s with cp := cp' } := by
  vinv_open h
  constructor <;> intros <;> grind

/-! ### All transitions -/

theorem inv_step' (s : St) (t : Tid) (r : St × Ev)
    (h : VInv s) (hr : step s t = some r) : VInv r.1 := by
  unfold step at hr
  split at hr
  · split at hr
    · rename_i sz id hpp
      exact inv_p_bLdBack s sz id h hpp r hr
    · rename_i sz id b hpp
      exact inv_p_bLdFront s sz id b h hpp r hr
    · rename_i sz id b hpp
      split at hr <;> simp at hr <;> subst hr
      · exact inv_p_wLdFront s sz id b h hpp _ (.inl rfl) (by simp)
      · exact inv_p_wLdFront s sz id b h hpp _ (.inr rfl) (by simp; omega)
    · rename_i sz id b hpp
      simp at hr; subst hr
      exact inv_p_wStBack s sz id b h hpp
    · rename_i sz id hpp
      simp at hr; subst hr
      exact inv_p_cLdBack s sz id h hpp
    · rename_i sz id b n hpp
      simp at hr; subst hr
      exact inv_p_cStBack s sz id b n h hpp
    · rename_i e hpp
      split at hr <;> simp only [Option.some.injEq] at hr <;> subst hr
      · exact inv_p_zLd1 s e h hpp _ (.inl ⟨by assumption, rfl⟩)
      · exact inv_p_zLd1 s e h hpp _ (.inr ⟨by simpa using ‹¬ e = true›, rfl⟩)
    · rename_i e v hpp
      split at hr <;> simp only [Option.some.injEq] at hr <;> subst hr
      · exact inv_p_zLd2 s e v h hpp _ (.inl ⟨by assumption, rfl⟩)
      · exact inv_p_zLd2 s e v h hpp _ (.inr ⟨by simpa using ‹¬ e = true›, rfl⟩)
    · simp at hr
  · split at hr
    · split at hr
      · rename_i op hcp
        exact inv_c_fLdFront s op h hcp r hr
      · rename_i op f hcp
        exact inv_c_fLdBack s op f h hcp r hr
      · rename_i op hcp
        exact inv_c_tLdFront s op h hcp r hr
      · rename_i op f hcp
        exact absurd hcp (fun hc => h.c_tLdBack op f hc)
      · rename_i op f n hcp
        simp only [Option.some.injEq] at hr; subst hr
        exact inv_c_tStFront s op f n h hcp
      · rename_i op hcp
        exact inv_c_gLdFront s op h hcp r hr
      · rename_i op f hcp
        exact inv_c_gLdBack s op f h hcp r hr
      · rename_i sz id hcp
        exact inv_c_pLdFront s sz id h hcp r hr
      · rename_i sz id f hcp
        exact absurd hcp (fun hc => h.c_pLdBack sz id f hc)
      · rename_i sz id f n hcp
        simp only [Option.some.injEq] at hr; subst hr
        exact inv_c_pStFront s sz id f n h hcp
      · rename_i e hcp
        split at hr <;> simp only [Option.some.injEq] at hr <;> subst hr
        · exact inv_c_zLd1 s e h hcp _ (.inl ⟨by assumption, rfl⟩)
        · exact inv_c_zLd1 s e h hcp _ (.inr ⟨by simpa using ‹¬ e = true›, rfl⟩)
      · rename_i e v hcp
        split at hr <;> simp only [Option.some.injEq] at hr <;> subst hr
        · exact inv_c_zLd2 s e v h hcp _ (.inl ⟨by assumption, rfl⟩)
        · exact inv_c_zLd2 s e v h hcp _ (.inr ⟨by simpa using ‹¬ e = true›, rfl⟩)
      · simp at hr
    · simp at hr

theorem inv_step (s : St) (t : Tid) (a : Act) (s' : St) (o : Obs)
    (h : VInv s) (hap : model.apply s t a = some (s', o)) : VInv s' := by
  cases a with
  | invoke op =>
    simp only [Model.apply, model, Option.map_eq_some_iff] at hap
    obtain ⟨s1, hs1, heq⟩ := hap
    simp only [Prod.mk.injEq] at heq
    obtain ⟨rfl, -⟩ := heq
    exact inv_invoke s t op s1 h hs1
  | step =>
    simp only [Model.apply, model, Option.map_eq_some_iff] at hap
    obtain ⟨r, hr, heq⟩ := hap
    simp only [Prod.mk.injEq] at heq
    obtain ⟨rfl, -⟩ := heq
    exact inv_step' s t r h hr
  | ret =>
    simp only [Model.apply, model, Option.map_eq_some_iff] at hap
    obtain ⟨r, hr, heq⟩ := hap
    simp only [Prod.mk.injEq] at heq
    obtain ⟨rfl, -⟩ := heq
    exact inv_result s t r h hr

theorem inv_reachable (cap : Nat) (h8 : cap % 8 = 0) (hpos : 0 < cap) (s : St)
    (h : model.Reachable (init cap) s) : VInv s :=
  model.inv_reachable VInv (init cap) (inv_init cap h8 hpos) inv_step s h

end CdsVerif.Algo.VoidRing

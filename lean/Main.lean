import CdsVerif.Driver.LinCheck
import CdsVerif.Gen.Dispatch
open CdsVerif.Driver

partial def lcLoop (h : IO.FS.Stream) (st : LcState) : IO Unit := do
  let line ← h.getLine
  if line.isEmpty then return ()
  let st' := lcLine st line
  for o in st'.out do IO.println o
  lcLoop h { st' with out := #[] }

/-- tie D: one line `fn a b …` in, one line of outputs (values then the ub flag) out -/
partial def evalLoop (h : IO.FS.Stream) : IO Unit := do
  let line ← h.getLine
  if line.isEmpty then return ()
  match words line with
  | [] => evalLoop h
  | fn :: rest =>
    match rest.mapM (·.toNat?) with
    | none => IO.println "bad-args"
    | some as =>
      match CdsVerif.Gen.evalFn fn as with
      | some outs => IO.println (" ".intercalate (outs.map toString))
      | none => IO.println "unknown-fn"
    evalLoop h

def main (args : List String) : IO UInt32 := do
  let stdin ← IO.getStdin
  match args with
  | ["lincheck"] => lcLoop stdin {}; return 0
  | ["eval"] => evalLoop stdin; return 0
  | _ =>
    IO.eprintln "usage: cdsdriver lincheck|replay <model>|eval <fn>"
    return 2

/-
  Preservation of the LazyList invariant, and the effect on the abstract map: `unlink_node`: the load of `pCur->m_pNext` and the marking store (linearization point of `erase` / `extract`; it also fixes the answer of every `find` / `contains` that waits at the node).
-/
import CdsVerif.Algo.Lazy.Inv
namespace CdsVerif.Algo.Lazy
open CdsVerif.Machine CdsVerif.Spec CdsVerif.Lin
open CdsVerif.Algo.Michael (Chain insAfter mem_insAfter pairwise_insAfter LPok)

set_option maxHeartbeats 4000000 in
theorem sinvl_step_eLd {s s' : St} {t : Tid} {ev : Ev} {L : List Nat} {o : OpK} {p c : Nat}
    (h : SInvL s L) (hpc : s.pc t = .eLd o p c) (hs : step s t = some (s', ev)) :
    ∃ L', SInvL s' L' ∧ StepEff s t s' L L' := by
  pc_facts
  sinv_open h
  simp only [step, hpc] at hs
  simp at hs; obtain ⟨rfl, -⟩ := hs
  step_close L

set_option maxHeartbeats 16000000 in
theorem sinvl_step_eMk {s s' : St} {t : Tid} {ev : Ev} {L : List Nat} {o : OpK} {p c : Nat} {nx : Option Nat}
    (h : SInvL s L) (hpc : s.pc t = .eMk o p c nx) (hs : step s t = some (s', ev)) :
    ∃ L', SInvL s' L' ∧ StepEff s t s' L L' := by
  have hz := h.zero_mem
  have htl := h.tailIn
  have hcur := h.lkCur t c (by simp [hpc, pcCur])
  have hunc := h.unmC t c (by simp [hpc, knowUnmC])
  have hunp := h.unmP t p (by simp [hpc, knowUnmP])
  have hcL : c ∈ L := hcur.2.resolve_right (by simp [hunc])
  have hpc' := h.pneq t p c (by simp [hpc, pcPrev]) (by simp [hpc, pcCur])
  have heqk := h.eqk t c (by simp [hpc, pcEq])
  simp only [hpc, skey] at heqk
  have heo := h.eop t o (by simp [hpc, pcEraOp])
  have henx' := h.enx t o p c nx hpc
  have hagc := h.agree c hunc
  have hlpok : LPok (Has s.mark s.key s.val L) (gop o) [1, s.val c] (Has (upd s.mark c true) s.key s.val L) := by
    refine LPok.mark (v := s.val c) ⟨c, hcL, hcur.1, heqk.1, hunc, heqk.2, rfl⟩ (fun j w => ?_) heo
    rw [has_mark h.sorted hcL hcur.1 heqk.1, heqk.2]
  have hkeepo : ∀ t2, t2 ≠ t → ∀ r, lpRet s.mark s.key (s.pc t2) = some r →
      lpRet (upd s.mark c true) s.key (s.pc t2) = some r := fun _ _ _ h1 => keep_of_mark h1
  pc_facts
  sinv_open h
  simp only [step, hpc] at hs
  simp at hs; obtain ⟨rfl, -⟩ := hs
  have hinv' : SInvL ⟨upd s.next c (some 0), upd s.mark c true, s.lock, s.key, s.val, s.cnt,
      upd s.pc t (.eUn o p c nx [1, s.val c]), s.succ⟩ L := by
    sinv_close
  have hhelp : ∀ t2, t2 ≠ t → lpRet s.mark s.key (s.pc t2) = none →
      ∀ r, lpRet (upd s.mark c true) s.key (s.pc t2) = some r →
      ∃ op, opOf (s.pc t2) = some op ∧
        LPok (Has (upd s.mark c true) s.key s.val L) op r (Has (upd s.mark c true) s.key s.val L) := by
    intro t2 _ h1 r h2
    obtain ⟨-, e2, rfl, e4⟩ := help_of_mark h1 h2
    rcases e4 with e4 | e4
    · exact ⟨_, e4, hinv'.lp_absent_marked (o := .fnd _) hcL hcur.1 heqk.1 (by simp [upd]) e2 rfl⟩
    · exact ⟨_, e4, hinv'.lp_absent_marked (o := .con _) hcL hcur.1 heqk.1 (by simp [upd]) e2 rfl⟩
  exact ⟨L, hinv', by eff_close⟩

end CdsVerif.Algo.Lazy

/-
Property C28: FeldmanHashSet addressing.

* `metrics::make` (generated translation `CdsVerif.Gen.Feldman.metrics_make`) normalises
  `head_bits` / `array_bits` to a layout that consumes all hash bits exactly.
* the sequence of slot indices `traverse` computes for a hash (`pathOf`: `cut(head_node_size_log)`
  once, then `cut(array_node_size_log)` per level until `eos()`) determines the hash, hence two
  different hashes diverge at some level before the bits run out.

`pathOf` / `pathOfNS`, `fieldSum`, `bitsAt` are defined in `CdsVerif.Algo.Splitter.Lemmas`.
-/
import CdsVerif.Algo.Splitter.Lemmas

namespace CdsVerif.Props.C28
open CdsVerif.Algo.Splitter CdsVerif.Gen.Feldman

/-! ## Layout -/

/-- For `sizeof(hash_type) ∈ {1,2,4,8}` and `array_bits ≤ 16` the normalised layout
    `(head_node_size_log, head_node_size, array_node_size_log, array_node_size)` consumes all hash
    bits exactly: `head_log + k * array_log = 8 * hash_size` for some `k`.
    No bound on `head_bits` is needed (it is clamped to `[4, 8 * hash_size]` first).
    Note that `8 * hash_size - head` need not be `≥ array_log`: then `k = 0` and the head node
    takes the whole hash.  `head_node_size = 2^head_log` needs `head_log < 64`
    (see `C28_layout_ub_at_full_width`). -/
theorem C28_layout_exact (hash_size head_bits array_bits : BitVec 64)
    (hsz : hash_size = 1 ∨ hash_size = 2 ∨ hash_size = 4 ∨ hash_size = 8)
    (harr : array_bits.toNat ≤ 16) :
    let m := metrics_make head_bits array_bits hash_size
    let hl := m.1
    let hs := m.2.1
    let al := m.2.2.1
    let asz := m.2.2.2
    al.toNat ≥ 2 ∧ hl.toNat ≤ 8 * hash_size.toNat ∧
      (∃ k, hl.toNat + k * al.toNat = 8 * hash_size.toNat) ∧ al.toNat ≤ 16 ∧
      (hl.toNat < 64 → hs.toNat = 2 ^ hl.toNat) ∧ asz.toNat = 2 ^ al.toNat := by
  intro m hl hs al asz
  have hH : hash_size.toNat * 8 < 2 ^ 64 := by
    rcases hsz with rfl | rfl | rfl | rfl <;> decide
  obtain ⟨h1, h2⟩ := metrics_make_toNat head_bits array_bits hash_size hH
  obtain ⟨h3, h4⟩ := metrics_make_sizes head_bits array_bits hash_size
  have hal : al.toNat = normArr array_bits.toNat := h2
  have hhl : hl.toNat = normHead head_bits.toNat array_bits.toNat (hash_size.toNat * 8) := h1
  have hal16 : al.toNat ≤ 16 := by rw [hal]; unfold normArr; omega
  refine ⟨by rw [hal]; exact normArr_ge _, ?_, ?_, hal16, ?_, ?_⟩
  · rw [hhl, Nat.mul_comm 8]; exact normHead_le _ _ _
  · refine ⟨(hash_size.toNat * 8 - normHead0 head_bits.toNat (hash_size.toNat * 8)) / normArr array_bits.toNat, ?_⟩
    rw [hhl, hal, Nat.mul_comm 8]
    exact normHead_exact _ _ _
  · intro hlt
    show (m.2.1).toNat = _
    rw [h3]; exact one_shiftLeft_toNat _ hlt
  · show (m.2.2.2).toNat = _
    rw [h4]; exact one_shiftLeft_toNat _ (by omega)

/-- under the same hypotheses `metrics::make` executes no undefined operation, provided the
    normalised head width is `< 64` -/
theorem C28_layout_no_ub (hash_size head_bits array_bits : BitVec 64)
    (hsz : hash_size = 1 ∨ hash_size = 2 ∨ hash_size = 4 ∨ hash_size = 8)
    (harr : array_bits.toNat ≤ 16)
    (hhl : (metrics_make head_bits array_bits hash_size).1.toNat < 64) :
    metrics_make_ub head_bits array_bits hash_size = false := by
  have hH : hash_size.toNat * 8 < 2 ^ 64 := by
    rcases hsz with rfl | rfl | rfl | rfl <;> decide
  obtain ⟨_, h2⟩ := metrics_make_toNat head_bits array_bits hash_size hH
  have h16 : (metrics_make head_bits array_bits hash_size).2.2.1.toNat ≤ 16 := by
    rw [h2]; unfold normArr; omega
  have h2' : 2 ≤ (metrics_make head_bits array_bits hash_size).2.2.1.toNat := by
    rw [h2]; exact normArr_ge _
  have hne : ((metrics_make head_bits array_bits hash_size).2.2.1 == 0#64) = false := by
    rw [beq_eq_false_iff_ne]
    intro h
    rw [h] at h2'
    exact absurd h2' (by decide)
  rw [metrics_make_ub_eq, hne]
  simp only [Bool.false_or, Bool.or_eq_false_iff, decide_eq_false_iff_not]
  omega

/-- the side condition is necessary: `head_bits = 64` with an 8-byte hash makes
    `size_t(1) << 64` — undefined -/
theorem C28_layout_ub_at_full_width : metrics_make_ub 64 2 8 = true := by decide

example : metrics_make 8 4 4 = (8, 256, 4, 16) := by decide
example : metrics_make_ub 8 4 4 = false := by decide
/-- head 8, array 5 on a 32-bit hash: `(32 - 8) % 5 = 4`, so the head is widened to 12 bits (12 + 4*5 = 32) -/
example : metrics_make 8 5 4 = (12, 4096, 5, 32) := by decide
/-- `8 * hash_size - head < array`: the head absorbs everything (`k = 0`) -/
example : metrics_make 4 16 1 = (8, 256, 16, 65536) := by decide
/-- arguments below the minimum are raised to head 4 / array 2 -/
example : metrics_make 0 0 8 = (4, 16, 2, 4) := by decide
/-- the result at the UB witness: head width 64, head size computed by `1 << 64` -/
example : (metrics_make 64 2 8).1 = 64 := by decide

/-! ## Paths -/

/-- the path is a function of the hash bytes only (not of the splitter's cursor) -/
theorem C28_path_fn (headW arrW : Nat) (a b : BS) (h : a.bytes = b.bytes) :
    pathOf headW arrW a = pathOf headW arrW b := by
  simp only [pathOf, BS.reset, h]

/-- Two hashes of the same size with the same path are equal.
    `headW + m * arrW = 8 * N` is the layout guaranteed by `C28_layout_exact`; `headW ≤ 32` because
    `split_bitstring::uint_type` is `unsigned`.  The FeldmanHashSet instance is
    `N ∈ {1,2,4,8}`, `4 ≤ headW`, `2 ≤ arrW ≤ 16`; the statement holds for every `N`,
    `0 ≤ headW ≤ 32`, `1 ≤ arrW ≤ 32`. -/
theorem C28_path_injective (headW arrW m : Nat) (a b : BS)
    (hab : ∀ x ∈ a.bytes, x < 256) (hbb : ∀ x ∈ b.bytes, x < 256)
    (hlen : a.bytes.length = b.bytes.length)
    (hh : headW ≤ 32) (ha1 : 1 ≤ arrW) (ha : arrW ≤ 32)
    (hsum : headW + m * arrW = 8 * a.bytes.length)
    (hpath : pathOf headW arrW a = pathOf headW arrW b) : a.bytes = b.bytes :=
  pathOf_injective headW arrW m a b hab hbb hlen hh ha1 ha hsum hpath

/-- the same for `number_splitter<uint64_t>` (`cut` requires widths `< 64`) -/
theorem C28_path_injective_ns (headW arrW m : Nat) (a b : NS)
    (hh1 : 1 ≤ headW) (hh : headW < 64) (ha1 : 1 ≤ arrW) (ha : arrW < 64)
    (hsum : headW + m * arrW = 64)
    (hpath : pathOfNS headW arrW a = pathOfNS headW arrW b) : a.number = b.number :=
  pathOfNS_injective headW arrW m a b hh1 hh ha1 ha hsum hpath

/-- If two *different* hashes agree on the first `j` path components, then `j` is smaller than the
    length of the path: a traversal that keeps descending because of a collision with a different
    hash always has another level (another `cut`) available; `eos()` is reached only for equal
    hashes. -/
theorem C28_insert_never_exhausts (headW arrW m : Nat) (a b : BS)
    (hab : ∀ x ∈ a.bytes, x < 256) (hbb : ∀ x ∈ b.bytes, x < 256)
    (hlen : a.bytes.length = b.bytes.length)
    (hh : headW ≤ 32) (ha1 : 1 ≤ arrW) (ha : arrW ≤ 32)
    (hsum : headW + m * arrW = 8 * a.bytes.length)
    (hne : a.bytes ≠ b.bytes) (j : Nat)
    (hpre : (pathOf headW arrW a).take j = (pathOf headW arrW b).take j) :
    j < (pathOf headW arrW a).length ∧ j < (pathOf headW arrW b).length := by
  have hla := pathOf_length headW arrW m a hab hh ha1 ha hsum
  have hlb := pathOf_length headW arrW m b hbb hh ha1 ha (by rw [← hlen]; exact hsum)
  rw [hla, hlb]
  refine ⟨?_, ?_⟩ <;>
  · apply Classical.byContradiction
    intro hj
    apply hne
    apply pathOf_injective headW arrW m a b hab hbb hlen hh ha1 ha hsum
    rw [List.take_of_length_le (by omega), List.take_of_length_le (by omega)] at hpre
    exact hpre

/-- `expand_slot` builds a fresh splitter over the hash of the node being pushed down, at
    `bit_offset()` of the traversing splitter (`split_bitstring(h, nBitOffset)`:
    `cur_ = first_ + p / 8`, `offset_ = p % 8`), and cuts `array_node_size_log` bits.  That cut is
    free of UB and yields the bits `[p, p + arrW)` of that hash — the slot `traverse` computes for
    it at this level; moreover the fresh splitter is *the same state* as any well-formed splitter
    over those bytes that reached bit position `p` by cutting. -/
theorem C28_expand_offset (bytes : List Nat) (hb : ∀ x ∈ bytes, x < 256) (p arrW : Nat)
    (ha : arrW ≤ 32) (hend : p + arrW ≤ 8 * bytes.length) :
    (BS.cut 32 ⟨bytes, p / 8, p % 8⟩ arrW).1 = bitsAt (leValue bytes) p arrW ∧
    (BS.cut 32 ⟨bytes, p / 8, p % 8⟩ arrW).2.2 = false ∧
    ∀ s : BS, s.WF → s.bytes = bytes → s.bitOffset = p → (⟨bytes, p / 8, p % 8⟩ : BS) = s := by
  have hwf : (⟨bytes, p / 8, p % 8⟩ : BS).WF := by
    refine ⟨by show p % 8 < 8; omega, hb, ?_⟩
    show p / 8 < bytes.length ∨ (p / 8 = bytes.length ∧ p % 8 = 0)
    omega
  have hpos : (⟨bytes, p / 8, p % 8⟩ : BS).bitOffset = p := by
    show p % 8 + p / 8 * 8 = p
    omega
  obtain ⟨h1, h2, _⟩ := BS.cut_spec 32 ⟨bytes, p / 8, p % 8⟩ arrW hwf ha (by rw [hpos]; exact hend)
  rw [hpos] at h2
  refine ⟨h2, h1, ?_⟩
  intro s hs hsb hsp
  have hoff : s.off < 8 := hs.1
  have hp' : s.off + s.cur * 8 = p := hsp
  have e1 : p / 8 = s.cur := by omega
  have e2 : p % 8 = s.off := by omega
  rw [e1, e2, ← hsb]

example : pathOf 8 4 ⟨[0xef, 0xcd, 0xab, 0x89], 0, 0⟩ = [0xef, 0xd, 0xc, 0xb, 0xa, 0x9, 0x8] := by decide
example : pathOf 12 5 ⟨[0xef, 0xcd, 0xab, 0x89], 3, 5⟩ = [0xdef, 0x1c, 0x15, 0x06, 0x11] := by decide
example : fieldSum [12, 5, 5, 5, 5] [0xdef, 0x1c, 0x15, 0x06, 0x11] = 0x89abcdef := by decide
example : pathOfNS 4 12 ⟨0x0123456789abcdef#64, 17⟩ = [0xf, 0xcde, 0x9ab, 0x678, 0x345, 0x012] := by decide
/-- hashes differing only in the top bit share 6 of 7 components and differ in the last -/
example : (pathOf 8 4 ⟨[0xef, 0xcd, 0xab, 0x09], 0, 0⟩).take 6 = (pathOf 8 4 ⟨[0xef, 0xcd, 0xab, 0x89], 0, 0⟩).take 6 := by decide
example : pathOf 8 4 ⟨[0xef, 0xcd, 0xab, 0x09], 0, 0⟩ ≠ pathOf 8 4 ⟨[0xef, 0xcd, 0xab, 0x89], 0, 0⟩ := by decide
/-- `expand_slot` at bit offset 12 -/
example : (BS.cut 32 ⟨[0xef, 0xcd, 0xab, 0x89], 12 / 8, 12 % 8⟩ 5).1 = 0x1c := by decide

end CdsVerif.Props.C28

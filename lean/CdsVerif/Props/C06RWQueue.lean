/-
  C06 — RWQueue (cds::container::RWQueue, the two-lock queue of Michael & Scott, with `cds::sync::spin` locks) is a
  linearizable FIFO queue: every concurrent history of the atomic-step model `Algo/RWQueue/Model.lean` — which
  executes both spin locks step by step (exchange, wait-loop load, unlocking store) — is linearizable to
  `Spec.fifo`; `dequeue` reports "empty" only if the queue was empty at some instant during the call.
  Property theorems only; the model, the invariant and the proof live in `Algo/RWQueue/{Model,Inv,Lin}.lean` and in
  the generic ghost-log construction `Algo/QueueLin/{Chain,History,Ghost}.lean`.

  Assumptions of the model: nodes are never reused (`free_node` of the old dummy is not modelled: after the head
  moved nobody holds a pointer to it); the plain fields `m_Head.ptr` / `m_Tail.ptr` are read and written only inside
  the respective critical section (this is what `C06_rwqueue_locks` justifies).
-/
import CdsVerif.Algo.RWQueue.Lin
namespace CdsVerif.Props.C06RWQueue
open CdsVerif.Machine CdsVerif.Lin CdsVerif.Spec CdsVerif.Algo CdsVerif.Algo.QueueLin

/-- Linearizability, general form (Herlihy–Wing with completion of pending operations).  For EVERY schedule (any
    number of threads, any client program of `enq v` / `deq`, any interleaving of the atomic steps, spinning
    included), the history of the completed operations of the run — extended by response records for the pending
    operations that have already passed their linearization point (at most one per thread; each is an operation
    pending in `os`, completed with the result fixed at its linearization point and the response time "end of
    run"), all other pending operations being dropped — is linearizable to the sequential FIFO queue. -/
theorem C06_rwqueue_linearizable (sched : List (Tid × Act)) (s : RWQueue.St) (os : List (Tid × Obs))
    (h : RWQueue.model.run RWQueue.init sched = some (s, os)) :
    ∃ extra : List (OpRec GOp GRet),
      (∀ e ∈ extra, pendingOf os e.tid = some (e.op, e.inv) ∧ e.res = os.length ∧
          RWQueue.postRet (s.pc e.tid) = some e.ret) ∧
      extra.Pairwise (fun a b => a.tid ≠ b.tid) ∧
      Linearizable fifo (historyOf os ++ extra) :=
  RWQueue.rwqueue_linearizable sched s os h

/-- Runs in which every invoked operation has returned: the history is linearizable as it is. -/
theorem C06_rwqueue_linearizable_complete_runs (sched : List (Tid × Act)) (s : RWQueue.St) (os : List (Tid × Obs))
    (h : RWQueue.model.run RWQueue.init sched = some (s, os)) (hq : ∀ t, s.pc t = .idle) :
    Linearizable fifo (historyOf os) :=
  RWQueue.rwqueue_linearizable_complete_runs sched s os h hq

/-- More generally: runs at whose end no thread is between its linearization point and its return. -/
theorem C06_rwqueue_linearizable_no_effect_pending (sched : List (Tid × Act)) (s : RWQueue.St)
    (os : List (Tid × Obs)) (h : RWQueue.model.run RWQueue.init sched = some (s, os))
    (hq : ∀ t, RWQueue.postRet (s.pc t) = none) :
    Linearizable fifo (historyOf os) :=
  RWQueue.rwqueue_linearizable_no_effect_pending sched s os h hq

/-- No invention: every value returned by a `deq` is the argument of an `enq` that was invoked before the `deq`
    returned. -/
theorem C06_rwqueue_no_invention (sched : List (Tid × Act)) (s : RWQueue.St) (os : List (Tid × Obs))
    (h : RWQueue.model.run RWQueue.init sched = some (s, os)) (r : OpRec GOp GRet)
    (hr : r ∈ historyOf os) (hop : r.op = ⟨"deq", []⟩) (v : Int) (hret : r.ret = [1, v]) :
    ∃ i t', i < r.res ∧ os[i]? = some (t', .call ⟨"enq", [v]⟩) :=
  RWQueue.rwqueue_no_invention sched s os h r hr hop v hret

/-- No duplication: for every value `v` the completed dequeues that returned `v` are at most as many as the `enq v`
    operations of the run (the completed ones plus the pending ones in `extra`). -/
theorem C06_rwqueue_no_duplication (sched : List (Tid × Act)) (s : RWQueue.St) (os : List (Tid × Obs))
    (h : RWQueue.model.run RWQueue.init sched = some (s, os)) :
    ∃ extra : List (OpRec GOp GRet),
      (∀ e ∈ extra, pendingOf os e.tid = some (e.op, e.inv) ∧ e.res = os.length ∧
          RWQueue.postRet (s.pc e.tid) = some e.ret) ∧
      extra.Pairwise (fun a b => a.tid ≠ b.tid) ∧
      ∀ v, (historyOf os).countP (isDeqOf v) ≤ (historyOf os ++ extra).countP (isEnq v) :=
  RWQueue.rwqueue_no_duplication sched s os h

/-- `deq` answers "empty" only if the queue was empty at some instant during the call.  For EVERY run: if a
    completed `deq` returned `[0]`, there is an instant `j` strictly between its call and its return such that in
    the state `s1` reached by the first `j` actions of the run (`EmptyAt`) the caller holds the head lock and is
    about to load `m_Head.ptr->m_pNext`, that link is null, the chain from `m_Head.ptr` is the dummy alone and the
    abstract queue is empty.  (At the unlock / return the queue need not be empty any more: example `emptySched`.) -/
theorem C06_rwqueue_empty_means_empty (sched : List (Tid × Act)) (s : RWQueue.St) (os : List (Tid × Obs))
    (h : RWQueue.model.run RWQueue.init sched = some (s, os)) (r : OpRec GOp GRet)
    (hr : r ∈ historyOf os) (hret : r.ret = [0]) :
    ∃ j s1, r.inv < j ∧ j < r.res ∧ RWQueue.model.run RWQueue.init (sched.take j) = some (s1, os.take j) ∧
      RWQueue.EmptyAt s1 r.tid ∧ RWQueue.absQueue s1 = [] :=
  RWQueue.rwqueue_empty_hindsight sched s os h r hr hret

/-- Refinement: in a reachable state, the step at which thread `t` fixes its result `r` (the linking store of
    `enq`; the null load of an empty `deq`; the step that moves `m_Head.ptr` of a non-empty `deq`) is exactly the
    `fifo` transition of `t`'s operation with result `r` on the abstract queue; every other step — every lock
    operation in particular — leaves the abstract queue unchanged. -/
theorem C06_rwqueue_lp_refines (s s' : RWQueue.St) (t : Tid) (ev : Ev)
    (hreach : RWQueue.model.Reachable RWQueue.init s) (hs : RWQueue.step s t = some (s', ev)) :
    (RWQueue.postRet (s.pc t) = none → ∀ r, RWQueue.postRet (s'.pc t) = some r →
      ∃ op, RWQueue.opOf s.val (s.pc t) = some op ∧
        fifo.next (RWQueue.absQueue s) op r = some (RWQueue.absQueue s')) ∧
    ((RWQueue.postRet (s.pc t) ≠ none ∨ RWQueue.postRet (s'.pc t) = none) →
      RWQueue.absQueue s' = RWQueue.absQueue s) :=
  RWQueue.step_refines (RWQueue.sinv_reachable s hreach) hs

/-- Lock discipline.  In every reachable state at most one thread is inside the critical section of `m_Tail.lock`
    (between its successful `try_lock` and its unlocking store) and then the lock word is set; likewise for
    `m_Head.lock`; and whenever the tail lock is free, `m_Tail.ptr` is the last node of the chain from
    `m_Head.ptr`. -/
theorem C06_rwqueue_locks (s : RWQueue.St) (hreach : RWQueue.model.Reachable RWQueue.init s) :
    (∀ t1 t2, RWQueue.holdsT (s.pc t1) = true → RWQueue.holdsT (s.pc t2) = true → t1 = t2) ∧
    (∀ t, RWQueue.holdsT (s.pc t) = true → s.tlock = true) ∧
    (∀ t1 t2, RWQueue.holdsH (s.pc t1) = true → RWQueue.holdsH (s.pc t2) = true → t1 = t2) ∧
    (∀ t, RWQueue.holdsH (s.pc t) = true → s.hlock = true) ∧
    (s.tlock = false → ∃ l0, RWQueue.absNodes s = l0 ++ [s.tail]) :=
  RWQueue.reachable_locks s hreach

/-- Structure of the reachable states: the chain from `m_Head.ptr` starts there, is finite, duplicate-free and ends
    in a node with a null link. -/
theorem C06_rwqueue_chain (s : RWQueue.St) (hreach : RWQueue.model.Reachable RWQueue.init s) :
    Chain s.next (some s.head) (RWQueue.absNodes s) ∧ (RWQueue.absNodes s).Nodup ∧
      (∃ r, RWQueue.absNodes s = s.head :: r) :=
  RWQueue.reachable_chain s hreach

/-! ### Non-vacuity -/

def steps (t : Tid) (n : Nat) : List (Tid × Act) := List.replicate n (t, .step)

/-- Contention on the tail lock: thread 1's `try_lock` fails (`xchg tlock 1 1`), it spins (`ld tlock 1`), sees the
    lock free (`ld tlock 0`), retries and enqueues behind thread 0's node. -/
def spinSched : List (Tid × Act) :=
  [(0, .invoke ⟨"enq", [1]⟩), (1, .invoke ⟨"enq", [2]⟩), (0, .step), (1, .step), (1, .step), (0, .step), (0, .step),
   (0, .ret)] ++ steps 1 4 ++ [(1, .ret)]

example : (RWQueue.model.run RWQueue.init spinSched).map (·.2) = some
    [(0, .call ⟨"enq", [1]⟩),               -- T 0 C enq [1]
     (1, .call ⟨"enq", [2]⟩),               -- T 1 C enq [2]
     (0, .ev ⟨"xchg", "tlock", "0", "1"⟩),  -- T 0 A xchg tlock 0 1      (acquired)
     (1, .ev ⟨"xchg", "tlock", "1", "1"⟩),  -- T 1 A xchg tlock 1 1      (busy)
     (1, .ev ⟨"ld", "tlock", "1", ""⟩),     -- T 1 A ld tlock 1          (wait loop)
     (0, .ev ⟨"st", "n0", "n1", ""⟩),       -- T 0 A st n0 n1            (linearization point of enq 1)
     (0, .ev ⟨"st", "tlock", "0", ""⟩),     -- T 0 A st tlock 0          (unlock)
     (0, .ret [1]),
     (1, .ev ⟨"ld", "tlock", "0", ""⟩),     -- T 1 A ld tlock 0
     (1, .ev ⟨"xchg", "tlock", "0", "1"⟩),  -- T 1 A xchg tlock 0 1      (acquired)
     (1, .ev ⟨"st", "n1", "n2", ""⟩),       -- T 1 A st n1 n2            (linearization point of enq 2)
     (1, .ev ⟨"st", "tlock", "0", ""⟩),
     (1, .ret [1])] := by decide

example : (RWQueue.model.run RWQueue.init spinSched).map
    (fun r => (linCheck fifo (historyOf r.2), RWQueue.absQueue r.1, RWQueue.absNodes r.1, r.1.tail)) =
    some (true, [1, 2], [0, 1, 2], 2) := by decide

/-- The stale `m_Tail.ptr` leaves the chain.  Thread 0 has linked `n1` behind the dummy `n0` but has not unlocked
    yet (`m_Tail.ptr` is still `n0`); thread 1 dequeues under the OTHER lock: `m_Head.ptr` moves to `n1`, the old
    dummy `n0` — still `m_Tail.ptr` — is out of the queue.  The run stops there: thread 0's `enq` is pending past
    its linearization point, thread 1's `deq` is about to return 7. -/
def staleSched : List (Tid × Act) :=
  [(0, .invoke ⟨"enq", [7]⟩)] ++ steps 0 2 ++ [(1, .invoke ⟨"deq", []⟩)] ++ steps 1 3

example : (RWQueue.model.run RWQueue.init staleSched).map (·.2) = some
    [(0, .call ⟨"enq", [7]⟩),
     (0, .ev ⟨"xchg", "tlock", "0", "1"⟩),
     (0, .ev ⟨"st", "n0", "n1", ""⟩),       -- linearization point of enq 7
     (1, .call ⟨"deq", []⟩),
     (1, .ev ⟨"xchg", "hlock", "0", "1"⟩),
     (1, .ev ⟨"ld", "n0", "n1", ""⟩),
     (1, .ev ⟨"st", "hlock", "0", ""⟩)]     -- m_Head.ptr = n1 (linearization point of deq), unlock
    := by decide

example : (RWQueue.model.run RWQueue.init staleSched).map
    (fun r => (RWQueue.absQueue r.1, RWQueue.absNodes r.1, r.1.head, r.1.tail, r.1.tlock, r.1.hlock)) =
    some ([], [1], 1, 0, true, false) := by decide

example : (RWQueue.model.run RWQueue.init (staleSched ++ [(1, .ret)] ++ steps 0 1 ++ [(0, .ret)])).map
    (fun r => (historyOf r.2, linCheck fifo (historyOf r.2), r.1.head, r.1.tail)) =
    some ([⟨1, ⟨"deq", []⟩, [1, 7], 3, 7⟩, ⟨0, ⟨"enq", [7]⟩, [1], 0, 9⟩], true, 1, 1) := by decide

/-- Why pending operations must be completed: stop that run right after thread 1 has returned. -/
example : (RWQueue.model.run RWQueue.init (staleSched ++ [(1, .ret)])).map (fun r => (historyOf r.2, r.1.pc 0)) =
    some ([⟨1, ⟨"deq", []⟩, [1, 7], 3, 7⟩], .enqUnlock 1) := by decide

example : ¬ Linearizable fifo [⟨1, ⟨"deq", []⟩, [1, 7], 3, 7⟩] := by
  intro hlin
  have := (linCheck_iff fifo _ (by decide)).mpr hlin
  revert this
  decide

example : Linearizable fifo ([⟨1, ⟨"deq", []⟩, [1, 7], 3, 7⟩] ++ [⟨0, ⟨"enq", [7]⟩, [1], 0, 8⟩]) :=
  linCheck_sound fifo _ (by decide)

/-- The empty dequeue is linearized at its load, not at its unlock.  Thread 0 reads `n0.next == null` under the head
    lock; thread 1 then enqueues 3 completely (other lock) and returns; only then thread 0 unlocks and answers
    "empty" — at that step the abstract queue is `[3]`. -/
def emptySched : List (Tid × Act) :=
  [(0, .invoke ⟨"deq", []⟩)] ++ steps 0 2 ++ [(1, .invoke ⟨"enq", [3]⟩)] ++ steps 1 3 ++ [(1, .ret)]

example : (RWQueue.model.run RWQueue.init emptySched).map (fun r => (r.2, RWQueue.absQueue r.1, r.1.pc 0)) = some
    ([(0, .call ⟨"deq", []⟩),
      (0, .ev ⟨"xchg", "hlock", "0", "1"⟩),
      (0, .ev ⟨"ld", "n0", "null", ""⟩),      -- linearization point of the empty deq (queue empty)
      (1, .call ⟨"enq", [3]⟩),
      (1, .ev ⟨"xchg", "tlock", "0", "1"⟩),
      (1, .ev ⟨"st", "n0", "n1", ""⟩),
      (1, .ev ⟨"st", "tlock", "0", ""⟩),
      (1, .ret [1])],
     [3], .deqUnlock none) := by decide

example : (RWQueue.model.run RWQueue.init (emptySched ++ steps 0 1 ++ [(0, .ret)])).map
    (fun r => (historyOf r.2, linCheck fifo (historyOf r.2))) =
    some ([⟨1, ⟨"enq", [3]⟩, [1], 3, 7⟩, ⟨0, ⟨"deq", []⟩, [0], 0, 9⟩], true) := by decide

/-- `enq` and `deq` proceed in parallel under different locks. -/
def parSched : List (Tid × Act) :=
  [(0, .invoke ⟨"enq", [5]⟩)] ++ steps 0 3 ++ [(0, .ret), (0, .invoke ⟨"enq", [6]⟩), (1, .invoke ⟨"deq", []⟩),
   (0, .step), (1, .step), (0, .step), (1, .step), (0, .step), (1, .step), (0, .ret), (1, .ret)]

example : (RWQueue.model.run RWQueue.init parSched).map (fun r => (r.2.drop 5, RWQueue.absQueue r.1)) = some
    ([(0, .call ⟨"enq", [6]⟩),
      (1, .call ⟨"deq", []⟩),
      (0, .ev ⟨"xchg", "tlock", "0", "1"⟩),
      (1, .ev ⟨"xchg", "hlock", "0", "1"⟩),   -- both critical sections occupied
      (0, .ev ⟨"st", "n1", "n2", ""⟩),
      (1, .ev ⟨"ld", "n0", "n1", ""⟩),
      (0, .ev ⟨"st", "tlock", "0", ""⟩),
      (1, .ev ⟨"st", "hlock", "0", ""⟩),
      (0, .ret [1]),
      (1, .ret [1, 5])], [6]) := by decide

example : (RWQueue.model.run RWQueue.init parSched).map (fun r => linCheck fifo (historyOf r.2)) = some true := by
  decide

end CdsVerif.Props.C06RWQueue

/-
  The inductive invariant of the flat-combining kernel model (`FC/Kernel.lean`) and its preservation by every
  transition.  The property theorems are in `Props/C23Kernel.lean`.

  Reading guide (record id = id of the owning thread):
   * `hold`, `lockFree`      : the spin lock protects the combiner role (every lock-holding thread is `holder`).
   * `noReq`, `someReq`      : `nRequest` is empty exactly outside the window [store of the request, release_record].
   * `respExec`, `opExec`, `atDone`, `atAge`, `le1`, `fin`
                             : the ghost counter `execs`: 0 while the request is pending and nobody is between
                               `fc_apply` and the store of req_Response for it; 1 from `fc_apply` on; never 2.
   * `rel`, `wtUnl`          : a thread reaches `release_record` only with nRequest = req_Response.
   * `unlinked`, `linkAct`   : an ACTIVE record that is not linked is either being linked by its owner (`pubLink`)
                               or being deactivated by the combiner (`ccInact`).
   * `cmb`, `pass`, `post`   : the combiner's own request: it is still pending only during the first pass and before
                               the walk reaches its record, which is then linked and active, hence visited; after the
                               passes it is answered.  (This is the `assert( pRec->op() == req_Response )` of
                               `try_combining`.)
-/
import CdsVerif.Algo.FC.Kernel
namespace CdsVerif.Algo.FC.Kernel
open CdsVerif.Machine CdsVerif.Spec

structure KInv (cfg : Cfg) (s : St) : Prop where
  bound : ∀ t, s.pc t ≠ .idle → t < cfg.N
  lockFree : s.lock = false → ∀ t, holds (s.pc t) = false
  hold : ∀ t, holds (s.pc t) = true → t = s.holder
  noReq : ∀ t, hasReq (s.pc t) = false → s.req t = .empty
  someReq : ∀ t, hasReq (s.pc t) = true → s.req t = .op ∨ s.req t = .resp
  respExec : ∀ k, s.req k = .resp → s.execs k = 1
  opExec : ∀ k, s.req k = .op → doneIdx (s.pc s.holder) ≠ some k → s.execs k = 0
  atDone : ∀ t c k, s.pc t = .cpDone c k → s.req k = .op ∧ s.execs k = 1
  atAge : ∀ t c k, s.pc t = .cpAge c k → s.req k = .op
  rel : ∀ t, s.pc t = .relSt → s.req t = .resp
  wtUnl : ∀ t, s.pc t = .wtUnlock → s.req t = .resp
  fin : ∀ t, s.pc t = .done → s.execs t = 1
  le1 : ∀ k, s.execs k ≤ 1
  unlinked : ∀ r, s.state r = .active → s.inList r = false →
    isLink (s.pc r) = true ∨ inactIdx (s.pc s.holder) = some r
  linkAct : ∀ t, s.pc t = .pubLink .lock → s.state t = .active
  cmb : ∀ t, s.pc t = .cmbCnt → s.req t = .resp ∨ (s.inList t = true ∧ s.state t = .active)
  pass : ∀ t c k, cpIdx (s.pc t) = some (c, k) →
    s.req t = .resp ∨ (c.pass = 0 ∧ k ≤ t ∧ s.inList t = true ∧ s.state t = .active)
  post : ∀ t, postPass (s.pc t) = true → s.req t = .resp

theorem kinv_init (cfg : Cfg) : KInv cfg init := by
  constructor <;> intros <;> simp_all [init, holds, hasReq, cpIdx, postPass]

theorem passEnd_cases (cfg : Cfg) (c : CS) :
    (∃ c', passEnd cfg c = .cpWalk c' 0 ∧ c'.pass = c.pass + 1) ∨ passEnd cfg c = .ccWalk c.age 0 ∨
      passEnd cfg c = .unlock := by
  by_cases h1 : ((c.done = true ∨ (if c.done then c.emp else c.emp + 1) ≤ (if c.done then c.use + 1 else c.use)) ∧
      c.pass + 1 < cfg.P)
  · refine Or.inl ⟨⟨c.age, c.pass + 1, if c.done then c.emp else c.emp + 1,
      if c.done then c.use + 1 else c.use, false⟩, ?_, rfl⟩
    show (if _ then _ else _) = _
    rw [if_pos h1]
  · by_cases h2 : c.age &&& cfg.cf = 0
    · refine Or.inr (Or.inl ?_)
      show (if _ then _ else _) = _
      rw [if_neg h1, if_pos h2]
    · refine Or.inr (Or.inr ?_)
      show (if _ then _ else _) = _
      rw [if_neg h1, if_neg h2]

theorem doneIdx_of_not_holds (p : PC) : holds p = false → doneIdx p = none := by
  cases p <;> simp [holds, doneIdx]
theorem inactIdx_of_not_holds (p : PC) : holds p = false → inactIdx p = none := by
  cases p <;> simp [holds, inactIdx]
theorem cpIdx_of_not_holds (p : PC) : holds p = false → cpIdx p = none := by
  cases p <;> simp [holds, cpIdx]
theorem postPass_of_not_holds (p : PC) : holds p = false → postPass p = false := by
  cases p <;> simp [holds, postPass]
grind_pattern doneIdx_of_not_holds => doneIdx p
grind_pattern inactIdx_of_not_holds => inactIdx p
grind_pattern cpIdx_of_not_holds => cpIdx p
grind_pattern postPass_of_not_holds => postPass p

macro "kinv_close" : tactic =>
  `(tactic| (constructor <;> intros <;> (try dsimp only at *) <;>
      grind [upd, holds, hasReq, cpIdx, postPass, afterPublish, doneIdx, inactIdx, isLink]))

set_option maxHeartbeats 4000000 in
theorem step_acqLd {cfg : Cfg} {s s' : St} {t : Tid} {ev : Ev} 
    (h : KInv cfg s) (hpc : s.pc t = .acqLd) (hs : step cfg s t = some (s', ev)) : KInv cfg s' := by
  obtain ⟨h_bound, h_lockFree, h_hold, h_noReq, h_someReq, h_respExec, h_opExec, h_atDone, h_atAge, h_rel, h_wtUnl, h_fin, h_le1, h_unlinked, h_linkAct, h_cmb, h_pass, h_post⟩ := h
  have s_pass := h_pass t; have s_post := h_post t; have s_hold := h_hold t
  have s_noReq := h_noReq t; have s_someReq := h_someReq t; have s_bound := h_bound t
  simp only [hpc, cpIdx, postPass, holds, hasReq] at s_pass s_post s_hold s_noReq s_someReq s_bound
  simp only [step, hpc] at hs
  simp only [Option.some.injEq, Prod.mk.injEq] at hs; obtain ⟨rfl, -⟩ := hs
  kinv_close

set_option maxHeartbeats 4000000 in
theorem step_pubCnt {cfg : Cfg} {s s' : St} {t : Tid} {ev : Ev} {c : Cont}
    (h : KInv cfg s) (hpc : s.pc t = .pubCnt c) (hs : step cfg s t = some (s', ev)) : KInv cfg s' := by
  obtain ⟨h_bound, h_lockFree, h_hold, h_noReq, h_someReq, h_respExec, h_opExec, h_atDone, h_atAge, h_rel, h_wtUnl, h_fin, h_le1, h_unlinked, h_linkAct, h_cmb, h_pass, h_post⟩ := h
  have s_pass := h_pass t; have s_post := h_post t; have s_hold := h_hold t
  have s_noReq := h_noReq t; have s_someReq := h_someReq t; have s_bound := h_bound t
  simp only [hpc, cpIdx, postPass, holds, hasReq] at s_pass s_post s_hold s_noReq s_someReq s_bound
  simp only [step, hpc] at hs
  simp only [Option.some.injEq, Prod.mk.injEq] at hs; obtain ⟨rfl, -⟩ := hs
  cases c <;> kinv_close

set_option maxHeartbeats 4000000 in
theorem step_pubAge {cfg : Cfg} {s s' : St} {t : Tid} {ev : Ev} {c : Cont} {a : Nat}
    (h : KInv cfg s) (hpc : s.pc t = .pubAge c a) (hs : step cfg s t = some (s', ev)) : KInv cfg s' := by
  obtain ⟨h_bound, h_lockFree, h_hold, h_noReq, h_someReq, h_respExec, h_opExec, h_atDone, h_atAge, h_rel, h_wtUnl, h_fin, h_le1, h_unlinked, h_linkAct, h_cmb, h_pass, h_post⟩ := h
  have s_pass := h_pass t; have s_post := h_post t; have s_hold := h_hold t
  have s_noReq := h_noReq t; have s_someReq := h_someReq t; have s_bound := h_bound t
  simp only [hpc, cpIdx, postPass, holds, hasReq] at s_pass s_post s_hold s_noReq s_someReq s_bound
  simp only [step, hpc] at hs
  simp only [Option.some.injEq, Prod.mk.injEq] at hs; obtain ⟨rfl, -⟩ := hs
  cases c <;> kinv_close

set_option maxHeartbeats 4000000 in
theorem step_pubAct {cfg : Cfg} {s s' : St} {t : Tid} {ev : Ev} {c : Cont}
    (h : KInv cfg s) (hpc : s.pc t = .pubAct c) (hs : step cfg s t = some (s', ev)) : KInv cfg s' := by
  obtain ⟨h_bound, h_lockFree, h_hold, h_noReq, h_someReq, h_respExec, h_opExec, h_atDone, h_atAge, h_rel, h_wtUnl, h_fin, h_le1, h_unlinked, h_linkAct, h_cmb, h_pass, h_post⟩ := h
  have s_pass := h_pass t; have s_post := h_post t; have s_hold := h_hold t
  have s_noReq := h_noReq t; have s_someReq := h_someReq t; have s_bound := h_bound t
  simp only [hpc, cpIdx, postPass, holds, hasReq] at s_pass s_post s_hold s_noReq s_someReq s_bound
  simp only [step, hpc] at hs
  simp only [Option.some.injEq, Prod.mk.injEq] at hs; obtain ⟨rfl, -⟩ := hs
  cases c <;> kinv_close

set_option maxHeartbeats 4000000 in
theorem step_pubLink {cfg : Cfg} {s s' : St} {t : Tid} {ev : Ev} {c : Cont}
    (h : KInv cfg s) (hpc : s.pc t = .pubLink c) (hs : step cfg s t = some (s', ev)) : KInv cfg s' := by
  obtain ⟨h_bound, h_lockFree, h_hold, h_noReq, h_someReq, h_respExec, h_opExec, h_atDone, h_atAge, h_rel, h_wtUnl, h_fin, h_le1, h_unlinked, h_linkAct, h_cmb, h_pass, h_post⟩ := h
  have s_pass := h_pass t; have s_post := h_post t; have s_hold := h_hold t
  have s_noReq := h_noReq t; have s_someReq := h_someReq t; have s_bound := h_bound t
  simp only [hpc, cpIdx, postPass, holds, hasReq] at s_pass s_post s_hold s_noReq s_someReq s_bound
  simp only [step, hpc] at hs
  simp only [Option.some.injEq, Prod.mk.injEq] at hs; obtain ⟨rfl, -⟩ := hs
  cases c <;> kinv_close

set_option maxHeartbeats 4000000 in
theorem step_reqSt {cfg : Cfg} {s s' : St} {t : Tid} {ev : Ev} 
    (h : KInv cfg s) (hpc : s.pc t = .reqSt) (hs : step cfg s t = some (s', ev)) : KInv cfg s' := by
  obtain ⟨h_bound, h_lockFree, h_hold, h_noReq, h_someReq, h_respExec, h_opExec, h_atDone, h_atAge, h_rel, h_wtUnl, h_fin, h_le1, h_unlinked, h_linkAct, h_cmb, h_pass, h_post⟩ := h
  have s_pass := h_pass t; have s_post := h_post t; have s_hold := h_hold t
  have s_noReq := h_noReq t; have s_someReq := h_someReq t; have s_bound := h_bound t
  simp only [hpc, cpIdx, postPass, holds, hasReq] at s_pass s_post s_hold s_noReq s_someReq s_bound
  simp only [step, hpc] at hs
  simp only [Option.some.injEq, Prod.mk.injEq] at hs; obtain ⟨rfl, -⟩ := hs
  kinv_close

set_option maxHeartbeats 4000000 in
theorem step_tryLock {cfg : Cfg} {s s' : St} {t : Tid} {ev : Ev} 
    (h : KInv cfg s) (hpc : s.pc t = .tryLock) (hs : step cfg s t = some (s', ev)) : KInv cfg s' := by
  obtain ⟨h_bound, h_lockFree, h_hold, h_noReq, h_someReq, h_respExec, h_opExec, h_atDone, h_atAge, h_rel, h_wtUnl, h_fin, h_le1, h_unlinked, h_linkAct, h_cmb, h_pass, h_post⟩ := h
  have s_pass := h_pass t; have s_post := h_post t; have s_hold := h_hold t
  have s_noReq := h_noReq t; have s_someReq := h_someReq t; have s_bound := h_bound t
  simp only [hpc, cpIdx, postPass, holds, hasReq] at s_pass s_post s_hold s_noReq s_someReq s_bound
  simp only [step, hpc] at hs
  simp only [Option.some.injEq, Prod.mk.injEq] at hs; obtain ⟨rfl, -⟩ := hs
  kinv_close

set_option maxHeartbeats 4000000 in
theorem step_lkRepub {cfg : Cfg} {s s' : St} {t : Tid} {ev : Ev} 
    (h : KInv cfg s) (hpc : s.pc t = .lkRepub) (hs : step cfg s t = some (s', ev)) : KInv cfg s' := by
  obtain ⟨h_bound, h_lockFree, h_hold, h_noReq, h_someReq, h_respExec, h_opExec, h_atDone, h_atAge, h_rel, h_wtUnl, h_fin, h_le1, h_unlinked, h_linkAct, h_cmb, h_pass, h_post⟩ := h
  have s_pass := h_pass t; have s_post := h_post t; have s_hold := h_hold t
  have s_noReq := h_noReq t; have s_someReq := h_someReq t; have s_bound := h_bound t
  simp only [hpc, cpIdx, postPass, holds, hasReq] at s_pass s_post s_hold s_noReq s_someReq s_bound
  simp only [step, hpc] at hs
  simp only [Option.some.injEq, Prod.mk.injEq] at hs; obtain ⟨rfl, -⟩ := hs
  kinv_close

set_option maxHeartbeats 4000000 in
theorem step_cmbCnt {cfg : Cfg} {s s' : St} {t : Tid} {ev : Ev} 
    (h : KInv cfg s) (hpc : s.pc t = .cmbCnt) (hs : step cfg s t = some (s', ev)) : KInv cfg s' := by
  obtain ⟨h_bound, h_lockFree, h_hold, h_noReq, h_someReq, h_respExec, h_opExec, h_atDone, h_atAge, h_rel, h_wtUnl, h_fin, h_le1, h_unlinked, h_linkAct, h_cmb, h_pass, h_post⟩ := h
  have s_pass := h_pass t; have s_post := h_post t; have s_hold := h_hold t
  have s_noReq := h_noReq t; have s_someReq := h_someReq t; have s_bound := h_bound t
  simp only [hpc, cpIdx, postPass, holds, hasReq] at s_pass s_post s_hold s_noReq s_someReq s_bound
  simp only [step, hpc] at hs
  simp only [Option.some.injEq, Prod.mk.injEq] at hs; obtain ⟨rfl, -⟩ := hs
  kinv_close

set_option maxHeartbeats 4000000 in
theorem step_cpState {cfg : Cfg} {s s' : St} {t : Tid} {ev : Ev} {c : CS} {k : Nat}
    (h : KInv cfg s) (hpc : s.pc t = .cpState c k) (hs : step cfg s t = some (s', ev)) : KInv cfg s' := by
  obtain ⟨h_bound, h_lockFree, h_hold, h_noReq, h_someReq, h_respExec, h_opExec, h_atDone, h_atAge, h_rel, h_wtUnl, h_fin, h_le1, h_unlinked, h_linkAct, h_cmb, h_pass, h_post⟩ := h
  have s_pass := h_pass t; have s_post := h_post t; have s_hold := h_hold t
  have s_noReq := h_noReq t; have s_someReq := h_someReq t; have s_bound := h_bound t
  simp only [hpc, cpIdx, postPass, holds, hasReq] at s_pass s_post s_hold s_noReq s_someReq s_bound
  simp only [step, hpc] at hs
  simp only [Option.some.injEq, Prod.mk.injEq] at hs; obtain ⟨rfl, -⟩ := hs
  kinv_close

set_option maxHeartbeats 4000000 in
theorem step_cpReq {cfg : Cfg} {s s' : St} {t : Tid} {ev : Ev} {c : CS} {k : Nat}
    (h : KInv cfg s) (hpc : s.pc t = .cpReq c k) (hs : step cfg s t = some (s', ev)) : KInv cfg s' := by
  obtain ⟨h_bound, h_lockFree, h_hold, h_noReq, h_someReq, h_respExec, h_opExec, h_atDone, h_atAge, h_rel, h_wtUnl, h_fin, h_le1, h_unlinked, h_linkAct, h_cmb, h_pass, h_post⟩ := h
  have s_pass := h_pass t; have s_post := h_post t; have s_hold := h_hold t
  have s_noReq := h_noReq t; have s_someReq := h_someReq t; have s_bound := h_bound t
  simp only [hpc, cpIdx, postPass, holds, hasReq] at s_pass s_post s_hold s_noReq s_someReq s_bound
  simp only [step, hpc] at hs
  simp only [Option.some.injEq, Prod.mk.injEq] at hs; obtain ⟨rfl, -⟩ := hs
  kinv_close

set_option maxHeartbeats 4000000 in
theorem step_cpAge {cfg : Cfg} {s s' : St} {t : Tid} {ev : Ev} {c : CS} {k : Nat}
    (h : KInv cfg s) (hpc : s.pc t = .cpAge c k) (hs : step cfg s t = some (s', ev)) : KInv cfg s' := by
  obtain ⟨h_bound, h_lockFree, h_hold, h_noReq, h_someReq, h_respExec, h_opExec, h_atDone, h_atAge, h_rel, h_wtUnl, h_fin, h_le1, h_unlinked, h_linkAct, h_cmb, h_pass, h_post⟩ := h
  have s_pass := h_pass t; have s_post := h_post t; have s_hold := h_hold t
  have s_noReq := h_noReq t; have s_someReq := h_someReq t; have s_bound := h_bound t
  simp only [hpc, cpIdx, postPass, holds, hasReq] at s_pass s_post s_hold s_noReq s_someReq s_bound
  simp only [step, hpc] at hs
  simp only [Option.some.injEq, Prod.mk.injEq] at hs; obtain ⟨rfl, -⟩ := hs
  kinv_close

set_option maxHeartbeats 4000000 in
theorem step_cpDone {cfg : Cfg} {s s' : St} {t : Tid} {ev : Ev} {c : CS} {k : Nat}
    (h : KInv cfg s) (hpc : s.pc t = .cpDone c k) (hs : step cfg s t = some (s', ev)) : KInv cfg s' := by
  obtain ⟨h_bound, h_lockFree, h_hold, h_noReq, h_someReq, h_respExec, h_opExec, h_atDone, h_atAge, h_rel, h_wtUnl, h_fin, h_le1, h_unlinked, h_linkAct, h_cmb, h_pass, h_post⟩ := h
  have s_pass := h_pass t; have s_post := h_post t; have s_hold := h_hold t
  have s_noReq := h_noReq t; have s_someReq := h_someReq t; have s_bound := h_bound t
  simp only [hpc, cpIdx, postPass, holds, hasReq] at s_pass s_post s_hold s_noReq s_someReq s_bound
  simp only [step, hpc] at hs
  simp only [Option.some.injEq, Prod.mk.injEq] at hs; obtain ⟨rfl, -⟩ := hs
  kinv_close

set_option maxHeartbeats 4000000 in
theorem step_ccState {cfg : Cfg} {s s' : St} {t : Tid} {ev : Ev} {a : Nat} {k : Nat}
    (h : KInv cfg s) (hpc : s.pc t = .ccState a k) (hs : step cfg s t = some (s', ev)) : KInv cfg s' := by
  obtain ⟨h_bound, h_lockFree, h_hold, h_noReq, h_someReq, h_respExec, h_opExec, h_atDone, h_atAge, h_rel, h_wtUnl, h_fin, h_le1, h_unlinked, h_linkAct, h_cmb, h_pass, h_post⟩ := h
  have s_pass := h_pass t; have s_post := h_post t; have s_hold := h_hold t
  have s_noReq := h_noReq t; have s_someReq := h_someReq t; have s_bound := h_bound t
  simp only [hpc, cpIdx, postPass, holds, hasReq] at s_pass s_post s_hold s_noReq s_someReq s_bound
  simp only [step, hpc] at hs
  simp only [Option.some.injEq, Prod.mk.injEq] at hs; obtain ⟨rfl, -⟩ := hs
  kinv_close

set_option maxHeartbeats 4000000 in
theorem step_ccAge {cfg : Cfg} {s s' : St} {t : Tid} {ev : Ev} {a : Nat} {k : Nat}
    (h : KInv cfg s) (hpc : s.pc t = .ccAge a k) (hs : step cfg s t = some (s', ev)) : KInv cfg s' := by
  obtain ⟨h_bound, h_lockFree, h_hold, h_noReq, h_someReq, h_respExec, h_opExec, h_atDone, h_atAge, h_rel, h_wtUnl, h_fin, h_le1, h_unlinked, h_linkAct, h_cmb, h_pass, h_post⟩ := h
  have s_pass := h_pass t; have s_post := h_post t; have s_hold := h_hold t
  have s_noReq := h_noReq t; have s_someReq := h_someReq t; have s_bound := h_bound t
  simp only [hpc, cpIdx, postPass, holds, hasReq] at s_pass s_post s_hold s_noReq s_someReq s_bound
  simp only [step, hpc] at hs
  simp only [Option.some.injEq, Prod.mk.injEq] at hs; obtain ⟨rfl, -⟩ := hs
  kinv_close

set_option maxHeartbeats 4000000 in
theorem step_ccUnlink {cfg : Cfg} {s s' : St} {t : Tid} {ev : Ev} {a : Nat} {k : Nat}
    (h : KInv cfg s) (hpc : s.pc t = .ccUnlink a k) (hs : step cfg s t = some (s', ev)) : KInv cfg s' := by
  obtain ⟨h_bound, h_lockFree, h_hold, h_noReq, h_someReq, h_respExec, h_opExec, h_atDone, h_atAge, h_rel, h_wtUnl, h_fin, h_le1, h_unlinked, h_linkAct, h_cmb, h_pass, h_post⟩ := h
  have s_pass := h_pass t; have s_post := h_post t; have s_hold := h_hold t
  have s_noReq := h_noReq t; have s_someReq := h_someReq t; have s_bound := h_bound t
  simp only [hpc, cpIdx, postPass, holds, hasReq] at s_pass s_post s_hold s_noReq s_someReq s_bound
  simp only [step, hpc] at hs
  simp only [Option.some.injEq, Prod.mk.injEq] at hs; obtain ⟨rfl, -⟩ := hs
  kinv_close

set_option maxHeartbeats 4000000 in
theorem step_ccInact {cfg : Cfg} {s s' : St} {t : Tid} {ev : Ev} {a : Nat} {k : Nat}
    (h : KInv cfg s) (hpc : s.pc t = .ccInact a k) (hs : step cfg s t = some (s', ev)) : KInv cfg s' := by
  obtain ⟨h_bound, h_lockFree, h_hold, h_noReq, h_someReq, h_respExec, h_opExec, h_atDone, h_atAge, h_rel, h_wtUnl, h_fin, h_le1, h_unlinked, h_linkAct, h_cmb, h_pass, h_post⟩ := h
  have s_pass := h_pass t; have s_post := h_post t; have s_hold := h_hold t
  have s_noReq := h_noReq t; have s_someReq := h_someReq t; have s_bound := h_bound t
  simp only [hpc, cpIdx, postPass, holds, hasReq] at s_pass s_post s_hold s_noReq s_someReq s_bound
  simp only [step, hpc] at hs
  simp only [Option.some.injEq, Prod.mk.injEq] at hs; obtain ⟨rfl, -⟩ := hs
  kinv_close

set_option maxHeartbeats 4000000 in
theorem step_unlock {cfg : Cfg} {s s' : St} {t : Tid} {ev : Ev} 
    (h : KInv cfg s) (hpc : s.pc t = .unlock) (hs : step cfg s t = some (s', ev)) : KInv cfg s' := by
  obtain ⟨h_bound, h_lockFree, h_hold, h_noReq, h_someReq, h_respExec, h_opExec, h_atDone, h_atAge, h_rel, h_wtUnl, h_fin, h_le1, h_unlinked, h_linkAct, h_cmb, h_pass, h_post⟩ := h
  have s_pass := h_pass t; have s_post := h_post t; have s_hold := h_hold t
  have s_noReq := h_noReq t; have s_someReq := h_someReq t; have s_bound := h_bound t
  simp only [hpc, cpIdx, postPass, holds, hasReq] at s_pass s_post s_hold s_noReq s_someReq s_bound
  simp only [step, hpc] at hs
  simp only [Option.some.injEq, Prod.mk.injEq] at hs; obtain ⟨rfl, -⟩ := hs
  kinv_close

set_option maxHeartbeats 4000000 in
theorem step_wtReq {cfg : Cfg} {s s' : St} {t : Tid} {ev : Ev} 
    (h : KInv cfg s) (hpc : s.pc t = .wtReq) (hs : step cfg s t = some (s', ev)) : KInv cfg s' := by
  obtain ⟨h_bound, h_lockFree, h_hold, h_noReq, h_someReq, h_respExec, h_opExec, h_atDone, h_atAge, h_rel, h_wtUnl, h_fin, h_le1, h_unlinked, h_linkAct, h_cmb, h_pass, h_post⟩ := h
  have s_pass := h_pass t; have s_post := h_post t; have s_hold := h_hold t
  have s_noReq := h_noReq t; have s_someReq := h_someReq t; have s_bound := h_bound t
  simp only [hpc, cpIdx, postPass, holds, hasReq] at s_pass s_post s_hold s_noReq s_someReq s_bound
  simp only [step, hpc] at hs
  simp only [Option.some.injEq, Prod.mk.injEq] at hs; obtain ⟨rfl, -⟩ := hs
  kinv_close

set_option maxHeartbeats 4000000 in
theorem step_wtState {cfg : Cfg} {s s' : St} {t : Tid} {ev : Ev} 
    (h : KInv cfg s) (hpc : s.pc t = .wtState) (hs : step cfg s t = some (s', ev)) : KInv cfg s' := by
  obtain ⟨h_bound, h_lockFree, h_hold, h_noReq, h_someReq, h_respExec, h_opExec, h_atDone, h_atAge, h_rel, h_wtUnl, h_fin, h_le1, h_unlinked, h_linkAct, h_cmb, h_pass, h_post⟩ := h
  have s_pass := h_pass t; have s_post := h_post t; have s_hold := h_hold t
  have s_noReq := h_noReq t; have s_someReq := h_someReq t; have s_bound := h_bound t
  simp only [hpc, cpIdx, postPass, holds, hasReq] at s_pass s_post s_hold s_noReq s_someReq s_bound
  simp only [step, hpc] at hs
  simp only [Option.some.injEq, Prod.mk.injEq] at hs; obtain ⟨rfl, -⟩ := hs
  kinv_close

set_option maxHeartbeats 4000000 in
theorem step_wtLock {cfg : Cfg} {s s' : St} {t : Tid} {ev : Ev} 
    (h : KInv cfg s) (hpc : s.pc t = .wtLock) (hs : step cfg s t = some (s', ev)) : KInv cfg s' := by
  obtain ⟨h_bound, h_lockFree, h_hold, h_noReq, h_someReq, h_respExec, h_opExec, h_atDone, h_atAge, h_rel, h_wtUnl, h_fin, h_le1, h_unlinked, h_linkAct, h_cmb, h_pass, h_post⟩ := h
  have s_pass := h_pass t; have s_post := h_post t; have s_hold := h_hold t
  have s_noReq := h_noReq t; have s_someReq := h_someReq t; have s_bound := h_bound t
  simp only [hpc, cpIdx, postPass, holds, hasReq] at s_pass s_post s_hold s_noReq s_someReq s_bound
  simp only [step, hpc] at hs
  simp only [Option.some.injEq, Prod.mk.injEq] at hs; obtain ⟨rfl, -⟩ := hs
  kinv_close

set_option maxHeartbeats 4000000 in
theorem step_wtReq2 {cfg : Cfg} {s s' : St} {t : Tid} {ev : Ev} 
    (h : KInv cfg s) (hpc : s.pc t = .wtReq2) (hs : step cfg s t = some (s', ev)) : KInv cfg s' := by
  obtain ⟨h_bound, h_lockFree, h_hold, h_noReq, h_someReq, h_respExec, h_opExec, h_atDone, h_atAge, h_rel, h_wtUnl, h_fin, h_le1, h_unlinked, h_linkAct, h_cmb, h_pass, h_post⟩ := h
  have s_pass := h_pass t; have s_post := h_post t; have s_hold := h_hold t
  have s_noReq := h_noReq t; have s_someReq := h_someReq t; have s_bound := h_bound t
  simp only [hpc, cpIdx, postPass, holds, hasReq] at s_pass s_post s_hold s_noReq s_someReq s_bound
  simp only [step, hpc] at hs
  simp only [Option.some.injEq, Prod.mk.injEq] at hs; obtain ⟨rfl, -⟩ := hs
  kinv_close

set_option maxHeartbeats 4000000 in
theorem step_wtUnlock {cfg : Cfg} {s s' : St} {t : Tid} {ev : Ev} 
    (h : KInv cfg s) (hpc : s.pc t = .wtUnlock) (hs : step cfg s t = some (s', ev)) : KInv cfg s' := by
  obtain ⟨h_bound, h_lockFree, h_hold, h_noReq, h_someReq, h_respExec, h_opExec, h_atDone, h_atAge, h_rel, h_wtUnl, h_fin, h_le1, h_unlinked, h_linkAct, h_cmb, h_pass, h_post⟩ := h
  have s_pass := h_pass t; have s_post := h_post t; have s_hold := h_hold t
  have s_noReq := h_noReq t; have s_someReq := h_someReq t; have s_bound := h_bound t
  simp only [hpc, cpIdx, postPass, holds, hasReq] at s_pass s_post s_hold s_noReq s_someReq s_bound
  simp only [step, hpc] at hs
  simp only [Option.some.injEq, Prod.mk.injEq] at hs; obtain ⟨rfl, -⟩ := hs
  kinv_close

set_option maxHeartbeats 4000000 in
theorem step_relSt {cfg : Cfg} {s s' : St} {t : Tid} {ev : Ev} 
    (h : KInv cfg s) (hpc : s.pc t = .relSt) (hs : step cfg s t = some (s', ev)) : KInv cfg s' := by
  obtain ⟨h_bound, h_lockFree, h_hold, h_noReq, h_someReq, h_respExec, h_opExec, h_atDone, h_atAge, h_rel, h_wtUnl, h_fin, h_le1, h_unlinked, h_linkAct, h_cmb, h_pass, h_post⟩ := h
  have s_pass := h_pass t; have s_post := h_post t; have s_hold := h_hold t
  have s_noReq := h_noReq t; have s_someReq := h_someReq t; have s_bound := h_bound t
  simp only [hpc, cpIdx, postPass, holds, hasReq] at s_pass s_post s_hold s_noReq s_someReq s_bound
  simp only [step, hpc] at hs
  simp only [Option.some.injEq, Prod.mk.injEq] at hs; obtain ⟨rfl, -⟩ := hs
  kinv_close

set_option maxHeartbeats 4000000 in
theorem step_cpWalk {cfg : Cfg} {s s' : St} {t : Tid} {ev : Ev} {c : CS} {k : Nat}
    (h : KInv cfg s) (hpc : s.pc t = .cpWalk c k) (hs : step cfg s t = some (s', ev)) : KInv cfg s' := by
  obtain ⟨h_bound, h_lockFree, h_hold, h_noReq, h_someReq, h_respExec, h_opExec, h_atDone, h_atAge, h_rel, h_wtUnl, h_fin, h_le1, h_unlinked, h_linkAct, h_cmb, h_pass, h_post⟩ := h
  have s_pass := h_pass t; have s_post := h_post t; have s_hold := h_hold t
  have s_noReq := h_noReq t; have s_someReq := h_someReq t; have s_bound := h_bound t
  simp only [hpc, cpIdx, postPass, holds, hasReq] at s_pass s_post s_hold s_noReq s_someReq s_bound
  simp only [step, hpc] at hs
  split at hs
  · simp only [Option.some.injEq, Prod.mk.injEq] at hs; obtain ⟨rfl, -⟩ := hs
    kinv_close
  · simp only [Option.some.injEq, Prod.mk.injEq] at hs; obtain ⟨rfl, -⟩ := hs
    rcases passEnd_cases cfg c with ⟨c', he, hc'⟩ | he | he <;> rw [he] <;> kinv_close

set_option maxHeartbeats 4000000 in
theorem step_ccWalk {cfg : Cfg} {s s' : St} {t : Tid} {ev : Ev} {a : Nat} {k : Nat}
    (h : KInv cfg s) (hpc : s.pc t = .ccWalk a k) (hs : step cfg s t = some (s', ev)) : KInv cfg s' := by
  obtain ⟨h_bound, h_lockFree, h_hold, h_noReq, h_someReq, h_respExec, h_opExec, h_atDone, h_atAge, h_rel, h_wtUnl, h_fin, h_le1, h_unlinked, h_linkAct, h_cmb, h_pass, h_post⟩ := h
  have s_pass := h_pass t; have s_post := h_post t; have s_hold := h_hold t
  have s_noReq := h_noReq t; have s_someReq := h_someReq t; have s_bound := h_bound t
  simp only [hpc, cpIdx, postPass, holds, hasReq] at s_pass s_post s_hold s_noReq s_someReq s_bound
  simp only [step, hpc] at hs
  split at hs
  · simp only [Option.some.injEq, Prod.mk.injEq] at hs; obtain ⟨rfl, -⟩ := hs
    kinv_close
  · simp only [Option.some.injEq, Prod.mk.injEq] at hs; obtain ⟨rfl, -⟩ := hs
    kinv_close

/-! ### Preservation by every action -/

theorem kinv_invoke {cfg : Cfg} {s s' : St} {t : Tid} {op : GOp}
    (h : KInv cfg s) (hs : invoke cfg s t op = some s') : KInv cfg s' := by
  obtain ⟨h_bound, h_lockFree, h_hold, h_noReq, h_someReq, h_respExec, h_opExec, h_atDone, h_atAge, h_rel, h_wtUnl, h_fin, h_le1, h_unlinked, h_linkAct, h_cmb, h_pass, h_post⟩ := h
  unfold invoke at hs
  split at hs
  · split at hs
    · simp only [Option.some.injEq] at hs; subst hs
      kinv_close
    · simp at hs
  · simp at hs

theorem kinv_result {s s' : St} {cfg : Cfg} {t : Tid} {r : GRet}
    (h : KInv cfg s) (hs : result s t = some (s', r)) : KInv cfg s' := by
  obtain ⟨h_bound, h_lockFree, h_hold, h_noReq, h_someReq, h_respExec, h_opExec, h_atDone, h_atAge, h_rel, h_wtUnl, h_fin, h_le1, h_unlinked, h_linkAct, h_cmb, h_pass, h_post⟩ := h
  unfold result at hs
  split at hs
  · simp only [Option.some.injEq, Prod.mk.injEq] at hs; obtain ⟨rfl, -⟩ := hs
    kinv_close
  · simp at hs

theorem kinv_atomic {cfg : Cfg} {s s' : St} {t : Tid} {ev : Ev}
    (h : KInv cfg s) (hs : step cfg s t = some (s', ev)) : KInv cfg s' := by
  cases hpc : s.pc t with
  | idle => simp [step, hpc] at hs
  | done => simp [step, hpc] at hs
  | acqLd  => exact step_acqLd h hpc hs
  | pubCnt c => exact step_pubCnt h hpc hs
  | pubAge c a => exact step_pubAge h hpc hs
  | pubAct c => exact step_pubAct h hpc hs
  | pubLink c => exact step_pubLink h hpc hs
  | reqSt  => exact step_reqSt h hpc hs
  | tryLock  => exact step_tryLock h hpc hs
  | lkRepub  => exact step_lkRepub h hpc hs
  | cmbCnt  => exact step_cmbCnt h hpc hs
  | cpState c k => exact step_cpState h hpc hs
  | cpReq c k => exact step_cpReq h hpc hs
  | cpAge c k => exact step_cpAge h hpc hs
  | cpDone c k => exact step_cpDone h hpc hs
  | ccState a k => exact step_ccState h hpc hs
  | ccAge a k => exact step_ccAge h hpc hs
  | ccUnlink a k => exact step_ccUnlink h hpc hs
  | ccInact a k => exact step_ccInact h hpc hs
  | unlock  => exact step_unlock h hpc hs
  | wtReq  => exact step_wtReq h hpc hs
  | wtState  => exact step_wtState h hpc hs
  | wtLock  => exact step_wtLock h hpc hs
  | wtReq2  => exact step_wtReq2 h hpc hs
  | wtUnlock  => exact step_wtUnlock h hpc hs
  | relSt  => exact step_relSt h hpc hs
  | cpWalk c k => exact step_cpWalk h hpc hs
  | ccWalk a k => exact step_ccWalk h hpc hs

theorem kinv_step (cfg : Cfg) (s : St) (t : Tid) (a : Act) (s' : St) (o : Obs)
    (h : KInv cfg s) (hap : (model cfg).apply s t a = some (s', o)) : KInv cfg s' := by
  cases a with
  | invoke op =>
    simp only [Model.apply, model, Option.map_eq_some_iff] at hap
    obtain ⟨s1, hs1, heq⟩ := hap
    simp only [Prod.mk.injEq] at heq
    obtain ⟨rfl, -⟩ := heq
    exact kinv_invoke h hs1
  | step =>
    simp only [Model.apply, model, Option.map_eq_some_iff] at hap
    obtain ⟨r, hr, heq⟩ := hap
    simp only [Prod.mk.injEq] at heq
    obtain ⟨rfl, -⟩ := heq
    exact kinv_atomic h hr
  | ret =>
    simp only [Model.apply, model, Option.map_eq_some_iff] at hap
    obtain ⟨r, hr, heq⟩ := hap
    simp only [Prod.mk.injEq] at heq
    obtain ⟨rfl, -⟩ := heq
    exact kinv_result h hr

/-- The invariant holds in every reachable state, for every configuration. -/
theorem kinv_reachable (cfg : Cfg) (s : St) (h : (model cfg).Reachable init s) : KInv cfg s :=
  (model cfg).inv_reachable (KInv cfg) init (kinv_init cfg) (kinv_step cfg) s h

end CdsVerif.Algo.FC.Kernel

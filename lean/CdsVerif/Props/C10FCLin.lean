/-
  C10 / C06 / C09 / C11 (flat-combining variants) / C23 — a flat-combining container is LINEARIZABLE.

  `C10_fc_linearizable`: for EVERY deterministic sequential object `O` (state, `Spec`-style step function, interface), the
  flat-combining kernel machine with `O` as its container (`Algo/FC/KernelG.lean`: the kernel part is literally the machine
  `KernelR` that replays the real kernel's traces; `exec` = `fc_apply` applies `O.step` to the shared container under the
  lock and stores the result in the publication record; the operation returns the value read back from its record) is
  Herlihy–Wing linearizable with respect to `detSpec O.init O.step`: every run, every number of threads, compact factor,
  pass count, schedule, client program; operations pending at the end are completed if they have been executed and
  dropped otherwise (same form as C13_michael_linearizable / C16).  Linearization point: the `exec` step on the
  operation's record, performed by whichever thread is the combiner.

  Instances WITHOUT elimination (`enable_elimination = false`, the default of all four containers; FCPriorityQueue has no
  elimination at all): `O.step` := the step of the sequential specification in `Base/Spec.lean`:
      C06_fcqueue_linearizable   FCQueue          → Spec.fifo
      C09_fcstack_linearizable   FCStack          → Spec.lifo
      C10_fcdeque_linearizable   FCDeque          → Spec.deque
      C11_fcpq_linearizable      FCPriorityQueue  → Spec.maxpq 0   (fc_apply pops a maximal item: a deterministic refinement
                                                                    of the result-determined specification)
  That `fc_apply` of the real containers IS these step functions is the content of `C10_apply_is_spec`,
  `C06_fcqueue_apply_is_spec`, `C09_fcstack_apply_is_spec`, `C11_fcpq_apply_is_spec` (Props/C10.lean, Props/C23Batch.lean; tied to
  the code by `cdsdriver fcbatch`), and the generic machine is tied to the real kernel running a deque container by
  `cdsdriver replay fckernelg` (results included).

  NOT proved here (PARTIAL): the elimination variants (`batch_combine`: `fc_process` walks before `combining_pass`).
  What exists: `C10_session_refines` / `C10_batch_linearizable` and their queue / stack analogues — the pure batch function
  is a sequential execution of a permutation of the batch in which every collided pair is adjacent.  What is missing to
  compose them with the kernel: (1) a kernel machine with the `batch_combining` control flow (iterator walk skipping
  records with nRequest < req_Operation, `collide` = two `operation_done` stores, then `combining_pass`) and its invariant —
  `KInvR`'s clause "`execs j` goes 0 → 1 at the unique `exec` on record j" has to be restated for records answered by a
  collision; (2) in the ghost-log proof, a linearization point that is NOT the step that computes the result: the two
  operations of a collided pair must be logged together (push, then pop) at the moment of the collision, and for a
  cross-end deque pair / a queue pair this needs the additional invariant that the container is EMPTY at that moment and
  still empty when earlier-collided pairs were logged (the "collided pairs are no-ops on the container the combiner
  found" argument of `elimGo_spec`, lifted from a fixed batch to the concurrent list, where requests keep arriving
  during the walk).  No theorem about elimination under concurrency is claimed.
-/
import CdsVerif.Algo.FC.KernelGLin
import CdsVerif.Algo.FC.Objects
namespace CdsVerif.Props.C10FCLin
open CdsVerif.Machine CdsVerif.Spec CdsVerif.Lin CdsVerif.Algo.FC CdsVerif.Algo.FC.KernelG CdsVerif.Algo.FC.Log
open CdsVerif.Algo.FC.Kernel (Cfg)
open CdsVerif.Algo.FC.Objects

/-! ### The generic theorem -/

/-- **Flat combining is linearizable**, for every deterministic sequential object. -/
theorem C10_fc_linearizable {σ : Type} (O : Obj σ) (cfg : Cfg) (sched : List (Tid × Act)) (s : St σ)
    (os : List (Tid × Obs)) (h : (model O cfg).run (init O cfg) sched = some (s, os)) :
    ∃ extra : List (OpRec GOp GRet),
      (∀ e ∈ extra, pendingOf os e.tid = some (e.op, e.inv) ∧ e.res = os.length ∧
          lin s.k e.tid = true ∧ e.ret = s.resg e.tid) ∧
      extra.Pairwise (fun a b => a.tid ≠ b.tid) ∧
      Linearizable (detSpec O.init O.step) (historyOf os ++ extra) :=
  fc_linearizable O cfg sched s os h

/-- Runs in which every invoked operation has returned: the history is linearizable as it is. -/
theorem C10_fc_linearizable_complete_runs {σ : Type} (O : Obj σ) (cfg : Cfg) (sched : List (Tid × Act)) (s : St σ)
    (os : List (Tid × Obs)) (h : (model O cfg).run (init O cfg) sched = some (s, os)) (hq : ∀ t, s.k.pc t = .idle) :
    Linearizable (detSpec O.init O.step) (historyOf os) :=
  fc_linearizable_complete_runs O cfg sched s os h hq

/-- Runs at whose end no executed operation is still waiting to return. -/
theorem C10_fc_linearizable_no_effect_pending {σ : Type} (O : Obj σ) (cfg : Cfg) (sched : List (Tid × Act)) (s : St σ)
    (os : List (Tid × Obs)) (h : (model O cfg).run (init O cfg) sched = some (s, os)) (hq : ∀ t, lin s.k t = false) :
    Linearizable (detSpec O.init O.step) (historyOf os) :=
  fc_linearizable_no_effect_pending O cfg sched s os h hq

/-- `historyOf` is faithful: a record's `inv` / `res` are the positions of its CALL and RET observations. -/
theorem C10_fc_history_sound (os : List (Tid × Obs)) (r : OpRec GOp GRet) (h : r ∈ historyOf os) :
    os[r.inv]? = some (r.tid, .call r.op) ∧ os[r.res]? = some (r.tid, .ret r.ret) ∧ r.inv < r.res :=
  historyOf_sound os r h

/-- The kernel invariant `KInvR` (hence mutual exclusion of combiners, exactly-once, response-after-execution, no lost
    request: Props/C23KernelR.lean) holds of the kernel part of every reachable state, WHATEVER the container. -/
theorem C23_kernel_invariant_any_container {σ : Type} (O : Obj σ) (cfg : Cfg) (sched : List (Tid × Act)) (s : St σ)
    (os : List (Tid × Obs)) (h : (model O cfg).run (init O cfg) sched = some (s, os)) :
    KernelR.KInvR cfg s.k ∧
    (∀ t1 t2, KernelR.holds (s.k.pc t1) = true → KernelR.holds (s.k.pc t2) = true → t1 = t2) ∧
    (∀ r, s.k.execs r ≤ 1) ∧ (∀ t, s.k.pc t = .done → s.k.execs t = 1) := by
  have hi := kinvr_of_run h
  refine ⟨hi, fun t1 t2 h1 h2 => ?_, hi.le1, hi.fin⟩
  rw [hi.hold t1 h1, hi.hold t2 h2]

/-! ### Changing the specification -/

theorem legal_mono {σ : Type} {A B : Lin.Spec σ GOp GRet}
    (hAB : ∀ s op r s', A.next s op r = some s' → B.next s op r = some s') :
    ∀ (l : List (OpRec GOp GRet)) (s : σ), Legal A s l → Legal B s l
  | [], _, _ => trivial
  | _ :: l, _, ⟨s', h1, h2⟩ => ⟨s', hAB _ _ _ _ h1, legal_mono hAB l s' h2⟩

theorem linearizable_mono {σ : Type} {A B : Lin.Spec σ GOp GRet} (hi : A.init = B.init)
    (hAB : ∀ s op r s', A.next s op r = some s' → B.next s op r = some s') (ops : List (OpRec GOp GRet))
    (h : Linearizable A ops) : Linearizable B ops := by
  obtain ⟨perm, hp, hrt, hl⟩ := h
  exact ⟨perm, hp, hrt, by rw [← hi]; exact legal_mono hAB perm _ hl⟩

/-! ### The four containers, without elimination (objects: `Algo/FC/Objects.lean`) -/

/-- `pqStepD` is a deterministic refinement of the result-determined max-priority-queue specification. -/
theorem pqStepD_refines (s : List Int) (op : GOp) (r : GRet) (s' : List Int)
    (h : (detSpec [] pqStepD).next s op r = some s') : (maxpq 0).next s op r = some s' := by
  obtain ⟨n, a⟩ := op
  simp only [detSpec, pqStepD] at h
  split at h
  · next s1 r1 hq =>
    split at hq
    · next v =>
      simp at hq; obtain ⟨rfl, rfl⟩ := hq
      split at h <;> simp at h
      subst h; rename_i hr; subst hr
      simp [maxpq, pqNext]
    · cases hm : s.max? with
      | none =>
        simp [hm] at hq; obtain ⟨rfl, rfl⟩ := hq
        split at h <;> simp at h
        subst h; rename_i hr; subst hr
        have : s = [] := by simpa using hm
        subst this
        simp [maxpq, pqNext]
      | some m =>
        simp [hm] at hq; obtain ⟨rfl, rfl⟩ := hq
        split at h <;> simp at h
        subst h; rename_i hr; subst hr
        have hmm := List.max?_eq_some_iff.mp hm
        have hall : ∀ w ∈ s, prioOf w ≤ prioOf m := by
          intro w hw
          have := hmm.2 w hw
          simp only [prioOf]; omega
        simp [maxpq, pqNext, hmm.1]
        exact hall
    · simp at hq
  · simp at h

/-- **FCQueue is linearizable** (to `Spec.fifo`), no elimination. -/
theorem C06_fcqueue_linearizable (cfg : Cfg) (sched : List (Tid × Act)) (s : St (List Int))
    (os : List (Tid × Obs)) (h : (model queueObj cfg).run (init queueObj cfg) sched = some (s, os)) :
    ∃ extra : List (OpRec GOp GRet),
      (∀ e ∈ extra, pendingOf os e.tid = some (e.op, e.inv) ∧ e.res = os.length ∧
          lin s.k e.tid = true ∧ e.ret = s.resg e.tid) ∧
      extra.Pairwise (fun a b => a.tid ≠ b.tid) ∧
      Linearizable fifo (historyOf os ++ extra) :=
  fc_linearizable queueObj cfg sched s os h

/-- **FCStack is linearizable** (to `Spec.lifo`), no elimination. -/
theorem C09_fcstack_linearizable (cfg : Cfg) (sched : List (Tid × Act)) (s : St (List Int))
    (os : List (Tid × Obs)) (h : (model stackObj cfg).run (init stackObj cfg) sched = some (s, os)) :
    ∃ extra : List (OpRec GOp GRet),
      (∀ e ∈ extra, pendingOf os e.tid = some (e.op, e.inv) ∧ e.res = os.length ∧
          lin s.k e.tid = true ∧ e.ret = s.resg e.tid) ∧
      extra.Pairwise (fun a b => a.tid ≠ b.tid) ∧
      Linearizable lifo (historyOf os ++ extra) :=
  fc_linearizable stackObj cfg sched s os h

/-- **FCDeque is linearizable** (to `Spec.deque`), no elimination. -/
theorem C10_fcdeque_linearizable (cfg : Cfg) (sched : List (Tid × Act)) (s : St (List Int))
    (os : List (Tid × Obs)) (h : (model dequeObj cfg).run (init dequeObj cfg) sched = some (s, os)) :
    ∃ extra : List (OpRec GOp GRet),
      (∀ e ∈ extra, pendingOf os e.tid = some (e.op, e.inv) ∧ e.res = os.length ∧
          lin s.k e.tid = true ∧ e.ret = s.resg e.tid) ∧
      extra.Pairwise (fun a b => a.tid ≠ b.tid) ∧
      Linearizable deque (historyOf os ++ extra) :=
  fc_linearizable dequeObj cfg sched s os h

/-- **FCPriorityQueue is linearizable** (to the unbounded max-priority queue `Spec.maxpq 0`). -/
theorem C11_fcpq_linearizable (cfg : Cfg) (sched : List (Tid × Act)) (s : St (List Int))
    (os : List (Tid × Obs)) (h : (model pqObj cfg).run (init pqObj cfg) sched = some (s, os)) :
    ∃ extra : List (OpRec GOp GRet),
      (∀ e ∈ extra, pendingOf os e.tid = some (e.op, e.inv) ∧ e.res = os.length ∧
          lin s.k e.tid = true ∧ e.ret = s.resg e.tid) ∧
      extra.Pairwise (fun a b => a.tid ≠ b.tid) ∧
      Linearizable (maxpq 0) (historyOf os ++ extra) := by
  obtain ⟨extra, h1, h2, h3⟩ := fc_linearizable pqObj cfg sched s os h
  exact ⟨extra, h1, h2, linearizable_mono (A := detSpec [] pqStepD) (B := maxpq 0) rfl pqStepD_refines _ h3⟩

/-- Complete runs of the four containers: the history itself is linearizable. -/
theorem C10_fcdeque_linearizable_complete_runs (cfg : Cfg) (sched : List (Tid × Act)) (s : St (List Int))
    (os : List (Tid × Obs)) (h : (model dequeObj cfg).run (init dequeObj cfg) sched = some (s, os))
    (hq : ∀ t, s.k.pc t = .idle) : Linearizable deque (historyOf os) :=
  fc_linearizable_complete_runs dequeObj cfg sched s os h hq

theorem C06_fcqueue_linearizable_complete_runs (cfg : Cfg) (sched : List (Tid × Act)) (s : St (List Int))
    (os : List (Tid × Obs)) (h : (model queueObj cfg).run (init queueObj cfg) sched = some (s, os))
    (hq : ∀ t, s.k.pc t = .idle) : Linearizable fifo (historyOf os) :=
  fc_linearizable_complete_runs queueObj cfg sched s os h hq

theorem C09_fcstack_linearizable_complete_runs (cfg : Cfg) (sched : List (Tid × Act)) (s : St (List Int))
    (os : List (Tid × Obs)) (h : (model stackObj cfg).run (init stackObj cfg) sched = some (s, os))
    (hq : ∀ t, s.k.pc t = .idle) : Linearizable lifo (historyOf os) :=
  fc_linearizable_complete_runs stackObj cfg sched s os h hq

theorem C11_fcpq_linearizable_complete_runs (cfg : Cfg) (sched : List (Tid × Act)) (s : St (List Int))
    (os : List (Tid × Obs)) (h : (model pqObj cfg).run (init pqObj cfg) sched = some (s, os))
    (hq : ∀ t, s.k.pc t = .idle) : Linearizable (maxpq 0) (historyOf os) :=
  linearizable_mono (A := detSpec [] pqStepD) (B := maxpq 0) rfl pqStepD_refines _
    (fc_linearizable_complete_runs pqObj cfg sched s os h hq)

/-! ### A real run, evaluated by the kernel (`decide`) -/

def st (t n : Nat) : List (Tid × Act) := List.replicate n (t, .step)

/-- The schedule of a REAL run of the kernel over a std::deque (harness `fckernel --container deque --seed 1 --threads 2 --ops 3`,
    case 0: two threads, three operations each, compact-factor mask 0, one pass). -/
def realDequeRun : List (Tid × Act) :=
  [(0, .invoke ⟨"pop_front", []⟩)] ++ st 0 2 ++ [(1, .invoke ⟨"push_front", [200]⟩)] ++ st 1 2 ++ st 0 6 ++ st 1 3 ++ st 0 23 ++
  st 1 1 ++ st 0 2 ++ [(0, .ret)] ++ [(0, .invoke ⟨"pop_back", []⟩)] ++ st 1 2 ++ [(1, .ret)] ++
  [(1, .invoke ⟨"push_front", [201]⟩)] ++ st 0 2 ++ st 1 1 ++ st 0 6 ++ st 1 2 ++ st 0 20 ++ st 1 2 ++ [(1, .ret)] ++
  [(1, .invoke ⟨"pop_back", []⟩)] ++ st 0 5 ++ [(0, .ret)] ++ [(0, .invoke ⟨"push_front", [102]⟩)] ++ st 0 13 ++ st 1 3 ++ st 0 8 ++
  st 1 2 ++ st 0 4 ++ st 1 6 ++ st 0 5 ++ st 1 3 ++ st 0 2 ++ [(0, .ret)] ++ st 1 31 ++ [(1, .ret)]

/-- Final container and the history (thread, operation, result, index of CALL, index of RET) of that run. -/
def realDequeOutcome : Option (List Int × List (Nat × String × GRet × Nat × Nat)) :=
  ((model dequeObj ⟨2, 0, 1⟩).run (init dequeObj ⟨2, 0, 1⟩) realDequeRun).map
    (fun r => (r.1.obj, (historyOf r.2).map (fun o => (o.tid, o.op.name, o.ret, o.inv, o.res))))

set_option synthInstance.maxSize 4000 in
/-- The machine accepts the schedule and computes the results the real run produced: thread 0's `pop_front`, invoked FIRST,
    returns the 200 that thread 1 pushed while it was pending (thread 0 is the combiner and serves r1 before r0:
    list order), etc. -/
example : realDequeOutcome = some ([],
    [(0, "pop_front", [1, 200], 0, 41), (1, "push_front", [1], 3, 45), (1, "push_front", [1], 46, 80),
     (0, "pop_back", [1, 201], 42, 87), (0, "push_front", [1], 88, 135), (1, "pop_back", [1, 102], 81, 167)]) := by
  decide +kernel

/-- … and the verified checker accepts this history (an instance of `C10_fcdeque_linearizable_complete_runs`). -/
example : (((model dequeObj ⟨2, 0, 1⟩).run (init dequeObj ⟨2, 0, 1⟩) realDequeRun).map
    (fun r => linCheck deque (historyOf r.2))) = some true := by decide +kernel

/-! ### Concrete runs of the queue and the stack instances (the hypotheses of `C06_fcqueue_linearizable` /
    `C09_fcstack_linearizable` are satisfiable by a run with a combiner serving ANOTHER thread and a failing operation) -/

/-- Two threads, three operations (kernel configuration ⟨2, 0, 1⟩ as above).  Thread 0 invokes `a`, thread 1 invokes `b`
    while `a` is pending; thread 0 becomes the combiner and executes BOTH requests (r1 before r0: list order); thread 0
    then invokes `c` and runs alone (it is the combiner of its own request). -/
def twoThreadRun (a b c : GOp) : List (Tid × Act) :=
  [(0, .invoke a)] ++ st 0 2 ++ [(1, .invoke b)] ++ st 1 2 ++ st 0 6 ++ st 1 3 ++ st 0 23 ++ st 1 1 ++ st 0 2 ++
  [(0, .ret)] ++ [(0, .invoke c)] ++ st 1 2 ++ [(1, .ret)] ++ st 0 32 ++ [(0, .ret)]

/-- Final container, the `exec` events (executing thread, record, result) and the history of a run. -/
def outcomeOf (O : Obj (List Int)) (sched : List (Tid × Act)) :
    Option (List Int × List (Tid × String × String) × List (Nat × String × GRet × Nat × Nat)) :=
  ((model O ⟨2, 0, 1⟩).run (init O ⟨2, 0, 1⟩) sched).map
    (fun r => (r.1.obj,
      r.2.filterMap (fun x => match x.2 with
        | .ev e => if e.kind = "exec" then some (x.1, e.loc, e.a) else none
        | _ => none),
      (historyOf r.2).map (fun o => (o.tid, o.op.name, o.ret, o.inv, o.res))))

def queueRun : List (Tid × Act) := twoThreadRun ⟨"deq", []⟩ ⟨"enq", [200]⟩ ⟨"deq", []⟩
def stackRun : List (Tid × Act) := twoThreadRun ⟨"pop", []⟩ ⟨"push", [200]⟩ ⟨"pop", []⟩

set_option synthInstance.maxSize 4000 in
/-- FCQueue: thread 0's `deq`, invoked FIRST, returns the 200 that thread 1 enqueued while it was pending: thread 0, the
    combiner, executes thread 1's `enq` (`exec r1`, by thread 0) before its own request; thread 0's second `deq` finds the
    queue empty and fails. -/
example : outcomeOf queueObj queueRun = some ([],
    [(0, "r1", "1"), (0, "r0", "1,200"), (0, "r0", "0")],
    [(0, "deq", [1, 200], 0, 41), (1, "enq", [1], 3, 45), (0, "deq", [0], 42, 78)]) := by
  decide +kernel

/-- The verified checker accepts the history of that run (and it is not trivially satisfied: the same history with a
    `deq` that returned 201, a value nobody enqueued, is rejected). -/
example : (((model queueObj ⟨2, 0, 1⟩).run (init queueObj ⟨2, 0, 1⟩) queueRun).map
    (fun r => linCheck fifo (historyOf r.2))) = some true ∧
    linCheck fifo [⟨0, ⟨"deq", []⟩, [1, 201], 0, 41⟩, ⟨1, ⟨"enq", [200]⟩, [1], 3, 45⟩, ⟨0, ⟨"deq", []⟩, [0], 42, 78⟩] = false := by
  decide +kernel

/-- `C06_fcqueue_linearizable` applied to that run: no hypothesis is left. -/
example : ∃ s os, (model queueObj ⟨2, 0, 1⟩).run (init queueObj ⟨2, 0, 1⟩) queueRun = some (s, os) ∧
    ∃ extra : List (OpRec GOp GRet),
      (∀ e ∈ extra, pendingOf os e.tid = some (e.op, e.inv) ∧ e.res = os.length ∧
          lin s.k e.tid = true ∧ e.ret = s.resg e.tid) ∧
      extra.Pairwise (fun a b => a.tid ≠ b.tid) ∧
      Linearizable fifo (historyOf os ++ extra) := by
  have h : ((model queueObj ⟨2, 0, 1⟩).run (init queueObj ⟨2, 0, 1⟩) queueRun).isSome = true := by decide +kernel
  obtain ⟨⟨s, os⟩, hr⟩ := Option.isSome_iff_exists.mp h
  exact ⟨s, os, hr, C06_fcqueue_linearizable _ _ s os hr⟩

set_option synthInstance.maxSize 4000 in
/-- FCStack: the same schedule; thread 0's `pop`, invoked first, returns the 200 pushed by thread 1 (executed by the
    combiner, thread 0); the second `pop` fails on the empty stack. -/
example : outcomeOf stackObj stackRun = some ([],
    [(0, "r1", "1"), (0, "r0", "1,200"), (0, "r0", "0")],
    [(0, "pop", [1, 200], 0, 41), (1, "push", [1], 3, 45), (0, "pop", [0], 42, 78)]) := by
  decide +kernel

example : (((model stackObj ⟨2, 0, 1⟩).run (init stackObj ⟨2, 0, 1⟩) stackRun).map
    (fun r => linCheck lifo (historyOf r.2))) = some true := by decide +kernel

/-- `C09_fcstack_linearizable` applied to that run. -/
example : ∃ s os, (model stackObj ⟨2, 0, 1⟩).run (init stackObj ⟨2, 0, 1⟩) stackRun = some (s, os) ∧
    ∃ extra : List (OpRec GOp GRet),
      (∀ e ∈ extra, pendingOf os e.tid = some (e.op, e.inv) ∧ e.res = os.length ∧
          lin s.k e.tid = true ∧ e.ret = s.resg e.tid) ∧
      extra.Pairwise (fun a b => a.tid ≠ b.tid) ∧
      Linearizable lifo (historyOf os ++ extra) := by
  have h : ((model stackObj ⟨2, 0, 1⟩).run (init stackObj ⟨2, 0, 1⟩) stackRun).isSome = true := by decide +kernel
  obtain ⟨⟨s, os⟩, hr⟩ := Option.isSome_iff_exists.mp h
  exact ⟨s, os, hr, C09_fcstack_linearizable _ _ s os hr⟩

set_option synthInstance.maxSize 4000 in
/-- A run that stops while thread 1's `enq` has been executed by the combiner but has not returned: the `extra` of the
    theorem is not empty in general (`lin` holds of thread 1, `historyOf` has only thread 0's `deq`). -/
example : (((model queueObj ⟨2, 0, 1⟩).run (init queueObj ⟨2, 0, 1⟩) (queueRun.take 45)).map
    (fun r => (lin r.1.k 1, r.1.resg 1, (historyOf r.2).map (fun o => (o.tid, o.op.name, o.ret)), pendingOf r.2 1))) =
    some (true, [1], [(0, "deq", [1, 200])], some (⟨"enq", [200]⟩, 3)) := by decide +kernel

end CdsVerif.Props.C10FCLin

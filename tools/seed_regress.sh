#!/bin/bash
# Re-apply every saved seeded change to /repo, run the quick check of its property, restore /repo.
# Expected: every line says CAUGHT.  Never commits anything in /repo.
cd /verif || exit 2
out=seeded/REGRESSION.txt
: > $out.tmp
if [ -n "$(git -C /repo status --porcelain -- cds src)" ]; then echo "refusing: /repo has local changes"; exit 2; fi
for d in seeded/*/; do
  name=$(basename $d)
  [ -n "$1" ] && [[ "$name" != $1* ]] && continue
  prop=$(python3 -c "import json;print(json.load(open('$d/meta.json'))['property'])")
  if ! git -C /repo apply $d/patch.diff 2>/dev/null; then echo "$name $prop PATCH-DOES-NOT-APPLY" | tee -a $out.tmp; continue; fi
  res=$(./check $prop --tier quick 2>&1 | tail -1)
  git -C /repo checkout -- .
  case "$res" in FAIL*) echo "$name $prop CAUGHT :: $res" | tee -a $out.tmp;; *) echo "$name $prop MISSED :: $res" | tee -a $out.tmp;; esac
done
[ -z "$1" ] && mv $out.tmp $out || cat $out.tmp

/-
  The slot function of the real counter satisfies `SlotOK` for every capacity `2^k - 1`.

  `bslot n = 2^L + revBits L (n - 2^L)` with `L = log2 n` is the closed form of the value returned by the `n`-th
  `inc()` of `cds::bitop::bit_reverse_counter` (`Algo.Counter.slot_eq`, quoted as `bslot_eq_slot`).  Bit reversal is an
  involution, so `bslot` is its own inverse (`rank = bslot`).
-/
import CdsVerif.Algo.MSPQ.Inv
namespace CdsVerif.Algo.MSPQ
open CdsVerif.Algo.Counter

theorem bslot_add (L j : Nat) (hj : j < 2 ^ L) : bslot (2 ^ L + j) = 2 ^ L + revBits L j := by
  have hp := Nat.two_pow_pos L
  unfold bslot
  rw [if_neg (by omega), log2_two_pow_add L j hj, Nat.add_sub_cancel_left]

theorem bslot_eq_slot (n : Nat) (h1 : 1 ≤ n) (hn : n < 2 ^ 64) : bslot n = Counter.slot n := by
  rw [slot_eq n h1 hn]; unfold bslot; rw [if_neg (by omega)]

theorem bslot_bslot (n : Nat) (h1 : 1 ≤ n) : bslot (bslot n) = n := by
  obtain ⟨j, hj, hn⟩ := level_decomp n h1
  generalize Nat.log2 n = L at *
  subst hn
  rw [bslot_add L j hj, bslot_add L _ (revBits_lt L j), revBits_revBits L j hj]

theorem bslot_level (L j : Nat) (hj : j < 2 ^ L) : 2 ^ L ≤ bslot (2 ^ L + j) ∧ bslot (2 ^ L + j) < 2 ^ (L + 1) := by
  have := revBits_lt L j
  rw [bslot_add L j hj, Nat.pow_succ]; omega

theorem slotOK_cfg (k nthr : Nat) (hk : 1 ≤ k) : SlotOK (cfg (2 ^ k - 1) nthr) bslot := by
  have hk2 : 2 ≤ 2 ^ k := by
    have : 2 ^ 1 ≤ 2 ^ k := Nat.pow_le_pow_right (by omega) hk
    omega
  have hrange : ∀ m, 1 ≤ m → m ≤ 2 ^ k - 1 → 1 ≤ bslot m ∧ bslot m ≤ 2 ^ k - 1 := by
    intro m h1 hm
    obtain ⟨j, hj, hn⟩ := level_decomp m h1
    have hL : Nat.log2 m < k := (Nat.log2_lt (by omega)).2 (by omega)
    generalize Nat.log2 m = L at *
    subst hn
    have hb := bslot_level L j hj
    have hp := Nat.two_pow_pos L
    have : 2 ^ (L + 1) ≤ 2 ^ k := Nat.pow_le_pow_right (by omega) hL
    omega
  refine ⟨by simp [cfg]; omega, hrange, hrange, ?_, ?_, ?_, ?_, ?_⟩
  · intro i h1 _; exact bslot_bslot i h1
  · intro m h1 _; exact bslot_bslot m h1
  · show bslot 1 = 1; decide
  · intro i h2 _
    obtain ⟨j, hj, hn⟩ := level_decomp i (by omega)
    have hL1 : 1 ≤ Nat.log2 i := (Nat.le_log2 (by omega)).2 (by omega)
    generalize Nat.log2 i = L at *
    obtain ⟨M, rfl⟩ : ∃ M, L = M + 1 := ⟨L - 1, by omega⟩
    have hpow : 2 ^ (M + 1) = 2 * 2 ^ M := by rw [Nat.pow_succ]; omega
    have hhalf : i / 2 = 2 ^ M + j / 2 := by omega
    have hj2 : j / 2 < 2 ^ M := by omega
    have h1 := bslot_level M (j / 2) hj2
    have h2' := bslot_level (M + 1) j hj
    rw [hhalf]; rw [hn]; omega
  · intro p h1 _
    obtain ⟨j, hj, hn⟩ := level_decomp p h1
    generalize Nat.log2 p = L at *
    have hpow : 2 ^ (L + 1) = 2 * 2 ^ L := by rw [Nat.pow_succ]; omega
    have e0 : 2 * p = 2 ^ (L + 1) + 2 * j := by omega
    have e1 : 2 * p + 1 = 2 ^ (L + 1) + (2 * j + 1) := by omega
    show bslot (2 * p) < bslot (2 * p + 1)
    rw [e1, e0, bslot_add (L + 1) (2 * j) (by omega), bslot_add (L + 1) (2 * j + 1) (by omega)]
    simp only [revBits]
    have a0 : 2 * j % 2 = 0 := by omega
    have a1 : (2 * j + 1) % 2 = 1 := by omega
    have b0 : 2 * j / 2 = j := by omega
    have b1 : (2 * j + 1) / 2 = j := by omega
    rw [a0, a1, b0, b1]
    have := Nat.two_pow_pos L
    omega

end CdsVerif.Algo.MSPQ

/-
  Helper lemmas for property C26 (`cds::bitop::bit_reverse_counter<size_t>`,
  cds/details/bit_reverse_counter.h), about the executable model in
  `CdsVerif.Algo.Counter.Model` and the *generated* primitive
  `CdsVerif.Gen.BitopGeneric.complement64`.

  Everything is proved for all `n` in range by induction; nothing is enumerated.
-/
import CdsVerif.Algo.Counter.Model
namespace CdsVerif.Algo.Counter
open CdsVerif.Gen.BitopGeneric

/-! ## The per-bit primitive `complement64` -/

theorem xor_twoPow_of_clear (x : BitVec 64) (b : Nat) (h : x.getLsbD b = false) :
    x ^^^ BitVec.twoPow 64 b = x + BitVec.twoPow 64 b := by
  rw [BitVec.add_eq_or_of_and_eq_zero]
  · apply BitVec.eq_of_getLsbD_eq; intro i hi
    by_cases hib : b = i
    · subst hib; simp [h]
    · simp [hib]
  · rw [BitVec.and_twoPow]; simp [h]

theorem xor_twoPow_of_set (x : BitVec 64) (b : Nat) (h : x.getLsbD b = true) :
    x ^^^ BitVec.twoPow 64 b = x - BitVec.twoPow 64 b := by
  have h2 : (x ^^^ BitVec.twoPow 64 b).getLsbD b = false := by
    have : b < 64 := by
      by_cases hb : b < 64
      · exact hb
      · rw [BitVec.getLsbD_of_ge _ _ (by omega)] at h; cases h
    simp [h, this]
  have := xor_twoPow_of_clear _ b h2
  rw [BitVec.xor_assoc, BitVec.xor_self, BitVec.xor_zero] at this
  rw [BitVec.eq_sub_iff_add_eq]; exact this.symm

theorem twoPow_ne_zero (b : Nat) (hb : b < 64) : BitVec.twoPow 64 b ≠ 0#64 := by
  intro h
  have := congrArg BitVec.toNat h
  rw [BitVec.toNat_twoPow_of_lt hb] at this
  have := Nat.two_pow_pos b
  simp at *

theorem xor_twoPow_toNat_of_set (x : BitVec 64) (b : Nat) (hb : b < 64) (h : x.getLsbD b = true) :
    (x ^^^ BitVec.twoPow 64 b).toNat = x.toNat - 2 ^ b ∧ 2 ^ b ≤ x.toNat := by
  have hge : 2 ^ b ≤ x.toNat := Nat.ge_two_pow_of_testBit h
  refine ⟨?_, hge⟩
  rw [xor_twoPow_of_set x b h, BitVec.toNat_sub_of_le, BitVec.toNat_twoPow_of_lt hb]
  rw [BitVec.le_def, BitVec.toNat_twoPow_of_lt hb]; exact hge

theorem xor_twoPow_toNat (x : BitVec 64) (b : Nat) (hb : b < 64) :
    (x ^^^ BitVec.twoPow 64 b).toNat =
      if x.getLsbD b then x.toNat - 2 ^ b else x.toNat + 2 ^ b := by
  cases h : x.getLsbD b
  · have h2 : (x ^^^ BitVec.twoPow 64 b).getLsbD b = true := by
      rw [BitVec.getLsbD_xor, h, BitVec.getLsbD_twoPow]; simp [hb]
    have := xor_twoPow_toNat_of_set _ b hb h2
    rw [BitVec.xor_assoc, BitVec.xor_self, BitVec.xor_zero] at this
    simp only [Bool.false_eq_true, if_false]
    omega
  · simp only [if_true]
    exact (xor_twoPow_toNat_of_set x b hb h).1

theorem complement64_fst (x : BitVec 64) (b : Nat) (hb : b < 64) :
    (complement64 x (BitVec.ofNat 32 b)).1 = x.getLsbD b := by
  have e : (BitVec.ofNat 32 b).toNat % 64 = b := by simp; omega
  simp only [complement64, e, ← BitVec.twoPow_eq, BitVec.and_twoPow]
  cases h : x.getLsbD b <;> simp [twoPow_ne_zero b hb]

theorem complement64_snd_toNat (x : BitVec 64) (b : Nat) (hb : b < 64) :
    (complement64 x (BitVec.ofNat 32 b)).2.toNat =
      if x.getLsbD b then x.toNat - 2 ^ b else x.toNat + 2 ^ b := by
  have e : (BitVec.ofNat 32 b).toNat % 64 = b := by simp; omega
  simp only [complement64, e, ← BitVec.twoPow_eq]
  exact xor_twoPow_toNat x b hb

/-! ## Bit reversal of the `k` low bits, on `Nat` -/

/-- reverse the `k` low bits of `j` (bits `≥ k` of the result are 0) -/
def revBits : Nat → Nat → Nat
  | 0, _ => 0
  | k + 1, j => 2 ^ k * (j % 2) + revBits k (j / 2)

theorem revBits_lt (k j : Nat) : revBits k j < 2 ^ k := by
  induction k generalizing j with
  | zero => simp [revBits]
  | succ k ih =>
    have := ih (j / 2)
    have : j % 2 < 2 := Nat.mod_lt _ (by omega)
    rw [revBits, Nat.pow_succ]
    rcases Nat.mod_two_eq_zero_or_one j with h | h <;> rw [h] <;> omega

/-- specification of `revBits`: bit `i` of the result is bit `k-1-i` of the argument -/
theorem testBit_revBits (k j i : Nat) :
    (revBits k j).testBit i = (decide (i < k) && j.testBit (k - 1 - i)) := by
  induction k generalizing j i with
  | zero => simp [revBits]
  | succ k ih =>
    rw [revBits, Nat.testBit_two_pow_mul_add _ (revBits_lt k _)]
    by_cases h : i < k
    · simp only [h, if_true, ih, decide_true, Bool.true_and, show i < k + 1 by omega]
      rw [show k + 1 - 1 - i = (k - 1 - i) + 1 by omega, Nat.testBit_add_one]
    · simp only [h, if_false]
      by_cases h2 : i = k
      · subst h2; simp [Nat.testBit_zero]
      · have : ¬ i < k + 1 := by omega
        simp only [this, decide_false, Bool.false_and]
        apply Nat.testBit_lt_two_pow
        have : j % 2 < 2 := Nat.mod_lt _ (by omega)
        have : 2 ^ 1 ≤ 2 ^ (i - k) := Nat.pow_le_pow_right (by omega) (by omega)
        omega

theorem revBits_zero (k : Nat) : revBits k 0 = 0 := by
  induction k with
  | zero => rfl
  | succ k ih => simp [revBits, ih]

theorem revBits_all_ones (k : Nat) : revBits k (2 ^ k - 1) = 2 ^ k - 1 := by
  induction k with
  | zero => rfl
  | succ k ih =>
    have := Nat.two_pow_pos k
    rw [revBits, show (2 ^ (k+1) - 1) / 2 = 2 ^ k - 1 by rw [Nat.pow_succ]; omega,
      show (2 ^ (k+1) - 1) % 2 = 1 by rw [Nat.pow_succ]; omega, ih, Nat.pow_succ]
    omega

theorem revBits_revBits (k j : Nat) (hj : j < 2 ^ k) : revBits k (revBits k j) = j := by
  apply Nat.eq_of_testBit_eq
  intro i
  rw [testBit_revBits, testBit_revBits]
  by_cases h : i < k
  · have : k - 1 - i < k := by omega
    simp only [h, this, decide_true, Bool.true_and]
    rw [show k - 1 - (k - 1 - i) = i by omega]
  · simp only [h, decide_false, Bool.false_and]
    symm; apply Nat.testBit_lt_two_pow
    have : 2 ^ k ≤ 2 ^ i := Nat.pow_le_pow_right (by omega) (by omega)
    omega

theorem revBits_injective (k a b : Nat) (ha : a < 2 ^ k) (hb : b < 2 ^ k)
    (h : revBits k a = revBits k b) : a = b := by
  rw [← revBits_revBits k a ha, ← revBits_revBits k b hb, h]

/-! ## `flipLoop` is a bit-reversed increment / decrement -/

/-- value of bit `k` of `2^k * m + r` with `r < 2^k` -/
theorem getLsbD_of_decomp (x : BitVec 64) (k m r : Nat) (hx : x.toNat = 2 ^ k * m + r) (hr : r < 2 ^ k) :
    x.getLsbD k = decide (m % 2 = 1) := by
  rw [← BitVec.testBit_toNat, hx, Nat.testBit_two_pow_mul_add _ hr]
  simp [Nat.testBit_zero]

/-- `flipLoop false k` (the loop of `inc`) adds one to the `k` low bits read in reverse order;
    it leaves the loop by `break` unless those bits were all ones, in which case they are all cleared. -/
theorem flipLoop_false (k : Nat) (hk : k ≤ 64) (rev : BitVec 64) (h j : Nat)
    (hrev : rev.toNat = 2 ^ k * h + revBits k j) (hj : j < 2 ^ k) :
    (flipLoop false k rev).1.toNat = (if j + 1 < 2 ^ k then 2 ^ k * h + revBits k (j + 1) else 2 ^ k * h) ∧
    (flipLoop false k rev).2 = decide (j + 1 < 2 ^ k) := by
  induction k generalizing rev h j with
  | zero => simp at hj; subst hj; simp [flipLoop, hrev, revBits]
  | succ k ih =>
    have hk' : k < 64 := by omega
    have hR := revBits_lt k (j / 2)
    have hpow : 2 ^ (k + 1) = 2 * 2 ^ k := by rw [Nat.pow_succ]; omega
    rw [revBits] at hrev
    have hrev' : rev.toNat = 2 ^ k * (2 * h + j % 2) + revBits k (j / 2) := by
      rw [hrev, hpow, Nat.mul_add, Nat.mul_assoc, Nat.mul_left_comm]; omega
    have hbit := getLsbD_of_decomp rev k _ _ hrev' hR
    have h1 := complement64_fst rev k hk'
    have h2 := complement64_snd_toNat rev k hk'
    rw [hbit] at h1 h2
    unfold flipLoop
    simp only [h1]
    rcases Nat.mod_two_eq_zero_or_one j with hj2 | hj2
    · -- bit k clear: set it and break
      have hd : decide ((2 * h + j % 2) % 2 = 1) = false := by rw [hj2]; simp
      rw [hd] at h2 ⊢
      simp only [if_true, Bool.false_eq_true, if_false] at h2 ⊢
      have hlt : j + 1 < 2 ^ (k + 1) := by omega
      simp only [hlt, if_true, decide_true, and_true]
      rw [h2, hrev', revBits, show (j + 1) % 2 = 1 by omega, show (j + 1) / 2 = j / 2 by omega, hj2, hpow,
        Nat.mul_add, Nat.mul_assoc]
      simp only [Nat.mul_left_comm, Nat.mul_zero, Nat.mul_one]; omega
    · -- bit k set: clear it and continue with the lower bits
      have hd : decide ((2 * h + j % 2) % 2 = 1) = true := by rw [hj2]; simp
      rw [hd] at h2 ⊢
      simp only [if_true, Bool.true_eq_false, if_false] at h2 ⊢
      have e2 : 2 ^ (k + 1) * h = 2 ^ k * (2 * h) := by rw [Nat.pow_succ, Nat.mul_assoc]
      have hrev2 : (complement64 rev (BitVec.ofNat 32 k)).2.toNat = 2 ^ k * (2 * h) + revBits k (j / 2) := by
        rw [h2, hrev', hj2, Nat.mul_add (2 ^ k) (2 * h) 1]; omega
      have := ih (by omega) _ (2 * h) (j / 2) hrev2 (by omega)
      rw [this.1, this.2, e2]
      have hiff : (j + 1 < 2 ^ (k + 1)) ↔ (j / 2 + 1 < 2 ^ k) := by omega
      simp only [hiff, and_true]
      split
      · rw [revBits, show (j + 1) % 2 = 0 by omega, show (j + 1) / 2 = j / 2 + 1 by omega]; simp
      · rfl

/-- `flipLoop true k` (the loop of `dec`) subtracts one from the `k` low bits read in reverse order;
    it leaves the loop by `break` unless those bits were all zero, in which case they are all set. -/
theorem flipLoop_true (k : Nat) (hk : k ≤ 64) (rev : BitVec 64) (h j : Nat)
    (hrev : rev.toNat = 2 ^ k * h + revBits k j) (hj : j < 2 ^ k) :
    (flipLoop true k rev).1.toNat =
      (if 1 ≤ j then 2 ^ k * h + revBits k (j - 1) else 2 ^ k * h + (2 ^ k - 1)) ∧
    (flipLoop true k rev).2 = decide (1 ≤ j) := by
  induction k generalizing rev h j with
  | zero => simp at hj; subst hj; simp [flipLoop, hrev, revBits]
  | succ k ih =>
    have hk' : k < 64 := by omega
    have hR := revBits_lt k (j / 2)
    have hpow : 2 ^ (k + 1) = 2 * 2 ^ k := by rw [Nat.pow_succ]; omega
    have e2 : 2 ^ (k + 1) * h = 2 ^ k * (2 * h) := by rw [Nat.pow_succ, Nat.mul_assoc]
    rw [revBits] at hrev
    have hrev' : rev.toNat = 2 ^ k * (2 * h + j % 2) + revBits k (j / 2) := by
      rw [hrev, e2, Nat.mul_add]; omega
    have hbit := getLsbD_of_decomp rev k _ _ hrev' hR
    have h1 := complement64_fst rev k hk'
    have h2 := complement64_snd_toNat rev k hk'
    rw [hbit] at h1 h2
    unfold flipLoop
    simp only [h1]
    rcases Nat.mod_two_eq_zero_or_one j with hj2 | hj2
    · -- bit k clear: set it and continue with the lower bits
      have hd : decide ((2 * h + j % 2) % 2 = 1) = false := by rw [hj2]; simp
      rw [hd] at h2 ⊢
      rw [hj2, Nat.add_zero] at hrev'
      simp only [Bool.false_eq_true, if_false] at h2 ⊢
      have hrev2 : (complement64 rev (BitVec.ofNat 32 k)).2.toNat =
          2 ^ k * (2 * h + 1) + revBits k (j / 2) := by
        rw [h2, hrev', Nat.mul_add (2 ^ k) (2 * h) 1]; omega
      have := ih (by omega) _ (2 * h + 1) (j / 2) hrev2 (by omega)
      rw [this.1, this.2, e2]
      have hiff : (1 ≤ j) ↔ (1 ≤ j / 2) := by omega
      simp only [hiff, and_true]
      split
      · rw [revBits, show (j - 1) % 2 = 1 by omega, show (j - 1) / 2 = j / 2 - 1 by omega,
          Nat.mul_add (2 ^ k) (2 * h) 1]; omega
      · rw [Nat.mul_add (2 ^ k) (2 * h) 1, hpow]; omega
    · -- bit k set: clear it and break
      have hd : decide ((2 * h + j % 2) % 2 = 1) = true := by rw [hj2]; simp
      rw [hd] at h2 ⊢
      simp only [if_true] at h2 ⊢
      have hlt : 1 ≤ j := by omega
      simp only [hlt, if_true, decide_true, and_true]
      rw [h2, hrev', revBits, show (j - 1) % 2 = 0 by omega, show (j - 1) / 2 = j / 2 by omega, hj2, e2,
        Nat.mul_add (2 ^ k) (2 * h) 1]
      omega

/-! ## Closed form of the reachable states -/

/-- closed form of the state after `n` increments -/
def closed (n : Nat) : Ctr :=
  if n = 0 then Ctr.init
  else ⟨BitVec.ofNat 64 n,
        BitVec.ofNat 64 (2 ^ Nat.log2 n + revBits (Nat.log2 n) (n - 2 ^ Nat.log2 n)),
        (Nat.log2 n : Int)⟩

theorem closed_zero : closed 0 = Ctr.init := rfl

theorem closed_pos (n : Nat) (hn : 1 ≤ n) :
    closed n = ⟨BitVec.ofNat 64 n,
        BitVec.ofNat 64 (2 ^ Nat.log2 n + revBits (Nat.log2 n) (n - 2 ^ Nat.log2 n)),
        (Nat.log2 n : Int)⟩ := by
  unfold closed; rw [if_neg (by omega)]

theorem Ctr.inc_eq (c : Ctr) :
    c.inc = if (flipLoop false c.highBit.toNat c.reversed).2
      then ((flipLoop false c.highBit.toNat c.reversed).1,
            ⟨c.counter + 1, (flipLoop false c.highBit.toNat c.reversed).1, c.highBit⟩)
      else (c.counter + 1, ⟨c.counter + 1, c.counter + 1, c.highBit + 1⟩) := rfl

theorem Ctr.dec_eq (c : Ctr) :
    c.dec = if (flipLoop true c.highBit.toNat c.reversed).2
      then (c.reversed, ⟨c.counter - 1, (flipLoop true c.highBit.toNat c.reversed).1, c.highBit⟩)
      else (c.reversed, ⟨c.counter - 1, c.counter - 1, c.highBit - 1⟩) := rfl

theorem log2_bounds (n : Nat) (hn : 1 ≤ n) (h64 : n < 2 ^ 64) :
    2 ^ Nat.log2 n ≤ n ∧ n < 2 ^ (Nat.log2 n + 1) ∧ Nat.log2 n < 64 :=
  ⟨Nat.log2_self_le (by omega), Nat.lt_log2_self, (Nat.log2_lt (by omega)).2 h64⟩

theorem ofNat_toNat_of_lt (x : Nat) (h : x < 2 ^ 64) : (BitVec.ofNat 64 x).toNat = x := by
  rw [BitVec.toNat_ofNat]; exact Nat.mod_eq_of_lt h

theorem ofNat_add_one (n : Nat) : BitVec.ofNat 64 n + 1 = BitVec.ofNat 64 (n + 1) := by
  apply BitVec.eq_of_toNat_eq; simp [BitVec.toNat_add, BitVec.toNat_ofNat]

theorem ofNat_succ_sub_one (n : Nat) : BitVec.ofNat 64 (n + 1) - 1 = BitVec.ofNat 64 n := by
  rw [← ofNat_add_one]; exact BitVec.add_sub_cancel _ _

/-- one `inc` from the closed form at `n` yields the closed form at `n+1`, and returns its `reversed` -/
theorem inc_closed (n : Nat) (hn : n + 1 < 2 ^ 64) :
    (closed n).inc = ((closed (n + 1)).reversed, closed (n + 1)) := by
  rcases Nat.eq_zero_or_pos n with rfl | hpos
  · have : Nat.log2 1 = 0 := (Nat.log2_eq_iff (by omega)).2 (by omega)
    rw [closed_pos 1 (by omega), this]; rfl
  · obtain ⟨hlo, hhi, hk⟩ := log2_bounds n hpos (by omega)
    rw [closed_pos n hpos, closed_pos (n + 1) (by omega), Ctr.inc_eq]
    generalize Nat.log2 n = k at *
    have hp : 2 ^ (k + 1) ≤ 2 ^ 64 := Nat.pow_le_pow_right (by omega) (by omega)
    have hpow : 2 ^ (k + 1) = 2 * 2 ^ k := by rw [Nat.pow_succ]; omega
    have hR := revBits_lt k (n - 2 ^ k)
    have hrev : (BitVec.ofNat 64 (2 ^ k + revBits k (n - 2 ^ k))).toNat
        = 2 ^ k * 1 + revBits k (n - 2 ^ k) := by
      rw [ofNat_toNat_of_lt _ (by omega)]; omega
    have := flipLoop_false k (by omega) _ 1 (n - 2 ^ k) hrev (by omega)
    simp only [Int.toNat_natCast, ofNat_add_one]
    rw [this.2]
    by_cases hlt : n - 2 ^ k + 1 < 2 ^ k
    · have hlog : Nat.log2 (n + 1) = k := (Nat.log2_eq_iff (by omega)).2 (by omega)
      have h1 := this.1
      rw [if_pos hlt] at h1
      have : (flipLoop false k (BitVec.ofNat 64 (2 ^ k + revBits k (n - 2 ^ k)))).1
          = BitVec.ofNat 64 (2 ^ k + revBits k (n + 1 - 2 ^ k)) := by
        apply BitVec.eq_of_toNat_eq
        have hR' := revBits_lt k (n + 1 - 2 ^ k)
        rw [h1, ofNat_toNat_of_lt _ (by omega), show n - 2 ^ k + 1 = n + 1 - 2 ^ k by omega]; omega
      simp only [hlt, decide_true, if_true, hlog, this]
    · have hlog : Nat.log2 (n + 1) = k + 1 := (Nat.log2_eq_iff (by omega)).2 (by omega)
      have : n + 1 - 2 ^ (k + 1) = 0 := by omega
      simp only [hlt, decide_false, Bool.false_eq_true, if_false, hlog, this, revBits_zero, Nat.add_zero]
      have : n + 1 = 2 ^ (k + 1) := by omega
      rw [this]; rfl

/-- one `dec` from the closed form at `n+1` yields the closed form at `n`,
    and returns the `reversed` value of the state it started from -/
theorem dec_closed (n : Nat) (hn : n + 1 < 2 ^ 64) :
    (closed (n + 1)).dec = ((closed (n + 1)).reversed, closed n) := by
  rcases Nat.eq_zero_or_pos n with rfl | hpos
  · have : Nat.log2 1 = 0 := (Nat.log2_eq_iff (by omega)).2 (by omega)
    rw [closed_pos 1 (by omega), this]; rfl
  · obtain ⟨hlo, hhi, hk⟩ := log2_bounds (n + 1) (by omega) hn
    rw [closed_pos n hpos, closed_pos (n + 1) (by omega), Ctr.dec_eq]
    generalize Nat.log2 (n + 1) = k at *
    have hp : 2 ^ (k + 1) ≤ 2 ^ 64 := Nat.pow_le_pow_right (by omega) (by omega)
    have hpow : 2 ^ (k + 1) = 2 * 2 ^ k := by rw [Nat.pow_succ]; omega
    have hR := revBits_lt k (n + 1 - 2 ^ k)
    have hrev : (BitVec.ofNat 64 (2 ^ k + revBits k (n + 1 - 2 ^ k))).toNat
        = 2 ^ k * 1 + revBits k (n + 1 - 2 ^ k) := by
      rw [ofNat_toNat_of_lt _ (by omega)]; omega
    have := flipLoop_true k (by omega) _ 1 (n + 1 - 2 ^ k) hrev (by omega)
    simp only [Int.toNat_natCast, ofNat_succ_sub_one]
    rw [this.2]
    by_cases hge : 1 ≤ n + 1 - 2 ^ k
    · have hlog : Nat.log2 n = k := (Nat.log2_eq_iff (by omega)).2 (by omega)
      have h1 := this.1
      rw [if_pos hge] at h1
      have : (flipLoop true k (BitVec.ofNat 64 (2 ^ k + revBits k (n + 1 - 2 ^ k)))).1
          = BitVec.ofNat 64 (2 ^ k + revBits k (n - 2 ^ k)) := by
        apply BitVec.eq_of_toNat_eq
        have hR' := revBits_lt k (n - 2 ^ k)
        rw [h1, ofNat_toNat_of_lt _ (by omega), show n + 1 - 2 ^ k - 1 = n - 2 ^ k by omega]; omega
      simp only [hge, decide_true, if_true, hlog, this]
    · cases k with
      | zero => simp at hlo hhi; omega
      | succ m =>
        have hpm : 2 ^ (m + 1) = 2 * 2 ^ m := by rw [Nat.pow_succ]; omega
        have hlog : Nat.log2 n = m := (Nat.log2_eq_iff (by omega)).2 (by omega)
        have hn' : n - 2 ^ m = 2 ^ m - 1 := by omega
        have : 2 ^ m + (2 ^ m - 1) = n := by omega
        simp only [hge, decide_false, Bool.false_eq_true, if_false, hlog, hn', revBits_all_ones, this]
        congr 2
        omega

/-! ## `incN`, `slot` -/

/-- state after `n` calls of `inc` from `Ctr.init` -/
def incN : Nat → Ctr
  | 0 => Ctr.init
  | n + 1 => (incN n).inc.2

/-- value returned by the `n`-th `inc` (`n ≥ 1`; `slot 0 = 0` is a dummy), as a `Nat` -/
def slot : Nat → Nat
  | 0 => 0
  | n + 1 => (incN n).inc.1.toNat

theorem incN_eq_closed (n : Nat) (hn : n < 2 ^ 64) : incN n = closed n := by
  induction n with
  | zero => rfl
  | succ n ih => rw [incN, ih (by omega), inc_closed n hn]

theorem slot_eq (n : Nat) (h1 : 1 ≤ n) (hn : n < 2 ^ 64) :
    slot n = 2 ^ Nat.log2 n + revBits (Nat.log2 n) (n - 2 ^ Nat.log2 n) := by
  obtain ⟨m, rfl⟩ : ∃ m, n = m + 1 := ⟨n - 1, by omega⟩
  obtain ⟨hlo, hhi, hk⟩ := log2_bounds (m + 1) (by omega) hn
  rw [slot, incN_eq_closed m (by omega), inc_closed m hn, closed_pos (m + 1) (by omega)]
  generalize Nat.log2 (m + 1) = k at *
  have hp : 2 ^ (k + 1) ≤ 2 ^ 64 := Nat.pow_le_pow_right (by omega) (by omega)
  have hpow : 2 ^ (k + 1) = 2 * 2 ^ k := by rw [Nat.pow_succ]; omega
  have hR := revBits_lt k (m + 1 - 2 ^ k)
  exact ofNat_toNat_of_lt _ (by omega)

theorem log2_slot (n : Nat) (h1 : 1 ≤ n) (hn : n < 2 ^ 64) : Nat.log2 (slot n) = Nat.log2 n := by
  have hR := revBits_lt (Nat.log2 n) (n - 2 ^ Nat.log2 n)
  have := Nat.two_pow_pos (Nat.log2 n)
  rw [slot_eq n h1 hn]
  refine (Nat.log2_eq_iff (by omega)).2 ⟨by omega, ?_⟩
  rw [Nat.pow_succ]; omega

/-! ## Runs -/

theorem run_closed (ops : List Bool) (n : Nat)
    (hpre : ∀ p, p <+: ops → p.count false ≤ n + p.count true)
    (hlen : n + ops.length < 2 ^ 64) :
    (Ctr.run (closed n) ops).2 = closed (n + ops.count true - ops.count false) := by
  induction ops generalizing n with
  | nil => simp [Ctr.run]
  | cons op ops ih =>
    cases op with
    | true =>
      have := ih (n + 1) (fun p hp => by
        have := hpre (true :: p) (List.prefix_cons_inj true |>.2 hp)
        simp at this; omega) (by simp at hlen; omega)
      simp only [Ctr.run, if_true, inc_closed n (by simp at hlen; omega)]
      rw [this]; simp; congr 1; omega
    | false =>
      have h0 := hpre [false] (by simp)
      simp at h0
      obtain ⟨m, rfl⟩ : ∃ m, n = m + 1 := ⟨n - 1, by omega⟩
      have := ih m (fun p hp => by
        have := hpre (false :: p) (List.prefix_cons_inj false |>.2 hp)
        simp at this; omega) (by simp at hlen; omega)
      simp only [Ctr.run, Bool.false_eq_true, if_false, dec_closed m (by simp at hlen; omega)]
      rw [this]; simp; congr 1; omega

/-! ## Slots, level by level -/

theorem log2_two_pow_add (k j : Nat) (hj : j < 2 ^ k) : Nat.log2 (2 ^ k + j) = k := by
  have := Nat.two_pow_pos k
  refine (Nat.log2_eq_iff (by omega)).2 ⟨by omega, ?_⟩
  rw [Nat.pow_succ]; omega

/-- the slots of level `k` (`n = 2^k + j`, `j < 2^k`) are `2^k + revBits k j` -/
theorem slot_two_pow_add (k j : Nat) (hk : k < 64) (hj : j < 2 ^ k) :
    slot (2 ^ k + j) = 2 ^ k + revBits k j := by
  have := Nat.two_pow_pos k
  have hp : 2 ^ (k + 1) ≤ 2 ^ 64 := Nat.pow_le_pow_right (by omega) (by omega)
  rw [Nat.pow_succ] at hp
  rw [slot_eq _ (by omega) (by omega), log2_two_pow_add k j hj, Nat.add_sub_cancel_left]

/-- decomposition of a positive number into its level and offset -/
theorem level_decomp (n : Nat) (h1 : 1 ≤ n) :
    ∃ j, j < 2 ^ Nat.log2 n ∧ n = 2 ^ Nat.log2 n + j := by
  have hlo := Nat.log2_self_le (n := n) (by omega)
  have hhi := Nat.lt_log2_self (n := n)
  rw [Nat.pow_succ] at hhi
  exact ⟨n - 2 ^ Nat.log2 n, by omega, by omega⟩

/-- every `s ≥ 1` is a slot, produced by an `inc` on the same level -/
theorem exists_slot_eq (s : Nat) (h1 : 1 ≤ s) (hs : s < 2 ^ 64) :
    ∃ n, 1 ≤ n ∧ Nat.log2 n = Nat.log2 s ∧ slot n = s := by
  obtain ⟨t, ht, hst⟩ := level_decomp s h1
  have hk : Nat.log2 s < 64 := (Nat.log2_lt (by omega)).2 hs
  generalize Nat.log2 s = k at *
  have hR := revBits_lt k t
  have := Nat.two_pow_pos k
  refine ⟨2 ^ k + revBits k t, by omega, log2_two_pow_add k _ hR, ?_⟩
  rw [slot_two_pow_add k _ hk hR, revBits_revBits k t ht, hst]

theorem log2_mono {m n : Nat} (h : m ≤ n) : Nat.log2 m ≤ Nat.log2 n := by
  rcases Nat.eq_zero_or_pos m with rfl | hm
  · simp
  · exact (Nat.le_log2 (by omega)).2 (Nat.le_trans (Nat.log2_self_le (by omega)) h)

end CdsVerif.Algo.Counter

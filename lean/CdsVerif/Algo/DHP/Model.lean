/-
  Atomic-step machine of the most general client of libcds's DYNAMIC hazard pointers
  (cds::gc::DHP: cds/gc/dhp.h, src/dhp.cpp).  It extends the machine of the static scheme
  (`Algo/HP/Protocol.lean`) by what DHP adds: guard storage that grows by extension blocks, retired storage
  that grows by blocks, and a reclamation pass that walks, for every thread record, the initial guard array
  and then the extension blocks that are linked AT THE INSTANT the pass loads that record's `extended_list_`.

  Real code mirrored (one `step` = one atomic operation on shared memory, or one thread-local action that
  changes the ghost / object state):

    thread_hp_storage (cds/gc/dhp.h)
        guard* array_ (initial_capacity_ = `init` guards), guard* free_head_ (thread-local free list, linked
        through guard::next_), atomic<guard_block*> extended_list_ (blocks of
        defaults::c_extended_guard_block_size = `B` = 16 guards, newest first, linked through next_block_)

        alloc():  if ( free_head_ == nullptr ) extend();  g = free_head_;  free_head_ = g->next_;  return g;
        extend(): block = hp_allocator::instance().alloc();     // fresh or recycled block, all 16 guards nullptr,
                                                                // chained guard[0] -> guard[1] -> ... -> guard[15]
                  block->next_block_ = extended_list_.load( relaxed );
                  extended_list_.store( block, release );       -- gallocDo, extension branch (the linking store)
                  free_head_ = block->first();
        free(g):  g->clear();                                   -- gfreeSt (atomic store of nullptr)
                  g->next_ = free_head_;  free_head_ = g;       // LIFO

      DHP::Guard()  guard_ = tls()->hazards_.alloc()            -- galloc [h]   (h: the client's name of the Guard object)
      ~Guard()      tls()->hazards_.free( guard_ )              -- gfree [h]

    Guard::protect / Guard::clear: as in HP (load / hazard store + sync() / validating re-load).

    DHP::retire( p ):  if ( !tls()->retired_.push( retired_ptr( p, func ))) scan();
      retired_array::push: *current_cell_ = p;                                           -- swapRet
          if ( ++current_cell_ == current_block_->last()) {
              if ( current_block_->next_ ) { current_block_ = next_; current_cell_ = first(); return true; }
              return false;        // the LAST block has become full: the caller scans
          }
          return true;
      The retired storage is a chain of blocks of `RB` = retired_block::c_capacity = 256 entries; its content is
      the list `retired t` (entry k lives in block k / RB) and `rblk t` is the number of blocks of the chain.

    smr::scan( pRec )                                         (src/dhp.cpp)
        for every thread record pNode (thread_list_, each with thread_id_ != null):
            copy_hazards( plist, pNode->hazards_.array_, initial_capacity_ );            -- scanLd u 0 i   (one load per step)
            for ( block = pNode->hazards_.extended_list_.load( acquire );                -- scanExt u      (THE instant at which
                  block; block = block->next_block_ )                                    --   the set of blocks to read is fixed)
                copy_hazards( plist, block->first(), c_extended_guard_block_size );      -- scanLd u b i, b = nb, nb-1, .., 1
        std::sort( plist );
        walk the retired blocks from list_head_ up to the block / cell `push` had reached; for every entry:
            binary_search( plist, p->m_p ) ? stg.repush( p ) (compacting to the front) : p->free();
        if ( free_count < retired_count / 4 && the chain was completely full when the pass began )
            retired_.extend();      // appends a block; the write position stays behind the kept entries (REPAIRED code; the
                                    // original moved it to the new block - see `modelUnrepaired`)      -- scanDecide (ONE local step)
      where retired_count = RB * (number of blocks walked).

  The decision is the pure function `classicScan` of `Algo/HP/Scan.lean` (DHP's stage 2 is HP's classic stage 2:
  binary search of every retired pointer in the sorted plist; the freed objects are reported in chain order).

  Addressing.  Hazard slot (u, b, i): record u, block b (0 = the initial array, k >= 1 = the k-th extension block
  the record linked: `extended_list_` points to block `nblk u`, whose next_block_ is block `nblk u - 1`, ...), slot i
  of the block.  Block 0 has `init` slots, every extension block has `B` slots.

  `stepW w unrepaired` is the machine whose scan reads `w` slots of every extension block; the real code is
  `step = stepW B false`.  (`stepW B true` is the code before the repair of `retired_array::extend()`, see `modelUnrepaired`;
  `stepW init false` is the seeded defect `seeded/C02-dhp-scan-extension-block-size`: Props/C02DHP.lean shows a run of it
  that disposes a guarded object, and the lemma `pinv_scanLd_*` of Inv.lean is the one that needs `w = B`.)

  Client operations (on top of HP's protect / clear / swap / take / scan / deref; guards are now named by the client's
  handle `h` of a `Guard` object, resolved to the slot the handle is linked to when the operation is invoked):
      galloc [h]       construct Guard object h (must not be linked); returns [b, i], the slot it got
      gfree [h]        destroy Guard object h (must be linked)
      protect [h, c], clear [h], deref [h]   on a linked handle

  Ghost state:
      guard u b i = some p   a COMPLETED protect through the Guard linked to slot (u,b,i) returned p, and the slot has not
                             been overwritten (clear, a later protect's store, gfree) since;
      log                    the sequence of disposer calls.

  NOT modelled (stated, not hidden):
    * thread records are static: thread t (t < T) owns record t for the whole run; attach / detach
      (alloc_thread_data / free_thread_data: `hazards_.clear()` returning the extension blocks to the global
      `hp_allocator` pool, from which another record's `extend()` may take them), `help_scan` (adoption of a departed
      thread's retired blocks) and record reuse are not modelled.  Consequently an extension block is never unlinked,
      and `hp_allocator::alloc()` always yields a block nobody else can see (its 16 clearing stores are not steps);
    * memory ordering: the machine is sequentially consistent;
    * `GuardArray` (bulk alloc / free), `guarded_ptr`, `Guard::assign` / `copy` without validation, marked pointers;
    * objects reachable from several cells, moving an object between cells (as in HP/Protocol).
-/
import CdsVerif.Base.Machine
import CdsVerif.Algo.HP.Scan
namespace CdsVerif.Algo.DHP
open CdsVerif.Machine CdsVerif.Spec CdsVerif.Algo.HP

/-- Life cycle of an object (as in HP/Protocol). -/
inductive ObjSt
  | fresh | live | retired | disposed
deriving DecidableEq, Repr

/-- Configuration: `init` guards in the initial array of every record, `B` guards per extension block (16 in
    libcds), `T` threads / records, `RB` entries per retired block (256 in libcds). -/
structure Cfg where
  init : Nat
  B : Nat
  T : Nat
  RB : Nat
deriving DecidableEq, Repr

/-- number of slots of block `b` -/
def bsize (cfg : Cfg) (b : Nat) : Nat := if b = 0 then cfg.init else cfg.B

inductive PC
  | idle
  | gallocDo (h : Nat)                                 -- next: pop the free list, or link a new block and pop
  | gfreeSt (h b i : Nat)                              -- next: slot := nullptr; push the slot on the free list
  | protLd (b i c : Nat)                               -- next: pCur = cell.load()
  | protSt (b i c : Nat) (p : Option Ptr)              -- next: hazard slot := p          (assign)
  | protChk (b i c : Nat) (p : Option Ptr)             -- next: pCur = cell.load(); p = pCur ? return : again from protSt
  | clearSt (b i : Nat)                                -- next: hazard slot := nullptr
  | swapX (c : Nat) (alloc : Bool)                     -- next: cell.exchange( alloc ? new object : nullptr )
  | swapRet (p : Ptr) (r : GRet)                       -- next: retired_.push( p )
  | scanLd (u b i : Nat) (acc : List Ptr) (r : GRet)   -- next: load hazard slot (u,b,i)
  | scanExt (u : Nat) (acc : List Ptr) (r : GRet)      -- next: load extended_list_ of record u
  | scanDecide (acc : List Ptr) (r : GRet)             -- next: stage 2 on plist = acc
  | derefRd (b i : Nat)                                -- next: use the object the guard protects
  | done (r : GRet)
deriving DecidableEq, Repr

structure St where
  cells : Nat → Option Ptr                   -- shared links of the containers
  slots : Nat → Nat → Nat → Option Ptr       -- hazard slots (record, block, index)
  nblk : Nat → Nat                           -- number of extension blocks linked to the record's extended_list_
  flist : Nat → List (Nat × Nat)             -- thread-local free list of guards (free_head_ / next_), head first
  hslot : Tid → Nat → Option (Nat × Nat)     -- the client's Guard objects: handle -> slot it is linked to
  obj : Ptr → ObjSt
  cnt : Nat                                  -- next fresh object (starts at 1: 0 is the null address)
  retired : Tid → List Ptr                   -- content of the retired chain, in chain order
  rblk : Tid → Nat                           -- number of blocks of the retired chain
  pc : Tid → PC
  guard : Nat → Nat → Nat → Option Ptr       -- ghost
  log : List Ptr                             -- ghost: disposer calls, oldest first

/-- the free list `thread_hp_storage::init()` builds: guard 0 -> guard 1 -> ... of the initial array -/
def initList (n : Nat) : List (Nat × Nat) := (List.range n).map fun i => (0, i)

/-- the free list after `extend()` and the `alloc()` that called it: guards 1 .. B-1 of the new block `k` -/
def blockTail (k B : Nat) : List (Nat × Nat) := (List.range (B - 1)).map fun i => (k, i + 1)

def init (cfg : Cfg) : St :=
  { cells := fun _ => none, slots := fun _ _ _ => none, nblk := fun _ => 0, flist := fun _ => initList cfg.init,
    hslot := fun _ _ => none, obj := fun _ => .fresh, cnt := 1, retired := fun _ => [], rblk := fun _ => 1,
    pc := fun _ => .idle, guard := fun _ _ _ => none, log := [] }

/-- Functional update of a three-index table. -/
def upd3 {α : Type} (f : Nat → Nat → Nat → α) (a b c : Nat) (v : α) : Nat → Nat → Nat → α :=
  fun a' b' c' => if a' = a ∧ b' = b ∧ c' = c then v else f a' b' c'

/-! ### Event rendering -/

def ptr : Option Ptr → String
  | none => "null"
  | some a => s!"o{a}"
def cellLoc (c : Nat) : String := s!"cell{c}"
def slotLoc (u b i : Nat) : String := s!"hp{u}.{b}.{i}"
def extLoc (u : Nat) : String := s!"ext{u}"
/-- the name of the k-th extension block of record u (`null` for k = 0: the empty list) -/
def gbName (u k : Nat) : String := if k = 0 then "null" else s!"gb{u}.{k}"
def objName : ObjSt → String
  | .fresh => "fresh" | .live => "live" | .retired => "retired" | .disposed => "disposed"
def objCode : ObjSt → Int
  | .fresh => 0 | .live => 1 | .retired => 2 | .disposed => 3

def evLd (loc : String) (v : Option Ptr) : Ev := ⟨"ld", loc, ptr v, ""⟩
def evSt (loc : String) (v : Option Ptr) : Ev := ⟨"st", loc, ptr v, ""⟩
def evXchg (loc : String) (old new : Option Ptr) : Ev := ⟨"xchg", loc, ptr old, ptr new⟩
/-- scan: `extended_list_.load()` of record u -/
def evLdExt (u k : Nat) : Ev := ⟨"ld", extLoc u, gbName u k, ""⟩
/-- extend: `extended_list_.store( block )` -/
def evStExt (u k : Nat) : Ev := ⟨"st", extLoc u, gbName u k, ""⟩
/-- thread-local: `alloc()` popped guard (b,i) from the free list -/
def evGalloc (t b i : Nat) : Ev := ⟨"galloc", s!"T{t}", slotLoc t b i, ""⟩
/-- thread-local: `retired_.push( p )`; `b` = number of entries after the push -/
def evRetire (t : Tid) (p : Ptr) (n : Nat) : Ev := ⟨"retire", s!"T{t}", ptr (some p), toString n⟩
/-- thread-local: stage 2 of the scan; `a` lists the objects handed to the disposer, `b` = number of blocks of the
    retired chain after the pass -/
def evFree (t : Tid) (freed : List Ptr) (blocks : Nat) : Ev := ⟨"free", s!"T{t}", toString freed, toString blocks⟩
/-- the use of a guarded object: `a` is the state the object is observed in -/
def evUse (p : Ptr) (o : ObjSt) : Ev := ⟨"use", s!"o{p}", objName o, ""⟩

/-! ### Transitions -/

def retPtr : Option Ptr → GRet
  | none => [0]
  | some p => [1, p]

/-- where a pass starts on record `u` (or the decision, when all records have been read) -/
def scanRec (cfg : Cfg) (u : Nat) (acc : List Ptr) (r : GRet) : PC :=
  if u < cfg.T then (if 0 < cfg.init then .scanLd u 0 0 acc r else .scanExt u acc r) else .scanDecide acc r

/-- first program counter of a scan -/
def scanStart (cfg : Cfg) (r : GRet) : PC := scanRec cfg 0 [] r

/-- program counter after the load of slot (u,b,i); `w` = number of slots the pass reads in an extension block -/
def scanNext (cfg : Cfg) (w : Nat) (u b i : Nat) (acc : List Ptr) (r : GRet) : PC :=
  if b = 0 then
    (if i + 1 < cfg.init then .scanLd u 0 (i + 1) acc r else .scanExt u acc r)
  else if i + 1 < w then .scanLd u b (i + 1) acc r
  else if 1 < b then .scanLd u (b - 1) 0 acc r            -- block = block->next_block_
  else scanRec cfg (u + 1) acc r                           -- next_block_ == nullptr: pNode = pNode->next_

/-- program counter after the load of `extended_list_` of record u, which has `nb` blocks at that instant -/
def scanAfterExt (cfg : Cfg) (u nb : Nat) (acc : List Ptr) (r : GRet) : PC :=
  if 0 < nb then .scanLd u nb 0 acc r else scanRec cfg (u + 1) acc r

/-- `if ( hp ) plist.push_back( hp )` -/
def collect (acc : List Ptr) : Option Ptr → List Ptr
  | none => acc
  | some p => acc ++ [p]

/-- `retired_count` of a pass over a chain of `nb` blocks holding `len` entries: RB * (blocks walked) -/
def walked (cfg : Cfg) (nb len : Nat) : Nat :=
  cfg.RB * (if len = nb * cfg.RB then nb else len / cfg.RB + 1)

/-- number of blocks of the retired chain after a pass that started on `len` entries in `nb` blocks and freed `nf` -/
def rblkAfter (cfg : Cfg) (nb len nf : Nat) : Nat :=
  if nf < walked cfg nb len / 4 ∧ len = nb * cfg.RB then nb + 1 else nb

/-- Only threads that own a record (`t < T`) act. -/
def invoke (cfg : Cfg) (s : St) (t : Tid) (op : GOp) : Option St :=
  if t < cfg.T then
    match s.pc t, op.name, op.args with
    | .idle, "galloc", [h] =>
      match s.hslot t h.toNat with
      | none => some { s with pc := upd s.pc t (.gallocDo h.toNat) }
      | some _ => none
    | .idle, "gfree", [h] =>
      match s.hslot t h.toNat with
      | some (b, i) => some { s with pc := upd s.pc t (.gfreeSt h.toNat b i) }
      | none => none
    | .idle, "protect", [h, c] =>
      match s.hslot t h.toNat with
      | some (b, i) => some { s with pc := upd s.pc t (.protLd b i c.toNat) }
      | none => none
    | .idle, "clear", [h] =>
      match s.hslot t h.toNat with
      | some (b, i) => some { s with pc := upd s.pc t (.clearSt b i) }
      | none => none
    | .idle, "swap", [c] => some { s with pc := upd s.pc t (.swapX c.toNat true) }
    | .idle, "take", [c] => some { s with pc := upd s.pc t (.swapX c.toNat false) }
    | .idle, "scan", [] => some { s with pc := upd s.pc t (scanStart cfg []) }
    | .idle, "deref", [h] =>
      match s.hslot t h.toNat with
      | some (b, i) => if (s.guard t b i).isSome then some { s with pc := upd s.pc t (.derefRd b i) } else none
      | none => none
    | _, _, _ => none
  else none

def stepW (w : Nat) (unrepaired : Bool) (cfg : Cfg) (s : St) (t : Tid) : Option (St × Ev) :=
  match s.pc t with
  | .gallocDo h =>
    match s.flist t with
    | (b, i) :: rest =>
      some ({ s with flist := upd s.flist t rest, hslot := upd2 s.hslot t h (some (b, i)),
                     pc := upd s.pc t (.done [b, i]) }, evGalloc t b i)
    | [] =>
      let k := s.nblk t + 1
      some ({ s with nblk := upd s.nblk t k, flist := upd s.flist t (blockTail k cfg.B),
                     hslot := upd2 s.hslot t h (some (k, 0)),
                     pc := upd s.pc t (.done [k, 0]) }, evStExt t k)
  | .gfreeSt h b i =>
    some ({ s with slots := upd3 s.slots t b i none, guard := upd3 s.guard t b i none,
                   flist := upd s.flist t ((b, i) :: s.flist t), hslot := upd2 s.hslot t h none,
                   pc := upd s.pc t (.done []) }, evSt (slotLoc t b i) none)
  | .protLd b i c =>
    some ({ s with pc := upd s.pc t (.protSt b i c (s.cells c)) }, evLd (cellLoc c) (s.cells c))
  | .protSt b i c p =>
    some ({ s with slots := upd3 s.slots t b i p, guard := upd3 s.guard t b i none,
                   pc := upd s.pc t (.protChk b i c p) }, evSt (slotLoc t b i) p)
  | .protChk b i c p =>
    if s.cells c = p then
      some ({ s with guard := upd3 s.guard t b i p, pc := upd s.pc t (.done (retPtr p)) }, evLd (cellLoc c) p)
    else
      some ({ s with pc := upd s.pc t (.protSt b i c (s.cells c)) }, evLd (cellLoc c) (s.cells c))
  | .clearSt b i =>
    some ({ s with slots := upd3 s.slots t b i none, guard := upd3 s.guard t b i none,
                   pc := upd s.pc t (.done []) }, evSt (slotLoc t b i) none)
  | .swapX c true =>
    let n := s.cnt
    let ev := evXchg (cellLoc c) (s.cells c) (some n)
    match s.cells c with
    | none =>
      some ({ s with cells := upd s.cells c (some n), obj := upd s.obj n .live, cnt := n + 1,
                     pc := upd s.pc t (.done [n, 0]) }, ev)
    | some p =>
      some ({ s with cells := upd s.cells c (some n), obj := upd s.obj n .live, cnt := n + 1,
                     pc := upd s.pc t (.swapRet p [n, p]) }, ev)
  | .swapX c false =>
    let ev := evXchg (cellLoc c) (s.cells c) none
    match s.cells c with
    | none => some ({ s with pc := upd s.pc t (.done [0]) }, ev)
    | some p => some ({ s with cells := upd s.cells c none, pc := upd s.pc t (.swapRet p [p]) }, ev)
  | .swapRet p r =>
    let rl := s.retired t ++ [p]
    some ({ s with retired := upd s.retired t rl, obj := upd s.obj p .retired,
                   pc := upd s.pc t (if rl.length < s.rblk t * cfg.RB then .done r else scanStart cfg r) },
          evRetire t p rl.length)
  | .scanLd u b i acc r =>
    some ({ s with pc := upd s.pc t (scanNext cfg w u b i (collect acc (s.slots u b i)) r) },
          evLd (slotLoc u b i) (s.slots u b i))
  | .scanExt u acc r =>
    some ({ s with pc := upd s.pc t (scanAfterExt cfg u (s.nblk u) acc r) }, evLdExt u (s.nblk u))
  | .scanDecide acc r =>
    let kf := classicScan acc (s.retired t)
    let nb := rblkAfter cfg (s.rblk t) (s.retired t).length kf.2.length
    -- the repaired retired_array::extend() leaves the write position behind the kept entries; the unrepaired one jumps to
    -- the new block, so the chain then also holds what stands behind the kept entries in the old blocks
    let kept := if unrepaired then (if s.rblk t < nb then kf.1 ++ (s.retired t).drop kf.1.length else kf.1) else kf.1
    some ({ s with retired := upd s.retired t kept,
                   rblk := upd s.rblk t nb,
                   obj := fun p => if p ∈ kf.2 then .disposed else s.obj p,
                   log := s.log ++ kf.2,
                   pc := upd s.pc t (.done r) }, evFree t kf.2 nb)
  | .derefRd b i =>
    match s.guard t b i with
    | some p => some ({ s with pc := upd s.pc t (.done [objCode (s.obj p)]) }, evUse p (s.obj p))
    | none => none
  | _ => none

/-- The real code: a pass reads all `B` slots of every extension block. -/
def step (cfg : Cfg) (s : St) (t : Tid) : Option (St × Ev) := stepW cfg.B false cfg s t

def result (s : St) (t : Tid) : Option (St × GRet) :=
  match s.pc t with
  | .done r => some ({ s with pc := upd s.pc t .idle }, r)
  | _ => none

def model (cfg : Cfg) : Model St := ⟨invoke cfg, step cfg, fun s t => result s t⟩

/-- The machine with the seeded defect: a pass reads only `init` slots of every extension block. -/
def modelSeeded (cfg : Cfg) : Model St := ⟨invoke cfg, stepW cfg.init false cfg, fun s t => result s t⟩

/-- The machine of the code as it stood before the repair of `retired_array::extend()` (cds/gc/dhp.h): when a pass over a
    completely full chain frees at least one entry but fewer than a quarter, `extend()` moved the write position to the
    new block although the pass had compacted the kept entries to the front; the entries behind them stayed in the chain,
    and the next pass handed them to the disposer AGAIN (finding; Props/C02DHP.lean has the run). -/
def modelUnrepaired (cfg : Cfg) : Model St := ⟨invoke cfg, stepW cfg.B true cfg, fun s t => result s t⟩

/-- The trace lines of a run. -/
def render (os : List (Tid × Obs)) : List String :=
  os.map fun (t, o) => match o with
    | .call op => s!"T {t} C {op.name} {op.args}"
    | .ev e => s!"T {t} A {e}"
    | .ret r => s!"T {t} R {r}"

end CdsVerif.Algo.DHP

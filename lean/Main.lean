import CdsVerif.Driver.LinCheck
import CdsVerif.Gen.Dispatch
import CdsVerif.Driver.SeqEval
import CdsVerif.Driver.Replay
import CdsVerif.Driver.Snapshot
import CdsVerif.Driver.FCBatch
import CdsVerif.Driver.CuckooEval
import CdsVerif.Algo.Spin.Model
import CdsVerif.Algo.Treiber.Model
import CdsVerif.Algo.Elim.Model
import CdsVerif.Algo.MSQueue.Model
import CdsVerif.Algo.Moir.Model
import CdsVerif.Algo.RWQueue.Model
import CdsVerif.Algo.Optimistic.Model
import CdsVerif.Algo.Basket.Model
import CdsVerif.Algo.Ring.Model
import CdsVerif.Algo.VoidRing.Model
import CdsVerif.Algo.Vyukov.Model
import CdsVerif.Algo.FreeList.Model
import CdsVerif.Algo.TaggedFreeList.Model
import CdsVerif.Algo.ReentrantSpin.Model
import CdsVerif.Algo.PoolMonitor.Replay
import CdsVerif.Algo.LockArray.Model
import CdsVerif.Algo.HP.Replay
import CdsVerif.Algo.DHP.Replay
import CdsVerif.Algo.RCU.Model
import CdsVerif.Algo.Michael.Model
import CdsVerif.Algo.Michael.Snap
import CdsVerif.Algo.SplitList.Model
import CdsVerif.Algo.SplitList.Snap
import CdsVerif.Algo.Feldman.Model
import CdsVerif.Algo.SkipList.Abs
import CdsVerif.Algo.SkipList.Snap
import CdsVerif.Algo.Lazy.Model
import CdsVerif.Algo.Lazy.Snap
import CdsVerif.Algo.Iterable.Model
import CdsVerif.Algo.Striped.Replay
import CdsVerif.Algo.MSPQ.Model
import CdsVerif.Algo.Segmented.Model
import CdsVerif.Algo.FC.KernelR
import CdsVerif.Algo.FC.Objects
open CdsVerif.Driver

partial def lcLoop (h : IO.FS.Stream) (st : LcState) : IO Unit := do
  let line ← h.getLine
  if line.isEmpty then return ()
  let st' := lcLine st line
  for o in st'.out do IO.println o
  lcLoop h { st' with out := #[] }

/-- tie D: one line `fn a b …` in, one line of outputs (values then the ub flag) out -/
partial def evalLoop (h : IO.FS.Stream) : IO Unit := do
  let line ← h.getLine
  if line.isEmpty then return ()
  match words line with
  | [] => evalLoop h
  | fn :: rest =>
    match rest.mapM (·.toNat?) with
    | none => IO.println "bad-args"
    | some as =>
      match CdsVerif.Gen.evalFn fn as with
      | some outs => IO.println (" ".intercalate (outs.map toString))
      | none => IO.println "unknown-fn"
    evalLoop h

partial def seqLoop (h : IO.FS.Stream) : IO Unit := do
  let line ← h.getLine
  if line.isEmpty then return ()
  IO.println (seqEvalLine line)
  seqLoop h

open CdsVerif.Machine in
/-- tie A: replay every case of the stream against model `m` started in `init cfgLine`. -/
partial def replayLoop {σ : Type} (h : IO.FS.Stream) (m : Model σ) (init : List String → σ)
    (relevant : String → Bool) (invB : σ → Bool) (cur : Option (String × RState σ))
    (snap : Option (σ → List String) := none) : IO Unit := do
  let line ← h.getLine
  if line.isEmpty then return ()
  match words line with
  | "CASE" :: id :: _ => replayLoop h m init relevant invB (some (id, { st := init [] })) snap
  | "#" :: rest =>
    -- the header comment carries the configuration (variant=… etc.): restart the model with it
    match cur with
    | some (id, r) =>
      if r.lineNo == 0 && rest.any (·.startsWith "family=") then
        replayLoop h m init relevant invB (some (id, { st := init rest })) snap
      else replayLoop h m init relevant invB cur snap
    | none => replayLoop h m init relevant invB cur snap
  | "SNAP" :: toks =>
    -- tie S on the machine side: the dump of the real object at the quiescent end of the case (printed by the client's
    -- finish()) against the rendering of the final machine state (a reachable state: Props/C18Reach.lean)
    match cur, snap with
    | some (id, r), some f =>
      if r.verdict.isNone then
        let mine := f r.st
        if mine == toks then IO.println s!"SNAPOK {id} {" ".intercalate mine}"
        else IO.println s!"SNAPDIFF {id} impl=[{" ".intercalate toks}] model=[{" ".intercalate mine}]"
      replayLoop h m init relevant invB cur snap
    | _, _ => replayLoop h m init relevant invB cur snap
  | "END" :: _ =>
    match cur with
    | some (id, r) =>
      match r.verdict with
      | none => IO.println s!"OK {id} steps={r.steps} skipped={r.skipped}"
      | some v => IO.println s!"DIVERGE {id} {v}"
      replayLoop h m init relevant invB none snap
    | none => replayLoop h m init relevant invB none snap
  | _ =>
    match cur with
    | some (id, r) => replayLoop h m init relevant invB (some (id, replayLine m relevant invB r line)) snap
    | none => replayLoop h m init relevant invB none snap

def main (args : List String) : IO UInt32 := do
  let stdin ← IO.getStdin
  match args with
  | ["lincheck"] => lcLoop stdin {}; return 0
  | ["eval"] => evalLoop stdin; return 0
  | ["seqeval"] => seqLoop stdin; return 0
  | ["snapshot"] => snapLoop stdin; return 0
  | ["fcbatch"] => fcBatchLoop stdin; return 0
  | ["cuckooeval"] => cuckooEvalLoop stdin; return 0
  | ["replay", "msqueue"] =>
    replayLoop stdin CdsVerif.Algo.MSQueue.model (fun _ => CdsVerif.Algo.MSQueue.init)
      (fun loc => loc == "head" || loc == "tail" || (loc.startsWith "n" && !(loc.any (· == '+')))) (fun _ => true) none
    return 0
  | ["replay", "moir"] =>
    -- harness variant `imoir_hp` of the `queue` client (nodes named like imsqueue_hp); machine Algo/Moir
    replayLoop stdin CdsVerif.Algo.Moir.model (fun _ => CdsVerif.Algo.Moir.init)
      (fun loc => loc == "head" || loc == "tail" || (loc.startsWith "n" && !(loc.any (· == '+')))) (fun _ => true) none
    return 0
  | ["replay", "rwqueue"] =>
    -- hidden harness variant `rwqueue_named` of the `queue` client (nodes named through the allocator trait, lock words hlock / tlock)
    replayLoop stdin CdsVerif.Algo.RWQueue.model (fun _ => CdsVerif.Algo.RWQueue.init)
      (fun loc => loc == "hlock" || loc == "tlock" || (loc.startsWith "n" && loc.length > 1 && (loc.drop 1).all Char.isDigit)) (fun _ => true) none
    return 0
  | ["replay", "optimistic"] =>
    -- hidden harness variant `ioptimistic_named` of the `queue` client (n<k> = node k's m_pNext, p<k> = its m_pPrev); machine Algo/Optimistic
    replayLoop stdin CdsVerif.Algo.Optimistic.model (fun _ => CdsVerif.Algo.Optimistic.init)
      (fun loc => loc == "head" || loc == "tail" ||
        ((loc.startsWith "n" || loc.startsWith "p") && loc.length > 1 && (loc.drop 1).all Char.isDigit)) (fun _ => true) none
    return 0
  | ["replay", "basket"] =>
    -- hidden harness variant `ibasket_named` of the `queue` client (as ibasket_hp, warm-up nodes named too; marked pointers print as
    -- n<k>|1); machine Algo/Basket, initial state from the header word `index=` (warm-up length index % 3)
    replayLoop stdin CdsVerif.Algo.Basket.model (fun cfg => CdsVerif.Algo.Basket.initCfg cfg)
      (fun loc => loc == "head" || loc == "tail" || (loc.startsWith "n" && loc.length > 1 && (loc.drop 1).all Char.isDigit)) (fun _ => true) none
    return 0
  | ["replay", "treiber"] =>
    replayLoop stdin CdsVerif.Algo.Treiber.model (fun _ => CdsVerif.Algo.Treiber.init)
      (fun loc => loc == "top" || (loc.startsWith "n" && !(loc.any (· == '+')))) (fun _ => true) none
    return 0
  | ["replay", "elim"] =>
    -- TreiberStack with elimination back-off: hidden harness variants `treiber_hp_elim_named` / `treiber_dhp_elim_named` of the
    -- `stack` client after tools/elim_pre.py (slot / wait inputs of every back-off round folded into the CALL line); machine Algo/Elim
    replayLoop stdin CdsVerif.Algo.Elim.model (fun _ => CdsVerif.Algo.Elim.init)
      CdsVerif.Algo.Elim.relevant (fun _ => true) none
    return 0
  | ["replay", "spin"] =>
    replayLoop stdin CdsVerif.Algo.Spin.model (fun _ => CdsVerif.Algo.Spin.init)
      (fun loc => loc.startsWith "L") (fun _ => true) none
    return 0
  | ["replay", "vyukov"] =>
    -- initial state from the header words `cap=<capacity()>` and `rot=<warm-up rotations>`
    replayLoop stdin CdsVerif.Algo.Vyukov.model (fun cfg => CdsVerif.Algo.Vyukov.initCfg cfg)
      (fun loc => loc == "posEnq" || loc == "posDeq" || loc.startsWith "seq") (fun _ => true) none
    return 0
  | ["replay", "freelist"] =>
    replayLoop stdin CdsVerif.Algo.FreeList.model (fun cfg => CdsVerif.Algo.FreeList.initCfg cfg)
      (fun loc => loc == "head" || loc.startsWith "n") (fun _ => true) none
    return 0
  | ["replay", "tagged"] =>
    replayLoop stdin CdsVerif.Algo.TaggedFreeList.model (fun cfg => CdsVerif.Algo.TaggedFreeList.initCfg cfg)
      (fun loc => loc == "head" || loc.startsWith "n") (fun _ => true) none
    return 0
  | ["replay", "reentrant"] =>
    replayLoop stdin CdsVerif.Algo.ReentrantSpin.model (fun _ => CdsVerif.Algo.ReentrantSpin.init)
      (fun loc => loc.startsWith "L") (fun _ => true) none
    return 0
  | ["replay", "poolmon"] =>
    -- harness variant `pool_monitor_named` of the `locks` client after tools/poolmon_pre.py (the pool's choices are inputs:
    -- `CALL pool_alloc t k` / `CALL pool_free t k`); initial state from the header word `cap=<preallocated pool locks>`
    replayLoop stdin CdsVerif.Algo.PoolMonitor.rmodel (fun cfg => CdsVerif.Algo.PoolMonitor.initCfg cfg)
      CdsVerif.Algo.PoolMonitor.relevantLoc (fun _ => true) none
    return 0
  | ["replay", "lockarray"] =>
    -- harness variant `lock_array` of the `locks` client (trivial_select_policy); header word `size=<cells>`
    replayLoop stdin (CdsVerif.Algo.LockArray.model CdsVerif.Algo.LockArray.selTrivial)
      (fun cfg => CdsVerif.Algo.LockArray.initCfg cfg) (fun loc => loc.startsWith "L") (fun _ => true) none
    return 0
  | ["replay", "michael"] =>
    -- harness variant `imichael_hp_named` of the `list` client: only `head` and `n<digits>` are model locations
    replayLoop stdin CdsVerif.Algo.Michael.model (fun _ => CdsVerif.Algo.Michael.init)
      (fun loc => loc == "head" || (loc.startsWith "n" && loc.length > 1 && (loc.drop 1).all Char.isDigit)) (fun _ => true) none
      (some CdsVerif.Algo.Michael.snapTokens)
    return 0
  | ["replay", "lazy"] =>
    -- harness variant `ilazy_hp_named` of the `list` client: model locations are `h`, `t`, `n<digits>` and their `.lock` words
    replayLoop stdin CdsVerif.Algo.Lazy.model (fun _ => CdsVerif.Algo.Lazy.init)
      (fun loc => let b := if loc.endsWith ".lock" then (loc.dropRight 5) else loc
                  b == "h" || b == "t" || (b.startsWith "n" && b.length > 1 && (b.drop 1).all Char.isDigit)) (fun _ => true) none
      (some CdsVerif.Algo.Lazy.snapTokens)
    return 0
  | ["replay", "rcu"] =>
    -- initial state from the header words `flavour=gpi|gpb nthreads=<n> cap=<threshold> bufcap=<capacity()>`;
    -- the trace is translated into the machine's vocabulary by tools/rcu_pre.py
    replayLoop stdin CdsVerif.Algo.RCU.model (fun cfg => CdsVerif.Algo.RCU.initCfg cfg)
      (fun loc => loc == "gctl" || loc == "lock" || loc == "epoch" || loc == "buf" || loc == "buf.size" || loc == "obj"
        || (loc.startsWith "ctl" && loc.length > 3 && (loc.drop 3).all Char.isDigit)) (fun _ => true) none
    return 0
  | ["replay", "hp"] =>
    -- configuration from the header words `H=` `T=` `R=` `cells=` (harness/clients/smr.cpp --static 1, trace rewritten by tools/hp_pre.py)
    replayLoop stdin CdsVerif.Algo.HP.Replay.modelR (fun cfg => CdsVerif.Algo.HP.Replay.initCfg cfg)
      CdsVerif.Algo.HP.Replay.relevant CdsVerif.Algo.HP.Replay.safeB none
    return 0
  | ["replay", "dhp"] =>
    -- configuration from the header words `init=` `B=` `T=` `RB=` `cells=` (harness/clients/smr.cpp --static 1, variants dhp / dhp_many,
    -- trace rewritten by tools/dhp_pre.py)
    replayLoop stdin CdsVerif.Algo.DHP.Replay.modelR (fun cfg => CdsVerif.Algo.DHP.Replay.initCfg cfg)
      CdsVerif.Algo.DHP.Replay.relevant CdsVerif.Algo.DHP.Replay.safeB none
    return 0
  | ["replay", "dhp_unrepaired"] =>
    -- the same machine with retired_array::extend() as it stood before its repair (finding; see Algo/DHP/Model.lean `modelUnrepaired`)
    replayLoop stdin CdsVerif.Algo.DHP.Replay.modelRU (fun cfg => CdsVerif.Algo.DHP.Replay.initCfg cfg)
      CdsVerif.Algo.DHP.Replay.relevant CdsVerif.Algo.DHP.Replay.safeB none
    return 0
  | ["replay", "segq"] =>
    -- harness variant `i_hp_named` of the `segmented` client, trace rewritten by tools/segq_pre.py (permutations folded into the
    -- CALL lines); initial state: header words `qf=` and `warm=` (the warm-up is run on the machine)
    replayLoop stdin CdsVerif.Algo.Segmented.model (fun cfg => CdsVerif.Algo.Segmented.initCfg cfg)
      (fun loc => loc == "segHead" || loc == "segTail" || loc == "segLock"
        || (loc.startsWith "s" && loc.any (· == '.') && !(loc.any (· == '+')))) CdsVerif.Algo.Segmented.checkB none
    return 0
  | ["replay", "striped"] =>
    -- StripedSet, striping / refinable mutex policies (harness client `striped`, hidden variants tie_striping / tie_refinable);
    -- configuration from the header words `policy=` `cap=` `num=` `den=` `hmul=`
    replayLoop stdin CdsVerif.Algo.Striped.modelR (fun cfg => CdsVerif.Algo.Striped.initCfg cfg)
      CdsVerif.Algo.Striped.relevant CdsVerif.Algo.Striped.okB none
    return 0
  | ["replay", "refinable"] =>
    replayLoop stdin CdsVerif.Algo.Striped.modelR (fun cfg => CdsVerif.Algo.Striped.initCfg cfg)
      CdsVerif.Algo.Striped.relevant CdsVerif.Algo.Striped.okB none
    return 0
  | ["replay", "iterable"] =>
    -- IterableList + iterator (C19); initial state from the header word `prefill=k1,k2,…`; trace rewritten by tools/iterable_pre.py
    replayLoop stdin CdsVerif.Algo.Iterable.model (fun cfg => CdsVerif.Algo.Iterable.initCfg cfg)
      CdsVerif.Algo.Iterable.relevant (fun _ => true) none
    return 0
  | ["replay", "splitlist"] =>
    -- harness variant `isset_michael_hp_named` of the `hashset` client; configuration from the header words cap= lf= coll=
    replayLoop stdin CdsVerif.Algo.SplitList.replayModel CdsVerif.Algo.SplitList.replayInit
      (fun loc => loc == "cnt2" || loc == "maxc" || loc == "items" || loc == "acnt" ||
        ((loc.startsWith "n" || loc.startsWith "d" || loc.startsWith "b") && loc.length > 1 && (loc.drop 1).all Char.isDigit))
      (fun _ => true) none
      -- tie S on the machine side: the table-based dump of the final machine state (Props/C18Reach.lean:
      -- C18_splitlist_quiescent_table_dump) against the `SNAP split …` line of the client
      (some (fun r => CdsVerif.Algo.SplitList.snapTokens r.s))
    return 0
  | ["replay", "skiplist"] =>
    -- harness variant `iskipset_hp_named` of the `tree` client; tower heights from the header word hts=
    replayLoop stdin CdsVerif.Algo.SkipList.replayModel CdsVerif.Algo.SkipList.replayInit
      (fun loc => loc == "hgt" || ((loc.startsWith "h." || loc.startsWith "n") && loc.any (· == '.') && !(loc.any (· == '+'))))
      CdsVerif.Algo.SkipList.replayInv none
      -- tie S on the machine side: the dump of ALL levels of the final machine state (Algo/SkipList/Snap.lean `snapOf`;
      -- Props/C18Reach.lean, Props/C15SkipListUpper.lean) against the `SNAP skip …` line of the client
      (some (fun r => CdsVerif.Algo.SkipList.snapTokens r.c.maxH r.s))
    return 0
  | ["replay", "feldman"] =>
    -- harness variant `ifset_hp_named` of the `hashset` client (intrusive FeldmanHashSet<HP>); header words hb= ab= shift=
    replayLoop stdin CdsVerif.Algo.Feldman.replayModel CdsVerif.Algo.Feldman.replayInit
      CdsVerif.Algo.Feldman.relevant (fun _ => true) none
    return 0
  | ["replay", "ring"] =>
    -- initial state from the header words `cap=<capacity()>` and (optional) `rot=<warm-up rotations>`
    replayLoop stdin CdsVerif.Algo.Ring.model (fun cfg => CdsVerif.Algo.Ring.initCfg cfg)
      (fun loc => loc == "front" || loc == "back") (fun _ => true) none
    return 0
  | ["replay", "voidring"] =>
    -- WeakRingBuffer<void> (variants void_* of the `ringbuf` client after tools/voidring_pre.py); header words cap= rot=
    replayLoop stdin CdsVerif.Algo.VoidRing.model (fun cfg => CdsVerif.Algo.VoidRing.initCfg cfg)
      (fun loc => loc == "front" || loc == "back") (fun _ => true) none
    return 0
  | ["replay", "mspq"] =>
    -- harness variant `imspq_named` of the `pqueue` client; header words `cap=<capacity()>` `pre=<pre-filled values>`
    replayLoop stdin CdsVerif.Algo.MSPQ.rmodel (fun cfg => CdsVerif.Algo.MSPQ.rinit cfg)
      CdsVerif.Algo.MSPQ.relevant (fun _ => true) none
    return 0
  | ["replay", "fckernelg"] =>
    -- the GENERIC flat-combining machine (Algo/FC/KernelG: kernel = KernelR, container = any sequential object) with the deque
    -- object (C10_fcdeque_linearizable); harness client `fckernel --container deque`; same pre-pass (tools/fckernel_pre.py)
    replayLoop stdin CdsVerif.Algo.FC.Objects.rmodel (fun cfg => CdsVerif.Algo.FC.Objects.rinit cfg)
      CdsVerif.Algo.FC.KernelR.isRecLoc CdsVerif.Algo.FC.Objects.okB none
    return 0
  | ["replay", "fckernel"] =>
    -- flat-combining kernel (C23): harness client `fckernel`, header words `threads=` `cf=` `pass=`; machine Algo/FC/KernelR
    -- (carries the publication list in order); tools/fckernel_pre.py only renames pointer values, it drops nothing
    replayLoop stdin CdsVerif.Algo.FC.KernelR.rmodel (fun cfg => CdsVerif.Algo.FC.KernelR.rinit cfg)
      CdsVerif.Algo.FC.KernelR.isRecLoc CdsVerif.Algo.FC.KernelR.okB none
    return 0
  | _ =>
    IO.eprintln "usage: cdsdriver lincheck|replay <model>|eval <fn>"
    return 2

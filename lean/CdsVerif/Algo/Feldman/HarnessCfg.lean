/-
  The configuration `cfgH hb ab shift` that `cdsdriver replay feldman` runs (hash `key << shift`, head slice of `hb`
  bits, `(64 - hb) / ab` slices of `ab` bits) satisfies `PathHyp` whenever the slices cover the 64 bits exactly:
    * on the domain `0 ≤ k ∧ k.toNat * 2 ^ shift < 2 ^ 64` the slices are the digits of the hash value `< 2 ^ 64` in the
      mixed radix `( 2^hb, 2^ab, …, 2^ab )`, which determine it, and `k ↦ k * 2 ^ shift` is injective;
    * off the domain `pathOf` is the injective extension described at `Model.pathOf`, whose head component
      `≥ 2 ^ 64` no key of the domain has.
-/
import CdsVerif.Algo.Feldman.Model
namespace CdsVerif.Algo.Feldman

theorem encKey_inj {k k' : Int} (h : encKey k = encKey k') : k = k' := by
  unfold encKey at h
  split at h <;> split at h <;> omega

/-- The low `m` digits of width `ab` determine `x % 2 ^ (ab * m)`. -/
theorem digits_mod (ab : Nat) (x x' : Nat) : ∀ m : Nat,
    (∀ j, j < m → x / 2 ^ (j * ab) % 2 ^ ab = x' / 2 ^ (j * ab) % 2 ^ ab) →
    x % 2 ^ (ab * m) = x' % 2 ^ (ab * m)
  | 0, _ => by simp [Nat.mod_one]
  | m + 1, h => by
    have ih := digits_mod ab x x' m (fun j hj => h j (by omega))
    have hm := h m (by omega)
    rw [Nat.mul_succ, Nat.pow_add, Nat.mod_mul, Nat.mod_mul (x := x'), ih]
    rw [Nat.mul_comm m ab] at hm
    rw [hm]

/-- A head slice of `hb` bits and `m` slices of `ab` bits determine a value below `2 ^ (hb + ab * m)`. -/
theorem slices_inj (hb ab m : Nat) (x x' : Nat) (hx : x < 2 ^ (hb + ab * m)) (hx' : x' < 2 ^ (hb + ab * m))
    (h0 : x % 2 ^ hb = x' % 2 ^ hb)
    (h : (List.range m).map (fun j => (x / 2 ^ (hb + j * ab)) % 2 ^ ab) =
         (List.range m).map (fun j => (x' / 2 ^ (hb + j * ab)) % 2 ^ ab)) : x = x' := by
  have hd : ∀ j, j < m → (x / 2 ^ hb) / 2 ^ (j * ab) % 2 ^ ab = (x' / 2 ^ hb) / 2 ^ (j * ab) % 2 ^ ab := by
    intro j hj
    have := List.map_inj_left.mp h j (List.mem_range.mpr hj)
    simpa only [Nat.div_div_eq_div_mul, ← Nat.pow_add] using this
  have ht := digits_mod ab (x / 2 ^ hb) (x' / 2 ^ hb) m hd
  have e : x % (2 ^ hb * 2 ^ (ab * m)) = x' % (2 ^ hb * 2 ^ (ab * m)) := by
    rw [Nat.mod_mul, Nat.mod_mul (x := x'), h0, ht]
  rw [← Nat.pow_add, Nat.mod_eq_of_lt hx, Nat.mod_eq_of_lt hx'] at e
  exact e

/-- The configuration of the harness satisfies the hash hypotheses of all theorems of `Props/C14Feldman.lean`. -/
theorem cfgH_hyp (hb ab shift : Nat) (cf : Bool) (hsum : hb + ab * ((64 - hb) / ab) = 64) :
    PathHyp (cfgH hb ab shift cf) := by
  constructor
  · intro k
    simp only [cfgH, pathOf]
    split <;> simp
  · intro k k' h
    simp only [cfgH, pathOf] at h
    have hpw : 2 ^ hb ≤ 2 ^ 64 := Nat.pow_le_pow_right (by omega) (by omega)
    have hpos : 0 < 2 ^ hb := Nat.pow_pos (by omega)
    split at h <;> split at h
    · rename_i hk hk'
      simp only [List.cons.injEq] at h
      have e : hashOf shift k = hashOf shift k' :=
        slices_inj hb ab ((64 - hb) / ab) _ _ (by rw [hsum]; exact Nat.mod_lt _ (by omega))
          (by rw [hsum]; exact Nat.mod_lt _ (by omega)) h.1 h.2
      unfold hashOf at e
      rw [Nat.mod_eq_of_lt hk.2, Nat.mod_eq_of_lt hk'.2] at e
      have := Nat.eq_of_mul_eq_mul_right (Nat.pow_pos (by omega)) e
      omega
    · simp only [List.cons.injEq] at h
      have := Nat.mod_lt (hashOf shift k) hpos
      omega
    · simp only [List.cons.injEq] at h
      have := Nat.mod_lt (hashOf shift k') hpos
      omega
    · simp only [List.cons.injEq] at h
      exact encKey_inj (by omega)

/-- `hb = 4`, `ab = 2`, `shift = 3`: the configuration of the harness client `hashset`. -/
theorem cfgH_4_2_3_hyp : PathHyp (cfgH 4 2 3) ∧ (cfgH 4 2 3).copyFirst = true :=
  ⟨cfgH_hyp 4 2 3 true (by decide), rfl⟩

end CdsVerif.Algo.Feldman

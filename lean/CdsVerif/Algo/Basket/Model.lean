/-
  Atomic-step model of `cds::intrusive::BasketQueue` (cds/intrusive/basket_queue.h; Hoffman, Shalev, Shavit: "The
  baskets queue"), functions `enqueue`, `dequeue` / `do_dequeue( res, true )` and `free_chain`, exactly as coded.
  `m_pNext` is a marked pointer: bit 1 on the link `a.next = (x, 1)` says that the node `x` has been dequeued
  (logical deletion); the parameter `maxHops` is `m_nMaxHops` (the constructor sets it to 3).

    enqueue( val ):
        pNew = node of val
        while ( true ) {
            t = guard.protect( m_pTail )      -- gc::Guard::protect: pCur = load;                               enqLd1
                                              --   do { pRet = pCur; hp := pCur; pCur = load } while ( pRet != pCur )   enqLd2
            pNext = t->m_pNext.load()                                                                        -- enqNext
            if ( pNext.ptr() == nullptr ) {
                pNew->m_pNext.store( marked_ptr() )                                                          -- enqInit
                if ( t->m_pNext.compare_exchange_weak( pNext, marked_ptr( pNew ))) {                         -- enqCas
                    m_pTail.compare_exchange_strong( t, marked_ptr( pNew ))      (result ignored)            -- enqSwing
                    break;
                }
              try_again:                      -- "try adding to the basket"
                pNext = gNext.protect( t->m_pNext )                                                          -- bkLd1, bkLd2
                if ( m_pTail.load() == t                                                                     -- bkTail
                     && t->m_pNext.load() == pNext                                                           -- bkChk
                     && !pNext.bits() )
                {
                    back-off
                    pNew->m_pNext.store( pNext )                                                             -- bkSet
                    if ( t->m_pNext.compare_exchange_weak( pNext, marked_ptr( pNew ))) break;                -- bkCas
                    goto try_again;
                }
            }
            else {                            -- "tail is lagging": fix it
                if ( m_pTail.load() != t                                                                     -- fxTail
                  || t->m_pNext.load() != pNext ) continue;                                                  -- fxChk
                bTailOk = true;
                while ( ( p = pNext->m_pNext.load() ).ptr() != nullptr ) {                                   -- fxWalk
                    bTailOk = m_pTail.load() == t;                                                           -- fxWTail
                    if ( !bTailOk ) break;
                    if ( pNext->m_pNext.load() != p ) continue;                                              -- fxWChk
                    pNext = p;
                }
                if ( bTailOk ) m_pTail.compare_exchange_weak( t, marked_ptr( pNext.ptr() ))  (ignored)       -- fxCas
            }
        }
        return true;

    do_dequeue( res, bDeque = true ):
        while ( true ) {
            h = guards.protect( 0, m_pHead )  -- gc::GuardArray::protect: do { p = load; hp := p } while ( p != load )   dLdH1, dLdH2
            t = guards.protect( 1, m_pTail )                                                                 -- dLdT1, dLdT2
            pNext = guards.protect( 2, h->m_pNext )                                                          -- dNx1, dNx2
            if ( h == m_pHead.load() ) {                                                                     -- dChk
                if ( h.ptr() == t.ptr() ) {
                    if ( !pNext.ptr() ) return false;            -- (local; decided in the dChk step)
                    while ( pNext->m_pNext.load().ptr()                                                      -- hpWalk
                            && m_pTail.load() == t )                                                         -- hpTail
                        pNext = g.protect( pNext->m_pNext );                                                 -- hpP1, hpP2
                    m_pTail.compare_exchange_weak( t, marked_ptr( pNext.ptr() ))   (result ignored)          -- hpCas
                }
                else {
                    iter = h; hops = 0;
                    while ( pNext.ptr() && pNext.bits() && iter.ptr() != t.ptr()
                            && m_pHead.load() == h ) {                                                       -- skHead
                        iter = pNext;
                        pNext = guards.protect( 2, pNext->m_pNext );                                         -- skP1, skP2
                        ++hops;
                    }
                    if ( m_pHead.load() != h ) continue;                                                     -- dChk2
                    if ( iter.ptr() == t.ptr() )
                        free_chain( h, iter );
                    else {
                        res.pNext = pNext.ptr();
                        if ( iter->m_pNext.compare_exchange_weak( pNext, marked_ptr( pNext.ptr(), 1 ))) {    -- dMark
                            if ( hops >= m_nMaxHops ) free_chain( h, pNext );
                            break;
                        }
                    }
                }
            }
            back-off
        }
        return res.pNext (the value stored in that node)

    free_chain( head, newHead ):
        if ( m_pHead.compare_exchange_strong( head, marked_ptr( newHead.ptr() ))) {                          -- fcCas
            while ( head.ptr() != newHead.ptr() ) {
                pNext = guards.protect( 1, head->m_pNext );                                                  -- fcP1, fcP2
                dispose_node( head.ptr() );           -- (retire: hazard-pointer machinery, not modelled)
                head = pNext;
            }
        }

  A null pointer that the real code would dereference sends the model to the dead program point `crash`.

  Memory model, event rendering and everything that is not modelled: as in `Algo/MSQueue/Model.lean` (garbage-collected
  heap: node 0 is `m_Dummy`, client nodes are fresh and never reused — what the hazard pointers provide, an ASSUMPTION
  here; hazard-pointer stores, `dispose_node` / `clear_links`, item counter, statistics, back-off are not modelled;
  `compare_exchange_weak` never fails spuriously).  `m_pHead` / `m_pTail` are marked pointers too but their bits are
  always 0.

  Events (the `A` lines of the harness trace, variant `ibasket_hp` of the queue client):
      ld head n<a> / ld tail n<a>
      ld n<a> <mp> / st n<a> <mp>                  node a's m_pNext; <mp> = null | n<id> | n<id>|1 | null|1
      cas+ <loc> <old> <new> / cas- <loc> <seen> <expected>
-/
import CdsVerif.Base.Machine
namespace CdsVerif.Algo.Basket
open CdsVerif.Machine CdsVerif.Spec

/-- A marked pointer: target and deletion bit. -/
abbrev MP := Option Nat × Bool

inductive PC
  | idle
  -- enqueue
  | enqLd1 (n : Nat)
  | enqLd2 (n p : Nat)
  | enqNext (n t : Nat)
  | enqInit (n t : Nat) (b : Bool)           -- pNext = ( null, b )
  | enqCas (n t : Nat) (b : Bool)
  | enqSwing (n t : Nat)
  | bkLd1 (n t : Nat)
  | bkLd2 (n t : Nat) (p : MP)
  | bkTail (n t : Nat) (p : MP)
  | bkChk (n t : Nat) (p : MP)
  | bkSet (n t : Nat) (p : MP)
  | bkCas (n t : Nat) (p : MP)
  | fxTail (n t : Nat) (p : MP)
  | fxChk (n t : Nat) (p : MP)
  | fxWalk (n t c : Nat)                     -- c = pNext.ptr()
  | fxWTail (n t c : Nat) (p : MP)
  | fxWChk (n t c : Nat) (p : MP)
  | fxCas (n t c : Nat)
  -- dequeue
  | dLdH1
  | dLdH2 (p : Nat)
  | dLdT1 (h : Nat)
  | dLdT2 (h p : Nat)
  | dNx1 (h t : Nat)
  | dNx2 (h t : Nat) (p : MP)
  | dChk (h t : Nat) (p : MP)
  | hpWalk (h t c : Nat)
  | hpTail (h t c : Nat)
  | hpP1 (h t c : Nat)
  | hpP2 (h t c : Nat) (p : MP)
  | hpCas (h t c : Nat)
  | skHead (h t it : Nat) (p : MP) (hops : Nat)
  | skP1 (h t it : Nat) (hops : Nat)
  | skP2 (h t it : Nat) (p : MP) (hops : Nat)
  | dChk2 (h t it : Nat) (p : MP) (hops : Nat)
  | dMark (h it : Nat) (p : MP) (hops : Nat)
  -- free_chain; `fin = some v`: return [1, v] afterwards, `none`: restart the dequeue loop
  | fcCas (h nw : Nat) (fin : Option Int)
  | fcP1 (c nw : Nat) (fin : Option Int)
  | fcP2 (c nw : Nat) (p : MP) (fin : Option Int)
  | crash (n : Option Nat) (fin : Option Int) -- null dereference (dead); `some n`: in `enqueue` of node `n`; `fin`: as in `fcCas`
  | done (r : GRet)
deriving DecidableEq, Repr

structure St where
  maxHops : Nat
  head : Nat
  tail : Nat
  nptr : Nat → Option Nat        -- m_pNext.ptr() of every node
  nbit : Nat → Bool              -- m_pNext.bits() of every node
  val : Nat → Int
  cnt : Nat
  pc : Tid → PC

def dummy : Nat := 0

def initH (maxHops : Nat) : St := ⟨maxHops, dummy, dummy, fun _ => none, fun _ => false, fun _ => 0, 1, fun _ => .idle⟩
/-- The queue as the constructor builds it: `m_nMaxHops = 3`. -/
def init : St := initH 3

/-- The queue after a warm-up of `warm` enqueue / dequeue pairs (each dequeue only marks a link, `head` does not move
    as long as fewer than `maxHops` links have to be skipped): `0 → 1 → … → warm`, all links marked. -/
def initW (maxHops warm : Nat) : St :=
  ⟨maxHops, dummy, warm, fun a => if a < warm then some (a + 1) else none, fun a => decide (a < warm), fun _ => 0, warm + 1,
   fun _ => .idle⟩

/-- Initial state for the trace replay: the header word `index=<case index>` gives the warm-up length `index % 3`
    of the queue client. -/
def initCfg (cfg : List String) : St :=
  let idx := (cfg.filterMap fun w => if w.startsWith "index=" then (w.drop 6).toNat? else none).headD 0
  initW 3 (idx % 3)

/-- `m_pNext` of node `a`. -/
def St.next (s : St) (a : Nat) : MP := (s.nptr a, s.nbit a)

/-! ### Event rendering -/

def ptr : Option Nat → String
  | none => "null"
  | some a => s!"n{a}"
def mp (p : MP) : String := if p.2 then ptr p.1 ++ "|1" else ptr p.1
def nloc (a : Nat) : String := s!"n{a}"
def headLoc : String := "head"
def tailLoc : String := "tail"

def evLd (loc : String) (v : Option Nat) : Ev := ⟨"ld", loc, ptr v, ""⟩
def evLdM (loc : String) (v : MP) : Ev := ⟨"ld", loc, mp v, ""⟩
def evStM (loc : String) (v : MP) : Ev := ⟨"st", loc, mp v, ""⟩
def evCasOk (loc : String) (old new : Option Nat) : Ev := ⟨"cas+", loc, ptr old, ptr new⟩
def evCasFail (loc : String) (seen expected : Option Nat) : Ev := ⟨"cas-", loc, ptr seen, ptr expected⟩
def evCasOkM (loc : String) (old new : MP) : Ev := ⟨"cas+", loc, mp old, mp new⟩
def evCasFailM (loc : String) (seen expected : MP) : Ev := ⟨"cas-", loc, mp seen, mp expected⟩

/-! ### Transitions -/

def invoke (s : St) (t : Tid) (op : GOp) : Option St :=
  match s.pc t, op.name, op.args with
  | .idle, "enq", [v] =>
    some { s with val := upd s.val s.cnt v, cnt := s.cnt + 1, pc := upd s.pc t (.enqLd1 s.cnt) }
  | .idle, "deq", [] => some { s with pc := upd s.pc t .dLdH1 }
  | _, _, _ => none

/-- The condition of the skip loop of `do_dequeue` up to (excluding) the load of `m_pHead`. -/
def skNext (h a it : Nat) (p : MP) (hops : Nat) : PC :=
  match p with
  | (some _, true) => if it = a then .dChk2 h a it p hops else .skHead h a it p hops
  | _ => .dChk2 h a it p hops

/-- After `free_chain`. -/
def fcEnd (fin : Option Int) : PC :=
  match fin with
  | some v => .done [1, v]
  | none => .dLdH1

def step (s : St) (t : Tid) : Option (St × Ev) :=
  let go (pc' : PC) (ev : Ev) : Option (St × Ev) := some ({ s with pc := upd s.pc t pc' }, ev)
  match s.pc t with
  -- enqueue
  | .enqLd1 n => go (.enqLd2 n s.tail) (evLd tailLoc (some s.tail))
  | .enqLd2 n p =>
    if s.tail = p then go (.enqNext n p) (evLd tailLoc (some p))
    else go (.enqLd2 n s.tail) (evLd tailLoc (some s.tail))
  | .enqNext n a =>
    match s.nptr a with
    | none => go (.enqInit n a (s.nbit a)) (evLdM (nloc a) (s.next a))
    | some _ => go (.fxTail n a (s.next a)) (evLdM (nloc a) (s.next a))
  | .enqInit n a b =>
    some ({ s with nptr := upd s.nptr n none, nbit := upd s.nbit n false, pc := upd s.pc t (.enqCas n a b) },
          evStM (nloc n) (none, false))
  | .enqCas n a b =>
    if s.next a = (none, b) then
      some ({ s with nptr := upd s.nptr a (some n), nbit := upd s.nbit a false, pc := upd s.pc t (.enqSwing n a) },
            evCasOkM (nloc a) (none, b) (some n, false))
    else go (.bkLd1 n a) (evCasFailM (nloc a) (s.next a) (none, b))
  | .enqSwing n a =>
    if s.tail = a then
      some ({ s with tail := n, pc := upd s.pc t (.done [1]) }, evCasOk tailLoc (some a) (some n))
    else go (.done [1]) (evCasFail tailLoc (some s.tail) (some a))
  | .bkLd1 n a => go (.bkLd2 n a (s.next a)) (evLdM (nloc a) (s.next a))
  | .bkLd2 n a p =>
    if s.next a = p then go (.bkTail n a p) (evLdM (nloc a) p)
    else go (.bkLd2 n a (s.next a)) (evLdM (nloc a) (s.next a))
  | .bkTail n a p =>
    if s.tail = a then go (.bkChk n a p) (evLd tailLoc (some a))
    else go (.enqLd1 n) (evLd tailLoc (some s.tail))
  | .bkChk n a p =>
    if s.next a = p ∧ p.2 = false then go (.bkSet n a p) (evLdM (nloc a) (s.next a))
    else go (.enqLd1 n) (evLdM (nloc a) (s.next a))
  | .bkSet n a p =>
    some ({ s with nptr := upd s.nptr n p.1, nbit := upd s.nbit n p.2, pc := upd s.pc t (.bkCas n a p) },
          evStM (nloc n) p)
  | .bkCas n a p =>
    if s.next a = p then
      some ({ s with nptr := upd s.nptr a (some n), nbit := upd s.nbit a false, pc := upd s.pc t (.done [1]) },
            evCasOkM (nloc a) p (some n, false))
    else go (.bkLd1 n a) (evCasFailM (nloc a) (s.next a) p)
  | .fxTail n a p =>
    if s.tail = a then go (.fxChk n a p) (evLd tailLoc (some a))
    else go (.enqLd1 n) (evLd tailLoc (some s.tail))
  | .fxChk n a p =>
    if s.next a = p then
      match p.1 with
      | some c => go (.fxWalk n a c) (evLdM (nloc a) p)
      | none => go (.crash (some n) none) (evLdM (nloc a) p)
    else go (.enqLd1 n) (evLdM (nloc a) (s.next a))
  | .fxWalk n a c =>
    match s.nptr c with
    | none => go (.fxCas n a c) (evLdM (nloc c) (s.next c))
    | some _ => go (.fxWTail n a c (s.next c)) (evLdM (nloc c) (s.next c))
  | .fxWTail n a c p =>
    if s.tail = a then go (.fxWChk n a c p) (evLd tailLoc (some a))
    else go (.enqLd1 n) (evLd tailLoc (some s.tail))
  | .fxWChk n a c p =>
    if s.next c = p then
      match p.1 with
      | some c' => go (.fxWalk n a c') (evLdM (nloc c) p)
      | none => go (.crash (some n) none) (evLdM (nloc c) p)
    else go (.fxWalk n a c) (evLdM (nloc c) (s.next c))
  | .fxCas n a c =>
    if s.tail = a then
      some ({ s with tail := c, pc := upd s.pc t (.enqLd1 n) }, evCasOk tailLoc (some a) (some c))
    else go (.enqLd1 n) (evCasFail tailLoc (some s.tail) (some a))
  -- dequeue
  | .dLdH1 => go (.dLdH2 s.head) (evLd headLoc (some s.head))
  | .dLdH2 p =>
    if s.head = p then go (.dLdT1 p) (evLd headLoc (some p))
    else go .dLdH1 (evLd headLoc (some s.head))
  | .dLdT1 h => go (.dLdT2 h s.tail) (evLd tailLoc (some s.tail))
  | .dLdT2 h p =>
    if s.tail = p then go (.dNx1 h p) (evLd tailLoc (some p))
    else go (.dLdT1 h) (evLd tailLoc (some s.tail))
  | .dNx1 h a => go (.dNx2 h a (s.next h)) (evLdM (nloc h) (s.next h))
  | .dNx2 h a p =>
    if s.next h = p then go (.dChk h a p) (evLdM (nloc h) p)
    else go (.dNx1 h a) (evLdM (nloc h) (s.next h))
  | .dChk h a p =>
    if s.head = h then
      if h = a then
        match p.1 with
        | none => go (.done [0]) (evLd headLoc (some h))
        | some c => go (.hpWalk h a c) (evLd headLoc (some h))
      else go (skNext h a h p 0) (evLd headLoc (some h))
    else go .dLdH1 (evLd headLoc (some s.head))
  | .hpWalk h a c =>
    match s.nptr c with
    | none => go (.hpCas h a c) (evLdM (nloc c) (s.next c))
    | some _ => go (.hpTail h a c) (evLdM (nloc c) (s.next c))
  | .hpTail h a c =>
    if s.tail = a then go (.hpP1 h a c) (evLd tailLoc (some a))
    else go (.hpCas h a c) (evLd tailLoc (some s.tail))
  | .hpP1 h a c => go (.hpP2 h a c (s.next c)) (evLdM (nloc c) (s.next c))
  | .hpP2 h a c p =>
    if s.next c = p then
      match p.1 with
      | some c' => go (.hpWalk h a c') (evLdM (nloc c) p)
      | none => go (.crash none none) (evLdM (nloc c) p)
    else go (.hpP2 h a c (s.next c)) (evLdM (nloc c) (s.next c))
  | .hpCas _ a c =>
    if s.tail = a then
      some ({ s with tail := c, pc := upd s.pc t .dLdH1 }, evCasOk tailLoc (some a) (some c))
    else go .dLdH1 (evCasFail tailLoc (some s.tail) (some a))
  | .skHead h a it p hops =>
    if s.head = h then
      match p.1 with
      | some x => go (.skP1 h a x (hops + 1)) (evLd headLoc (some h))
      | none => go (.crash none none) (evLd headLoc (some h))
    else go (.dChk2 h a it p hops) (evLd headLoc (some s.head))
  | .skP1 h a it hops => go (.skP2 h a it (s.next it) hops) (evLdM (nloc it) (s.next it))
  | .skP2 h a it p hops =>
    if s.next it = p then go (skNext h a it p hops) (evLdM (nloc it) p)
    else go (.skP1 h a it hops) (evLdM (nloc it) (s.next it))
  | .dChk2 h a it p hops =>
    if s.head = h then
      if it = a then go (.fcCas h it none) (evLd headLoc (some h))
      else go (.dMark h it p hops) (evLd headLoc (some h))
    else go .dLdH1 (evLd headLoc (some s.head))
  | .dMark h it p hops =>
    if s.next it = p then
      match p.1 with
      | some x =>
        some ({ s with nbit := upd s.nbit it true,
                       pc := upd s.pc t (if s.maxHops ≤ hops then .fcCas h x (some (s.val x)) else .done [1, s.val x]) },
              evCasOkM (nloc it) p (p.1, true))
      | none => some ({ s with nbit := upd s.nbit it true, pc := upd s.pc t (.crash none none) }, evCasOkM (nloc it) p (p.1, true))
    else go .dLdH1 (evCasFailM (nloc it) (s.next it) p)
  | .fcCas h nw fin =>
    if s.head = h then
      some ({ s with head := nw, pc := upd s.pc t (if h = nw then fcEnd fin else .fcP1 h nw fin) },
            evCasOk headLoc (some h) (some nw))
    else go (fcEnd fin) (evCasFail headLoc (some s.head) (some h))
  | .fcP1 c nw fin => go (.fcP2 c nw (s.next c) fin) (evLdM (nloc c) (s.next c))
  | .fcP2 c nw p fin =>
    if s.next c = p then
      match p.1 with
      | some c' => go (if c' = nw then fcEnd fin else .fcP1 c' nw fin) (evLdM (nloc c) p)
      | none => go (.crash none fin) (evLdM (nloc c) p)
    else go (.fcP1 c nw fin) (evLdM (nloc c) (s.next c))
  | _ => none

def result (s : St) (t : Tid) : Option (St × GRet) :=
  match s.pc t with
  | .done r => some ({ s with pc := upd s.pc t .idle }, r)
  | _ => none

def model : Model St := ⟨invoke, step, result⟩

end CdsVerif.Algo.Basket

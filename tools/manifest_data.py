HOOK_COMMITS = ["1ff129b", "a99d5e7"]
NOTES = "See DESIGN.md. Every check rebuilds the Lean property module, audits axioms, rebuilds the harness from /repo's working tree (content-hash cache) and runs the ties."
NOT_APPLICABLE = {}
CHECKS = {
 "C09": {
  "category": "translation_validation",
  "technique": "Lean 4: verified linearizability checker (sound+complete theorem) judging histories of the real stacks under a deterministic scheduler",
  "text": "Histories of every stack variant, produced by the real code under seeded random/PCT schedules and exhaustive <=1 (thorough <=2) preemption enumeration, are judged against the Lean LIFO specification by a checker proved sound and complete in Lean. The theorem is about the checker and the specification; the algorithm model (Treiber atomic-step machine) is added on top when finished.",
  "note": "SC interleavings only; memory orders not modelled; explored schedules only for the history tie; Lean kernel + propext/Classical.choice/Quot.sound.",
 },
}

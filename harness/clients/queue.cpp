// Unbounded FIFO queues: MSQueue, MoirQueue, BasketQueue, OptimisticQueue (container and
// intrusive, HP / DHP), RWQueue, FCQueue (container over std::queue, intrusive over
// boost::intrusive::list).  History is judged against Spec.fifo.
#include <cds/init.h>
#include <cds/gc/hp.h>
#include <cds/gc/dhp.h>
#include <cds/container/msqueue.h>
#include <cds/container/moir_queue.h>
#include <cds/container/basket_queue.h>
#include <cds/container/optimistic_queue.h>
#include <cds/container/rwqueue.h>
#include <cds/container/fcqueue.h>
#include <cds/intrusive/msqueue.h>
#include <cds/intrusive/moir_queue.h>
#include <cds/intrusive/basket_queue.h>
#include <cds/intrusive/optimistic_queue.h>
#include <cds/intrusive/fcqueue.h>
#include <boost/intrusive/list.hpp>
#include <memory>
#include <queue>
#include "../client.h"

using namespace khizmax_libcds_verif;
namespace ci = cds::intrusive;
namespace cc = cds::container;

// ---------------------------------------------------------------- flat-combining publication records
// Thread exit and the FC kernel.  Each thread owns a publication record through a
// boost::thread_specific_ptr; when the thread ends the TLS cleanup marks the record `removed`.
// Left to the OS this happens after the thread has handed the baton over, i.e. concurrently with
// the next scheduled thread and invisible to the scheduler (nondeterministic).  The fixture
// therefore releases the TLS slot in thread_end(), under the baton, as an ordinary scheduling point
// (`--fc_tls_in_baton 0` restores the OS behaviour).
// The kernel's allocator is replaced by one that never returns memory while the container lives
// (freed records stay readable) and that reports a record which is freed while it is still
// reachable from the publication list: that is a use-after-free in libcds, reported as an X line.
namespace fcwatch {
    static std::vector<void*> quarantine;
    static void const* kernel = nullptr;
    static bool (*linked_fn)( void const* kernel, void const* rec ) = nullptr;
    static unsigned long freed_linked = 0;

    template <class Kernel>
    bool is_linked( void const* k, void const* rec )
    {
        Kernel const* kk = static_cast<Kernel const*>( k );
        for ( cds::algo::flat_combining::publication_record* r = kk->m_pHead; r; r = r->pNext.load( atomics::memory_order_relaxed ))
            if ( static_cast<void const*>( static_cast<typename Kernel::publication_record_type*>( r )) == rec )
                return true;
        return false;
    }
    template <class Kernel>
    void watch( Kernel* k ) { kernel = k; linked_fn = &is_linked<Kernel>; freed_linked = 0; }
    inline void unwatch() { kernel = nullptr; linked_fn = nullptr; }
    inline void release()
    {
        for ( void* p : quarantine ) ::operator delete( p );
        quarantine.clear();
    }

    template <class T>
    struct alloc {
        typedef T value_type;
        template <class U> struct rebind { typedef alloc<U> other; };
        alloc() noexcept {}
        template <class U> alloc( alloc<U> const& ) noexcept {}
        T* allocate( size_t n, void const* = nullptr ) { return static_cast<T*>( ::operator new( n * sizeof( T ))); }
        void deallocate( T* p, size_t ) noexcept
        {
            if ( linked_fn ) {
                set_quiet( true );      // the walk below must not be a scheduling point (never called from a quiet region)
                if ( linked_fn( kernel, p )) ++freed_linked;
                set_quiet( false );
            }
            quarantine.push_back( p );
        }
        template <class U> bool operator==( alloc<U> const& ) const noexcept { return true; }
        template <class U> bool operator!=( alloc<U> const& ) const noexcept { return false; }
    };
}

struct IQueue {
    virtual void start_naming() {}
    virtual ~IQueue() {}
    virtual bool enq( long v ) = 0;
    virtual bool deq( long& v ) = 0;
    virtual long size() { return -1; }                 // -1: no item counter
    virtual void shutdown( std::ostream* ) {}          // main thread, quiescent: drain and destroy the container
    virtual void thread_exit() {}                      // scheduled thread, last action: release per-thread state of the container
};

// ---------------------------------------------------------------- value-copying containers

template <class Q>
struct ValueQ : IQueue {
    std::unique_ptr<Q> q;
    bool counted;
    explicit ValueQ( bool counted_ = false ) : q( new Q ), counted( counted_ ) {}
    bool enq( long v ) override { return q->enqueue( v ); }
    bool deq( long& v ) override { return q->dequeue( v ); }
    long size() override { return counted ? long( q->size()) : -1; }
};

struct ms_traits : cc::msqueue::traits {};
struct ms_ic_traits : cc::msqueue::traits { typedef cds::atomicity::item_counter item_counter; };
struct ms_sc_traits : cc::msqueue::traits { typedef cds::opt::v::sequential_consistent memory_model; };
struct bq_traits : cc::basket_queue::traits {};
struct oq_traits : cc::optimistic_queue::traits {};
struct rw_traits : cc::rwqueue::traits { typedef cds::sync::spin lock_type; };

template <bool Elim>
struct FCQueueV : IQueue {
    struct traits : cc::fcqueue::traits {
        static constexpr bool const enable_elimination = Elim;
        typedef cds::algo::flat_combining::wait_strategy::backoff<> wait_strategy;
        typedef cds::sync::spin lock_type;
        typedef fcwatch::alloc<int> allocator;
    };
    typedef cc::FCQueue<long, std::queue<long>, traits> queue_t;
    std::unique_ptr<queue_t> q;
    FCQueueV( unsigned compact, unsigned pass ) : q( new queue_t( compact, pass )) { fcwatch::watch( &q->m_FlatCombining ); }
    ~FCQueueV()
    {
        fcwatch::unwatch();
        q.reset();
        fcwatch::release();
    }
    void thread_exit() override { q->m_FlatCombining.m_pThreadRec.reset(); }      // runs the kernel's tls_cleanup
    bool enq( long v ) override { return q->enqueue( v ); }
    bool deq( long& v ) override { return q->dequeue( v ); }
};

// ---------------------------------------------------------------- RWQueue with named nodes (tie A, Lean machine Algo/RWQueue)
// Hidden variant `rwqueue_named`: the queue allocates its nodes itself, so they are named through the allocator
// trait: n1, n2, … in allocation order after the warm-up (a node is allocated at the very start of enqueue(), before
// its first scheduling point: allocation order = invocation order = the order in which the Lean machine allocates
// node ids); the dummy is n0; the lock words are hlock / tlock.  Names are resolved by address when the trace is
// rendered, so node memory must not be reused while the case lives: freed nodes are quarantined.
namespace rwnames {
    static bool on = false;
    static size_t named = 0;
    static std::vector<void*> quarantine;

    template <class T>
    struct alloc {
        typedef T value_type;
        template <class U> struct rebind { typedef alloc<U> other; };
        alloc() noexcept {}
        template <class U> alloc( alloc<U> const& ) noexcept {}
        T* allocate( size_t n, void const* = nullptr )
        {
            T* p = static_cast<T*>( ::operator new( n * sizeof( T )));
            if ( on ) {
                char nm[32];
                std::snprintf( nm, sizeof nm, "n%zu", ++named );
                reg_name( p, sizeof( void* ), nm );        // node_type::m_pNext is the first member (checked in start_naming)
            }
            return p;
        }
        void deallocate( T* p, size_t ) noexcept { quarantine.push_back( p ); }
        template <class U> bool operator==( alloc<U> const& ) const noexcept { return true; }
        template <class U> bool operator!=( alloc<U> const& ) const noexcept { return false; }
    };
}
struct rwn_traits : cc::rwqueue::traits { typedef cds::sync::spin lock_type; typedef rwnames::alloc<int> allocator; };

struct RWQueueNamed : IQueue {
    typedef cc::RWQueue<long, rwn_traits> queue_t;
    std::unique_ptr<queue_t> q;
    RWQueueNamed() { rwnames::on = false; rwnames::named = 0; q.reset( new queue_t ); }
    ~RWQueueNamed()
    {
        rwnames::on = false;
        q.reset();
        for ( void* p : rwnames::quarantine ) ::operator delete( p );
        rwnames::quarantine.clear();
    }
    bool enq( long v ) override { return q->enqueue( v ); }
    bool deq( long& v ) override { return q->dequeue( v ); }
    void start_naming() override
    {
        // called after the warm-up: whatever node is the dummy now is n0
        rwnames::on = true;
        rwnames::named = 0;
        reg_name( &q->m_Head.lock, sizeof( q->m_Head.lock ), "hlock" );
        reg_name( &q->m_Tail.lock, sizeof( q->m_Tail.lock ), "tlock" );
        if ( static_cast<void*>( &q->m_Head.ptr->m_pNext ) != static_cast<void*>( q->m_Head.ptr )) {
            std::fprintf( stderr, "rwqueue_named: m_pNext is not the first member of node_type\n" );
            std::exit( 2 );
        }
        reg_name( &q->m_Head.ptr->m_pNext, sizeof( q->m_Head.ptr->m_pNext ), "n0" );
    }
};

// ---------------------------------------------------------------- intrusive containers (client owns the nodes)

template <class GC>
struct ms_kind {
    struct item : ci::msqueue::node<GC> { long v = 0; bool disposed = false; };
    struct disp { void operator()( item* p ) const { p->disposed = true; } };      // must not free: the client owns the node
    struct traits : ci::msqueue::traits {
        typedef ci::msqueue::base_hook< cds::opt::gc<GC> > hook;
        typedef disp disposer;
    };
    typedef ci::MSQueue<GC, item, traits> queue;
};
template <class GC>
struct moir_kind {
    typedef typename ms_kind<GC>::item item;
    typedef ci::MoirQueue<GC, item, typename ms_kind<GC>::traits> queue;
};
template <class GC>
struct basket_kind {
    struct item : ci::basket_queue::node<GC> { long v = 0; bool disposed = false; };
    struct disp { void operator()( item* p ) const { p->disposed = true; } };
    struct traits : ci::basket_queue::traits {
        typedef ci::basket_queue::base_hook< cds::opt::gc<GC> > hook;
        typedef disp disposer;
    };
    typedef ci::BasketQueue<GC, item, traits> queue;
};
template <class GC>
struct optimistic_kind {
    struct item : ci::optimistic_queue::node<GC> { long v = 0; bool disposed = false; };
    struct disp { void operator()( item* p ) const { p->disposed = true; } };
    struct traits : ci::optimistic_queue::traits {
        typedef ci::optimistic_queue::base_hook< cds::opt::gc<GC> > hook;
        typedef disp disposer;
    };
    typedef ci::OptimisticQueue<GC, item, traits> queue;
};

template <class GC, class K>
struct IntrusiveQ : IQueue {
    typedef typename K::item item;
    typedef typename K::queue queue_t;
    std::unique_ptr<queue_t> q;
    std::vector<std::unique_ptr<item>> items;       // every node ever enqueued; a node is used for one enqueue only
    IntrusiveQ() : q( new queue_t ) {}
    ~IntrusiveQ() { shutdown( nullptr ); }
    size_t named = 0;               // nodes are named n1, n2, … in the order in which enqueues are INVOKED after the warm-up:
                                    // the order in which the Lean machine Algo/MSQueue allocates node ids (tie A); the dummy is n0
    bool enq( long v ) override
    {
        set_quiet( true );          // constructing the client's node is not part of enqueue()
        item* p = new item;
        set_quiet( false );
        p->v = v;
        items.emplace_back( p );
        if ( name_nodes ) {
            char nm[32];
            std::snprintf( nm, sizeof nm, "n%zu", ++named );
            reg_name( &p->m_pNext, sizeof( p->m_pNext ), nm );
        }
        return q->enqueue( *p );
    }
    bool name_nodes = false;
    void start_naming() override
    {
        // called after the warm-up: whatever node is the dummy now is n0; head and tail get their names
        name_nodes = true;
        named = 0;
        reg_name( &q->m_pHead, sizeof( q->m_pHead ), "head" );
        reg_name( &q->m_pTail, sizeof( q->m_pTail ), "tail" );
        auto d = q->m_pHead.load();
        reg_name( &d->m_pNext, sizeof( d->m_pNext ), "n0" );
    }
    bool deq( long& v ) override
    {
        item* p = q->dequeue();
        if ( !p ) return false;
        v = p->v;
        return true;
    }
    void shutdown( std::ostream* out ) override
    {
        if ( !q )
            return;
        while ( q->dequeue()) {}
        q.reset();
        GC::force_dispose();
        // After the queue is gone and the main thread has scanned, every node must have passed
        // through the disposer.  A node that has not is still referenced from some retired list:
        // leak it instead of freeing memory the SMR may still touch.
        size_t undisposed = 0;
        for ( auto& p : items )
            if ( !p->disposed ) { ++undisposed; p.release(); }
        if ( undisposed && out )
            *out << "# undisposed=" << undisposed << '\n';
        items.clear();
    }
};

// Hidden variant `ioptimistic_named` (tie A, Lean machine Algo/Optimistic): as ioptimistic_hp, and the second link of
// every node is named too: n<k> is node k's m_pNext (and the node itself: m_pNext is its first member), p<k> its m_pPrev.
struct OptimisticNamed : IntrusiveQ< cds::gc::HP, optimistic_kind<cds::gc::HP> > {
    typedef IntrusiveQ< cds::gc::HP, optimistic_kind<cds::gc::HP> > base;
    bool enq( long v ) override
    {
        set_quiet( true );
        item* p = new item;
        set_quiet( false );
        p->v = v;
        items.emplace_back( p );
        if ( name_nodes ) {
            char nm[32];
            std::snprintf( nm, sizeof nm, "n%zu", ++named );
            reg_name( &p->m_pNext, sizeof( p->m_pNext ), nm );
            nm[0] = 'p';
            reg_name( &p->m_pPrev, sizeof( p->m_pPrev ), nm );
        }
        return q->enqueue( *p );
    }
    void start_naming() override
    {
        base::start_naming();
        auto d = q->m_pHead.load();
        reg_name( &d->m_pPrev, sizeof( d->m_pPrev ), "p0" );
    }
};

// Hidden variant `ibasket_named` (tie A, Lean machine Algo/Basket): as ibasket_hp, but the nodes the warm-up has left in
// the list are named too.  BasketQueue::dequeue only marks links; after a warm-up of k enq/deq pairs the list is
// dummy -> w1 -> … -> wk (all links marked), head = dummy, tail = wk: they are n0, n1, …, nk, new nodes continue with n<k+1>.
struct BasketNamed : IntrusiveQ< cds::gc::HP, basket_kind<cds::gc::HP> > {
    typedef IntrusiveQ< cds::gc::HP, basket_kind<cds::gc::HP> > base;
    void start_naming() override
    {
        base::start_naming();
        auto p = q->m_pHead.load().ptr()->m_pNext.load().ptr();
        while ( p ) {
            char nm[32];
            std::snprintf( nm, sizeof nm, "n%zu", ++named );
            reg_name( &p->m_pNext, sizeof( p->m_pNext ), nm );
            p = p->m_pNext.load().ptr();
        }
    }
};

template <bool Elim>
struct IntrusiveFCQueueV : IQueue {
    struct item : boost::intrusive::list_base_hook<> { long v = 0; };
    struct traits : ci::fcqueue::traits {
        static constexpr bool const enable_elimination = Elim;
        typedef cds::algo::flat_combining::wait_strategy::backoff<> wait_strategy;
        typedef cds::sync::spin lock_type;
        typedef fcwatch::alloc<int> allocator;
    };
    typedef ci::FCQueue<item, boost::intrusive::list<item>, traits> queue_t;
    std::unique_ptr<queue_t> q;
    std::vector<std::unique_ptr<item>> items;
    IntrusiveFCQueueV( unsigned compact, unsigned pass ) : q( new queue_t( compact, pass )) { fcwatch::watch( &q->m_FlatCombining ); }
    ~IntrusiveFCQueueV()
    {
        fcwatch::unwatch();
        q->clear();        // unlink (no disposer call) before the nodes are freed
        q.reset();
        fcwatch::release();
    }
    void thread_exit() override { q->m_FlatCombining.m_pThreadRec.reset(); }
    bool enq( long v ) override
    {
        item* p = new item;
        p->v = v;
        items.emplace_back( p );
        return q->enqueue( *p );
    }
    bool deq( long& v ) override
    {
        item* p = q->dequeue();
        if ( !p ) return false;
        v = p->v;
        return true;
    }
};

// ---------------------------------------------------------------- fixture

struct Fixture {
    static char const* family() { return "queue"; }
    static std::vector<std::string> variants()
    {
        return { "msqueue_hp", "msqueue_dhp", "msqueue_hp_ic", "msqueue_hp_sc",
                 "moir_hp", "moir_dhp", "basket_hp", "basket_dhp", "optimistic_hp", "optimistic_dhp",
                 "rwqueue", "fcqueue", "fcqueue_elim", "ifcqueue", "ifcqueue_elim",
                 "imsqueue_hp", "imoir_hp", "ibasket_hp", "ioptimistic_hp",
                 "imsqueue_dhp", "ibasket_dhp", "ioptimistic_dhp" };
    }
    std::unique_ptr<IQueue> s;
    bool failed = false;
    std::string failure;
    long balance = 0;       // successful enq - successful deq of the scheduled program
    bool fc = false, tls_in_baton = true, drain = true;

    explicit Fixture( Case const& c )
    {
        typedef cds::gc::HP HP;
        typedef cds::gc::DHP DHP;
        drain = c.optl( "drain", 1 ) != 0;
        unsigned compact = 1 + unsigned( c.index % 2 ), pass = 1 + unsigned( c.index % 4 );
        std::string const& v = c.variant;
        tls_in_baton = c.optl( "fc_tls_in_baton", 1 ) != 0;
        if ( v == "msqueue_hp" ) s.reset( new ValueQ< cc::MSQueue<HP, long, ms_traits> > );
        else if ( v == "msqueue_dhp" ) s.reset( new ValueQ< cc::MSQueue<DHP, long, ms_traits> > );
        else if ( v == "msqueue_hp_ic" ) s.reset( new ValueQ< cc::MSQueue<HP, long, ms_ic_traits> >( true ));
        else if ( v == "msqueue_hp_sc" ) s.reset( new ValueQ< cc::MSQueue<HP, long, ms_sc_traits> > );
        else if ( v == "moir_hp" ) s.reset( new ValueQ< cc::MoirQueue<HP, long, ms_traits> > );
        else if ( v == "moir_dhp" ) s.reset( new ValueQ< cc::MoirQueue<DHP, long, ms_traits> > );
        else if ( v == "basket_hp" ) s.reset( new ValueQ< cc::BasketQueue<HP, long, bq_traits> > );
        else if ( v == "basket_dhp" ) s.reset( new ValueQ< cc::BasketQueue<DHP, long, bq_traits> > );
        else if ( v == "optimistic_hp" ) s.reset( new ValueQ< cc::OptimisticQueue<HP, long, oq_traits> > );
        else if ( v == "optimistic_dhp" ) s.reset( new ValueQ< cc::OptimisticQueue<DHP, long, oq_traits> > );
        else if ( v == "rwqueue" ) s.reset( new ValueQ< cc::RWQueue<long, rw_traits> > );
        else if ( v == "rwqueue_named" ) s.reset( new RWQueueNamed );      // hidden: tie A for Algo/RWQueue
        else if ( v == "fcqueue" ) { s.reset( new FCQueueV<false>( compact, pass )); fc = true; }
        else if ( v == "fcqueue_elim" ) { s.reset( new FCQueueV<true>( compact, pass )); fc = true; }
        else if ( v == "ifcqueue" ) { s.reset( new IntrusiveFCQueueV<false>( compact, pass )); fc = true; }
        else if ( v == "ifcqueue_elim" ) { s.reset( new IntrusiveFCQueueV<true>( compact, pass )); fc = true; }
        else if ( v == "imsqueue_hp" ) s.reset( new IntrusiveQ< HP, ms_kind<HP> > );
        else if ( v == "imoir_hp" ) s.reset( new IntrusiveQ< HP, moir_kind<HP> > );
        else if ( v == "ibasket_hp" ) s.reset( new IntrusiveQ< HP, basket_kind<HP> > );
        else if ( v == "ioptimistic_hp" ) s.reset( new IntrusiveQ< HP, optimistic_kind<HP> > );
        else if ( v == "ioptimistic_named" ) s.reset( new OptimisticNamed );      // hidden: tie A for Algo/Optimistic
        else if ( v == "ibasket_named" ) s.reset( new BasketNamed );      // hidden: tie A for Algo/Basket
        else if ( v == "imsqueue_dhp" ) s.reset( new IntrusiveQ< DHP, ms_kind<DHP> > );
        else if ( v == "ibasket_dhp" ) s.reset( new IntrusiveQ< DHP, basket_kind<DHP> > );
        else if ( v == "ioptimistic_dhp" ) s.reset( new IntrusiveQ< DHP, optimistic_kind<DHP> > );
        else { std::fprintf( stderr, "unknown variant %s\n", v.c_str()); std::exit( 2 ); }

        // Configuration that varies with the case index: the lock-free queues have no constructor
        // parameter, so vary the initial internal state instead: 0..2 items go through the queue
        // before the case starts (the queue is empty again, but its dummy node is then a heap /
        // client node instead of the embedded m_Dummy).  FC queues vary compact factor / pass count.
        if ( !fc ) {
            unsigned warm = unsigned( c.index % 3 );
            for ( unsigned i = 0; i < warm; ++i ) {
                long x = 0;
                s->enq( -long( i ) - 1 );
                if ( !s->deq( x ) || x != -long( i ) - 1 ) { failed = true; failure = "warm-up enq/deq mismatch"; }
            }
        }
        s->start_naming();
    }
    std::string spec() const { return "fifo"; }

    std::vector<std::vector<Op>> program( Rng& r, int nthreads, int nops )
    {
        std::vector<std::vector<Op>> p( nthreads );
        std::vector<int> cnt( nthreads );
        int total = 0;
        for ( int t = 0; t < nthreads; ++t ) { cnt[t] = 1 + int( r.below( nops )); total += cnt[t]; }
        while ( total > 14 ) {      // keep histories small: the checker is exponential in the worst case
            int big = 0;
            for ( int t = 1; t < nthreads; ++t ) if ( cnt[t] > cnt[big] ) big = t;
            --cnt[big]; --total;
        }
        long v = 1;
        unsigned enq_pct = 40 + unsigned( r.below( 30 ));
        for ( int t = 0; t < nthreads; ++t )
            for ( int i = 0; i < cnt[t]; ++i ) {
                if ( r.chance( enq_pct )) p[t].push_back( Op( "enq", v++ ));
                else p[t].push_back( Op( "deq" ));
            }
        return p;
    }
    void thread_begin( int ) { set_quiet( true ); cds::threading::Manager::attachThread(); set_quiet( false ); }
    void thread_end( int )
    {
        if ( tls_in_baton )
            s->thread_exit();
        set_quiet( true ); cds::threading::Manager::detachThread(); set_quiet( false );
    }
    std::vector<long> exec( int, Op const& op )
    {
        if ( op.name == "enq" ) {
            bool ok = s->enq( op.args[0] );
            if ( ok ) ++balance;        // threads are serialised and this is not a scheduling point
            return { ok ? 1L : 0L };
        }
        long v = 0;
        if ( s->deq( v )) { --balance; return { 1, v }; }
        return { 0 };
    }
    void finish( std::ostream& out )
    {
        long sz = s->size();
        if ( sz >= 0 && sz != balance ) {
            failed = true;
            std::ostringstream os;
            os << "item counter " << sz << " != successful enq - deq = " << balance;
            failure = os.str();
        }
        if ( fc && fcwatch::freed_linked ) {
            failed = true;
            std::ostringstream os;
            os << "flat combining: " << fcwatch::freed_linked << " publication record(s) freed while still linked in the publication list";
            failure = os.str();
        }
        // sequential drain by the main thread after every scheduled operation: a lost or duplicated item becomes visible
        // in the history even when the program itself dequeues too little (`--drain 0` switches it off)
        if ( drain ) {
            uint64_t t = 1000000;
            for ( int guard = 0; guard < 64; ++guard ) {
                long v = 0;
                bool ok = s->deq( v );
                out << "O 91 " << t << ' ' << t + 1 << " deq :";
                if ( ok ) out << " 1 " << v << '\n'; else out << " 0\n";
                t += 2;
                if ( !ok ) break;
            }
        }
        s->shutdown( &out );
    }
};

int main( int argc, char** argv )
{
    cds::Initialize();
    {
        cds::gc::HP hp( 8, 16 );
        cds::gc::DHP dhp;
        cds::threading::Manager::attachThread();
        int rc = client_main<Fixture>( argc, argv );
        cds::threading::Manager::detachThread();
        (void) rc;
    }
    cds::Terminate();
    return 0;
}

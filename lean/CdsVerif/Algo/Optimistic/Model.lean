/-
  Atomic-step model of `cds::intrusive::OptimisticQueue` (cds/intrusive/optimistic_queue.h; Ladan-Mozes & Shavit,
  "An optimistic approach to lock-free FIFO queues").  Doubly linked: `m_pNext` points towards the HEAD (to the node
  enqueued just before), `m_pPrev` towards the TAIL; `m_pPrev` is written optimistically (a plain store after the CAS
  on `m_pTail`) and repaired by `fix_list` when a dequeuer finds it missing or wrong.

    OptimisticQueue(): m_pTail = m_pHead = &m_Dummy

    enqueue( val ):
        pNew = node of val
        while ( true ) {
            pTail = guards.protect( 0, m_pTail )   -- gc::GuardArray::protect: do { p = load; hp := p } while ( p != load )
                                                                                              -- enqLd1, enqLd2
            pNew->m_pNext.store( pTail )                                                      -- enqSetNext
            if ( m_pTail.compare_exchange_strong( pTail, pNew )) {                            -- enqCas
                pTail->m_pPrev.store( pNew )                                                  -- enqSetPrev
                break;
            }
            back-off
        }
        return true;

    do_dequeue():
        while ( true ) {
            pHead = guards.protect( 0, m_pHead )                                              -- deqLdH1, deqLdH2
            pTail = guards.protect( 1, m_pTail )                                              -- deqLdT1, deqLdT2
            pFirstNodePrev = guards.protect( 2, pHead->m_pPrev )                              -- deqPv1, deqPv2
            if ( pHead == m_pHead.load() ) {                                                  -- deqChk
                if ( pTail != pHead ) {
                    if ( pFirstNodePrev == nullptr
                      || pFirstNodePrev->m_pNext.load() != pHead )                            -- deqFpNext
                    {
                        fix_list( pTail, pHead );
                        continue;
                    }
                    if ( m_pHead.compare_exchange_weak( pHead, pFirstNodePrev )) break;       -- deqCas
                }
                else
                    return false;                  -- (local; decided in the deqChk step)
            }
            back-off
        }
        return pFirstNodePrev (the value stored in that node)

    fix_list( pTail, pHead ):
        pCurNode = pTail;
        while ( pCurNode != pHead ) {
            pCurNodeNext = guards.protect( 0, pCurNode->m_pNext )                             -- fixNx1, fixNx2
            if ( pHead != m_pHead.load() ) break;                                             -- fixChk
            pCurNodeNext->m_pPrev.store( pCurNode )                                           -- fixSt
            pCurNode = pCurNodeNext
        }

  If `pCurNodeNext` were null in `fixSt` the real code would dereference a null pointer; the model goes to the dead
  program point `crash` there (`Props/C06Optimistic.lean`, `C06_optimistic_no_crash`: it is unreachable).

  Memory model of the model: garbage-collected heap, as in `Algo/MSQueue/Model.lean` (node 0 is `m_Dummy`; client
  nodes are fresh and never reused — what the hazard pointers provide, an ASSUMPTION here; hazard-pointer stores,
  the disposer's `clear_links`, item counter, statistics, back-off are not modelled; `compare_exchange_weak` never
  fails spuriously).

  Events (the `A` lines of the harness trace, hidden variant `ioptimistic_named` of the queue client):
      ld head n<a> / ld tail n<a>          loads of m_pHead / m_pTail
      ld n<a> <ptr>  / st n<a> n<b>        node a's m_pNext
      ld p<a> <ptr>  / st p<a> n<b>        node a's m_pPrev
      cas+ tail n<old> n<new>,  cas- tail n<seen> n<expected>      (head likewise)
-/
import CdsVerif.Base.Machine
namespace CdsVerif.Algo.Optimistic
open CdsVerif.Machine CdsVerif.Spec

inductive PC
  | idle
  | enqLd1 (n : Nat)                                   -- next: first load of protect( m_pTail )
  | enqLd2 (n : Nat) (p : Nat)                         -- next: validating load of protect( m_pTail )
  | enqSetNext (n : Nat) (t : Nat)                     -- next: pNew->m_pNext.store( pTail )
  | enqCas (n : Nat) (t : Nat)                         -- next: CAS( m_pTail, pTail, pNew )
  | enqSetPrev (n : Nat) (t : Nat)                     -- next: pTail->m_pPrev.store( pNew ); then return [1]
  | deqLdH1                                            -- next: first load of protect( m_pHead )
  | deqLdH2 (p : Nat)                                  -- next: validating load of protect( m_pHead )
  | deqLdT1 (h : Nat)                                  -- next: first load of protect( m_pTail )
  | deqLdT2 (h : Nat) (p : Nat)                        -- next: validating load of protect( m_pTail )
  | deqPv1 (h t : Nat)                                 -- next: first load of protect( pHead->m_pPrev )
  | deqPv2 (h t : Nat) (p : Option Nat)                -- next: validating load of protect( pHead->m_pPrev )
  | deqChk (h t : Nat) (fp : Option Nat)               -- next: pHead == m_pHead.load() ?
  | deqFpNext (h t f : Nat)                            -- next: pFirstNodePrev->m_pNext.load() != pHead ?
  | deqCas (h f : Nat)                                 -- next: CAS( m_pHead, pHead, pFirstNodePrev )
  | fixNx1 (h c : Nat)                                 -- fix_list: next: first load of protect( pCurNode->m_pNext )
  | fixNx2 (h c : Nat) (v : Option Nat)                -- fix_list: next: validating load
  | fixChk (h c : Nat) (v : Option Nat)                -- fix_list: next: pHead != m_pHead.load() ?
  | fixSt (h c nx : Nat)                               -- fix_list: next: pCurNodeNext->m_pPrev.store( pCurNode )
  | crash                                              -- null dereference in fix_list (dead)
  | done (r : GRet)
deriving DecidableEq, Repr

structure St where
  head : Nat
  tail : Nat
  next : Nat → Option Nat        -- m_pNext of every node
  prev : Nat → Option Nat        -- m_pPrev of every node
  val : Nat → Int
  cnt : Nat
  pc : Tid → PC

def dummy : Nat := 0

def init : St := ⟨dummy, dummy, fun _ => none, fun _ => none, fun _ => 0, 1, fun _ => .idle⟩

/-! ### Event rendering -/

def ptr : Option Nat → String
  | none => "null"
  | some a => s!"n{a}"
def nloc (a : Nat) : String := s!"n{a}"
def ploc (a : Nat) : String := s!"p{a}"
def headLoc : String := "head"
def tailLoc : String := "tail"

def evLd (loc : String) (v : Option Nat) : Ev := ⟨"ld", loc, ptr v, ""⟩
def evSt (loc : String) (v : Option Nat) : Ev := ⟨"st", loc, ptr v, ""⟩
def evCasOk (loc : String) (old new : Option Nat) : Ev := ⟨"cas+", loc, ptr old, ptr new⟩
def evCasFail (loc : String) (seen expected : Option Nat) : Ev := ⟨"cas-", loc, ptr seen, ptr expected⟩

/-! ### Transitions -/

def invoke (s : St) (t : Tid) (op : GOp) : Option St :=
  match s.pc t, op.name, op.args with
  | .idle, "enq", [v] =>
    some { s with val := upd s.val s.cnt v, cnt := s.cnt + 1, pc := upd s.pc t (.enqLd1 s.cnt) }
  | .idle, "deq", [] => some { s with pc := upd s.pc t .deqLdH1 }
  | _, _, _ => none

def step (s : St) (t : Tid) : Option (St × Ev) :=
  match s.pc t with
  | .enqLd1 n => some ({ s with pc := upd s.pc t (.enqLd2 n s.tail) }, evLd tailLoc (some s.tail))
  | .enqLd2 n p =>
    if s.tail = p then some ({ s with pc := upd s.pc t (.enqSetNext n p) }, evLd tailLoc (some p))
    else some ({ s with pc := upd s.pc t (.enqLd1 n) }, evLd tailLoc (some s.tail))
  | .enqSetNext n a =>
    some ({ s with next := upd s.next n (some a), pc := upd s.pc t (.enqCas n a) }, evSt (nloc n) (some a))
  | .enqCas n a =>
    if s.tail = a then
      some ({ s with tail := n, pc := upd s.pc t (.enqSetPrev n a) }, evCasOk tailLoc (some a) (some n))
    else
      some ({ s with pc := upd s.pc t (.enqLd1 n) }, evCasFail tailLoc (some s.tail) (some a))
  | .enqSetPrev n a =>
    some ({ s with prev := upd s.prev a (some n), pc := upd s.pc t (.done [1]) }, evSt (ploc a) (some n))
  | .deqLdH1 => some ({ s with pc := upd s.pc t (.deqLdH2 s.head) }, evLd headLoc (some s.head))
  | .deqLdH2 p =>
    if s.head = p then some ({ s with pc := upd s.pc t (.deqLdT1 p) }, evLd headLoc (some p))
    else some ({ s with pc := upd s.pc t .deqLdH1 }, evLd headLoc (some s.head))
  | .deqLdT1 h => some ({ s with pc := upd s.pc t (.deqLdT2 h s.tail) }, evLd tailLoc (some s.tail))
  | .deqLdT2 h p =>
    if s.tail = p then some ({ s with pc := upd s.pc t (.deqPv1 h p) }, evLd tailLoc (some p))
    else some ({ s with pc := upd s.pc t (.deqLdT1 h) }, evLd tailLoc (some s.tail))
  | .deqPv1 h a => some ({ s with pc := upd s.pc t (.deqPv2 h a (s.prev h)) }, evLd (ploc h) (s.prev h))
  | .deqPv2 h a p =>
    if s.prev h = p then some ({ s with pc := upd s.pc t (.deqChk h a p) }, evLd (ploc h) p)
    else some ({ s with pc := upd s.pc t (.deqPv1 h a) }, evLd (ploc h) (s.prev h))
  | .deqChk h a fp =>
    if s.head = h then
      if a = h then some ({ s with pc := upd s.pc t (.done [0]) }, evLd headLoc (some h))
      else match fp with
        | none => some ({ s with pc := upd s.pc t (.fixNx1 h a) }, evLd headLoc (some h))
        | some f => some ({ s with pc := upd s.pc t (.deqFpNext h a f) }, evLd headLoc (some h))
    else
      some ({ s with pc := upd s.pc t .deqLdH1 }, evLd headLoc (some s.head))
  | .deqFpNext h a f =>
    if s.next f = some h then some ({ s with pc := upd s.pc t (.deqCas h f) }, evLd (nloc f) (some h))
    else some ({ s with pc := upd s.pc t (.fixNx1 h a) }, evLd (nloc f) (s.next f))
  | .deqCas h f =>
    if s.head = h then
      some ({ s with head := f, pc := upd s.pc t (.done [1, s.val f]) }, evCasOk headLoc (some h) (some f))
    else
      some ({ s with pc := upd s.pc t .deqLdH1 }, evCasFail headLoc (some s.head) (some h))
  | .fixNx1 h c => some ({ s with pc := upd s.pc t (.fixNx2 h c (s.next c)) }, evLd (nloc c) (s.next c))
  | .fixNx2 h c v =>
    if s.next c = v then some ({ s with pc := upd s.pc t (.fixChk h c v) }, evLd (nloc c) v)
    else some ({ s with pc := upd s.pc t (.fixNx1 h c) }, evLd (nloc c) (s.next c))
  | .fixChk h c v =>
    if s.head = h then
      match v with
      | some nx => some ({ s with pc := upd s.pc t (.fixSt h c nx) }, evLd headLoc (some h))
      | none => some ({ s with pc := upd s.pc t .crash }, evLd headLoc (some h))
    else
      some ({ s with pc := upd s.pc t .deqLdH1 }, evLd headLoc (some s.head))
  | .fixSt h c nx =>
    some ({ s with prev := upd s.prev nx (some c), pc := upd s.pc t (if nx = h then .deqLdH1 else .fixNx1 h nx) },
          evSt (ploc nx) (some c))
  | _ => none

def result (s : St) (t : Tid) : Option (St × GRet) :=
  match s.pc t with
  | .done r => some ({ s with pc := upd s.pc t .idle }, r)
  | _ => none

def model : Model St := ⟨invoke, step, result⟩

end CdsVerif.Algo.Optimistic

// C04 / C05: user-space RCU at the API level.  Shared cells hold objects; readers enter (possibly nested)
// read-side critical sections, load a cell and dereference; writers exchange a cell's object and retire the
// old one, or call synchronize().  Oracles (evaluated on the real execution; threads are serialised):
//   * at every disposer call for object p: no thread may be inside a critical section whose OUTERMOST
//     access_lock() completed before retire_ptr( p ) was invoked (C04);
//   * when synchronize() returns: every critical section that was open when it was invoked has ended (C04);
//   * a pointer read inside a critical section is never disposed while that section lasts (deref check);
//   * every object is disposed at most once, only after it was retired; after destruction of the singleton
//     every retired object has been disposed exactly once (C05).
//
// Tie A (`--tie 1`): the same client produces traces that the Lean machine Algo/RCU replays step by step
// (tools/rcu_pre.py translates them into the machine's vocabulary).  Differences of that mode, none of which touches
// the oracles above:
//   * every thread attaches to the singleton before the first scheduled step and detaches after the last one
//     (thread_attach / thread_detach), so that the thread list is the fixed set the machine assumes; `REC <i>` notes
//     say that the thread's record is the i-th one visited by flip_and_wait (the machine's thread i, location ctl<i>);
//   * the buffer of general_buffered is a TracingBuffer: the real VyukovMPMCCycleQueue (judged by C07) runs quietly and
//     every call is ONE pseudo-event `push buf o<id> 1|0`, `pop buf o<id> 1` / `pop buf - 0`, `ld buf.size <n>`;
//     the queue counts its items unless `--counted 0` (the library's default queue: size() is always 0);
//   * the disposer is the pseudo-event `dispose obj o<id>`; `RETIRE o<id>` marks where retire_ptr begins inside `swap`;
//     the destruction of the singleton in finish() is bracketed by `CALL destruct` / `RET` (thread -1: main);
//   * the locations gctl (m_nGlobalControl), lock (m_Lock), epoch (m_nCurEpoch), ctl<i> (m_nAccessControl) are named;
//   * programs contain no swap2 (batch_retire is not an operation of the machine).
#include <cds/init.h>
#include <cds/urcu/general_instant.h>
#include <cds/urcu/general_buffered.h>
#include <cds/sync/spinlock.h>
#include <cds/container/vyukov_mpmc_cycle_queue.h>
#include <memory>
#include "../client.h"

using namespace khizmax_libcds_verif;

static const int MAXT = 8, MAXC = 4;

struct Obj { int id; int disposed; uint64_t retired_at; };      // retired_at: clock value when retire_ptr was invoked (0 = not retired)

struct World {
    std::vector<std::unique_ptr<Obj>> objs;
    atomics::atomic<Obj*> cells[MAXC];
    int depth[MAXT];                 // nesting depth of thread's critical section
    uint64_t entered[MAXT];          // clock value when the outermost access_lock returned
    uint64_t section[MAXT];          // id of the current outermost section (0 = none)
    uint64_t next_section = 0;
    Obj* seen[MAXT][MAXC];           // pointers read inside the current section
    bool failed = false;
    std::string failure;
    void fail( std::string const& s ) { if ( !failed ) { failed = true; failure = s; } }
    Obj* make()
    {
        objs.emplace_back( new Obj{ int( objs.size()) + 1, 0, 0 } );
        char nm[16]; std::snprintf( nm, sizeof nm, "o%d", objs.back()->id );
        reg_name( objs.back().get(), sizeof( Obj ), nm );
        return objs.back().get();
    }
};
static World* W = nullptr;
static bool g_tie = false;       // tie-A mode (see the header comment)

static void dispose_obj( void* v )
{
    Obj* p = static_cast<Obj*>( v );
    if ( g_tie ) pseudo_begin();
    if ( ++p->disposed > 1 ) W->fail( "disposed-twice obj=" + std::to_string( p->id ));
    if ( !p->retired_at ) W->fail( "disposed-but-never-retired obj=" + std::to_string( p->id ));
    for ( int t = 0; t < MAXT; ++t ) {
        if ( W->depth[t] > 0 && W->entered[t] < p->retired_at )
            W->fail( "disposed-under-preexisting-reader obj=" + std::to_string( p->id ) + " reader=" + std::to_string( t ));
        for ( int c = 0; c < MAXC; ++c )
            if ( W->depth[t] > 0 && W->seen[t][c] == p )
                W->fail( "disposed-while-referenced-in-section obj=" + std::to_string( p->id ) + " reader=" + std::to_string( t ));
    }
    if ( g_tie ) pseudo_end( "dispose", "obj", name_of( p ));
}

struct IRcu {
    virtual ~IRcu() {}
    virtual void lock() = 0;
    virtual void unlock() = 0;
    virtual void retire( Obj* p ) = 0;
    virtual void batch( std::vector<Obj*> const& v ) = 0;
    virtual void sync() = 0;
    virtual void destroy() = 0;
    virtual int my_index() = 0;             // position of the calling thread's record in the order flip_and_wait visits them
    virtual void name_locations() = 0;      // gctl, lock, (epoch)
    virtual size_t buffer_capacity() = 0;   // physical capacity of the buffer (0: no buffer)
};

template <class Impl> void name_epoch( Impl* p, decltype( &Impl::m_nCurEpoch )) { reg_name( &p->m_nCurEpoch, sizeof( p->m_nCurEpoch ), "epoch" ); }
template <class Impl> void name_epoch( Impl*, ... ) {}
template <class Impl> size_t bufcap_of( Impl* p, decltype( &Impl::m_Buffer )) { return p->m_Buffer.capacity(); }
template <class Impl> size_t bufcap_of( Impl*, ... ) { return 0; }

template <class RCU>
struct RcuT : IRcu {
    std::unique_ptr<RCU> rcu;
    void lock() override { RCU::access_lock(); }
    void unlock() override { RCU::access_unlock(); }
    void retire( Obj* p ) override { RCU::retire_ptr( p, dispose_obj ); }
    void batch( std::vector<Obj*> const& v ) override
    {
        std::vector<cds::urcu::retired_ptr> rp;
        for ( Obj* p : v ) rp.push_back( cds::urcu::retired_ptr( p, dispose_obj ));
        RCU::batch_retire( rp.begin(), rp.end());
    }
    void sync() override { RCU::synchronize(); }
    void destroy() override { rcu.reset(); }
    typedef typename RCU::rcu_implementation impl;
    int my_index() override
    {
        auto* mine = cds::threading::getRCU<typename RCU::rcu_tag>();
        int i = 0;
        for ( auto* r = impl::instance()->m_ThreadList.head( atomics::memory_order_relaxed ); r; r = r->m_list.next_, ++i )
            if ( r == mine ) return i;
        return -1;
    }
    void name_locations() override
    {
        impl* p = impl::instance();
        reg_name( &p->m_nGlobalControl, sizeof( p->m_nGlobalControl ), "gctl" );
        reg_name( &p->m_Lock, sizeof( p->m_Lock ), "lock" );
        name_epoch( p, nullptr );
    }
    size_t buffer_capacity() override { return bufcap_of( impl::instance(), nullptr ); }
};

typedef cds::container::VyukovMPMCCycleQueue< cds::urcu::epoch_retired_ptr > rcu_buffer;

// the same queue with item counting: size() is the number of items (with the default traits size() is always 0, so
// that push_buffer's test `m_Buffer.size() >= capacity()` never fires and only a full buffer triggers synchronize)
struct counted_traits : cds::container::vyukov_queue::traits { typedef cds::atomicity::item_counter item_counter; };
typedef cds::container::VyukovMPMCCycleQueue< cds::urcu::epoch_retired_ptr, counted_traits > rcu_buffer_counted;

// Buffer parameter of general_buffered in tie-A mode: the real queue, every call one atomic pseudo-event
template <class Queue>
struct TracingBuffer {
    typedef cds::urcu::epoch_retired_ptr value_type;
    mutable Queue q;
    explicit TracingBuffer( size_t n ) : q( n ) {}
    bool push( value_type const& v )
    {
        pseudo_begin();
        set_quiet( true ); bool ok = q.push( v ); set_quiet( false );
        pseudo_end( "push", "buf", name_of( v.m_p ), ok ? "1" : "0" );
        return ok;
    }
    bool pop( value_type& v )
    {
        pseudo_begin();
        set_quiet( true ); bool ok = q.pop( v ); set_quiet( false );
        pseudo_end( "pop", "buf", ok ? name_of( v.m_p ) : std::string( "-" ), ok ? "1" : "0" );
        return ok;
    }
    size_t size() const
    {
        pseudo_begin();
        set_quiet( true ); size_t n = q.size(); set_quiet( false );
        pseudo_end( "ld", "buf.size", std::to_string( n ));
        return n;
    }
    size_t capacity() const { return q.capacity(); }
};
typedef cds::urcu::gc< cds::urcu::general_instant< cds::sync::spin > > rcu_gpi;
typedef cds::urcu::gc< cds::urcu::general_buffered< rcu_buffer, cds::sync::spin > > rcu_gpb;
typedef cds::urcu::gc< cds::urcu::general_buffered< TracingBuffer<rcu_buffer>, cds::sync::spin > > rcu_gpb_tie;   // same singleton slot (general_buffered_tag)
typedef cds::urcu::gc< cds::urcu::general_buffered< TracingBuffer<rcu_buffer_counted>, cds::sync::spin > > rcu_gpb_tiec;

struct Gpi : RcuT<rcu_gpi> { Gpi() { rcu.reset( new rcu_gpi ); } };
struct Gpb : RcuT<rcu_gpb> { explicit Gpb( size_t cap ) { rcu.reset( new rcu_gpb( cap )); } };
struct GpbTie : RcuT<rcu_gpb_tie> { explicit GpbTie( size_t cap ) { rcu.reset( new rcu_gpb_tie( cap )); } };
struct GpbTieC : RcuT<rcu_gpb_tiec> { explicit GpbTieC( size_t cap ) { rcu.reset( new rcu_gpb_tiec( cap )); } };

struct Fixture {
    static char const* family() { return "rcu"; }
    static std::vector<std::string> variants() { return { "gpi", "gpb" }; }
    std::unique_ptr<World> world;
    std::unique_ptr<IRcu> rcu;
    std::string variant;
    int ncells = 2;
    size_t cap = 0;
    bool tie = false;
    bool counted = true;             // tie-A mode: the buffer counts its items (`--counted 0`: the library's default queue, size() == 0)
    int nthreads = 0;
    bool failed = false;
    std::string failure;

    explicit Fixture( Case const& c ) : variant( c.variant )
    {
        tie = c.optl( "tie", 0 ) != 0;
        g_tie = tie;
        counted = c.optl( "counted", 1 ) != 0;
        nthreads = c.threads;
        world.reset( new World );
        W = world.get();
        std::memset( W->depth, 0, sizeof W->depth );
        std::memset( W->entered, 0, sizeof W->entered );
        std::memset( W->section, 0, sizeof W->section );
        std::memset( W->seen, 0, sizeof W->seen );
        ncells = 1 + int( c.index % 3 );
        static size_t const caps[] = { 2, 4, 2, 8, 4 };
        cap = size_t( c.optl( "cap", long( caps[c.index % 5] )));
        if ( variant == "gpi" ) rcu.reset( new Gpi );
        else if ( tie && counted ) rcu.reset( new GpbTieC( cap ));
        else if ( tie ) rcu.reset( new GpbTie( cap ));
        else rcu.reset( new Gpb( cap ));
        if ( tie ) rcu->name_locations();
        for ( int i = 0; i < ncells; ++i ) {
            W->cells[i].store( W->make());
            char nm[16]; std::snprintf( nm, sizeof nm, "cell%d", i );
            reg_name( &W->cells[i], sizeof( W->cells[i] ), nm );
        }
    }
    ~Fixture() { if ( rcu ) rcu->destroy(); W = nullptr; }
    std::string spec() const { return "none"; }
    // configuration of the Lean machine (Algo/RCU initCfg): cap = threshold passed to the constructor, bufcap = real capacity()
    std::string header_extra() const
    {
        if ( !tie ) return std::string();
        return "flavour=" + variant + " nthreads=" + std::to_string( nthreads ) + " cap=" + std::to_string( variant == "gpi" ? 0 : cap )
             + " bufcap=" + std::to_string( rcu->buffer_capacity()) + " counted=" + ( variant != "gpi" && counted ? "1" : "0" ) + " tie=1";
    }

    // programs keep the API's rules: retire / synchronize only outside a critical section; locks are balanced
    std::vector<std::vector<Op>> program( Rng& r, int nthreads, int nops )
    {
        std::vector<std::vector<Op>> p( nthreads );
        for ( int t = 0; t < nthreads; ++t ) {
            int n = 2 + int( r.below( nops * 2 ));
            int depth = 0;
            bool writer = r.chance( 55 );
            for ( int i = 0; i < n; ++i ) {
                unsigned k = unsigned( r.below( 100 ));
                if ( depth > 0 ) {
                    if ( k < 35 ) p[t].push_back( Op( "read", long( r.below( ncells ))));
                    else if ( k < 55 ) p[t].push_back( Op( "deref", long( r.below( ncells ))));
                    else if ( k < 70 && depth < 3 ) { p[t].push_back( Op( "rlock" )); ++depth; }
                    else { p[t].push_back( Op( "runlock" )); --depth; }
                }
                else if ( writer && k < 50 ) p[t].push_back( Op( "swap", long( r.below( ncells ))));
                else if ( writer && k < 58 ) p[t].push_back( tie ? Op( "swap", long( r.below( ncells ))) : Op( "swap2" ));
                else if ( k < 66 ) p[t].push_back( Op( "sync" ));
                else { p[t].push_back( Op( "rlock" )); ++depth; }
            }
            while ( depth-- > 0 ) p[t].push_back( Op( "runlock" ));
        }
        return p;
    }
    // tie-A mode: all threads are attached for the whole scheduled run (run_case prologue / epilogue: unscheduled, untraced)
    void thread_attach( int ) { if ( tie ) cds::threading::Manager::attachThread(); }
    void thread_detach( int ) { if ( tie ) cds::threading::Manager::detachThread(); }
    void thread_begin( int )
    {
        set_quiet( true );
        if ( !tie ) cds::threading::Manager::attachThread();
        else {
            int i = rcu->my_index();
            auto* rec = variant == "gpi" ? (void*) &cds::threading::getRCU<cds::urcu::general_instant_tag>()->m_nAccessControl
                                         : (void*) &cds::threading::getRCU<cds::urcu::general_buffered_tag>()->m_nAccessControl;
            reg_name( rec, sizeof( uint32_t ), "ctl" + std::to_string( i ));
            ev_note( "REC " + std::to_string( i ));
        }
        set_quiet( false );
    }
    void thread_end( int ) { if ( !tie ) { set_quiet( true ); cds::threading::Manager::detachThread(); set_quiet( false ); } }

    Obj* unlink( int c )
    {
        Obj* n = W->make();
        Obj* old = W->cells[c].exchange( n );
        return old;
    }
    std::vector<long> exec( int t, Op const& op )
    {
        if ( op.name == "rlock" ) {
            rcu->lock();
            if ( W->depth[t]++ == 0 ) { W->entered[t] = tick(); W->section[t] = ++W->next_section; }
            return {};
        }
        if ( op.name == "runlock" ) {
            if ( --W->depth[t] == 0 ) { W->section[t] = 0; for ( int c = 0; c < MAXC; ++c ) W->seen[t][c] = nullptr; }
            rcu->unlock();
            return {};
        }
        if ( op.name == "read" ) {
            int c = int( op.args[0] );
            Obj* p = W->cells[c].load();
            W->seen[t][c] = p;
            if ( p && p->disposed ) W->fail( "read-returned-disposed obj=" + std::to_string( p->id ));
            return { p ? long( p->id ) : 0L };
        }
        if ( op.name == "deref" ) {
            Obj* p = W->seen[t][int( op.args[0] )];
            if ( p && p->disposed ) W->fail( "deref-of-disposed obj=" + std::to_string( p->id ));
            return { p ? long( p->id ) : 0L };
        }
        if ( op.name == "swap" ) {
            Obj* old = unlink( int( op.args[0] ));
            if ( old ) { old->retired_at = tick(); if ( tie ) ev_note( "RETIRE " + name_of( old )); rcu->retire( old ); }
            return { old ? long( old->id ) : 0L };
        }
        if ( op.name == "swap2" ) {          // batch_retire of two unlinked objects
            std::vector<Obj*> v;
            for ( int c = 0; c < ncells && c < 2; ++c ) { Obj* o = unlink( c ); if ( o ) v.push_back( o ); }
            uint64_t now = tick();
            for ( Obj* o : v ) o->retired_at = now;
            rcu->batch( v );
            return { long( v.size()) };
        }
        if ( op.name == "sync" ) {
            uint64_t open[MAXT];
            for ( int u = 0; u < MAXT; ++u ) open[u] = W->section[u];
            rcu->sync();
            for ( int u = 0; u < MAXT; ++u )
                if ( u != t && open[u] && W->section[u] == open[u] )
                    W->fail( "synchronize-returned-while-preexisting-reader-inside reader=" + std::to_string( u ));
            return {};
        }
        return {};
    }
    void finish( std::ostream& out )
    {
        if ( tie ) ev_note( "CALL destruct" );
        rcu->destroy();
        if ( tie ) ev_note( "RET" );
        rcu.reset();
        size_t retired = 0, disposed = 0;
        for ( auto& o : W->objs ) {
            if ( o->retired_at ) ++retired;
            disposed += size_t( o->disposed );
            if ( o->retired_at && o->disposed != 1 ) W->fail( "retired-object-disposed-" + std::to_string( o->disposed ) + "-times obj=" + std::to_string( o->id ));
            if ( !o->retired_at && o->disposed ) W->fail( "unretired-object-disposed obj=" + std::to_string( o->id ));
        }
        out << "# retired=" << retired << " disposed=" << disposed << " cap=" << cap << '\n';
        failed = W->failed; failure = W->failure;
    }
};

int main( int argc, char** argv )
{
    cds::Initialize();
    int rc = client_main<Fixture>( argc, argv );
    cds::Terminate();
    return rc;
}

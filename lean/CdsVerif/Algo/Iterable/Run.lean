/-
  Run-level theorems about the iterator of IterableList (property C19, clauses "complete", "exactly once",
  "ordered"), `erase_at` (clause "exact"), and the consequences of `SInv` used by `Props/C19Iterable.lean`.
-/
import CdsVerif.Algo.Iterable.Iter
namespace CdsVerif.Algo.Iterable
open CdsVerif.Machine CdsVerif.Spec

/-! ### What a transition of one thread does to another thread -/

/-- Thread-local state of `t` is not touched by a step of another thread. -/
structure Untouched (s s' : St) (t : Tid) : Prop where
  pc : s'.pc t = s.pc t
  yl : s'.yl t = s.yl t
  itn : s'.itn t = s.itn t
  hp : s'.hp t = s.hp t
  hv : s'.hv t = s.hv t

set_option maxHeartbeats 4000000 in
theorem step_other {s s' : St} {t' : Tid} {ev : Ev} (hs : step s t' = some (s', ev)) (t : Tid) (hne : t ≠ t') :
    Untouched s s' t := by
  unfold step at hs
  split at hs <;> (try split at hs) <;> (try split at hs) <;> (try split at hs) <;>
    first
    | (simp only [Option.some.injEq, Prod.mk.injEq] at hs
       obtain ⟨rfl, -⟩ := hs
       constructor <;> simp [upd, hne, St.removed])
    | (exfalso; cases hs)

set_option maxHeartbeats 4000000 in
theorem invoke_other {s s' : St} {t' : Tid} {op : GOp} (hs : invoke s t' op = some s') (t : Tid) (hne : t ≠ t') :
    Untouched s s' t := by
  obtain ⟨name, args⟩ := op
  unfold invoke at hs
  split at hs <;> (try split at hs) <;> (try split at hs) <;>
    first
    | (simp only [Option.some.injEq] at hs
       subst hs
       constructor <;> simp [upd, hne])
    | (exfalso; cases hs)

theorem result_other {s s' : St} {t' : Tid} {r : GRet} (hs : result s t' = some (s', r)) (t : Tid) (hne : t ≠ t') :
    Untouched s s' t := by
  unfold result at hs
  split at hs
  · simp only [Option.some.injEq, Prod.mk.injEq] at hs
    obtain ⟨rfl, -⟩ := hs
    constructor <;> simp [upd, hne]
  · cases hs

theorem apply_other {s s' : St} {t' : Tid} {a : Act} {o : Obs} (hs : model.apply s t' a = some (s', o))
    (t : Tid) (hne : t ≠ t') : Untouched s s' t := by
  cases a with
  | invoke op =>
    simp only [Model.apply, model, Option.map_eq_some_iff] at hs
    obtain ⟨s1, hs1, he⟩ := hs
    simp only [Prod.mk.injEq] at he; obtain ⟨rfl, -⟩ := he
    exact invoke_other hs1 t hne
  | step =>
    simp only [Model.apply, model, Option.map_eq_some_iff] at hs
    obtain ⟨⟨s1, ev⟩, hs1, he⟩ := hs
    simp only [Prod.mk.injEq] at he; obtain ⟨rfl, -⟩ := he
    exact step_other hs1 t hne
  | ret =>
    simp only [Model.apply, model, Option.map_eq_some_iff] at hs
    obtain ⟨⟨s1, r⟩, hs1, he⟩ := hs
    simp only [Prod.mk.injEq] at he; obtain ⟨rfl, -⟩ := he
    exact result_other hs1 t hne

/-! ### Candidates are lost only by removal -/

/-- After the removal of `e0` from node `a`, `e0` is not in the list. -/
theorem removed_cand_keep {s : St} (hS : SInv s) {t' : Tid} {a e0 : Nat} {w : DW} {hm' : Nat → Option Nat}
    {pcf : Tid → PC} (hd : s.data a = ⟨some e0, false⟩) (hw : w.p ≠ some e0) {t : Tid} {e : Nat}
    (hc : s.cand t e = true)
    (hin : inList { (s.removed t' e0) with data := upd s.data a w, home := hm', pc := pcf } e = true) :
    ({ (s.removed t' e0) with data := upd s.data a w, home := hm', pc := pcf } : St).cand t e = true := by
  dsimp only [St.removed] at hin ⊢
  by_cases ee : e = e0
  · exfalso
    subst ee
    obtain ⟨b, -, -, hdb⟩ := (inList_iff _ e).1 hin
    dsimp only at hdb
    by_cases eb : b = a
    · subst eb; rw [upd_same] at hdb; exact hw hdb
    · rw [upd_other _ _ _ _ eb] at hdb
      have h1 := hS.elem.ehome b e hdb
      have h2 := hS.elem.ehome a e (by rw [hd])
      rw [h1] at h2; exact eb (Option.some.inj h2)
  · simp [ee, hc]

set_option maxHeartbeats 4000000 in
theorem step_cand_keep {s s' : St} {t' : Tid} {ev : Ev} (hS : SInv s) (hs : step s t' = some (s', ev))
    {t : Tid} {e : Nat} (hc : s.cand t e = true) (hin : inList s' e = true) : s'.cand t e = true := by
  unfold step at hs
  split at hs <;> (try split at hs) <;> (try split at hs) <;> (try split at hs) <;>
    first
    | (simp only [Option.some.injEq, Prod.mk.injEq] at hs
       obtain ⟨rfl, -⟩ := hs
       exact hc)
    | (exfalso; cases hs; done)
    | skip
  · -- eraseCas
    rename_i k cur e0 hpc hd
    simp only [Option.some.injEq, Prod.mk.injEq] at hs
    obtain ⟨rfl, -⟩ := hs
    exact removed_cand_keep (hm' := s.home) hS hd (by simp) hc hin
  · -- updCas
    rename_i j cur e0 hpc hd
    simp only [Option.some.injEq, Prod.mk.injEq] at hs
    obtain ⟨rfl, -⟩ := hs
    have hab := hS.pend_absent (t := t') (e := j.e) (by rw [hpc]; rfl) (by rw [hpc]; rfl) cur
    refine removed_cand_keep hS hd ?_ hc hin
    intro hcc; simp only [Option.some.injEq] at hcc; rw [hd, hcc] at hab; exact hab rfl
  · -- eaCas
    rename_i e0 hpc hd
    simp only [Option.some.injEq, Prod.mk.injEq] at hs
    obtain ⟨rfl, -⟩ := hs
    exact removed_cand_keep (hm' := s.home) hS hd (by simp) hc hin

/-! ### Runs in which a thread performs one iteration -/

/-- The states after each action of a schedule. -/
def runStates (s : St) : List (Tid × Act) → List St
  | [] => []
  | (t, a) :: rest =>
    match model.apply s t a with
    | none => []
    | some (s', _) => s' :: runStates s' rest

/-- The element returned to thread `t` by `iter_begin` / `iter_next`, if this observation is such a return. -/
def yieldOf (t : Tid) : Tid × Obs → Option Nat
  | (t', .ret [1, e]) => if t' = t then some e.toNat else none
  | _ => none

/-- The sequence of elements yielded to thread `t` in a run. -/
def yields (t : Tid) (os : List (Tid × Obs)) : List Nat := os.filterMap (yieldOf t)

def iterOp (name : String) : Bool :=
  name == "iter_next" || name == "iter_end" || name == "erase_at" || name == "iter_release"

/-- In this schedule thread `t` invokes iterator operations only (and no second `iter_begin`). -/
def IterOnly (t : Tid) (sched : List (Tid × Act)) : Prop :=
  ∀ op, (t, Act.invoke op) ∈ sched → iterOp op.name = true

/-- Program counters of a thread that runs iterator operations only. -/
def segPC : PC → Prop
  | .idle => True
  | .itLd1 => True
  | .itHp _ => True
  | .itLd2 _ => True
  | .itNext => True
  | .itClr => True
  | .endLd1 => True
  | .endLd2 _ => True
  | .endNext => True
  | .eaCas _ => True
  | .relClr => True
  | .done r => r = [0] ∨ r = [1] ∨ r = [] ∨ ∃ e : Nat, r = [1, (e : Int)]
  | _ => False

/-- The yield that has been fixed (appended to `yl`) but not yet returned. -/
def pendY : PC → Option Nat
  | .done [1, e] => some e.toNat
  | _ => none

structure Seg (s : St) (t : Tid) : Prop where
  pc : segPC (s.pc t)
  last : ∀ e, pendY (s.pc t) = some e → ∃ l, s.yl t = l ++ [e]

/-- The yields already returned. -/
def returned (s : St) (t : Tid) : List Nat :=
  match pendY (s.pc t) with
  | some _ => (s.yl t).dropLast
  | none => s.yl t

theorem seg_other {s s' : St} {t t' : Tid} {a : Act} {o : Obs} (hs : model.apply s t' a = some (s', o))
    (hne : t ≠ t') (h : Seg s t) : Seg s' t ∧ returned s' t = returned s t := by
  have hu := apply_other hs t hne
  refine ⟨⟨by rw [hu.pc]; exact h.pc, by rw [hu.pc, hu.yl]; exact h.last⟩, ?_⟩
  unfold returned; rw [hu.pc, hu.yl]

theorem yieldOf_other {t t' : Tid} {o : Obs} (hne : t ≠ t') : yieldOf t (t', o) = none := by
  unfold yieldOf
  split
  · rename_i t'' e heq
    simp only [Prod.mk.injEq] at heq
    have : t' ≠ t := fun e => hne e.symm
    rw [← heq.1]; simp [this]
  · rfl

theorem pendY_done_1 (e : Nat) : pendY (.done [1, (e : Int)]) = some e := by simp [pendY]

set_option maxHeartbeats 4000000 in
theorem seg_self_step {s s' : St} {t : Tid} {ev : Ev} (h : Seg s t) (hs : step s t = some (s', ev)) :
    Seg s' t ∧ returned s' t = returned s t := by
  unfold step at hs
  have hp := h.pc
  split at hs <;> (try split at hs) <;> (try split at hs) <;> (try split at hs) <;>
    first
    | (exfalso; simp only [*, segPC] at hp; done)
    | (exfalso; cases hs; done)
    | (simp only [Option.some.injEq, Prod.mk.injEq] at hs
       obtain ⟨rfl, -⟩ := hs
       refine ⟨⟨?_, ?_⟩, ?_⟩ <;> simp [segPC, pendY, returned, upd, St.removed, *] <;> (try exact ⟨_, rfl⟩))
    | skip

set_option maxHeartbeats 4000000 in
theorem seg_self_invoke {s s' : St} {t : Tid} {op : GOp} (_h : Seg s t) (hop : iterOp op.name = true)
    (hs : invoke s t op = some s') :
    Seg s' t ∧ returned s' t = returned s t ∧ s'.cand t = s.cand t := by
  obtain ⟨name, args⟩ := op
  unfold invoke at hs
  split at hs <;> (try split at hs) <;> (try split at hs) <;>
    first
    | (exfalso; cases hs; done)
    | (exfalso; rename_i hname _; dsimp only at hname; subst hname; simp [iterOp] at hop; done)
    | (exfalso; rename_i hname _ _; dsimp only at hname; subst hname; simp [iterOp] at hop; done)
    | (simp only [Option.some.injEq] at hs
       subst hs
       refine ⟨⟨?_, ?_⟩, ?_, rfl⟩ <;> simp [segPC, pendY, returned, upd, *])

theorem seg_self_result {s s' : St} {t : Tid} {r : GRet} (h : Seg s t) (hs : result s t = some (s', r)) :
    Seg s' t ∧ returned s' t = returned s t ++ (yieldOf t (t, .ret r)).toList ∧ s'.cand t = s.cand t := by
  unfold result at hs
  split at hs
  next r' hpc =>
    simp only [Option.some.injEq, Prod.mk.injEq] at hs
    obtain ⟨rfl, rfl⟩ := hs
    have hp := h.pc
    have hl := h.last
    rw [hpc] at hp hl
    refine ⟨⟨by simp [segPC, upd], by simp [pendY, upd]⟩, ?_, rfl⟩
    simp only [segPC] at hp
    rcases hp with rfl | rfl | rfl | ⟨e, rfl⟩
    · simp [returned, pendY, upd, hpc, yieldOf]
    · simp [returned, pendY, upd, hpc, yieldOf]
    · simp [returned, pendY, upd, hpc, yieldOf]
    · obtain ⟨l, hl'⟩ := hl e (pendY_done_1 e)
      simp [returned, pendY, upd, hpc, yieldOf, hl']
  next => cases hs

/-- One action of a run in which `t` performs iterator operations only. -/
theorem seg_apply {s s' : St} {t t' : Tid} {a : Act} {o : Obs} (hF : FInv s) (h : Seg s t)
    (hs : model.apply s t' a = some (s', o))
    (hop : ∀ op, t' = t → a = .invoke op → iterOp op.name = true) :
    Seg s' t ∧ returned s' t = returned s t ++ (yieldOf t (t', o)).toList ∧
      ∀ e, s.cand t e = true → inList s' e = true → s'.cand t e = true := by
  by_cases hne : t = t'
  · subst hne
    cases a with
    | invoke op =>
      simp only [Model.apply, model, Option.map_eq_some_iff] at hs
      obtain ⟨s1, hs1, he⟩ := hs
      simp only [Prod.mk.injEq] at he; obtain ⟨rfl, rfl⟩ := he
      obtain ⟨h1, h2, h3⟩ := seg_self_invoke h (hop op rfl rfl) hs1
      exact ⟨h1, by simp [h2, yieldOf], fun e he _ => by rw [h3]; exact he⟩
    | step =>
      simp only [Model.apply, model, Option.map_eq_some_iff] at hs
      obtain ⟨⟨s1, ev⟩, hs1, he⟩ := hs
      simp only [Prod.mk.injEq] at he; obtain ⟨rfl, rfl⟩ := he
      obtain ⟨h1, h2⟩ := seg_self_step h hs1
      exact ⟨h1, by simp [h2, yieldOf], fun e he hin => step_cand_keep hF.1 hs1 he hin⟩
    | ret =>
      simp only [Model.apply, model, Option.map_eq_some_iff] at hs
      obtain ⟨⟨s1, r⟩, hs1, he⟩ := hs
      simp only [Prod.mk.injEq] at he; obtain ⟨rfl, rfl⟩ := he
      obtain ⟨h1, h2, h3⟩ := seg_self_result h hs1
      exact ⟨h1, h2, fun e he _ => by rw [h3]; exact he⟩
  · obtain ⟨h1, h2⟩ := seg_other hs hne h
    refine ⟨h1, by rw [h2, yieldOf_other hne]; simp, ?_⟩
    intro e he hin
    cases a with
    | invoke op =>
      simp only [Model.apply, model, Option.map_eq_some_iff] at hs
      obtain ⟨s1, hs1, hee⟩ := hs
      simp only [Prod.mk.injEq] at hee; obtain ⟨rfl, -⟩ := hee
      have : s1.cand t = s.cand t := by
        obtain ⟨name, args⟩ := op
        unfold invoke at hs1
        split at hs1 <;> (try split at hs1) <;> (try split at hs1) <;>
          first
          | (exfalso; cases hs1; done)
          | (simp only [Option.some.injEq] at hs1; subst hs1; simp [upd, hne])
      rw [this]; exact he
    | step =>
      simp only [Model.apply, model, Option.map_eq_some_iff] at hs
      obtain ⟨⟨s1, ev⟩, hs1, hee⟩ := hs
      simp only [Prod.mk.injEq] at hee; obtain ⟨rfl, -⟩ := hee
      exact step_cand_keep hF.1 hs1 he hin
    | ret =>
      simp only [Model.apply, model, Option.map_eq_some_iff] at hs
      obtain ⟨⟨s1, r⟩, hs1, hee⟩ := hs
      simp only [Prod.mk.injEq] at hee; obtain ⟨rfl, -⟩ := hee
      unfold result at hs1
      split at hs1
      · simp only [Option.some.injEq, Prod.mk.injEq] at hs1; obtain ⟨rfl, -⟩ := hs1; exact he
      · cases hs1

/-- The whole run. -/
theorem seg_run (t : Tid) : ∀ (sched : List (Tid × Act)) (s s1 : St) (os : List (Tid × Obs)),
    FInv s → Seg s t → model.run s sched = some (s1, os) → IterOnly t sched →
    FInv s1 ∧ Seg s1 t ∧ returned s1 t = returned s t ++ yields t os ∧
      ∀ e, s.cand t e = true → (∀ sk ∈ runStates s sched, inList sk e = true) → s1.cand t e = true := by
  intro sched
  induction sched with
  | nil =>
    intro s s1 os hF hS hr _
    simp only [Model.run, Option.some.injEq, Prod.mk.injEq] at hr
    obtain ⟨rfl, rfl⟩ := hr
    exact ⟨hF, hS, by simp [yields], fun e he _ => he⟩
  | cons x rest ih =>
    intro s s1 os hF hS hr honly
    obtain ⟨t', a⟩ := x
    simp only [Model.run] at hr
    cases hap : model.apply s t' a with
    | none => simp [hap] at hr
    | some p =>
      obtain ⟨s2, o⟩ := p
      simp only [hap] at hr
      cases hrr : model.run s2 rest with
      | none => simp [hrr] at hr
      | some q =>
        obtain ⟨s3, os2⟩ := q
        simp only [hrr, Option.some.injEq, Prod.mk.injEq] at hr
        obtain ⟨rfl, rfl⟩ := hr
        have hF2 := finv_apply hF hap
        obtain ⟨hS2, hret2, hc2⟩ := seg_apply hF hS hap (fun op ht ha => by
          subst ht; subst ha; exact honly op (List.mem_cons_self))
        obtain ⟨hF3, hS3, hret3, hc3⟩ := ih s2 s3 os2 hF2 hS2 hrr
          (fun op hop => honly op (List.mem_cons_of_mem _ hop))
        refine ⟨hF3, hS3, ?_, ?_⟩
        · rw [hret3, hret2]
          simp only [yields, List.filterMap_cons]
          cases yieldOf t (t', o) <;> simp
        · intro e he hall
          have hst : runStates s ((t', a) :: rest) = s2 :: runStates s2 rest := by
            simp [runStates, hap]
          rw [hst] at hall
          exact hc3 e (hc2 e he (hall s2 (List.mem_cons_self))) (fun sk hsk => hall sk (List.mem_cons_of_mem _ hsk))

def beginOp : GOp := ⟨"iter_begin", []⟩

theorem invoke_begin {s s' : St} {t : Tid} (h : invoke s t beginOp = some s') :
    s.pc t = .idle ∧
    s' = { s with itn := upd s.itn t hd, pc := upd s.pc t .itLd1, yl := upd s.yl t [],
                  cand := upd s.cand t (inList s) } := by
  unfold invoke beginOp at h
  split at h
  · split at h <;>
      first
      | (exfalso; cases h; done)
      | (exfalso; rename_i hname _; simp at hname; done)
      | (exfalso; rename_i hname _ _; simp at hname; done)
      | (rename_i hpc _ _; simp only [Option.some.injEq] at h; exact ⟨hpc, h.symm⟩)
  · cases h

/-- The sorted-keys property of a state: keys strictly increase along the chain (over the non-empty nodes). -/
def SortedKeys (s : St) : Prop :=
  ∀ a b ea eb, s.lt a b = true → (s.data a).p = some ea → (s.data b).p = some eb → s.key ea < s.key eb

/-- Facts about a finished iteration of thread `t`: the run starts with `t`'s `iter_begin`, `t` performs only
    iterator operations, and at the end `t` is idle with its iterator on the tail node. -/
theorem iter_run_facts (n : Nat) (s0 s1 : St) (t : Tid) (sched : List (Tid × Act)) (os : List (Tid × Obs))
    (hreach : model.Reachable (init n) s0)
    (hrun : model.run s0 ((t, .invoke beginOp) :: sched) = some (s1, os))
    (honly : IterOnly t sched) (hidle : s1.pc t = .idle) :
    FInv s1 ∧ yields t os = s1.yl t ∧
    ∀ e, (∀ sk ∈ runStates s0 ((t, .invoke beginOp) :: sched), inList sk e = true) → s1.cand t e = true := by
  have hF0 := finv_reachable n s0 hreach
  simp only [Model.run] at hrun
  cases hap : model.apply s0 t (.invoke beginOp) with
  | none => simp [hap] at hrun
  | some p =>
    obtain ⟨sb, o⟩ := p
    simp only [hap] at hrun
    cases hrr : model.run sb sched with
    | none => simp [hrr] at hrun
    | some q =>
      obtain ⟨s3, os2⟩ := q
      simp only [hrr, Option.some.injEq, Prod.mk.injEq] at hrun
      obtain ⟨rfl, rfl⟩ := hrun
      have hFb := finv_apply hF0 hap
      simp only [Model.apply, model, Option.map_eq_some_iff] at hap
      obtain ⟨sb', hinv, he⟩ := hap
      simp only [Prod.mk.injEq] at he; obtain ⟨rfl, rfl⟩ := he
      obtain ⟨hpc0, hsb⟩ := invoke_begin hinv
      have e1 : sb'.pc t = .itLd1 := by rw [hsb]; exact upd_same _ _ _
      have e2 : sb'.yl t = [] := by rw [hsb]; exact upd_same _ _ _
      have e3 : sb'.cand t = inList s0 := by rw [hsb]; exact upd_same _ _ _
      have e4 : ∀ e, inList sb' e = inList s0 e := by intro e; rw [hsb]; rfl
      have hSeg : Seg sb' t := ⟨by rw [e1]; trivial, by rw [e1]; intro e he; cases he⟩
      obtain ⟨hF3, hS3, hret3, hc3⟩ := seg_run t sched sb' s3 os2 hFb hSeg hrr honly
      refine ⟨hF3, ?_, ?_⟩
      · have h1 : returned s3 t = s3.yl t := by simp [returned, hidle, pendY]
        have h2 : returned sb' t = [] := by simp [returned, pendY, e1, e2]
        rw [h1, h2, List.nil_append] at hret3
        rw [hret3]
        have : yieldOf t (t, Obs.call beginOp) = none := rfl
        simp [yields, this]
      · intro e hall
        have hst : runStates s0 ((t, .invoke beginOp) :: sched) = sb' :: runStates sb' sched := by
          simp [runStates, Model.apply, model, hinv]
        rw [hst] at hall
        have hb := hall _ (List.mem_cons_self)
        refine hc3 e ?_ (fun sk hsk => hall sk (List.mem_cons_of_mem _ hsk))
        rw [e3, ← e4]; exact hb

/-- COMPLETE and EXACTLY ONCE. -/
theorem iter_complete_once (n : Nat) (s0 s1 : St) (t : Tid) (sched : List (Tid × Act)) (os : List (Tid × Obs))
    (hreach : model.Reachable (init n) s0)
    (hrun : model.run s0 ((t, .invoke beginOp) :: sched) = some (s1, os))
    (honly : IterOnly t sched) (hidle : s1.pc t = .idle) (hend : s1.itn t = tl)
    (e : Nat) (hpres : ∀ sk ∈ runStates s0 ((t, .invoke beginOp) :: sched), inList sk e = true) :
    (yields t os).count e = 1 := by
  obtain ⟨hF, hy, hc⟩ := iter_run_facts n s0 s1 t sched os hreach hrun honly hidle
  have hce := hc e hpres
  obtain ⟨a, ha, hl, hd⟩ := (inList_iff s1 e).1 ((hF.2 t).cin e hce)
  have ha2 : a ≠ 2 := fun e2 => by rw [e2, hF.1.elem.tlnil] at hd; cases hd
  have := (hF.2 t).cnt e a hce ha
  rw [hy, this]
  unfold passed
  rw [hend, tl, hF.1.ord.last a hl ha2]
  rfl

/-- ORDERED (relative to sortedness of the final state): the yielded elements that were present throughout appear
    in chain order; if the keys of the final state are sorted along the chain, in strictly increasing key order. -/
theorem iter_ordered (n : Nat) (s0 s1 : St) (t : Tid) (sched : List (Tid × Act)) (os : List (Tid × Obs))
    (hreach : model.Reachable (init n) s0)
    (hrun : model.run s0 ((t, .invoke beginOp) :: sched) = some (s1, os))
    (honly : IterOnly t sched) (hidle : s1.pc t = .idle) :
    (yields t os).Pairwise (fun e1 e2 =>
      (∀ sk ∈ runStates s0 ((t, .invoke beginOp) :: sched), inList sk e1 = true) →
      (∀ sk ∈ runStates s0 ((t, .invoke beginOp) :: sched), inList sk e2 = true) →
      (∃ a1 a2, s1.home e1 = some a1 ∧ s1.home e2 = some a2 ∧ s1.lt a1 a2 = true) ∧
      (SortedKeys s1 → s1.key e1 < s1.key e2)) := by
  obtain ⟨hF, hy, hc⟩ := iter_run_facts n s0 s1 t sched os hreach hrun honly hidle
  rw [hy]
  refine (hF.2 t).ord.imp ?_
  intro e1 e2 hR h1 h2
  have hc1 := hc e1 h1
  have hc2 := hc e2 h2
  obtain ⟨a1, ha1, hl1, hd1⟩ := (inList_iff s1 e1).1 ((hF.2 t).cin e1 hc1)
  obtain ⟨a2, ha2, hl2, hd2⟩ := (inList_iff s1 e2).1 ((hF.2 t).cin e2 hc2)
  have hlt := hR hc1 hc2 a1 a2 ha1 ha2
  exact ⟨⟨a1, a2, ha1, ha2, hlt⟩, fun hs => hs a1 a2 e1 e2 hlt hd1 hd2⟩

/-! ### `erase_at( iterator )` -/

/-- What the CAS step of `erase_at` does. -/
inductive EraseAtOutcome (s s' : St) (t : Tid) (e : Nat) (ev : Ev) : Prop
  /-- success: the node held exactly `e` (unmarked); `e` leaves the list, nothing else does; `e` is retired by `t` -/
  | removed (hpc : s'.pc t = .done [1]) (hd : s.data (s.itn t) = ⟨some e, false⟩) (hin : inList s e = true)
      (hnr : s.retired e = none) (hr : s'.retired e = some t) (hro : ∀ x, x ≠ e → s'.retired x = s.retired x)
      (hl : ∀ x, inList s' x = (inList s x && (x != e)))
      (hev : ev = evCasDOk (s.itn t) ⟨some e, false⟩ ⟨none, false⟩)
  /-- `false`: the pointer part of the word differs from `e`: `e` is no longer stored in this node, nor anywhere -/
  | gone (hpc : s'.pc t = .done [0]) (hd : (s.data (s.itn t)).p ≠ some e) (hin : inList s e = false)
      (hl : ∀ x, inList s' x = inList s x) (hr : s'.retired = s.retired)
      (hev : ev = evCasDFail (s.itn t) (s.data (s.itn t)) ⟨some e, false⟩)
  /-- only the mark bit differs (a neighbouring insert holds the mark): nothing changes, the CAS is retried -/
  | retry (hs : s' = s) (hd : s.data (s.itn t) = ⟨some e, true⟩)
      (hev : ev = evCasDFail (s.itn t) ⟨some e, true⟩ ⟨some e, false⟩)

theorem eraseAt_stands {s : St} {t : Tid} {e : Nat} (hS : SInv s) (hpc : s.pc t = .eaCas e) :
    s.hp t = some e ∧ s.hv t = true ∧ s.home e = some (s.itn t) ∧ s.disposed e = false := by
  have ht := hS.thr t
  have h1 := ht.ea e hpc
  have h2 := ht.atn e h1.1 h1.2 (by rw [hpc]; rfl)
  exact ⟨h1.1, h1.2, h2, ht.safe e h1.1 h1.2⟩

theorem eraseAt_step {s s' : St} {t : Tid} {ev : Ev} {e : Nat} (hS : SInv s) (hpc : s.pc t = .eaCas e)
    (hs : step s t = some (s', ev)) : EraseAtOutcome s s' t e ev := by
  obtain ⟨-, -, hhome, -⟩ := eraseAt_stands hS hpc
  simp only [step, hpc] at hs
  split at hs
  · rename_i hd
    simp only [Option.some.injEq, Prod.mk.injEq] at hs
    obtain ⟨rfl, rfl⟩ := hs
    have hp : (s.data (s.itn t)).p = some e := by rw [hd]
    refine .removed (by simp [upd]) hd ?_ (hS.elem.live _ _ hp) (by simp [St.removed, upd]) ?_ ?_ rfl
    · exact (inList_iff s e).2 ⟨_, hhome, (hS.thr t).ilk, hp⟩
    · intro x hx; simp [St.removed, upd, hx]
    · intro x
      unfold inList
      dsimp only [St.removed]
      cases hh : s.home x with
      | none => simp
      | some b =>
        dsimp only
        by_cases eb : b = s.itn t
        · subst eb
          rw [upd_same, hp]
          by_cases ex : x = e
          · subst ex; simp
          · have : (some e == some x) = false := by simpa using fun h => ex h.symm
            simp [this]
        · rw [upd_other _ _ _ _ eb]
          have : x ≠ e := fun ex => by rw [ex, hhome] at hh; exact eb (Option.some.inj hh).symm
          simp [this]
  · split at hs
    · rename_i hd hp
      simp only [Option.some.injEq, Prod.mk.injEq] at hs
      obtain ⟨rfl, rfl⟩ := hs
      have hdw : s.data (s.itn t) = ⟨some e, true⟩ := by
        cases hw : s.data (s.itn t) with
        | mk p m =>
          rw [hw] at hp hd
          simp only at hp
          subst hp
          cases m with
          | false => exact absurd rfl hd
          | true => rfl
      exact .retry rfl hdw (by rw [hdw])
    · rename_i hd hp
      simp only [Option.some.injEq, Prod.mk.injEq] at hs
      obtain ⟨rfl, rfl⟩ := hs
      refine .gone (by simp [upd]) hp ?_ (fun _ => rfl) rfl rfl
      unfold inList
      rw [hhome]
      have : ((s.data (s.itn t)).p == some e) = false := by simpa using hp
      simp [this]

/-- The only way `erase_at` returns `false`: a failed CAS that observed a different pointer. -/
theorem eraseAt_false_only {s s' : St} {t : Tid} {ev : Ev} {e : Nat} (hS : SInv s) (hpc : s.pc t = .eaCas e)
    (hs : step s t = some (s', ev)) (hret : s'.pc t = .done [0]) :
    (s.data (s.itn t)).p ≠ some e ∧ ev.kind = "cas-" := by
  cases eraseAt_step hS hpc hs with
  | removed hpc' => rw [hpc'] at hret; cases hret
  | gone _ hd _ _ _ hev => exact ⟨hd, by rw [hev]; rfl⟩
  | retry hs' => rw [hs', hpc] at hret; cases hret

/-! ### Monotonicity: the chain is append-only, elements never move, retirement is final -/

set_option maxHeartbeats 4000000 in
/-- The chain only grows: linked nodes stay linked, in the same order; counters and flags are monotone. -/
theorem step_chain_mono {s s' : St} {t : Tid} {ev : Ev} (hS : SInv s) (hs : step s t = some (s', ev)) :
    (∀ a, s.lk a = true → s'.lk a = true) ∧
    (∀ a b, s.lk a = true → s.lk b = true → s'.lt a b = s.lt a b) ∧
    s.ncnt ≤ s'.ncnt ∧ (∀ e, s.disposed e = true → s'.disposed e = true) ∧ s'.used = s.used := by
  unfold step at hs
  split at hs <;> (try split at hs) <;> (try split at hs) <;> (try split at hs) <;>
    first
    | (exfalso; cases hs; done)
    | (simp only [Option.some.injEq, Prod.mk.injEq] at hs
       obtain ⟨rfl, -⟩ := hs
       exact ⟨fun _ h => h, fun _ _ _ _ => rfl, by (try dsimp only [St.removed]); omega, fun _ h => h, rfl⟩)
    | skip
  -- lCasNext
  rename_i j p n hpc hn
  simp only [Option.some.injEq, Prod.mk.injEq] at hs
  obtain ⟨rfl, -⟩ := hs
  have hnl := ((hS.thr t).pcnt n (by rw [hpc]; rfl)).2.2.1
  have lkne : ∀ b, s.lk b = true → b ≠ n := fun b hb e => by rw [e, hnl] at hb; cases hb
  refine ⟨fun a ha => ?_, fun a b ha hb => ltIns_old (lkne a ha) (lkne b hb), Nat.le_refl _, fun _ h => h, rfl⟩
  dsimp only; rw [upd_other _ _ _ _ (lkne a ha)]; exact ha

set_option maxHeartbeats 4000000 in
/-- An element never moves between nodes: `home` is written once. -/
theorem step_home_mono {s s' : St} {t : Tid} {ev : Ev} (hS : SInv s) (hs : step s t = some (s', ev))
    {e a : Nat} (h : s.home e = some a) : s'.home e = some a := by
  unfold step at hs
  split at hs <;> (try split at hs) <;> (try split at hs) <;> (try split at hs) <;>
    first
    | (exfalso; cases hs; done)
    | (simp only [Option.some.injEq, Prod.mk.injEq] at hs
       obtain ⟨rfl, -⟩ := hs
       exact h)
    | skip
  · -- updCas
    rename_i j cur e0 hpc hd
    simp only [Option.some.injEq, Prod.mk.injEq] at hs
    obtain ⟨rfl, -⟩ := hs
    have hhn := hS.pend_homeless (t := t) (e := j.e) (by rw [hpc]; rfl) (by rw [hpc]; rfl)
    have : e ≠ j.e := fun ee => by rw [ee, hhn] at h; cases h
    dsimp only [St.removed]; rw [upd_other _ _ _ _ this]; exact h
  · -- lReuse
    rename_i j p hpc hd
    simp only [Option.some.injEq, Prod.mk.injEq] at hs
    obtain ⟨rfl, -⟩ := hs
    have hhn := hS.pend_homeless (t := t) (e := j.e) (by rw [hpc]; rfl) (by rw [hpc]; rfl)
    have : e ≠ j.e := fun ee => by rw [ee, hhn] at h; cases h
    dsimp only; rw [upd_other _ _ _ _ this]; exact h
  · -- lCtor2
    rename_i j p n hpc
    simp only [Option.some.injEq, Prod.mk.injEq] at hs
    obtain ⟨rfl, -⟩ := hs
    dsimp only
    by_cases ee : e = j.e
    · subst ee
      have := (hS.thr t).phome j.e a (by rw [hpc]; rfl) h
      rw [hpc] at this
      simp only [priv, Option.some.injEq] at this
      rw [upd_same, this]
    · rw [upd_other _ _ _ _ ee]; exact h

set_option maxHeartbeats 4000000 in
/-- Retirement is final, and an element is retired at most once (by the thread whose CAS removed it). -/
theorem step_retired_mono {s s' : St} {t : Tid} {ev : Ev} (hS : SInv s) (hs : step s t = some (s', ev))
    {e : Nat} {t0 : Tid} (h : s.retired e = some t0) : s'.retired e = some t0 := by
  have live : ∀ a e0, s.data a = ⟨some e0, false⟩ → e ≠ e0 := fun a e0 hd ee => by
    have := hS.elem.live a e0 (by rw [hd]); rw [← ee, h] at this; cases this
  unfold step at hs
  split at hs <;> (try split at hs) <;> (try split at hs) <;> (try split at hs) <;>
    first
    | (exfalso; cases hs; done)
    | (simp only [Option.some.injEq, Prod.mk.injEq] at hs
       obtain ⟨rfl, -⟩ := hs
       exact h)
    | (simp only [Option.some.injEq, Prod.mk.injEq] at hs
       obtain ⟨rfl, -⟩ := hs
       dsimp only [St.removed]
       rw [upd_other _ _ _ _ (live _ _ ‹_›)]; exact h)

/-! ### The chain as a list -/

theorem countP_lt_of_imp {α : Type} (p q : α → Bool) : ∀ (l : List α), (∀ x ∈ l, p x = true → q x = true) →
    (∃ x ∈ l, q x = true ∧ p x = false) → l.countP p < l.countP q
  | [], _, h => by obtain ⟨x, hx, _⟩ := h; cases hx
  | y :: l, himp, hex => by
    have hle : l.countP p ≤ l.countP q :=
      List.countP_mono_left (fun x hx hp => himp x (List.mem_cons_of_mem _ hx) hp)
    obtain ⟨x, hx, hq, hp⟩ := hex
    rw [List.countP_cons, List.countP_cons]
    rcases List.mem_cons.1 hx with rfl | hx'
    · simp only [hq, hp, if_true]; simp; omega
    · have ih := countP_lt_of_imp p q l (fun x hx hp => himp x (List.mem_cons_of_mem _ hx) hp) ⟨x, hx', hq, hp⟩
      cases hpy : p y with
      | false => cases hqy : q y <;> simp <;> omega
      | true => have := himp y List.mem_cons_self hpy; simp [this]; omega

/-- Number of allocated nodes strictly after `a` in the chain order. -/
def rk (s : St) (a : Nat) : Nat := (List.range s.ncnt).countP (fun b => s.lt a b)

theorem rk_next {s : St} (hS : SInv s) {a : Nat} (ha : s.lk a = true) (h2 : a ≠ 2) :
    rk s (s.next a) < rk s a := by
  obtain ⟨o1,o2,o3,o4,o5,o6,o7,o8,o9,o10,o11,o12,o13,o14⟩ := hS.ord
  have hn := o12 a ha h2
  refine countP_lt_of_imp _ _ _ (fun x _ hx => o8 _ _ _ hn hx) ⟨s.next a, ?_, hn, o7 _⟩
  exact List.mem_range.2 (o5 _ (o6 _ _ hn).2)

theorem rk_lt_cnt {s : St} (hS : SInv s) {a : Nat} (ha : s.lk a = true) : rk s a < s.ncnt := by
  have h1 : rk s a < (List.range s.ncnt).countP (fun _ => true) :=
    countP_lt_of_imp _ _ _ (fun _ _ _ => rfl) ⟨a, List.mem_range.2 (hS.ord.lkcnt a ha), rfl, hS.ord.irr a⟩
  simpa using h1

/-- Consecutive elements are linked by `next`. -/
def consec (nx : Nat → Nat) : List Nat → Prop
  | [] => True
  | [_] => True
  | a :: b :: r => nx a = b ∧ consec nx (b :: r)

theorem chainFrom_spec {s : St} (hS : SInv s) : ∀ (f a : Nat), s.lk a = true → rk s a < f →
    (∃ r, chainFrom s f a = a :: r) ∧ (chainFrom s f a).getLast? = some tl ∧ consec s.next (chainFrom s f a) ∧
    (chainFrom s f a).Pairwise (fun x y => s.lt x y = true) ∧
    (∀ b, b ∈ chainFrom s f a ↔ (b = a ∨ s.lt a b = true)) := by
  obtain ⟨o1,o2,o3,o4,o5,o6,o7,o8,o9,o10,o11,o12,o13,o14⟩ := hS.ord
  intro f
  induction f with
  | zero => intro a _ h; omega
  | succ f ih =>
    intro a ha hr
    by_cases h2 : a = tl
    · subst h2
      have hnone : ∀ b, s.lt tl b = false := by
        intro b
        cases hb : s.lt tl b with
        | false => rfl
        | true =>
          have hlb := (o6 _ _ hb).2
          by_cases eb : b = 2
          · rw [eb] at hb; have := o7 2; rw [tl] at hb; rw [hb] at this; cases this
          · have := o8 _ _ _ hb (o11 b hlb eb); rw [tl, o7 2] at this; cases this
      simp only [chainFrom, if_true]
      refine ⟨⟨[], rfl⟩, rfl, trivial, List.pairwise_singleton _ _, ?_⟩
      intro b; simp [hnone b]
    · have h2' : a ≠ 2 := h2
      have hn := o12 a ha h2'
      have hln := (o6 _ _ hn).2
      have hrn := rk_next hS ha h2'
      obtain ⟨⟨r, hr1⟩, hr2, hr3, hr4, hr5⟩ := ih (s.next a) hln (by omega)
      simp only [chainFrom, if_neg h2]
      refine ⟨⟨_, rfl⟩, ?_, ?_, ?_, ?_⟩
      · rw [hr1] at hr2 ⊢; simpa [List.getLast?_cons_cons] using hr2
      · rw [hr1] at hr3 ⊢; exact ⟨rfl, hr3⟩
      · refine List.Pairwise.cons ?_ hr4
        intro b hb
        rcases (hr5 b).1 hb with rfl | hb'
        · exact hn
        · exact o8 _ _ _ hn hb'
      · intro b
        rw [List.mem_cons, hr5 b]
        constructor
        · rintro (h | h | h)
          · exact Or.inl h
          · right; rw [h]; exact hn
          · right; exact o8 _ _ _ hn h
        · rintro (h | h)
          · exact Or.inl h
          · right
            have hlb := (o6 _ _ h).2
            by_cases eb : b = s.next a
            · exact Or.inl eb
            · right
              rcases o9 b _ hlb hln eb with h3 | h3
              · exact absurd h3 (by intro h4; exact o13 a b ha h2' h h4)
              · exact h3

/-- The chain from the head: starts at the head, ends at the tail, follows `next`, is strictly increasing in the
    chain order (hence duplicate-free) and consists of exactly the linked nodes. -/
theorem chain_spec {s : St} (hS : SInv s) :
    (∃ r, chain s = hd :: r) ∧ (chain s).getLast? = some tl ∧ consec s.next (chain s) ∧
    (chain s).Pairwise (fun x y => s.lt x y = true) ∧ (∀ b, b ∈ chain s ↔ s.lk b = true) := by
  obtain ⟨h1, h2, h3, h4, h5⟩ := chainFrom_spec hS s.ncnt hd hS.ord.hdlk (rk_lt_cnt hS hS.ord.hdlk)
  refine ⟨h1, h2, h3, h4, ?_⟩
  intro b
  rw [chain, h5 b]
  constructor
  · rintro (h | h)
    · rw [h]; exact hS.ord.hdlk
    · exact (hS.ord.ltlk _ _ h).2
  · intro hb
    by_cases e : b = hd
    · exact Or.inl e
    · exact Or.inr (hS.ord.first b hb e)

end CdsVerif.Algo.Iterable

/-
Helper lemmas for property C25 (bit manipulation: `cds/algo/bit_reversal.h`,
`cds/algo/bitop.h`, `cds/algo/int_algo.h`).

All statements are about the *generated* definitions in `CdsVerif.Gen.BitReversal`
and `CdsVerif.Gen.BitopGeneric`; nothing here is checked by sampling or bounded
enumeration of 32/64-bit inputs.  (The only enumerations are over the 256 values of a
byte, for the byte-wise table / multiply-divide helpers.)
-/
import CdsVerif.Gen.BitReversal
import CdsVerif.Gen.BitopGeneric

namespace CdsVerif.Algo.Bits

open CdsVerif.Gen.BitReversal CdsVerif.Gen.BitopGeneric

/-! ## Finite case splits on a bit index -/

/-- case split of `i < 32` into the 32 literal cases -/
theorem forall_lt_32 {P : Nat → Prop}
    (h : P 0 ∧ P 1 ∧ P 2 ∧ P 3 ∧ P 4 ∧ P 5 ∧ P 6 ∧ P 7 ∧ P 8 ∧ P 9 ∧ P 10 ∧ P 11 ∧ P 12 ∧ P 13 ∧ P 14 ∧ P 15 ∧
      P 16 ∧ P 17 ∧ P 18 ∧ P 19 ∧ P 20 ∧ P 21 ∧ P 22 ∧ P 23 ∧ P 24 ∧ P 25 ∧ P 26 ∧ P 27 ∧ P 28 ∧ P 29 ∧ P 30 ∧ P 31) :
    ∀ i, i < 32 → P i := by
  intro i hi
  have : i = 0 ∨ i = 1 ∨ i = 2 ∨ i = 3 ∨ i = 4 ∨ i = 5 ∨ i = 6 ∨ i = 7 ∨ i = 8 ∨ i = 9 ∨ i = 10 ∨ i = 11 ∨
    i = 12 ∨ i = 13 ∨ i = 14 ∨ i = 15 ∨ i = 16 ∨ i = 17 ∨ i = 18 ∨ i = 19 ∨ i = 20 ∨ i = 21 ∨ i = 22 ∨ i = 23 ∨
    i = 24 ∨ i = 25 ∨ i = 26 ∨ i = 27 ∨ i = 28 ∨ i = 29 ∨ i = 30 ∨ i = 31 := by omega
  rcases this with rfl|rfl|rfl|rfl|rfl|rfl|rfl|rfl|rfl|rfl|rfl|rfl|rfl|rfl|rfl|rfl|rfl|rfl|rfl|rfl|rfl|rfl|rfl|rfl|rfl|rfl|rfl|rfl|rfl|rfl|rfl|rfl <;> simp only [h]

/-- case split of `i < 64` into a low and a high half -/
theorem forall_lt_64 {P : Nat → Prop} (h1 : ∀ i, i < 32 → P i) (h2 : ∀ i, i < 32 → P (32 + i)) :
    ∀ i, i < 64 → P i := by
  intro i hi
  by_cases h : i < 32
  · exact h1 i h
  · have := h2 (i - 32) (by omega)
    rwa [show 32 + (i - 32) = i by omega] at this

/-! ## Bit reversal -/

/-- `BitVec.reverse` really is the index-mirroring map. -/
theorem reverse_bits {w : Nat} (x : BitVec w) (i : Nat) (h : i < w) :
    x.reverse.getLsbD i = x.getLsbD (w - 1 - i) := by
  rw [BitVec.getLsbD_reverse, BitVec.getMsbD_eq_getLsbD]; simp [h]

theorem reverse_reverse {w : Nat} (x : BitVec w) : x.reverse.reverse = x := by
  apply BitVec.eq_of_getLsbD_eq
  intro i hi
  rw [reverse_bits _ _ hi, reverse_bits _ _ (by omega)]
  congr 1; omega

theorem swar32_reverse (x : BitVec 32) : swar32 x = x.reverse := by
  apply BitVec.eq_of_getLsbD_eq
  apply forall_lt_32
  simp [swar32, BitVec.getElem_reverse, BitVec.getMsbD_eq_getLsbD]

theorem rbo32_reverse (x : BitVec 32) : rbo32 x = x.reverse := by
  apply BitVec.eq_of_getLsbD_eq
  apply forall_lt_32
  simp [rbo32, BitVec.getElem_reverse, BitVec.getMsbD_eq_getLsbD]

/-- reversing the two 32-bit halves and swapping them reverses a 64-bit word -/
theorem halves64_reverse (x : BitVec 64) :
    ((((x.setWidth 32).reverse.setWidth 64) <<< 32) ||| (((x >>> 32).setWidth 32).reverse.setWidth 64))
      = x.reverse := by
  apply BitVec.eq_of_getLsbD_eq
  apply forall_lt_64 <;> apply forall_lt_32 <;>
  simp [BitVec.getElem_reverse, BitVec.getMsbD_eq_getLsbD]

/-- reversing the four bytes and placing them in opposite order reverses a 32-bit word -/
theorem bytes32_reverse (x : BitVec 32) :
    ((((((x >>> 24).setWidth 8).reverse.setWidth 32)
      ||| ((((x >>> 16).setWidth 8).reverse.setWidth 32) <<< 8))
      ||| ((((x >>> 8).setWidth 8).reverse.setWidth 32) <<< 16))
      ||| (((x.setWidth 8).reverse.setWidth 32) <<< 24)) = x.reverse := by
  apply BitVec.eq_of_getLsbD_eq
  apply forall_lt_32
  simp [BitVec.getElem_reverse, BitVec.getMsbD_eq_getLsbD]

theorem bytes64_reverse (x : BitVec 64) :
    (((((((((((x >>> 56).setWidth 8)).reverse.setWidth 64)
      ||| (((((x >>> 48).setWidth 8)).reverse.setWidth 64) <<< 8))
      ||| (((((x >>> 40).setWidth 8)).reverse.setWidth 64) <<< 16))
      ||| (((((x >>> 32).setWidth 8)).reverse.setWidth 64) <<< 24))
      ||| (((((x >>> 24).setWidth 8)).reverse.setWidth 64) <<< 32))
      ||| (((((x >>> 16).setWidth 8)).reverse.setWidth 64) <<< 40))
      ||| (((((x >>> 8).setWidth 8)).reverse.setWidth 64) <<< 48))
      ||| ((((x.setWidth 8)).reverse.setWidth 64) <<< 56)) = x.reverse := by
  apply BitVec.eq_of_getLsbD_eq
  apply forall_lt_64 <;> apply forall_lt_32 <;>
  simp [BitVec.getElem_reverse, BitVec.getMsbD_eq_getLsbD]

/-- the 256-entry table of `lookup32` (all 256 entries checked by kernel evaluation) -/
theorem lookup_table_spec (b : BitVec 8) : lookup32_table.getD b.toNat 0#8 = b.reverse := by
  have : ∀ b : BitVec 8, lookup32_table.getD b.toNat 0#8 = b.reverse := by decide +kernel
  exact this b

theorem lookup_table_length : lookup32_table.length = 256 := by decide +kernel

/-- the multiply/mask byte reversal (all 256 bytes checked by kernel evaluation) -/
theorem muldiv32_byte_spec : ∀ b : BitVec 8, muldiv32_byte b = b.reverse := by decide +kernel

theorem muldiv64_byte_spec : ∀ b : BitVec 8, muldiv64_byte b = b.reverse := by decide +kernel

theorem and255_toNat (y : BitVec 32) : (y &&& 255#32).toNat = (y.setWidth 8).toNat := by
  simp [BitVec.toNat_and]
  exact Nat.and_two_pow_sub_one_eq_mod _ 8

theorem lookup_table_and255 (y : BitVec 32) :
    lookup32_table.getD (y &&& 255#32).toNat 0#8 = (y.setWidth 8).reverse := by
  rw [and255_toNat, lookup_table_spec]

theorem lookup32_reverse (x : BitVec 32) : lookup32 x = x.reverse := by
  unfold lookup32
  simp only [lookup_table_and255]
  apply BitVec.eq_of_getLsbD_eq
  apply forall_lt_32
  simp [BitVec.getElem_reverse, BitVec.getMsbD_eq_getLsbD]

theorem muldiv32_32_reverse (x : BitVec 32) : muldiv32_32 x = x.reverse := by
  unfold muldiv32_32; simp only [muldiv32_byte_spec]; exact bytes32_reverse x

theorem muldiv64_32_reverse (x : BitVec 32) : muldiv64_32 x = x.reverse := by
  unfold muldiv64_32; simp only [muldiv64_byte_spec]; exact bytes32_reverse x

theorem muldiv_op32_reverse (x : BitVec 32) : muldiv_op32 x = x.reverse := by
  unfold muldiv_op32; exact muldiv64_32_reverse x

theorem swar64_reverse (x : BitVec 64) : swar64 x = x.reverse := by
  unfold swar64; simp only [swar32_reverse]; exact halves64_reverse x

theorem rbo64_reverse (x : BitVec 64) : rbo64 x = x.reverse := by
  unfold rbo64; simp only [rbo32_reverse]; exact halves64_reverse x

theorem lookup64_reverse (x : BitVec 64) : lookup64 x = x.reverse := by
  unfold lookup64; simp only [lookup32_reverse]; exact halves64_reverse x

theorem muldiv32_64_reverse (x : BitVec 64) : muldiv32_64 x = x.reverse := by
  unfold muldiv32_64; simp only [muldiv32_byte_spec]; exact bytes64_reverse x

theorem muldiv64_64_reverse (x : BitVec 64) : muldiv64_64 x = x.reverse := by
  unfold muldiv64_64; simp only [muldiv64_byte_spec]; exact bytes64_reverse x

theorem muldiv_op64_reverse (x : BitVec 64) : muldiv_op64 x = x.reverse := by
  unfold muldiv_op64; exact muldiv64_64_reverse x

/-! ## Most significant bit -/

def msbStage (k : Nat) (m : BitVec 32) (p : BitVec 32 × BitVec 32) : BitVec 32 × BitVec 32 :=
  if (!((p.1 &&& m) != (0#32))) then (p.1 <<< k, p.2 - BitVec.ofNat 32 k) else p

theorem msb32_eq (x : BitVec 32) : msb32 x =
    if (!(x != (0#32))) then 0#32 else
      let p := msbStage 2 3221225472#32 (msbStage 4 4026531840#32 (msbStage 8 4278190080#32 (msbStage 16 4294901760#32 (x, 32#32))))
      if (!((p.1 &&& (2147483648#32)) != (0#32))) then p.2 - 1#32 else p.2 := by
  rfl

/-- `Top v n`: the most significant set bit of `v` is bit `n` -/
def Top (v n : Nat) : Prop := 2^n ≤ v ∧ v < 2^(n+1)

theorem Top.unique {v n m : Nat} (h1 : Top v n) (h2 : Top v m) : n = m := by
  unfold Top at *
  have a : n < m + 1 := (Nat.pow_lt_pow_iff_right (by decide : 1 < 2)).1 (Nat.lt_of_le_of_lt h1.1 h2.2)
  have b : m < n + 1 := (Nat.pow_lt_pow_iff_right (by decide : 1 < 2)).1 (Nat.lt_of_le_of_lt h2.1 h1.2)
  omega

theorem Top.exists {v : Nat} (h : v ≠ 0) : Top v (Nat.log2 v) :=
  ⟨Nat.log2_self_le h, Nat.lt_log2_self⟩

theorem Top.lt_of_lt {v n k : Nat} (h : Top v n) (hv : v < 2^k) : n < k :=
  (Nat.pow_lt_pow_iff_right (by decide : 1 < 2)).1 (Nat.lt_of_le_of_lt h.1 hv)

theorem Top.le_of_le {v n k : Nat} (h : Top v n) (hv : 2^k ≤ v) : k ≤ n :=
  Nat.le_of_lt_succ ((Nat.pow_lt_pow_iff_right (by decide : 1 < 2)).1 (Nat.lt_of_le_of_lt hv h.2))

theorem Top.shl {v n : Nat} (h : Top v n) (k : Nat) : Top (v * 2^k) (n + k) := by
  unfold Top at *
  rw [Nat.pow_add, show n + k + 1 = (n+1) + k by omega, Nat.pow_add]
  exact ⟨Nat.mul_le_mul_right _ h.1, Nat.mul_lt_mul_of_pos_right h.2 (Nat.two_pow_pos k)⟩

theorem himask16 (y : BitVec 32) : (y &&& 4294901760#32 = 0#32) ↔ y.toNat < 2^16 := by
  have : y &&& 4294901760#32 = (y >>> 16) <<< 16 := by
    apply BitVec.eq_of_getLsbD_eq; apply forall_lt_32; simp
  rw [this]; bv_omega

theorem msbStage_spec (k : Nat) (m : BitVec 32)
    (hm : ∀ y : BitVec 32, (y &&& m = 0#32) ↔ y.toNat < 2^(32-k)) (hk : 2*k ≤ 32)
    (x r : BitVec 32) (n : Nat) (hn : Top x.toNat n) (hlow : 32 - 2*k ≤ n) (hn32 : n < 32) :
    ∃ n', Top (msbStage k m (x,r)).1.toNat n' ∧ 32 - k ≤ n' ∧ n' < 32 ∧
      (msbStage k m (x,r)).2 + BitVec.ofNat 32 n' = r + BitVec.ofNat 32 n := by
  unfold msbStage
  by_cases h : x &&& m = 0#32
  · have hx := (hm x).1 h
    have hnk : n < 32 - k := hn.lt_of_lt hx
    have hmul : x.toNat * 2^k < 2^32 := by
      have : x.toNat * 2^k < 2^(32-k) * 2^k := Nat.mul_lt_mul_of_pos_right hx (Nat.two_pow_pos k)
      rwa [← Nat.pow_add, show 32 - k + k = 32 by omega] at this
    refine ⟨n + k, ?_, by omega, by omega, ?_⟩
    · simp only [h, bne_self_eq_false, Bool.not_false, if_true, BitVec.toNat_shiftLeft, Nat.shiftLeft_eq]
      rw [Nat.mod_eq_of_lt hmul]; exact hn.shl k
    · simp only [h, bne_self_eq_false, Bool.not_false, if_true]
      bv_omega
  · have hx : 2^(32-k) ≤ x.toNat := Nat.le_of_not_lt (fun c => h ((hm x).2 c))
    refine ⟨n, ?_, hn.le_of_le hx, hn32, ?_⟩ <;> simp [h, hn]

theorem himask8 (y : BitVec 32) : (y &&& 4278190080#32 = 0#32) ↔ y.toNat < 2^24 := by
  have : y &&& 4278190080#32 = (y >>> 24) <<< 24 := by
    apply BitVec.eq_of_getLsbD_eq; apply forall_lt_32; simp
  rw [this]; bv_omega
theorem himask4 (y : BitVec 32) : (y &&& 4026531840#32 = 0#32) ↔ y.toNat < 2^28 := by
  have : y &&& 4026531840#32 = (y >>> 28) <<< 28 := by
    apply BitVec.eq_of_getLsbD_eq; apply forall_lt_32; simp
  rw [this]; bv_omega
theorem himask2 (y : BitVec 32) : (y &&& 3221225472#32 = 0#32) ↔ y.toNat < 2^30 := by
  have : y &&& 3221225472#32 = (y >>> 30) <<< 30 := by
    apply BitVec.eq_of_getLsbD_eq; apply forall_lt_32; simp
  rw [this]; bv_omega
theorem himask1 (y : BitVec 32) : (y &&& 2147483648#32 = 0#32) ↔ y.toNat < 2^31 := by
  have : y &&& 2147483648#32 = (y >>> 31) <<< 31 := by
    apply BitVec.eq_of_getLsbD_eq; apply forall_lt_32; simp
  rw [this]; bv_omega

theorem msb32_top (x : BitVec 32) (n : Nat) (hn : Top x.toNat n) : msb32 x = BitVec.ofNat 32 (n + 1) := by
  have hx : (!(x != 0#32)) = false := by
    have : x ≠ 0#32 := by
      intro h; have h1 := hn.1; have h2 := Nat.two_pow_pos n; rw [h, BitVec.toNat_ofNat] at h1; omega
    simp [this]
  have hn32 : n < 32 := hn.lt_of_lt x.isLt
  rw [msb32_eq]
  simp only [hx, Bool.false_eq_true, if_false]
  obtain ⟨n1, t1, l1, u1, e1⟩ := msbStage_spec 16 _ himask16 (by omega) x 32#32 n hn (by omega) hn32
  generalize msbStage 16 4294901760#32 (x, 32#32) = p1 at *
  obtain ⟨x1, r1⟩ := p1
  obtain ⟨n2, t2, l2, u2, e2⟩ := msbStage_spec 8 _ himask8 (by omega) x1 r1 n1 t1 (by omega) u1
  generalize msbStage 8 4278190080#32 (x1, r1) = p2 at *
  obtain ⟨x2, r2⟩ := p2
  obtain ⟨n3, t3, l3, u3, e3⟩ := msbStage_spec 4 _ himask4 (by omega) x2 r2 n2 t2 (by omega) u2
  generalize msbStage 4 4026531840#32 (x2, r2) = p3 at *
  obtain ⟨x3, r3⟩ := p3
  obtain ⟨n4, t4, l4, u4, e4⟩ := msbStage_spec 2 _ himask2 (by omega) x3 r3 n3 t3 (by omega) u3
  generalize msbStage 2 3221225472#32 (x3, r3) = p4 at *
  obtain ⟨x4, r4⟩ := p4
  simp only at *
  by_cases h : x4 &&& 2147483648#32 = 0#32
  · have := t4.lt_of_lt ((himask1 x4).1 h)
    have hc : (!(x4 &&& 2147483648#32 != 0#32)) = true := by simp [h]
    simp only [hc, if_true]
    have : n4 = 30 := by omega
    subst this
    bv_omega
  · have : 2^31 ≤ x4.toNat := Nat.le_of_not_lt (fun c => h ((himask1 x4).2 c))
    have := t4.le_of_le this
    have hc : (!(x4 &&& 2147483648#32 != 0#32)) = false := by simp [h]
    simp only [hc, Bool.false_eq_true, if_false]
    have : n4 = 31 := by omega
    subst this
    bv_omega

/-! ## Least significant bit -/

/-- `Low x n`: the least significant set bit of `x` is bit `n` -/
def Low {w : Nat} (x : BitVec w) (n : Nat) : Prop := x.getLsbD n = true ∧ ∀ j, j < n → x.getLsbD j = false

theorem Low.lt {w : Nat} {x : BitVec w} {n : Nat} (h : Low x n) : n < w := by
  apply Classical.byContradiction; intro c
  have := BitVec.getLsbD_of_ge x n (by omega)
  rw [h.1] at this; contradiction

theorem Low.exists_aux {w : Nat} (x : BitVec w) :
    ∀ m, (∃ i, i < m ∧ x.getLsbD i = true) → ∃ n, n < m ∧ Low x n := by
  intro m
  induction m with
  | zero => rintro ⟨i, hi, _⟩; omega
  | succ m ih =>
    rintro ⟨i, hi, hb⟩
    by_cases h : ∃ i, i < m ∧ x.getLsbD i = true
    · obtain ⟨n, hn, hl⟩ := ih h; exact ⟨n, by omega, hl⟩
    · have him : i = m := by
        apply Classical.byContradiction; intro c
        exact h ⟨i, by omega, hb⟩
      subst him
      refine ⟨i, by omega, hb, ?_⟩
      intro j hj
      cases hjb : x.getLsbD j with
      | false => rfl
      | true => exact absurd ⟨j, hj, hjb⟩ h

theorem Low.exists {w : Nat} (x : BitVec w) (hx : x ≠ 0#w) : ∃ n, n < w ∧ Low x n := by
  apply Low.exists_aux x w
  apply Classical.byContradiction; intro c
  apply hx
  apply BitVec.eq_of_getLsbD_eq
  intro i hi
  cases hb : x.getLsbD i with
  | false => simp
  | true => exact absurd ⟨i, hi, hb⟩ c

theorem lomask {w : Nat} (y : BitVec w) (k : Nat) :
    (y &&& BitVec.ofNat w (2^k - 1) = 0#w) ↔ ∀ j, j < k → y.getLsbD j = false := by
  constructor
  · intro h j hj
    have := congrArg (fun z => z.getLsbD j) h
    by_cases hjw : j < w
    · simp only [BitVec.getLsbD_and, BitVec.getLsbD_ofNat, Nat.testBit_two_pow_sub_one] at this
      simpa [hj, hjw] using this
    · exact BitVec.getLsbD_of_ge y j (by omega)
  · intro h
    apply BitVec.eq_of_getLsbD_eq
    intro j hj
    simp only [BitVec.getLsbD_and, BitVec.getLsbD_ofNat, Nat.testBit_two_pow_sub_one]
    by_cases hjk : j < k
    · simp [h j hjk]
    · simp [hjk]

def lsbStage (k : Nat) (m : BitVec 32) (p : BitVec 32 × BitVec 32) : BitVec 32 × BitVec 32 :=
  if (!((p.1 &&& m) != (0#32))) then (p.1 >>> k, p.2 + BitVec.ofNat 32 k) else p

theorem lsb32_eq (x : BitVec 32) : lsb32 x =
    if (!(x != (0#32))) then 0#32 else
      let p := lsbStage 2 3#32 (lsbStage 4 15#32 (lsbStage 8 255#32 (lsbStage 16 65535#32 (x, 1#32))))
      if (!((p.1 &&& (1#32)) != (0#32))) then p.2 + 1#32 else p.2 := by
  rfl

theorem lsbStage_spec (k : Nat) (m : BitVec 32)
    (hm : ∀ y : BitVec 32, (y &&& m = 0#32) ↔ ∀ j, j < k → y.getLsbD j = false)
    (x r : BitVec 32) (n : Nat) (hn : Low x n) (hhi : n < 2 * k) :
    ∃ n', Low (lsbStage k m (x,r)).1 n' ∧ n' < k ∧
      (lsbStage k m (x,r)).2 + BitVec.ofNat 32 n' = r + BitVec.ofNat 32 n := by
  unfold lsbStage
  by_cases h : x &&& m = 0#32
  · have hz := (hm x).1 h
    have hc : (!(x &&& m != 0#32)) = true := by simp [h]
    have hkn : k ≤ n := by
      apply Classical.byContradiction; intro c
      have := hz n (by omega); rw [hn.1] at this; contradiction
    refine ⟨n - k, ?_, by omega, ?_⟩
    · simp only [hc, if_true]
      refine ⟨?_, ?_⟩
      · rw [BitVec.getLsbD_ushiftRight, show k + (n - k) = n by omega]; exact hn.1
      · intro j hj; rw [BitVec.getLsbD_ushiftRight]; exact hn.2 _ (by omega)
    · simp only [hc, if_true]
      bv_omega
  · have hc : (!(x &&& m != 0#32)) = false := by simp [h]
    have hnk : n < k := by
      apply Classical.byContradiction; intro c
      exact h ((hm x).2 (fun j hj => hn.2 j (by omega)))
    refine ⟨n, ?_, hnk, ?_⟩ <;> simp only [hc, Bool.false_eq_true, if_false] <;> exact hn

theorem lsb32_low (x : BitVec 32) (n : Nat) (hn : Low x n) : lsb32 x = BitVec.ofNat 32 (n + 1) := by
  have hx : (!(x != 0#32)) = false := by
    have : x ≠ 0#32 := by
      intro h; have h1 := hn.1; rw [h] at h1; simp at h1
    simp [this]
  have hn32 : n < 32 := hn.lt
  rw [lsb32_eq]
  simp only [hx, Bool.false_eq_true, if_false]
  obtain ⟨n1, t1, u1, e1⟩ := lsbStage_spec 16 65535#32 (lomask · 16) x 1#32 n hn (by omega)
  generalize lsbStage 16 65535#32 (x, 1#32) = p1 at *
  obtain ⟨x1, r1⟩ := p1
  obtain ⟨n2, t2, u2, e2⟩ := lsbStage_spec 8 255#32 (lomask · 8) x1 r1 n1 t1 (by omega)
  generalize lsbStage 8 255#32 (x1, r1) = p2 at *
  obtain ⟨x2, r2⟩ := p2
  obtain ⟨n3, t3, u3, e3⟩ := lsbStage_spec 4 15#32 (lomask · 4) x2 r2 n2 t2 (by omega)
  generalize lsbStage 4 15#32 (x2, r2) = p3 at *
  obtain ⟨x3, r3⟩ := p3
  obtain ⟨n4, t4, u4, e4⟩ := lsbStage_spec 2 3#32 (lomask · 2) x3 r3 n3 t3 (by omega)
  generalize lsbStage 2 3#32 (x3, r3) = p4 at *
  obtain ⟨x4, r4⟩ := p4
  simp only at *
  by_cases h : x4 &&& 1#32 = 0#32
  · have hz := (lomask x4 1).1 h 0 (by omega)
    have hc : (!(x4 &&& 1#32 != 0#32)) = true := by simp [h]
    simp only [hc, if_true]
    have : n4 = 1 := by
      apply Classical.byContradiction; intro c
      have : n4 = 0 := by omega
      subst this; rw [t4.1] at hz; contradiction
    subst this
    bv_omega
  · have hc : (!(x4 &&& 1#32 != 0#32)) = false := by simp [h]
    simp only [hc, Bool.false_eq_true, if_false]
    have : n4 = 0 := by
      apply Classical.byContradiction; intro c
      exact h ((lomask x4 1).2 (fun j hj => t4.2 j (by omega)))
    subst this
    bv_omega

/-! ## 64-bit msb / lsb, UB flags -/

theorem Top.shr {v n : Nat} (h : Top v n) (k : Nat) (hk : k ≤ n) : Top (v / 2^k) (n - k) := by
  unfold Top at *
  constructor
  · rw [Nat.le_div_iff_mul_le (Nat.two_pow_pos k), ← Nat.pow_add, show n - k + k = n by omega]; exact h.1
  · rw [Nat.div_lt_iff_lt_mul (Nat.two_pow_pos k), ← Nat.pow_add, show n - k + 1 + k = n + 1 by omega]; exact h.2

theorem Top.ne_zero {v n : Nat} (h : Top v n) : v ≠ 0 := by
  have := h.1; have := Nat.two_pow_pos n; omega

theorem msb64_top (x : BitVec 64) (n : Nat) (hn : Top x.toNat n) : msb64 x = BitVec.ofNat 32 (n + 1) := by
  have hn64 : n < 64 := hn.lt_of_lt x.isLt
  unfold msb64
  have hh : ((x >>> 32).setWidth 32).toNat = x.toNat / 2^32 := by bv_omega
  have hl : (x.setWidth 32).toNat = x.toNat % 2^32 := by bv_omega
  by_cases h : (x >>> 32).setWidth 32 = 0#32
  · have hc : ((x >>> 32).setWidth 32 != 0#32) = false := by simp [h]
    simp only [hc, Bool.false_eq_true, if_false]
    have : x.toNat / 2^32 = 0 := by rw [← hh, h]; rfl
    apply msb32_top
    rw [hl, Nat.mod_eq_of_lt (by omega)]; exact hn
  · have hc : ((x >>> 32).setWidth 32 != 0#32) = true := by simp [h]
    simp only [hc, if_true]
    have hne : x.toNat / 2^32 ≠ 0 := by
      intro c; apply h; apply BitVec.eq_of_toNat_eq; rw [hh, c]; rfl
    have h32 : 32 ≤ n := hn.le_of_le (by omega)
    have := hn.shr 32 h32
    rw [← hh] at this
    rw [msb32_top _ _ this]
    bv_omega

theorem bv_ne_zero_toNat {w : Nat} {x : BitVec w} (h : x ≠ 0#w) : x.toNat ≠ 0 := by
  intro c; apply h; apply BitVec.eq_of_toNat_eq; simpa using c

theorem lsb64_low (x : BitVec 64) (n : Nat) (hn : Low x n) : lsb64 x = BitVec.ofNat 32 (n + 1) := by
  have hn64 : n < 64 := hn.lt
  have hx : (!(x != 0#64)) = false := by
    have : x ≠ 0#64 := by
      intro h; have h1 := hn.1; rw [h] at h1; simp at h1
    simp [this]
  unfold lsb64
  simp only [hx, Bool.false_eq_true, if_false]
  by_cases h : x &&& 4294967295#64 = 0#64
  · have hc : (x &&& 4294967295#64 != 0#64) = false := by simp [h]
    simp only [hc, Bool.false_eq_true, if_false]
    have hz := (lomask x 32).1 h
    have h32 : 32 ≤ n := by
      apply Classical.byContradiction; intro c
      have := hz n (by omega); rw [hn.1] at this; contradiction
    have : Low ((x >>> 32).setWidth 32) (n - 32) := by
      refine ⟨?_, ?_⟩
      · rw [BitVec.getLsbD_setWidth, BitVec.getLsbD_ushiftRight, show 32 + (n - 32) = n by omega, hn.1]
        simp; omega
      · intro j hj
        rw [BitVec.getLsbD_setWidth, BitVec.getLsbD_ushiftRight, hn.2 _ (by omega)]; simp
    rw [lsb32_low _ _ this]
    bv_omega
  · have hc : (x &&& 4294967295#64 != 0#64) = true := by simp [h]
    simp only [hc, if_true]
    have h32 : n < 32 := by
      apply Classical.byContradiction; intro c
      exact h ((lomask x 32).2 (fun j hj => hn.2 j (by omega)))
    apply lsb32_low
    refine ⟨?_, ?_⟩
    · rw [BitVec.getLsbD_setWidth, hn.1]; simp [h32]
    · intro j hj; rw [BitVec.getLsbD_setWidth, hn.2 _ hj]; simp

/-- shape of one conditional stage of the generated `_ub` companions: the UB flag is threaded unchanged -/
def ubStage (c : BitVec 32 → Bool) (f g : BitVec 32 → BitVec 32)
    (p : BitVec 32 × BitVec 32 × Bool) : BitVec 32 × BitVec 32 × Bool :=
  if c p.1 then (f p.1, g p.2.1, p.2.2) else p

theorem ubStage_flag (c f g p) : (ubStage c f g p).2.2 = p.2.2 := by
  unfold ubStage; split <;> rfl

theorem msb32_ub_false (x : BitVec 32) : msb32_ub x = false := by
  have : msb32_ub x = if (!(x != (0#32))) then false else
      let p := ubStage (fun y => !((y &&& (3221225472#32)) != (0#32))) (· <<< 2) (· - 2#32)
        (ubStage (fun y => !((y &&& (4026531840#32)) != (0#32))) (· <<< 4) (· - 4#32)
        (ubStage (fun y => !((y &&& (4278190080#32)) != (0#32))) (· <<< 8) (· - 8#32)
        (ubStage (fun y => !((y &&& (4294901760#32)) != (0#32))) (· <<< 16) (· - 16#32) (x, 32#32, false))))
      (if (!((p.1 &&& (2147483648#32)) != (0#32))) then (p.2.1 - 1#32, p.2.2) else (p.2.1, p.2.2)).2 := rfl
  rw [this]
  split
  · rfl
  · simp only []
    split <;> simp only [ubStage_flag]

theorem lsb32_ub_false (x : BitVec 32) : lsb32_ub x = false := by
  have : lsb32_ub x = if (!(x != (0#32))) then false else
      let p := ubStage (fun y => !((y &&& (3#32)) != (0#32))) (· >>> 2) (· + 2#32)
        (ubStage (fun y => !((y &&& (15#32)) != (0#32))) (· >>> 4) (· + 4#32)
        (ubStage (fun y => !((y &&& (255#32)) != (0#32))) (· >>> 8) (· + 8#32)
        (ubStage (fun y => !((y &&& (65535#32)) != (0#32))) (· >>> 16) (· + 16#32) (x, 1#32, false))))
      (if (!((p.1 &&& (1#32)) != (0#32))) then (p.2.1 + 1#32, p.2.2) else (p.2.1, p.2.2)).2 := rfl
  rw [this]
  split
  · rfl
  · simp only []
    split <;> simp only [ubStage_flag]
/-! ## Powers of two, logarithms -/

theorem isPow2_32_iff (x : BitVec 32) : isPow2_32 x = true ↔ ∃ k, k < 32 ∧ x.toNat = 2^k := by
  unfold isPow2_32
  have key := @Nat.ne_zero_and_sub_one_eq_zero_iff_isPowerOfTwo x.toNat
  have hsub : x ≠ 0#32 → (x - 1#32).toNat = x.toNat - 1 := by intro h; bv_omega
  simp only [Bool.and_eq_true, beq_iff_eq, bne_iff_ne, ne_eq]
  constructor
  · rintro ⟨h1, h2⟩
    have h3 := congrArg BitVec.toNat h1
    rw [BitVec.toNat_and, hsub h2] at h3
    obtain ⟨k, hk⟩ := key.1 ⟨bv_ne_zero_toNat h2, h3⟩
    refine ⟨k, ?_, hk⟩
    have := x.isLt; rw [hk] at this
    exact (Nat.pow_lt_pow_iff_right (by decide : 1 < 2)).1 this
  · rintro ⟨k, _, hk⟩
    obtain ⟨h2, h3⟩ := key.2 ⟨k, hk⟩
    have hx : x ≠ 0#32 := by intro c; apply h2; rw [c]; rfl
    refine ⟨?_, hx⟩
    apply BitVec.eq_of_toNat_eq
    rw [BitVec.toNat_and, hsub hx, h3]; rfl

theorem isPow2_64_iff (x : BitVec 64) : isPow2_64 x = true ↔ ∃ k, k < 64 ∧ x.toNat = 2^k := by
  unfold isPow2_64
  have key := @Nat.ne_zero_and_sub_one_eq_zero_iff_isPowerOfTwo x.toNat
  have hsub : x ≠ 0#64 → (x - 1#64).toNat = x.toNat - 1 := by intro h; bv_omega
  simp only [Bool.and_eq_true, beq_iff_eq, bne_iff_ne, ne_eq]
  constructor
  · rintro ⟨h1, h2⟩
    have h3 := congrArg BitVec.toNat h1
    rw [BitVec.toNat_and, hsub h2] at h3
    obtain ⟨k, hk⟩ := key.1 ⟨bv_ne_zero_toNat h2, h3⟩
    refine ⟨k, ?_, hk⟩
    have := x.isLt; rw [hk] at this
    exact (Nat.pow_lt_pow_iff_right (by decide : 1 < 2)).1 this
  · rintro ⟨k, _, hk⟩
    obtain ⟨h2, h3⟩ := key.2 ⟨k, hk⟩
    have hx : x ≠ 0#64 := by intro c; apply h2; rw [c]; rfl
    refine ⟨?_, hx⟩
    apply BitVec.eq_of_toNat_eq
    rw [BitVec.toNat_and, hsub hx, h3]; rfl

theorem is_power2_iff (x : BitVec 64) : is_power2 x = true ↔ ∃ k, k < 64 ∧ x.toNat = 2^k :=
  isPow2_64_iff x

theorem msb64_ub_false (x : BitVec 64) : msb64_ub x = false := by
  simp only [msb64_ub, msb32_ub_false]; split <;> rfl

theorem lsb64_ub_false (x : BitVec 64) : lsb64_ub x = false := by
  simp only [lsb64_ub, lsb32_ub_false]; split
  · rfl
  · split <;> rfl

theorem log2floor_ub_false (n : BitVec 64) : log2floor_ub n = false := by
  simp [log2floor_ub, msb64nz_ub, msb64_ub_false]

theorem log2floor_zero : log2floor 0#64 = 0#64 := by decide

theorem log2floor_toNat (n : BitVec 64) (hn : n ≠ 0#64) : (log2floor n).toNat = Nat.log2 n.toNat := by
  have ht := Top.exists (bv_ne_zero_toNat hn)
  have h64 : Nat.log2 n.toNat < 64 := ht.lt_of_lt n.isLt
  unfold log2floor msb64nz
  have hc : (n != 0#64) = true := by simp [hn]
  simp only [hc, if_true]
  rw [msb64_top n _ ht]
  generalize Nat.log2 n.toNat = k at *
  have : BitVec.ofNat 32 (k + 1) - 1#32 = BitVec.ofNat 32 k := by bv_omega
  rw [this]
  have hm : (BitVec.ofNat 32 k).msb = false := by
    rw [BitVec.msb_eq_decide]; simp; omega
  rw [BitVec.signExtend_eq_setWidth_of_msb_false hm]
  simp; omega
theorem one_shl_toNat (k : Nat) (hk : k < 64) : ((1#64) <<< k).toNat = 2^k := by
  rw [BitVec.toNat_shiftLeft, Nat.shiftLeft_eq]
  have : 2^k < 2^64 := (Nat.pow_lt_pow_iff_right (by decide : 1 < 2)).2 hk
  simp; exact this

/-- value of `log2ceil` in terms of `Nat.log2` -/
theorem log2ceil_toNat (n : BitVec 64) (hn : n ≠ 0#64) :
    (log2ceil n).toNat = if 2^(Nat.log2 n.toNat) < n.toNat then Nat.log2 n.toNat + 1 else Nat.log2 n.toNat := by
  have ht := Top.exists (bv_ne_zero_toNat hn)
  have h64 : Nat.log2 n.toNat < 64 := ht.lt_of_lt n.isLt
  have hf := log2floor_toNat n hn
  unfold log2ceil
  simp only [BitVec.ult, hf, Nat.mod_eq_of_lt h64, one_shl_toNat _ h64, decide_eq_true_eq]
  split
  · rw [BitVec.toNat_add, hf]; simp; omega
  · rw [hf]

theorem log2ceil_ub_false (n : BitVec 64) (hn : n ≠ 0#64) : log2ceil_ub n = false := by
  have ht := Top.exists (bv_ne_zero_toNat hn)
  have h64 : Nat.log2 n.toNat < 64 := ht.lt_of_lt n.isLt
  simp [log2ceil_ub, log2floor_ub_false, log2floor_toNat n hn, h64]

theorem log2ceil_zero : log2ceil 0#64 = 0#64 ∧ log2ceil_ub 0#64 = false := by decide

theorem floor2_toNat (n : BitVec 64) (hn : n ≠ 0#64) : (floor2 n).toNat = 2^(Nat.log2 n.toNat) := by
  have ht := Top.exists (bv_ne_zero_toNat hn)
  have h64 : Nat.log2 n.toNat < 64 := ht.lt_of_lt n.isLt
  unfold floor2
  rw [log2floor_toNat n hn, Nat.mod_eq_of_lt h64, one_shl_toNat _ h64]

theorem floor2_ub_false (n : BitVec 64) (hn : n ≠ 0#64) : floor2_ub n = false := by
  have ht := Top.exists (bv_ne_zero_toNat hn)
  have h64 : Nat.log2 n.toNat < 64 := ht.lt_of_lt n.isLt
  simp [floor2_ub, log2floor_ub_false, log2floor_toNat n hn, h64]

theorem log2ceil_le_63 (n : BitVec 64) (hn : n ≠ 0#64) (hle : n.toNat ≤ 2^63) : (log2ceil n).toNat ≤ 63 := by
  have ht := Top.exists (bv_ne_zero_toNat hn)
  rw [log2ceil_toNat n hn]
  split
  · have : 2^(Nat.log2 n.toNat) < 2^63 := by omega
    have := (Nat.pow_lt_pow_iff_right (by decide : 1 < 2)).1 this
    omega
  · have : 2^(Nat.log2 n.toNat) < 2^64 := by have := ht.1; omega
    have := (Nat.pow_lt_pow_iff_right (by decide : 1 < 2)).1 this
    omega

theorem log2ceil_beyond (n : BitVec 64) (h : 2^63 < n.toNat) : (log2ceil n).toNat = 64 := by
  have hn : n ≠ 0#64 := by intro c; rw [c] at h; simp at h
  have ht : Top n.toNat 63 := ⟨by omega, n.isLt⟩
  have : Nat.log2 n.toNat = 63 := Top.unique (Top.exists (bv_ne_zero_toNat hn)) ht
  rw [log2ceil_toNat n hn, this, if_pos h]
/-! ## Bit complement -/

theorem one_shl_bit {w : Nat} (k i : Nat) : ((1#w) <<< k).getLsbD i = decide (i < w ∧ i = k) := by
  rw [BitVec.getLsbD_shiftLeft, BitVec.getLsbD_one]
  by_cases h1 : i < w <;> by_cases h2 : i < k <;> by_cases h3 : i = k <;> simp [h1, h2, h3] <;> omega

theorem and_one_shl_ne_zero {w : Nat} (x : BitVec w) (k : Nat) (hk : k < w) :
    (x &&& ((1#w) <<< k) != 0#w) = x.getLsbD k := by
  cases hb : x.getLsbD k with
  | false =>
    have : x &&& ((1#w) <<< k) = 0#w := by
      apply BitVec.eq_of_getLsbD_eq
      intro i hi
      rw [BitVec.getLsbD_and, one_shl_bit]
      by_cases h : i = k
      · subst h; simp [hb]
      · simp [h]
    simp [this]
  | true =>
    have : x &&& ((1#w) <<< k) ≠ 0#w := by
      intro c
      have := congrArg (fun z => z.getLsbD k) c
      simp only [BitVec.getLsbD_and, one_shl_bit, hb] at this
      simp [hk] at this
    simp [this]

theorem complement32_spec (x b : BitVec 32) (hb : b.toNat < 32) :
    complement32_ub x b = false ∧ (complement32 x b).1 = x.getLsbD b.toNat ∧
    ∀ i, i < 32 → ((complement32 x b).2).getLsbD i = (if i = b.toNat then !(x.getLsbD i) else x.getLsbD i) := by
  refine ⟨?_, ?_, ?_⟩
  · simp [complement32_ub]; omega
  · simp only [complement32, Nat.mod_eq_of_lt hb]
    exact and_one_shl_ne_zero x _ hb
  · intro i hi
    simp only [complement32, Nat.mod_eq_of_lt hb, BitVec.getLsbD_xor, one_shl_bit]
    by_cases h : i = b.toNat <;> simp [h, hi, hb]

theorem complement64_spec (x : BitVec 64) (b : BitVec 32) (hb : b.toNat < 64) :
    complement64_ub x b = false ∧ (complement64 x b).1 = x.getLsbD b.toNat ∧
    ∀ i, i < 64 → ((complement64 x b).2).getLsbD i = (if i = b.toNat then !(x.getLsbD i) else x.getLsbD i) := by
  refine ⟨?_, ?_, ?_⟩
  · simp [complement64_ub]; omega
  · simp only [complement64, Nat.mod_eq_of_lt hb]
    exact and_one_shl_ne_zero x _ hb
  · intro i hi
    simp only [complement64, Nat.mod_eq_of_lt hb, BitVec.getLsbD_xor, one_shl_bit]
    by_cases h : i = b.toNat <;> simp [h, hi, hb]
end CdsVerif.Algo.Bits

/-
  The flat-combining kernel machine `KernelR` with an ARBITRARY deterministic sequential object as its container.

  `KernelR.lean` (tied to the real kernel by trace replay, invariant `KInvR` proved) has a counter as container.  Here the
  container is any `Obj σ`: a state, a step function in the style of `Spec` (`σ → GOp → Option (σ × GRet)`) and the set of
  operations it accepts.  The machine is `KernelR` itself — EVERY kernel step is taken by `KernelR.step` on the embedded
  kernel state `k`, unchanged — plus
    * `opr r`  : the request fields of publication record `r` (the operation and its arguments; written by the owner when
                 it calls the container's member function, i.e. at `invoke`),
    * `resg r` : the response fields of record `r`,
    * `obj`    : the container, touched only by the `exec` step (`fc_apply`), which runs under the lock:
                 `(obj, resg r) := step obj (opr r)`,
    * the operation returns `resg t`, read from its own record after req_Response.
  The only other difference is the rendering of two kinds of events, so that real traces of a container with several
  operation codes can be replayed: the value of `nRequest` while a request is pending is the operation's code
  `Obj.code op` (KernelR: always 2), and `exec r<k> <result>` shows the result, comma-separated.

  Because the kernel part is literally `KernelR`, `KInvR` holds of `k` in every reachable state (`kinvr_of_run` in
  `KernelGLin.lean`) and the C23 theorems hold for every container.
-/
import CdsVerif.Algo.FC.KernelR
namespace CdsVerif.Algo.FC.KernelG
open CdsVerif.Machine CdsVerif.Spec
open CdsVerif.Algo.FC.Kernel (Cfg RV RS Cont CS rvS)

/-- A deterministic sequential object. -/
structure Obj (σ : Type) where
  init : σ
  step : σ → GOp → Option (σ × GRet)
  /-- the operations the container's interface offers -/
  valid : GOp → Bool
  total : ∀ s op, valid op = true → (step s op).isSome = true
  /-- operation id stored in `nRequest` (only used to render events) -/
  code : GOp → Nat

structure St (σ : Type) where
  k : KernelR.St
  obj : σ
  opr : Nat → GOp
  resg : Nat → GRet

variable {σ : Type}

def init (O : Obj σ) (cfg : Cfg) : St σ := ⟨KernelR.init cfg, O.init, fun _ => ⟨"", []⟩, fun _ => []⟩

/-- `fc_apply`: one step of the sequential object (an operation outside the interface leaves it alone; `invoke` never
    accepts one). -/
def applyO (O : Obj σ) (s : σ) (op : GOp) : σ × GRet := (O.step s op).getD (s, [])

def retS (r : GRet) : String := ",".intercalate (r.map toString)

/-- Rendering of `nRequest` of record `j`. -/
def reqV (O : Obj σ) (s : St σ) (j : Nat) : String :=
  if s.k.req j = .op then toString (O.code (s.opr j)) else rvS (s.k.req j)

def invoke (O : Obj σ) (cfg : Cfg) (s : St σ) (t : Tid) (op : GOp) : Option (St σ) :=
  if O.valid op = true then
    (KernelR.invoke cfg s.k t op).map (fun k' => { s with k := k', opr := upd s.opr t op })
  else none

def step (O : Obj σ) (cfg : Cfg) (s : St σ) (t : Tid) : Option (St σ × Ev) :=
  match KernelR.step cfg s.k t with
  | none => none
  | some (k', ev) =>
    match s.k.pc t with
    | .cpExec _ j =>
      some ({ s with k := k', obj := (applyO O s.obj (s.opr j)).1, resg := upd s.resg j (applyO O s.obj (s.opr j)).2 },
            ⟨"exec", KernelR.nloc (some j), retS (applyO O s.obj (s.opr j)).2, ""⟩)
    | .reqSt => some ({ s with k := k' }, { ev with a := toString (O.code (s.opr t)) })
    | .cpReq _ j => some ({ s with k := k' }, { ev with a := reqV O s j })
    | .wtReq => some ({ s with k := k' }, { ev with a := reqV O s t })
    | .wtReq2 => some ({ s with k := k' }, { ev with a := reqV O s t })
    | _ => some ({ s with k := k' }, ev)

def result (s : St σ) (t : Tid) : Option (St σ × GRet) :=
  match KernelR.result s.k t with
  | none => none
  | some (k', _) => some ({ s with k := k' }, s.resg t)

def model (O : Obj σ) (cfg : Cfg) : Model (St σ) := ⟨invoke O cfg, step O cfg, result⟩

/-! ### The kernel part of every transition is the `KernelR` transition -/

theorem invoke_k {O : Obj σ} {cfg : Cfg} {s s' : St σ} {t : Tid} {op : GOp} (h : invoke O cfg s t op = some s') :
    KernelR.invoke cfg s.k t op = some s'.k ∧ s'.obj = s.obj ∧ s'.opr = upd s.opr t op ∧ s'.resg = s.resg ∧
      O.valid op = true := by
  unfold invoke at h
  split at h
  · next hv =>
    cases hk : KernelR.invoke cfg s.k t op with
    | none => simp [hk] at h
    | some k' => simp [hk] at h; subst h; exact ⟨rfl, rfl, rfl, rfl, hv⟩
  · simp at h

theorem step_k {O : Obj σ} {cfg : Cfg} {s s' : St σ} {t : Tid} {ev : Ev} (h : step O cfg s t = some (s', ev)) :
    ∃ ev', KernelR.step cfg s.k t = some (s'.k, ev') ∧ s'.opr = s.opr ∧
      ((∃ c j, s.k.pc t = .cpExec c j ∧ s'.obj = (applyO O s.obj (s.opr j)).1 ∧
          s'.resg = upd s.resg j (applyO O s.obj (s.opr j)).2) ∨
       ((∀ c j, s.k.pc t ≠ .cpExec c j) ∧ s'.obj = s.obj ∧ s'.resg = s.resg)) := by
  unfold step at h
  cases hk : KernelR.step cfg s.k t with
  | none => simp [hk] at h
  | some p =>
    obtain ⟨k', ev'⟩ := p
    simp only [hk] at h
    refine ⟨ev', ?_⟩
    split at h <;> simp only [Option.some.injEq, Prod.mk.injEq] at h <;> obtain ⟨rfl, -⟩ := h
    · next c j hpc => exact ⟨rfl, rfl, Or.inl ⟨c, j, hpc, rfl, rfl⟩⟩
    all_goals (refine ⟨rfl, rfl, Or.inr ⟨?_, rfl, rfl⟩⟩; intro c j hpc; simp_all)

theorem result_k {s s' : St σ} {t : Tid} {r : GRet} (h : result s t = some (s', r)) :
    (∃ r', KernelR.result s.k t = some (s'.k, r')) ∧ s'.obj = s.obj ∧ s'.opr = s.opr ∧ s'.resg = s.resg ∧
      r = s.resg t := by
  unfold result at h
  cases hk : KernelR.result s.k t with
  | none => simp [hk] at h
  | some p =>
    obtain ⟨k', r'⟩ := p
    simp [hk] at h
    obtain ⟨rfl, rfl⟩ := h
    exact ⟨⟨r', rfl⟩, rfl, rfl, rfl, rfl⟩

/-- Every action of the generic machine is, on the kernel part, an action of `KernelR`. -/
theorem apply_k {O : Obj σ} {cfg : Cfg} {s s' : St σ} {t : Tid} {a : Act} {o : Obs}
    (h : (model O cfg).apply s t a = some (s', o)) :
    ∃ o', (KernelR.model cfg).apply s.k t a = some (s'.k, o') := by
  cases a with
  | invoke op =>
    simp only [Model.apply, model, Option.map_eq_some_iff] at h
    obtain ⟨s1, hs1, heq⟩ := h
    simp only [Prod.mk.injEq] at heq
    obtain ⟨rfl, -⟩ := heq
    exact ⟨.call op, by simp [Model.apply, KernelR.model, (invoke_k hs1).1]⟩
  | step =>
    simp only [Model.apply, model, Option.map_eq_some_iff] at h
    obtain ⟨⟨s1, e⟩, hs1, heq⟩ := h
    simp only [Prod.mk.injEq] at heq
    obtain ⟨rfl, -⟩ := heq
    obtain ⟨ev', hk, -⟩ := step_k hs1
    exact ⟨.ev ev', by simp [Model.apply, KernelR.model, hk]⟩
  | ret =>
    simp only [Model.apply, model, Option.map_eq_some_iff] at h
    obtain ⟨⟨s1, r⟩, hs1, heq⟩ := h
    simp only [Prod.mk.injEq] at heq
    obtain ⟨rfl, -⟩ := heq
    obtain ⟨⟨r', hk⟩, -⟩ := result_k hs1
    exact ⟨.ret r', by simp [Model.apply, KernelR.model, hk]⟩

end CdsVerif.Algo.FC.KernelG

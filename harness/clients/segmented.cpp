// C08: cds::container::SegmentedQueue / cds::intrusive::SegmentedQueue (HP, DHP), quasi factor 2..8.
//
// The segmented queue is deliberately NOT a FIFO, so the history is not given to the linearizability
// checker (spec "none").  The client judges every history itself in finish():
//   (a) conservation  every dequeued value was enqueued, nothing is dequeued twice, and
//                     enqueued = dequeued (scheduled) + drained (sequentially, by the main thread) exactly;
//   (b) quasi         when x is dequeued, fewer than quasi_factor() items y exist that were certainly
//                     enqueued before x (enq_res(y) < enq_inv(x)) and are certainly still in the queue
//                     (the operation that removes y is invoked after the dequeue of x has responded);
//   (c) empty         a dequeue reporting "empty" during [inv,res]: every item whose enqueue completed
//                     before inv is taken by a dequeue invoked before res.
// The literal reading of (b) ("y not dequeued by an operation that RESPONDED before x's dequeue was INVOKED")
// also counts items already taken by in-flight dequeues; those can be as many as there are threads, so that
// count is not bounded by the quasi factor.  It is evaluated too and reported as a `# quasi_literal` comment
// (or as an X line of class `quasi_literal` with --literal 1).
//
// Timestamps are the client's own tick()s taken immediately around the library call (same global clock as
// the framework's inv/res, slightly tighter).  Operations executed by the main thread before the scheduled
// run (warm-up) get negative timestamps, the drain after the run continues the clock.
//
// The random permutation generator of the traits is replaced by a deterministic one: the order of a scan
// depends only on (seed, case index, thread id, number of scans this thread has started).
//
// Hidden variant i_hp_named (not drawn at random; tie A with the Lean machine lean/CdsVerif/Algo/Segmented): the intrusive
// HP queue with named locations (segHead, segTail, segLock, s<j> / s<j>.c<i> in allocation order, items i<v>), no address
// reuse, every permutation drawn reported as a `PERM` note, the warm-up reported in the case header (qf= warm=).
// tools/segq_pre.py folds the notes into the CALL lines.
//
// Options: --qf N (constructor argument), --perm 0|1|2 (shuffle | rotation | identity), --prefill N, --predeq N,
//          --literal 1.
#include <cds/init.h>
#include <cds/gc/hp.h>
#include <cds/gc/dhp.h>
#include <cds/intrusive/segmented_queue.h>
#include <cds/container/segmented_queue.h>
#include <algorithm>
#include <map>
#include <memory>
#include <set>
#include "../client.h"

using namespace khizmax_libcds_verif;
namespace ci = cds::intrusive;
namespace cc = cds::container;

// ---------------------------------------------------------------------------------------------------
// deterministic permutation generator (interface of cds::opt::v::random_permutation)

struct PermCtl {
    uint64_t seed = 0;
    int mode = 0;               // 0 = Fisher-Yates shuffle, 1 = rotation (like random2_permutation), 2 = identity
    uint64_t cnt[40];           // per thread (slot tid + 1; the main thread has tid -1): scans started
    bool note = false;          // variant i_hp_named (tie A): every permutation drawn is reported (PERM note / warm-up log)
    bool warming = false;       // the fixture's constructor is running the warm-up
    std::string warm;           // warm-up log: ";E<v>" / ";D" per operation, "/a.b.c" per permutation drawn
    void init( uint64_t s, int m )
    {
        seed = s; mode = m;
        for ( auto& c : cnt ) c = 0;
        note = false; warming = false; warm.clear();
    }
};
static PermCtl g_perm;

template <typename Int = int>
class det_permutation
{
public:
    typedef Int integer_type;
    enum { c_max = 64 };

    det_permutation( size_t nLength )
        : m_n( nLength )
        , m_cur( 0 )
    {
        if ( nLength == 0 || nLength > size_t( c_max )) {
            std::fprintf( stderr, "det_permutation: unsupported length %zu\n", nLength );
            std::abort();
        }
        reset();
    }

    operator integer_type() const { return m_a[m_cur]; }
    bool next() { return ++m_cur < m_n; }

    void reset()
    {
        size_t slot = size_t( current_tid() + 1 ) % 40;
        uint64_t k = g_perm.cnt[slot]++;
        Rng r( g_perm.seed * 0x9E3779B97F4A7C15ull + slot * 0x100000001B3ull + k * 0xD6E8FEB86659FD93ull );
        r.next();
        switch ( g_perm.mode ) {
        case 0:
            for ( size_t i = 0; i < m_n; ++i ) m_a[i] = integer_type( i );
            for ( size_t i = m_n - 1; i > 0; --i ) {
                size_t j = size_t( r.below( i + 1 ));
                std::swap( m_a[i], m_a[j] );
            }
            break;
        case 1: {
            size_t s = size_t( r.below( m_n ));
            for ( size_t i = 0; i < m_n; ++i ) m_a[i] = integer_type(( s + i ) % m_n );
            break;
        }
        default:
            for ( size_t i = 0; i < m_n; ++i ) m_a[i] = integer_type( i );
        }
        m_cur = 0;
        if ( g_perm.note ) {
            // tie A: the permutation is an input of the Lean machine's operation
            std::ostringstream os;
            if ( current_tid() >= 0 ) {
                os << "PERM";
                for ( size_t i = 0; i < m_n; ++i ) os << ' ' << long( m_a[i] );
                ev_note( os.str());
            }
            else if ( g_perm.warming ) {
                for ( size_t i = 0; i < m_n; ++i ) os << ( i ? '.' : '/' ) << long( m_a[i] );
                g_perm.warm += os.str();
            }
        }
    }

private:
    integer_type m_a[c_max];
    size_t const m_n;
    size_t       m_cur;
};

// ---------------------------------------------------------------------------------------------------
// Allocator of the hidden variant i_hp_named (tie A, Lean machine Algo/Segmented): segments are numbered in
// allocation order and named `s<j>` (header) / `s<j>.c<i>` (cells); a freed segment is kept in quarantine while
// the fixture lives, so an address (a name) is never reused: the machine's garbage-collected heap.

namespace segnames {
    static bool active = false;
    static size_t qf = 0;           // cells per segment
    static size_t hdr = 0;          // sizeof( segment )
    static size_t count = 0;        // segments allocated so far
    static std::vector<void*> quarantine;

    template <class T>
    struct alloc {
        typedef T value_type;
        template <class U> struct rebind { typedef alloc<U> other; };
        alloc() noexcept {}
        template <class U> alloc( alloc<U> const& ) noexcept {}
        T* allocate( size_t n, void const* = nullptr )
        {
            char* p = static_cast<char*>( ::operator new( n * sizeof( T )));
            if ( active && n * sizeof( T ) >= hdr + qf * sizeof( void* )) {
                char nm[48];
                std::snprintf( nm, sizeof nm, "s%zu", count );
                reg_name( p, hdr, nm );
                for ( size_t i = 0; i < qf; ++i ) {
                    std::snprintf( nm, sizeof nm, "s%zu.c%zu", count, i );
                    reg_name( p + hdr + i * sizeof( void* ), sizeof( void* ), nm );
                }
                ++count;
            }
            return reinterpret_cast<T*>( p );
        }
        void deallocate( T* p, size_t ) noexcept
        {
            if ( active ) quarantine.push_back( p );
            else ::operator delete( p );
        }
        template <class U> bool operator==( alloc<U> const& ) const noexcept { return true; }
        template <class U> bool operator!=( alloc<U> const& ) const noexcept { return false; }
    };
    inline void start( size_t cells, size_t header ) { active = true; qf = cells; hdr = header; count = 0; }
    inline void stop()
    {
        active = false;
        for ( void* p : quarantine ) ::operator delete( p );
        quarantine.clear();
    }
}

struct ISegQ {
    virtual ~ISegQ() {}
    virtual bool enq( long v ) = 0;
    virtual bool deq( long& v ) = 0;
    virtual size_t quasi_factor() const = 0;
    virtual size_t size() const = 0;
    virtual bool empty() const = 0;
};

struct ctraits : cc::segmented_queue::traits {
    typedef cds::sync::spin lock_type;
    typedef det_permutation<int> permutation_generator;
};
struct itraits : ci::segmented_queue::traits {
    typedef cds::sync::spin lock_type;
    typedef det_permutation<int> permutation_generator;
};
struct ntraits : itraits {
    typedef segnames::alloc<int> allocator;
};

template <class Q>
static void name_queue( Q& q )
{
    reg_name( &q.m_SegmentList.m_pHead, sizeof( q.m_SegmentList.m_pHead ), "segHead" );
    reg_name( &q.m_SegmentList.m_pTail, sizeof( q.m_SegmentList.m_pTail ), "segTail" );
    reg_name( &q.m_SegmentList.m_Lock, sizeof( q.m_SegmentList.m_Lock ), "segLock" );
    reg_name( &q.m_ItemCounter, sizeof( q.m_ItemCounter ), "count" );
}

template <class GC>
struct ContainerSQ : ISegQ {
    typedef cc::SegmentedQueue<GC, long, ctraits> queue_t;
    std::unique_ptr<queue_t> q;
    explicit ContainerSQ( size_t qf ) : q( new queue_t( qf )) { name_queue( *q ); }
    bool enq( long v ) override { return q->enqueue( v ); }
    bool deq( long& v ) override { return q->dequeue( v ); }
    size_t quasi_factor() const override { return q->quasi_factor(); }
    size_t size() const override { return q->size(); }
    bool empty() const override { return q->empty(); }
};

template <class GC, class Traits = itraits>
struct IntrusiveSQ : ISegQ {
    struct item { long v; long enqueued; };
    typedef ci::SegmentedQueue<GC, item, Traits> queue_t;
    std::unique_ptr<queue_t> q;
    std::vector<std::unique_ptr<item>> items;       // client-owned, live until the fixture dies, enqueued once
    char const* item_prefix;
    bool named;
    explicit IntrusiveSQ( size_t qf, bool named_ = false ) : item_prefix( named_ ? "i" : "item" ), named( named_ )
    {
        if ( named )
            segnames::start( cds::beans::ceil2( qf ), sizeof( typename queue_t::segment ));
        q.reset( new queue_t( qf ));
        name_queue( *q );
    }
    ~IntrusiveSQ()
    {
        while ( q->dequeue()) {}        // unlink without disposing
        q.reset();
        if ( named )
            segnames::stop();
    }
    bool enq( long v ) override
    {
        item* p = new item;
        p->v = v; p->enqueued = 1;
        items.emplace_back( p );
        char nm[32];
        std::snprintf( nm, sizeof nm, "%s%ld", item_prefix, v );
        reg_name( p, sizeof( item ), nm );
        return q->enqueue( *p );
    }
    bool deq( long& v ) override
    {
        item* p = q->dequeue();
        if ( !p ) return false;
        v = p->v;
        return true;
    }
    size_t quasi_factor() const override { return q->quasi_factor(); }
    size_t size() const override { return q->size(); }
    bool empty() const override { return q->empty(); }
};

// ---------------------------------------------------------------------------------------------------

struct Fixture {
    static char const* family() { return "segmented"; }
    static std::vector<std::string> variants() { return { "c_hp", "c_dhp", "i_hp", "i_dhp" }; }

    struct EnqRec { long v, inv, res; int tid; bool ok; };
    struct DeqRec { long v, inv, res; int tid; bool ok; };

    std::unique_ptr<ISegQ> s;
    bool failed = false;
    std::string failure;
    std::vector<std::string> more;      // further verdicts of the same case
    size_t qf = 0;
    size_t qf_arg = 0;
    bool literal = false;
    long pre_clock = -1000000;
    std::vector<EnqRec> enqs;
    std::vector<DeqRec> deqs;

    void raise( std::string const& msg )
    {
        if ( !failed ) { failed = true; failure = msg; }
        else more.push_back( msg );
    }

    explicit Fixture( Case const& c )
    {
        static size_t const qf_tab[] = { 2, 4, 8, 3, 5 };
        qf_arg = size_t( c.optl( "qf", long( qf_tab[c.index % 5] )));
        int perm_mode = int( c.optl( "perm", long(( c.index / 5 ) % 3 )));
        literal = c.optl( "literal", 0 ) != 0;
        g_perm.init( c.seed * 1000003ull + c.index, perm_mode );

        std::string const& v = c.variant;
        if ( v == "c_hp" ) s.reset( new ContainerSQ<cds::gc::HP>( qf_arg ));
        else if ( v == "c_dhp" ) s.reset( new ContainerSQ<cds::gc::DHP>( qf_arg ));
        else if ( v == "i_hp" ) s.reset( new IntrusiveSQ<cds::gc::HP>( qf_arg ));
        else if ( v == "i_dhp" ) s.reset( new IntrusiveSQ<cds::gc::DHP>( qf_arg ));
        else if ( v == "i_hp_named" ) {
            // hidden variant (not in variants()): trace-conformance tie with the Lean machine Algo/Segmented
            g_perm.note = true;
            s.reset( new IntrusiveSQ<cds::gc::HP, ntraits>( qf_arg, true ));
        }
        else { std::fprintf( stderr, "unknown variant %s\n", v.c_str()); std::exit( 2 ); }
        qf = s->quasi_factor();
        if ( qf < qf_arg || qf >= 2 * qf_arg || ( qf & ( qf - 1 )) != 0 || qf < 2 ) {
            std::ostringstream os;
            os << "quasi_factor constructor argument " << qf_arg << " gives quasi_factor() " << qf;
            raise( os.str());
        }

        // warm-up by the main thread: `pre` items are enqueued, `dq` of them dequeued again, so that the
        // scheduled program starts on a partly filled / partly consumed chain of segments
        Rng r( c.seed * 7777ull + c.index * 31ull + 5 );
        size_t pre = size_t( c.optl( "prefill", long( r.below( 2 * qf + 2 ))));
        size_t dq = size_t( c.optl( "predeq", long( r.below( pre + 1 ))));
        g_perm.warming = true;
        for ( size_t i = 0; i < pre; ++i )
            do_enq( -1, 1001 + long( i ), true );
        for ( size_t i = 0; i < dq; ++i )
            do_deq( -1, true );
        g_perm.warming = false;
    }
    std::string spec() const { return "none"; }
    // i_hp_named: what the Lean machine needs to rebuild the state the scheduled program starts in (it replays the warm-up)
    std::string header_extra() const
    {
        if ( !g_perm.note ) return std::string();
        std::ostringstream os;
        os << "qf=" << qf << " warm=" << ( g_perm.warm.empty() ? "-" : g_perm.warm );
        return os.str();
    }

    long now( bool pre ) { return pre ? ++pre_clock : long( tick()); }

    bool do_enq( int tid, long v, bool pre )
    {
        long t0 = now( pre );
        if ( pre && g_perm.note ) { std::ostringstream os; os << ";E" << v; g_perm.warm += os.str(); }
        bool ok = s->enq( v );
        long t1 = now( pre );
        enqs.push_back( EnqRec{ v, t0, t1, tid, ok } );
        return ok;
    }
    bool do_deq( int tid, bool pre, long* pv = nullptr )
    {
        long v = 0;
        long t0 = now( pre );
        if ( pre && g_perm.note ) g_perm.warm += ";D";
        bool ok = s->deq( v );
        long t1 = now( pre );
        deqs.push_back( DeqRec{ ok ? v : 0, t0, t1, tid, ok } );
        if ( pv ) *pv = v;
        return ok;
    }

    std::vector<std::vector<Op>> program( Rng& r, int nthreads, int nops )
    {
        std::vector<std::vector<Op>> p( nthreads );
        int hi = nops < 1 ? 1 : nops > 6 ? 6 : nops;
        int lo = hi > 2 ? hi - 2 : 1;
        long v = 1;
        bool flip = r.chance( 50 );
        for ( int t = 0; t < nthreads; ++t ) {
            // producers-mostly and consumers-mostly threads alternate
            bool producer = (( t % 2 ) == 0 ) != flip;
            unsigned enq_pct = producer ? 65 + unsigned( r.below( 25 )) : 15 + unsigned( r.below( 25 ));
            int n = lo + int( r.below( uint64_t( hi - lo + 1 )));
            for ( int i = 0; i < n; ++i ) {
                if ( r.chance( enq_pct )) p[t].push_back( Op( "enq", v++ ));
                else p[t].push_back( Op( "deq" ));
            }
        }
        return p;
    }
    void thread_begin( int ) { set_quiet( true ); cds::threading::Manager::attachThread(); set_quiet( false ); }
    void thread_end( int ) { set_quiet( true ); cds::threading::Manager::detachThread(); set_quiet( false ); }

    std::vector<long> exec( int tid, Op const& op )
    {
        if ( op.name == "enq" ) {
            bool ok = do_enq( tid, op.args[0], false );
            if ( !ok ) {
                std::ostringstream os;
                os << "enqfail enqueue(" << op.args[0] << ") returned false";
                raise( os.str());
            }
            return { ok ? 1L : 0L };
        }
        long v = 0;
        if ( do_deq( tid, false, &v )) return { 1, v };
        return { 0 };
    }

    void finish( std::ostream& out )
    {
        // drain sequentially; the clock goes on, so the drain operations are ordinary late dequeues
        size_t first_drain = deqs.size();
        size_t guard = enqs.size() + 4;
        while ( do_deq( -1, false )) {
            if ( --guard == 0 ) { raise( "conservation drain does not terminate" ); break; }
        }
        out << "# qf_arg=" << qf_arg << " qf=" << qf << " perm=" << g_perm.mode << " warmup_enq="
            << std::count_if( enqs.begin(), enqs.end(), []( EnqRec const& e ) { return e.res < 0; } )
            << " warmup_deq=" << std::count_if( deqs.begin(), deqs.end(), []( DeqRec const& d ) { return d.res < 0; } )
            << " drained=";
        for ( size_t i = first_drain; i < deqs.size(); ++i )
            if ( deqs[i].ok ) out << ' ' << deqs[i].v;
        out << '\n';
        if ( s->size() != 0 || !s->empty()) {
            std::ostringstream os;
            os << "size after the drain size()=" << s->size() << " empty()=" << s->empty();
            raise( os.str());
        }

        // (a) conservation
        std::map<long, size_t> enq_of, deq_of;      // value -> index
        for ( size_t i = 0; i < enqs.size(); ++i ) {
            if ( !enqs[i].ok ) continue;
            if ( !enq_of.insert( { enqs[i].v, i } ).second ) {
                std::ostringstream os;
                os << "client value " << enqs[i].v << " enqueued twice (generator error)";
                raise( os.str());
            }
        }
        for ( size_t i = 0; i < deqs.size(); ++i ) {
            if ( !deqs[i].ok ) continue;
            long v = deqs[i].v;
            if ( !enq_of.count( v )) {
                std::ostringstream os;
                os << "conservation value " << v << " dequeued by thread " << deqs[i].tid << " at [" << deqs[i].inv << ','
                   << deqs[i].res << "] was never enqueued";
                raise( os.str());
                continue;
            }
            auto ins = deq_of.insert( { v, i } );
            if ( !ins.second ) {
                DeqRec const& o = deqs[ins.first->second];
                std::ostringstream os;
                os << "conservation value " << v << " dequeued twice: thread " << o.tid << " [" << o.inv << ',' << o.res
                   << "] and thread " << deqs[i].tid << " [" << deqs[i].inv << ',' << deqs[i].res << "]";
                raise( os.str());
            }
        }
        for ( auto const& e : enq_of )
            if ( !deq_of.count( e.first )) {
                std::ostringstream os;
                os << "conservation value " << e.first << " enqueued at [" << enqs[e.second].inv << ',' << enqs[e.second].res
                   << "] is lost: neither dequeued nor drained";
                raise( os.str());
            }

        // (b) quasi bound
        long const never = 0x7fffffffffffffffL;
        size_t worst = 0, worst_lit = 0;
        for ( auto const& dx : deq_of ) {
            long x = dx.first;
            DeqRec const& d = deqs[dx.second];
            EnqRec const& ex = enqs[enq_of[x]];
            size_t sure = 0, lit = 0;
            std::ostringstream who;
            for ( auto const& ey : enq_of ) {
                long y = ey.first;
                if ( y == x ) continue;
                EnqRec const& e = enqs[ey.second];
                if ( !( e.res < ex.inv )) continue;         // y certainly enqueued before x
                long y_inv = never, y_res = never;
                auto it = deq_of.find( y );
                if ( it != deq_of.end()) { y_inv = deqs[it->second].inv; y_res = deqs[it->second].res; }
                if ( y_inv > d.res ) { ++sure; who << ' ' << y; }
                if ( !( y_res < d.inv )) ++lit;
            }
            worst = std::max( worst, sure );
            worst_lit = std::max( worst_lit, lit );
            if ( sure >= qf ) {
                std::ostringstream os;
                os << "quasi value " << x << " dequeued at [" << d.inv << ',' << d.res << "] by thread " << d.tid
                   << " overtook " << sure << " >= quasi_factor " << qf << " older items still queued:" << who.str();
                raise( os.str());
            }
            if ( lit >= qf ) {
                std::ostringstream os;
                os << "quasi_literal value " << x << " dequeued at [" << d.inv << ',' << d.res << "] by thread " << d.tid
                   << ": " << lit << " >= quasi_factor " << qf << " older items not yet returned by a completed dequeue";
                if ( literal ) raise( os.str());
                else out << "# " << os.str() << '\n';
            }
        }
        out << "# overtake_max=" << worst << " overtake_literal_max=" << worst_lit << '\n';

        // (c) empty rule
        for ( DeqRec const& d : deqs ) {
            if ( d.ok ) continue;
            for ( auto const& ey : enq_of ) {
                EnqRec const& e = enqs[ey.second];
                if ( !( e.res < d.inv )) continue;
                auto it = deq_of.find( ey.first );
                long y_inv = it == deq_of.end() ? never : deqs[it->second].inv;
                if ( !( y_inv < d.res )) {
                    std::ostringstream os;
                    os << "empty dequeue of thread " << d.tid << " at [" << d.inv << ',' << d.res << "] reported empty but value "
                       << ey.first << " (enqueued at [" << e.inv << ',' << e.res << "]) was in the queue: its dequeue is invoked at ";
                    if ( y_inv == never ) os << "never"; else os << y_inv;
                    raise( os.str());
                    break;
                }
            }
        }
        for ( std::string const& m : more )
            out << "X " << m << '\n';
    }
};

int main( int argc, char** argv )
{
    cds::Initialize();
    {
        cds::gc::HP hp( 8, 16 );
        cds::gc::DHP dhp;
        cds::threading::Manager::attachThread();
        int rc = client_main<Fixture>( argc, argv );
        cds::threading::Manager::detachThread();
        (void) rc;
    }
    cds::Terminate();
    return 0;
}

#!/bin/bash
# confirm_seed.sh <worktree> : demo must FAIL with the change applied and PASS with it reverted.
# (does not use `git stash`: the stash is shared by all worktrees of a repository)
W=$1
run_demo() {
  ( cd $W/demo && bash -c "$(head -1 BUILD.txt | sed 's/#.*//')" >/dev/null 2>&1; timeout 120 ./demo > /tmp/confirm.$$.out 2>&1; echo $? )
}
cd $W
git diff --quiet -- cds src && { echo "no change applied in $W"; exit 2; }
git diff -- cds src > /tmp/confirm.$$.diff
A=$(run_demo); tail -2 /tmp/confirm.$$.out
git apply -R /tmp/confirm.$$.diff
B=$(run_demo); tail -1 /tmp/confirm.$$.out
git apply /tmp/confirm.$$.diff
rm -f /tmp/confirm.$$.diff /tmp/confirm.$$.out
echo "with-change rc=$A  without-change rc=$B"
[ "$A" != "0" ] && [ "$B" = "0" ]

/-
  C12 — WeakRingBuffer is an exact SPSC FIFO.
  Property theorems only.  Model: Algo/Ring/Model.lean (typed ring, one step per atomic operation on
  `front_` / `back_`, all interleavings of one producer and one consumer running arbitrary client
  programs); invariant and lemmas: Algo/Ring/Inv.lean.  The record-size helpers of WeakRingBuffer<void>
  are translated from the header on every run (Gen/RingBuffer.lean); Algo/Ring/Void.lean is a
  SEQUENTIAL model of the void variant's record layout (headers, padding, tail markers, caches) built on
  these helpers — the interleavings of the void variant are covered by the harness only.
-/
import CdsVerif.Algo.Ring.Inv
import CdsVerif.Algo.Ring.Void
import CdsVerif.Gen.RingBuffer
namespace CdsVerif.Props.C12
open CdsVerif.Machine CdsVerif.Spec CdsVerif.Algo
open CdsVerif.Gen.RingBuffer

/-! ### Typed ring buffer, all interleavings -/

/-- In every reachable state the sequence of elements delivered to the consumer is a prefix of the
    sequence of elements pushed: every element is delivered at most once, in push order, and nothing
    is invented.  (`C12_typed_buffer_content` shows that the rest is still in the buffer, so nothing
    is lost either.) -/
theorem C12_typed_fifo (cap : Nat) (hcap : 0 < cap) (s : Ring.St)
    (h : Ring.model.Reachable (Ring.init cap) s) :
    ∃ rest, s.pushed = s.popped ++ rest :=
  ⟨_, Ring.fifo_prefix s (Ring.inv_reachable cap hcap s h)⟩

/-- The counters count: `front_` = number of elements delivered, `back_` = number of elements pushed. -/
theorem C12_typed_counters (cap : Nat) (hcap : 0 < cap) (s : Ring.St)
    (h : Ring.model.Reachable (Ring.init cap) s) :
    s.cap = cap ∧ s.front = s.popped.length ∧ s.back = s.pushed.length := by
  have hinv := Ring.inv_reachable cap hcap s h
  refine ⟨?_, hinv.front_eq, hinv.back_eq⟩
  exact Ring.model.inv_reachable (fun s => s.cap = cap) (Ring.init cap) rfl
    (fun s t a s' o hs hap => by
      have := Ring.apply_buf s t a s' o hap
      grind) s h

/-- In every reachable state (in particular whenever both threads are idle) the cells
    `front_ mod cap … (back_ - 1) mod cap` hold exactly the pushed but not yet delivered elements, in
    order, and there are `back_ - front_ ≤ cap` of them. -/
theorem C12_typed_buffer_content (cap : Nat) (hcap : 0 < cap) (s : Ring.St)
    (h : Ring.model.Reachable (Ring.init cap) s) :
    Ring.readCells s.buf s.cap s.front (s.back - s.front) = s.pushed.drop s.popped.length ∧
    s.back - s.front = (s.pushed.drop s.popped.length).length ∧
    s.front ≤ s.back ∧ s.back - s.front ≤ s.cap := by
  have hinv := Ring.inv_reachable cap hcap s h
  refine ⟨Ring.buffer_content s hinv, ?_, Ring.in_flight_le_cap s hinv⟩
  rw [List.length_drop, ← hinv.front_eq, ← hinv.back_eq]

/-- A push of `k` elements returns false only if free space is smaller than `k`: whatever transition
    brings the producer into the state "push is about to return false" is the producer's (second) load
    of `front_` — the event `ld front <front_>` — and at that instant
    `capacity - (back_ - front_) < k`.  (No underflow: `front_ ≤ back_ ≤ front_ + cap`.) -/
theorem C12_push_fails_only_if_full (cap : Nat) (hcap : 0 < cap) (s : Ring.St)
    (h : Ring.model.Reachable (Ring.init cap) s) (t : Tid) (a : Act) (s' : Ring.St) (o : Obs)
    (hap : Ring.model.apply s t a = some (s', o))
    (hold : s.pp ≠ .done [0]) (hnew : s'.pp = .done [0]) :
    t = 0 ∧ a = .step ∧ o = .ev ⟨"ld", "front", toString s.front, ""⟩ ∧
    ∃ vs, s.pp = .ldFront vs s.back ∧ s.cap - (s.back - s.front) < vs.length := by
  have hinv := Ring.inv_reachable cap hcap s h
  obtain ⟨ht, ha, vs, b, hpp, ho, hlt⟩ := Ring.apply_push_fail s t a s' o hap hold hnew
  have hb := hinv.p_ldFront vs b hpp
  have := Ring.in_flight_le_cap s hinv
  subst hb
  exact ⟨ht, ha, ho, vs, hpp, by omega⟩

/-- `false` is what the client then receives, and it is received in no other way. -/
theorem C12_push_result (s : Ring.St) (s' : Ring.St) (r : GRet)
    (h : Ring.model.result s 0 = some (s', r)) : s.pp = .done r := by
  have h' : Ring.result s 0 = some (s', r) := h
  rw [Ring.result, if_pos rfl] at h'
  split at h'
  · simp at h'; obtain ⟨-, rfl⟩ := h'; assumption
  · simp at h'

/-- Conversely the second test is exact: at the producer's load of `front_` the push fails iff the
    free space at that instant is smaller than the batch. -/
theorem C12_push_fails_iff_full (cap : Nat) (hcap : 0 < cap) (s : Ring.St)
    (h : Ring.model.Reachable (Ring.init cap) s) (vs : List Int) (b : Nat) (hpp : s.pp = .ldFront vs b)
    (s' : Ring.St) (e : Ev) (hst : Ring.model.step s 0 = some (s', e)) :
    (s'.pp = .done [0] ↔ s.cap - (s.back - s.front) < vs.length) ∧
    (s'.pp ≠ .done [0] → s'.pp = .stBack vs s.back) := by
  have hinv := Ring.inv_reachable cap hcap s h
  have hb := hinv.p_ldFront vs b hpp
  have := Ring.in_flight_le_cap s hinv
  subst hb
  simp only [Ring.model, Ring.step, hpp, if_true] at hst
  split at hst <;> simp at hst <;> obtain ⟨rfl, -⟩ := hst <;> simp <;> omega

/-- A pop of `k` elements (`front()` / `pop_front()`: `k = 1`) fails only if fewer than `k` elements are
    present: whatever transition brings the consumer into the state "about to return false / nullptr" is
    the consumer's (second) load of `back_` — the event `ld back <back_>` — and at that instant
    `back_ - front_ < k`. -/
theorem C12_pop_fails_only_if_short (cap : Nat) (hcap : 0 < cap) (s : Ring.St)
    (h : Ring.model.Reachable (Ring.init cap) s) (t : Tid) (a : Act) (s' : Ring.St) (o : Obs)
    (hap : Ring.model.apply s t a = some (s', o))
    (hold : s.cp ≠ .done [0]) (hnew : s'.cp = .done [0]) :
    t = 1 ∧ a = .step ∧ o = .ev ⟨"ld", "back", toString s.back, ""⟩ ∧
    ∃ op, s.cp = .ldBack op s.front ∧ s.back - s.front < Ring.need op := by
  have hinv := Ring.inv_reachable cap hcap s h
  obtain ⟨ht, ha, op, f, hcp, ho, hlt⟩ := Ring.apply_pop_fail s t a s' o hap hold hnew
  obtain ⟨hf, -⟩ := hinv.c_ldBack op f hcp
  subst hf
  exact ⟨ht, ha, ho, op, hcp, hlt⟩

theorem C12_pop_result (s : Ring.St) (s' : Ring.St) (r : GRet)
    (h : Ring.model.result s 1 = some (s', r)) : s.cp = .done r := by
  have h' : Ring.result s 1 = some (s', r) := h
  rw [Ring.result, if_neg (by decide), if_pos rfl] at h'
  split at h'
  · simp at h'; obtain ⟨-, rfl⟩ := h'; assumption
  · simp at h'

/-- The producer never writes a cell that holds an element not yet popped: no transition of any thread
    changes a live cell (`front_ ≤ j < back_`), and when the producer is about to copy a batch, the cells
    it is going to write are disjoint from the live ones (from `back_ + count ≤ pfront_ + cap` with the
    producer's conservative view `pfront_ ≤ front_`).  Since the consumer reads only live cells and
    `front_` is advanced only after the copy-out, this also covers a pop in progress. -/
theorem C12_never_overwrites_unconsumed (cap : Nat) (hcap : 0 < cap) (s : Ring.St)
    (h : Ring.model.Reachable (Ring.init cap) s) :
    (∀ t a s' o, Ring.model.apply s t a = some (s', o) →
      ∀ j, s.front ≤ j → j < s.back → s'.buf (j % s.cap) = s.buf (j % s.cap)) ∧
    (∀ vs b, s.pp = .stBack vs b →
      ∀ i, i < vs.length → ∀ j, s.front ≤ j → j < s.back → (b + i) % s.cap ≠ j % s.cap) := by
  have hinv := Ring.inv_reachable cap hcap s h
  refine ⟨?_, fun vs b hpp i hi j h1 h2 => Ring.stBack_disjoint s hinv vs b hpp i hi j h1 h2⟩
  intro t a s' o hap j h1 h2
  rcases Ring.apply_buf s t a s' o hap with ⟨hb, -⟩ | ⟨-, -, vs, b, hpp, hb, -⟩
  · rw [hb]
  · rw [hb]
    exact Ring.writeCells_other _ _ _ _ _
      (fun i hi => Ring.stBack_disjoint s hinv vs b hpp i hi j h1 h2)

/-! ### Non-vacuity: runs that wrap around a capacity-2 buffer -/

set_option synthInstance.maxSize 2000 in
/-- push [1,2]; pop; push [3] (lands in cell 0: the wrap); pop 2: delivered 1,2,3.  The last four
    observations show the exact form of the events and results. -/
example : (Ring.model.run (Ring.init 2)
    [(0, .invoke ⟨"push", [1, 2]⟩), (0, .step), (0, .step), (0, .ret),
     (1, .invoke ⟨"pop", []⟩), (1, .step), (1, .step), (1, .step), (1, .ret),
     (0, .invoke ⟨"push", [3]⟩), (0, .step), (0, .step), (0, .step), (0, .ret),
     (1, .invoke ⟨"popn", [2]⟩), (1, .step), (1, .step), (1, .step), (1, .ret)]).map
      (fun p => (p.1.popped, p.1.pushed, [p.1.front, p.1.back], [p.1.buf 0, p.1.buf 1], p.2.drop 15))
    = some ([1, 2, 3], [1, 2, 3], [3, 3], [3, 2],
        [(1, .ev ⟨"ld", "front", "1", ""⟩), (1, .ev ⟨"ld", "back", "3", ""⟩),
         (1, .ev ⟨"st", "front", "3", ""⟩), (1, .ret [1, 2, 3])]) := by
  decide +kernel

set_option synthInstance.maxSize 2000 in
/-- Interleaved: the consumer's pop overlaps a push; the pop that started on an empty buffer fails; a
    push into the full buffer fails at its load of `front_` (the hypotheses of the two failure theorems
    are satisfiable). -/
example : (Ring.model.run (Ring.init 2)
    [(1, .invoke ⟨"pop", []⟩), (1, .step),
     (0, .invoke ⟨"pushn", [7, 2]⟩), (0, .step),
     (1, .step), (1, .ret),                                   -- pop fails: back_ still 0
     (0, .step), (0, .ret),                                   -- batch 7,8 published
     (0, .invoke ⟨"push", [9]⟩), (0, .step), (0, .step)]).map
      (fun p => (p.1.popped, p.1.pushed, p.1.pp, p.1.cp, p.2.getLast?))
    = some ([], [7, 8], .done [0], .idle, some (0, .ev ⟨"ld", "front", "0", ""⟩)) := by
  decide +kernel

set_option synthInstance.maxSize 2000 in
/-- front / popf (front() + pop_front()) on a rotated buffer (warm-up of the harness client). -/
example : (Ring.model.run (Ring.warmup 2 3)
    [(0, .invoke ⟨"pushn", [5, 2]⟩), (0, .step), (0, .step), (0, .step), (0, .ret),
     (1, .invoke ⟨"front", []⟩), (1, .step), (1, .step), (1, .ret),
     (1, .invoke ⟨"popf", []⟩), (1, .step), (1, .step), (1, .step), (1, .ret)]).map
      (fun p => (p.1.popped.drop 3, p.1.pushed.drop 3, [p.1.front, p.1.back], p.2.drop 8))
    = some ([5], [5, 6], [4, 5],
        [(1, .ret [1, 5]), (1, .call ⟨"popf", []⟩), (1, .ev ⟨"ld", "front", "3", ""⟩),
         (1, .ev ⟨"ld", "front", "3", ""⟩), (1, .ev ⟨"st", "front", "4", ""⟩), (1, .ret [1, 5])]) := by
  decide +kernel

/-! ### The translated helpers of `WeakRingBuffer<void>` -/

/-- The size helpers never hit undefined behaviour (all shifts are by the constant 63). -/
theorem C12_helpers_no_ub (x : BitVec 64) :
    calc_real_size_ub x = false ∧ is_tail_ub x = false ∧ make_tail_ub x = false ∧ untail_ub x = false := by
  refine ⟨?_, ?_, ?_, ?_⟩ <;> simp [calc_real_size_ub, is_tail_ub, make_tail_ub, untail_ub] <;> decide

/-- Tail markers: for every size below 2^63 the mark is recognised, removable, and never present on a
    plain size. -/
theorem C12_tail_roundtrip (x : BitVec 64) (h : x.toNat < 2^63) :
    untail (make_tail x) = x ∧ is_tail (make_tail x) = true ∧ is_tail x = false :=
  ⟨Ring.untail_make_tail x h, Ring.is_tail_make_tail x, Ring.is_tail_of_lt x h⟩

/-- `calc_real_size`: a multiple of 8 with room for the 8-byte header and the payload, wasting at most
    7 bytes of padding. -/
theorem C12_real_size (x : BitVec 64) (h : x.toNat < 2^63) :
    (calc_real_size x).toNat % 8 = 0 ∧ x.toNat + 8 ≤ (calc_real_size x).toNat ∧
    (calc_real_size x).toNat ≤ x.toNat + 15 := by
  rw [Ring.calc_real_size_toNat x h]
  omega

example : calc_real_size 1 = 16 ∧ calc_real_size 8 = 16 ∧ calc_real_size 9 = 24 := by decide
example : untail (make_tail 40) = 40 ∧ is_tail (make_tail 40) = true ∧ is_tail 40 = false := by decide

/-! ### `WeakRingBuffer<void>`: record layout (sequential model, capacity a multiple of 8)

`Void.WF s recs` says that the buffer state `s` holds exactly the byte records `recs`, oldest first
(it contains the hypotheses `8 ∣ capacity`, `0 < capacity < 2^63`); `Void.wf_init` establishes it for the
empty buffer and every operation preserves it (below). -/

open CdsVerif.Algo.Ring in
/-- Initial state: the empty buffer of any capacity that is a positive multiple of 8. -/
theorem C12_void_init (cap : Nat) (h8 : cap % 8 = 0) (hpos : 0 < cap) (hlt : cap < 2 ^ 63) :
    Void.WF (Void.vinit cap) [] := Void.wf_init cap h8 hpos hlt

open CdsVerif.Algo.Ring in
/-- `push_back( data, size )` in any well-formed state: it succeeds iff the free space
    `capacity - (back_ - front_)` is at least the request, where the request is the record's real size
    (8-byte header + payload rounded up to 8) plus, when the record does not fit before the end of the
    buffer, the unusable tail.  On success the record becomes the newest element of the contents; on
    failure the contents are unchanged. -/
theorem C12_void_push (s : Void.VSt) (recs : List (List Void.Byte)) (data : List Void.Byte)
    (h : Void.WF s recs) (hlen : data.length < 2 ^ 63) (s' : Void.VSt) (ok : Bool)
    (hv : Void.vpushData s data = (s', ok)) :
    (ok = true → Void.WF s' (recs ++ [data]) ∧ Void.need s data.length ≤ s.cap - (s.back - s.front)) ∧
    (ok = false → Void.WF s' recs ∧ s.cap - (s.back - s.front) < Void.need s data.length) := by
  obtain ⟨-, -, h1, h2⟩ := Void.vpushData_spec s recs data h hlen s' ok hv
  exact ⟨h1, fun hf => ⟨(h2 hf).1, (h2 hf).2.2⟩⟩

open CdsVerif.Algo.Ring in
/-- `front()` / `pop_front()` on non-empty contents: `front()` returns the address `p` of a contiguous
    area (`p + size ≤ capacity`: never wrapping — a record that did not fit before the end was restarted
    at offset 0 behind a tail marker, which `front()` skips) together with the exact size of the oldest
    record, the bytes there are exactly the bytes pushed, and `pop_front()` then removes exactly this
    record. -/
theorem C12_void_front_exact (s : Void.VSt) (data : List Void.Byte) (rest : List (List Void.Byte))
    (h : Void.WF s (data :: rest)) :
    ∃ s1 p s2, Void.vfront s = (s1, some (p, BitVec.ofNat 64 data.length)) ∧
      Void.readBytes s1.mem p data.length = data ∧ p + data.length ≤ s1.cap ∧
      Void.vpop s1 = (s2, true) ∧ Void.WF s2 rest := by
  obtain ⟨s1, r, hvf, hwf1, -, -, -, hok⟩ := Void.vfront_spec s _ h
  obtain ⟨p, rfl, hbytes, hfit, hdr⟩ := hok
  obtain ⟨s2, hpop, hwf2, -⟩ := Void.vpop_record s1 data rest hwf1 hdr
  exact ⟨s1, p, s2, hvf, hbytes, hfit, hpop, hwf2⟩

open CdsVerif.Algo.Ring in
/-- `front()` returns nullptr only on an empty buffer (possibly after skipping a published tail marker). -/
theorem C12_void_front_empty (s : Void.VSt) (h : Void.WF s []) :
    ∃ s1, Void.vfront s = (s1, none) ∧ Void.WF s1 [] := by
  obtain ⟨s1, r, hvf, hwf1, -, -, -, hok⟩ := Void.vfront_spec s _ h
  simp only [Void.FrontOk] at hok
  subst hok
  exact ⟨s1, hvf, hwf1⟩

open CdsVerif.Algo.Ring in
/-- Round trip of one record through a drained buffer at ANY rotation (so including the positions where
    the record does not fit before the end of the buffer and is wrapped): if the push succeeds, `front()`
    returns exactly its size and bytes, and `pop_front()` leaves the buffer empty again. -/
theorem C12_void_record_roundtrip (s : Void.VSt) (data : List Void.Byte) (h : Void.WF s [])
    (hlen : data.length < 2 ^ 63) (s1 : Void.VSt) (hpush : Void.vpushData s data = (s1, true)) :
    ∃ s2 p s3, Void.vfront s1 = (s2, some (p, BitVec.ofNat 64 data.length)) ∧
      Void.readBytes s2.mem p data.length = data ∧ p + data.length ≤ s2.cap ∧
      Void.vpop s2 = (s3, true) ∧ Void.WF s3 [] := by
  have := ((C12_void_push s [] data h hlen s1 true hpush).1 rfl).1
  exact C12_void_front_exact s1 data [] this

open CdsVerif.Algo.Ring in
/-- Any sequential client program (pushes of arbitrary records, `front()`+`pop_front()` consumptions, in
    any order) on a fresh buffer: the records consumed, followed by the records still in the buffer, are
    exactly the records whose push succeeded, in push order, with their exact sizes and bytes. -/
theorem C12_void_fifo (cap : Nat) (h8 : cap % 8 = 0) (hpos : 0 < cap) (hlt : cap < 2 ^ 63)
    (ops : List Void.VOp) (hlen : ∀ d, Void.VOp.push d ∈ ops → d.length < 2 ^ 63) :
    ∃ remaining, Void.WF (Void.vrun (Void.vinit cap) ops).1 remaining ∧
      (Void.vrun (Void.vinit cap) ops).2.1 = (Void.vrun (Void.vinit cap) ops).2.2 ++ remaining := by
  obtain ⟨q', hwf, he⟩ := Void.vrun_fifo ops _ [] (Void.wf_init cap h8 hpos hlt) hlen
  exact ⟨q', hwf, by simpa using he⟩

open CdsVerif.Algo.Ring in
/-- Non-vacuity, wrap case: capacity 64; a 40-byte record (48 bytes with header) is pushed and consumed,
    so that `back_ = front_ = 48`; the next record (10 bytes, real size 24) does not fit into the 16
    remaining bytes: a tail marker is written, the record goes to offset 0, and it is read back exactly
    (`back_` ends at 48 + 16 + 24 = 88). -/
example : (fun r : Void.VSt × List (List Void.Byte) × List (List Void.Byte) => (r.1.front, r.1.back, r.2.2))
    (Void.vrun (Void.vinit 64)
      [.push (List.replicate 40 1), .consume, .push [1, 2, 3, 4, 5, 6, 7, 8, 9, 10], .consume])
    = (88, 88, [List.replicate 40 1, [1, 2, 3, 4, 5, 6, 7, 8, 9, 10]]) := by
  decide +kernel

end CdsVerif.Props.C12

HOOK_COMMITS = ["1ff129b", "a99d5e7"]
FIX_COMMITS = ["4e1b160", "0b73798", "872da6d", "b5a5c41", "ada87a3", "a2a8667", "23387d2", "95cd43f", "1d40f2f", "9fea99c", "bc380c0"]
NOTES = "See DESIGN.md. Every check rebuilds the Lean property module, audits axioms, rebuilds the harness from /repo's working tree (content-hash cache) and runs the ties."
NOT_APPLICABLE = {
 "C18": "not claimed yet: the snapshot tie (dump of the quiescent structure judged by Lean well-formedness functions) is not built; traversal/size agreement is only indirectly exercised by C13-C16/C20",
 "C19": "not claimed yet: no client drives the thread-safe iterators; planned (iterator operations in the list/hashset clients + relational oracle)",
}
CHECKS = {
 "C09": {
  "category": "translation_validation",
  "technique": "Lean 4: verified linearizability checker (sound+complete theorem) judging histories of the real stacks under a deterministic scheduler",
  "text": "Histories of every stack variant, produced by the real code under seeded random/PCT schedules and exhaustive <=1 (thorough <=2) preemption enumeration, are judged against the Lean LIFO specification by a checker proved sound and complete in Lean. The theorem is about the checker and the specification; the algorithm model (Treiber atomic-step machine) is added on top when finished.",
  "note": "SC interleavings only; memory orders not modelled; explored schedules only for the history tie; Lean kernel + propext/Classical.choice/Quot.sound.",
 },
 "C22": {
  "category": "proof",
  "technique": "Lean 4: inductive invariant over an atomic-step machine of spin_lock (all schedules, threads, locks) + atomic-trace conformance of the real lock against that machine + history tie for all five lock kinds",
  "text": "Mutual exclusion of cds::sync::spin_lock is a Lean theorem over an interleaving machine with one transition per atomic operation, for every schedule, thread count, number of locks and client program obeying the unlock discipline; the machine is tied to the real code by replaying instrumented traces step by step. reentrant_spin_lock, pool_monitor, injecting_monitor and lock_array are decided by histories judged against the Lean lock specification with the verified checker plus occupancy and pool oracles on explored schedules (those clauses are translation validation, named in the evidence).",
  "note": "SC interleavings; memory orders not modelled; discipline (only a holder unlocks) assumed by the theorem and obeyed by the harness; Lean kernel + propext/Classical.choice/Quot.sound.",
 },
 "C25": {
  "category": "proof",
  "technique": "Lean 4 theorems over BitVec about definitions regenerated from the C++ headers on every run (clang AST translator), cross-checked by differential evaluation against the compiled code and a reference semantics",
  "text": "Every bit-reversal implementation, the portable MSB/LSB/popcount/complement helpers and the integer helpers are translated from the headers to Lean on every run; theorems state they equal the mathematical definition for all inputs (BitVec.reverse, log2 bounds, popcount...). The splitters are hand models (number_splitter composed from translated members) with cut/safe_cut specification theorems; all are tied to the compiled code by differential runs that also compare against an independent reference to produce a failing input when something breaks.",
  "note": "Translator and clang AST trusted, cross-checked by differential runs; inline-asm bsr/bsf variants tied to the translated portable model by differential runs only; undefined-behaviour flags (shift >= width) are part of the translation and carried as proof obligations.",
 },
 "C26": {
  "category": "proof",
  "technique": "Lean 4: closed-form characterisation of the bit-reversed counter by induction (all n < 2^63), undo and Dyck theorems, over a hand model whose primitive is translated; differential tie on exhaustive small and random long sequences",
  "text": "The exact sequence of slots is characterised (counter = n, highBit = log2 n, slot = 2^k + rev_k(n-2^k)); slots are pairwise distinct, complete levels are permutations, dec undoes inc exactly, balanced sequences return to the start. The literal 'permutation of 1..n for every n' is false by design (n=5) and is a recorded known finding proved as C26_literal_false.",
  "note": "Hand model of a 30-line class tied by differential runs (exhaustive Dyck prefixes of length 14/18, random walks); no wrap-around at 2^64.",
 },
 "C27": {
  "category": "proof",
  "technique": "Lean 4 theorems over BitVec 64 about split-order functions regenerated from the headers each run, for each of the three reversal implementations; differential tie on the real SplitListSet",
  "text": "regular keys odd, dummies even, parent dummy before child dummy, bucket contiguity and split refinement are theorems about the translated regular_hash/dummy_hash/bucket_no/parent_bucket for all 64-bit hashes and all table sizes 2^0..2^63, with the UB obligations discharged (after the fix: commit). The differential tie calls the real functions (bucket_no through a real SplitListSet object).",
  "note": "Translator trusted and cross-checked; bucket-count logarithm is a parameter (it is an atomic member); rcu/nogc textual copies covered by the fix commit and by reading, not by the translator.",
 },
 "C28": {
  "category": "proof",
  "technique": "Lean 4 theorems about the translated metrics::make and the splitter models (layout exactness, path injectivity, expand-offset agreement); exhaustive differential run over all configurations of the quantifier",
  "text": "Layout exactness is proved for all head/array widths and hash sizes 1,2,4,8 about the Lean definition regenerated from feldman_hashset_base.h; equal hashes follow equal paths, distinct hashes diverge before the bits run out (injectivity of the cut sequence, from the cut specification theorem), the slot expand_slot derives from bit_offset() equals the traverse slot. All 4420 configurations are also run on the real code, and families of prefix-sharing hashes are inserted into a real FeldmanHashSet.",
  "note": "split_bitstring/byte_splitter are hand models tied by differential runs; head width 64 is undefined (known finding with proved witness); widths above 32 with byte-array hashes are outside split_bitstring's unsigned result (proved witness).",
 },
 "C01": {'category': 'translation_validation',
 'note': 'SC interleavings only (threads serialised by a baton at every atomic operation); explored schedules only (seeded random, PCT, exhaustive <=1/<=2 preemptions of small programs); memory '
         'orders not modelled; Lean kernel + propext/Classical.choice/Quot.sound for the checker theorem. std::sort/binary_search/lower_bound modelled by contract; retire discipline (retire after '
         'unlink, once) obeyed by the harness client.',
 'technique': 'Lean 4 theorems about the reclamation decision of a scan pass (pure model tied by differential runs on the real classic_scan/inplace_scan) + disposer-time oracle on the real HP under '
              'a deterministic scheduler',
 'text': "The decision of one scan pass (what is freed given the collected hazards and the retired array, both strategies including the odd-address fallback) is a Lean model with theorems 'nothing "
         "equal to a hazard is freed'; it is tied to the real functions by differential runs. The interleaving-level clause (a guard validated before retirement is seen by every later pass) is "
         'decided on explored schedules of the real code by an oracle evaluated inside the disposer: no guard whose protect() completed may exist for the object. The protocol theorem over all '
         'schedules is work in progress and not claimed.'},
 "C02": {'category': 'translation_validation',
 'note': 'SC interleavings only (threads serialised by a baton at every atomic operation); explored schedules only (seeded random, PCT, exhaustive <=1/<=2 preemptions of small programs); memory '
         'orders not modelled; Lean kernel + propext/Classical.choice/Quot.sound for the checker theorem.',
 'technique': 'disposer-time oracle on the real DHP under a deterministic scheduler (40 guards per thread to force guard-block extension, detach/re-attach) + Lean theorem on the shared scan decision '
              'model',
 'text': "DHP's per-pass decision has the same shape as HP's classic scan (binary search of each retired entry in the sorted hazard copy); the Lean theorem covers that decision. Guard blocks, "
         'retired blocks and record reuse are decided on explored schedules by the disposer-time oracle only.'},
 "C03": {'category': 'translation_validation',
 'note': 'SC interleavings only (threads serialised by a baton at every atomic operation); explored schedules only (seeded random, PCT, exhaustive <=1/<=2 preemptions of small programs); memory '
         'orders not modelled; Lean kernel + propext/Classical.choice/Quot.sound for the checker theorem.',
 'technique': 'Lean 4 theorems (a pass partitions the retired array: kept + freed is a permutation; unprotected => freed) on the scan model tied by differential runs + exactly-once oracles on HP/DHP '
              '(per-object disposer counter, quiet-scan completeness, count after destruction)',
 'text': 'Per pass: nothing lost or duplicated and every unprotected entry freed are Lean theorems about the decision model (both HP strategies). Across passes, help_scan adoption, detach and '
         'destruction are decided on explored schedules by counting disposer calls per object and checking after destruction of the singleton that every retired object was disposed exactly once; '
         'thorough adds an ASan build and the retired-capacity boundary.'},
 "C06": {'category': 'translation_validation',
 'note': 'SC interleavings only (threads serialised by a baton at every atomic operation); explored schedules only (seeded random, PCT, exhaustive <=1/<=2 preemptions of small programs); memory '
         'orders not modelled; Lean kernel + propext/Classical.choice/Quot.sound for the checker theorem.',
 'technique': 'Lean 4: histories of the real containers under a deterministic scheduler judged against the Lean sequential specification by a linearizability checker proved sound and complete in '
              'Lean',
 'text': 'Every queue variant (MSQueue, MoirQueue, BasketQueue, OptimisticQueue, RWQueue, FCQueue; intrusive and container; HP/DHP; item counter, seq-cst) is run. The executable Lean model here is '
         'the sequential specification (Spec.fifo) plus the definition of linearizability; the proved theorem is that the checker decides it exactly, so a history the real code produces is accepted '
         "iff it is linearizable. The containers' algorithms themselves are not yet modelled step by step: the claim is validation of every explored execution of the real code against the model, not "
         'a proof over all schedules. '},
 "C07": {'category': 'translation_validation',
 'note': 'SC interleavings only (threads serialised by a baton at every atomic operation); explored schedules only (seeded random, PCT, exhaustive <=1/<=2 preemptions of small programs); memory '
         'orders not modelled; Lean kernel + propext/Classical.choice/Quot.sound for the checker theorem.',
 'technique': 'Lean 4: histories of the real containers under a deterministic scheduler judged against the Lean sequential specification by a linearizability checker proved sound and complete in '
              'Lean',
 'text': 'Vyukov bounded queue, static/dynamic buffers, capacities 2/4/8, intrusive, single-consumer front/pop_front. The executable Lean model here is the sequential specification (Spec.bfifo with '
         "the object's own capacity()) plus the definition of linearizability; the proved theorem is that the checker decides it exactly, so a history the real code produces is accepted iff it is "
         "linearizable. The containers' algorithms themselves are not yet modelled step by step: the claim is validation of every explored execution of the real code against the model, not a proof "
         'over all schedules. '},
 "C10": {'category': 'translation_validation',
 'note': 'SC interleavings only (threads serialised by a baton at every atomic operation); explored schedules only (seeded random, PCT, exhaustive <=1/<=2 preemptions of small programs); memory '
         'orders not modelled; Lean kernel + propext/Classical.choice/Quot.sound for the checker theorem.',
 'technique': 'Lean 4: histories of the real containers under a deterministic scheduler judged against the Lean sequential specification by a linearizability checker proved sound and complete in '
              'Lean',
 'text': 'FCDeque over std::deque and boost deque, elimination on/off, compact factor 1-2, combine passes 1-4. The executable Lean model here is the sequential specification (Spec.deque) plus the '
         "definition of linearizability; the proved theorem is that the checker decides it exactly, so a history the real code produces is accepted iff it is linearizable. The containers' algorithms "
         'themselves are not yet modelled step by step: the claim is validation of every explored execution of the real code against the model, not a proof over all schedules. '},
 "C11": {'category': 'translation_validation',
 'note': 'SC interleavings only (threads serialised by a baton at every atomic operation); explored schedules only (seeded random, PCT, exhaustive <=1/<=2 preemptions of small programs); memory '
         'orders not modelled; Lean kernel + propext/Classical.choice/Quot.sound for the checker theorem.',
 'technique': 'Lean 4: histories of the real containers under a deterministic scheduler judged against the Lean sequential specification by a linearizability checker proved sound and complete in '
              'Lean',
 'text': 'FCPriorityQueue, and MSPriorityQueue restricted by construction to histories without push/pop overlap (pre-filled pops-only, pushes-only then sequential drain). The executable Lean model '
         'here is the sequential specification (Spec.maxpq (pop returns any item of maximal priority; push fails only when full)) plus the definition of linearizability; the proved theorem is that '
         "the checker decides it exactly, so a history the real code produces is accepted iff it is linearizable. The containers' algorithms themselves are not yet modelled step by step: the claim "
         'is validation of every explored execution of the real code against the model, not a proof over all schedules. '},
 "C13": {'category': 'translation_validation',
 'note': 'SC interleavings only (threads serialised by a baton at every atomic operation); explored schedules only (seeded random, PCT, exhaustive <=1/<=2 preemptions of small programs); memory '
         'orders not modelled; Lean kernel + propext/Classical.choice/Quot.sound for the checker theorem.',
 'technique': 'Lean 4: histories of the real containers under a deterministic scheduler judged against the Lean sequential specification by a linearizability checker proved sound and complete in '
              'Lean',
 'text': '31 list variants (Michael/Lazy/Iterable; set and kv; HP/DHP/RCU gpi,gpb; intrusive; nogc; compare/less; item counter). The executable Lean model here is the sequential specification '
         '(Spec.mapConc (keys strict, functor payloads not atomic with the operation)) plus the definition of linearizability; the proved theorem is that the checker decides it exactly, so a history '
         "the real code produces is accepted iff it is linearizable. The containers' algorithms themselves are not yet modelled step by step: the claim is validation of every explored execution of "
         'the real code against the model, not a proof over all schedules. '},
 "C14": {'category': 'translation_validation',
 'note': 'SC interleavings only (threads serialised by a baton at every atomic operation); explored schedules only (seeded random, PCT, exhaustive <=1/<=2 preemptions of small programs); memory '
         'orders not modelled; Lean kernel + propext/Classical.choice/Quot.sound for the checker theorem.',
 'technique': 'Lean 4: histories of the real containers under a deterministic scheduler judged against the Lean sequential specification by a linearizability checker proved sound and complete in '
              'Lean',
 'text': '53 hash variants (MichaelHashSet/Map over every list, SplitList static/dynamic tables with growth, FeldmanHashSet/Map at minimal widths with shared-prefix hashes; HP/DHP/RCU/nogc). The '
         'executable Lean model here is the sequential specification (Spec.mapConc) plus the definition of linearizability; the proved theorem is that the checker decides it exactly, so a history '
         "the real code produces is accepted iff it is linearizable. The containers' algorithms themselves are not yet modelled step by step: the claim is validation of every explored execution of "
         'the real code against the model, not a proof over all schedules. '},
 "C15": {'category': 'translation_validation',
 'note': 'SC interleavings only (threads serialised by a baton at every atomic operation); explored schedules only (seeded random, PCT, exhaustive <=1/<=2 preemptions of small programs); memory '
         'orders not modelled; Lean kernel + propext/Classical.choice/Quot.sound for the checker theorem.',
 'technique': 'Lean 4: histories of the real containers under a deterministic scheduler judged against the Lean sequential specification by a linearizability checker proved sound and complete in '
              'Lean',
 'text': '27 variants (SkipListSet/Map, EllenBinTree set/map, BronsonAVLTreeMap value/pointer with injecting and pool monitors; HP/DHP/RCU). The executable Lean model here is the sequential '
         'specification (Spec.mapRelaxed) plus the definition of linearizability; the proved theorem is that the checker decides it exactly, so a history the real code produces is accepted iff it is '
         "linearizable. The containers' algorithms themselves are not yet modelled step by step: the claim is validation of every explored execution of the real code against the model, not a proof "
         "over all schedules. extract_min/extract_max: returned key present and empty only if empty are in the specification; 'no key present throughout is smaller/larger' is a real-time oracle over "
         'the history.'},
 "C16": {'category': 'translation_validation',
 'note': 'SC interleavings only (threads serialised by a baton at every atomic operation); explored schedules only (seeded random, PCT, exhaustive <=1/<=2 preemptions of small programs); memory '
         'orders not modelled; Lean kernel + propext/Classical.choice/Quot.sound for the checker theorem.',
 'technique': 'Lean 4: histories of the real containers under a deterministic scheduler judged against the Lean sequential specification by a linearizability checker proved sound and complete in '
              'Lean',
 'text': '23 variants (StripedSet/Map over list/set/flat buckets, striping and refinable policies with forced resizes; CuckooSet/Map striping/refinable, list/vector probe sets, stored hash on/off). '
         'The executable Lean model here is the sequential specification (Spec.mapConc) plus the definition of linearizability; the proved theorem is that the checker decides it exactly, so a '
         "history the real code produces is accepted iff it is linearizable. The containers' algorithms themselves are not yet modelled step by step: the claim is validation of every explored "
         'execution of the real code against the model, not a proof over all schedules. '},
 "C23": {'category': 'translation_validation',
 'note': 'SC interleavings only (threads serialised by a baton at every atomic operation); explored schedules only (seeded random, PCT, exhaustive <=1/<=2 preemptions of small programs); memory '
         "orders not modelled; Lean kernel + propext/Classical.choice/Quot.sound for the checker theorem. wait strategy backoff only; boost TSS replaced by an explicit reset of the kernel's thread "
         'record under the scheduler.',
 'technique': 'histories of every flat-combining container (exactly-once and response-after-execution show as linearizability of the container) + reclamation oracle (quarantining allocator checks at '
              'free time that the publication record is unreachable) under a deterministic scheduler with thread exit as a scheduling point',
 'text': "No kernel model yet: a request executed twice, never, or answered before execution breaks the container's history and is caught by the verified checker; mutual exclusion of combiners "
         'likewise. Reclamation of publication records is judged by an allocator that keeps freed records readable and checks reachability from the publication list at the moment of free. This check '
         'found the compact_list defect (fixed).'},
 "C04": {'category': 'proof',
 'note': 'SC interleavings only (threads serialised by a baton at every atomic operation); explored schedules only for the history/oracle ties; memory orders not modelled; Lean kernel + '
         'propext/Classical.choice/Quot.sound. general_threaded and signal_buffered (OS thread / signals) are not run; std::mutex replaced by the spin lock through the template parameter; the buffer '
         'is an atomic bag in the model (its queue is judged by C07).',
 'technique': 'Lean 4: inductive invariants over an atomic-step machine of the general-purpose RCU (two-phase flip, nesting, epoch tagging, buffer overflow, destruct) for all schedules and thread '
              'counts + oracles evaluated on the real general_instant/general_buffered under a deterministic scheduler',
 'text': 'C04_grace_period, C04_no_dispose_under_preexisting_reader (both general flavours, including the epoch-tag lemma), C04_nested are Lean theorems about a hand model of gp.h/gpi.h/gpb.h. The '
         'model is tied to the code by oracles on the real execution (disposer-time check against every open critical section that began before the retire, synchronize-return check, deref of '
         'poisoned objects), 30000+ schedules per run including buffer capacity 1 and overflow; the trace-conformance replay of this machine is not wired yet (named in the evidence).'},
 "C05": {'category': 'proof',
 'note': 'SC interleavings only (threads serialised by a baton at every atomic operation); explored schedules only for the history/oracle ties; memory orders not modelled; Lean kernel + '
         'propext/Classical.choice/Quot.sound. same limits as C04.',
 'technique': 'Lean 4: conservation invariant (every retired object in exactly one place) and exactly-once theorems over the same RCU machine incl. destruct + per-object disposer counters on the '
              'real code',
 'text': 'C05_at_most_once, C05_only_after_retire, C05_only_after_grace_period, C05_conservation, C05_all_disposed_after_destruct are Lean theorems about the RCU machine (including the element whose '
         'push failed on a full buffer and the pushed-back element with a newer epoch). The real flavours are run with per-object counters checked after destruction of the singleton.'},
 "C12": {'category': 'proof',
 'note': 'SC interleavings only (threads serialised by a baton at every atomic operation); explored schedules only for the history/oracle ties; memory orders not modelled; Lean kernel + '
         'propext/Classical.choice/Quot.sound. counters are Nat (no 2^64 wrap); capacity rounded to a multiple of 8 by the constructor after the fix commit.',
 'technique': 'Lean 4: invariant proofs over a two-thread atomic-step machine of the typed ring buffer (all interleavings, any capacity and batch sizes) tied by trace conformance; proved sequential '
              'model of the variable-size record layout; byte-exact consumer oracle on the real void buffer',
 'text': "C12_typed_fifo, buffer content, push/pop failure characterisations and never-overwrites are theorems about the machine that the real typed buffer's traces are replayed against step by step "
         "(3000+ traces per run). The void variant's record layout (headers, tail markers, wrap) is a proved sequential model over the translated size helpers; its producer/consumer interleavings "
         'are decided by the byte-exact oracle on explored schedules.'},
 "C08": {'category': 'exploration',
 'note': 'SC interleavings only (threads serialised by a baton at every atomic operation); explored schedules only for the history/oracle ties; memory orders not modelled; Lean kernel + '
         'propext/Classical.choice/Quot.sound.',
 'technique': 'oracles over self-recorded real-time histories of the real SegmentedQueue (conservation, quasi bound in its sound real-time reading, empty rule) under a deterministic scheduler with a '
              'deterministic permutation generator; no Lean model yet',
 'text': 'Decided on explored schedules only. The Lean side currently contributes only the verified checker infrastructure; a segmented-queue model is not written.'},
 "C17": {'category': 'translation_validation',
 'note': 'sequential growth only; concurrent resizes are judged by C14/C16.',
 'technique': 'single-threaded differential runs of CuckooSet/StripedSet/SplitListSet growth against a std::set reference after every operation, with degenerate hash families; Lean theorems for the '
              "split-order (C27) and Feldman (C28) parts of 'growth moves nothing it should not'",
 'text': 'SplitList growth never moves an element and Feldman expansion moves one element one level: these parts rest on the C27/C28 theorems. Striped and cuckoo rehash have no Lean model yet: '
         'decided exactly (single-threaded) on generated sequences. The CuckooSet::resize drop is a recorded known finding with a kept witness.'},
 "C20": {'category': 'translation_validation',
 'note': 'variants are those instantiated by the harness clients, not the full trait matrix of test/unit.',
 'technique': 'single-threaded operation sequences on every variant of every client judged against the strict Lean reference specifications by the verified checker; spec laws of update() as Lean '
              'theorems',
 'text': 'About 190 container variants x 2500 sequences per quick run; return values and payloads observed through functors are compared with Spec.map/fifo/bfifo/lifo/deque/maxpq. size/empty/clear, '
         'functor call counts and disposer counts are only partly covered (named in the evidence).'},
 "C21": {'category': 'exploration',
 'note': 'SC interleavings only (threads serialised by a baton at every atomic operation); explored schedules only for the history/oracle ties; memory orders not modelled; Lean kernel + '
         'propext/Classical.choice/Quot.sound.',
 'technique': 'ownership oracles on the real FreeList/TaggedFreeList/CachedFreeList under a deterministic scheduler (double hand-out, invented node, quiescent drain returns exactly the '
              'put-and-not-taken set); Lean model in progress',
 'text': "Decided on explored schedules only, including the re-add-while-referenced race; the client's own history can additionally be judged against Spec.bag."},
 "C24": {'category': 'exploration',
 'note': 'SC interleavings only (threads serialised by a baton at every atomic operation); explored schedules only for the history/oracle ties; memory orders not modelled; Lean kernel + '
         'propext/Classical.choice/Quot.sound.',
 'technique': 'ownership / marker / preallocated-range oracles on the real vyukov_queue_pool, lazy, bounded pools and pool_allocator under a deterministic scheduler, up to and past capacity',
 'text': 'Decided on explored schedules only; rests on C07 for the underlying queue.'},
}

/-
  C08 — placeholder property file: the protocol model and its theorems are being added (see DESIGN.md
  section 6); until then the property is decided by the oracles of the harness client on explored schedules.
-/
import CdsVerif.Base.Spec
namespace CdsVerif.Props.C08
open CdsVerif.Lin CdsVerif.Spec

/-- The history checker used by the harness is exact for the specification it judges against. -/
theorem C08_history_oracle_exact (ops : List (OpRec GOp GRet)) (hwf : ∀ o ∈ ops, o.inv ≤ o.res) :
    linCheck fifo ops = true ↔ Linearizable fifo ops :=
  linCheck_iff _ ops hwf

end CdsVerif.Props.C08

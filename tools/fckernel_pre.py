"""Tie A for the flat-combining kernel: translate the trace of harness/clients/fckernel.cpp (`--trace 1`) into the
vocabulary of the Lean machine CdsVerif/Algo/FC/KernelR.lean (`cdsdriver replay fckernel`).

The pre-pass DROPS NOTHING and REORDERS NOTHING.  Every `T` line of the trace reaches the machine; the only rewriting
is lexical:

 R1  pointer values.  A pointer to a publication record is rendered by the harness with the name of the word at its
     address, which is the record's first member: `r<i>.req` / `head.req`.  In VALUE position (the value read by a
     load, both values of a CAS, the value stored) on a `.next` / `.nexta` location, and as the location of the
     pseudo-event `exec`, it becomes `r<i>` / `head`.  (`null` stays.)

Everything else is passed through unchanged: the header line (the client writes `threads= cf= pass=` itself), CALL / RET,
all atomic events on lock, m_nCount, r<i>.req/.state/.age/.next/.nexta, head.state/.next/.nexta, and the pseudo-event
`exec`.

`situations(text)` counts, on the UNTRANSLATED trace, the situations the tie exercises (used for the coverage report)."""
import re
import vlib

_PTR = re.compile(r"^(r\d+|head)\.req$")


def _p(v):
    m = _PTR.match(v)
    return m.group(1) if m else v


def fckernel_pre_block(block):
    out = []
    for l in block.split("\n"):
        w = l.split()
        if len(w) >= 5 and w[0] == "T" and w[2] == "A":
            kind, loc = w[3], w[4]
            if kind == "exec":
                w[4] = _p(loc)
            elif loc.endswith(".next") or loc.endswith(".nexta"):
                w[5:] = [_p(x) for x in w[5:]]
            out.append(" ".join(w))
        else:
            out.append(l)
    return "\n".join(out)


def fckernel_pre(text):
    out = []
    for cid, block in vlib.split_cases(text):
        out.append(fckernel_pre_block(block.rstrip("\n")))
    return "\n".join(out) + "\n"


def situations(text):
    """Counts over all cases of `text` (raw client output) of the situations the tie exercises:
       deactivated_pending  : compact_list stored `inactive` into a record whose nRequest was an operation id at that moment
       republish_under_lock : the thread that has just taken the lock read its own nState != active and published again
       republish_in_wait    : a waiting owner (its try_lock had failed) read nState != active and published again
       republish_at_acquire : acquire_record found the record inactive and published again
       passive_to_combiner  : a thread whose try_lock had failed took the lock later, its request still pending: combiner
       passive_lock_served  : ... took the lock, found req_Response, gave the lock back
       empty_pass           : a combining pass that applied nothing
       link_cas_failed / unlink_cas_failed : a failed CAS on head.next in publish / on a pNext in compact_list
       served_by_other      : fc_apply of a request by a thread other than its owner
       combining_sessions / passes / compactions / cases / ops : totals"""
    keys = ("cases", "ops", "combining_sessions", "passes", "empty_pass", "compactions", "deactivated_pending",
            "republish_under_lock", "republish_in_wait", "republish_at_acquire", "passive_to_combiner", "passive_lock_served",
            "link_cas_failed", "unlink_cas_failed", "served_by_other")
    c = {k: 0 for k in keys}
    for cid, block in vlib.split_cases(text):
        c["cases"] += 1
        req = {}            # record -> last value stored into its .req
        st = {}             # tid -> state of its current operation
        for l in block.split("\n"):
            w = l.split()
            if len(w) < 3 or w[0] != "T":
                continue
            t = w[1]
            s = st.setdefault(t, dict(failed=False, holds=False, just=False, in_pass=False, applied=0, prev=None))
            if w[2] == "CALL":
                c["ops"] += 1
                s.update(failed=False, holds=False, just=False, in_pass=False, applied=0, prev=None)
                continue
            if w[2] != "A" or len(w) < 5:
                continue
            kind, loc = w[3], w[4]
            v = w[5] if len(w) > 5 else ""
            own = "r%s" % t
            prev, s["prev"] = s["prev"], (kind, loc)
            if kind == "st" and loc.endswith(".req"):
                req[loc[:-4]] = v
            if kind == "xchg" and loc == "lock":
                if v == "1":
                    s["failed"] = True
                else:
                    s["holds"], s["just"] = True, True
                continue
            if s["just"]:
                if kind == "ld" and loc == own + ".req":            # wait_for_combining re-checks the request under the lock
                    c["passive_lock_served" if v == "1" else "passive_to_combiner"] += 1
                    if v == "1":
                        s["just"] = False
                    continue
                s["just"] = False
                if kind == "ld" and loc == own + ".state" and v != "1":
                    c["republish_under_lock"] += 1
            elif kind == "ld" and loc == own + ".state" and not s["holds"] and v != "1":
                c["republish_in_wait" if s["failed"] else "republish_at_acquire"] += 1
            if kind == "add" and loc == "m_nCount":
                c["combining_sessions"] += 1
            if kind == "ld" and loc == "head.state":
                c["passes"] += 1
                s["in_pass"], s["applied"] = True, 0
            if kind == "exec":
                s["applied"] += 1
                if loc.split(".")[0] != own:
                    c["served_by_other"] += 1
            if kind == "ld" and loc.endswith(".next") and v == "null" and s["in_pass"]:
                s["in_pass"] = False
                if s["applied"] == 0:
                    c["empty_pass"] += 1
            if kind == "ld" and loc == "head.nexta":
                c["compactions"] += 1
            if kind == "st" and loc.endswith(".state") and v == "0" and req.get(loc[:-6]) == "2":
                c["deactivated_pending"] += 1
            if kind == "cas-":
                if prev and prev[0] == "st":
                    c["link_cas_failed"] += 1
                else:
                    c["unlink_cas_failed"] += 1
            if kind == "st" and loc == "lock":
                s["holds"] = False
    return c


if __name__ == "__main__":
    import sys
    if len(sys.argv) > 1 and sys.argv[1] == "situations":
        print(situations(sys.stdin.read()))
    else:
        sys.stdout.write(fckernel_pre(sys.stdin.read()))

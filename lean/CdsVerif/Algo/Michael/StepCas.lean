/-
  Preservation of the MichaelList invariant, and the effect on the abstract map, by the steps that write shared
  memory: the helping CAS of `search`, `link_node` (store, CAS, store) and `unlink_node` (marking CAS, unlink CAS).
-/
import CdsVerif.Algo.Michael.Inv
namespace CdsVerif.Algo.Michael
open CdsVerif.Machine CdsVerif.Spec CdsVerif.Lin

set_option maxHeartbeats 4000000 in
theorem sinvl_step_sHelp {s s' : St} {t : Tid} {ev : Ev} {L : List Nat} {o : OpK} {prev cur : Nat}
    {nx : Option Nat}
    (h : SInvL s L) (hpc : s.pc t = .sHelp o prev cur nx) (hs : step s t = some (s', ev)) :
    ∃ L', SInvL s' L' ∧ StepEff s t s' L L' := by
  have hz := h.zero_mem
  have hnd := h.nodup
  have hcur := h.lkCur t cur (by simp [hpc, pcCur])
  have hprev := h.lkPrev t prev (by simp [hpc, pcPrev])
  have hkprev := h.keyPrev t prev (by simp [hpc, pcPrev])
  have hfrz := h.frozen t cur nx (by simp [hpc, pcFrozen])
  have hnxt := h.lkNx t
  simp only [hpc, pcNx, skey] at hnxt hkprev
  have hnm := fun b => h.next_mem (a := prev) (b := b)
  have hmem : ∀ a, a ∈ L.erase cur ↔ (a ≠ cur ∧ a ∈ L) := fun a => List.Nodup.mem_erase_iff hnd
  have hso' : (L.erase cur).Pairwise (Lt s.key) := h.sorted.sublist List.erase_sublist
  have hch' : s.next prev = some cur → prev ∈ L → Chain (upd s.next prev nx) (some 0) (L.erase cur) := by
    intro h1 h2; rw [← hfrz.1]; exact Chain.unlink h1 h.chain hnd h2
  have hhas := has_erase (key := s.key) (val := s.val) hnd hfrz.2
  have h0 := h
  obtain ⟨hch, hso, hal, hun, hm0, hsu, hpriv, hown, hlp, hlc, hln, hkp, hkg, hke, hfr, hic, heo⟩ := h
  simp only [step, hpc] at hs
  split at hs
  next heq =>
    simp at hs; obtain ⟨rfl, -⟩ := hs
    have hpL : prev ∈ L := by grind
    have hcL := hnm cur hpL heq.1
    have hch2 := hch' heq.1 hpL
    cases nx with
    | none =>
      cases o with
      | ins n => step_close (L.erase cur)
      | era k =>
        have hinv' : SInvL ⟨upd s.next prev none, s.mark, s.key, s.val, s.cnt, upd s.pc t (advance (.era k) prev none)⟩ (L.erase cur) := by
          sinv_close
        have habs := fun r hr => (hinv'.lp_absent (p := prev) (o := .era k) (r := r) (by grind) (by grind [okey]) (by simp [upd]) hr).congr_left (fun k v => (hhas k v).symm)
        exact ⟨_, hinv', by eff_close⟩
      | fnd k =>
        have hinv' : SInvL ⟨upd s.next prev none, s.mark, s.key, s.val, s.cnt, upd s.pc t (advance (.fnd k) prev none)⟩ (L.erase cur) := by
          sinv_close
        have habs := fun r hr => (hinv'.lp_absent (p := prev) (o := .fnd k) (r := r) (by grind) (by grind [okey]) (by simp [upd]) hr).congr_left (fun k v => (hhas k v).symm)
        exact ⟨_, hinv', by eff_close⟩
      | con k =>
        have hinv' : SInvL ⟨upd s.next prev none, s.mark, s.key, s.val, s.cnt, upd s.pc t (advance (.con k) prev none)⟩ (L.erase cur) := by
          sinv_close
        have habs := fun r hr => (hinv'.lp_absent (p := prev) (o := .con k) (r := r) (by grind) (by grind [okey]) (by simp [upd]) hr).congr_left (fun k v => (hhas k v).symm)
        exact ⟨_, hinv', by eff_close⟩
    | some x => step_close (L.erase cur)
  next hne =>
    simp at hs; obtain ⟨rfl, -⟩ := hs
    step_close L

set_option maxHeartbeats 2000000 in
theorem sinvl_step_iSt {s s' : St} {t : Tid} {ev : Ev} {L : List Nat} {n prev : Nat} {cur : Option Nat}
    (h : SInvL s L) (hpc : s.pc t = .iSt n prev cur) (hs : step s t = some (s', ev)) :
    ∃ L', SInvL s' L' ∧ StepEff s t s' L L' := by
  have hz := h.zero_mem
  have hn := h.priv t n (by simp [hpc, insNode])
  have hch' : ∀ v, Chain (upd s.next n v) (some 0) L := fun v => Chain.upd hn.2.1 h.chain
  have hhas : ∀ k v, Has (upd s.mark n false) s.key s.val L k v ↔ Has s.mark s.key s.val L k v := by
    intro k v
    have : upd s.mark n false = s.mark := by
      funext a; by_cases e : a = n
      · rw [e, upd_same, hn.2.2]
      · rw [upd_other _ _ _ _ e]
    rw [this]
  obtain ⟨hch, hso, hal, hun, hm0, hsu, hpriv, hown, hlp, hlc, hln, hkp, hkg, hke, hfr, hic, heo⟩ := h
  simp only [step, hpc] at hs
  simp at hs; obtain ⟨rfl, -⟩ := hs
  step_close L

set_option maxHeartbeats 4000000 in
theorem sinvl_step_iCas {s s' : St} {t : Tid} {ev : Ev} {L : List Nat} {n prev : Nat} {cur : Option Nat}
    (h : SInvL s L) (hpc : s.pc t = .iCas n prev cur) (hs : step s t = some (s', ev)) :
    ∃ L', SInvL s' L' ∧ StepEff s t s' L L' := by
  have hz := h.zero_mem
  have hnd := h.nodup
  have hn := h.priv t n (by simp [hpc, insNode])
  have hn0 : n ≠ 0 := fun e => hn.2.1 (e ▸ hz)
  have hprev := h.lkPrev t prev (by simp [hpc, pcPrev])
  have hkprev := h.keyPrev t prev (by simp [hpc, pcPrev])
  have hkgt := h.keyGt t n
  have hnn := h.icas t n prev cur hpc
  simp only [hpc, pcGt, skey] at hkprev hkgt
  have hnm := fun b => h.next_mem (a := prev) (b := b)
  have hmem : prev ∈ L → ∀ a, a ∈ insAfter prev n L ↔ (a ∈ L ∨ a = n) := fun hp a => mem_insAfter hp
  have hch' : s.next prev = cur → prev ∈ L → Chain (upd s.next prev (some n)) (some 0) (insAfter prev n L) := by
    intro h1 h2; exact Chain.insAfter (hnn.trans h1.symm) h.chain hnd h2 hn.2.1
  have hso' : s.next prev = cur → prev ∈ L → (insAfter prev n L).Pairwise (Lt s.key) := by
    intro h1 h2
    refine pairwise_insAfter (nx := s.next) Lt.trans ⟨hn0, hkprev⟩ ?_ h.chain h.sorted h2
    intro c hc
    exact ⟨(hnm c h2 hc).1, Or.inr (hkgt c (by rw [← h1, hc]))⟩
  have hlpok : s.next prev = cur → prev ∈ L →
      LPok (Has s.mark s.key s.val L) ⟨"insert", [s.key n, s.val n]⟩ [1] (Has s.mark s.key s.val (insAfter prev n L)) := by
    intro h1 h2
    refine LPok.ins_ok (h.absent h2 hkprev ?_) (fun j w => has_insert h2 hn0 hn.2.2 j w)
    intro c hc
    exact hkgt c (by rw [← h1, hc])
  obtain ⟨hch, hso, hal, hun, hm0, hsu, hpriv, hown, hlp, hlc, hln, hkp, hkg, hke, hfr, hic, heo⟩ := h
  simp only [step, hpc] at hs
  split at hs
  next heq =>
    simp at hs; obtain ⟨rfl, -⟩ := hs
    have hpL : prev ∈ L := by grind
    have hch2 := hch' heq.1 hpL
    have hso2 := hso' heq.1 hpL
    have hlp2 := hlpok heq.1 hpL
    have hmem2 := hmem hpL
    step_close (insAfter prev n L)
  next hne =>
    simp at hs; obtain ⟨rfl, -⟩ := hs
    step_close L

set_option maxHeartbeats 2000000 in
theorem sinvl_step_iClr {s s' : St} {t : Tid} {ev : Ev} {L : List Nat} {n : Nat}
    (h : SInvL s L) (hpc : s.pc t = .iClr n) (hs : step s t = some (s', ev)) :
    ∃ L', SInvL s' L' ∧ StepEff s t s' L L' := by
  have hz := h.zero_mem
  have hn := h.priv t n (by simp [hpc, insNode])
  have hch' : ∀ v, Chain (upd s.next n v) (some 0) L := fun v => Chain.upd hn.2.1 h.chain
  have hhas : ∀ k v, Has (upd s.mark n false) s.key s.val L k v ↔ Has s.mark s.key s.val L k v := by
    intro k v
    have : upd s.mark n false = s.mark := by
      funext a; by_cases e : a = n
      · rw [e, upd_same, hn.2.2]
      · rw [upd_other _ _ _ _ e]
    rw [this]
  obtain ⟨hch, hso, hal, hun, hm0, hsu, hpriv, hown, hlp, hlc, hln, hkp, hkg, hke, hfr, hic, heo⟩ := h
  simp only [step, hpc] at hs
  simp at hs; obtain ⟨rfl, -⟩ := hs
  step_close L

set_option maxHeartbeats 4000000 in
theorem sinvl_step_eMark {s s' : St} {t : Tid} {ev : Ev} {L : List Nat} {k : Int} {prev cur : Nat}
    {nx : Option Nat}
    (h : SInvL s L) (hpc : s.pc t = .eMark k prev cur nx) (hs : step s t = some (s', ev)) :
    ∃ L', SInvL s' L' ∧ StepEff s t s' L L' := by
  have hz := h.zero_mem
  have hcur := h.lkCur t cur (by simp [hpc, pcCur])
  have hkeq := h.keyEq t cur k (by simp [hpc, pcEq])
  have hnm := fun b => h.next_mem (a := cur) (b := b)
  have hfrE := fun t2 k2 p2 c2 x2 (e : s.pc t2 = .eUnl k2 p2 c2 x2) => (h.frozen t2 c2 x2 (by simp [e, pcFrozen])).2
  have hlpok : cur ∈ L → s.mark cur = false →
      LPok (Has s.mark s.key s.val L) ⟨"erase", [k]⟩ [1, s.val cur] (Has (upd s.mark cur true) s.key s.val L) := by
    intro hc hm
    refine LPok.era_ok (v := s.val cur) ⟨cur, hc, hcur.1, hm, hkeq, rfl⟩ ?_
    intro j w; rw [has_mark h.sorted hc hcur.1, hkeq]
  obtain ⟨hch, hso, hal, hun, hm0, hsu, hpriv, hown, hlp, hlc, hln, hkp, hkg, hke, hfr, hic, heo⟩ := h
  simp only [step, hpc] at hs
  split at hs
  next heq =>
    simp at hs; obtain ⟨rfl, -⟩ := hs
    have hcL : cur ∈ L := by grind
    have hlpok' := hlpok hcL heq.2
    step_close L
  next hne =>
    simp at hs; obtain ⟨rfl, -⟩ := hs
    step_close L

set_option maxHeartbeats 4000000 in
theorem sinvl_step_eUnl {s s' : St} {t : Tid} {ev : Ev} {L : List Nat} {k : Int} {prev cur : Nat}
    {nx : Option Nat}
    (h : SInvL s L) (hpc : s.pc t = .eUnl k prev cur nx) (hs : step s t = some (s', ev)) :
    ∃ L', SInvL s' L' ∧ StepEff s t s' L L' := by
  have hz := h.zero_mem
  have hnd := h.nodup
  have hcur := h.lkCur t cur (by simp [hpc, pcCur])
  have hprev := h.lkPrev t prev (by simp [hpc, pcPrev])
  have hfrz := h.frozen t cur nx (by simp [hpc, pcFrozen])
  have hnm := fun b => h.next_mem (a := prev) (b := b)
  have hmem : ∀ a, a ∈ L.erase cur ↔ (a ≠ cur ∧ a ∈ L) := fun a => List.Nodup.mem_erase_iff hnd
  have hso' : (L.erase cur).Pairwise (Lt s.key) := h.sorted.sublist List.erase_sublist
  have hch' : s.next prev = some cur → prev ∈ L → Chain (upd s.next prev nx) (some 0) (L.erase cur) := by
    intro h1 h2; rw [← hfrz.1]; exact Chain.unlink h1 h.chain hnd h2
  have hhas := has_erase (key := s.key) (val := s.val) hnd hfrz.2
  obtain ⟨hch, hso, hal, hun, hm0, hsu, hpriv, hown, hlp, hlc, hln, hkp, hkg, hke, hfr, hic, heo⟩ := h
  simp only [step, hpc] at hs
  split at hs
  next heq =>
    simp at hs; obtain ⟨rfl, -⟩ := hs
    have hpL : prev ∈ L := by grind
    have hcL := hnm cur hpL heq.1
    have hch2 := hch' heq.1 hpL
    step_close (L.erase cur)
  next hne =>
    simp at hs; obtain ⟨rfl, -⟩ := hs
    step_close L

end CdsVerif.Algo.Michael

"""Tie A for the hazard-pointer protocol machine (lean/CdsVerif/Algo/HP/Protocol.lean, `cdsdriver replay hp`).

`hp_pre(text)` rewrites the trace of harness/clients/smr.cpp run with `--static 1 --trace 1` (variants hp_classic,
hp_classic_odd) into the machine's vocabulary.  Nothing is invented: every line of the output is a line of the input,
renamed, or a real atomic store translated into the machine's name for the step it completes.

Translation rules (per case):
  R1 thread / record names.  The note `T <t> RECORDS r0 r1 ...` (written when the last thread has attached) lists the
     owners of the thread records in the order classic_scan walks `thread_list_` (head first: the record attached last).
     The machine's thread u owns record u and a scan reads the records 0 .. T-1, so thread id r_k is renamed to k
     everywhere: line prefix `T <t>`, hazard slots `hp<t>.<g>`, `cur<t>`.
  R2 pointer values: the low-bit suffix `|1` of an object at an odd address (`o7|1`) is dropped (objects are ids).
  R3 `st cur<t> ...` - the store to `retired_array::current_` of the thread's own record - is the completion of
        * `retired_.push(p)`       -> `A retire T<t> o<p>`   (first such store of a swap/take operation; p is the old
                                       value of the operation's own xchg on the cell)
        * stage 2 of classic_scan  -> `A free T<t> [ids]`     (`retired.reset(n)`: the first such store of a `scan`
                                       operation, the second of a swap/take; ids = the `dispose o<id>` notes the
                                       disposer wrote on this thread since the operation began, in order)
     `ld cur<t>` lines (push / `retired.last()`) and the `dispose` notes themselves are dropped.  Disposer calls that are
     still pending when the operation returns are emitted as a `free` event in front of the RET line (no step of the
     machine matches: a disposal outside a scan decision is a divergence).
  R4 `CALL deref g` / `RET -1` (the guard held nothing: the client did nothing; the machine's `deref` is only enabled
     on a guard that holds an object) are dropped.
  R5 fences (none in the current code: `sync()` is a fetch_add on an unnamed location) are dropped: the machine is
     sequentially consistent, the store to the hazard slot and the following `sync()` are one step.
  R6 everything else is kept: events on unnamed locations (`thread_list_`, `owner_rec_`, `sync_`), on `barrier`,
     are skipped by the driver (`relevant`).
  Lines of the tear-down (after the second barrier; unscheduled) carry no events.

`hp_stats(text)` counts, on the REWRITTEN text, the cases that contain: a scan decision that kept an object (it was in
the retired array and was not freed, i.e. some hazard slot held it), a scan decision that freed something, a protect
whose validating re-load failed at least once (three or more loads of the cell), a retire that started a scan by itself.
"""
import re
import sys
import os

sys.path.insert(0, os.path.dirname(os.path.abspath(__file__)))
import vlib

_mark = re.compile(r"\|\d+$")


def _val(v):
    return _mark.sub("", v)


def _rename_loc(loc, pos):
    m = re.match(r"hp(\d+)\.(\d+)$", loc)
    if m and m.group(1) in pos:
        return "hp%s.%s" % (pos[m.group(1)], m.group(2))
    m = re.match(r"cur(\d+)$", loc)
    if m and m.group(1) in pos:
        return "cur%s" % pos[m.group(1)]
    return loc


def hp_pre_block(block):
    lines = block.rstrip("\n").split("\n")
    pos = {}
    for l in lines:
        w = l.split()
        if len(w) >= 3 and w[0] == "T" and w[2] == "RECORDS":
            for k, owner in enumerate(w[3:]):
                pos[owner] = str(k)
    out = []
    cur = {}          # real tid -> state of the operation in progress
    for l in lines:
        w = l.split()
        if len(w) < 3 or w[0] != "T":
            out.append(l)
            continue
        t = w[1]
        if w[2] == "RECORDS":
            continue
        if t not in pos:                  # main thread (tear-down notes) or a case without the RECORDS note
            if w[2] == "dispose":
                continue
            out.append(l)
            continue
        u = pos[t]
        if w[2] == "CALL":
            cur[t] = {"op": w[3], "stores": 0, "old": None, "disposed": [], "call_at": len(out)}
            out.append("T %s CALL %s" % (u, " ".join(w[3:])))
        elif w[2] == "RET":
            st = cur.pop(t, None)
            if st and st["op"] == "deref" and w[3:] == ["-1"]:
                out[st["call_at"]] = None                       # R4
                continue
            if st and st["disposed"]:
                out.append("T %s A free T%s [%s]" % (u, u, ",".join(st["disposed"])))      # R3, unmatched disposals
            out.append("T %s RET%s" % (u, "".join(" " + x for x in w[3:])))
        elif w[2] == "dispose":
            st = cur.get(t)
            if st is not None:
                st["disposed"].append(w[3][1:] if w[3].startswith("o") else w[3])
            # outside an operation (tear-down): not part of the traced execution
        elif w[2] == "A":
            if w[3] == "fence":
                continue                                          # R5
            kind, loc = w[3], w[4] if len(w) > 4 else ""
            vals = [_val(x) for x in w[5:]]
            st = cur.get(t)
            if re.match(r"cur\d+$", loc):
                if kind == "ld":
                    continue
                if kind == "st" and st is not None and loc == "cur" + t:
                    st["stores"] += 1
                    if st["op"] in ("swap", "take") and st["stores"] == 1:
                        out.append("T %s A retire T%s %s" % (u, u, st["old"] or "?"))
                    else:
                        out.append("T %s A free T%s [%s]" % (u, u, ",".join(st["disposed"])))
                        st["disposed"] = []
                    continue
                out.append("T %s A %s %s %s" % (u, kind, "T%s!foreign-%s" % (u, loc), " ".join(vals)))   # another thread's array: never
                continue
            if kind == "xchg" and loc.startswith("cell") and st is not None and len(vals) >= 1:
                st["old"] = vals[0] if vals[0] != "null" else None
            out.append(("T %s A %s %s %s" % (u, kind, _rename_loc(loc, pos), " ".join(vals))).rstrip())
        else:
            out.append("T %s %s" % (u, " ".join(w[2:])))
    return "\n".join(x for x in out if x is not None) + "\n"


def hp_pre(text):
    return "".join(hp_pre_block(block) for cid, block in vlib.split_cases(text))


def hp_stats(text):
    """Counts over rewritten cases (see the module comment)."""
    res = {"cases": 0, "scan_kept_guarded": 0, "scan_freed": 0, "protect_retry": 0, "retire_started_scan": 0,
           "scans": 0, "scan_kept_and_freed": 0, "deref": 0, "deref_retired": 0, "protect_null": 0,
           "objects_freed": 0, "protect_retries_max": 0}
    for cid, block in vlib.split_cases(text):
        res["cases"] += 1
        retired = {}
        op = {}
        loads = {}
        flags = set()
        for l in block.split("\n"):
            w = l.split()
            if len(w) < 3 or w[0] != "T":
                continue
            t = w[1]
            if w[2] == "CALL":
                op[t] = w[3]
                loads[t] = 0
            elif w[2] == "RET":
                if op.get(t) == "protect":
                    if loads.get(t, 0) >= 3:
                        flags.add("protect_retry")
                        res["protect_retries_max"] = max(res["protect_retries_max"], loads[t] - 2)
                    if w[3:] == ["0"]:
                        flags.add("protect_null")
                op.pop(t, None)
            elif w[2] == "A" and len(w) >= 5:
                if w[3] == "ld" and w[4].startswith("cell"):
                    loads[t] = loads.get(t, 0) + 1
                elif w[3] == "retire":
                    retired.setdefault(t, []).append(w[5][1:])
                elif w[3] == "free":
                    freed = [x for x in w[5].strip("[]").split(",") if x]
                    res["scans"] += 1
                    res["objects_freed"] += len(freed)
                    kept = [x for x in retired.get(t, []) if x not in freed]
                    retired[t] = kept
                    if kept:
                        flags.add("scan_kept_guarded")
                    if freed:
                        flags.add("scan_freed")
                    if kept and freed:
                        flags.add("scan_kept_and_freed")
                    if op.get(t) in ("swap", "take"):
                        flags.add("retire_started_scan")
                elif w[3] == "use":
                    flags.add("deref")
                    if w[5] == "retired":
                        flags.add("deref_retired")
        for f in flags:
            res[f] += 1
    return res


if __name__ == "__main__":
    sys.stdout.write(hp_pre(sys.stdin.read()))

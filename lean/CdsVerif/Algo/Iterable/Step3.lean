/-
  Preservation of `SInv`, part 3: the iterator's steps, `invoke`, `result`; `SInv` holds in every reachable state.
-/
import CdsVerif.Algo.Iterable.Step2
namespace CdsVerif.Algo.Iterable
open CdsVerif.Machine CdsVerif.Spec

/-- Another thread keeps its facts when the stepping thread changes its own iterator state. -/
theorem TInv.frame_iter {s : St} {t' : Tid} (h : SInv s) (hpf : Tid → Option Nat) (hvf : Tid → Bool)
    (itf : Tid → Nat) (pcf : Tid → PC) (yf : Tid → List Nat) (cf : Tid → Nat → Bool)
    (h1 : hpf t' = s.hp t') (h2 : hvf t' = s.hv t') (h3 : itf t' = s.itn t') :
    TInv { s with hp := hpf, hv := hvf, itn := itf, pc := pcf, yl := yf, cand := cf } t' (s.pc t') := by
  apply (h.thr t').frame <;>
    first | rfl | exact Nat.le_refl _ | exact h1 | exact h2 | exact h3 | (intros; rfl) | (intros; exact ⟨rfl, rfl⟩)
          | (intros; exact ⟨rfl, rfl, rfl⟩) | (intros; assumption)

set_option hygiene false in
/-- The obligations of `sinv_build_keep` for a step that writes only the stepping thread's iterator state. -/
macro "iterstep" h:ident hpc:ident t:ident Y:term : tactic =>
  `(tactic| (apply sinv_build_keep $h (t := $t) (Y := $Y)
             · rfl
             · exact ($h).ord
             · exact ($h).fresh
             · exact ($h).elem
             · exact ($h).bit
             · intro a ha; have := hown a ha; projs <;> (try exact this)
             · intro a t0 h0 ha; exact ha
             · constructor <;> intros <;> projs <;> (try dsimp only at *) <;> (try tfin)
             · intro t0 h0
               exact TInv.frame_iter $h _ _ _ _ _ _ (by first | rfl | exact upd_other _ _ _ _ h0)
                 (by first | rfl | exact upd_other _ _ _ _ h0) (by first | rfl | exact upd_other _ _ _ _ h0)
             · keep $hpc
             · keep $hpc))

theorem step_itLd1 {s : St} {t : Tid} (h : SInv s) (hpc : s.pc t = .itLd1) :
    SInv { s with pc := upd s.pc t (.itHp (s.data (s.itn t))) } := by
  unpack h hpc t
  pconly h hpc

theorem step_itHp {s : St} {t : Tid} {w : DW} (h : SInv s) (hpc : s.pc t = .itHp w) :
    SInv { s with hp := upd s.hp t w.p, hv := upd s.hv t false, pc := upd s.pc t (.itLd2 w) } := by
  unpack h hpc t
  iterstep h hpc t (.itLd2 w)

theorem step_itLd2_some {s : St} {t : Tid} {w : DW} {e : Nat} (h : SInv s) (hpc : s.pc t = .itLd2 w)
    (hd : s.data (s.itn t) = w) (hw : w.p = some e) :
    SInv { s with hv := upd s.hv t true, yl := upd s.yl t (s.yl t ++ [e]),
                  pc := upd s.pc t (.done [1, (e : Int)]) } := by
  unpack h hpc t
  have hp : (s.data (s.itn t)).p = some e := by rw [hd]; exact hw
  have h1 := h.elem.ehome _ _ hp
  have h2 := h.elem.live _ _ hp
  have h3 := h.elem.dret e
  iterstep h hpc t (.done [1, (e : Int)])

theorem step_itLd2_none {s : St} {t : Tid} {w : DW} (h : SInv s) (hpc : s.pc t = .itLd2 w) (hw : w.p = none) :
    SInv { s with hv := upd s.hv t true, pc := upd s.pc t .itNext } := by
  unpack h hpc t
  iterstep h hpc t .itNext

theorem step_itLd2_retry {s : St} {t : Tid} {w : DW} (h : SInv s) (hpc : s.pc t = .itLd2 w) :
    SInv { s with pc := upd s.pc t (.itHp (s.data (s.itn t))) } := by
  unpack h hpc t
  pconly h hpc

theorem step_itNext_end {s : St} {t : Tid} (h : SInv s) (hpc : s.pc t = .itNext) :
    SInv { s with pc := upd s.pc t .itClr } := by
  unpack h hpc t
  pconly h hpc

theorem step_itNext_move {s : St} {t : Tid} (h : SInv s) (hpc : s.pc t = .itNext)
    (hne : ¬ s.next (s.itn t) = s.itn t) :
    SInv { s with itn := upd s.itn t (s.next (s.itn t)), pc := upd s.pc t .itLd1 } := by
  unpack h hpc t
  have h2 : s.itn t ≠ 2 := fun e => hne (by rw [e, o14])
  have h3 := (o6 _ _ (o12 _ a16 h2)).2
  iterstep h hpc t .itLd1

theorem step_itClr {s : St} {t : Tid} (h : SInv s) (hpc : s.pc t = .itClr) :
    SInv { s with hp := upd s.hp t none, hv := upd s.hv t false, pc := upd s.pc t (.done [0]) } := by
  unpack h hpc t
  iterstep h hpc t (.done [0])

theorem step_relClr {s : St} {t : Tid} (h : SInv s) (hpc : s.pc t = .relClr) :
    SInv { s with hp := upd s.hp t none, hv := upd s.hv t false, pc := upd s.pc t (.done []) } := by
  unpack h hpc t
  iterstep h hpc t (.done [])

theorem step_endLd1 {s : St} {t : Tid} (h : SInv s) (hpc : s.pc t = .endLd1) :
    SInv { s with pc := upd s.pc t (.endLd2 (s.data tl)) } := by
  unpack h hpc t
  pconly h hpc

theorem step_endLd2 {s : St} {t : Tid} {w : DW} {Y : PC} (h : SInv s) (hpc : s.pc t = .endLd2 w)
    (hY : Y = .endNext ∨ Y = .done [] ∨ ∃ w', Y = .endLd2 w') :
    SInv { s with pc := upd s.pc t Y } := by
  unpack h hpc t
  rcases hY with rfl | rfl | ⟨w', rfl⟩ <;> pconly h hpc

theorem step_endNext {s : St} {t : Tid} (h : SInv s) (hpc : s.pc t = .endNext) :
    SInv { s with pc := upd s.pc t (.done []) } := by
  unpack h hpc t
  pconly h hpc

theorem step_eaCas_fail {s : St} {t : Tid} {e : Nat} (h : SInv s) (hpc : s.pc t = .eaCas e) :
    SInv { s with pc := upd s.pc t (.done [0]) } := by
  unpack h hpc t
  pconly h hpc

theorem step_eaCas_ok {s : St} {t : Tid} {e : Nat} (h : SInv s) (hpc : s.pc t = .eaCas e)
    (hd : s.data (s.itn t) = ⟨some e, false⟩) :
    SInv { (s.removed t e) with data := upd s.data (s.itn t) ⟨none, false⟩, pc := upd s.pc t (.done [1]) } := by
  unpack h hpc t
  have hlk : s.lk (s.itn t) = true := a16
  have hcnt := o5 _ hlk
  apply sinv_build_keep h (t := t) (Y := .done [1])
  · rfl
  · exact h.ord
  · exact freshP_data' h.fresh _ _ hcnt
  · exact elemP_remove h.elem _ _ _ (by rw [hd])
  · exact bit_upd_data h.bit _ _ (by rw [hd])
  · intro a ha; have := hown a ha; projs
  · intro a t0 h0 ha; exact ha
  · constructor <;> intros <;> (try dsimp only [St.removed] at *) <;> projs <;> (try tfin)
  · intro t0 h0; exact TInv.frame_remove h h0 _ _ _ _ _ _ hlk hd (fun _ _ hx => hx) (fun _ _ => rfl)
  · keep hpc
  · keep hpc

theorem unguarded_iff (s : St) (e : Nat) : unguarded s e = true ↔ ∀ t, t < s.nt → s.hp t ≠ some e := by
  simp [unguarded, List.all_eq_true]

/-- `result`: the operation returns. -/
theorem sinv_result {s s' : St} {t : Tid} {r : GRet} (h : SInv s) (hs : result s t = some (s', r)) : SInv s' := by
  unfold result at hs
  split at hs
  next r' hpc =>
    simp only [Option.some.injEq, Prod.mk.injEq] at hs
    obtain ⟨rfl, -⟩ := hs
    unpack h hpc t
    pconly h hpc
  next => cases hs

/-- A new insert / update: the element id is fresh. -/
theorem sinv_invoke_ins {s : St} {t : Tid} {k : Int} {e : Nat} {u al : Bool} (h : SInv s) (hpc : s.pc t = .idle)
    (hnt : t < s.nt) (hu : s.used e = false) :
    SInv { s with key := upd s.key e k, used := upd s.used e true, pc := upd s.pc t (.wHead ⟨k, e, u, al⟩) } := by
  unpack h hpc t
  obtain ⟨e1, e2, e3, e4, e5, e6, e7⟩ := h.elem
  have hr : s.retired e = none := by
    cases hh : s.retired e with
    | none => rfl
    | some x => have := e6 e (by rw [hh]; simp); rw [hu] at this; cases this
  have hh : s.home e = none := by
    cases hh : s.home e with
    | none => rfl
    | some x => have := (e5 e x hh).1; rw [hu] at this; cases this
  have umono : ∀ x, s.used x = true → upd s.used e true x = true := fun x hx => by
    by_cases ex : x = e
    · rw [ex, upd_same]
    · rw [upd_other _ _ _ _ ex]; exact hx
  apply sinv_build h (t := t) (Y := .wHead ⟨k, e, u, al⟩)
  · rfl
  · exact h.ord
  · exact h.fresh
  · exact ⟨e1, e2, e3, e4, fun x a hx => ⟨umono x (e5 x a hx).1, (e5 x a hx).2⟩, fun x hx => umono x (e6 x hx), e7⟩
  · exact h.bit
  · intro a ha; have := hown a ha; projs
  · intro a t0 h0 ha; exact ha
  · constructor <;> intros <;> projs <;> (try dsimp only at *) <;> (try tfin)
  · intro t0 h0
    have hq := h.thr t0
    apply hq.frame <;>
      first | rfl | exact Nat.le_refl _ | (intros; rfl) | (intros; exact ⟨rfl, rfl⟩) | (intros; assumption) | skip
    · intro x hx
      have hxe : x ≠ e := fun hc => by have := (hq.pused x hx).1; rw [hc, hu] at this; cases this
      exact ⟨upd_other _ _ _ _ hxe, rfl, rfl⟩
    · intro x hx; exact umono x hx
    · intro x hx
      have hxe : x ≠ e := fun hc => by rw [hc, hu] at hx; cases hx
      exact upd_other _ _ _ _ hxe
  · intro n hn; cases hn
  · intro x hx t0 h0 hc
    have hxe : x = e := by simpa [pend] using hx.symm
    have := ((h.thr t0).pused x hc).1
    rw [hxe, hu] at this; cases this

set_option maxHeartbeats 4000000 in
theorem sinv_invoke {s s' : St} {t : Tid} {op : GOp} (h : SInv s) (hs : invoke s t op = some s') : SInv s' := by
  obtain ⟨name, args⟩ := op
  unfold invoke at hs
  split at hs
  next hnt =>
    split at hs
    next k e hpc hname hargs =>
      split at hs
      · cases hs
      · rename_i hu
        simp only [Option.some.injEq] at hs; subst hs
        exact sinv_invoke_ins h hpc hnt (by simpa using hu)
    next k e allow hpc hname hargs =>
      split at hs
      · cases hs
      · rename_i hu
        simp only [Option.some.injEq] at hs; subst hs
        exact sinv_invoke_ins h hpc hnt (by simpa using hu)
    next k hpc hname hargs =>
      simp only [Option.some.injEq] at hs; subst hs
      unpack h hpc t
      pconly h hpc
    next k hpc hname hargs =>
      simp only [Option.some.injEq] at hs; subst hs
      unpack h hpc t
      pconly h hpc
    next k hpc hname hargs =>
      simp only [Option.some.injEq] at hs; subst hs
      unpack h hpc t
      pconly h hpc
    next hpc hname hargs =>
      simp only [Option.some.injEq] at hs; subst hs
      unpack h hpc t
      iterstep h hpc t .itLd1
    next hpc hname hargs =>
      simp only [Option.some.injEq] at hs; subst hs
      unpack h hpc t
      pconly h hpc
    next hpc hname hargs =>
      simp only [Option.some.injEq] at hs; subst hs
      unpack h hpc t
      pconly h hpc
    next hpc hname hargs =>
      split at hs
      next e he =>
        simp only [Option.some.injEq] at hs; subst hs
        unpack h hpc t
        pconly h hpc
      next => cases hs
    next hpc hname hargs =>
      simp only [Option.some.injEq] at hs; subst hs
      unpack h hpc t
      pconly h hpc
    next e hpc hname hargs =>
      split at hs
      next hg =>
        simp only [Option.some.injEq] at hs; subst hs
        obtain ⟨hg1, hg2, hg3⟩ := hg
        have hug := (unguarded_iff s e.toNat).1 hg3
        have hnog : ∀ t0, s.hp t0 ≠ some e.toNat := fun t0 => by
          by_cases hlt : t0 < s.nt
          · exact hug t0 hlt
          · have := ((h.thr t0).nt (Nat.le_of_not_lt hlt)).1; rw [this]; simp
        unpack h hpc t
        obtain ⟨e1, e2, e3, e4, e5, e6, e7⟩ := h.elem
        apply sinv_build_keep h (t := t) (Y := .done [])
        · rfl
        · exact h.ord
        · exact h.fresh
        · refine ⟨e1, e2, e3, e4, e5, e6, ?_⟩
          intro x hx; dsimp only at hx
          by_cases ex : x = e.toNat
          · rw [ex]; exact hg1
          · rw [upd_other _ _ _ _ ex] at hx; exact e7 x hx
        · exact h.bit
        · intro a ha; have := hown a ha; projs
        · intro a t0 h0 ha; exact ha
        · have := hnog t
          constructor <;> intros <;> projs <;> (try dsimp only at *) <;> (try tfin)
        · intro t0 h0
          have hq := h.thr t0
          have := hnog t0
          apply hq.frame <;>
            first | rfl | exact Nat.le_refl _ | (intros; rfl) | (intros; exact ⟨rfl, rfl⟩) | (intros; exact ⟨rfl, rfl, rfl⟩) | (intros; assumption) | skip
          intro x hx
          have hxe : x ≠ e.toNat := fun hc => this (hc ▸ hx)
          exact upd_other _ _ _ _ hxe
        · keep hpc
        · keep hpc
      next => cases hs
    next => cases hs
  next => cases hs

set_option maxHeartbeats 4000000 in
/-- Every atomic step preserves the invariant. -/
theorem sinv_step {s s' : St} {t : Tid} {ev : Ev} (h : SInv s) (hs : step s t = some (s', ev)) : SInv s' := by
  unfold step at hs
  split at hs
  next j hpc =>
    simp only [Option.some.injEq, Prod.mk.injEq] at hs; obtain ⟨rfl, -⟩ := hs
    exact step_wHead h hpc
  next pu k prev pv hpc =>
    simp only [Option.some.injEq, Prod.mk.injEq] at hs; obtain ⟨rfl, -⟩ := hs
    exact step_wNext h hpc
  next pu k prev pv cur hpc =>
    split at hs
    · rename_i hnx
      simp only [Option.some.injEq, Prod.mk.injEq] at hs; obtain ⟨rfl, -⟩ := hs
      have hl := ((h.thr t).wcur prev cur (by rw [hpc]; rfl)).1
      exact sinv_concl h hpc (Or.inl rfl) (fun _ he => by cases he) (fun _ => self_loop_tail h hl hnx)
    · rename_i hne
      simp only [Option.some.injEq, Prod.mk.injEq] at hs; obtain ⟨rfl, -⟩ := hs
      exact step_wTail_in h hpc hne
  next pu k prev pv cur hpc =>
    simp only [Option.some.injEq, Prod.mk.injEq] at hs; obtain ⟨rfl, -⟩ := hs
    exact step_wLd1 h hpc
  next pu k prev pv cur w hpc =>
    split at hs
    · rename_i hdw
      split at hs
      · rename_i e hwe
        have hue : s.used e = true := by
          have := h.elem.ehome cur e (by rw [hdw]; exact hwe)
          exact (h.elem.hrng e cur this).1
        split at hs
        · rename_i hle
          simp only [Option.some.injEq, Prod.mk.injEq] at hs; obtain ⟨rfl, -⟩ := hs
          refine sinv_concl h hpc (Or.inr ⟨w, rfl⟩) ?_ (fun he => by cases he)
          intro e' he'
          cases he'
          exact ⟨hue, hle, by simp⟩
        · rename_i hle
          simp only [Option.some.injEq, Prod.mk.injEq] at hs; obtain ⟨rfl, -⟩ := hs
          refine step_wLd2_on h hpc ?_
          intro v hv; cases hv
          exact ⟨hue, by omega⟩
      · simp only [Option.some.injEq, Prod.mk.injEq] at hs; obtain ⟨rfl, -⟩ := hs
        exact step_wLd2_on h hpc (fun _ hv => by cases hv)
    · simp only [Option.some.injEq, Prod.mk.injEq] at hs; obtain ⟨rfl, -⟩ := hs
      exact step_wLd2_retry h hpc
  next k cur e hpc =>
    split at hs
    · rename_i hd
      simp only [Option.some.injEq, Prod.mk.injEq] at hs; obtain ⟨rfl, -⟩ := hs
      exact step_eraseCas_ok h hpc hd
    · simp only [Option.some.injEq, Prod.mk.injEq] at hs; obtain ⟨rfl, -⟩ := hs
      exact step_eraseCas_fail h hpc
  next j cur e hpc =>
    split at hs
    · rename_i hd
      simp only [Option.some.injEq, Prod.mk.injEq] at hs; obtain ⟨rfl, -⟩ := hs
      exact step_updCas_ok h hpc hd
    · simp only [Option.some.injEq, Prod.mk.injEq] at hs; obtain ⟨rfl, -⟩ := hs
      exact step_updCas_fail h hpc
  next j p hpc =>
    split at hs
    · rename_i hd
      simp only [Option.some.injEq, Prod.mk.injEq] at hs; obtain ⟨rfl, -⟩ := hs
      exact step_lMarkCur_ok h hpc hd
    · simp only [Option.some.injEq, Prod.mk.injEq] at hs; obtain ⟨rfl, -⟩ := hs
      exact step_lMarkCur_fail h hpc
  next j p hpc =>
    split at hs
    · rename_i hd
      simp only [Option.some.injEq, Prod.mk.injEq] at hs; obtain ⟨rfl, -⟩ := hs
      exact step_lMarkPrev_ok h hpc hd
    · simp only [Option.some.injEq, Prod.mk.injEq] at hs; obtain ⟨rfl, -⟩ := hs
      exact step_lMarkPrev_fail h hpc
  next j p hpc =>
    split at hs
    · rename_i hn
      simp only [Option.some.injEq, Prod.mk.injEq] at hs; obtain ⟨rfl, -⟩ := hs
      exact step_lChkNext_ok h hpc hn
    · simp only [Option.some.injEq, Prod.mk.injEq] at hs; obtain ⟨rfl, -⟩ := hs
      exact step_lChkNext_fail h hpc
  next j p hpc =>
    split at hs
    · simp only [Option.some.injEq, Prod.mk.injEq] at hs; obtain ⟨rfl, -⟩ := hs
      exact step_lReuse h hpc
    · rename_i hd
      exact absurd (lReuse_enabled h hpc) hd
  next j p hpc =>
    simp only [Option.some.injEq, Prod.mk.injEq] at hs; obtain ⟨rfl, -⟩ := hs
    exact step_lCtor1 h hpc
  next j p n hpc =>
    simp only [Option.some.injEq, Prod.mk.injEq] at hs; obtain ⟨rfl, -⟩ := hs
    exact step_lCtor2 h hpc
  next j p n hpc =>
    simp only [Option.some.injEq, Prod.mk.injEq] at hs; obtain ⟨rfl, -⟩ := hs
    exact step_lStNext h hpc
  next j p n hpc =>
    split at hs
    · simp only [Option.some.injEq, Prod.mk.injEq] at hs; obtain ⟨rfl, -⟩ := hs
      exact step_lCasNext h hpc
    · rename_i hd
      exact absurd (lCasNext_enabled h hpc) hd
  next j p ok hpc =>
    simp only [Option.some.injEq, Prod.mk.injEq] at hs; obtain ⟨rfl, -⟩ := hs
    exact step_lRelPrev h hpc
  next j p ok hpc =>
    simp only [Option.some.injEq, Prod.mk.injEq] at hs; obtain ⟨rfl, -⟩ := hs
    exact step_lRelCur h hpc
  next hpc =>
    simp only [Option.some.injEq, Prod.mk.injEq] at hs; obtain ⟨rfl, -⟩ := hs
    exact step_itLd1 h hpc
  next w hpc =>
    simp only [Option.some.injEq, Prod.mk.injEq] at hs; obtain ⟨rfl, -⟩ := hs
    exact step_itHp h hpc
  next w hpc =>
    split at hs
    · rename_i hd
      split at hs
      · rename_i e hw
        simp only [Option.some.injEq, Prod.mk.injEq] at hs; obtain ⟨rfl, -⟩ := hs
        exact step_itLd2_some h hpc hd hw
      · rename_i hw
        simp only [Option.some.injEq, Prod.mk.injEq] at hs; obtain ⟨rfl, -⟩ := hs
        exact step_itLd2_none h hpc hw
    · simp only [Option.some.injEq, Prod.mk.injEq] at hs; obtain ⟨rfl, -⟩ := hs
      exact step_itLd2_retry h hpc
  next hpc =>
    split at hs
    · simp only [Option.some.injEq, Prod.mk.injEq] at hs; obtain ⟨rfl, -⟩ := hs
      exact step_itNext_end h hpc
    · rename_i hne
      simp only [Option.some.injEq, Prod.mk.injEq] at hs; obtain ⟨rfl, -⟩ := hs
      exact step_itNext_move h hpc hne
  next hpc =>
    simp only [Option.some.injEq, Prod.mk.injEq] at hs; obtain ⟨rfl, -⟩ := hs
    exact step_itClr h hpc
  next hpc =>
    simp only [Option.some.injEq, Prod.mk.injEq] at hs; obtain ⟨rfl, -⟩ := hs
    exact step_endLd1 h hpc
  next w hpc =>
    split at hs
    · simp only [Option.some.injEq, Prod.mk.injEq] at hs; obtain ⟨rfl, -⟩ := hs
      refine step_endLd2 h hpc ?_
      split
      · left; rfl
      · right; left; rfl
    · simp only [Option.some.injEq, Prod.mk.injEq] at hs; obtain ⟨rfl, -⟩ := hs
      exact step_endLd2 h hpc (Or.inr (Or.inr ⟨_, rfl⟩))
  next hpc =>
    split at hs
    · simp only [Option.some.injEq, Prod.mk.injEq] at hs; obtain ⟨rfl, -⟩ := hs
      exact step_endNext h hpc
    · cases hs
  next e hpc =>
    split at hs
    · rename_i hd
      simp only [Option.some.injEq, Prod.mk.injEq] at hs; obtain ⟨rfl, -⟩ := hs
      exact step_eaCas_ok h hpc hd
    · split at hs
      · simp only [Option.some.injEq, Prod.mk.injEq] at hs; obtain ⟨rfl, -⟩ := hs
        exact h
      · simp only [Option.some.injEq, Prod.mk.injEq] at hs; obtain ⟨rfl, -⟩ := hs
        exact step_eaCas_fail h hpc
  next hpc =>
    simp only [Option.some.injEq, Prod.mk.injEq] at hs; obtain ⟨rfl, -⟩ := hs
    exact step_relClr h hpc
  next => cases hs

theorem sinv_apply {s s' : St} {t : Tid} {a : Act} {o : Obs} (h : SInv s)
    (hs : model.apply s t a = some (s', o)) : SInv s' := by
  cases a with
  | invoke op =>
    simp only [Model.apply, model, Option.map_eq_some_iff] at hs
    obtain ⟨s1, hs1, he⟩ := hs
    simp only [Prod.mk.injEq] at he; obtain ⟨rfl, -⟩ := he
    exact sinv_invoke h hs1
  | step =>
    simp only [Model.apply, model, Option.map_eq_some_iff] at hs
    obtain ⟨⟨s1, ev⟩, hs1, he⟩ := hs
    simp only [Prod.mk.injEq] at he; obtain ⟨rfl, -⟩ := he
    exact sinv_step h hs1
  | ret =>
    simp only [Model.apply, model, Option.map_eq_some_iff] at hs
    obtain ⟨⟨s1, r⟩, hs1, he⟩ := hs
    simp only [Prod.mk.injEq] at he; obtain ⟨rfl, -⟩ := he
    exact sinv_result h hs1

/-- The invariant holds in every reachable state, for every number of threads. -/
theorem sinv_reachable (n : Nat) (s : St) (h : model.Reachable (init n) s) : SInv s :=
  model.inv_reachable SInv (init n) (sinv_init n) (fun _ _ _ _ _ hi ha => sinv_apply hi ha) s h

end CdsVerif.Algo.Iterable

/-
  MSPriorityQueue machine, layer 2 of the invariant (shape of the array): preservation by `step`.
-/
import CdsVerif.Algo.MSPQ.Shape
namespace CdsVerif.Algo.MSPQ
open CdsVerif.Machine CdsVerif.Spec

set_option maxHeartbeats 4000000 in
theorem sinv_after {c : Cfg} {rank : Nat → Nat} (hc : SlotOK c rank) {s s' : St} {t : Tid} {k : K}
    (hl : LInv c s) (h : SInv c rank s) (he : Effect s s' t) (hpc : s.pc t = .acq k) (hlk : s.lk k.lock = false)
    (hs : after c { s with lk := upd s.lk k.lock true, own := upd s.own k.lock (some t) } t k = some s') :
    SInv c rank s' := by
  have hown := hl.lk0 _ hlk
  have hmine : ∀ l, holds (s.pc t) l → s.own l = some t := fun l => hl.ow2 l t
  have hwf := hl.wfp t
  have hmy : ∀ l, s.own l = some t → holds (s.pc t) l := fun l => hl.ow1 l t
  have hcl := hl.cntle
  obtain ⟨hwi, hwd, -, -, hhv, hne, hppa⟩ := h.loc t
  simp only [hpc, holds, wf, nonE, popPar, carries, heldOf, incIdx, decIdx] at hmine hwf hmy hne hppa hhv hwi hwd
  cases k with
  | pSz v =>
    simp only [after] at hs
    simp only [K.lock, kHolds] at hown hmine hmy
    clear hwi hwd hne hppa hhv hwf
    split at hs <;> simp at hs <;> subst hs <;> sinv_allS hl h hc he t
  | pNode v i =>
    simp only [after] at hs; simp at hs; subst hs
    simp only [K.lock, kHolds, kWf, kIncIdx, Option.some.injEq, forall_eq'] at hown hmine hmy hwf hwi
    clear hwd hne hppa hhv
    sinv_allS hl h hc he t
  | hPar i =>
    simp only [after] at hs; simp at hs; subst hs
    simp only [K.lock, kHolds, kWf] at hown hmine hmy hwf
    clear hwi hwd hne hppa hhv
    sinv_all hl h he t
  | hItem i =>
    simp only [after] at hs
    simp only [K.lock, kHolds, kWf] at hown hmine hmy hwf
    clear hwi hwd hne hppa hhv
    split at hs
    · split at hs
      · split at hs <;> simp at hs <;> subst hs <;> sinv_all hl h he t
      · simp at hs
    · split at hs
      · simp at hs; subst hs; sinv_all hl h he t
      · split at hs <;> simp at hs <;> subst hs <;> sinv_all hl h he t
  | hRoot =>
    simp only [after] at hs
    simp only [K.lock, kHolds, kWf] at hown hmine hmy hwf
    clear hwi hwd hne hppa hhv
    split at hs <;> simp at hs <;> subst hs <;> sinv_all hl h he t
  | oSz =>
    simp only [after] at hs
    simp only [K.lock, kHolds, kWf] at hown hmine hmy hwf
    clear hwi hwd hne hppa hhv
    split at hs <;> simp at hs <;> subst hs <;> sinv_allS hl h hc he t
  | oTop b =>
    simp only [after] at hs
    simp only [K.lock, kHolds, kWf, kDecIdx, Option.some.injEq, forall_eq'] at hown hmine hmy hwf hwd
    clear hwi hne hppa hhv
    have hr1 : rank b = s.cnt + 1 := by rw [hwd.1]; exact hc.rank_slot _ (by omega) hwd.2
    have hinj : ∀ i, 1 ≤ i → i ≤ c.cap → rank i = s.cnt + 1 → i = b := by
      intro i h1 h2 h3; have := hc.slot_rank i h1 h2; rw [h3] at this; rw [hwd.1]; exact this.symm
    have hsh : ∀ i, 1 ≤ i → i ≤ c.cap → (s.tag i ≠ .empty ↔ rank i ≤ s.cnt + 1) := by
      intro i h1 h2; have := h.shO i t (hmine 0 rfl) h1 h2; simpa [hpc, pinc, pdec, kInc, kDec] using this
    split at hs <;> simp at hs <;> subst hs <;> sinv_all hl h he t
  | oBot b =>
    simp only [after] at hs; simp at hs; subst hs
    simp only [K.lock, kHolds, kWf, kDecIdx, Option.some.injEq, forall_eq'] at hown hmine hmy hwf hwd
    clear hwi hne hppa hhv
    sinv_allS hl h hc he t
  | dChild par ch pv =>
    simp only [after] at hs
    simp only [K.lock, kHolds, kWf, kNonE, kPopPar, kCarries, kHeld, Option.some.injEq, forall_eq', forall_eq, forall_eq_or_imp, forall_const] at hown hmine hmy hwf hne hppa hhv
    clear hwi hwd
    split at hs
    · simp at hs; subst hs; sinv_all hl h he t
    · split at hs
      · simp at hs; subst hs; sinv_all hl h he t
      · unfold dCompare at hs
        split at hs
        · split at hs <;> simp at hs <;> subst hs <;> sinv_all hl h he t
        · simp at hs
  | dRight par ch pv =>
    simp only [after] at hs
    simp only [K.lock, kHolds, kWf, kNonE, kPopPar, kCarries, kHeld, Option.some.injEq, forall_eq', forall_eq, forall_eq_or_imp, forall_const] at hown hmine hmy hwf hne hppa hhv
    clear hwi hwd
    split at hs
    · simp at hs; subst hs; sinv_all hl h he t
    · split at hs
      · split at hs <;> simp at hs <;> subst hs <;> sinv_all hl h he t
      · simp at hs

set_option maxHeartbeats 4000000 in
theorem sinv_step {c : Cfg} {rank : Nat → Nat} (hc : SlotOK c rank) {s s' : St} {t : Tid} {ev : Ev}
    (hl : LInv c s) (h : SInv c rank s) (hs : step c s t = some (s', ev)) : SInv c rank s' := by
  have he := step_effect hl hs
  have hmine : ∀ l, holds (s.pc t) l → s.own l = some t := fun l => hl.ow2 l t
  have hwf := hl.wfp t
  have hmy : ∀ l, s.own l = some t → holds (s.pc t) l := fun l => hl.ow1 l t
  have hcl := hl.cntle
  obtain ⟨hwi, hwd, hpf, hpe, hhv, hne, hppa⟩ := h.loc t
  cases hpc : s.pc t with
  | acq k =>
    rcases step_acq hpc hs with ⟨hlk, rfl⟩ | ⟨hlk, ha⟩
    · simp only [hpc, holds, wf, nonE, popPar, carries, heldOf, incIdx, decIdx] at hmine hwf hmy hne hppa hhv hwi hwd
      clear hpf hpe
      sinv_all hl h he t
    · exact sinv_after hc hl h he hpc hlk ha
  | spin k =>
    simp only [step, hpc] at hs
    simp at hs; obtain ⟨rfl, -⟩ := hs
    simp only [hpc, holds, wf, nonE, popPar, carries, heldOf, incIdx, decIdx] at hmine hwf hmy hne hppa hhv hwi hwd
    clear hpf hpe
    by_cases hlk : s.lk k.lock = true <;> simp only [hlk] at he ⊢ <;> sinv_all hl h he t
  | pUnlSz v i =>
    simp only [step, hpc] at hs
    simp at hs; obtain ⟨rfl, -⟩ := hs
    simp only [hpc, holds, wf, incIdx, Option.some.injEq, forall_eq', forall_eq_or_imp, forall_eq] at hmine hwf hwi
    clear hpf hpe hhv hne hppa hwd hmy
    have hr1 : rank i = s.cnt := by rw [hwi.1]; exact hc.rank_slot _ hwi.2 hcl
    have hinj : ∀ j, 1 ≤ j → j ≤ c.cap → rank j = s.cnt → j = i := by
      intro j h1 h2 h3; have := hc.slot_rank j h1 h2; rw [h3] at this; rw [hwi.1]; exact this.symm
    have hsh : ∀ j, 1 ≤ j → j ≤ c.cap → (s.tag j ≠ .empty ↔ rank j + 1 ≤ s.cnt) := by
      intro j h1 h2; have := h.shO j t hmine.1 h1 h2; simpa [hpc, pinc, pdec] using this
    sinv_all hl h he t
  | oUnlSz b =>
    simp only [step, hpc] at hs
    simp at hs; obtain ⟨rfl, -⟩ := hs
    simp only [hpc, holds, wf, decIdx, Option.some.injEq, forall_eq', forall_eq_or_imp, forall_eq] at hmine hwf hwd
    clear hpf hpe hhv hne hppa hwi hmy
    have hr1 : rank b = s.cnt + 1 := by rw [hwd.1]; exact hc.rank_slot _ (by omega) hwd.2
    have hinj : ∀ j, 1 ≤ j → j ≤ c.cap → rank j = s.cnt + 1 → j = b := by
      intro j h1 h2 h3; have := hc.slot_rank j h1 h2; rw [h3] at this; rw [hwd.1]; exact this.symm
    have hsh : ∀ j, 1 ≤ j → j ≤ c.cap → (s.tag j ≠ .empty ↔ rank j ≤ s.cnt + 1) := by
      intro j h1 h2; have := h.shO j t hmine.1 h1 h2; simpa [hpc, pinc, pdec] using this
    sinv_all hl h he t
  | dUnlLeft par ch pv =>
    simp only [step, hpc, Option.map_eq_some_iff, Prod.mk.injEq] at hs
    obtain ⟨s1, h1, rfl, -⟩ := hs
    simp only [hpc, holds, wf, nonE, popPar, carries, heldOf, Option.some.injEq, forall_eq', forall_eq_or_imp, forall_eq,
      forall_const] at hmine hwf hne hppa hhv
    clear hpf hpe hwi hwd hmy
    unfold dCompare at h1
    split at h1
    · split at h1 <;> simp at h1 <;> subst h1 <;> sinv_all hl h he t
    · simp at h1
  | dUnlRight par ch pv =>
    simp only [step, hpc, Option.map_eq_some_iff, Prod.mk.injEq] at hs
    obtain ⟨s1, h1, rfl, -⟩ := hs
    simp only [hpc, holds, wf, nonE, popPar, carries, heldOf, Option.some.injEq, forall_eq', forall_eq_or_imp, forall_eq,
      forall_const] at hmine hwf hne hppa hhv
    clear hpf hpe hwi hwd hmy
    unfold dCompare at h1
    split at h1
    · split at h1 <;> simp at h1 <;> subst h1 <;> sinv_all hl h he t
    · simp at h1
  | oUnlBot b pv =>
    simp only [step, hpc] at hs
    simp only [hpc, holds, wf, nonE, popPar, carries, heldOf, Option.some.injEq, forall_eq', forall_eq_or_imp, forall_eq,
      forall_const] at hmine hwf hne hppa hhv
    clear hpf hpe hwi hwd hmy
    split at hs <;> simp at hs <;> obtain ⟨rfl, -⟩ := hs <;> sinv_all hl h he t
  | idle => simp [step, hpc] at hs
  | pFail => simp [step, hpc] at hs
  | pOk => simp [step, hpc] at hs
  | oFail => simp [step, hpc] at hs
  | oDone pv => simp [step, hpc] at hs
  | _ =>
    simp only [step, hpc] at hs
    simp only [hpc, holds, wf, nonE, popPar, carries, heldOf, incIdx, decIdx, Option.some.injEq, forall_eq',
      forall_eq_or_imp, forall_eq, forall_const, reduceCtorEq, false_implies, implies_true] at hmine hwf hmy hne hppa hhv hwi hwd hpf hpe
    simp at hs; obtain ⟨rfl, -⟩ := hs
    sinv_all hl h he t

/-- The slot a push is about to fill is empty. -/
theorem fresh_slot_empty {c : Cfg} {rank : Nat → Nat} (hc : SlotOK c rank) {s : St} {t : Tid} {v : Int} {i : Nat}
    (hl : LInv c s) (hsi : SInv c rank s) (hpc : s.pc t = .pUnlSz v i) : s.val i = none := by
  have hwf := hl.wfp t
  have hwi := (hsi.loc t).wi i (by simp [hpc, incIdx])
  have ho : s.own 0 = some t := hl.ow2 0 t (by simp [hpc, holds])
  simp only [hpc, wf] at hwf
  have hr1 : rank i = s.cnt := by rw [hwi.1]; exact hc.rank_slot _ hwi.2 hl.cntle
  have := hsi.shO i t ho hwf.1 hwf.2
  simp only [hpc, pinc, pdec] at this
  apply hsi.te1
  apply Classical.byContradiction; intro hne
  have := this.1 hne
  omega

end CdsVerif.Algo.MSPQ

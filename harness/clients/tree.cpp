// Ordered sets / maps: SkipListSet / SkipListMap, EllenBinTreeSet / EllenBinTreeMap (HP, DHP, RCU),
// BronsonAVLTreeMap (RCU; value and pointer forms; injecting and pool monitors).
// History is judged against Spec.map (including extract_min / extract_max).
#include <cds/init.h>
#include <cds/gc/hp.h>
#include <cds/gc/dhp.h>
#include <cds/urcu/general_instant.h>
#include <cds/urcu/general_buffered.h>
#include <cds/intrusive/skip_list_hp.h>
#include <cds/container/skip_list_set_hp.h>
#include <cds/container/skip_list_set_dhp.h>
#include <cds/container/skip_list_set_rcu.h>
#include <cds/container/skip_list_map_hp.h>
#include <cds/container/skip_list_map_dhp.h>
#include <cds/container/skip_list_map_rcu.h>
#include <cds/container/ellen_bintree_set_hp.h>
#include <cds/container/ellen_bintree_set_dhp.h>
#include <cds/container/ellen_bintree_set_rcu.h>
#include <cds/container/ellen_bintree_map_hp.h>
#include <cds/container/ellen_bintree_map_dhp.h>
#include <cds/container/ellen_bintree_map_rcu.h>
#include <cds/container/bronson_avltree_map_rcu.h>
#include <cds/sync/injecting_monitor.h>
#include <cds/sync/pool_monitor.h>
#include <cds/memory/vyukov_queue_pool.h>
#include <memory>
#include "../client.h"

using namespace khizmax_libcds_verif;
namespace ci = cds::intrusive;
namespace cc = cds::container;

typedef cds::urcu::gc< cds::urcu::general_instant< cds::sync::spin > > rcu_gpi;
typedef cds::urcu::gc< cds::urcu::general_buffered<
    cds::container::VyukovMPMCCycleQueue< cds::urcu::epoch_retired_ptr >, cds::sync::spin > > rcu_gpb;

// ---------------------------------------------------------------- common map client part

// Spin detection.  Some libcds operations wait for another thread in a loop that contains no back-off
// call (e.g. LazyList::search() restarts from the head while it runs into a logically deleted node that
// its eraser has not unlinked yet; IterableList::insert retries while a neighbour is marked).  A
// strict-priority schedule (pct) would starve the thread waited for, and the case would end with
// status=budget.  Key comparators and (where offered) retry events of the statistics policy therefore
// report to the scheduler: after c_spin_limit comparisons inside one operation every further
// comparison is a spin hint.  The command line option `--hints 0` switches the hints off (same
// programs and schedules seeds) and shows the behaviour of the library alone.
static bool g_hints = true;
static thread_local unsigned tls_cmp_count = 0;
static constexpr unsigned c_spin_limit = 200;
static inline void cmp_tick()
{
    if ( ++tls_cmp_count > c_spin_limit && g_hints )
        spin_hint();
}
static inline void retry_tick()
{
    if ( g_hints )
        spin_hint();
}

struct IMap {
    // capabilities: which operations the program generator may use
    bool can_erase = true, can_extract = true, can_minmax = false, can_update = true;
    char const* upd = "update";         // "update" (payload replaced) or "upsert_keep" (old item kept)
    bool upd_zero = false;              // update() can only insert a default-constructed payload (0)
    virtual ~IMap() {}
    virtual bool insert( long k, long v ) = 0;
    virtual std::pair<bool, bool> update( long k, long v, bool allow ) = 0;
    virtual bool erase( long, long& ) { return false; }
    virtual bool extract( long, long& ) { return false; }
    virtual bool find( long k, long& v ) = 0;
    virtual bool contains( long k ) = 0;
    virtual bool extract_min( long&, long& ) { return false; }
    virtual bool extract_max( long&, long& ) { return false; }
    // tie S on the machine side (lean/CdsVerif/Props/C18Reach.lean): the raw structure of the real object at the quiescent
    // end of the case as ONE `SNAP …` line in the format of clients/snap.cpp; default: none
    virtual void dump( std::ostream& ) {}
};

struct GenCfg {
    int maxkeys = 5;            // key space is 2..maxkeys keys
    bool ins_heavy = false;     // mostly inserts (growing tables)
};

static std::vector<std::vector<Op>> map_program( Rng& r, int nthreads, int nops, IMap const& m, GenCfg const& g )
{
    std::vector<std::vector<Op>> p( nthreads );
    long v = 1;
    long nkeys = 2 + long( r.below( g.maxkeys - 1 ));
    unsigned w_ins = 25 + unsigned( r.below( 30 ));
    unsigned w_upd = 10 + unsigned( r.below( 15 ));
    if ( !m.can_update ) w_upd = 0;
    unsigned w_era = m.can_erase ? 10 + unsigned( r.below( 20 )) : 0;
    unsigned w_ext = m.can_extract ? 5 + unsigned( r.below( 15 )) : 0;
    unsigned w_fnd = 10 + unsigned( r.below( 15 ));
    unsigned w_con = 5 + unsigned( r.below( 10 ));
    unsigned w_mm = m.can_minmax ? 10 + unsigned( r.below( 10 )) : 0;
    if ( g.ins_heavy ) {
        nkeys = g.maxkeys;
        w_ins += 60;
    }
    unsigned total = w_ins + w_upd + w_era + w_ext + w_fnd + w_con + w_mm;
    int budget = 14;
    for ( int t = 0; t < nthreads; ++t ) {
        int n = 1 + int( r.below( nops ));
        int left = nthreads - t - 1;
        if ( n > budget - left ) n = budget - left;
        budget -= n;
        for ( int i = 0; i < n; ++i ) {
            long k = long( r.below( nkeys ));
            unsigned x = unsigned( r.below( total ));
            if ( x < w_ins ) { p[t].push_back( Op( "insert", k, v++ )); continue; }
            x -= w_ins;
            if ( x < w_upd ) { p[t].push_back( Op( m.upd, k, m.upd_zero ? 0 : v++, r.chance( 70 ) ? 1 : 0 )); continue; }
            x -= w_upd;
            if ( x < w_era ) { p[t].push_back( Op( "erase", k )); continue; }
            x -= w_era;
            if ( x < w_ext ) { p[t].push_back( Op( "extract", k )); continue; }
            x -= w_ext;
            if ( x < w_fnd ) { p[t].push_back( Op( "find", k )); continue; }
            x -= w_fnd;
            if ( x < w_con ) { p[t].push_back( Op( "contains", k )); continue; }
            p[t].push_back( Op( r.chance( 50 ) ? "extract_min" : "extract_max" ));
        }
    }
    return p;
}

static std::vector<long> map_exec( IMap& m, Op const& op )
{
    std::string const& n = op.name;
    long v = 0, k = 0;
    tls_cmp_count = 0;
    if ( n == "insert" ) return { m.insert( op.args[0], op.args[1] ) ? 1L : 0L };
    if ( n == "update" || n == "upsert_keep" ) {
        std::pair<bool, bool> r = m.update( op.args[0], op.args[1], op.args[2] != 0 );
        return { r.first ? 1L : 0L, r.second ? 1L : 0L };
    }
    if ( n == "erase" ) { if ( m.erase( op.args[0], v )) return { 1, v }; return { 0 }; }
    if ( n == "extract" ) { if ( m.extract( op.args[0], v )) return { 1, v }; return { 0 }; }
    if ( n == "find" ) { if ( m.find( op.args[0], v )) return { 1, v }; return { 0 }; }
    if ( n == "contains" ) return { m.contains( op.args[0] ) ? 1L : 0L };
    if ( n == "extract_min" ) { if ( m.extract_min( k, v )) return { 1, k, v }; return { 0 }; }
    if ( n == "extract_max" ) { if ( m.extract_max( k, v )) return { 1, k, v }; return { 0 }; }
    std::fprintf( stderr, "unknown op %s\n", n.c_str());
    std::exit( 2 );
}

// ---------------------------------------------------------------- value types and predicates

struct kv {
    long key; long val;
    kv() : key( 0 ), val( 0 ) {}
    kv( long k, long v ) : key( k ), val( v ) {}
};

struct key_of {
    template <class T> static long k( T const& t ) { return t.key; }
    static long k( long x ) { return x; }
};
struct key_less {
    template <class A, class B> bool operator()( A const& a, B const& b ) const { cmp_tick(); return key_of::k( a ) < key_of::k( b ); }
};
struct key_cmp {
    template <class A, class B> int operator()( A const& a, B const& b ) const
    {
        cmp_tick();
        long x = key_of::k( a ), y = key_of::k( b );
        return x < y ? -1 : ( y < x ? 1 : 0 );
    }
};

// traits generators: Pred = 0 -> less, 1 -> compare; Cnt -> item counter
template <class Base, int Pred, bool Cnt> struct mk_traits;
template <class Base> struct mk_traits<Base, 0, false> : Base { typedef key_less less; };
template <class Base> struct mk_traits<Base, 1, false> : Base { typedef key_cmp compare; };
template <class Base> struct mk_traits<Base, 0, true> : Base { typedef key_less less; typedef cds::atomicity::item_counter item_counter; };
template <class Base> struct mk_traits<Base, 1, true> : Base { typedef key_cmp compare; typedef cds::atomicity::item_counter item_counter; };

template <class Base, int Pred, bool Cnt> struct mk_kvtraits;
template <class Base> struct mk_kvtraits<Base, 0, false> : Base { typedef key_less less; };
template <class Base> struct mk_kvtraits<Base, 1, false> : Base { typedef key_cmp compare; };
template <class Base> struct mk_kvtraits<Base, 0, true> : Base { typedef key_less less; typedef cds::atomicity::item_counter item_counter; };

// ---------------------------------------------------------------- container set-like lists

// MichaelList / LazyList over HP, DHP, RCU: update functor ( bool bNew, value_type& item, Q const& key )
template <class L>
struct SetListML : IMap {
    L l;
    template <class... A> explicit SetListML( A&&... a ) : l( std::forward<A>( a )... ) {}
    bool insert( long k, long v ) override { return l.insert( kv( k, v )); }
    std::pair<bool, bool> update( long k, long v, bool allow ) override
    {
        return l.update( kv( k, v ), []( bool, kv& item, kv const& key ) { item.val = key.val; }, allow );
    }
    bool erase( long k, long& v ) override { return l.erase( kv( k, 0 ), [&v]( kv const& item ) { v = item.val; } ); }
    bool extract( long k, long& v ) override
    {
        auto p = l.extract( kv( k, 0 ));
        if ( !p ) return false;
        v = p->val;
        return true;
    }
    bool find( long k, long& v ) override { return l.find( kv( k, 0 ), [&v]( kv& item, kv const& ) { v = item.val; } ); }
    bool contains( long k ) override { return l.contains( kv( k, 0 )); }
};

// IterableList: update replaces the data of the node
template <class L>
struct SetListIter : IMap {
    L l;
    bool useUpsert;
    template <class... A> explicit SetListIter( bool ups, A&&... a ) : l( std::forward<A>( a )... ), useUpsert( ups ) {}
    bool insert( long k, long v ) override { return l.insert( kv( k, v )); }
    std::pair<bool, bool> update( long k, long v, bool allow ) override
    {
        if ( useUpsert )
            return l.upsert( kv( k, v ), allow );
        return l.update( kv( k, v ), []( kv&, kv* ) {}, allow );
    }
    bool erase( long k, long& v ) override { return l.erase( kv( k, 0 ), [&v]( kv const& item ) { v = item.val; } ); }
    bool extract( long k, long& v ) override
    {
        auto p = l.extract( kv( k, 0 ));
        if ( !p ) return false;
        v = p->val;
        return true;
    }
    bool find( long k, long& v ) override { return l.find( kv( k, 0 ), [&v]( kv& item, kv const& ) { v = item.val; } ); }
    bool contains( long k ) override { return l.contains( kv( k, 0 )); }
};

// nogc: insert-only, iterators
template <class L>
struct SetListNogc : IMap {
    L l;
    template <class... A> explicit SetListNogc( A&&... a ) : l( std::forward<A>( a )... ) { can_erase = can_extract = false; upd = "upsert_keep"; }
    bool insert( long k, long v ) override { return l.insert( kv( k, v )) != l.end(); }
    std::pair<bool, bool> update( long k, long v, bool allow ) override
    {
        auto r = l.update( kv( k, v ), allow );
        return std::make_pair( r.first != l.end(), r.second );
    }
    bool find( long k, long& v ) override
    {
        auto it = l.contains( kv( k, 0 ));
        if ( it == l.end()) return false;
        v = it->val;
        return true;
    }
    bool contains( long k ) override { return l.contains( kv( k, 0 )) != l.end(); }
};

// ---------------------------------------------------------------- KV lists

template <class L>
struct KVListML : IMap {
    L l;
    typedef typename L::value_type value_type;
    template <class... A> explicit KVListML( A&&... a ) : l( std::forward<A>( a )... ) {}
    bool insert( long k, long v ) override { return l.insert( k, v ); }
    std::pair<bool, bool> update( long k, long v, bool allow ) override
    {
        return l.update( k, [v]( bool, value_type& item ) { item.second = v; }, allow );
    }
    bool erase( long k, long& v ) override { return l.erase( k, [&v]( value_type& item ) { v = item.second; } ); }
    bool extract( long k, long& v ) override
    {
        auto p = l.extract( k );
        if ( !p ) return false;
        v = p->second;
        return true;
    }
    bool find( long k, long& v ) override { return l.find( k, [&v]( value_type& item ) { v = item.second; } ); }
    bool contains( long k ) override { return l.contains( k ); }
};

template <class L>
struct KVListIter : IMap {
    L l;
    bool useUpsert;
    typedef typename L::value_type value_type;
    template <class... A> explicit KVListIter( bool ups, A&&... a ) : l( std::forward<A>( a )... ), useUpsert( ups ) {}
    bool insert( long k, long v ) override { return l.insert( k, v ); }
    std::pair<bool, bool> update( long k, long v, bool allow ) override
    {
        if ( useUpsert )
            return l.upsert( k, v, allow );
        return l.update( k, [v]( value_type& item, value_type* ) { item.second = v; }, allow );
    }
    bool erase( long k, long& v ) override { return l.erase( k, [&v]( value_type& item ) { v = item.second; } ); }
    bool extract( long k, long& v ) override
    {
        auto p = l.extract( k );
        if ( !p ) return false;
        v = p->second;
        return true;
    }
    bool find( long k, long& v ) override { return l.find( k, [&v]( value_type& item ) { v = item.second; } ); }
    bool contains( long k ) override { return l.contains( k ); }
};

template <class L>
struct KVListNogc : IMap {
    L l;
    template <class... A> explicit KVListNogc( A&&... a ) : l( std::forward<A>( a )... ) { can_erase = can_extract = false; upd = "upsert_keep"; upd_zero = true; }
    bool insert( long k, long v ) override { return l.insert( k, v ) != l.end(); }
    std::pair<bool, bool> update( long k, long v, bool allow ) override
    {
        // the nogc update() default-constructs the mapped value of a new item (payload 0): the program
        // generator passes v = 0 for these variants (upd_zero)
        (void) v;
        auto r = l.update( k, allow );
        return std::make_pair( r.first != l.end(), r.second );
    }
    bool find( long k, long& v ) override
    {
        auto it = l.contains( k );
        if ( it == l.end()) return false;
        v = it->second;
        return true;
    }
    bool contains( long k ) override { return l.contains( k ) != l.end(); }
};

struct noop_disposer { template <class T> void operator()( T* ) const {} };

// Back-off strategy that reports to the scheduler (see cmp_tick above).  EllenBinTree and BronsonAVLTreeMap
// use cds::backoff::empty by default; EllenBinTree's insert / update / erase / extract do not help an
// operation in progress when they meet a flagged node (non-Clean update descriptor) but just retry, so
// without a back-off hint a strict-priority schedule starves the flag owner (status=budget, visible
// with `--hints 0`).
struct hint_backoff {
    void operator()() const noexcept { retry_tick(); }
    template <typename Predicate> bool operator()( Predicate pr ) const
    {
        if ( pr()) return true;
        retry_tick();
        return false;
    }
    static void reset() noexcept {}
};

// ---------------------------------------------------------------- skip list

// SkipList::find_position() & co. restart from the head ("goto retry"), without back-off or any other call
// into client code, as long as they meet a logically deleted node that they may not unlink themselves: a
// node is unlinked strictly from its top level down (is_upper_level()), and the top levels may not be linked
// yet because the inserting thread is still building the tower.  The searching thread (possibly the eraser
// itself) thus waits for the inserter.  The only thing a client can hook into that loop is the memory-order
// argument of the atomic loads: the traits' memory_model below has members that convert to
// std::memory_order and count the conversions; beyond c_order_limit conversions inside one operation each
// further one is a spin hint (switched off by `--hints 0`, like the other hints).
static thread_local unsigned tls_order_count = 0;
static constexpr unsigned c_order_limit = 400;
struct hint_order {
    std::memory_order mo;
    operator std::memory_order() const
    {
        if ( ++tls_order_count > c_order_limit ) {
            tls_order_count = c_order_limit - 50;       // then every 50 atomic operations
            retry_tick();
        }
        return mo;
    }
};
struct hint_memory_model {
    static hint_order const memory_order_relaxed;
    static hint_order const memory_order_consume;
    static hint_order const memory_order_acquire;
    static hint_order const memory_order_release;
    static hint_order const memory_order_acq_rel;
    static hint_order const memory_order_seq_cst;
};
hint_order const hint_memory_model::memory_order_relaxed = { std::memory_order_relaxed };
hint_order const hint_memory_model::memory_order_consume = { std::memory_order_consume };
hint_order const hint_memory_model::memory_order_acquire = { std::memory_order_acquire };
hint_order const hint_memory_model::memory_order_release = { std::memory_order_release };
hint_order const hint_memory_model::memory_order_acq_rel = { std::memory_order_acq_rel };
hint_order const hint_memory_model::memory_order_seq_cst = { std::memory_order_seq_cst };

// Deterministic random-level generator (the library's generators are seeded from the OS timer, which
// would make a case irreproducible).  Geometric distribution with p = 1/2, heights 1 .. 6.
static unsigned g_level_seed = 1;
struct det_level_gen {
    static unsigned int const c_nUpperBound = 6;
    unsigned s;
    det_level_gen() : s( g_level_seed * 2654435761u + 12345u ) {}
    unsigned int operator()()
    {
        s = s * 1103515245u + 12345u;
        unsigned x = s >> 16, lvl = 0;
        while (( x & 1 ) && lvl + 1 < c_nUpperBound ) { ++lvl; x >>= 1; }
        return lvl;
    }
};

template <bool Cmp> struct skip_traits;
template <> struct skip_traits<false> : cc::skip_list::traits {
    typedef key_less less;
    typedef det_level_gen random_level_generator;
    typedef hint_memory_model memory_model;
};
template <> struct skip_traits<true> : cc::skip_list::traits {
    typedef key_cmp compare;
    typedef det_level_gen random_level_generator;
    typedef cds::atomicity::item_counter item_counter;
    typedef hint_memory_model memory_model;
};

// Tie A (atomic-trace conformance with the Lean machine lean/CdsVerif/Algo/SkipList/Model.lean): intrusive
// SkipListSet<HP> whose words are all named:
//   h.<l>      level-l next word of the head tower (l = 0 .. 7)
//   n<j>.<l>   level-l next word of the item brought by the j-th INVOKED insert; n<j>.u its m_nUnlink counter
//   hgt        m_nHeight
// Tower heights are fixed by the harness (geometric, 1 .. c_max, from the case index and the insert's number) and
// told to the machine by the header word `hts=h1.h2.…` (heights of the first 16 inserts).  The towers live inside the
// items (a node builder that neither allocates nor frees), so no tower word is ever reused during a case.
// Only insert / erase / find / contains.
struct sk_item : ci::skip_list::node<cds::gc::HP> {
    long key; long val;
    ci::skip_list::node<cds::gc::HP>::atomic_marked_ptr tower[8];
};
struct sk_zero_gen {
    static unsigned int const c_nUpperBound = 3;     // c_nMaxHeight
    unsigned int operator()() { return 0; }
};
struct sk_builder {
    typedef ci::skip_list::node<cds::gc::HP> node_type;
    template <class Gen> static node_type* make_tower( node_type* p, Gen& ) { return p; }
    struct node_disposer { void operator()( node_type* ) const {} };
};
struct sk_traits : ci::skip_list::traits {
    typedef ci::skip_list::base_hook< cds::opt::gc<cds::gc::HP> > hook;
    typedef key_less less;
    typedef noop_disposer disposer;
    typedef sk_zero_gen random_level_generator;
    typedef sk_builder internal_node_builder;
    typedef hint_memory_model memory_model;
};
struct IntrSkipNamed : IMap {
    typedef ci::SkipListSet< cds::gc::HP, sk_item, sk_traits > set_t;
    std::unique_ptr<set_t> s;
    std::vector<std::unique_ptr<sk_item>> items;
    size_t named = 0;
    uint64_t hseed;
    static unsigned height_of( uint64_t seed, size_t j )
    {
        uint64_t x = ( seed * 6364136223846793005ull + j * 1442695040888963407ull + 1013904223ull );
        x ^= x >> 29; x *= 0xbf58476d1ce4e5b9ull; x ^= x >> 32;
        unsigned h = 1;
        while (( x & 1 ) && h < sk_zero_gen::c_nUpperBound ) { ++h; x >>= 1; }
        return h;
    }
    explicit IntrSkipNamed( uint64_t seed ) : s( new set_t ), hseed( seed )
    {
        can_update = false; can_extract = false; can_minmax = false;
        char nm[32];
        reg_name( &s->m_Head.m_pNext, sizeof( s->m_Head.m_pNext ), "h.0" );
        for ( unsigned l = 1; l < 8; ++l ) {
            std::snprintf( nm, sizeof nm, "h.%u", l );
            reg_name( &s->m_Head.m_Tower[l - 1], sizeof( s->m_Head.m_Tower[0] ), nm );
        }
        reg_name( &s->m_nHeight, sizeof( s->m_nHeight ), "hgt" );
    }
    ~IntrSkipNamed()
    {
        s.reset();
        cds::gc::HP::force_dispose();
    }
    std::string heights() const
    {
        std::string r = "hts=";
        for ( size_t j = 1; j <= 16; ++j ) { if ( j > 1 ) r += '.'; r += std::to_string( height_of( hseed, j )); }
        return r;
    }
    bool insert( long k, long v ) override
    {
        set_quiet( true );
        sk_item* p = new sk_item;
        size_t j = ++named;
        unsigned h = height_of( hseed, j );
        for ( unsigned l = 0; l < 8; ++l ) p->tower[l].store( sk_item::marked_ptr());
        if ( h > 1 ) p->make_tower( h, p->tower );
        set_quiet( false );
        p->key = k; p->val = v;
        items.emplace_back( p );
        char nm[32];
        std::snprintf( nm, sizeof nm, "n%zu.0", j );
        reg_name( &p->m_pNext, sizeof( p->m_pNext ), nm );
        for ( unsigned l = 1; l < 8; ++l ) {
            std::snprintf( nm, sizeof nm, "n%zu.%u", j, l );
            reg_name( &p->tower[l - 1], sizeof( p->tower[0] ), nm );
        }
        std::snprintf( nm, sizeof nm, "n%zu.u", j );
        reg_name( &p->m_nUnlink, sizeof( p->m_nUnlink ), nm );
        return s->insert( *p );
    }
    std::pair<bool, bool> update( long, long, bool ) override { return std::make_pair( false, false ); }
    bool erase( long k, long& v ) override { return s->erase( k, [&v]( sk_item const& item ) { v = item.val; } ); }
    bool find( long k, long& v ) override { return s->find( k, [&v]( sk_item& item, long& ) { v = item.val; } ); }
    bool contains( long k ) override { return s->contains( k ); }
    // main thread, quiescent: `SNAP skip { L { <key> <marked> }* }*` as clients/snap.cpp prints it (one `L` group per level
    // from the head tower, level 0 first, up to the highest non-empty level; marked = mark bits of that node's next[level]).
    // The loads are kept out of the trace (set_quiet): the replayed machine must not see them.
    void dump( std::ostream& out ) override
    {
        set_quiet( true );
        auto* head = s->m_Head.head();
        unsigned H = head->height();
        std::vector<std::string> lv( H );
        unsigned top = 0;
        for ( unsigned lvl = 0; lvl < H; ++lvl ) {
            unsigned n = 0;
            for ( auto* cur = head->next( lvl ).load( atomics::memory_order_acquire ).ptr(); cur && n < 100000; ++n ) {
                if ( cur->height() <= lvl ) { lv[lvl] += " node-linked-above-its-height"; break; }
                auto nx = cur->next( lvl ).load( atomics::memory_order_acquire );
                lv[lvl] += ' ' + std::to_string( static_cast<sk_item*>( cur )->key ) + ( nx.bits() ? " 1" : " 0" );
                cur = nx.ptr();
                top = lvl + 1;
            }
        }
        out << "SNAP skip";
        for ( unsigned lvl = 0; lvl < top; ++lvl ) out << " L" << lv[lvl];
        out << '\n';
        set_quiet( false );
    }
};

// ---------------------------------------------------------------- Ellen's binary tree

// search() (used by every operation, find() included) restarts from the root, without back-off, as long
// as a node on its path carries a DFlag / Mark update descriptor of a deletion in progress: report it
struct ellen_hint_stat : ci::ellen_bintree::empty_stat {
    void onSearchRetry() const { retry_tick(); }
};

struct kv_key_extractor { void operator()( long& dest, kv const& src ) const { dest = src.key; } };
template <bool Cmp> struct ellen_set_traits;
template <> struct ellen_set_traits<false> : cc::ellen_bintree::traits {
    typedef kv_key_extractor key_extractor;
    typedef key_less less;
    typedef hint_backoff back_off;
    typedef ellen_hint_stat stat;
};
template <> struct ellen_set_traits<true> : cc::ellen_bintree::traits {
    typedef kv_key_extractor key_extractor;
    typedef key_cmp compare;
    typedef cds::atomicity::item_counter item_counter;
    typedef hint_backoff back_off;
    typedef ellen_hint_stat stat;
};
template <bool Cmp> struct ellen_map_traits;
template <> struct ellen_map_traits<false> : cc::ellen_bintree::traits { typedef key_less less; typedef hint_backoff back_off; typedef ellen_hint_stat stat; };
template <> struct ellen_map_traits<true> : cc::ellen_bintree::traits { typedef key_cmp compare; typedef cds::atomicity::item_counter item_counter; typedef hint_backoff back_off; typedef ellen_hint_stat stat; };

// set-like trees: the interface of the set-like lists plus extract_min / extract_max
template <class S>
struct TreeSet : IMap {
    S l;
    TreeSet() { can_minmax = true; }
    bool insert( long k, long v ) override { return l.insert( kv( k, v )); }
    std::pair<bool, bool> update( long k, long v, bool allow ) override
    {
        return l.update( kv( k, v ), []( bool, kv& item, kv const& key ) { item.val = key.val; }, allow );
    }
    bool erase( long k, long& v ) override { return l.erase( kv( k, 0 ), [&v]( kv const& item ) { v = item.val; } ); }
    bool extract( long k, long& v ) override
    {
        auto p = l.extract( kv( k, 0 ));
        if ( !p ) return false;
        v = p->val;
        return true;
    }
    // SkipListSet::find( Q const& key, Func f ) does not compile (its wrapper lambda takes `Q& v` but receives a
    // const key; compare find_with), so the non-const overload find( Q& key, Func f ) is used for all trees.
    bool find( long k, long& v ) override
    {
        kv key( k, 0 );
        return l.find( key, [&v]( kv& item, kv& ) { v = item.val; } );
    }
    bool contains( long k ) override { return l.contains( kv( k, 0 )); }
    bool extract_min( long& k, long& v ) override
    {
        auto p = l.extract_min();
        if ( !p ) return false;
        k = p->key; v = p->val;
        return true;
    }
    bool extract_max( long& k, long& v ) override
    {
        auto p = l.extract_max();
        if ( !p ) return false;
        k = p->key; v = p->val;
        return true;
    }
};

template <class M>
struct TreeMap : KVListML<M> {
    TreeMap() { this->can_minmax = true; }
    bool extract_min( long& k, long& v ) override
    {
        auto p = this->l.extract_min();
        if ( !p ) return false;
        k = p->first; v = p->second;
        return true;
    }
    bool extract_max( long& k, long& v ) override
    {
        auto p = this->l.extract_max();
        if ( !p ) return false;
        k = p->first; v = p->second;
        return true;
    }
};

// ---------------------------------------------------------------- Bronson's AVL tree

typedef cds::sync::pool_monitor< cds::memory::vyukov_queue_pool< cds::sync::spin > > spin_pool_monitor;

template <bool Pool, bool Relaxed> struct bronson_traits;
template <bool Relaxed> struct bronson_traits<false, Relaxed> : cc::bronson_avltree::traits {
    typedef key_less less;
    typedef cds::sync::injecting_monitor< cds::sync::spin > sync_monitor;
    static bool const relaxed_insert = Relaxed;
    typedef hint_backoff back_off;
};
template <bool Relaxed> struct bronson_traits<true, Relaxed> : cc::bronson_avltree::traits {
    typedef key_cmp compare;
    typedef spin_pool_monitor sync_monitor;
    static bool const relaxed_insert = Relaxed;
    typedef hint_backoff back_off;
    typedef cds::atomicity::item_counter item_counter;
};
template <bool Pool> struct bronson_ptr_traits : bronson_traits<Pool, false> {
    typedef noop_disposer disposer;     // the values are owned by the fixture
};

// BronsonAVLTreeMap< RCU, long, long >: update() changes the mapped value in place under the node lock
template <class M>
struct BronsonMap : IMap {
    M m;
    BronsonMap() { can_minmax = true; }
    bool insert( long k, long v ) override { return m.insert( k, v ); }
    std::pair<bool, bool> update( long k, long v, bool allow ) override
    {
        return m.update( k, [v]( bool, long const&, long& item ) { item = v; }, allow );
    }
    bool erase( long k, long& v ) override { return m.erase( k, [&v]( long const&, long& item ) { v = item; } ); }
    bool extract( long k, long& v ) override
    {
        auto p = m.extract( k );
        if ( !p ) return false;
        v = *p;
        return true;
    }
    bool find( long k, long& v ) override { return m.find( k, [&v]( long const&, long& item ) { v = item; } ); }
    bool contains( long k ) override { return m.contains( k ); }
    bool extract_min( long& k, long& v ) override
    {
        auto p = m.extract_min_key( k );
        if ( !p ) return false;
        v = *p;
        return true;
    }
    bool extract_max( long& k, long& v ) override
    {
        auto p = m.extract_max_key( k );
        if ( !p ) return false;
        v = *p;
        return true;
    }
};

// BronsonAVLTreeMap< RCU, long, long* >: the values belong to the client; update() replaces the pointer
template <class RCU, class M>
struct BronsonPtrMap : IMap {
    std::unique_ptr<M> m;
    std::vector<std::unique_ptr<long>> pool;
    long* make( long v ) { pool.emplace_back( new long( v )); return pool.back().get(); }
    BronsonPtrMap() : m( new M ) { can_minmax = true; }
    ~BronsonPtrMap()
    {
        m.reset();
        RCU::force_dispose();
    }
    bool insert( long k, long v ) override { return m->insert( k, make( v )); }
    std::pair<bool, bool> update( long k, long v, bool allow ) override { return m->update( k, make( v ), allow ); }
    bool erase( long k, long& v ) override { return m->erase( k, [&v]( long const&, long& item ) { v = item; } ); }
    bool extract( long k, long& v ) override
    {
        auto p = m->extract( k );
        if ( !p ) return false;
        v = *p;
        return true;
    }
    bool find( long k, long& v ) override { return m->find( k, [&v]( long const&, long& item ) { v = item; } ); }
    bool contains( long k ) override { return m->contains( k ); }
    bool extract_min( long& k, long& v ) override
    {
        auto p = m->extract_min_key( k );
        if ( !p ) return false;
        v = *p;
        return true;
    }
    bool extract_max( long& k, long& v ) override
    {
        auto p = m->extract_max_key( k );
        if ( !p ) return false;
        v = *p;
        return true;
    }
};

// ---------------------------------------------------------------- fixture

struct Fixture {
    static char const* family() { return "tree"; }
    static std::vector<std::string> variants()
    {
        return {
            "skipset_hp", "skipset_dhp", "skipset_gpi", "skipset_gpb", "skipset_hp_cmp",
            "skipmap_hp", "skipmap_dhp", "skipmap_gpi", "skipmap_gpb", "skipmap_dhp_cmp",
            "ellenset_hp", "ellenset_dhp", "ellenset_gpi", "ellenset_gpb", "ellenset_hp_cmp",
            "ellenmap_hp", "ellenmap_dhp", "ellenmap_gpi", "ellenmap_gpb", "ellenmap_dhp_cmp",
            "bronson_gpi", "bronson_gpb", "bronson_gpi_pool", "bronson_gpb_pool", "bronson_gpi_relaxed",
            "bronson_ptr_gpi", "bronson_ptr_gpb_pool"
        };
    }
    std::unique_ptr<IMap> m;
    bool failed = false;
    std::string failure;
    std::function<void()> after;      // run after the container has been destroyed
    GenCfg gen;
    std::string hx;                      // extra words for the case header (configuration the Lean machine needs)
    std::string header_extra() const { return hx; }

    explicit Fixture( Case const& c )
    {
        typedef cds::gc::HP HP;
        typedef cds::gc::DHP DHP;
        std::string const& v = c.variant;
        g_hints = c.optl( "hints", 1 ) != 0;
        g_level_seed = unsigned( c.index + 1 );
        gen.maxkeys = 6;
        if ( c.index % 4 == 0 ) { gen.maxkeys = 8; gen.ins_heavy = true; }
        auto gpi = [this] { after = [] { rcu_gpi::force_dispose(); }; };
        auto gpb = [this] { after = [] { rcu_gpb::force_dispose(); }; };

        if ( v == "skipset_hp" ) m.reset( new TreeSet<cc::SkipListSet<HP, kv, skip_traits<false>>> );
        else if ( v == "skipset_dhp" ) m.reset( new TreeSet<cc::SkipListSet<DHP, kv, skip_traits<false>>> );
        else if ( v == "skipset_hp_cmp" ) m.reset( new TreeSet<cc::SkipListSet<HP, kv, skip_traits<true>>> );
        else if ( v == "skipset_gpi" ) { m.reset( new TreeSet<cc::SkipListSet<rcu_gpi, kv, skip_traits<false>>> ); gpi(); }
        else if ( v == "skipset_gpb" ) { m.reset( new TreeSet<cc::SkipListSet<rcu_gpb, kv, skip_traits<true>>> ); gpb(); }
        else if ( v == "skipmap_hp" ) m.reset( new TreeMap<cc::SkipListMap<HP, long, long, skip_traits<false>>> );
        else if ( v == "skipmap_dhp" ) m.reset( new TreeMap<cc::SkipListMap<DHP, long, long, skip_traits<false>>> );
        else if ( v == "skipmap_dhp_cmp" ) m.reset( new TreeMap<cc::SkipListMap<DHP, long, long, skip_traits<true>>> );
        else if ( v == "skipmap_gpi" ) { m.reset( new TreeMap<cc::SkipListMap<rcu_gpi, long, long, skip_traits<true>>> ); gpi(); }
        else if ( v == "skipmap_gpb" ) { m.reset( new TreeMap<cc::SkipListMap<rcu_gpb, long, long, skip_traits<false>>> ); gpb(); }
        else if ( v == "ellenset_hp" ) m.reset( new TreeSet<cc::EllenBinTreeSet<HP, long, kv, ellen_set_traits<false>>> );
        else if ( v == "ellenset_dhp" ) m.reset( new TreeSet<cc::EllenBinTreeSet<DHP, long, kv, ellen_set_traits<false>>> );
        else if ( v == "ellenset_hp_cmp" ) m.reset( new TreeSet<cc::EllenBinTreeSet<HP, long, kv, ellen_set_traits<true>>> );
        else if ( v == "ellenset_gpi" ) { m.reset( new TreeSet<cc::EllenBinTreeSet<rcu_gpi, long, kv, ellen_set_traits<false>>> ); gpi(); }
        else if ( v == "ellenset_gpb" ) { m.reset( new TreeSet<cc::EllenBinTreeSet<rcu_gpb, long, kv, ellen_set_traits<true>>> ); gpb(); }
        // EllenBinTreeMap::update( key, functor ) links a node with a default-constructed mapped value and calls
        // the functor after try_insert() / help_insert() have completed, so other threads can observe payload 0
        // (documented "insert item troubleshooting" hazard).  The ellenmap_* variants therefore generate
        // `update k 0 allow` (the functor assigns 0, see upd_zero); "ellenmap_hp_updfn" (not chosen at random)
        // assigns unique payloads and shows the hazard.
        else if ( v == "ellenmap_hp_updfn" ) m.reset( new TreeMap<cc::EllenBinTreeMap<HP, long, long, ellen_map_traits<false>>> );
        else if ( v == "ellenmap_hp" ) m.reset( new TreeMap<cc::EllenBinTreeMap<HP, long, long, ellen_map_traits<false>>> );
        else if ( v == "ellenmap_dhp" ) m.reset( new TreeMap<cc::EllenBinTreeMap<DHP, long, long, ellen_map_traits<false>>> );
        else if ( v == "ellenmap_dhp_cmp" ) m.reset( new TreeMap<cc::EllenBinTreeMap<DHP, long, long, ellen_map_traits<true>>> );
        else if ( v == "ellenmap_gpi" ) { m.reset( new TreeMap<cc::EllenBinTreeMap<rcu_gpi, long, long, ellen_map_traits<true>>> ); gpi(); }
        else if ( v == "ellenmap_gpb" ) { m.reset( new TreeMap<cc::EllenBinTreeMap<rcu_gpb, long, long, ellen_map_traits<false>>> ); gpb(); }
        else if ( v == "bronson_gpi" ) { m.reset( new BronsonMap<cc::BronsonAVLTreeMap<rcu_gpi, long, long, bronson_traits<false, false>>> ); gpi(); }
        else if ( v == "bronson_gpb" ) { m.reset( new BronsonMap<cc::BronsonAVLTreeMap<rcu_gpb, long, long, bronson_traits<false, false>>> ); gpb(); }
        else if ( v == "bronson_gpi_pool" ) { m.reset( new BronsonMap<cc::BronsonAVLTreeMap<rcu_gpi, long, long, bronson_traits<true, false>>> ); gpi(); }
        else if ( v == "bronson_gpb_pool" ) { m.reset( new BronsonMap<cc::BronsonAVLTreeMap<rcu_gpb, long, long, bronson_traits<true, false>>> ); gpb(); }
        else if ( v == "bronson_gpi_relaxed" ) { m.reset( new BronsonMap<cc::BronsonAVLTreeMap<rcu_gpi, long, long, bronson_traits<false, true>>> ); gpi(); }
        else if ( v == "bronson_ptr_gpi" ) m.reset( new BronsonPtrMap<rcu_gpi, cc::BronsonAVLTreeMap<rcu_gpi, long, long*, bronson_ptr_traits<false>>> );
        else if ( v == "bronson_ptr_gpb_pool" ) m.reset( new BronsonPtrMap<rcu_gpb, cc::BronsonAVLTreeMap<rcu_gpb, long, long*, bronson_ptr_traits<true>>> );
        // tie A variant, not chosen at random (use --variant): see IntrSkipNamed; --keys N narrows the key space
        else if ( v == "iskipset_hp_named" ) {
            IntrSkipNamed* p = new IntrSkipNamed( c.seed * 1000003ull + c.index );
            m.reset( p );
            hx = p->heights();
            if ( c.optl( "fastmark", 1 ) == 0 ) hx += " fastmark=0";    // trace of a tree WITHOUT the fast-path mark test (before b95a3c3)
            if ( c.optl( "keys", 0 ) > 1 ) gen.maxkeys = int( c.optl( "keys", 0 ));
        }
        else { std::fprintf( stderr, "unknown variant %s\n", v.c_str()); std::exit( 2 ); }
        if ( v.compare( 0, 9, "ellenmap_" ) == 0 && v != "ellenmap_hp_updfn" )
            m->upd_zero = true;
        if ( c.optl( "minmax", 1 ) == 0 )       // --minmax 0: no extract_min / extract_max operations
            m->can_minmax = false;
    }
    ~Fixture()
    {
        m.reset();
        if ( after ) after();
    }
    std::string spec() const { return "map"; }
    std::vector<std::vector<Op>> program( Rng& r, int nthreads, int nops ) { return map_program( r, nthreads, nops, *m, gen ); }
    void thread_begin( int ) { set_quiet( true ); cds::threading::Manager::attachThread(); set_quiet( false ); }
    void thread_end( int ) { set_quiet( true ); cds::threading::Manager::detachThread(); set_quiet( false ); }
    std::vector<long> exec( int, Op const& op ) { tls_order_count = 0; return map_exec( *m, op ); }
    void finish( std::ostream& out ) { m->dump( out ); }
};

int main( int argc, char** argv )
{
    cds::Initialize();
    {
        cds::gc::HP hp( 24, 16 );
        cds::gc::DHP dhp;
        rcu_gpi gpi;
        Args a = parse_args( argc, argv );
        auto it = a.opt.find( "rcubuf" );
        rcu_gpb gpb( it == a.opt.end() ? 4 : size_t( std::atol( it->second.c_str())));
        cds::threading::Manager::attachThread();
        int rc = client_main<Fixture>( argc, argv );
        cds::threading::Manager::detachThread();
        (void) rc;
    }
    cds::Terminate();
    return 0;
}

/-
  OptimisticQueue model: every atomic step preserves the structural invariant `SInvL` and has the effect `StepEff`
  on the abstract queue (one lemma per program point).
-/
import CdsVerif.Algo.Optimistic.Inv
namespace CdsVerif.Algo.Optimistic
open CdsVerif.Machine CdsVerif.Spec CdsVerif.Lin CdsVerif.Algo.QueueLin

macro "inv_open" h:ident : tactic =>
  `(tactic| obtain ⟨hch, hnd, hrl, hpub, hpriv, hown, hpw, hlk, hdh, hinw, hseg, hfne⟩ := $h)

set_option hygiene false in
macro "inv_open'" h:ident : tactic =>
  `(tactic| obtain ⟨hch, hnd, hrl, hpub, hpriv, hown, hpw, hlk, hdh, hinw, hseg, hfne⟩ := $h)

/-- The source of an observed link is the thread's own private node or a published node it holds. -/
theorem link_src {pc : PC} {a : Nat} {v : Option Nat} (h : linkOf pc = some (a, v)) :
    enqNode pc = some a ∨ a ∈ wnodes pc := by
  cases pc <;> simp_all [linkOf, enqNode, wnodes]

theorem seg_deqH {pc : PC} {h x : Nat} (hs : segNode pc = some (h, x)) : deqH pc = some h := by
  cases pc <;> simp_all [segNode, deqH]

theorem sinvl_step_enqLd1 {s s' : St} {t : Tid} {ev : Ev} {R G : List Nat} {n : Nat}
    (h : SInvL s R G) (hpc : s.pc t = .enqLd1 n) (hs : step s t = some (s', ev)) :
    ∃ R' G', SInvL s' R' G' ∧ StepEff s t s' R R' := by
  inv_open' h
  simp only [step, hpc] at hs
  simp at hs; obtain ⟨rfl, -⟩ := hs
  refine ⟨R, G, ?_, ?_⟩
  · sinv_close
  · eff_close

theorem sinvl_step_enqLd2 {s s' : St} {t : Tid} {ev : Ev} {R G : List Nat} {n p : Nat}
    (h : SInvL s R G) (hpc : s.pc t = .enqLd2 n p) (hs : step s t = some (s', ev)) :
    ∃ R' G', SInvL s' R' G' ∧ StepEff s t s' R R' := by
  inv_open' h
  simp only [step, hpc] at hs
  split at hs
  · simp at hs; obtain ⟨rfl, -⟩ := hs
    refine ⟨R, G, ?_, ?_⟩
    · sinv_close
    · eff_close
  · simp at hs; obtain ⟨rfl, -⟩ := hs
    refine ⟨R, G, ?_, ?_⟩
    · sinv_close
    · eff_close

theorem sinvl_step_enqSetNext {s s' : St} {t : Tid} {ev : Ev} {R G : List Nat} {n a : Nat}
    (h : SInvL s R G) (hpc : s.pc t = .enqSetNext n a) (hs : step s t = some (s', ev)) :
    ∃ R' G', SInvL s' R' G' ∧ StepEff s t s' R R' := by
  inv_open' h
  simp only [step, hpc] at hs
  simp at hs; obtain ⟨rfl, -⟩ := hs
  have hnW : n ∉ R ++ G := fun hm => (hpub n hm).2 t (by simp [hpc, enqNode])
  have hch' := Chain.upd (v := some a) hnW hch
  have hsrc : ∀ t2 b v, linkOf (s.pc t2) = some (b, v) → b = n → t2 = t := by
    intro t2 b v hl hb
    rcases link_src hl with h1 | h1
    · exact hown t2 t n (hb ▸ h1) (by simp [hpc, enqNode])
    · exact absurd (hb ▸ hinw t2 b h1) hnW
  refine ⟨R, G, ?_, ?_⟩
  · sinv_close
  · eff_close

theorem qOf_cons {val : Nat → Int} {n : Nat} {R : List Nat} (hR : R ≠ []) :
    qOf val (n :: R) = qOf val R ++ [val n] := by
  cases R with
  | nil => exact absurd rfl hR
  | cons a r => simp [qOf]

theorem sinvl_step_enqCas {s s' : St} {t : Tid} {ev : Ev} {R G : List Nat} {n a : Nat}
    (h : SInvL s R G) (hpc : s.pc t = .enqCas n a) (hs : step s t = some (s', ev)) :
    ∃ R' G', SInvL s' R' G' ∧ StepEff s t s' R R' := by
  obtain ⟨r0, hr0⟩ := h.tail_cons
  inv_open' h
  have hnn := hlk t n (some a) (by simp [hpc, linkOf])
  simp only [step, hpc] at hs
  split at hs
  next heq =>
    simp at hs; obtain ⟨rfl, -⟩ := hs
    have hnW : n ∉ R ++ G := fun hm => (hpub n hm).2 t (by simp [hpc, enqNode])
    have hnc := hpriv t n (by simp [hpc, enqNode])
    have hch' : Chain s.next (some n) ((n :: R) ++ G) := by
      simp only [List.cons_append, Chain, true_and]; rw [hnn, ← heq]; exact hch
    have hnd' : ((n :: R) ++ G).Nodup := by
      simp only [List.cons_append, List.nodup_cons]; exact ⟨hnW, hnd⟩
    have hrl' : (n :: R).getLast? = some s.head := by rw [hr0, List.getLast?_cons_cons, ← hr0]; exact hrl
    have hmem : ∀ c, c ∈ (n :: R) ++ G ↔ (c = n ∨ c ∈ R ++ G) := fun c => by simp
    have hmemR : ∀ c, c ∈ n :: R ↔ (c = n ∨ c ∈ R) := fun c => List.mem_cons
    have hRW : ∀ c, c ∈ R → c ∈ R ++ G := fun c hc => List.mem_append_left _ hc
    refine ⟨n :: R, G, ?_, ?_⟩
    · sinv_close
    · have hlp : fifo.next (qOf s.val R) ⟨"enq", [s.val n]⟩ [1] = some (qOf s.val (n :: R)) := by
        rw [qOf_cons (by rw [hr0]; simp)]; exact fifo_enq _ _
      eff_close
  next hne =>
    simp at hs; obtain ⟨rfl, -⟩ := hs
    refine ⟨R, G, ?_, ?_⟩
    · sinv_close
    · eff_close

theorem sinvl_step_enqSetPrev {s s' : St} {t : Tid} {ev : Ev} {R G : List Nat} {n a : Nat}
    (h : SInvL s R G) (hpc : s.pc t = .enqSetPrev n a) (hs : step s t = some (s', ev)) :
    ∃ R' G', SInvL s' R' G' ∧ StepEff s t s' R R' := by
  inv_open' h
  simp only [step, hpc] at hs
  simp at hs; obtain ⟨rfl, -⟩ := hs
  have hnW : n ∈ R ++ G := hinw t n (by simp [hpc, wnodes])
  refine ⟨R, G, ?_, ?_⟩
  · sinv_close
  · eff_close

theorem sinvl_step_deqLdH1 {s s' : St} {t : Tid} {ev : Ev} {R G : List Nat}
    (h : SInvL s R G) (hpc : s.pc t = .deqLdH1) (hs : step s t = some (s', ev)) :
    ∃ R' G', SInvL s' R' G' ∧ StepEff s t s' R R' := by
  inv_open' h
  simp only [step, hpc] at hs
  simp at hs; obtain ⟨rfl, -⟩ := hs
  refine ⟨R, G, ?_, ?_⟩
  · sinv_close
  · eff_close

theorem sinvl_step_deqLdH2 {s s' : St} {t : Tid} {ev : Ev} {R G : List Nat} {p : Nat}
    (h : SInvL s R G) (hpc : s.pc t = .deqLdH2 p) (hs : step s t = some (s', ev)) :
    ∃ R' G', SInvL s' R' G' ∧ StepEff s t s' R R' := by
  have hhm := h.head_mem
  have hhW : s.head ∈ R ++ G := List.mem_append_left _ hhm
  inv_open' h
  simp only [step, hpc] at hs
  split at hs
  · simp at hs; obtain ⟨rfl, -⟩ := hs
    refine ⟨R, G, ?_, ?_⟩
    · sinv_close
    · eff_close
  · simp at hs; obtain ⟨rfl, -⟩ := hs
    refine ⟨R, G, ?_, ?_⟩
    · sinv_close
    · eff_close

theorem sinvl_step_deqLdT1 {s s' : St} {t : Tid} {ev : Ev} {R G : List Nat} {a : Nat}
    (h : SInvL s R G) (hpc : s.pc t = .deqLdT1 a) (hs : step s t = some (s', ev)) :
    ∃ R' G', SInvL s' R' G' ∧ StepEff s t s' R R' := by
  inv_open' h
  simp only [step, hpc] at hs
  simp at hs; obtain ⟨rfl, -⟩ := hs
  refine ⟨R, G, ?_, ?_⟩
  · sinv_close
  · eff_close

theorem sinvl_step_deqLdT2 {s s' : St} {t : Tid} {ev : Ev} {R G : List Nat} {a p : Nat}
    (h : SInvL s R G) (hpc : s.pc t = .deqLdT2 a p) (hs : step s t = some (s', ev)) :
    ∃ R' G', SInvL s' R' G' ∧ StepEff s t s' R R' := by
  obtain ⟨r0, hr0⟩ := h.tail_cons
  have hteh := h.tail_eq_head
  have htR : s.tail ∈ R := by rw [hr0]; simp
  have htW : s.tail ∈ R ++ G := List.mem_append_left _ htR
  inv_open' h
  simp only [step, hpc] at hs
  split at hs
  next heq =>
    simp at hs; obtain ⟨rfl, -⟩ := hs
    by_cases hpa : p = a
    · -- the tail is the node read from `head`: it is still `head`, the queue is empty
      subst hpa
      have hhd : s.head = p := (hdh t p (by simp [hpc, deqH])).2 (heq ▸ htR)
      have hR : R = [p] := by rw [← hhd]; exact hteh (by rw [heq, hhd])
      have hlp : fifo.next (qOf s.val R) ⟨"deq", []⟩ [0] = some (qOf s.val R) := by
        rw [hR]; exact fifo_deq_none
      refine ⟨R, G, ?_, ?_⟩
      · sinv_close
      · eff_close
    · refine ⟨R, G, ?_, ?_⟩
      · sinv_close
      · eff_close
  next hne =>
    simp at hs; obtain ⟨rfl, -⟩ := hs
    refine ⟨R, G, ?_, ?_⟩
    · sinv_close
    · eff_close

theorem sinvl_step_deqPv1 {s s' : St} {t : Tid} {ev : Ev} {R G : List Nat} {a b : Nat}
    (h : SInvL s R G) (hpc : s.pc t = .deqPv1 a b) (hs : step s t = some (s', ev)) :
    ∃ R' G', SInvL s' R' G' ∧ StepEff s t s' R R' := by
  inv_open' h
  simp only [step, hpc] at hs
  simp at hs; obtain ⟨rfl, -⟩ := hs
  have hbW := hinw t b (by simp [hpc, wnodes])
  cases hp : s.prev a with
  | none =>
    refine ⟨R, G, ?_, ?_⟩
    · sinv_close
    · eff_close
  | some f =>
    have hfW := hpw a f hp
    refine ⟨R, G, ?_, ?_⟩
    · sinv_close
    · eff_close

theorem sinvl_step_deqPv2 {s s' : St} {t : Tid} {ev : Ev} {R G : List Nat} {a b : Nat} {p : Option Nat}
    (h : SInvL s R G) (hpc : s.pc t = .deqPv2 a b p) (hs : step s t = some (s', ev)) :
    ∃ R' G', SInvL s' R' G' ∧ StepEff s t s' R R' := by
  inv_open' h
  simp only [step, hpc] at hs
  cases p with
  | none =>
    split at hs
    · simp at hs; obtain ⟨rfl, -⟩ := hs
      refine ⟨R, G, ?_, ?_⟩
      · sinv_close
      · eff_close
    · simp at hs; obtain ⟨rfl, -⟩ := hs
      refine ⟨R, G, ?_, ?_⟩
      · sinv_close
      · eff_close
  | some f =>
    split at hs
    · simp at hs; obtain ⟨rfl, -⟩ := hs
      refine ⟨R, G, ?_, ?_⟩
      · sinv_close
      · eff_close
    · simp at hs; obtain ⟨rfl, -⟩ := hs
      refine ⟨R, G, ?_, ?_⟩
      · sinv_close
      · eff_close

set_option maxHeartbeats 1600000 in
theorem sinvl_step_deqChk {s s' : St} {t : Tid} {ev : Ev} {R G : List Nat} {a b : Nat} {fp : Option Nat}
    (h : SInvL s R G) (hpc : s.pc t = .deqChk a b fp) (hs : step s t = some (s', ev)) :
    ∃ R' G', SInvL s' R' G' ∧ StepEff s t s' R R' := by
  inv_open' h
  simp only [step, hpc] at hs
  split at hs
  next heq =>
    split at hs
    next hba =>
      simp at hs; obtain ⟨rfl, -⟩ := hs
      refine ⟨R, G, ?_, ?_⟩
      · cases fp <;> sinv_close
      · cases fp <;> eff_close
    next hba =>
      split at hs
      next =>
        simp at hs; obtain ⟨rfl, -⟩ := hs
        refine ⟨R, G, ?_, ?_⟩
        · sinv_close
        · eff_close
      next f =>
        simp at hs; obtain ⟨rfl, -⟩ := hs
        refine ⟨R, G, ?_, ?_⟩
        · sinv_close
        · eff_close
  next hne =>
    simp at hs; obtain ⟨rfl, -⟩ := hs
    refine ⟨R, G, ?_, ?_⟩
    · cases fp <;> sinv_close
    · cases fp <;> eff_close

theorem sinvl_step_deqFpNext {s s' : St} {t : Tid} {ev : Ev} {R G : List Nat} {a b f : Nat}
    (h : SInvL s R G) (hpc : s.pc t = .deqFpNext a b f) (hs : step s t = some (s', ev)) :
    ∃ R' G', SInvL s' R' G' ∧ StepEff s t s' R R' := by
  inv_open' h
  simp only [step, hpc] at hs
  split at hs
  · simp at hs; obtain ⟨rfl, -⟩ := hs
    refine ⟨R, G, ?_, ?_⟩
    · sinv_close
    · eff_close
  · simp at hs; obtain ⟨rfl, -⟩ := hs
    refine ⟨R, G, ?_, ?_⟩
    · sinv_close
    · eff_close

theorem qOf_deq {val : Nat → Int} {R0 : List Nat} {f hd : Nat} :
    fifo.next (qOf val (R0 ++ [f, hd])) ⟨"deq", []⟩ [1, val f] = some (qOf val (R0 ++ [f])) := by
  have e1 : (R0 ++ [f, hd]).dropLast = R0 ++ [f] := by
    have : R0 ++ [f, hd] = (R0 ++ [f]) ++ [hd] := by simp
    rw [this, List.dropLast_concat]
  have e2 : (R0 ++ [f]).dropLast = R0 := List.dropLast_concat
  have e3 : (R0 ++ [f]).reverse = f :: R0.reverse := by simp
  unfold qOf
  rw [e1, e2, e3, List.map_cons]
  exact fifo_deq_some _ _

set_option maxHeartbeats 1600000 in
theorem sinvl_step_deqCas {s s' : St} {t : Tid} {ev : Ev} {R G : List Nat} {a f : Nat}
    (h : SInvL s R G) (hpc : s.pc t = .deqCas a f) (hs : step s t = some (s', ev)) :
    ∃ R' G', SInvL s' R' G' ∧ StepEff s t s' R R' := by
  have hfirst := fun hf hn => h.first_node (f := f) hf hn
  inv_open' h
  have hfn := hlk t f (some a) (by simp [hpc, linkOf])
  have hfW := hinw t f (by simp [hpc, wnodes])
  simp only [step, hpc] at hs
  split at hs
  next heq =>
    simp at hs; obtain ⟨rfl, -⟩ := hs
    obtain ⟨R0, hR0⟩ := hfirst hfW (heq ▸ hfn)
    -- the new segment `R' = R0 ++ [f]` and the new list of old dummies `G' = head :: G`, abstractly
    obtain ⟨R', G', hW, hsub, hnh, hfR, hrl', hlp⟩ : ∃ R' G' : List Nat, R' ++ G' = R ++ G ∧ (∀ c, c ∈ R' → c ∈ R) ∧
        s.head ∉ R' ∧ f ∈ R' ∧ R'.getLast? = some f ∧
        fifo.next (qOf s.val R) ⟨"deq", []⟩ [1, s.val f] = some (qOf s.val R') := by
      refine ⟨R0 ++ [f], s.head :: G, by rw [hR0]; simp, ?_, ?_, by simp, by simp, by rw [hR0]; exact qOf_deq⟩
      · intro c hc; rw [hR0]; simp at hc ⊢; rcases hc with hc | hc
        · exact Or.inl hc
        · exact Or.inr (Or.inl hc)
      · intro hm
        have hndR : (R0 ++ [f, s.head]).Nodup := hR0 ▸ (List.nodup_append.mp hnd).1
        have e : R0 ++ [f, s.head] = (R0 ++ [f]) ++ [s.head] := by simp
        rw [e] at hndR
        exact (List.nodup_append.mp hndR).2.2 _ hm _ (by simp) rfl
    have hfh : f ≠ s.head := fun e => hnh (e ▸ hfR)
    clear hfirst hR0 R0
    have hnf : ∀ t2 x, segNode (s.pc t2) = some (f, x) → False := by
      intro t2 x hsg
      exact hfh ((hdh t2 f (seg_deqH hsg)).2 (hsub f hfR)).symm
    have hRW : ∀ c, c ∈ R → c ∈ R ++ G := fun c hc => List.mem_append_left _ hc
    refine ⟨R', G', ?_, ?_⟩
    · constructor <;> intros <;> (try dsimp only at *) <;> (try simp only [hW] at *) <;>
        grind [upd, Pub, pub_mk, enqNode, deqH, wnodes, linkOf, segNode, fixCur]
    · eff_close
  next hne =>
    simp at hs; obtain ⟨rfl, -⟩ := hs
    refine ⟨R, G, ?_, ?_⟩
    · sinv_close
    · eff_close

theorem sinvl_step_fixNx1 {s s' : St} {t : Tid} {ev : Ev} {R G : List Nat} {a c : Nat}
    (h : SInvL s R G) (hpc : s.pc t = .fixNx1 a c) (hs : step s t = some (s', ev)) :
    ∃ R' G', SInvL s' R' G' ∧ StepEff s t s' R R' := by
  inv_open' h
  simp only [step, hpc] at hs
  simp at hs; obtain ⟨rfl, -⟩ := hs
  refine ⟨R, G, ?_, ?_⟩
  · sinv_close
  · eff_close

theorem sinvl_step_fixNx2 {s s' : St} {t : Tid} {ev : Ev} {R G : List Nat} {a c : Nat} {v : Option Nat}
    (h : SInvL s R G) (hpc : s.pc t = .fixNx2 a c v) (hs : step s t = some (s', ev)) :
    ∃ R' G', SInvL s' R' G' ∧ StepEff s t s' R R' := by
  inv_open' h
  simp only [step, hpc] at hs
  split at hs
  · simp at hs; obtain ⟨rfl, -⟩ := hs
    refine ⟨R, G, ?_, ?_⟩
    · sinv_close
    · eff_close
  · simp at hs; obtain ⟨rfl, -⟩ := hs
    refine ⟨R, G, ?_, ?_⟩
    · sinv_close
    · eff_close

theorem sinvl_step_fixChk {s s' : St} {t : Tid} {ev : Ev} {R G : List Nat} {a c : Nat} {v : Option Nat}
    (h : SInvL s R G) (hpc : s.pc t = .fixChk a c v) (hs : step s t = some (s', ev)) :
    ∃ R' G', SInvL s' R' G' ∧ StepEff s t s' R R' := by
  have hnm : ∀ x, c ∈ R ++ G → s.next c = some x → x ∈ R ++ G := fun x hc hx => h.next_mem hc hx
  have hsucc := fun hc hne => seg_succ (c := c) h.chain h.rlast hc hne
  inv_open' h
  have hcv := hlk t c v (by simp [hpc, linkOf])
  have hcW := hinw t c (by simp [hpc, wnodes])
  simp only [step, hpc] at hs
  split at hs
  next heq =>
    split at hs
    next nx =>
      simp at hs; obtain ⟨rfl, -⟩ := hs
      have hnxW := hnm nx hcW hcv
      refine ⟨R, G, ?_, ?_⟩
      · sinv_close
      · eff_close
    next =>
      -- impossible: `c` is in the queue and is not `head`, so its `next` is not null
      exfalso
      have hcR := hseg t a c (by simp [hpc, segNode]) heq
      have hca := hfne t a c (by simp [hpc, fixCur])
      obtain ⟨x, hx, -⟩ := hsucc hcR (heq ▸ hca)
      rw [hcv] at hx; simp at hx
  next hne =>
    simp at hs; obtain ⟨rfl, -⟩ := hs
    refine ⟨R, G, ?_, ?_⟩
    · sinv_close
    · eff_close

theorem sinvl_step_fixSt {s s' : St} {t : Tid} {ev : Ev} {R G : List Nat} {a c nx : Nat}
    (h : SInvL s R G) (hpc : s.pc t = .fixSt a c nx) (hs : step s t = some (s', ev)) :
    ∃ R' G', SInvL s' R' G' ∧ StepEff s t s' R R' := by
  have hsucc := fun hc hne => seg_succ (c := c) h.chain h.rlast hc hne
  inv_open' h
  have hcv := hlk t c (some nx) (by simp [hpc, linkOf])
  have hcW := hinw t c (by simp [hpc, wnodes])
  have hnxW := hinw t nx (by simp [hpc, wnodes])
  have hnxR : s.head = a → nx ∈ R := by
    intro heq
    have hcR := hseg t a c (by simp [hpc, segNode]) heq
    have hca := hfne t a c (by simp [hpc, fixCur])
    obtain ⟨x, hx, hxR⟩ := hsucc hcR (heq ▸ hca)
    rw [hcv] at hx; simp at hx; exact hx ▸ hxR
  simp only [step, hpc] at hs
  simp at hs; obtain ⟨rfl, -⟩ := hs
  by_cases hnxa : nx = a
  · simp only [hnxa, if_true]
    refine ⟨R, G, ?_, ?_⟩
    · sinv_close
    · eff_close
  · simp only [hnxa, if_false]
    refine ⟨R, G, ?_, ?_⟩
    · sinv_close
    · eff_close

theorem sinvl_step {s s' : St} {t : Tid} {ev : Ev} {R G : List Nat}
    (h : SInvL s R G) (hs : step s t = some (s', ev)) : ∃ R' G', SInvL s' R' G' ∧ StepEff s t s' R R' := by
  cases hpc : s.pc t with
  | idle => simp [step, hpc] at hs
  | done r => simp [step, hpc] at hs
  | crash => simp [step, hpc] at hs
  | enqLd1 n => exact sinvl_step_enqLd1 h hpc hs
  | enqLd2 n p => exact sinvl_step_enqLd2 h hpc hs
  | enqSetNext n a => exact sinvl_step_enqSetNext h hpc hs
  | enqCas n a => exact sinvl_step_enqCas h hpc hs
  | enqSetPrev n a => exact sinvl_step_enqSetPrev h hpc hs
  | deqLdH1 => exact sinvl_step_deqLdH1 h hpc hs
  | deqLdH2 p => exact sinvl_step_deqLdH2 h hpc hs
  | deqLdT1 a => exact sinvl_step_deqLdT1 h hpc hs
  | deqLdT2 a p => exact sinvl_step_deqLdT2 h hpc hs
  | deqPv1 a b => exact sinvl_step_deqPv1 h hpc hs
  | deqPv2 a b p => exact sinvl_step_deqPv2 h hpc hs
  | deqChk a b fp => exact sinvl_step_deqChk h hpc hs
  | deqFpNext a b f => exact sinvl_step_deqFpNext h hpc hs
  | deqCas a f => exact sinvl_step_deqCas h hpc hs
  | fixNx1 a c => exact sinvl_step_fixNx1 h hpc hs
  | fixNx2 a c v => exact sinvl_step_fixNx2 h hpc hs
  | fixChk a c v => exact sinvl_step_fixChk h hpc hs
  | fixSt a c nx => exact sinvl_step_fixSt h hpc hs

end CdsVerif.Algo.Optimistic

/-
  MSPriorityQueue machine, layer 4 of the invariant (heap order): preservation by `step`.
  Every case names the new ghost priorities explicitly.
-/
import CdsVerif.Algo.MSPQ.G
namespace CdsVerif.Algo.MSPQ
open CdsVerif.Machine CdsVerif.Spec

/-- priority of an optional item (0 for a null pointer: never used on one) -/
def oprio : Option Int → Int
  | some v => prio v
  | none => 0

@[simp] theorem oprio_some (v : Int) : oprio (some v) = prio v := rfl

def imin (a b : Int) : Int := if a ≤ b then a else b
def imax (a b : Int) : Int := if a ≤ b then b else a

/-- ghost priority of an item `x` placed under parent `p` (`p = 0`: at the root) with an owner tag -/
def gUnder (g : Nat → Int) (i : Nat) (x : Int) : Int := if i = 1 then x else imin x (g (i / 2))

/-! ### Consequences of the shape invariant -/

theorem left_before_right {c : Cfg} {rank : Nat → Nat} (hc : SlotOK c rank) {s : St} (h : SInv c rank s) (p : Nat)
    (h1 : 1 ≤ p) (h2 : 2 * p + 1 ≤ c.cap) (hr : s.tag (2 * p + 1) ≠ .empty) : s.tag (2 * p) ≠ .empty := by
  have hrk := hc.rank_sibling p h1 h2
  cases ho : s.own 0 with
  | none =>
    have a := (h.shN (2 * p + 1) ho (by omega) h2).1 hr
    exact (h.shN (2 * p) ho (by omega) (by omega)).2 (by omega)
  | some t =>
    have a := (h.shO (2 * p + 1) t ho (by omega) h2).1 hr
    exact (h.shO (2 * p) t ho (by omega) (by omega)).2 (by omega)

theorem parent_nonempty {c : Cfg} {rank : Nat → Nat} (hc : SlotOK c rank) {s : St} (h : SInv c rank s) (i : Nat)
    (h1 : 2 ≤ i) (h2 : i ≤ c.cap) (hr : s.tag i ≠ .empty) : s.tag (i / 2) ≠ .empty := by
  have hrk := hc.rank_parent i h1 h2
  cases ho : s.own 0 with
  | none =>
    have a := (h.shN i ho (by omega) h2).1 hr
    exact (h.shN (i / 2) ho (by omega) (by omega)).2 (by omega)
  | some t =>
    have a := (h.shO i t ho (by omega) h2).1 hr
    exact (h.shO (i / 2) t ho (by omega) (by omega)).2 (by omega)

/-- The children of the slot a push is about to fill are empty. -/
theorem fresh_children_empty {c : Cfg} {rank : Nat → Nat} (hc : SlotOK c rank) {s : St} {t : Tid} {v : Int} {i : Nat}
    (hl : LInv c s) (hsi : SInv c rank s) (hpc : s.pc t = .pUnlSz v i) (j : Nat) (h1 : 2 ≤ j) (h2 : j ≤ c.cap)
    (hj : j / 2 = i) : s.tag j = .empty := by
  have hwi := (hsi.loc t).wi i (by simp [hpc, incIdx])
  have ho : s.own 0 = some t := hl.ow2 0 t (by simp [hpc, holds])
  have hr1 : rank i = s.cnt := by rw [hwi.1]; exact hc.rank_slot _ hwi.2 hl.cntle
  have hrk := hc.rank_parent j h1 h2
  have := hsi.shO j t ho (by omega) h2
  simp only [hpc, pinc, pdec] at this
  apply Classical.byContradiction; intro hne
  have := this.1 hne
  rw [hj] at hrk
  omega

macro "ggrind2" : tactic =>
  `(tactic| grind (splits := 20) (gen := 4)
      [upd, K.lock, St.setPc, rel, pushLoop, popLoop, sift, kSift, oprio, imin, imax, gUnder])

macro "gfacts2" h:ident : tactic =>
  `(tactic| (have := GOk.g1 $h; have := GOk.g2a $h; have := GOk.g2b $h; have := GOk.g3 $h))

open Lean in
macro "gg2" h:ident x:ident : tactic => do
  let f := mkIdent (`CdsVerif.Algo.MSPQ.GOk ++ x.getId.eraseMacroScopes)
  `(tactic| first
    | (intros; have := $f $h; (try dsimp only [St.setPc, rel] at *); ggrind2)
    | (intros; have := GOk.g2a $h; have := GOk.g2b $h; have := GOk.g3 $h; (try dsimp only [St.setPc, rel] at *); ggrind2)
    | (intros; gfacts2 $h; (try dsimp only [St.setPc, rel] at *); ggrind2))

/-- like `gok_all`, for a step that changes the ghost priorities -/
macro "gok_new" hl:ident h:ident he:ident t:ident : tactic =>
  `(tactic| (refine ⟨?_, ?_, ?_, ?_, fun t' => ?_⟩
             · gg2 $h g1
             · gg2 $h g2a
             · gg2 $h g2b
             · gg2 $h g3
             · by_cases ht : t' = $t
               · subst ht
                 constructor <;> intros <;> (try dsimp only [St.setPc, rel] at *) <;>
                   first | ggrind2 | (have := GOk.g2a $h; have := GOk.g2b $h; have := GOk.g3 $h; ggrind2) | (gfacts2 $h; ggrind2)
               · refine gloc_other $hl $he ?_ ht (GOk.loc $h t')
                 intros; (try dsimp only [St.setPc, rel] at *); ggrind2))

set_option maxHeartbeats 4000000 in
theorem ginv_after {c : Cfg} {rank : Nat → Nat} (hc : SlotOK c rank) {s s' : St} {t : Tid} {k : K}
    (hl : LInv c s) (hsi : SInv c rank s) (hg : GInv c s) (he : Effect s s' t) (hpc : s.pc t = .acq k)
    (hlk : s.lk k.lock = false)
    (hs : after c { s with lk := upd s.lk k.lock true, own := upd s.own k.lock (some t) } t k = some s') :
    GInv c s' := by
  obtain ⟨g, h⟩ := hg
  have hown := hl.lk0 _ hlk
  have hmine : ∀ l, holds (s.pc t) l → s.own l = some t := fun l => hl.ow2 l t
  have hwf := hl.wfp t
  have hmy : ∀ l, s.own l = some t → holds (s.pc t) l := fun l => hl.ow1 l t
  have hte1 := hsi.te1
  have hte2 := hsi.te2
  obtain ⟨-, -, -, -, -, hne, hppa⟩ := hsi.loc t
  obtain ⟨hg4, hsb1, hsb2⟩ := h.loc t
  simp only [hpc, holds, wf, nonE, popPar, sift, reduceCtorEq, false_implies, implies_true] at hmine hwf hmy hne hppa hg4 hsb1 hsb2
  clear hsb1 hsb2
  cases k with
  | pSz v =>
    simp only [after] at hs
    simp only [K.lock, kHolds, kSift] at hown hmine hmy hg4
    clear hne hppa hwf hg4
    split at hs <;> simp at hs <;> subst hs <;> refine ⟨g, ?_⟩ <;> gok_all hl h he t
  | pNode v i =>
    simp only [after] at hs; simp at hs; subst hs
    simp only [K.lock, kHolds, kWf, kSift] at hown hmine hmy hwf hg4
    clear hne hppa hg4
    refine ⟨g, ?_⟩; gok_all hl h he t
  | hPar i =>
    simp only [after] at hs; simp at hs; subst hs
    simp only [K.lock, kHolds, kWf, kSift] at hown hmine hmy hwf hg4
    clear hne hppa hg4
    refine ⟨g, ?_⟩; gok_all hl h he t
  | hItem i =>
    simp only [after] at hs
    simp only [K.lock, kHolds, kWf, kSift] at hown hmine hmy hwf hg4
    clear hne hppa hg4
    split at hs
    · split at hs
      · rename_i vi vp hvi hvp
        split at hs <;> simp at hs <;> subst hs
        · refine ⟨upd (upd g i (prio vp)) (i / 2) (gUnder g (i / 2) (prio vi)), ?_⟩
          gok_new hl h he t
        · refine ⟨upd g i (prio vi), ?_⟩
          gok_new hl h he t
      · simp at hs
    · split at hs
      · simp at hs; subst hs; refine ⟨g, ?_⟩; gok_all hl h he t
      · split at hs <;> simp at hs <;> subst hs <;> refine ⟨g, ?_⟩ <;> gok_all hl h he t
  | hRoot =>
    simp only [after] at hs
    simp only [K.lock, kHolds, kWf, kSift] at hown hmine hmy hwf hg4
    clear hne hppa hg4
    split at hs <;> simp at hs <;> subst hs
    · rename_i htag
      obtain ⟨v1, hv1⟩ : ∃ v1, s.val 1 = some v1 := by
        cases hv : s.val 1 with
        | none => have := hte2 1 hv; rw [htag] at this; cases this
        | some v => exact ⟨v, rfl⟩
      refine ⟨upd g 1 (prio v1), ?_⟩
      gok_new hl h he t
    · refine ⟨g, ?_⟩; gok_all hl h he t
  | oSz =>
    simp only [after] at hs
    simp only [K.lock, kHolds, kWf, kSift] at hown hmine hmy hwf hg4
    clear hne hppa hg4
    split at hs <;> simp at hs <;> subst hs <;> refine ⟨g, ?_⟩ <;> gok_all hl h he t
  | oTop b =>
    simp only [after] at hs
    simp only [K.lock, kHolds, kWf, kSift] at hown hmine hmy hwf hg4
    clear hne hppa hg4
    split at hs <;> simp at hs <;> subst hs <;> refine ⟨g, ?_⟩ <;> gok_all hl h he t
  | oBot b =>
    simp only [after] at hs; simp at hs; subst hs
    simp only [K.lock, kHolds, kWf, kSift] at hown hmine hmy hwf hg4
    clear hne hppa hg4
    refine ⟨g, ?_⟩; gok_all hl h he t
  | dChild par ch pv =>
    simp only [after] at hs
    simp only [K.lock, kHolds, kWf, kNonE, kPopPar, kSift, Option.some.injEq, forall_eq', forall_eq, forall_eq_or_imp]
      at hown hmine hmy hwf hne hppa hg4
    split at hs
    · -- left child empty: the item stays here
      rename_i hemp
      have hsib : ch + 1 ≤ c.cap → s.tag (ch + 1) = .empty := by
        intro hle
        apply Classical.byContradiction; intro hne2
        have := left_before_right hc hsi par hwf.1 (by omega) (by rw [← hwf.2.1]; exact hne2)
        rw [← hwf.2.1] at this; exact this hemp
      simp at hs; subst hs
      obtain ⟨vp, hvp⟩ : ∃ vp, s.val par = some vp := by
        cases hv : s.val par with
        | none => exact absurd (hte2 par hv) hne
        | some v => exact ⟨v, rfl⟩
      refine ⟨upd g par (prio vp), ?_⟩
      gok_new hl h he t
    · rename_i hnemp
      split at hs
      · simp at hs; subst hs; refine ⟨g, ?_⟩; gok_all hl h he t
      · unfold dCompare at hs
        split at hs
        · rename_i vc vp hvc hvp
          simp only [] at hvc hvp
          have hgch : g ch ≤ prio vc := by
            cases htc : s.tag ch with
            | empty => exact absurd htc hnemp
            | avail => exact Int.le_of_eq (h.g2a ch vc (by omega) htc hown hvc)
            | own t2 => exact h.g3 ch t2 vc htc hvc
          have hgpar : g ch ≤ g par := by
            have := h.g1 ch (by omega) hwf.2.2 hnemp
            rwa [show ch / 2 = par by omega] at this
          have hg4' : prio vp ≤ g par := hg4 par vp rfl hvp
          split at hs <;> simp at hs <;> subst hs
          · refine ⟨upd (upd g ch (imax (prio vp) (g ch))) par (imin (prio vc) (g par)), ?_⟩
            gok_new hl h he t
          · refine ⟨upd g par (prio vp), ?_⟩
            gok_new hl h he t
        · simp at hs
  | dRight par ch pv =>
    simp only [after] at hs
    simp only [K.lock, kHolds, kWf, kNonE, kPopPar, kSift, Option.some.injEq, forall_eq', forall_eq, forall_eq_or_imp]
      at hown hmine hmy hwf hne hppa hg4
    split at hs
    · simp at hs; subst hs; refine ⟨g, ?_⟩; gok_all hl h he t
    · split at hs
      · split at hs <;> simp at hs <;> subst hs <;> refine ⟨g, ?_⟩ <;> gok_all hl h he t
      · simp at hs

set_option maxHeartbeats 4000000 in
theorem ginv_step {c : Cfg} {rank : Nat → Nat} (hc : SlotOK c rank) {s s' : St} {t : Tid} {ev : Ev}
    (hl : LInv c s) (hsi : SInv c rank s) (hg : GInv c s) (hs : step c s t = some (s', ev)) : GInv c s' := by
  have he := step_effect hl hs
  cases hpc : s.pc t with
  | acq k =>
    rcases step_acq hpc hs with ⟨hlk, rfl⟩ | ⟨hlk, ha⟩
    · obtain ⟨g, h⟩ := hg
      have hmy : ∀ l, s.own l = some t → holds (s.pc t) l := fun l => hl.ow1 l t
      obtain ⟨hg4, hsb1, hsb2⟩ := h.loc t
      simp only [hpc, sift, reduceCtorEq, false_implies, implies_true] at hg4 hsb1 hsb2
      refine ⟨g, ?_⟩; gok_all hl h he t
    · exact ginv_after hc hl hsi hg he hpc hlk ha
  | spin k =>
    obtain ⟨g, h⟩ := hg
    obtain ⟨hg4, hsb1, hsb2⟩ := h.loc t
    simp only [hpc, sift, reduceCtorEq, false_implies, implies_true] at hg4 hsb1 hsb2
    simp only [step, hpc] at hs
    simp at hs; obtain ⟨rfl, -⟩ := hs
    refine ⟨g, ?_⟩
    cases hlk : s.lk k.lock <;> simp only [hlk, Bool.false_eq_true, ↓reduceIte] at he ⊢ <;> gok_all hl h he t
  | pUnlSz v i =>
    obtain ⟨g, h⟩ := hg
    have hmine : ∀ l, holds (s.pc t) l → s.own l = some t := fun l => hl.ow2 l t
    have hwf := hl.wfp t
    have hempty := fresh_slot_empty hc hl hsi hpc
    have hch := fresh_children_empty hc hl hsi hpc
    simp only [hpc, holds, wf, forall_eq_or_imp, forall_eq] at hmine hwf
    simp only [step, hpc] at hs
    simp at hs; obtain ⟨rfl, -⟩ := hs
    refine ⟨upd g i (gUnder g i (prio v)), ?_⟩
    gok_new hl h he t
  | oUnlBot b pv =>
    obtain ⟨g, h⟩ := hg
    have hmine : ∀ l, holds (s.pc t) l → s.own l = some t := fun l => hl.ow2 l t
    have hwf := hl.wfp t
    have hhv := (hsi.loc t).hv
    have hte2 := hsi.te2
    simp only [hpc, holds, wf, forall_eq_or_imp, forall_eq, carries, heldOf, forall_const] at hmine hwf hhv
    obtain ⟨w, rfl⟩ : ∃ w, pv = some w := by
      cases pv with
      | none => exact absurd rfl hhv
      | some w => exact ⟨w, rfl⟩
    simp only [step, hpc] at hs
    split at hs <;> simp at hs <;> obtain ⟨rfl, -⟩ := hs
    · refine ⟨g, ?_⟩; gok_all hl h he t
    · rename_i hne1
      obtain ⟨v1, hv1⟩ : ∃ v1, s.val 1 = some v1 := by
        cases hv : s.val 1 with
        | none => exact absurd (hte2 1 hv) hne1
        | some v => exact ⟨v, rfl⟩
      unfold popLoop at he ⊢
      by_cases hcap : 2 * 1 < c.cap + 1
      · simp only [hcap, ↓reduceIte] at he ⊢
        refine ⟨upd g 1 (imax (prio w) (g 1)), ?_⟩
        gok_new hl h he t
      · simp only [hcap, ↓reduceIte] at he ⊢
        refine ⟨upd g 1 (prio w), ?_⟩
        gok_new hl h he t
  | dUnlSwap par ch pv =>
    obtain ⟨g, h⟩ := hg
    have hmine : ∀ l, holds (s.pc t) l → s.own l = some t := fun l => hl.ow2 l t
    have hwf := hl.wfp t
    have hte2 := hsi.te2
    have hne := (hsi.loc t).ne
    obtain ⟨hg4, -, -⟩ := h.loc t
    simp only [hpc, holds, wf, forall_eq_or_imp, forall_eq, nonE, sift, Option.some.injEq] at hmine hwf hne hg4
    obtain ⟨vc, hvc⟩ : ∃ vc, s.val ch = some vc := by
      cases hv : s.val ch with
      | none => exact absurd (hte2 ch hv) hne.2
      | some v => exact ⟨v, rfl⟩
    simp only [step, hpc] at hs
    simp at hs; obtain ⟨rfl, -⟩ := hs
    unfold popLoop at he ⊢
    by_cases hcap : 2 * ch < c.cap + 1
    · simp only [hcap, ↓reduceIte] at he ⊢
      refine ⟨g, ?_⟩; gok_all hl h he t
    · simp only [hcap, ↓reduceIte] at he ⊢
      refine ⟨upd g ch (prio vc), ?_⟩
      gok_new hl h he t
  | dUnlLeft par ch pv =>
    obtain ⟨g, h⟩ := hg
    have hmine : ∀ l, holds (s.pc t) l → s.own l = some t := fun l => hl.ow2 l t
    have hwf := hl.wfp t
    have hne := (hsi.loc t).ne
    obtain ⟨hg4, hsb1, -⟩ := h.loc t
    simp only [hpc, holds, wf, forall_eq_or_imp, forall_eq, nonE, sift, Option.some.injEq] at hmine hwf hne hg4
    simp only [step, hpc, Option.map_eq_some_iff, Prod.mk.injEq] at hs
    obtain ⟨s1, h1, rfl, -⟩ := hs
    unfold dCompare at h1
    split at h1
    · rename_i vc vp hvc hvp
      simp only [rel] at hvc hvp
      have hgch : g (ch + 1) ≤ prio vc := by
        cases htc : s.tag (ch + 1) with
        | empty => exact absurd htc hne.2.2
        | avail => exact Int.le_of_eq (h.g2b (ch + 1) t vc (by omega) htc hmine.2.2 (by simp [hpc, sift]; omega) hvc)
        | own t2 => exact h.g3 (ch + 1) t2 vc htc hvc
      have hgpar : g (ch + 1) ≤ g par := by
        have := h.g1 (ch + 1) (by omega) hwf.2.2 hne.2.2
        rwa [show (ch + 1) / 2 = par by omega] at this
      have hg4' : prio vp ≤ g par := hg4 par vp rfl hvp
      obtain ⟨vl, hvl⟩ : ∃ vl, s.val ch = some vl := by
        cases hv : s.val ch with
        | none => exact absurd (hsi.te2 ch hv) hne.2.1
        | some v => exact ⟨v, rfl⟩
      have hsib : prio vl < prio vc := hsb1 par ch pv vl vc hpc hvl hvc
      have hgl : g ch ≤ prio vl := by
        cases htc : s.tag ch with
        | empty => exact absurd htc hne.2.1
        | avail => exact Int.le_of_eq (h.g2b ch t vl (by omega) htc hmine.2.1 (by simp [hpc, sift]; omega) hvl)
        | own t2 => exact h.g3 ch t2 vl htc hvl
      have hglp : g ch ≤ g par := by
        have := h.g1 ch (by omega) (by omega) hne.2.1
        rwa [show ch / 2 = par by omega] at this
      clear hsb1
      split at h1 <;> simp at h1 <;> subst h1
      · refine ⟨upd (upd g (ch + 1) (imax (prio vp) (g (ch + 1)))) par (imin (prio vc) (g par)), ?_⟩
        gok_new hl h he t
      · refine ⟨upd g par (prio vp), ?_⟩
        gok_new hl h he t
    · simp at h1
  | dUnlRight par ch pv =>
    obtain ⟨g, h⟩ := hg
    have hmine : ∀ l, holds (s.pc t) l → s.own l = some t := fun l => hl.ow2 l t
    have hwf := hl.wfp t
    have hne := (hsi.loc t).ne
    obtain ⟨hg4, -, hsb2⟩ := h.loc t
    simp only [hpc, holds, wf, forall_eq_or_imp, forall_eq, nonE, sift, Option.some.injEq] at hmine hwf hne hg4
    simp only [step, hpc, Option.map_eq_some_iff, Prod.mk.injEq] at hs
    obtain ⟨s1, h1, rfl, -⟩ := hs
    unfold dCompare at h1
    split at h1
    · rename_i vc vp hvc hvp
      simp only [rel] at hvc hvp
      have hgch : g ch ≤ prio vc := by
        cases htc : s.tag ch with
        | empty => exact absurd htc hne.2
        | avail => exact Int.le_of_eq (h.g2b ch t vc (by omega) htc hmine.2.1 (by simp [hpc, sift]; omega) hvc)
        | own t2 => exact h.g3 ch t2 vc htc hvc
      have hgpar : g ch ≤ g par := by
        have := h.g1 ch (by omega) (by omega) hne.2
        rwa [show ch / 2 = par by omega] at this
      have hg4' : prio vp ≤ g par := hg4 par vp rfl hvp
      have hsibE : s.tag (ch + 1) = .empty ∨ g (ch + 1) ≤ prio vc := by
        cases htc : s.tag (ch + 1) with
        | empty => exact Or.inl rfl
        | avail =>
          right
          cases hv : s.val (ch + 1) with
          | none => have := hsi.te2 _ hv; rw [htc] at this; cases this
          | some vr =>
            have := h.g2b (ch + 1) t vr (by omega) htc hmine.2.2 (by simp [hpc, sift]; omega) hv
            have := hsb2 par ch pv vc vr hpc hvc hv
            omega
        | own t2 =>
          right
          cases hv : s.val (ch + 1) with
          | none => have := hsi.te2 _ hv; rw [htc] at this; cases this
          | some vr =>
            have := h.g3 (ch + 1) t2 vr htc hv
            have := hsb2 par ch pv vc vr hpc hvc hv
            omega
      have hgrp : g (ch + 1) ≤ g par ∨ s.tag (ch + 1) = .empty := by
        by_cases hte : s.tag (ch + 1) = .empty
        · exact Or.inr hte
        · left
          have := h.g1 (ch + 1) (by omega) hwf.2.2 hte
          rwa [show (ch + 1) / 2 = par by omega] at this
      clear hsb2
      split at h1 <;> simp at h1 <;> subst h1
      · refine ⟨upd (upd g ch (imax (prio vp) (g ch))) par (imin (prio vc) (g par)), ?_⟩
        gok_new hl h he t
      · refine ⟨upd g par (prio vp), ?_⟩
        gok_new hl h he t
    · simp at h1
  | idle => simp [step, hpc] at hs
  | pFail => simp [step, hpc] at hs
  | pOk => simp [step, hpc] at hs
  | oFail => simp [step, hpc] at hs
  | oDone pv => simp [step, hpc] at hs
  | _ =>
    obtain ⟨g, h⟩ := hg
    have hmine : ∀ l, holds (s.pc t) l → s.own l = some t := fun l => hl.ow2 l t
    have hmy : ∀ l, s.own l = some t → holds (s.pc t) l := fun l => hl.ow1 l t
    have hwf := hl.wfp t
    obtain ⟨hg4, hsb1, hsb2⟩ := h.loc t
    simp only [hpc, holds, wf, forall_eq_or_imp, forall_eq, sift, reduceCtorEq, false_implies, implies_true] at hmine hmy hwf hg4 hsb1 hsb2
    simp only [step, hpc] at hs
    simp at hs; obtain ⟨rfl, -⟩ := hs
    refine ⟨g, ?_⟩; gok_all hl h he t

end CdsVerif.Algo.MSPQ

/-
  The dump of ALL levels of a skip-list machine state (`snapOf`, `Snap.lean`) is well-formed in the sense of C18
  (`skipWf`: level 0 strictly increasing, every level a sub-list of the level below) as soon as
    * the executable structural predicate `invB` (`Abs.lean`), which `cdsdriver replay skiplist` evaluates on every
      state of every replayed trace, holds (`invB_skipWf`); or
    * level 0 is strictly sorted — a THEOREM for every reachable state (`SInvL.level0`) — and every upper level chain
      is a sub-list of the chain below (`UpperOk`: the clause that is not proved inductive) (`skipWf_of_upper`).
-/
import CdsVerif.Algo.SkipList.Snap
namespace CdsVerif.Algo.SkipList
open CdsVerif.Machine CdsVerif.Spec CdsVerif.Snapshot

/-- The test `isSublist` of `Abs.lean` is sound. -/
theorem isSublist_sound : ∀ (l1 l2 : List Nat), isSublist l1 l2 = true → l1.Sublist l2
  | [], l2, _ => List.nil_sublist l2
  | _ :: _, [], h => by simp [isSublist] at h
  | a :: l1, b :: l2, h => by
    simp only [isSublist] at h
    split at h
    next e => subst e; exact (isSublist_sound l1 l2 h).cons₂ a
    next => exact (isSublist_sound (a :: l1) l2 h).cons b

/-- Every level is a sub-list of the level below, pointwise form. -/
def SubLevels (ls : List (List Int)) : Prop := ∀ i, i + 1 < ls.length → (ls.getD (i + 1) []).Sublist (ls.getD i [])

theorem subChain_of_subLevels : ∀ (ls : List (List Int)), SubLevels ls → subChain ls = true
  | [], _ => rfl
  | [_], _ => rfl
  | a :: b :: t, h => by
    simp only [subChain, Bool.and_eq_true]
    refine ⟨List.isSublist_iff_sublist.2 (by simpa using h 0 (by simp)), subChain_of_subLevels (b :: t) ?_⟩
    intro i hi
    have := h (i + 1) (by simp at hi ⊢; omega)
    simpa using this

theorem stripTop_prefix {α : Type} : ∀ (l : List (List α)), stripTop l <+: l
  | [] => List.prefix_refl _
  | a :: t => by
    have ih := stripTop_prefix t
    unfold stripTop
    split
    next h =>
      split
      · exact List.nil_prefix
      · rw [h] at ih; exact (List.prefix_cons_inj a).2 List.nil_prefix
    next b t' h => rw [← h]; exact (List.prefix_cons_inj a).2 ih

theorem subLevels_prefix {l1 l2 : List (List Int)} (hp : l1 <+: l2) (h : SubLevels l2) : SubLevels l1 := by
  obtain ⟨r, rfl⟩ := hp
  intro i hi
  have := h i (by simp; omega)
  have e1 : (l1 ++ r).getD (i + 1) [] = l1.getD (i + 1) [] := by
    simp [List.getD_eq_getElem?_getD, List.getElem?_append_left hi]
  have e2 : (l1 ++ r).getD i [] = l1.getD i [] := by
    simp [List.getD_eq_getElem?_getD, List.getElem?_append_left (show i < l1.length by omega)]
  rw [e1, e2] at this; exact this

/-- Every upper level chain (up to `maxH`) is a sub-list of the chain below. -/
def UpperOk (maxH : Nat) (s : St) : Prop := ∀ l, l + 1 < maxH → (levelNodes s (l + 1)).Sublist (levelNodes s l)

theorem subLevels_snap (maxH : Nat) (s : St) (h : UpperOk maxH s) :
    SubLevels (skipLevels ((List.range maxH).map (snapLevel s))) := by
  intro i hi
  simp only [skipLevels, List.length_map, List.length_range] at hi
  have e : ∀ j, j < maxH → (skipLevels ((List.range maxH).map (snapLevel s))).getD j [] =
      (levelNodes s j).map (fun a => s.key a) := by
    intro j hj
    simp [skipLevels, List.getD_eq_getElem?_getD, hj, snapLevel, levelKeys]
  rw [e (i + 1) hi, e i (by omega)]
  exact (h i hi).map _

theorem skipLevels_prefix {l1 l2 : SkipSnap} (h : l1 <+: l2) : skipLevels l1 <+: skipLevels l2 := by
  obtain ⟨r, rfl⟩ := h
  exact ⟨skipLevels r, by simp [skipLevels]⟩

/-- The dump of all levels is well-formed when level 0 is strictly sorted and the upper levels are sub-lists. -/
theorem skipWf_of_upper (maxH : Nat) (s : St) (hm : 0 < maxH)
    (h0 : (levelNodes s 0).Pairwise (fun a b => s.key a < s.key b)) (hu : UpperOk maxH s) :
    skipWf (snapOf maxH s) = true := by
  simp only [skipWf, Bool.and_eq_true]
  constructor
  · rw [snapOf_head maxH s hm]
    refine (CdsVerif.Props.C18.sortedLt_iff _).2 ?_
    unfold levelKeys snapLevel
    rw [List.map_map, List.pairwise_map]
    exact h0
  · refine subChain_of_subLevels _ (subLevels_prefix (skipLevels_prefix ?_) (subLevels_snap maxH s hu))
    exact stripTop_prefix _

/-- `invB` (the predicate evaluated on every replayed state) implies the sub-list clause. -/
theorem upperOk_of_invB (maxH : Nat) (s : St) (h : invB maxH s = true) : UpperOk maxH s := by
  intro l hl
  simp only [invB, wellFormed, Bool.and_eq_true, List.all_eq_true, List.mem_range] at h
  have := (h.1.1.1 (l + 1) hl).2
  simp only [Nat.add_sub_cancel, Bool.or_eq_true, beq_iff_eq] at this
  rcases this with e | e
  · omega
  · exact isSublist_sound _ _ e

theorem level0_of_invB (maxH : Nat) (s : St) (hm : 0 < maxH) (h : invB maxH s = true) :
    (levelNodes s 0).Pairwise (fun a b => s.key a < s.key b) := by
  simp only [invB, wellFormed, Bool.and_eq_true, List.all_eq_true, List.mem_range] at h
  have := (h.1.1.1 0 hm).1
  simpa using this

/-- **The replay-time check certifies the C18 well-formedness of the full dump.** -/
theorem invB_skipWf (maxH : Nat) (s : St) (hm : 0 < maxH) (h : invB maxH s = true) : skipWf (snapOf maxH s) = true :=
  skipWf_of_upper maxH s hm (level0_of_invB maxH s hm h) (upperOk_of_invB maxH s h)

end CdsVerif.Algo.SkipList

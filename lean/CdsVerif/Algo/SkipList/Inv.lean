/-
  The invariant of the skip-list machine that linearizability rests on.

  Level 0 is a Harris–Michael list (`Chain` from the head, strictly sorted, marks = logical deletion); every tower word
  on every level holds null or a PUBLISHED item (linked on level 0 or marked there) that is tall enough for the level;
  an item marked on level 0 is marked on all its upper levels; the head tower is never marked.  Per thread (`TOk`, by
  program counter): every pointer a thread holds is the head or a published item, the predecessor has a smaller key,
  the item of an insert is private until the level-0 CAS, a helper's successor was read from a marked (frozen) word.

  The upper levels need nothing else for linearizability: a traversal compares keys itself before it advances, so
  whatever the upper levels point at (published items), the search arrives on level 0 at a published predecessor with
  a smaller key, and the level-0 validation decides.  The unlink counter `m_nUnlink` and `m_nHeight` only steer the
  control flow.
-/
import CdsVerif.Algo.SkipList.Model
import CdsVerif.Algo.Michael.Lin
namespace CdsVerif.Algo.SkipList
open CdsVerif.Machine CdsVerif.Spec CdsVerif.Lin
open CdsVerif.Algo.Michael (Chain Lt LPok isRO insAfter Has)

/-! ### Level 0 of the two-index tables -/

def nx0 (next : Nat → Nat → Option Nat) : Nat → Option Nat := fun a => next a 0
def mk0 (mark : Nat → Nat → Bool) : Nat → Bool := fun a => mark a 0

theorem upd2'_same {α : Type} (f : Nat → Nat → α) (i j : Nat) (v : α) : upd2' f i j v i j = v := by simp [upd2']
theorem upd2'_other {α : Type} (f : Nat → Nat → α) (i j i' j' : Nat) (v : α) (h : ¬ (i' = i ∧ j' = j)) :
    upd2' f i j v i' j' = f i' j' := by simp [upd2', h]

theorem nx0_upd_zero (f : Nat → Nat → Option Nat) (a : Nat) (v : Option Nat) : nx0 (upd2' f a 0 v) = upd (nx0 f) a v := by
  funext b; simp only [nx0, upd2', upd]; by_cases e : b = a <;> simp [e]
theorem nx0_upd_pos (f : Nat → Nat → Option Nat) (a l : Nat) (v : Option Nat) (hl : l ≠ 0) : nx0 (upd2' f a l v) = nx0 f := by
  funext b; simp only [nx0, upd2']; have : ¬ (b = a ∧ 0 = l) := fun e => hl e.2.symm; simp [this]
theorem mk0_upd_zero (f : Nat → Nat → Bool) (a : Nat) (v : Bool) : mk0 (upd2' f a 0 v) = upd (mk0 f) a v := by
  funext b; simp only [mk0, upd2', upd]; by_cases e : b = a <;> simp [e]
theorem mk0_upd_pos (f : Nat → Nat → Bool) (a l : Nat) (v : Bool) (hl : l ≠ 0) : mk0 (upd2' f a l v) = mk0 f := by
  funext b; simp only [mk0, upd2']; have : ¬ (b = a ∧ 0 = l) := fun e => hl e.2.symm; simp [this]

/-! ### Lists of positions -/

theorem getD_set_cases {α : Type} (l : List α) (i j : Nat) (a d : α) :
    (l.set i a).getD j d = a ∨ (l.set i a).getD j d = l.getD j d := by
  simp only [List.getD_eq_getElem?_getD, List.getElem?_set]
  by_cases e : i = j
  · subst e
    by_cases h : i < l.length <;> simp [h]
  · simp [e]

theorem getD_set_same {α : Type} (l : List α) (i : Nat) (a d : α) (h : i < l.length) : (l.set i a).getD i d = a := by
  simp [List.getD_eq_getElem?_getD, List.getElem?_set, h]

/-! ### Memory -/

structure Mem where
  next : Nat → Nat → Option Nat
  mark : Nat → Nat → Bool
  key : Nat → Int
  val : Nat → Int
  ht : Nat → Nat
  cnt : Nat

macro "mem!" s:term:max : term => `(Mem.mk ($s).next ($s).mark ($s).key ($s).val ($s).ht ($s).cnt)

/-- Linked on level 0, or logically deleted. -/
def Lk (m : Mem) (L : List Nat) (a : Nat) : Prop := a ∈ L ∨ m.mark a 0 = true
/-- A published item. -/
def Pub (m : Mem) (L : List Nat) (a : Nat) : Prop := a ≠ 0 ∧ Lk m L a
/-- The item of an insert before the level-0 CAS. -/
def Priv (m : Mem) (L : List Nat) (n : Nat) : Prop := n ≠ 0 ∧ n < m.cnt ∧ n ∉ L ∧ m.mark n 0 = false
def PredOk (m : Mem) (L : List Nat) (k : Int) (p : Nat) : Prop := p = 0 ∨ (Lk m L p ∧ m.key p < k)
def CurOk (m : Mem) (L : List Nat) (lvl c : Nat) : Prop := c ≠ 0 ∧ Lk m L c ∧ lvl < m.ht c
def PPok (m : Mem) (L : List Nat) (pp : List Nat) : Prop := ∀ i, pp.getD i 0 = 0 ∨ Lk m L (pp.getD i 0)
def PSok (m : Mem) (L : List Nat) (ps : List (Option Nat)) : Prop := ∀ i c, ps.getD i none = some c → CurOk m L i c
def ListsOk (c : Cfg) (m : Mem) (L : List Nat) (pp : List Nat) (ps : List (Option Nat)) : Prop :=
  pp.length = c.maxH ∧ ps.length = c.maxH ∧ PPok m L pp ∧ PSok m L ps
/-- The level-0 position of an insert brackets the key of the new item. -/
def InsPos (m : Mem) (n : Nat) (pp : List Nat) (ps : List (Option Nat)) : Prop :=
  (pp.getD 0 0 = 0 ∨ m.key (pp.getD 0 0) < m.key n) ∧ ∀ c, ps.getD 0 none = some c → m.key n < m.key c

structure GOk (m : Mem) (L : List Nat) : Prop where
  chain : Chain (nx0 m.next) (some 0) L
  sorted : L.Pairwise (Lt m.key)
  alloc : ∀ a, a ∈ L → a < m.cnt
  cpos : 1 ≤ m.cnt
  mcnt : ∀ a, m.mark a 0 = true → a ≠ 0 ∧ a < m.cnt
  ptr : ∀ a l b, m.next a l = some b → CurOk m L l b
  mmono : ∀ a l, m.mark a 0 = true → l < m.ht a → m.mark a l = true
  hpos : ∀ a, 1 ≤ m.ht a

def WOk (m : Mem) (L : List Nat) : Why → Prop
  | .insS n => Priv m L n
  | .eraS _ => True
  | .fndS _ => True
  | .conS _ => True
  | .insFix n => Pub m L n
  | .eraFix _ _ => True
  | .renew n l _ => Pub m L n ∧ 1 ≤ l ∧ l < m.ht n

def TOk (c : Cfg) (m : Mem) (L : List Nat) : PC → Prop
  | .idle => True
  | .fLd1 w _ pred _ pp ps => WOk m L w ∧ ListsOk c m L pp ps ∧ PredOk m L (wkey m.key w) pred
  | .fLd2 w _ pred _ pp ps _ _ => WOk m L w ∧ ListsOk c m L pp ps ∧ PredOk m L (wkey m.key w) pred
  | .fSucc w lvl pred cur _ pp ps =>
    WOk m L w ∧ ListsOk c m L pp ps ∧ PredOk m L (wkey m.key w) pred ∧ CurOk m L lvl cur
  | .fChk w lvl pred cur _ _ _ pp ps =>
    WOk m L w ∧ ListsOk c m L pp ps ∧ PredOk m L (wkey m.key w) pred ∧ CurOk m L lvl cur
  | .hUnl w lvl pred cur pp ps =>
    WOk m L w ∧ ListsOk c m L pp ps ∧ PredOk m L (wkey m.key w) pred ∧ CurOk m L lvl cur
  | .hLd1 w lvl pred cur pp ps =>
    WOk m L w ∧ ListsOk c m L pp ps ∧ PredOk m L (wkey m.key w) pred ∧ CurOk m L lvl cur
  | .hLd2 w lvl pred cur pp ps _ _ =>
    WOk m L w ∧ ListsOk c m L pp ps ∧ PredOk m L (wkey m.key w) pred ∧ CurOk m L lvl cur
  | .hCas w lvl pred cur pp ps x =>
    WOk m L w ∧ ListsOk c m L pp ps ∧ PredOk m L (wkey m.key w) pred ∧ CurOk m L lvl cur ∧
      m.mark cur lvl = true ∧ m.next cur lvl = x
  | .hSub w _ pp ps => WOk m L w ∧ ListsOk c m L pp ps
  | .iClr n lvl pp ps => Priv m L n ∧ ListsOk c m L pp ps ∧ InsPos m n pp ps ∧ 1 ≤ lvl
  | .iSt0 n pp ps => Priv m L n ∧ ListsOk c m L pp ps ∧ InsPos m n pp ps
  | .iCas0 n pp ps => Priv m L n ∧ ListsOk c m L pp ps ∧ InsPos m n pp ps ∧ m.next n 0 = ps.getD 0 none
  | .iUpA n lvl _ pp ps => Pub m L n ∧ ListsOk c m L pp ps ∧ 1 ≤ lvl ∧ lvl < m.ht n
  | .iUpB n lvl pp ps => Pub m L n ∧ ListsOk c m L pp ps ∧ 1 ≤ lvl ∧ lvl < m.ht n
  | .iSubFix n _ pp ps => Pub m L n ∧ ListsOk c m L pp ps
  | .gHgt _ => True
  | .gCas _ _ => True
  | .eLd k d lvl pp ps =>
    ListsOk c m L pp ps ∧ Pub m L d ∧ m.key d = k ∧ 1 ≤ lvl ∧ lvl < m.ht d ∧
      ∀ l, lvl < l → l < m.ht d → m.mark d l = true
  | .eMk k d lvl _ pp ps =>
    ListsOk c m L pp ps ∧ Pub m L d ∧ m.key d = k ∧ 1 ≤ lvl ∧ lvl < m.ht d ∧
      ∀ l, lvl < l → l < m.ht d → m.mark d l = true
  | .e0Ld k d pp ps =>
    ListsOk c m L pp ps ∧ Pub m L d ∧ m.key d = k ∧ ∀ l, 0 < l → l < m.ht d → m.mark d l = true
  | .e0Mk k d _ pp ps =>
    ListsOk c m L pp ps ∧ Pub m L d ∧ m.key d = k ∧ ∀ l, 0 < l → l < m.ht d → m.mark d l = true
  | .eH1 _ d lvl pp ps => ListsOk c m L pp ps ∧ d ≠ 0 ∧ m.mark d 0 = true ∧ lvl < m.ht d
  | .eH2 _ d lvl x pp ps => ListsOk c m L pp ps ∧ d ≠ 0 ∧ m.mark d 0 = true ∧ lvl < m.ht d ∧ m.next d lvl = x
  | .eHSub _ d lvl pp ps => ListsOk c m L pp ps ∧ d ≠ 0 ∧ m.mark d 0 = true ∧ lvl < m.ht d
  | .qHgt _ _ => True
  | .qLd1 o _ pred _ => PredOk m L (fkey o) pred
  | .qLd2 o _ pred _ _ _ => PredOk m L (fkey o) pred
  | .qChk o cur => Pub m L cur ∧ m.key cur = fkey o
  | .done _ => True

def wnode : Why → Option Nat
  | .insS n => some n
  | .eraS _ => none
  | .fndS _ => none
  | .conS _ => none
  | .insFix _ => none
  | .eraFix _ _ => none
  | .renew _ _ _ => none

/-- The private item of a thread. -/
def pnode : PC → Option Nat
  | .idle => none
  | .fLd1 w _ _ _ _ _ => wnode w
  | .fLd2 w _ _ _ _ _ _ _ => wnode w
  | .fSucc w _ _ _ _ _ _ => wnode w
  | .fChk w _ _ _ _ _ _ _ _ => wnode w
  | .hUnl w _ _ _ _ _ => wnode w
  | .hLd1 w _ _ _ _ _ => wnode w
  | .hLd2 w _ _ _ _ _ _ _ => wnode w
  | .hCas w _ _ _ _ _ _ => wnode w
  | .hSub w _ _ _ => wnode w
  | .iClr n _ _ _ => some n
  | .iSt0 n _ _ => some n
  | .iCas0 n _ _ => some n
  | .iUpA _ _ _ _ _ => none
  | .iUpB _ _ _ _ => none
  | .iSubFix _ _ _ _ => none
  | .gHgt _ => none
  | .gCas _ _ => none
  | .eLd _ _ _ _ _ => none
  | .eMk _ _ _ _ _ _ => none
  | .e0Ld _ _ _ _ => none
  | .e0Mk _ _ _ _ _ => none
  | .eH1 _ _ _ _ _ => none
  | .eH2 _ _ _ _ _ _ => none
  | .eHSub _ _ _ _ _ => none
  | .qHgt _ _ => none
  | .qLd1 _ _ _ _ => none
  | .qLd2 _ _ _ _ _ _ => none
  | .qChk _ _ => none
  | .done _ => none

def Own (pc : Tid → PC) : Prop := ∀ t1 t2 n, pnode (pc t1) = some n → pnode (pc t2) = some n → t1 = t2

structure SInvL (c : Cfg) (s : St) (L : List Nat) : Prop where
  g : GOk (mem! s) L
  thr : ∀ t, TOk c (mem! s) L (s.pc t)
  own : Own s.pc

theorem sinv_init (c : Cfg) : SInvL c (init c) [0] := by
  refine ⟨?_, ?_, ?_⟩
  · constructor <;> simp [init, Chain, nx0, CurOk]
  · intro t; simp [init, TOk]
  · intro t1 t2 n h; simp [init, pnode] at h

theorem forall_upd {P : PC → Prop} {pc : Tid → PC} {t : Tid} {pc' : PC} (h : ∀ t2, t2 ≠ t → P (pc t2)) (h' : P pc') :
    ∀ t2, P (upd pc t pc' t2) := by
  intro t2
  unfold upd
  split
  · exact h'
  · exact h t2 (by assumption)

/-- Thread `t` moves to `pc'`, which owns nothing new. -/
theorem Own.upd {pc : Tid → PC} (h : Own pc) (t : Tid) (pc' : PC)
    (hi : ∀ n, pnode pc' = some n → pnode (pc t) = some n) : Own (Machine.upd pc t pc') := by
  intro t1 t2 n h1 h2
  unfold Machine.upd at h1 h2
  by_cases e1 : t1 = t <;> by_cases e2 : t2 = t <;> simp only [e1, e2, if_true, if_false] at h1 h2
  · rw [e1, e2]
  · exact e1 ▸ h t t2 n (hi n h1) h2
  · exact e2 ▸ h t1 t n h1 (hi n h2)
  · exact h t1 t2 n h1 h2

/-! ### Consequences of the global part -/

theorem GOk.head_cons {m : Mem} {L : List Nat} (h : GOk m L) : ∃ l, L = 0 :: l := by
  have hc := h.chain
  cases L with
  | nil => simp [Chain] at hc
  | cons a r => simp only [Chain, Option.some.injEq] at hc; exact ⟨r, by rw [hc.1]⟩

theorem GOk.zero_mem {m : Mem} {L : List Nat} (h : GOk m L) : 0 ∈ L := by
  obtain ⟨l, rfl⟩ := h.head_cons; simp

theorem GOk.nodup {m : Mem} {L : List Nat} (h : GOk m L) : L.Nodup := Michael.sorted_nodup h.sorted

theorem GOk.lt_cnt {m : Mem} {L : List Nat} (h : GOk m L) {a : Nat} (ha : Lk m L a) : a < m.cnt := by
  rcases ha with ha | ha
  · exact h.alloc a ha
  · exact (h.mcnt a ha).2

theorem GOk.mark0_head {m : Mem} {L : List Nat} (h : GOk m L) : m.mark 0 0 = false := by
  cases e : m.mark 0 0 with
  | false => rfl
  | true => exact absurd rfl (h.mcnt 0 e).1

/-- The level-0 successor of a linked cell is a linked item. -/
theorem GOk.next_mem {m : Mem} {L : List Nat} (h : GOk m L) {a b : Nat} (ha : a ∈ L) (hb : m.next a 0 = some b) :
    b ≠ 0 ∧ b ∈ L := by
  have h1 := Chain.succ_mem h.chain ha (show nx0 m.next a = some b from hb)
  obtain ⟨l, rfl⟩ := h.head_cons
  simp only [List.tail_cons] at h1
  have := (List.pairwise_cons.mp h.sorted).1 b h1
  exact ⟨this.1, List.mem_cons_of_mem _ h1⟩

/-- An unmarked published cell (or the head) is linked. -/
theorem GOk.unm_mem {m : Mem} {L : List Nat} (h : GOk m L) {a : Nat} (ha : a = 0 ∨ Lk m L a) (hm : m.mark a 0 = false) :
    a ∈ L := by
  rcases ha with rfl | ha | ha
  · exact h.zero_mem
  · exact ha
  · rw [hm] at ha; simp at ha

theorem GOk.gap {m : Mem} {L : List Nat} (h : GOk m L) {p : Nat} {k : Int} (hp : p ∈ L)
    (hpk : p = 0 ∨ m.key p < k) (hck : ∀ c, m.next p 0 = some c → k < m.key c) :
    ∀ a, a ∈ L → a ≠ 0 → m.key a ≠ k := by
  intro a ha ha0 hk
  rcases Chain.around h.chain h.sorted hp a ha with e | hlt | ⟨c, hc, e | hlt⟩
  · subst e
    rcases hpk with h0 | h0
    · exact ha0 h0
    · omega
  · unfold Lt at hlt
    rcases hlt.2 with h0 | h0
    · exact ha0 h0
    · rcases hpk with h1 | h1
      · exact hlt.1 h1
      · omega
  · subst e; have := hck a hc; omega
  · unfold Lt at hlt
    have := hck c hc
    rcases hlt.2 with h0 | h0
    · have hc0 := (h.next_mem hp hc).1; exact hc0 h0
    · omega

theorem GOk.absent {m : Mem} {L : List Nat} (h : GOk m L) {p : Nat} {k : Int} (hp : p ∈ L)
    (hpk : p = 0 ∨ m.key p < k) (hck : ∀ c, m.next p 0 = some c → k < m.key c) :
    ∀ w, ¬ Has (mk0 m.mark) m.key m.val L k w := by
  rintro w ⟨a, ha, ha0, -, hk, -⟩
  exact h.gap hp hpk hck a ha ha0 hk

/-- A linked, logically deleted item with key `k`: the key is absent. -/
theorem GOk.absent_marked {m : Mem} {L : List Nat} (h : GOk m L) {d : Nat} (hd : d ∈ L) (hd0 : d ≠ 0)
    (hm : m.mark d 0 = true) : ∀ w, ¬ Has (mk0 m.mark) m.key m.val L (m.key d) w := by
  rintro w ⟨a, ha, ha0, hma, hk, -⟩
  have := Michael.sorted_inj h.sorted a d ha hd ha0 hd0 hk
  subst this
  simp only [mk0] at hma; rw [hm] at hma; simp at hma

/-! ### Monotonicity of the per-thread part -/

/-- What a step of another thread (whose private item, if it writes to one, is `own`) may do to the memory. -/
structure MemLe (own : Option Nat) (m : Mem) (L : List Nat) (m' : Mem) (L' : List Nat) : Prop where
  stab : ∀ a, a < m.cnt → m'.key a = m.key a ∧ m'.val a = m.val a ∧ m'.ht a = m.ht a
  cnt : m.cnt ≤ m'.cnt
  lk : ∀ a, Lk m L a → Lk m' L' a
  frz : ∀ a l, m.mark a l = true → Lk m L a → m'.mark a l = true ∧ m'.next a l = m.next a l
  priv : ∀ n, n ∉ L → m.mark n 0 = false → some n ≠ own → n ∉ L' ∧ m'.mark n 0 = false ∧ m'.next n 0 = m.next n 0

theorem MemLe.refl (own : Option Nat) (m : Mem) (L : List Nat) : MemLe own m L m L :=
  ⟨fun _ _ => ⟨rfl, rfl, rfl⟩, Nat.le_refl _, fun _ h => h, fun _ _ h _ => ⟨h, rfl⟩, fun _ h1 h2 _ => ⟨h1, h2, rfl⟩⟩

section mono
variable {own : Option Nat} {m m' : Mem} {L L' : List Nat}

theorem Pub.mono (hle : MemLe own m L m' L') {a : Nat} (h : Pub m L a) : Pub m' L' a := ⟨h.1, hle.lk a h.2⟩

theorem CurOk.mono (hg : GOk m L) (hle : MemLe own m L m' L') {l a : Nat} (h : CurOk m L l a) : CurOk m' L' l a := by
  refine ⟨h.1, hle.lk a h.2.1, ?_⟩
  rw [(hle.stab a (hg.lt_cnt h.2.1)).2.2]; exact h.2.2

theorem PredOk.mono (hg : GOk m L) (hle : MemLe own m L m' L') {k : Int} {p : Nat} (h : PredOk m L k p) :
    PredOk m' L' k p := by
  rcases h with h | h
  · exact Or.inl h
  · refine Or.inr ⟨hle.lk p h.1, ?_⟩
    rw [(hle.stab p (hg.lt_cnt h.1)).1]; exact h.2

theorem ListsOk.mono {c : Cfg} (hg : GOk m L) (hle : MemLe own m L m' L') {pp : List Nat} {ps : List (Option Nat)}
    (h : ListsOk c m L pp ps) : ListsOk c m' L' pp ps := by
  refine ⟨h.1, h.2.1, ?_, ?_⟩
  · intro i
    rcases h.2.2.1 i with e | e
    · exact Or.inl e
    · exact Or.inr (hle.lk _ e)
  · intro i x hx
    exact CurOk.mono hg hle (h.2.2.2 i x hx)

theorem Priv.mono (hle : MemLe own m L m' L') {n : Nat} (hn : some n ≠ own) (h : Priv m L n) : Priv m' L' n := by
  have := hle.priv n h.2.2.1 h.2.2.2 hn
  exact ⟨h.1, Nat.lt_of_lt_of_le h.2.1 hle.cnt, this.1, this.2.1⟩

theorem wkey_mono (hg : GOk m L) (hle : MemLe own m L m' L') {w : Why} (h : WOk m L w) : wkey m'.key w = wkey m.key w := by
  cases w <;> simp only [wkey]
  · exact (hle.stab _ h.2.1).1
  · exact (hle.stab _ (hg.lt_cnt h.2)).1
  · exact (hle.stab _ (hg.lt_cnt h.1.2)).1

theorem WOk.mono (hg : GOk m L) (hle : MemLe own m L m' L') {w : Why} (hn : ∀ n, wnode w = some n → some n ≠ own)
    (h : WOk m L w) : WOk m' L' w := by
  cases w <;> simp only [WOk] at h ⊢
  · exact Priv.mono hle (hn _ rfl) h
  · exact Pub.mono hle h
  · refine ⟨Pub.mono hle h.1, h.2.1, ?_⟩
    rw [(hle.stab _ (hg.lt_cnt h.1.2)).2.2]; exact h.2.2

theorem InsPos.mono {c : Cfg} (hg : GOk m L) (hle : MemLe own m L m' L') {n : Nat} {pp : List Nat}
    {ps : List (Option Nat)} (hn : n < m.cnt) (hl : ListsOk c m L pp ps) (h : InsPos m n pp ps) : InsPos m' n pp ps := by
  have e := (hle.stab n hn).1
  have hp : pp.getD 0 0 < m.cnt := by
    rcases hl.2.2.1 0 with e0 | hk
    · rw [e0]; exact hg.cpos
    · exact hg.lt_cnt hk
  refine ⟨?_, ?_⟩
  · rcases h.1 with e0 | h1
    · exact Or.inl e0
    · right; rw [e, (hle.stab _ hp).1]; exact h1
  · intro x hx
    have := hl.2.2.2 0 x hx
    rw [e, (hle.stab x (hg.lt_cnt this.2.1)).1]; exact h.2 x hx

end mono

set_option maxHeartbeats 1000000 in
theorem tok_mono {c : Cfg} {own : Option Nat} {m m' : Mem} {L L' : List Nat} (hg : GOk m L)
    (hle : MemLe own m L m' L') {pc : PC} (hn : ∀ n, pnode pc = some n → some n ≠ own) (h : TOk c m L pc) :
    TOk c m' L' pc := by
  have hlt := fun a => hg.lt_cnt (a := a)
  have hcur := fun l a => CurOk.mono hg hle (l := l) (a := a)
  have hpred := fun k p => PredOk.mono hg hle (k := k) (p := p)
  have hlists := fun pp ps => ListsOk.mono (c := c) hg hle (pp := pp) (ps := ps)
  have hpub := fun a => Pub.mono hle (a := a)
  have hw := fun w => WOk.mono hg hle (w := w)
  have hwk := fun w => wkey_mono hg hle (w := w)
  have hpriv := fun n => Priv.mono hle (n := n)
  have hst := hle.stab
  have hfrz := hle.frz
  have hpv := hle.priv
  have hlk := hle.lk
  cases pc <;> simp only [TOk, pnode] at h hn ⊢
  case fLd1 w _ pred _ pp ps => rw [hwk w h.1]; exact ⟨hw w hn h.1, hlists _ _ h.2.1, hpred _ _ h.2.2⟩
  case fLd2 w _ pred _ pp ps _ _ => rw [hwk w h.1]; exact ⟨hw w hn h.1, hlists _ _ h.2.1, hpred _ _ h.2.2⟩
  case fSucc w _ pred _ _ pp ps =>
    rw [hwk w h.1]; exact ⟨hw w hn h.1, hlists _ _ h.2.1, hpred _ _ h.2.2.1, hcur _ _ h.2.2.2⟩
  case fChk w _ pred _ _ _ _ pp ps =>
    rw [hwk w h.1]; exact ⟨hw w hn h.1, hlists _ _ h.2.1, hpred _ _ h.2.2.1, hcur _ _ h.2.2.2⟩
  case hUnl w _ pred _ pp ps =>
    rw [hwk w h.1]; exact ⟨hw w hn h.1, hlists _ _ h.2.1, hpred _ _ h.2.2.1, hcur _ _ h.2.2.2⟩
  case hLd1 w _ pred _ pp ps =>
    rw [hwk w h.1]; exact ⟨hw w hn h.1, hlists _ _ h.2.1, hpred _ _ h.2.2.1, hcur _ _ h.2.2.2⟩
  case hLd2 w _ pred _ pp ps _ _ =>
    rw [hwk w h.1]; exact ⟨hw w hn h.1, hlists _ _ h.2.1, hpred _ _ h.2.2.1, hcur _ _ h.2.2.2⟩
  case hCas w lvl pred cur pp ps x =>
    rw [hwk w h.1]
    have := hfrz cur lvl h.2.2.2.2.1 h.2.2.2.1.2.1
    exact ⟨hw w hn h.1, hlists _ _ h.2.1, hpred _ _ h.2.2.1, hcur _ _ h.2.2.2.1, this.1, this.2.trans h.2.2.2.2.2⟩
  case hSub w _ pp ps => exact ⟨hw w hn h.1, hlists _ _ h.2⟩
  case iClr n lvl pp ps =>
    have hp := hpriv n (hn n rfl) h.1
    exact ⟨hp, hlists _ _ h.2.1, InsPos.mono hg hle h.1.2.1 h.2.1 h.2.2.1, h.2.2.2⟩
  case iSt0 n pp ps =>
    have hp := hpriv n (hn n rfl) h.1
    exact ⟨hp, hlists _ _ h.2.1, InsPos.mono hg hle h.1.2.1 h.2.1 h.2.2⟩
  case iCas0 n pp ps =>
    have hp := hpriv n (hn n rfl) h.1
    have := hpv n h.1.2.2.1 h.1.2.2.2 (hn n rfl)
    exact ⟨hp, hlists _ _ h.2.1, InsPos.mono hg hle h.1.2.1 h.2.1 h.2.2.1, this.2.2.trans h.2.2.2⟩
  case iUpA n lvl _ pp ps =>
    exact ⟨hpub _ h.1, hlists _ _ h.2.1, h.2.2.1, by rw [(hst n (hlt n h.1.2)).2.2]; exact h.2.2.2⟩
  case iUpB n lvl pp ps =>
    exact ⟨hpub _ h.1, hlists _ _ h.2.1, h.2.2.1, by rw [(hst n (hlt n h.1.2)).2.2]; exact h.2.2.2⟩
  case iSubFix n _ pp ps => exact ⟨hpub _ h.1, hlists _ _ h.2⟩
  case eLd k d lvl pp ps =>
    have e := hst d (hlt d h.2.1.2)
    refine ⟨hlists _ _ h.1, hpub _ h.2.1, by rw [e.1]; exact h.2.2.1, h.2.2.2.1, by rw [e.2.2]; exact h.2.2.2.2.1, ?_⟩
    intro l h1 h2; rw [e.2.2] at h2
    exact (hfrz d l (h.2.2.2.2.2 l h1 h2) h.2.1.2).1
  case eMk k d lvl _ pp ps =>
    have e := hst d (hlt d h.2.1.2)
    refine ⟨hlists _ _ h.1, hpub _ h.2.1, by rw [e.1]; exact h.2.2.1, h.2.2.2.1, by rw [e.2.2]; exact h.2.2.2.2.1, ?_⟩
    intro l h1 h2; rw [e.2.2] at h2
    exact (hfrz d l (h.2.2.2.2.2 l h1 h2) h.2.1.2).1
  case e0Ld k d pp ps =>
    have e := hst d (hlt d h.2.1.2)
    refine ⟨hlists _ _ h.1, hpub _ h.2.1, by rw [e.1]; exact h.2.2.1, ?_⟩
    intro l h1 h2; rw [e.2.2] at h2
    exact (hfrz d l (h.2.2.2 l h1 h2) h.2.1.2).1
  case e0Mk k d _ pp ps =>
    have e := hst d (hlt d h.2.1.2)
    refine ⟨hlists _ _ h.1, hpub _ h.2.1, by rw [e.1]; exact h.2.2.1, ?_⟩
    intro l h1 h2; rw [e.2.2] at h2
    exact (hfrz d l (h.2.2.2 l h1 h2) h.2.1.2).1
  case eH1 _ d lvl pp ps =>
    have hl : Lk m L d := Or.inr h.2.2.1
    have e := hst d (hlt d hl)
    exact ⟨hlists _ _ h.1, h.2.1, (hfrz d 0 h.2.2.1 hl).1, by rw [e.2.2]; exact h.2.2.2⟩
  case eH2 _ d lvl x pp ps =>
    have hl : Lk m L d := Or.inr h.2.2.1
    have e := hst d (hlt d hl)
    have hml := hg.mmono d lvl h.2.2.1 h.2.2.2.1
    exact ⟨hlists _ _ h.1, h.2.1, (hfrz d 0 h.2.2.1 hl).1, by rw [e.2.2]; exact h.2.2.2.1,
      (hfrz d lvl hml hl).2.trans h.2.2.2.2⟩
  case eHSub _ d lvl pp ps =>
    have hl : Lk m L d := Or.inr h.2.2.1
    have e := hst d (hlt d hl)
    exact ⟨hlists _ _ h.1, h.2.1, (hfrz d 0 h.2.2.1 hl).1, by rw [e.2.2]; exact h.2.2.2⟩
  case qLd1 o _ pred _ => exact hpred _ _ h
  case qLd2 o _ pred _ _ _ => exact hpred _ _ h
  case qChk o cur => exact ⟨hpub _ h.1, by rw [(hst cur (hlt cur h.1.2)).1]; exact h.2⟩

end CdsVerif.Algo.SkipList

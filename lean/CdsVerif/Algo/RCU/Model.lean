/-
  Atomic-step model of libcds' general-purpose user-space RCU
    cds/urcu/details/base.h   control word: nest count in the low 31 bits, phase bit (c_nControlBit) on top
    cds/urcu/details/gp.h     access_lock / access_unlock / check_grace_period / flip_and_wait
    cds/urcu/details/gpi.h    general_instant : synchronize = lock; flip_and_wait; flip_and_wait; unlock
                                                retire_ptr  = synchronize; p.free()
    cds/urcu/details/gpb.h    general_buffered: retire_ptr  = push_buffer( (p, m_nCurEpoch.load()) )
                                                push_buffer = push; if !pushed || size() >= capacity { synchronize; if !pushed free }
                                                synchronize = lock; E = m_nCurEpoch.fetch_add(1); 2 x flip_and_wait; unlock; clear_buffer(E)
                                                clear_buffer(E) = while pop(p) { if p.epoch <= E free else { push_buffer(p); break } }
                                                Destruct    = clear_buffer(max)

  Sequentially consistent, one atomic access per step, any number of threads (`nthreads`, part of the
  state, fixed during a run: the thread list of the singleton).  The phase bit is a `Bool`, the nest
  count a `Nat` (no 31-bit overflow).  The nest-count part of the global control word is the constant 1
  (gp_decl.h: `m_nGlobalControl(1)`), so only its phase bit is state.

  Modelling decisions (all documented here, none hidden):
  * the writer mutex (`std::mutex` by default) is a spin lock: one exchange that succeeds iff free;
  * `access_lock`'s store and the following seq_cst fence are ONE step (under SC the fence is a no-op), rendered
    as the store event alone (the replay driver drops `fence` lines); the ghost section start is the clock of
    that step;
  * the buffer (VyukovMPMCCycleQueue) is an atomic bounded FIFO bag: one step per push / pop / size();
    `bufCap` is the physical capacity (push fails when full), `cap` the RCU threshold `m_nCapacity`;
  * `clear_buffer` -> `push_buffer` -> `synchronize` -> `clear_buffer` is real recursion in the source; every
    frame does nothing after the inner call returns except `if (!bPushed) ep.free()`, so the model keeps the
    stack of not-pushed pointers (`own`, innermost first) and jumps;
  * `general_buffered::synchronize()` (the overload called by push_buffer and by the client) first loads
    `m_nCurEpoch` into a dummy `ep` whose pointer is null, BEFORE taking the mutex: a dead load, modelled as
    the step `syncLd` so that real traces can be replayed; the instant flavour has no such load;
  * `check_grace_period` short-circuits: the global control word is loaded only when the nest count of the
    loaded thread control word is non-zero (`waitLd` goes straight to the next thread otherwise);
  * `destruct` (Destruct / the destructor) runs `clear_buffer(max)`; the library contract is that no thread
    uses the RCU object any more: the model enables it only when every thread is idle and outside any
    critical section, and disables every later invocation.  For the instant flavour the source has no
    buffer and Destruct frees nothing: the operation returns at once (the model's buffer is provably empty
    in that flavour, `InvA.a13`).
  * client discipline: `runlock` only inside a section (the source asserts it); every object is retired at
    most once.  `synchronize`/`retire` are NOT restricted to threads outside a section (a thread that
    synchronizes inside its own section deadlocks; safety does not depend on it).

  Ghost state: `clock` (one tick per action), `secStart`, `retiredAt`, `disposed`, `acqClock`, `refClock`, `faddClock`,
  `mustWait`, `place`, `destroyed`.
-/
import CdsVerif.Base.Machine
namespace CdsVerif.Algo.RCU
open CdsVerif.Machine CdsVerif.Spec

abbrev Obj := Nat

/-- A thread's control word `m_nAccessControl`. -/
structure Ctl where
  nest : Nat
  phase : Bool
deriving DecidableEq, Repr

/-- Locals of a thread inside push_buffer / synchronize / clear_buffer. -/
structure W where
  own : List Obj      -- pointers whose push failed, to be freed by the enclosing push_buffer frames (innermost first);
                      -- instant flavour: the argument of retire_ptr
  e : Nat             -- nEpoch returned by fetch_add (buffered flavour)
deriving DecidableEq, Repr

inductive PC
  | idle
  | done
  -- access_lock
  | rlLoad                       -- next: tmp = own ctl
  | rlGctl                       -- next: load global control word            (nest was 0)
  | rlStore (g : Bool)           -- next: store (1, g) to own ctl; fence      -> section begins
  | rlNest (c : Ctl)             -- next: store tmp + 1                        (nested)
  -- access_unlock
  | ruLoad
  | ruStore (c : Ctl)            -- next: store tmp - 1
  -- general_buffered::retire_ptr / push_buffer
  | retEpoch (p : Obj)           -- next: load m_nCurEpoch
  | push (p : Obj) (tag : Nat) (own : List Obj)   -- next: m_Buffer.push
  | sizeLd (own : List Obj)      -- next: m_Buffer.size() >= capacity() ?
  -- synchronize
  | syncLd (own : List Obj)      -- next: (buffered only) dead load of m_nCurEpoch at the top of synchronize()
  | acq (own : List Obj)         -- next: exchange on the mutex
  | fadd (own : List Obj)        -- next: m_nCurEpoch.fetch_add(1)
  | flip (w : W) (r : Bool)      -- next: fetch_xor of the phase bit; r = false: first flip_and_wait, true: second
  | waitLd (w : W) (r : Bool) (i : Nat)              -- next: load ctl of thread i
  | waitG (w : W) (r : Bool) (i : Nat) (c : Ctl)     -- next: load global control word, decide (only if c.nest ≠ 0)
  | release (w : W)              -- next: unlock
  -- clear_buffer(e)
  | clrPop (w : W)               -- next: pop
  | clrDisp (w : W) (q : Obj)    -- next: q.free()
  -- returning through the push_buffer frames: `if (!bPushed) ep.free()`; instant: `p.free()`
  | disp (p : Obj) (rest : List Obj)
  -- Destruct: clear_buffer(max)
  | dPop
  | dDisp (q : Obj)
deriving DecidableEq, Repr

/-- Where a retired object is (ghost). -/
inductive Place
  | fresh            -- not retired yet
  | thr (t : Tid)    -- in a local variable of thread t
  | buf              -- in the buffer
  | gone             -- given to the disposer
deriving DecidableEq, Repr

structure St where
  buffered : Bool                -- flavour: false = general_instant, true = general_buffered
  nthreads : Nat
  cap : Nat                      -- m_nCapacity (threshold)
  bufCap : Nat                   -- physical capacity of m_Buffer
  gctl : Bool                    -- phase bit of m_nGlobalControl
  ctl : Tid → Ctl
  locked : Option Tid            -- m_Lock
  epoch : Nat                    -- m_nCurEpoch
  buf : List (Obj × Nat)         -- m_Buffer, front first
  pc : Tid → PC
  dead : Bool                    -- Destruct has been called
  -- ghost
  clock : Nat
  secStart : Tid → Option Nat    -- clock at which the current outermost section began
  retiredAt : Obj → Option Nat
  disposed : Obj → Nat
  acqClock : Nat                 -- clock of the last mutex acquisition
  refClock : Nat                 -- clock of the last FIRST flip
  faddClock : Nat                -- clock of the last m_nCurEpoch.fetch_add
  mustWait : Tid → Option Nat    -- snapshot of secStart at the last mutex acquisition
  place : Obj → Place
  destroyed : Bool               -- Destruct has completed

def init (buffered : Bool) (nthreads cap bufCap : Nat) : St where
  buffered := buffered
  nthreads := nthreads
  cap := cap
  bufCap := bufCap
  gctl := false
  ctl := fun _ => ⟨0, false⟩
  locked := none
  epoch := 0
  buf := []
  pc := fun _ => .idle
  dead := false
  clock := 0
  secStart := fun _ => none
  retiredAt := fun _ => none
  disposed := fun _ => 0
  acqClock := 0
  refClock := 0
  faddClock := 0
  mustWait := fun _ => none
  place := fun _ => .fresh
  destroyed := false

def b2s (b : Bool) : String := if b then "1" else "0"
def ctlStr (c : Ctl) : String := s!"{b2s c.phase}:{c.nest}"
def ctlLoc (t : Tid) : String := s!"ctl{t}"

/-- Continuation after the push_buffer frames: free the not-pushed pointers, innermost first. -/
def finPC : List Obj → PC
  | [] => .done
  | p :: rest => .disp p rest

/-- Continuation inside flip_and_wait after thread `i - 1` has been dealt with. -/
def afterScan (n : Nat) (w : W) (r : Bool) (i : Nat) : PC :=
  if i < n then .waitLd w r i else if r then .release w else .flip w true

/-- Every thread is idle and outside any critical section (precondition of Destruct). -/
def allQuiet (s : St) : Bool :=
  (List.range s.nthreads).all (fun u => decide (s.pc u = .idle) && decide ((s.ctl u).nest = 0))

/-- The first argument of every operation is the calling thread (as in the harness histories); unused. -/
def invoke (s : St) (t : Tid) (op : GOp) : Option St :=
  if s.dead = false ∧ t < s.nthreads ∧ s.pc t = .idle then
    match op.name, op.args with
    | "rlock", [_] => some { s with pc := upd s.pc t .rlLoad, clock := s.clock + 1 }
    | "runlock", [_] =>
      if (s.ctl t).nest ≠ 0 then some { s with pc := upd s.pc t .ruLoad, clock := s.clock + 1 } else none
    | "synchronize", [_] =>
      some { s with pc := upd s.pc t (if s.buffered then .syncLd [] else .acq []), clock := s.clock + 1 }
    | "retire", [_, p] =>
      if s.retiredAt p.toNat = none then
        some { s with pc := upd s.pc t (if s.buffered then .retEpoch p.toNat else .acq [p.toNat]),
                      retiredAt := upd s.retiredAt p.toNat (some s.clock),
                      place := upd s.place p.toNat (.thr t),
                      clock := s.clock + 1 }
      else none
    | "destruct", [_] =>
      if allQuiet s then
        some { s with pc := upd s.pc t (if s.buffered then .dPop else .done), dead := true,
                      destroyed := !s.buffered, clock := s.clock + 1 }
      else none
    | _, _ => none
  else none

def step (s : St) (t : Tid) : Option (St × Ev) :=
  match s.pc t with
  | .rlLoad =>
    let c := s.ctl t
    some ({ s with pc := upd s.pc t (if c.nest = 0 then .rlGctl else .rlNest c), clock := s.clock + 1 },
          ⟨"ld", ctlLoc t, ctlStr c, ""⟩)
  | .rlGctl =>
    some ({ s with pc := upd s.pc t (.rlStore s.gctl), clock := s.clock + 1 }, ⟨"ld", "gctl", b2s s.gctl, ""⟩)
  | .rlStore g =>
    some ({ s with ctl := upd s.ctl t ⟨1, g⟩, secStart := upd s.secStart t (some s.clock),
                   pc := upd s.pc t .done, clock := s.clock + 1 }, ⟨"st", ctlLoc t, ctlStr ⟨1, g⟩, ""⟩)
  | .rlNest c =>
    some ({ s with ctl := upd s.ctl t ⟨c.nest + 1, c.phase⟩, pc := upd s.pc t .done, clock := s.clock + 1 },
          ⟨"st", ctlLoc t, ctlStr ⟨c.nest + 1, c.phase⟩, ""⟩)
  | .ruLoad =>
    some ({ s with pc := upd s.pc t (.ruStore (s.ctl t)), clock := s.clock + 1 }, ⟨"ld", ctlLoc t, ctlStr (s.ctl t), ""⟩)
  | .ruStore c =>
    some ({ s with ctl := upd s.ctl t ⟨c.nest - 1, c.phase⟩,
                   secStart := upd s.secStart t (if c.nest - 1 = 0 then none else s.secStart t),
                   pc := upd s.pc t .done, clock := s.clock + 1 },
          ⟨"st", ctlLoc t, ctlStr ⟨c.nest - 1, c.phase⟩, ""⟩)
  | .retEpoch p =>
    some ({ s with pc := upd s.pc t (.push p s.epoch []), clock := s.clock + 1 }, ⟨"ld", "epoch", toString s.epoch, ""⟩)
  | .push p tag own =>
    if s.buf.length < s.bufCap then
      some ({ s with buf := s.buf ++ [(p, tag)], place := upd s.place p .buf,
                     pc := upd s.pc t (.sizeLd own), clock := s.clock + 1 }, ⟨"push", "buf", toString p, "1"⟩)
    else
      some ({ s with pc := upd s.pc t (.syncLd (p :: own)), clock := s.clock + 1 }, ⟨"push", "buf", toString p, "0"⟩)
  | .sizeLd own =>
    some ({ s with pc := upd s.pc t (if s.buf.length ≥ s.cap then .syncLd own else finPC own), clock := s.clock + 1 },
          ⟨"ld", "buf.size", toString s.buf.length, ""⟩)
  | .syncLd own =>
    some ({ s with pc := upd s.pc t (.acq own), clock := s.clock + 1 }, ⟨"ld", "epoch", toString s.epoch, ""⟩)
  | .acq own =>
    match s.locked with
    | none =>
      some ({ s with locked := some t, acqClock := s.clock, mustWait := s.secStart,
                     pc := upd s.pc t (if s.buffered then .fadd own else .flip ⟨own, 0⟩ false),
                     clock := s.clock + 1 }, ⟨"xchg", "lock", "0", "1"⟩)
    | some _ => some ({ s with clock := s.clock + 1 }, ⟨"xchg", "lock", "1", "1"⟩)
  | .fadd own =>
    some ({ s with epoch := s.epoch + 1, faddClock := s.clock, pc := upd s.pc t (.flip ⟨own, s.epoch⟩ false),
                   clock := s.clock + 1 },
          ⟨"add", "epoch", toString s.epoch, "1"⟩)
  | .flip w r =>
    some ({ s with gctl := !s.gctl, refClock := if r then s.refClock else s.clock,
                   pc := upd s.pc t (afterScan s.nthreads w r 0), clock := s.clock + 1 },
          ⟨"xor", "gctl", b2s s.gctl, "1"⟩)
  | .waitLd w r i =>
    some ({ s with pc := upd s.pc t (if (s.ctl i).nest = 0 then afterScan s.nthreads w r (i + 1)
                                     else .waitG w r i (s.ctl i)),
                   clock := s.clock + 1 }, ⟨"ld", ctlLoc i, ctlStr (s.ctl i), ""⟩)
  | .waitG w r i c =>
    some ({ s with pc := upd s.pc t (if c.nest ≠ 0 ∧ c.phase ≠ s.gctl then .waitLd w r i
                                     else afterScan s.nthreads w r (i + 1)),
                   clock := s.clock + 1 }, ⟨"ld", "gctl", b2s s.gctl, ""⟩)
  | .release w =>
    some ({ s with locked := none, pc := upd s.pc t (if s.buffered then .clrPop w else finPC w.own),
                   clock := s.clock + 1 }, ⟨"st", "lock", "0", ""⟩)
  | .clrPop w =>
    match s.buf with
    | [] => some ({ s with pc := upd s.pc t (finPC w.own), clock := s.clock + 1 }, ⟨"pop", "buf", "-", "0"⟩)
    | (q, tag) :: rest =>
      some ({ s with buf := rest, place := upd s.place q (.thr t),
                     pc := upd s.pc t (if tag ≤ w.e then .clrDisp w q else .push q tag w.own),
                     clock := s.clock + 1 }, ⟨"pop", "buf", toString q, "1"⟩)
  | .clrDisp w q =>
    some ({ s with disposed := upd s.disposed q (s.disposed q + 1), place := upd s.place q .gone,
                   pc := upd s.pc t (.clrPop w), clock := s.clock + 1 }, ⟨"dispose", "obj", toString q, ""⟩)
  | .disp p rest =>
    some ({ s with disposed := upd s.disposed p (s.disposed p + 1), place := upd s.place p .gone,
                   pc := upd s.pc t (finPC rest), clock := s.clock + 1 }, ⟨"dispose", "obj", toString p, ""⟩)
  | .dPop =>
    match s.buf with
    | [] => some ({ s with destroyed := true, pc := upd s.pc t .done, clock := s.clock + 1 }, ⟨"pop", "buf", "-", "0"⟩)
    | (q, _) :: rest =>
      some ({ s with buf := rest, place := upd s.place q (.thr t), pc := upd s.pc t (.dDisp q),
                     clock := s.clock + 1 }, ⟨"pop", "buf", toString q, "1"⟩)
  | .dDisp q =>
    some ({ s with disposed := upd s.disposed q (s.disposed q + 1), place := upd s.place q .gone,
                   pc := upd s.pc t .dPop, clock := s.clock + 1 }, ⟨"dispose", "obj", toString q, ""⟩)
  | .idle => none
  | .done => none

def result (s : St) (t : Tid) : Option (St × GRet) :=
  match s.pc t with
  | .done => some ({ s with pc := upd s.pc t .idle, clock := s.clock + 1 }, [])
  | _ => none

def model : Model St := ⟨invoke, step, result⟩

/-- Value of the word `key=<n>` in a case header. -/
def cfgNat (key : String) (cfg : List String) : Option Nat :=
  cfg.findSome? (fun w => if w.startsWith (key ++ "=") then (w.drop (key.length + 1)).toNat? else none)

/-- Initial state from the words of a case header (`# family=rcu variant=gpb flavour=gpb nthreads=3 cap=4 bufcap=4`
    split on spaces): `flavour=gpi|gpb`, `nthreads=<n>`, `cap=<n>`, `bufcap=<n>`; defaults gpb / 4 / 4 / 4. -/
def initCfg (cfg : List String) : St :=
  init (!(cfg.contains "flavour=gpi")) ((cfgNat "nthreads" cfg).getD 4) ((cfgNat "cap" cfg).getD 4)
    ((cfgNat "bufcap" cfg).getD 4)

/-- The objects held in the local variables of a thread at a program point. -/
def locals : PC → List Obj
  | .retEpoch p => [p]
  | .push p _ own => p :: own
  | .sizeLd own => own
  | .syncLd own => own
  | .acq own => own
  | .fadd own => own
  | .flip w _ => w.own
  | .waitLd w _ _ => w.own
  | .waitG w _ _ _ => w.own
  | .release w => w.own
  | .clrPop w => w.own
  | .clrDisp w q => q :: w.own
  | .disp p rest => p :: rest
  | .dDisp q => [q]
  | _ => []

/-- The thread is between a successful mutex acquisition and the release. -/
def holding : PC → Bool
  | .fadd _ => true
  | .flip _ _ => true
  | .waitLd _ _ _ => true
  | .waitG _ _ _ _ => true
  | .release _ => true
  | _ => false

/-- The object the thread gives to the disposer with its next step. -/
def disposing : PC → Option Obj
  | .clrDisp _ q => some q
  | .disp p _ => some p
  | .dDisp q => some q
  | _ => none

end CdsVerif.Algo.RCU

/-
  Hand-written executable model of `cds::bitop::bit_reverse_counter<size_t>`
  (cds/details/bit_reverse_counter.h), the slot allocator of MSPriorityQueue.
  The per-bit primitive is the *translated* `Gen.BitopGeneric.complement64`.
  Tied to the real class by differential runs (tie D, harness/pure/counter.cpp).
-/
import CdsVerif.Gen.BitopGeneric
namespace CdsVerif.Algo.Counter
open CdsVerif.Gen.BitopGeneric

structure Ctr where
  counter : BitVec 64      -- m_nCounter
  reversed : BitVec 64     -- m_nReversed
  highBit : Int            -- m_nHighBit
deriving Repr, DecidableEq

def Ctr.init : Ctr := ⟨0, 0, -1⟩

/-- `for ( nBit = n - 1; nBit >= 0; --nBit ) if ( complement( rev, nBit ) == stopOn ) break;`
    returns the new `rev` and whether the loop was left by `break`. -/
def flipLoop (stopOn : Bool) : Nat → BitVec 64 → BitVec 64 × Bool
  | 0, rev => (rev, false)
  | k + 1, rev =>
    let r := complement64 rev (BitVec.ofNat 32 k)
    if r.1 = stopOn then (r.2, true) else flipLoop stopOn k r.2

def Ctr.inc (c : Ctr) : BitVec 64 × Ctr :=
  let counter := c.counter + 1
  let (rev, broke) := flipLoop false c.highBit.toNat c.reversed
  if broke then (rev, ⟨counter, rev, c.highBit⟩)
  else (counter, ⟨counter, counter, c.highBit + 1⟩)

def Ctr.dec (c : Ctr) : BitVec 64 × Ctr :=
  let ret := c.reversed
  let counter := c.counter - 1
  let (rev, broke) := flipLoop true c.highBit.toNat c.reversed
  if broke then (ret, ⟨counter, rev, c.highBit⟩)
  else (ret, ⟨counter, counter, c.highBit - 1⟩)

/-- run a sequence of operations (`true` = inc, `false` = dec), collecting the returned slots -/
def Ctr.run : Ctr → List Bool → List (BitVec 64) × Ctr
  | c, [] => ([], c)
  | c, op :: ops =>
    let (r, c') := if op then c.inc else c.dec
    let (rs, c'') := Ctr.run c' ops
    (r :: rs, c'')

end CdsVerif.Algo.Counter

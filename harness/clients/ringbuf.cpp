// C12: cds::container::WeakRingBuffer<long> (fixed-size elements, single and batch operations) and
// cds::container::WeakRingBuffer<void> (variable-sized byte records), single producer (thread 0) /
// single consumer (thread 1).  spec "none": the client is its own oracle.
//
//   order / lost / phantom   the consumer (scheduled pops, then a sequential drain by the main thread) receives
//                            exactly the successfully pushed elements / records, once, in push order
//   size / bytes             void variant: every record comes back with its exact size and every byte intact
//   pushfail                 a push may fail only if free space < request at some instant of the call; raised if
//                            capacity - (amount produced so far - amount whose consumption had completed when the
//                            push was invoked) >= request.  Typed variant: amounts are elements.  Void variant:
//                            amounts are bytes counted exactly as the implementation does (8-byte header, payload
//                            rounded up to 8, plus the unused tail when the record does not fit before the wrap).
//   popfail                  a pop of k elements (k = 1 for records, front) may fail only if fewer than k are
//                            present: raised if (amount whose push had completed when the pop was invoked -
//                            amount consumed so far) >= k
//   popfront                 pop_front() fails right after front() returned an element
//   notempty                 the buffer is not empty()/size()==0 after the drain
// "completed when ... was invoked" is evaluated online: the threads are serialised by the scheduler's baton and
// switch only inside library atomics, so the producer/consumer read each other's progress counters exactly at
// their own invocation point.
//
// Preconditions respected (they are assert()s in the library): batch count < capacity(); record real size
// (8 + payload rounded up to 8) < capacity().  Hence the largest record payload is the largest multiple of 8
// below capacity, minus 8 -- NOT capacity-9.
//
// Variants: typed_exp2 typed_mod  (constructor arguments 2 3 4 5 8; exp2 rounds 3->4, 5->8)
//           void_exp2 void_mod    (32 48 64 96; exp2 rounds 48->64, 96->128)
//           void_unaligned        (non-exp2 buffer, capacities 40 100 36 52: 100, 36, 52 are not multiples of 8)
// Options: --cap N, --rot N (warm-up rotation), --maxops N, --sizeops PCT (void variants: PCT percent of the
//          operations of both threads are replaced by size() / empty(), results checked against the bounds the
//          calling thread can rely on; default 0 = programs unchanged).
#include <cds/init.h>
#include <cds/container/weak_ringbuffer.h>
#include <algorithm>
#include <cstring>
#include <memory>
#include "../client.h"

using namespace khizmax_libcds_verif;
namespace cc = cds::container;

template <bool Exp2>
struct rb_traits : cc::weak_ringbuffer::traits {
    typedef cds::opt::v::initialized_dynamic_buffer<void*, CDS_DEFAULT_ALLOCATOR, Exp2> buffer;
};

struct ITyped {
    virtual ~ITyped() {}
    virtual bool push( long v ) = 0;
    virtual bool pushn( long* a, size_t k ) = 0;
    virtual bool pop( long& v ) = 0;
    virtual bool popn( long* a, size_t k ) = 0;
    virtual long* front() = 0;
    virtual bool pop_front() = 0;
    virtual size_t capacity() const = 0;
    virtual size_t size() const = 0;
    virtual bool empty() const = 0;
};
struct IVoid {
    virtual ~IVoid() {}
    virtual void* back( size_t sz ) = 0;
    virtual void push_back() = 0;
    virtual bool push_back( void const* d, size_t sz ) = 0;
    virtual std::pair<void*, size_t> front() = 0;
    virtual bool pop_front() = 0;
    virtual size_t capacity() const = 0;
    virtual size_t size() const = 0;
    virtual bool empty() const = 0;
};

template <class R>
static void name_ring( R& r )
{
    reg_name( &r.front_, sizeof( r.front_ ), "front" );
    reg_name( &r.back_, sizeof( r.back_ ), "back" );
}

template <bool Exp2>
struct TypedRB : ITyped {
    typedef cc::WeakRingBuffer<long, rb_traits<Exp2>> ring_t;
    std::unique_ptr<ring_t> r;
    explicit TypedRB( size_t cap ) : r( new ring_t( cap )) { name_ring( *r ); }
    bool push( long v ) override { return r->push( v ); }
    bool pushn( long* a, size_t k ) override { return r->push( a, k ); }
    bool pop( long& v ) override { return r->pop( v ); }
    bool popn( long* a, size_t k ) override { return r->pop( a, k ); }
    long* front() override { return r->front(); }
    bool pop_front() override { return r->pop_front(); }
    size_t capacity() const override { return r->capacity(); }
    size_t size() const override { return r->size(); }
    bool empty() const override { return r->empty(); }
};

template <bool Exp2>
struct VoidRB : IVoid {
    typedef cc::WeakRingBuffer<void, rb_traits<Exp2>> ring_t;
    std::unique_ptr<ring_t> r;
    explicit VoidRB( size_t cap ) : r( new ring_t( cap )) { name_ring( *r ); }
    void* back( size_t sz ) override { return r->back( sz ); }
    void push_back() override { r->push_back(); }
    bool push_back( void const* d, size_t sz ) override { return r->push_back( d, sz ); }
    std::pair<void*, size_t> front() override { return r->front(); }
    bool pop_front() override { return r->pop_front(); }
    size_t capacity() const override { return r->capacity(); }
    size_t size() const override { return r->size(); }
    bool empty() const override { return r->empty(); }
};

static inline uint8_t pattern( long id, size_t i ) { return uint8_t( id * 37 + long( i ) * 11 + 5 ); }

struct Fixture {
    static char const* family() { return "ringbuf"; }
    static std::vector<std::string> variants()
    {
        return { "typed_exp2", "typed_mod", "void_exp2", "void_mod", "void_unaligned" };
    }

    std::unique_ptr<ITyped> ty;
    std::unique_ptr<IVoid> vo;
    bool failed = false;
    std::string failure;
    std::vector<std::string> more;
    size_t cap_arg = 0, cap = 0;
    int maxops = 8;
    unsigned sizeops = 0;

    // typed state
    std::vector<long> produced;         // successfully pushed values, in order (producer only appends)
    std::vector<long> consumed;         // popped values, in order (consumer only appends)

    // void state
    struct Rec { long id; size_t size; uint64_t endpos; };
    struct Got { size_t size; std::vector<uint8_t> bytes; };
    std::vector<Rec> recs;              // attempted records: all successful ones and possibly one pending at the end
    size_t pushed_done = 0;             // number of records whose push has returned true
    uint64_t mback = 0;                 // mirror of the producer's byte counter back_
    uint64_t cfront_done = 0;           // lower bound of front_: end position of the last record completely consumed
    std::vector<Got> got;
    long next_id = 1;

    void raise( std::string const& msg )
    {
        if ( !failed ) { failed = true; failure = msg; }
        else if ( more.size() < 8 ) more.push_back( msg );
    }

    explicit Fixture( Case const& c )
    {
        static size_t const typed_caps[] = { 2, 3, 4, 5, 8 };
        static size_t const void_caps[] = { 32, 48, 64, 96 };
        static size_t const unaligned_caps[] = { 40, 100, 36, 52 };
        std::string const& v = c.variant;
        maxops = int( c.optl( "maxops", 8 ));
        sizeops = unsigned( c.optl( "sizeops", 0 ));
        uint64_t rotsel;
        if ( v == "typed_exp2" || v == "typed_mod" ) {
            cap_arg = size_t( c.optl( "cap", long( typed_caps[c.index % 5] )));
            rotsel = c.index / 5;
            if ( v == "typed_exp2" ) ty.reset( new TypedRB<true>( cap_arg ));
            else ty.reset( new TypedRB<false>( cap_arg ));
            cap = ty->capacity();
        }
        else if ( v == "void_exp2" || v == "void_mod" || v == "void_unaligned" ) {
            if ( v == "void_unaligned" )
                cap_arg = size_t( c.optl( "cap", long( unaligned_caps[c.index % 4] )));
            else
                cap_arg = size_t( c.optl( "cap", long( void_caps[c.index % 4] )));
            rotsel = c.index / 4;
            if ( v == "void_exp2" ) vo.reset( new VoidRB<true>( cap_arg ));
            else vo.reset( new VoidRB<false>( cap_arg ));
            cap = vo->capacity();
        }
        else { std::fprintf( stderr, "unknown variant %s\n", v.c_str()); std::exit( 2 ); }

        // warm-up: rotate the ring so that the scheduled program wraps at varying offsets
        if ( ty ) {
            size_t rot = size_t( c.optl( "rot", long( rotsel % ( 2 * cap + 1 ))));
            rot_used = rot;
            for ( size_t i = 0; i < rot; ++i ) {
                long x = 0;
                if ( !ty->push( -long( i ) - 1 ) || !ty->pop( x ) || x != -long( i ) - 1 )
                    raise( "warmup push/pop mismatch" );
            }
        }
        else {
            // 8-byte records occupy 16 bytes each.  For capacities that are not a multiple of 8 the rotation stops
            // short of the buffer end, so that the first wrap happens inside the scheduled program.
            size_t rot = size_t( c.optl( "rot", long( cap % 8 ? rotsel % ( cap / 16 ) : rotsel % ( cap / 8 + 1 ))));
            rot_used = rot;
            for ( size_t i = 0; i < rot; ++i ) {
                std::vector<long> r1 = void_push( 0, 0 );
                std::vector<long> r2 = void_pop();
                if ( r1[0] != 1 || r2[0] != 1 )
                    raise( "warmup push/pop failed" );
            }
        }
    }
    std::string spec() const { return "none"; }
    size_t rot_used = 0;
    // configuration the Lean machines Algo/Ring and Algo/VoidRing need to start from the same state (tie A);
    // void variants: each warm-up round pushes an 8-byte record (ids 1..rot) and pops it
    std::string header_extra() const { return "cap=" + std::to_string( cap ) + " rot=" + std::to_string( rot_used ); }

    std::vector<std::vector<Op>> program( Rng& r, int, int nops )
    {
        std::vector<std::vector<Op>> p( 2 );       // exactly one producer and one consumer
        int hi = 2 * nops;
        if ( hi > maxops ) hi = maxops;
        if ( hi < 1 ) hi = 1;
        int lo = hi > 2 ? hi - 2 : 1;
        int np = lo + int( r.below( uint64_t( hi - lo + 1 )));
        int nc = lo + int( r.below( uint64_t( hi - lo + 1 )));
        if ( ty ) {
            long v = 1;
            unsigned batch_pct = cap > 2 ? 25 + unsigned( r.below( 30 )) : 20;
            for ( int i = 0; i < np; ++i ) {
                if ( r.chance( batch_pct )) {
                    long k = r.chance( 25 ) ? long( cap - 1 ) : 1 + long( r.below( cap - 1 ));
                    p[0].push_back( Op( "pushn", v, k ));
                    v += k;
                }
                else p[0].push_back( Op( "push", v++ ));
            }
            for ( int i = 0; i < nc; ++i ) {
                unsigned x = unsigned( r.below( 100 ));
                if ( x < batch_pct ) {
                    long k = r.chance( 25 ) ? long( cap - 1 ) : 1 + long( r.below( cap - 1 ));
                    p[1].push_back( Op( "popn", k ));
                }
                else if ( x < batch_pct + 10 ) p[1].push_back( Op( "front" ));
                else if ( x < batch_pct + 25 ) p[1].push_back( Op( "popf" ));
                else p[1].push_back( Op( "pop" ));
            }
        }
        else {
            for ( int i = 0; i < np; ++i ) {
                // selector: 0 random, 1 ends exactly at the buffer end, 2 one slot too long (forces the unused
                // tail), 3 leaves exactly one 8-byte slot, 4 largest legal record
                static int const sel_tab[] = { 0, 0, 0, 1, 1, 2, 2, 3, 3, 4 };
                if ( sizeops > 0 && r.chance( sizeops ))
                    p[0].push_back( Op( r.chance( 50 ) ? "size" : "empty" ));
                else
                    p[0].push_back( Op( "push", sel_tab[r.below( 10 )], long( r.below( 1000 ))));
            }
            for ( int i = 0; i < nc; ++i ) {
                if ( sizeops > 0 && r.chance( sizeops ))
                    p[1].push_back( Op( r.chance( 50 ) ? "size" : "empty" ));
                else
                    p[1].push_back( Op( "pop" ));
            }
        }
        return p;
    }
    void thread_begin( int ) { set_quiet( true ); cds::threading::Manager::attachThread(); set_quiet( false ); }
    void thread_end( int ) { set_quiet( true ); cds::threading::Manager::detachThread(); set_quiet( false ); }

    // ----- typed -----------------------------------------------------------------------------------
    void typed_pushfail( size_t c0, size_t k, char const* what )
    {
        size_t used = produced.size() - c0;
        if ( used <= cap && cap - used >= k ) {
            std::ostringstream os;
            os << "pushfail " << what << " of " << k << " failed: capacity " << cap << " produced " << produced.size()
               << " consumed-before-invocation " << c0;
            raise( os.str());
        }
    }
    void typed_popfail( size_t p0, size_t k, char const* what )
    {
        if ( p0 >= consumed.size() + k ) {
            std::ostringstream os;
            os << "popfail " << what << " of " << k << " failed: pushed-before-invocation " << p0 << " consumed " << consumed.size();
            raise( os.str());
        }
    }
    std::vector<long> typed_exec( Op const& op )
    {
        if ( op.name == "push" ) {
            size_t c0 = consumed.size();
            bool ok = ty->push( op.args[0] );
            if ( ok ) produced.push_back( op.args[0] );
            else typed_pushfail( c0, 1, "push" );
            return { ok ? 1L : 0L };
        }
        if ( op.name == "pushn" ) {
            size_t k = size_t( op.args[1] );
            std::vector<long> a( k );
            for ( size_t i = 0; i < k; ++i ) a[i] = op.args[0] + long( i );
            size_t c0 = consumed.size();
            bool ok = ty->pushn( a.data(), k );
            if ( ok ) produced.insert( produced.end(), a.begin(), a.end());
            else typed_pushfail( c0, k, "push(arr,n)" );
            return { ok ? 1L : 0L };
        }
        if ( op.name == "pop" ) {
            size_t p0 = produced.size();
            long v = 0;
            if ( ty->pop( v )) { consumed.push_back( v ); return { 1, v }; }
            typed_popfail( p0, 1, "pop" );
            return { 0 };
        }
        if ( op.name == "popn" ) {
            size_t k = size_t( op.args[0] );
            std::vector<long> a( k, 0 );
            size_t p0 = produced.size();
            if ( ty->popn( a.data(), k )) {
                consumed.insert( consumed.end(), a.begin(), a.end());
                std::vector<long> ret{ 1 };
                ret.insert( ret.end(), a.begin(), a.end());
                return ret;
            }
            typed_popfail( p0, k, "pop(arr,n)" );
            return { 0 };
        }
        if ( op.name == "front" ) {
            size_t p0 = produced.size();
            long* p = ty->front();
            if ( p ) {
                long v = *p;
                // the element stays in the ring; it must be the next one in push order (checked when it is popped,
                // and here against the producer's list if the producer has already recorded it)
                if ( consumed.size() < produced.size() && produced[consumed.size()] != v ) {
                    std::ostringstream os;
                    os << "order front() shows " << v << " but the next element in push order is " << produced[consumed.size()];
                    raise( os.str());
                }
                return { 1, v };
            }
            typed_popfail( p0, 1, "front" );
            return { 0 };
        }
        // popf: front() + pop_front()
        size_t p0 = produced.size();
        long* p = ty->front();
        if ( !p ) { typed_popfail( p0, 1, "front" ); return { 0 }; }
        long v = *p;
        if ( !ty->pop_front()) raise( "popfront pop_front() failed right after front() returned an element" );
        consumed.push_back( v );
        return { 1, v };
    }

    // ----- void ------------------------------------------------------------------------------------
    static size_t real_size( size_t sz ) { return (( sz + 7 ) & ~size_t( 7 )) + 8; }
    size_t max_real() const { return (( cap - 1 ) / 8 ) * 8; }       // largest multiple of 8 below capacity

    size_t pick_size( long sel, long raw ) const
    {
        size_t maxr = max_real();
        size_t nslots = ( maxr - 16 ) / 8 + 1;
        size_t tail = cap - size_t( mback % cap );
        size_t real = 16 + 8 * ( size_t( raw ) % nslots );
        size_t want = 0;
        switch ( sel ) {
        case 1: want = tail; break;
        case 2: want = tail + 8; break;
        case 3: want = tail >= 8 ? tail - 8 : 0; break;
        case 4: want = maxr; break;
        default: break;
        }
        want &= ~size_t( 7 );
        if ( want >= 16 && want <= maxr ) real = want;
        else if ( tail < real && tail + real > cap && raw % 4 != 0 ) {
            // this record can never be placed at the current position (tail + record > capacity); mostly replace
            // it by the largest one that can, but keep some: they exercise the path that writes the tail marker
            // and then gives up without publishing it
            size_t fit = ( std::max( tail, cap - tail )) & ~size_t( 7 );
            if ( fit > maxr ) fit = maxr;
            if ( fit >= 16 ) real = fit;
        }
        // payload: rounded-up size is real - 8
        return real - 8 - size_t( raw / 7 ) % 8;
    }

    std::vector<long> void_push( long sel, long raw )
    {
        size_t sz = pick_size( sel, raw );
        long id = next_id++;
        size_t real = real_size( sz );
        size_t tail = cap - size_t( mback % cap );
        size_t need = tail < real ? tail + real : real;
        uint64_t c0 = cfront_done;
        std::vector<uint8_t> data( sz );
        for ( size_t i = 0; i < sz; ++i ) data[i] = pattern( id, i );
        recs.push_back( Rec{ id, sz, mback + need } );     // visible to the consumer before the record can be
        bool ok;
        if ( id % 2 ) {
            ok = vo->push_back( data.data(), sz );
        }
        else {
            void* buf = vo->back( sz );
            ok = buf != nullptr;
            if ( ok ) {
                std::memcpy( buf, data.data(), sz );
                vo->push_back();
            }
        }
        if ( ok ) {
            mback += need;
            ++pushed_done;
        }
        else {
            recs.pop_back();
            uint64_t used = mback - c0;
            if ( used <= cap && cap - used >= need ) {
                std::ostringstream os;
                os << "pushfail record of " << sz << " bytes (needs " << need << " incl. header/padding/tail) rejected: capacity "
                   << cap << " back " << mback << " front-before-invocation >= " << c0;
                raise( os.str());
            }
        }
        return { ok ? 1L : 0L, long( sz ), id, long( need ) };
    }

    std::vector<long> void_pop()
    {
        size_t p0 = pushed_done;
        std::pair<void*, size_t> f = vo->front();
        if ( !f.first ) {
            if ( p0 >= got.size() + 1 ) {
                std::ostringstream os;
                os << "popfail front() reports empty: records pushed-before-invocation " << p0 << " consumed " << got.size();
                raise( os.str());
            }
            return { 0 };
        }
        Got g;
        g.size = f.second;
        long id = -1;
        if ( f.second > cap ) {
            std::ostringstream os;
            os << "size front() returned a record of " << f.second << " bytes, capacity is " << cap;
            raise( os.str());
        }
        else {
            g.bytes.assign( static_cast<uint8_t*>( f.first ), static_cast<uint8_t*>( f.first ) + f.second );
            for ( Rec const& rc : recs ) {
                if ( rc.size != g.size ) continue;
                bool same = true;
                for ( size_t i = 0; i < g.size && same; ++i ) same = g.bytes[i] == pattern( rc.id, i );
                if ( same ) { id = rc.id; break; }
            }
        }
        size_t n = got.size();
        got.push_back( g );
        if ( !vo->pop_front()) raise( "popfront pop_front() failed right after front() returned a record" );
        if ( n < recs.size()) cfront_done = recs[n].endpos;
        return { 1, long( g.size ), id };
    }

    // size() / empty() from either thread.  The caller's own counter is stable during the call, the other one only
    // grows: the producer gets an upper bound of the bytes in flight (>= produced - consumed-so-far is not observable
    // here; <= produced - consumed-before-invocation), the consumer a lower bound of what it will find.
    std::vector<long> void_size( int tid, bool want_empty )
    {
        uint64_t c0 = cfront_done;
        size_t p0 = pushed_done;
        size_t g0 = got.size();
        long n = want_empty ? 0 : long( vo->size());
        bool e = want_empty ? vo->empty() : false;
        if ( !want_empty ) {
            if ( n < 0 || size_t( n ) > cap || n % 8 != 0 ) {
                std::ostringstream os;
                os << "sizeval size() returned " << n << ", capacity " << cap;
                raise( os.str());
            }
            if ( tid == 0 && uint64_t( n ) > mback - c0 ) {
                std::ostringstream os;
                os << "sizeval producer's size() = " << n << " exceeds back " << mback << " - front-before-invocation >= " << c0;
                raise( os.str());
            }
            if ( tid == 1 && n == 0 && p0 > g0 )
                raise( "sizeval consumer's size() = 0 although a completed push has not been consumed" );
            return { n };
        }
        if ( tid == 1 && e && p0 > g0 )
            raise( "sizeval consumer's empty() = true although a completed push has not been consumed" );
        if ( tid == 0 && !e && mback == c0 && got.size() == pushed_done )
            raise( "sizeval producer's empty() = false although everything produced had been consumed before the call" );
        return { e ? 1L : 0L };
    }

    std::vector<long> exec( int tid, Op const& op )
    {
        if ( vo && ( op.name == "size" || op.name == "empty" ))
            return void_size( tid, op.name == "empty" );
        if (( tid == 0 ) != ( op.name.compare( 0, 4, "push" ) == 0 )) {
            raise( "client single-producer/single-consumer contract broken by the program generator" );
            return { -1 };
        }
        if ( ty ) return typed_exec( op );
        if ( op.name == "push" ) return void_push( op.args[0], op.args[1] );
        return void_pop();
    }

    void finish( std::ostream& out )
    {
        out << "# cap_arg=" << cap_arg << " capacity=" << cap;
        if ( ty ) {
            // drain
            size_t n0 = consumed.size();
            for ( size_t guard = cap + 2; guard > 0; --guard ) {
                long v = 0;
                if ( !ty->pop( v )) break;
                consumed.push_back( v );
            }
            out << " produced=" << produced.size() << " consumed=" << n0 << " drained=" << consumed.size() - n0 << '\n';
            if ( !ty->empty() || ty->size() != 0 ) {
                std::ostringstream os;
                os << "notempty after the drain: empty()=" << ty->empty() << " size()=" << ty->size();
                raise( os.str());
            }
            size_t n = std::min( produced.size(), consumed.size());
            for ( size_t i = 0; i < n; ++i )
                if ( produced[i] != consumed[i] ) {
                    std::ostringstream os;
                    os << "order element #" << i << " received " << consumed[i] << " expected " << produced[i];
                    raise( os.str());
                    break;
                }
            if ( consumed.size() < produced.size()) {
                std::ostringstream os;
                os << "lost " << produced.size() - consumed.size() << " pushed elements never received, first " << produced[n];
                raise( os.str());
            }
            if ( consumed.size() > produced.size()) {
                std::ostringstream os;
                os << "phantom " << consumed.size() - produced.size() << " elements received that were not pushed, first " << consumed[n];
                raise( os.str());
            }
        }
        else {
            size_t n0 = got.size();
            for ( size_t guard = recs.size() + 4; guard > 0; --guard ) {
                std::vector<long> r = void_pop();
                if ( r[0] != 1 ) break;
            }
            out << " pushed=" << pushed_done << " consumed=" << n0 << " drained=" << got.size() - n0 << " back=" << mback << '\n';
            if ( !vo->empty() || vo->size() != 0 ) {
                std::ostringstream os;
                os << "notempty after the drain: empty()=" << vo->empty() << " size()=" << vo->size();
                raise( os.str());
            }
            size_t n = std::min( recs.size(), got.size());
            for ( size_t i = 0; i < n; ++i ) {
                if ( recs[i].size != got[i].size ) {
                    std::ostringstream os;
                    os << "size record #" << i << " (id " << recs[i].id << ") pushed with " << recs[i].size << " bytes, received "
                       << got[i].size;
                    raise( os.str());
                    break;
                }
                size_t bad = 0, first = 0;
                for ( size_t k = 0; k < got[i].size; ++k )
                    if ( got[i].bytes[k] != pattern( recs[i].id, k )) { if ( !bad ) first = k; ++bad; }
                if ( bad ) {
                    std::ostringstream os;
                    os << "bytes record #" << i << " (id " << recs[i].id << ", " << recs[i].size << " bytes): " << bad
                       << " bytes differ, first at offset " << first;
                    raise( os.str());
                    break;
                }
            }
            if ( got.size() < recs.size()) {
                std::ostringstream os;
                os << "lost " << recs.size() - got.size() << " pushed records never received, first id " << recs[n].id;
                raise( os.str());
            }
            if ( got.size() > recs.size()) {
                std::ostringstream os;
                os << "phantom " << got.size() - recs.size() << " records received that were not pushed";
                raise( os.str());
            }
        }
        for ( std::string const& m : more )
            out << "X " << m << '\n';
    }
};

int main( int argc, char** argv )
{
    cds::Initialize();
    {
        cds::threading::Manager::attachThread();
        int rc = client_main<Fixture>( argc, argv );
        cds::threading::Manager::detachThread();
        (void) rc;
    }
    cds::Terminate();
    return 0;
}

/-
  Consequences of the SegmentedQueue invariant used by property C08: cells are write-once / delete-once (a fact
  about single transitions), the counting form of the reordering bound (pigeonhole on the cells of one segment).
-/
import CdsVerif.Algo.Segmented.InvAll
namespace CdsVerif.Algo.Segmented
open CdsVerif.Machine CdsVerif.Spec

/-! ### Pigeonhole -/

theorem nodup_lt_length : ∀ (K : Nat) (l : List Nat), l.Nodup → (∀ a, a ∈ l → a < K) → l.length ≤ K := by
  intro K
  induction K with
  | zero =>
    intro l _ hl
    cases l with
    | nil => simp
    | cons a r => exact absurd (hl a (by simp)) (by omega)
  | succ K ih =>
    intro l hnd hl
    have h1 : (l.erase K).Nodup := hnd.erase K
    have h2 : ∀ a, a ∈ l.erase K → a < K := by
      intro a ha
      have := (List.Nodup.mem_erase_iff hnd).mp ha
      have := hl a this.2
      omega
    have h3 := ih (l.erase K) h1 h2
    by_cases hK : K ∈ l
    · have := List.length_erase_of_mem hK
      omega
    · have := List.erase_of_not_mem hK
      rw [this] at h3; omega

theorem nodup_map_of_inj_on {f : Nat → Nat} : ∀ (l : List Nat), l.Nodup →
    (∀ a, a ∈ l → ∀ b, b ∈ l → f a = f b → a = b) → (l.map f).Nodup := by
  intro l
  induction l with
  | nil => intro _ _; simp
  | cons a r ih =>
    intro hnd hinj
    rw [List.nodup_cons] at hnd
    rw [List.map_cons, List.nodup_cons]
    refine ⟨?_, ih hnd.2 (fun x hx y hy => hinj x (by simp [hx]) y (by simp [hy]))⟩
    intro hmem
    rw [List.mem_map] at hmem
    obtain ⟨b, hb, hfb⟩ := hmem
    have := hinj b (by simp [hb]) a (by simp) hfb
    subst this; exact hnd.1 hb

/-! ### Cells are write-once, delete-once -/

/-- What one transition may do to a cell. -/
def CellStep (c c' : Cell) : Prop :=
  c' = c ∨ (c = .null ∧ ∃ x, c' = .item x) ∨ (∃ x, c = .item x ∧ c' = .del x)

set_option maxHeartbeats 1000000 in
theorem cell_step_of_step {s s' : St} {t : Tid} {e : Ev} (hs : step s t = some (s', e)) :
    ∀ g i, CellStep (s.cell g i) (s'.cell g i) := by
  intro g i
  unfold step at hs
  split at hs
  all_goals (try (split at hs))
  all_goals (try (split at hs))
  all_goals (try (split at hs))
  all_goals (try (simp at hs; done))
  all_goals (simp only [Option.some.injEq, Prod.mk.injEq] at hs; obtain ⟨rfl, _⟩ := hs)
  all_goals (first
    | exact Or.inl rfl
    | (simp only [CellStep, upd2]; split <;> simp_all))

theorem cell_step_of_apply {s s' : St} {t : Tid} {a : Act} {o : Obs} (hap : model.apply s t a = some (s', o)) :
    ∀ g i, CellStep (s.cell g i) (s'.cell g i) := by
  intro g i
  cases a with
  | invoke op =>
    simp only [Model.apply, model, Option.map_eq_some_iff] at hap
    obtain ⟨s1, hs1, heq⟩ := hap
    simp only [Prod.mk.injEq] at heq
    obtain ⟨rfl, -⟩ := heq
    unfold invoke at hs1
    split at hs1
    · split at hs1
      · simp only [Option.some.injEq] at hs1; subst hs1; exact Or.inl rfl
      · simp at hs1
    · simp only [Option.some.injEq] at hs1; subst hs1; exact Or.inl rfl
    · simp at hs1
  | step =>
    simp only [Model.apply, model, Option.map_eq_some_iff] at hap
    obtain ⟨r, hr, heq⟩ := hap
    simp only [Prod.mk.injEq] at heq
    obtain ⟨rfl, -⟩ := heq
    exact cell_step_of_step (e := r.2) hr g i
  | ret =>
    simp only [Model.apply, model, Option.map_eq_some_iff] at hap
    obtain ⟨r, hr, heq⟩ := hap
    simp only [Prod.mk.injEq] at heq
    obtain ⟨rfl, -⟩ := heq
    unfold result at hr
    split at hr
    · simp only [Option.some.injEq] at hr; obtain ⟨rfl, _⟩ := hr; exact Or.inl rfl
    · simp only [Option.some.injEq] at hr; obtain ⟨rfl, _⟩ := hr; exact Or.inl rfl
    · simp only [Option.some.injEq] at hr; obtain ⟨rfl, _⟩ := hr; exact Or.inl rfl
    · simp at hr

/-! ### The reordering bound, counted -/

/-- `y` was stored before the enqueue of `x` was invoked and is still in the queue at the instant `x` is taken. -/
def Overtaken (s : St) (x y : Nat) : Prop :=
  y ≠ x ∧ ∃ m c, s.tMark x = some m ∧ s.tCas y = some c ∧ c < s.tInv x ∧ ∀ m', s.tMark y = some m' → m < m'

theorem overtaken_same_segment {s : St} (G : Glob s) {x y : Nat} (h : Overtaken s x y) :
    s.posS y = s.posS x ∧ s.posI y ≠ s.posI x ∧ s.posI y < s.K ∧ s.tCas y ≠ none := by
  obtain ⟨hne, m, c, hm, hc, hlt, hmm⟩ := h
  have hseg := G.quasi x y m c hm hc hlt hmm
  have hsty := stored_facts G hc
  have hx1 := (G.mark_t x m hm).2
  have hx2 : s.enqCnt x = 1 := by
    rcases G.enq_le x with h0 | h1
    · have := G.enq_zero x h0; omega
    · exact h1
  have hcx := G.enq_cell x hx2
  refine ⟨hseg, ?_, hsty.2.2, by simp [hc]⟩
  intro hi
  rw [hseg, hi] at hsty
  rcases hsty.1 with h1 | h1 <;> rcases hcx with h2 | h2 <;> rw [h1] at h2 <;>
    first | (cases h2; exact hne rfl) | cases h2

/-- At most K − 1 items are overtaken by any one item ("fewer than the quasi factor"). -/
theorem overtaken_count {s : St} (G : Glob s) (x : Nat) (ys : List Nat) (hnd : ys.Nodup)
    (hys : ∀ y, y ∈ ys → Overtaken s x y) : ys.length ≤ s.K - 1 := by
  cases ys with
  | nil => simp
  | cons y0 r =>
    have h0 := overtaken_same_segment G (hys y0 (by simp))
    -- the cells of the overtaken items, plus the cell of x, are pairwise different cells of one segment
    let l := x :: y0 :: r
    have hl : (l.map s.posI).Nodup := by
      apply nodup_map_of_inj_on
      · rw [List.nodup_cons]
        refine ⟨?_, hnd⟩
        intro hx; exact (hys x hx).1 rfl
      · intro a ha b hb hab
        simp only [l, List.mem_cons] at ha hb
        have key : ∀ y, y ∈ y0 :: r → s.posS y = s.posS x ∧ s.posI y ≠ s.posI x ∧ s.posI y < s.K ∧ s.tCas y ≠ none :=
          fun y hy => overtaken_same_segment G (hys y hy)
        have inj : ∀ y z, y ∈ y0 :: r → z ∈ y0 :: r → s.posI y = s.posI z → y = z := by
          intro y z hy hz hyz
          have ky := key y hy; have kz := key z hz
          cases hcy : s.tCas y with
          | none => exact absurd hcy ky.2.2.2
          | some cy =>
            cases hcz : s.tCas z with
            | none => exact absurd hcz kz.2.2.2
            | some cz =>
              have sy := (stored_facts G hcy).1
              have sz := (stored_facts G hcz).1
              rw [ky.1, hyz] at sy; rw [kz.1] at sz
              rcases sy with h1 | h1 <;> rcases sz with h2 | h2 <;> rw [h1] at h2 <;>
                first | (cases h2; rfl) | cases h2
        rcases ha with rfl | ha <;> rcases hb with rfl | hb
        · rfl
        · exact absurd hab.symm (key b (by simpa using hb)).2.1
        · exact absurd hab (key a (by simpa using ha)).2.1
        · exact inj a b (by simpa using ha) (by simpa using hb) hab
    have hx1 : ∃ m, s.tMark x = some m := by
      obtain ⟨_, m, _, hm, _⟩ := hys y0 (by simp); exact ⟨m, hm⟩
    obtain ⟨m, hm⟩ := hx1
    have hx2 : s.enqCnt x = 1 := by
      have := (G.mark_t x m hm).2
      rcases G.enq_le x with h0 | h1
      · have := G.enq_zero x h0; omega
      · exact h1
    have hxK : s.posI x < s.K := by
      cases hcx : s.tCas x with
      | none => exact absurd hcx (G.cas_some x hx2)
      | some cx => exact (stored_facts G hcx).2.2
    have hlt : ∀ a, a ∈ l.map s.posI → a < s.K := by
      intro a ha
      rw [List.mem_map] at ha
      obtain ⟨b, hb, rfl⟩ := ha
      simp only [l, List.mem_cons] at hb
      rcases hb with rfl | hb
      · exact hxK
      · exact (overtaken_same_segment G (hys b (by simpa using hb))).2.2.1
    have := nodup_lt_length s.K (l.map s.posI) hl hlt
    simp only [l, List.length_map, List.length_cons] at this ⊢
    omega

/-! ### Executable observers for the evaluated examples -/

/-- Number of items present (stored and not yet taken) in the segments allocated so far. -/
def unmarked (s : St) : Nat :=
  ((List.range s.nseg).map (fun g => ((List.range s.K).filter (fun i =>
    match s.cell g i with
    | .item _ => true
    | _ => false)).length)).sum

/-- `unmarked` after every action of a schedule (first entry: the initial state). -/
def unmarkedTrace (s : St) : List (Tid × Act) → List Nat
  | [] => [unmarked s]
  | (t, a) :: rest =>
    match model.apply s t a with
    | none => [unmarked s]
    | some (s', _) => unmarked s :: unmarkedTrace s' rest

/-- An event as the harness prints it (`Model.render` uses `ToString Ev`, whose trimming does not evaluate in the
    kernel; every event of this machine has a non-empty first value). -/
def evStr (e : Ev) : String :=
  if e.b == "" then s!"{e.kind} {e.loc} {e.a}" else s!"{e.kind} {e.loc} {e.a} {e.b}"

/-- The trace lines of a run. -/
def renderT (os : List (Tid × Obs)) : List String :=
  os.map fun (t, o) => match o with
    | .call op => s!"T {t} C {op.name} {op.args}"
    | .ev e => s!"T {t} A {evStr e}"
    | .ret r => s!"T {t} R {r}"

end CdsVerif.Algo.Segmented

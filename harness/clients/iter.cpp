// C19: thread-safe iterators of IterableList, of the hash sets built on it (MichaelHashSet, SplitListSet)
// and of FeldmanHashSet / FeldmanHashMap (forward and reverse), and erase_at( iterator ).
//
// Thread 0 is the iterating thread.  Its single operation `iterate [pos...]` walks the container from
// begin() to end() (rbegin() to rend()) with the thread-safe iterator and records, for every position,
//   ( tick at arrival, key, payload = item identity, "disposed" flag of the element read through the iterator
//     at arrival and again just before the iterator is advanced ).
// Between arrival and departure the thread passes two scheduling points (loads of a dummy atomic), so the
// other threads can erase the current element and run a GC scan while it is the current element.
// At the visited positions listed in the arguments it calls erase_at( it ) and records the result.
// The other 1..3 threads run insert / erase / update (replace) / find / contains on 3..6 keys; every operation
// records its own tick()s (taken immediately around the library call) and its result in a client-side log.
// After every updating operation (and after every erase_at) the calling thread forces a GC scan
// (HP::scan() / DHP::scan(), executed as one atomic step: set_quiet) so that retired elements are disposed
// promptly instead of after 100+ retirements.  The constructor pre-fills the container (main thread); these
// elements are "present from the start" (timestamps -1).
//
// Element identity.  Every element put into a container carries a payload that is unique in the case
// (program operations: 1, 2, 3...; pre-filled elements: 1000 + key); an element is never re-inserted.
//   intrusive variants: the items are client-owned, carry a `disposed` flag set by the disposer and are never
//                       freed while the process runs;
//   container variants: the item allocator of the traits is replaced by pool_alloc: deallocate() only marks the
//                       block dead (the memory is released when the case is over), "disposed" = the block
//                       the iterator's element lies in has been deallocated.
//
// spec() is "none": finish() judges the case itself and raises `X <class> variant=<v> ...` lines:
//   disposed-current   the element the iterator points to was disposed while it was the current element
//   missed-element     an element present THROUGHOUT the iteration was not yielded.  Conservative: the operation that
//                      added it completed before the iteration began and NO successful erase / replacing update /
//                      erase_at of its key that ended after the addition was invoked was invoked before the iteration ended
//   duplicate-element  (IterableList and the hash sets over it) an element present throughout yielded twice
//   order              (IterableList) keys of the yielded elements that were present throughout not strictly increasing
//   phantom            a yielded element that was never added, or whose addition was invoked after it was yielded, or
//                      whose removal had completed before the iterator step that yielded it began
//   erase-at-true-but-present   erase_at returned true but the element is found afterwards (by a find invoked
//                      after erase_at returned, by the final sweep, or it is removed again by a later operation)
//   erase-at-removed-other      erase_at returned true for an element that an overlapping / preceding operation also
//                      removed (each element can be removed once: erase_at removed something else, or nothing)
//   erase-at-false-but-untouched  erase_at returned false but no operation invoked before erase_at returned has
//                      removed or replaced that element
//   final-content      the final sequential sweep ( find of every key, and a sequential iteration ) disagrees with
//                      the logs: for every key, { elements added } minus { elements removed } must be exactly the
//                      element found at the end; nothing is removed twice
//   runaway            the iteration did not reach end() within c_max_visits positions
//
// Options: --hints 0 (no spin hints), --fshift N --fmod N (Feldman hash = key << N | key % fmod), --scan 0 (no forced scans),
//          --dwell N (scheduling points between arrival and departure, default 2).
#include <cds/init.h>
#include <cds/gc/hp.h>
#include <cds/gc/dhp.h>
#include <cds/intrusive/iterable_list_hp.h>
#include <cds/intrusive/iterable_list_dhp.h>
#include <cds/container/iterable_list_hp.h>
#include <cds/container/michael_set.h>
#include <cds/container/split_list_set.h>
#include <cds/intrusive/feldman_hashset_hp.h>
#include <cds/container/feldman_hashset_hp.h>
#include <cds/container/feldman_hashmap_hp.h>
#include <algorithm>
#include <map>
#include <memory>
#include <set>
#include "../client.h"

using namespace khizmax_libcds_verif;
namespace ci = cds::intrusive;
namespace cc = cds::container;

// ---------------------------------------------------------------- spin hints (see list.cpp)

static bool g_hints = true;
static thread_local unsigned tls_cmp_count = 0;
static constexpr unsigned c_spin_limit = 200;
static inline void cmp_tick()
{
    if ( ++tls_cmp_count > c_spin_limit && g_hints )
        spin_hint();
}
static inline void retry_tick()
{
    if ( g_hints )
        spin_hint();
}
struct hint_stat : ci::iterable_list::empty_stat {
    void onInsertRetry() const { retry_tick(); }
    void onUpdateRetry() const { retry_tick(); }
};

// a scheduling point that touches nothing of the library
static khizmax_libcds_verif::atomics::atomic<int> g_dwell_var( 0 );
static int g_dwell = 2;
static inline void dwell()
{
    for ( int i = 0; i < g_dwell; ++i )
        (void) g_dwell_var.load();
}

// ---------------------------------------------------------------- tie A (variant ilist_hp): names and markers for the replay
// (Lean machine Algo/Iterable, `cdsdriver replay iterable`, pre-pass tools/iterable_pre.py)
//   nodes:    the node allocator below names the words of every list node in allocation order: `n<i>` (next) and
//             `n<i>.data`, i = 3, 4, ... (1 and 2 are the list's own head and tail: `h`, `h.data`, `t`, `t.data`)
//   elements: `e<payload>`
//   it.hp:    the hazard slot of the iterating thread's iterator (the first guard thread 0 allocates)
//   markers:  `T 0 I <what>` notes delimit the sub-operations of `iterate` (begin / end() / visit / erase_at / ++ / done);
//             `T <tid> D <payload>`: the disposer ran on this element (inside a forced scan)
// Only names and notes: no effect on schedules, results or the trace hash of any variant.
static bool g_tieA = false;
static size_t g_node_seq = 3;
static inline void imark( std::string const& s )
{
    if ( g_tieA )
        ev_note( s );
}
template <typename T>
struct naming_alloc {
    typedef T value_type;
    naming_alloc() noexcept {}
    template <typename U> naming_alloc( naming_alloc<U> const& ) noexcept {}
    T* allocate( size_t n, void const* = nullptr )
    {
        T* p = std::allocator<T>().allocate( n );
        char nm[32];
        std::snprintf( nm, sizeof nm, "n%zu", g_node_seq++ );
        reg_name( p, 8, nm );                                                        // node::next
        reg_name( reinterpret_cast<char*>( p ) + 8, 8, std::string( nm ) + ".data" );  // node::data
        return p;
    }
    void deallocate( T* p, size_t n ) noexcept { std::allocator<T>().deallocate( p, n ); }
    template <typename U> struct rebind { typedef naming_alloc<U> other; };
    template <typename U> bool operator==( naming_alloc<U> const& ) const noexcept { return true; }
    template <typename U> bool operator!=( naming_alloc<U> const& ) const noexcept { return false; }
};

// ---------------------------------------------------------------- deferred-free allocator for the container variants

struct PoolBlock { size_t size; bool dead; };
static std::map<char const*, PoolBlock> g_pool;

static void* pool_get( size_t n )
{
    if ( n == 0 ) n = 1;
    char* p = static_cast<char*>( ::operator new( n ));
    g_pool[p] = PoolBlock{ n, false };
    return p;
}
static void pool_put( void* p )
{
    auto it = g_pool.find( static_cast<char const*>( p ));
    if ( it == g_pool.end() || it->second.dead ) {
        std::fprintf( stderr, "pool_alloc: deallocation of an unknown or dead block\n" );
        std::abort();
    }
    it->second.dead = true;
}
// has the block this address lies in been deallocated?  (not in any block = released after an earlier case = dead)
static bool pool_dead( void const* a )
{
    char const* p = static_cast<char const*>( a );
    auto it = g_pool.upper_bound( p );
    if ( it == g_pool.begin())
        return true;
    --it;
    if ( p >= it->first + it->second.size )
        return true;
    return it->second.dead;
}
static void pool_flush()
{
    for ( auto it = g_pool.begin(); it != g_pool.end(); ) {
        if ( it->second.dead ) {
            ::operator delete( const_cast<char*>( it->first ));
            it = g_pool.erase( it );
        }
        else
            ++it;
    }
}

template <typename T>
struct pool_alloc {
    typedef T value_type;
    pool_alloc() noexcept {}
    template <typename U> pool_alloc( pool_alloc<U> const& ) noexcept {}
    T* allocate( size_t n ) { return static_cast<T*>( pool_get( n * sizeof( T ))); }
    void deallocate( T* p, size_t ) noexcept { pool_put( p ); }
    template <typename U> struct rebind { typedef pool_alloc<U> other; };
    template <typename U> bool operator==( pool_alloc<U> const& ) const noexcept { return true; }
    template <typename U> bool operator!=( pool_alloc<U> const& ) const noexcept { return false; }
};

// ---------------------------------------------------------------- value types and predicates

struct kv {
    long key; long val;
    kv() : key( 0 ), val( 0 ) {}
    kv( long k, long v ) : key( k ), val( v ) {}
};
struct item {           // intrusive IterableList item (no hook needed)
    long key; long val; bool disposed;
};

// Feldman: hash = key << shift | key % mod.  The splitter cuts from the least significant bit: the low nibble
// selects the head slot (head bits = 4), the following bit pairs the slots of the array nodes (array bits = 2).
// All keys with the same `key % mod` share the head slot and (shift - 4) / 2 further levels, so that inserting a key
// while another key of the same class is in the set expands a data slot into a chain of array nodes.
static unsigned g_fshift = 0;
static unsigned g_fmod = 1;
static inline size_t fhash_of( long k ) { return ( size_t( k ) << g_fshift ) | size_t( k % long( g_fmod )); }
struct feldman_hash { size_t operator()( long k ) const { return fhash_of( k ); } };

struct fitem {
    size_t hash; long key; long val; bool disposed;
    fitem() : hash( 0 ), key( 0 ), val( 0 ), disposed( false ) {}
    fitem( long k, long v ) : hash( fhash_of( k )), key( k ), val( v ), disposed( false ) {}
};
struct fitem_hash_accessor { size_t const& operator()( fitem const& i ) const { return i.hash; } };

struct key_of {
    template <class T> static long k( T const& t ) { return t.key; }
    static long k( long x ) { return x; }
};
struct key_less {
    template <class A, class B> bool operator()( A const& a, B const& b ) const { cmp_tick(); return key_of::k( a ) < key_of::k( b ); }
};
struct bad_hash {       // MichaelHashSet: 2 buckets
    template <class T> size_t operator()( T const& v ) const { return size_t( key_of::k( v )) % 2; }
};
struct ident_hash {     // SplitListSet: bucket = key mod bucket count
    template <class T> size_t operator()( T const& v ) const { return size_t( key_of::k( v )); }
};
struct flag_disposer {
    template <class T> void operator()( T* p ) const
    {
        p->disposed = true;
        if ( g_tieA && current_tid() >= 0 )
            ev_note( "D " + std::to_string( p->val ));
    }
};

// client-owned intrusive items: never freed (an element retired in one case may be disposed in a later one)
template <class Item>
struct NodePool {
    static std::vector<std::unique_ptr<Item>>& all() { static std::vector<std::unique_ptr<Item>> v; return v; }
    static Item* make( long k, long v, char const* prefix = "n" )
    {
        all().emplace_back( new Item );
        Item* p = all().back().get();
        p->key = k; p->val = v; p->disposed = false;
        char nm[32];
        std::snprintf( nm, sizeof nm, "%s%ld", prefix, v );
        reg_name( p, sizeof( Item ), nm );
        return p;
    }
};
static fitem* make_fitem( long k, long v )
{
    fitem* p = NodePool<fitem>::make( k, v );
    p->hash = fhash_of( k );
    return p;
}

// ---------------------------------------------------------------- the iterating thread

struct Visit {
    long t_arrive, t_leave;
    long key, id;
    bool d_arrive, d_leave;
    int ea;                 // -1: no erase_at here, 0 / 1: its result
    long ea_inv, ea_res;
};
struct IterLog {
    std::vector<long> erase_pos;
    long t_begin = 0, t_end = 0;
    bool ran = false, runaway = false;
    std::vector<Visit> v;
};
static constexpr size_t c_max_visits = 200;

struct acc_item {
    template <class It> static long key( It const& it ) { return it->key; }
    template <class It> static long id( It const& it ) { return it->val; }
    template <class It> static bool disposed( It const& it ) { return it->disposed; }
};
struct acc_kv {
    template <class It> static long key( It const& it ) { return it->key; }
    template <class It> static long id( It const& it ) { return it->val; }
    template <class It> static bool disposed( It const& it ) { return pool_dead( &*it ); }
};
struct acc_pair {
    template <class It> static long key( It const& it ) { return it->first; }
    template <class It> static long id( It const& it ) { return it->second; }
    template <class It> static bool disposed( It const& it ) { return pool_dead( &*it ); }
};
struct dir_fwd {
    template <class C> static auto b( C& c ) -> decltype( c.begin()) { return c.begin(); }
    template <class C> static auto e( C& c ) -> decltype( c.end()) { return c.end(); }
};
struct dir_rev {
    template <class C> static auto b( C& c ) -> decltype( c.rbegin()) { return c.rbegin(); }
    template <class C> static auto e( C& c ) -> decltype( c.rend()) { return c.rend(); }
};

template <class Dir, class Acc, class C, class Scan>
static void do_walk( C& c, IterLog& L, Scan scan )
{
    L.ran = true;
    L.t_begin = long( tick());
    {
        imark( "I begin" );
        auto it = Dir::b( c );
        imark( "I endctor" );
        auto e = Dir::e( c );
        imark( "I ready" );
        size_t n = 0;
        while ( it != e ) {
            Visit v;
            v.t_arrive = long( tick());
            v.key = Acc::key( it );
            v.id = Acc::id( it );
            v.d_arrive = Acc::disposed( it );
            v.ea = -1; v.ea_inv = v.ea_res = 0;
            if ( g_tieA ) imark( "I visit " + std::to_string( v.id ));
            dwell();
            if ( std::find( L.erase_pos.begin(), L.erase_pos.end(), long( n )) != L.erase_pos.end()) {
                v.ea_inv = long( tick());
                imark( "I erase_at" );
                bool r = c.erase_at( it );
                imark( r ? "I erase_at_ret 1" : "I erase_at_ret 0" );
                v.ea_res = long( tick());
                v.ea = r ? 1 : 0;
                // the erased element is guarded by the iterator: a scan must not dispose it while it is current
                scan();
                dwell();
            }
            v.d_leave = Acc::disposed( it );
            v.t_leave = long( tick());
            L.v.push_back( v );
            if ( ++n >= c_max_visits ) { L.runaway = true; break; }
            imark( "I next" );
            ++it;
        }
        imark( "I done" );
    }
    L.t_end = long( tick());
}

// ---------------------------------------------------------------- container adapters

struct ICont {
    bool ordered = false;       // iteration in increasing key order is promised
    bool once = true;           // "exactly once" ( false: "at least once" )
    virtual ~ICont() {}
    virtual bool insert( long k, long id ) = 0;
    // replaced = payload of the element that was replaced (when second == false)
    virtual std::pair<bool, bool> update( long k, long id, bool allow, long& replaced ) = 0;
    virtual bool erase( long k, long& id ) = 0;
    virtual bool find( long k, long& id ) = 0;
    virtual bool contains( long k ) = 0;
    virtual void iterate( IterLog& L ) = 0;
    virtual void scan() = 0;
    virtual std::string info() { return std::string(); }
};

template <class GC>
static void gc_scan()
{
    set_quiet( true );
    GC::scan();
    set_quiet( false );
}
static bool g_scan = true;

// intrusive IterableList
template <class GC>
struct IntrList : ICont {
    struct traits : ci::iterable_list::traits {
        typedef key_less less;
        typedef flag_disposer disposer;
        typedef hint_stat stat;
        typedef cds::atomicity::item_counter item_counter;
        typedef naming_alloc<int> node_allocator;       // std::allocator + names (tie A)
    };
    typedef ci::IterableList<GC, item, traits> list_t;
    std::unique_ptr<list_t> l;
    IntrList() : l( new list_t )
    {
        ordered = true;
        g_node_seq = 3;
        reg_name( &l->m_Head.next, sizeof( l->m_Head.next ), "h" );
        reg_name( &l->m_Head.data, sizeof( l->m_Head.data ), "h.data" );
        reg_name( &l->m_Tail.next, sizeof( l->m_Tail.next ), "t" );
        reg_name( &l->m_Tail.data, sizeof( l->m_Tail.data ), "t.data" );
    }
    ~IntrList()
    {
        l.reset();
        GC::force_dispose();
    }
    bool insert( long k, long id ) override { return l->insert( *NodePool<item>::make( k, id, "e" )); }
    std::pair<bool, bool> update( long k, long id, bool allow, long& replaced ) override
    {
        return l->update( *NodePool<item>::make( k, id, "e" ), [&replaced]( item&, item* old ) { if ( old ) replaced = old->val; }, allow );
    }
    bool erase( long k, long& id ) override { return l->erase( k, [&id]( item const& i ) { id = i.val; } ); }
    bool find( long k, long& id ) override { return l->find( k, [&id]( item& i, long const& ) { id = i.val; } ); }
    bool contains( long k ) override { return l->contains( k ); }
    void scan() override { if ( g_scan ) gc_scan<GC>(); }
    void iterate( IterLog& L ) override { do_walk<dir_fwd, acc_item>( *l, L, [this] { scan(); } ); }
};

// container IterableList, MichaelHashSet / SplitListSet over IterableList: same interface
struct il_traits : cc::iterable_list::traits {
    typedef key_less less;
    typedef hint_stat stat;
    typedef pool_alloc<int> allocator;
};
struct mset_traits : cc::michael_set::traits {
    typedef bad_hash hash;
    typedef cds::atomicity::item_counter item_counter;
};
struct sset_traits : cc::split_list::traits {
    typedef cc::iterable_list_tag ordered_list;
    typedef ident_hash hash;
    typedef il_traits ordered_list_traits;
    typedef cds::atomicity::item_counter item_counter;
};

template <class C>
struct SetLike : ICont {
    typedef cds::gc::HP GC;
    std::unique_ptr<C> c;
    std::function<std::string()> infofn;
    template <class... A> explicit SetLike( A&&... a ) : c( new C( std::forward<A>( a )... )) {}
    ~SetLike()
    {
        c.reset();
        GC::force_dispose();
    }
    bool insert( long k, long id ) override { return c->insert( kv( k, id )); }
    std::pair<bool, bool> update( long k, long id, bool allow, long& replaced ) override
    {
        return c->update( kv( k, id ), [&replaced]( kv&, kv* old ) { if ( old ) replaced = old->val; }, allow );
    }
    bool erase( long k, long& id ) override { return c->erase( kv( k, 0 ), [&id]( kv const& i ) { id = i.val; } ); }
    bool find( long k, long& id ) override
    {
        kv q( k, 0 );
        return c->find( q, [&id]( kv& i, kv const& ) { id = i.val; } );
    }
    bool contains( long k ) override { return c->contains( kv( k, 0 )); }
    void scan() override { if ( g_scan ) gc_scan<GC>(); }
    void iterate( IterLog& L ) override { do_walk<dir_fwd, acc_kv>( *c, L, [this] { scan(); } ); }
    std::string info() override { return infofn ? infofn() : std::string(); }
};

typedef cc::IterableList<cds::gc::HP, kv, il_traits> clist_t;
typedef cc::MichaelHashSet<cds::gc::HP, clist_t, mset_traits> mset_t;
typedef cc::SplitListSet<cds::gc::HP, kv, sset_traits> sset_t;

// Feldman
template <class S>
static std::string feldman_levels( S const& s )
{
    std::vector<ci::feldman_hashset::level_statistics> st;
    s.get_level_statistics( st );
    size_t arrays = 0;
    for ( auto const& l : st ) arrays += l.array_node_count;
    return "height=" + std::to_string( st.size()) + " array_nodes=" + std::to_string( arrays );
}

struct ifset_traits : ci::feldman_hashset::traits {
    typedef fitem_hash_accessor hash_accessor;
    typedef flag_disposer disposer;
    typedef cds::atomicity::item_counter item_counter;
};
struct cfset_traits : cc::feldman_hashset::traits {
    typedef fitem_hash_accessor hash_accessor;
    typedef pool_alloc<int> allocator;
    typedef cds::atomicity::item_counter item_counter;
};
struct cfmap_traits : cc::feldman_hashmap::traits {
    typedef feldman_hash hash;
    typedef pool_alloc<int> allocator;
    typedef cds::atomicity::item_counter item_counter;
};

template <class Dir>
struct IntrFeldman : ICont {
    typedef cds::gc::HP GC;
    typedef ci::FeldmanHashSet<GC, fitem, ifset_traits> set_t;
    std::unique_ptr<set_t> s;
    IntrFeldman( size_t head_bits, size_t array_bits ) : s( new set_t( head_bits, array_bits )) { once = false; }
    ~IntrFeldman()
    {
        s.reset();
        GC::force_dispose();
    }
    bool insert( long k, long id ) override { return s->insert( *make_fitem( k, id )); }
    std::pair<bool, bool> update( long k, long id, bool allow, long& replaced ) override
    {
        // the public update( val, bInsert ) is do_update( val, []( value_type&, value_type* ) {}, bInsert ): the same call with
        // a functor that notes which element has been replaced
        return s->do_update( *make_fitem( k, id ), [&replaced]( fitem&, fitem* old ) { if ( old ) replaced = old->val; }, allow );
    }
    bool erase( long k, long& id ) override { return s->erase( fhash_of( k ), [&id]( fitem const& i ) { id = i.val; } ); }
    bool find( long k, long& id ) override { return s->find( fhash_of( k ), [&id]( fitem& i ) { id = i.val; } ); }
    bool contains( long k ) override { return s->contains( fhash_of( k )); }
    void scan() override { if ( g_scan ) gc_scan<GC>(); }
    void iterate( IterLog& L ) override { do_walk<Dir, acc_item>( *s, L, [this] { scan(); } ); }
    std::string info() override { return feldman_levels( *s ); }
};

struct ContFeldmanSet : ICont {
    typedef cds::gc::HP GC;
    typedef cc::FeldmanHashSet<GC, fitem, cfset_traits> set_t;
    std::unique_ptr<set_t> s;
    ContFeldmanSet( size_t head_bits, size_t array_bits ) : s( new set_t( head_bits, array_bits )) { once = false; }
    ~ContFeldmanSet()
    {
        s.reset();
        GC::force_dispose();
    }
    bool insert( long k, long id ) override { return s->insert( fitem( k, id )); }
    std::pair<bool, bool> update( long k, long id, bool allow, long& replaced ) override
    {
        return s->update( fitem( k, id ), [&replaced]( fitem&, fitem* old ) { if ( old ) replaced = old->val; }, allow );
    }
    bool erase( long k, long& id ) override { return s->erase( fhash_of( k ), [&id]( fitem const& i ) { id = i.val; } ); }
    bool find( long k, long& id ) override { return s->find( fhash_of( k ), [&id]( fitem& i ) { id = i.val; } ); }
    bool contains( long k ) override { return s->contains( fhash_of( k )); }
    void scan() override { if ( g_scan ) gc_scan<GC>(); }
    void iterate( IterLog& L ) override { do_walk<dir_fwd, acc_kv>( *s, L, [this] { scan(); } ); }
    std::string info() override { return "set " + feldman_levels( *s ); }
};

struct ContFeldmanMap : ICont {
    typedef cds::gc::HP GC;
    typedef cc::FeldmanHashMap<GC, long, long, cfmap_traits> map_t;
    typedef map_t::value_type value_type;
    std::unique_ptr<map_t> m;
    ContFeldmanMap( size_t head_bits, size_t array_bits ) : m( new map_t( head_bits, array_bits )) { once = false; }
    ~ContFeldmanMap()
    {
        m.reset();
        GC::force_dispose();
    }
    bool insert( long k, long id ) override { return m->insert( k, id ); }
    std::pair<bool, bool> update( long k, long id, bool allow, long& replaced ) override
    {
        // the functor runs right after the CAS that publishes the node, before the next atomic operation (= scheduling
        // point) of this thread, so no other thread of the harness can see the default-constructed mapped value
        return m->update( k, [&replaced, id]( value_type& i, value_type* old ) { i.second = id; if ( old ) replaced = old->second; }, allow );
    }
    bool erase( long k, long& id ) override { return m->erase( k, [&id]( value_type& i ) { id = i.second; } ); }
    bool find( long k, long& id ) override { return m->find( k, [&id]( value_type& i ) { id = i.second; } ); }
    bool contains( long k ) override { return m->contains( k ); }
    void scan() override { if ( g_scan ) gc_scan<GC>(); }
    void iterate( IterLog& L ) override { do_walk<dir_fwd, acc_pair>( *m, L, [this] { scan(); } ); }
    std::string info() override { return "map " + feldman_levels( *m ); }
};

// ---------------------------------------------------------------- fixture

struct Fixture {
    static char const* family() { return "iter"; }
    static std::vector<std::string> variants()
    {
        return { "ilist_hp", "ilist_dhp", "list_hp", "mset_iter_hp", "sset_iter_hp", "feldman_fwd", "feldman_rev", "cfeldman_fwd" };
    }

    struct Add { long id, key, inv, res; int tid; char const* how; };
    struct Rem { long id, key, inv, res; int tid; char const* how; };
    struct Obs { long key, id, inv, res; int tid; bool found; };      // id = -1: contains()

    std::unique_ptr<ICont> c;
    std::string variant;
    bool failed = false;
    std::string failure;
    std::vector<std::string> more;
    long nkeys = 3;
    std::vector<long> prefilled;
    std::string cfg;

    std::vector<Add> adds;
    std::vector<Rem> rems;
    std::vector<Obs> obss;
    IterLog it;

    void raise( std::string const& cls, std::string const& msg )
    {
        std::string s = cls + " variant=" + variant + " " + msg;
        if ( !failed ) { failed = true; failure = s; }
        else more.push_back( s );
    }

    explicit Fixture( Case const& cs )
    {
        typedef cds::gc::HP HP;
        typedef cds::gc::DHP DHP;
        std::string const& v = cs.variant;
        variant = v;
        g_hints = cs.optl( "hints", 1 ) != 0;
        g_scan = cs.optl( "scan", 1 ) != 0;
        g_dwell = int( cs.optl( "dwell", 2 ));
        g_tieA = ( v == "ilist_hp" );

        // configuration that both instances of the fixture (program generation, run) derive from the case alone
        Rng r( cs.seed * 6364136223846793005ull + cs.index * 1442695040888963407ull + 99 );
        r.next();
        nkeys = 3 + long( r.below( 4 ));
        uint64_t fsel = r.below( 8 ), msel = r.below( 3 ), ssel = r.below( 3 );

        if ( v == "ilist_hp" ) c.reset( new IntrList<HP> );
        else if ( v == "ilist_dhp" ) c.reset( new IntrList<DHP> );
        else if ( v == "list_hp" ) { c.reset( new SetLike<clist_t> ); c->ordered = true; }
        else if ( v == "mset_iter_hp" ) c.reset( new SetLike<mset_t>( 2, 1 ));      // 2 buckets, hash = key % 2
        else if ( v == "sset_iter_hp" ) {
            static size_t const caps[] = { 2, 4, 8 };
            auto* a = new SetLike<sset_t>( caps[ssel], 1 );       // load factor 1: the bucket table grows while the program runs
            c.reset( a );
            cfg = " items_arg=" + std::to_string( caps[ssel] );
            a->infofn = [a] { return "buckets=" + std::to_string( size_t( 1 ) << a->c->m_nBucketCountLog2.load()) + " of " + std::to_string( a->c->m_Buckets.capacity()); };
        }
        else if ( v == "feldman_fwd" || v == "feldman_rev" || v == "cfeldman_fwd" ) {
            static unsigned const shifts[] = { 4, 6, 6, 8, 12, 20, 56, 56 };
            g_fshift = unsigned( cs.optl( "fshift", long( shifts[fsel] )));
            g_fmod = unsigned( cs.optl( "fmod", long( 1 + msel )));
            if ( g_fmod < 1 ) g_fmod = 1;
            cfg = " fshift=" + std::to_string( g_fshift ) + " fmod=" + std::to_string( g_fmod );
            size_t head = 4, arr = 2;       // the minimum values
            if ( v == "feldman_fwd" ) c.reset( new IntrFeldman<dir_fwd>( head, arr ));
            else if ( v == "feldman_rev" ) c.reset( new IntrFeldman<dir_rev>( head, arr ));
            else if ( cs.index % 2 == 0 ) c.reset( new ContFeldmanSet( head, arr ));
            else c.reset( new ContFeldmanMap( head, arr ));
        }
        else { std::fprintf( stderr, "unknown variant %s\n", v.c_str()); std::exit( 2 ); }

        // initial content: each key with probability 1/2 (at least one)
        for ( long k = 0; k < nkeys; ++k )
            if ( r.chance( 50 )) prefilled.push_back( k );
        if ( prefilled.empty()) prefilled.push_back( long( r.below( nkeys )));
        for ( long k : prefilled ) {
            long id = 1000 + k;
            if ( c->insert( k, id ))
                adds.push_back( Add{ id, k, -1, -1, -1, "prefill" } );
            else
                raise( "final-content", "prefill insert of key " + std::to_string( k ) + " failed" );
        }
        cfg += " nkeys=" + std::to_string( nkeys ) + " prefill=";
        for ( size_t i = 0; i < prefilled.size(); ++i ) cfg += ( i ? "," : "" ) + std::to_string( prefilled[i] );
        if ( !c->info().empty()) cfg += " before: " + c->info();
    }
    ~Fixture()
    {
        c.reset();
        pool_flush();
    }
    std::string spec() const { return "none"; }
    std::string header_extra() const
    {
        // tie A: the pre-filled keys, from which the Lean machine builds its initial state
        if ( variant != "ilist_hp" ) return std::string();
        std::string s = "prefill=";
        for ( size_t i = 0; i < prefilled.size(); ++i ) s += ( i ? "," : "" ) + std::to_string( prefilled[i] );
        return s;
    }

    std::vector<std::vector<Op>> program( Rng& r, int nthreads, int nops )
    {
        std::vector<std::vector<Op>> p( nthreads );
        // thread 0: the iterator.  ~25%: erase_at at one visited position (a third of them: at two positions)
        Op itop( "iterate" );
        if ( r.chance( 25 )) {
            long a = long( r.below( 4 ));
            itop.args.push_back( a );
            if ( r.chance( 33 )) itop.args.push_back( a + 1 + long( r.below( 2 )));
        }
        p[0].push_back( itop );
        long v = 1;
        unsigned w_ins = 25 + unsigned( r.below( 25 ));
        unsigned w_era = 20 + unsigned( r.below( 25 ));
        unsigned w_upd = 10 + unsigned( r.below( 20 ));
        unsigned w_fnd = 5 + unsigned( r.below( 10 ));
        unsigned w_con = 3 + unsigned( r.below( 5 ));
        unsigned total = w_ins + w_era + w_upd + w_fnd + w_con;
        for ( int t = 1; t < nthreads; ++t ) {
            int n = 1 + int( r.below( nops ));
            for ( int i = 0; i < n; ++i ) {
                long k = long( r.below( nkeys ));
                unsigned x = unsigned( r.below( total ));
                if ( x < w_ins ) { p[t].push_back( Op( "insert", k, v++ )); continue; }
                x -= w_ins;
                if ( x < w_era ) { p[t].push_back( Op( "erase", k )); continue; }
                x -= w_era;
                if ( x < w_upd ) { p[t].push_back( Op( "update", k, v++, r.chance( 60 ) ? 1 : 0 )); continue; }
                x -= w_upd;
                if ( x < w_fnd ) { p[t].push_back( Op( "find", k )); continue; }
                p[t].push_back( Op( "contains", k ));
            }
        }
        return p;
    }
    void thread_begin( int tid )
    {
        set_quiet( true ); cds::threading::Manager::attachThread(); set_quiet( false );
        if ( g_tieA && tid == 0 ) {
            // the iterating thread: its next free hazard slot will be the guard of the iterator `it` of do_walk
            auto* g = cds::gc::HP::hp_implementation::tls()->hazards_.free_head_;
            if ( g ) reg_name( &g->hp_, sizeof( g->hp_ ), "it.hp" );
        }
    }
    void thread_end( int ) { set_quiet( true ); cds::threading::Manager::detachThread(); set_quiet( false ); }

    std::vector<long> exec( int tid, Op const& op )
    {
        std::string const& n = op.name;
        tls_cmp_count = 0;
        if ( n == "iterate" ) {
            it.erase_pos = op.args;
            c->iterate( it );
            std::vector<long> ret;
            ret.push_back( long( it.v.size()));
            for ( Visit const& v : it.v ) {
                ret.push_back( v.id );
                if ( v.ea >= 0 ) ret.push_back( v.ea ? -1 : -2 );     // -1: erase_at true, -2: erase_at false
            }
            return ret;
        }
        long k = op.args[0];
        if ( n == "insert" ) {
            long id = op.args[1];
            long t0 = long( tick());
            bool ok = c->insert( k, id );
            long t1 = long( tick());
            if ( ok ) adds.push_back( Add{ id, k, t0, t1, tid, "insert" } );
            c->scan();
            return { ok ? 1L : 0L };
        }
        if ( n == "update" ) {
            long id = op.args[1], replaced = 0;
            long t0 = long( tick());
            std::pair<bool, bool> r = c->update( k, id, op.args[2] != 0, replaced );
            long t1 = long( tick());
            if ( r.first ) {
                adds.push_back( Add{ id, k, t0, t1, tid, "update" } );
                if ( !r.second )
                    rems.push_back( Rem{ replaced, k, t0, t1, tid, "update" } );      // replaced == 0: functor not called (judged in finish)
            }
            c->scan();
            return { r.first ? 1L : 0L, r.second ? 1L : 0L, replaced };
        }
        if ( n == "erase" ) {
            long id = 0;
            long t0 = long( tick());
            bool ok = c->erase( k, id );
            long t1 = long( tick());
            if ( ok ) rems.push_back( Rem{ id, k, t0, t1, tid, "erase" } );
            c->scan();
            if ( ok ) return { 1, id };
            return { 0 };
        }
        if ( n == "find" ) {
            long id = 0;
            long t0 = long( tick());
            bool ok = c->find( k, id );
            long t1 = long( tick());
            obss.push_back( Obs{ k, ok ? id : 0, t0, t1, tid, ok } );
            if ( ok ) return { 1, id };
            return { 0 };
        }
        if ( n == "contains" ) {
            long t0 = long( tick());
            bool ok = c->contains( k );
            long t1 = long( tick());
            obss.push_back( Obs{ k, -1, t0, t1, tid, ok } );
            return { ok ? 1L : 0L };
        }
        std::fprintf( stderr, "unknown op %s\n", n.c_str());
        std::exit( 2 );
    }

    static std::string iv( long a, long b ) { return "[" + std::to_string( a ) + "," + std::to_string( b ) + "]"; }

    void finish( std::ostream& out )
    {
        // ---- the iterator's own erase_at results are removals
        for ( Visit const& v : it.v )
            if ( v.ea == 1 )
                rems.push_back( Rem{ v.id, v.key, v.ea_inv, v.ea_res, 0, "erase_at" } );

        // ---- final sequential sweep (main thread): find of every key, then a sequential iteration
        std::map<long, long> final_find;        // key -> id
        for ( long k = 0; k < nkeys; ++k ) {
            long id = 0;
            bool f = c->find( k, id );
            bool cn = c->contains( k );
            if ( f != cn )
                raise( "final-content", "final find(" + std::to_string( k ) + ")=" + std::to_string( f ) + " but contains=" + std::to_string( cn ));
            if ( f ) final_find[k] = id;
        }
        IterLog sweep;
        c->iterate( sweep );
        {
            std::map<long, long> by_iter;
            bool dup = false;
            for ( Visit const& v : sweep.v )
                if ( !by_iter.insert( { v.key, v.id } ).second ) dup = true;
            if ( dup || by_iter != final_find || sweep.runaway ) {
                std::ostringstream os;
                os << "sequential iteration after the run yields";
                for ( Visit const& v : sweep.v ) os << ' ' << v.key << ':' << v.id;
                os << " but find() of every key gives";
                for ( auto const& e : final_find ) os << ' ' << e.first << ':' << e.second;
                raise( "final-content", os.str());
            }
            if ( c->ordered )
                for ( size_t i = 1; i < sweep.v.size(); ++i )
                    if ( !( sweep.v[i - 1].key < sweep.v[i].key )) {
                        raise( "final-content", "sequential iteration after the run is not in increasing key order" );
                        break;
                    }
            for ( Visit const& v : sweep.v )
                if ( v.d_arrive || v.d_leave )
                    raise( "disposed-current", "sequential iteration after the run: element " + std::to_string( v.key ) + ":" + std::to_string( v.id ) + " is disposed" );
        }

        out << "# iter" << cfg;
        if ( !c->info().empty()) out << " after: " << c->info();
        out << " visits=";
        for ( Visit const& v : it.v ) {
            out << ' ' << v.key << ':' << v.id << '@' << v.t_arrive;
            if ( v.ea >= 0 ) out << ( v.ea ? "(erase_at=1)" : "(erase_at=0)" );
        }
        out << " span=" << iv( it.t_begin, it.t_end ) << " final=";
        for ( auto const& e : final_find ) out << ' ' << e.first << ':' << e.second;
        out << '\n';

        // ---- indexes
        std::map<long, Add const*> add_of;                      // id -> add
        for ( Add const& a : adds )
            if ( !add_of.insert( { a.id, &a } ).second )
                raise( "final-content", "client error: payload " + std::to_string( a.id ) + " added twice" );
        std::multimap<long, Rem const*> rem_of;                 // id -> removals
        for ( Rem const& r : rems )
            rem_of.insert( { r.id, &r } );

        // ---- conservation: per key, { added } minus { removed } is exactly what is found at the end
        for ( Rem const& r : rems ) {
            auto a = add_of.find( r.id );
            if ( a == add_of.end() || a->second->key != r.key ) {
                std::ostringstream os;
                os << r.how << " of key " << r.key << " at " << iv( r.inv, r.res ) << " by thread " << r.tid << " removed element "
                   << r.id << " that was never added under this key";
                raise( "final-content", os.str());
            }
        }
        for ( auto i = rem_of.begin(); i != rem_of.end(); ) {
            auto j = rem_of.upper_bound( i->first );
            size_t n = size_t( std::distance( i, j ));
            if ( n > 1 && add_of.count( i->first )) {
                // removed more than once.  Involving erase_at: judged below (erase-at-*); otherwise final-content
                bool ea = false;
                for ( auto k = i; k != j; ++k ) if ( std::string( k->second->how ) == "erase_at" ) ea = true;
                if ( !ea ) {
                    std::ostringstream os;
                    os << "element " << i->first << " (key " << i->second->key << ") removed " << n << " times:";
                    for ( auto k = i; k != j; ++k ) os << ' ' << k->second->how << iv( k->second->inv, k->second->res ) << "/t" << k->second->tid;
                    raise( "final-content", os.str());
                }
            }
            i = j;
        }
        for ( long k = 0; k < nkeys; ++k ) {
            std::set<long> left;
            for ( Add const& a : adds ) if ( a.key == k && !rem_of.count( a.id )) left.insert( a.id );
            std::set<long> fin;
            if ( final_find.count( k )) fin.insert( final_find[k] );
            if ( left != fin ) {
                std::ostringstream os;
                os << "key " << k << ": added and never removed according to the logs: {";
                for ( long x : left ) os << ' ' << x;
                os << " } but the final sweep finds {";
                for ( long x : fin ) os << ' ' << x;
                os << " }";
                // attribute it to erase_at when one of them returned true for this key and a listed element is missing
                bool ea = false;
                for ( Visit const& v : it.v ) if ( v.ea == 1 && v.key == k ) ea = true;
                bool missing = false;
                for ( long x : left ) if ( !fin.count( x )) missing = true;
                bool reappeared = false;
                for ( Visit const& v : it.v ) if ( v.ea == 1 && fin.count( v.id )) reappeared = true;
                if ( reappeared ) raise( "erase-at-true-but-present", os.str());
                else if ( ea && missing ) raise( "erase-at-removed-other", os.str());
                else raise( "final-content", os.str());
            }
        }

        if ( !it.ran ) {
            for ( std::string const& m : more ) out << "X " << m << '\n';
            return;
        }
        if ( it.runaway )
            raise( "runaway", "the iteration did not reach the end within " + std::to_string( c_max_visits ) + " positions" );

        // ---- (a) disposed-current
        for ( Visit const& v : it.v )
            if ( v.d_arrive || v.d_leave ) {
                std::ostringstream os;
                os << "element " << v.key << ':' << v.id << " current during " << iv( v.t_arrive, v.t_leave ) << " was disposed "
                   << ( v.d_arrive ? "when the iterator arrived" : "before the iterator left" )
                   << ( v.ea >= 0 ? " (erase_at called here)" : "" );
                raise( "disposed-current", os.str());
            }

        // ---- (e) phantom
        for ( size_t i = 0; i < it.v.size(); ++i ) {
            Visit const& v = it.v[i];
            long step_begin = i ? it.v[i - 1].t_leave : it.t_begin;     // the iterator step that fetched v ran in ( step_begin, v.t_arrive )
            auto a = add_of.find( v.id );
            std::ostringstream os;
            os << "yielded " << v.key << ':' << v.id << " at " << v.t_arrive << ": ";
            if ( a == add_of.end() || a->second->key != v.key ) {
                os << "no successful operation ever added this element";
                raise( "phantom", os.str());
                continue;
            }
            if ( a->second->inv > v.t_arrive ) {
                os << "it is added by an operation invoked later, at " << a->second->inv;
                raise( "phantom", os.str());
                continue;
            }
            auto rr = rem_of.equal_range( v.id );
            for ( auto k = rr.first; k != rr.second; ++k )
                if ( k->second->res < step_begin ) {
                    os << "it was removed by " << k->second->how << iv( k->second->inv, k->second->res ) << " of thread " << k->second->tid
                       << ", which completed before the iterator step that yielded it began (" << step_begin << ")";
                    raise( "phantom", os.str());
                    break;
                }
        }

        // ---- (b) missed-element
        std::multiset<long> seen;
        std::set<long> throughout;       // elements certainly present for the whole iteration: what C19's "exactly once / in order / at least once" clauses speak about
        for ( Visit const& v : it.v ) seen.insert( v.id );
        for ( Add const& a : adds ) {
            if ( !( a.res < it.t_begin )) continue;          // not certainly present when the iteration began
            bool touched = false;
            for ( Rem const& r : rems )
                if ( r.key == a.key && r.res > a.inv && r.inv < it.t_end ) { touched = true; break; }
            if ( touched ) continue;                         // conservative: some removal of this key may have hit it
            throughout.insert( a.id );
            if ( !seen.count( a.id )) {
                std::ostringstream os;
                os << "element " << a.key << ':' << a.id << " added by " << a.how << iv( a.inv, a.res )
                   << " was present throughout the iteration " << iv( it.t_begin, it.t_end )
                   << " (no successful erase / replacing update / erase_at of key " << a.key << " invoked before it ended) but was not yielded";
                raise( "missed-element", os.str());
            }
        }

        // ---- (c) duplicate-element
        // (only for elements present throughout: the property says nothing about an element that is added, removed or
        //  replaced while the iteration runs)
        if ( c->once )
            for ( auto i = seen.begin(); i != seen.end(); i = seen.upper_bound( *i ))
                if ( seen.count( *i ) > 1 && throughout.count( *i ))
                    raise( "duplicate-element", "element " + std::to_string( *i ) + " yielded " + std::to_string( seen.count( *i )) + " times" );

        // ---- (d) order
        // Among the elements present throughout.  (An element inserted while the iteration runs can be yielded out of
        // order: an insert may reuse the emptied node the iterator stands on and put a smaller key behind it.  The
        // property does not cover such elements; first version of this oracle did and raised a false alarm.)
        if ( c->ordered ) {
            Visit const* prev = nullptr;
            for ( size_t i = 0; i < it.v.size(); ++i ) {
                if ( !throughout.count( it.v[i].id )) continue;
                if ( prev && !( prev->key < it.v[i].key )) {
                    std::ostringstream os;
                    os << "key " << it.v[i].key << " (element " << it.v[i].id << ", at " << it.v[i].t_arrive << ") yielded after key "
                       << prev->key << " (element " << prev->id << ", at " << prev->t_arrive << "), both present throughout";
                    raise( "order", os.str());
                }
                prev = &it.v[i];
            }
        }

        // ---- (f) erase_at
        for ( Visit const& v : it.v ) {
            if ( v.ea < 0 ) continue;
            std::ostringstream who;
            who << "erase_at" << iv( v.ea_inv, v.ea_res ) << " on element " << v.key << ':' << v.id << " returned " << v.ea << ": ";
            auto rr = rem_of.equal_range( v.id );
            if ( v.ea == 1 ) {
                for ( Obs const& o : obss )
                    if ( o.found && o.id == v.id && o.inv > v.ea_res ) {
                        std::ostringstream os;
                        os << who.str() << "find" << iv( o.inv, o.res ) << " of thread " << o.tid << ", invoked later, still finds it";
                        raise( "erase-at-true-but-present", os.str());
                    }
                // ( found again by the final sweep: judged with the conservation rule above )
                for ( auto k = rr.first; k != rr.second; ++k ) {
                    Rem const& r = *k->second;
                    if ( std::string( r.how ) == "erase_at" && r.inv == v.ea_inv ) continue;     // itself
                    std::ostringstream os;
                    os << who.str() << "the same element is also removed by " << r.how << iv( r.inv, r.res ) << " of thread " << r.tid;
                    if ( r.inv > v.ea_res ) raise( "erase-at-true-but-present", os.str() + ", invoked later" );
                    else raise( "erase-at-removed-other", os.str() + ": erase_at cannot have removed this element" );
                }
            }
            else {
                bool explained = false;
                for ( auto k = rr.first; k != rr.second; ++k )
                    if ( k->second->inv < v.ea_res ) explained = true;
                if ( !explained ) {
                    std::ostringstream os;
                    os << who.str() << "no operation invoked before it returned has removed or replaced this element";
                    if ( rr.first == rr.second ) os << " (nobody removes it at all)";
                    raise( "erase-at-false-but-untouched", os.str());
                }
            }
        }

        for ( std::string const& m : more )
            out << "X " << m << '\n';
    }
};

int main( int argc, char** argv )
{
    cds::Initialize();
    {
        cds::gc::HP hp( 16, 16 );
        cds::gc::DHP dhp;
        cds::threading::Manager::attachThread();
        int rc = client_main<Fixture>( argc, argv );
        cds::threading::Manager::detachThread();
        (void) rc;
    }
    cds::Terminate();
    return 0;
}

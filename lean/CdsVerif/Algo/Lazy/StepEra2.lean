/-
  Preservation of the LazyList invariant, and the effect on the abstract map: `unlink_node`: the store into `pPred->m_pNext` (physical removal of the marked node).
-/
import CdsVerif.Algo.Lazy.Inv
namespace CdsVerif.Algo.Lazy
open CdsVerif.Machine CdsVerif.Spec CdsVerif.Lin
open CdsVerif.Algo.Michael (Chain insAfter mem_insAfter pairwise_insAfter LPok)

set_option maxHeartbeats 16000000 in
theorem sinvl_step_eUn {s s' : St} {t : Tid} {ev : Ev} {L : List Nat} {o : OpK} {p c : Nat} {nx : Option Nat} {r : GRet}
    (h : SInvL s L) (hpc : s.pc t = .eUn o p c nx r) (hs : step s t = some (s', ev)) :
    ∃ L', SInvL s' L' ∧ StepEff s t s' L L' := by
  have hz := h.zero_mem
  have htl := h.tailIn
  have hnd := h.nodup
  have hprev := h.lkPrev t p (by simp [hpc, pcPrev])
  have hunp := h.unmP t p (by simp [hpc, knowUnmP])
  have hpL : p ∈ L := hprev.2.resolve_right (by simp [hunp])
  have hlink := h.link t p c (by simp [hpc, knowLink])
  have heun' := h.eun t o p c nx r hpc
  have hpc' := h.pneq t p c (by simp [hpc, pcPrev]) (by simp [hpc, pcCur])
  have hc1 : c ≠ 1 := by
    intro e
    have := heun'.2.1
    rw [e, h.mark1] at this; simp at this
  have hc0 : c ≠ 0 := by
    intro e
    have := heun'.2.1
    rw [e, h.mark0] at this; simp at this
  have hmk : upd s.mark p false = s.mark := funext (fun a => by
    by_cases e : a = p
    · rw [e, upd_same, hunp]
    · rw [upd_other _ _ _ _ e])
  have hmem : ∀ a, a ∈ L.erase c ↔ (a ≠ c ∧ a ∈ L) := fun a => List.Nodup.mem_erase_iff hnd
  have hso' : (L.erase c).Pairwise (LLt s.key) := h.sorted.sublist List.erase_sublist
  have hch' : Chain (upd s.succ p nx) (some 0) (L.erase c) := by
    rw [← heun'.1]; exact Chain.unlink hlink h.chain hnd hpL
  have hhas := has_erase (key := s.key) (val := s.val) hnd heun'.2.1
  pc_facts
  sinv_open h
  simp only [step, hpc] at hs
  simp at hs; obtain ⟨rfl, -⟩ := hs
  rw [hmk]
  step_close (L.erase c)

end CdsVerif.Algo.Lazy
